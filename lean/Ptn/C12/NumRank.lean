import Ptn.C12.NumMain
import Ptn.C12.RankOps
import Ptn.C12.RankBridge
/-! C12, numeric case: the rank (over ℚ, of the zero-padded `m × n` box) of the coefficient matrix is
the same after every primitive of the C13 model of `gaussian_elimination`. -/
namespace Ptn.C12
open Ptn.C13

/-! ### value level -/

/-- Every row `r < m` of `v'` is zero or a combination of two rows `< m` of `v`. -/
def RowsFrom (m : ℕ) (v v' : ℕ → ℕ → ℚ) : Prop :=
  ∀ r, r < m → (∀ c, v' r c = 0) ∨ ∃ (a b : ℚ) (k i : ℕ), k < m ∧ i < m ∧
    ∀ c, v' r c = a * v k c + b * v i c

/-- Transposed entry function. -/
def tr (v : ℕ → ℕ → ℚ) : ℕ → ℕ → ℚ := fun c r => v r c

theorem rk_le_rowsFrom {m : ℕ} (n : ℕ) {v v' : ℕ → ℕ → ℚ} (h : RowsFrom m v v') :
    rk v' m n ≤ rk v m n :=
  rk_le_of_rows v v' m m n fun r hr => (h r hr).imp (fun hz c _ => hz c)
    (fun ⟨a, b, k, i, hk, hi, hc⟩ => ⟨a, b, k, i, hk, hi, fun c _ => hc c⟩)

theorem rk_eq_rowsFrom {m : ℕ} (n : ℕ) {v v' : ℕ → ℕ → ℚ} (h : RowsFrom m v v' ∧ RowsFrom m v' v) :
    rk v' m n = rk v m n :=
  Nat.le_antisymm (rk_le_rowsFrom n h.1) (rk_le_rowsFrom n h.2)

theorem rk_eq_colsFrom (m : ℕ) {n : ℕ} {v v' : ℕ → ℕ → ℚ}
    (h : RowsFrom n (tr v) (tr v') ∧ RowsFrom n (tr v') (tr v)) :
    rk v' m n = rk v m n := by
  have := rk_eq_rowsFrom m h
  rw [show rk (tr v') n m = rk v' m n from rk_transpose v' m n,
    show rk (tr v) n m = rk v m n from rk_transpose v m n] at this
  exact this

/-- Rows `a` and `b` swapped. -/
theorem rowsFrom_swap (m a b : ℕ) (ha : a < m) (hb : b < m) (v v' : ℕ → ℕ → ℚ)
    (h : ∀ r c, v' r c = v (swapIdx a b r) c) : RowsFrom m v v' ∧ RowsFrom m v' v := by
  refine ⟨fun r hr => Or.inr ⟨1, 0, swapIdx a b r, swapIdx a b r, swapIdx_lt' ha hb hr,
    swapIdx_lt' ha hb hr, fun c => by rw [h]; ring⟩,
    fun r hr => Or.inr ⟨1, 0, swapIdx a b r, swapIdx a b r, swapIdx_lt' ha hb hr,
    swapIdx_lt' ha hb hr, fun c => by rw [h, swapIdx_invol]; ring⟩⟩

/-- Every row `k ≠ i` (below `len`) has a multiple of row `i` subtracted. -/
theorem rowsFrom_elim (m len i : ℕ) (hi : i < len) (hlen : len ≤ m) (t : ℕ → ℚ) (v v' : ℕ → ℕ → ℚ)
    (h : ∀ k l, v' k l = if k < len ∧ k ≠ i then v k l - t k * v i l else v k l) :
    RowsFrom m v v' ∧ RowsFrom m v' v := by
  have hii : ∀ l, v' i l = v i l := fun l => by rw [h, if_neg (by omega)]
  constructor
  · intro r hr
    by_cases hc : r < len ∧ r ≠ i
    · exact Or.inr ⟨1, -(t r), r, i, hr, by omega, fun c => by rw [h, if_pos hc]; ring⟩
    · exact Or.inr ⟨1, 0, r, r, hr, hr, fun c => by rw [h, if_neg hc]; ring⟩
  · intro r hr
    by_cases hc : r < len ∧ r ≠ i
    · exact Or.inr ⟨1, t r, r, i, hr, by omega, fun c => by rw [hii, h r c, if_pos hc]; ring⟩
    · exact Or.inr ⟨1, 0, r, r, hr, hr, fun c => by rw [h r c, if_neg hc]; ring⟩

/-- Composite index map of deleting the positions `zs` one after the other. -/
def skips : List ℕ → ℕ → ℕ
  | [], r => r
  | z :: zs, r => skipIdx z (skips zs r)

theorem skipIdx_ge (z r : ℕ) : r ≤ skipIdx z r := by unfold skipIdx; split <;> omega
theorem skipIdx_le (z r : ℕ) : skipIdx z r ≤ r + 1 := by unfold skipIdx; split <;> omega
theorem skipIdx_ne (z r : ℕ) : skipIdx z r ≠ z := by unfold skipIdx; split <;> omega

theorem skips_ge : ∀ (zs : List ℕ) (r : ℕ), r ≤ skips zs r
  | [], r => Nat.le_refl r
  | z :: zs, r => Nat.le_trans (skips_ge zs r) (skipIdx_ge z _)

theorem skips_le : ∀ (zs : List ℕ) (r : ℕ), skips zs r ≤ r + zs.length
  | [], r => Nat.le_refl r
  | z :: zs, r => by
    have := skips_le zs r
    have := skipIdx_le z (skips zs r)
    simp only [skips, List.length_cons]; omega

theorem skips_not_mem : ∀ (zs : List ℕ), List.Pairwise (fun a b => b < a) zs → ∀ r, skips zs r ∉ zs
  | [], _, _ => by simp
  | z :: zs, hd, r => by
    have hp := List.pairwise_cons.mp hd
    have ih := skips_not_mem zs hp.2 r
    intro hm
    rcases List.mem_cons.mp hm with hm | hm
    · exact skipIdx_ne z _ hm
    · have hlt := hp.1 _ hm
      simp only [skips, skipIdx] at hm hlt
      split at hm
      · exact ih hm
      · split at hlt <;> omega

theorem skips_surj : ∀ (zs : List ℕ), List.Pairwise (fun a b => b < a) zs → ∀ k, k ∉ zs →
    ∃ r, skips zs r = k ∧ r ≤ k
  | [], _, k, _ => ⟨k, rfl, Nat.le_refl k⟩
  | z :: zs, hd, k, hk => by
    have hp := List.pairwise_cons.mp hd
    have hkz : k ≠ z := fun e => hk (by simp [e])
    have hkzs : k ∉ zs := fun e => hk (by simp [e])
    by_cases hlt : k < z
    · obtain ⟨r, hr, hle⟩ := skips_surj zs hp.2 k hkzs
      exact ⟨r, by simp [skips, hr, skipIdx, hlt], hle⟩
    · have hk1 : k - 1 ∉ zs := fun e => by have := hp.1 _ e; omega
      obtain ⟨r, hr, hle⟩ := skips_surj zs hp.2 (k - 1) hk1
      refine ⟨r, ?_, by omega⟩
      simp only [skips, hr, skipIdx]
      split <;> omega

/-- The rows `zs` (each zero, or a multiple of a row that stays) are deleted. -/
theorem rowsFrom_skips (m : ℕ) (zs : List ℕ) (hd : List.Pairwise (fun a b => b < a) zs)
    (v v' : ℕ → ℕ → ℚ) (h : ∀ r c, v' r c = v (skips zs r) c)
    (hoob : ∀ r c, m ≤ r → v r c = 0)
    (hz : ∀ z, z ∈ zs → (∀ c, v z c = 0) ∨ ∃ (μ : ℚ) (i : ℕ), i ∉ zs ∧ i < m ∧ ∀ c, v z c = μ * v i c) :
    RowsFrom m v v' ∧ RowsFrom m v' v := by
  constructor
  · intro r hr
    by_cases hs : skips zs r < m
    · exact Or.inr ⟨1, 0, skips zs r, skips zs r, hs, hs, fun c => by rw [h]; ring⟩
    · exact Or.inl fun c => by rw [h]; exact hoob _ _ (by omega)
  · intro k hk
    by_cases hm : k ∈ zs
    · rcases hz k hm with h0 | ⟨μ, i, hi, him, hp⟩
      · exact Or.inl h0
      · obtain ⟨r, hr, hle⟩ := skips_surj zs hd i hi
        exact Or.inr ⟨μ, 0, r, r, by omega, by omega, fun c => by rw [hp, h, hr]; ring⟩
    · obtain ⟨r, hr, hle⟩ := skips_surj zs hd k hm
      exact Or.inr ⟨1, 0, r, r, by omega, by omega, fun c => by rw [h, hr]; ring⟩

/-! ### deletion in the model -/

theorem val_delRow (A : EMat) (z r c : ℕ) : val (delRow A z) r c = val A (skipIdx z r) c := by
  simp only [val, gE, gM_delRow]

theorem val_delCol (A : EMat) (z r c : ℕ) : val (delCol A z) r c = val A r (skipIdx z c) := by
  simp only [val, gE, gM_delCol]

theorem val_delRows : ∀ (zs : List ℕ) (s : St) (r c : ℕ),
    val (s.delRows zs).A r c = val s.A (skips zs r) c
  | [], _, _, _ => rfl
  | z :: zs, s, r, c => by
    rw [delRows_cons, val_delRows zs _ r c]
    exact val_delRow s.A z _ c

theorem val_delCols : ∀ (zs : List ℕ) (s : St) (r c : ℕ),
    val (s.delCols zs).A r c = val s.A r (skips zs c)
  | [], _, _, _ => rfl
  | z :: zs, s, r, c => by
    rw [delCols_cons, val_delCols zs _ r c]
    exact val_delCol s.A z r _

/-! ### `row_elimination` / `column_elimination` keep the rank -/

theorem rk_rowPivot (m n i : ℕ) (s : St) (hnum : NumM s.A) (hi : i < s.A.length)
    (hm : s.A.length ≤ m) : rk (val (rowPivot i s).A) m n = rk (val s.A) m n := by
  rcases rowPivot_cases i s hnum with ⟨he, _⟩ | ⟨j, hij, hj, _, _, he⟩
  · rw [he]
  · rw [he]
    exact rk_eq_rowsFrom n (rowsFrom_swap m i j (by omega) (by omega) _ _
      (fun r c => val_rowSwap s.A i j hi hj r c))

theorem rk_colPivot (m n j : ℕ) (s : St) (hws : WS n s) (hnum : NumM s.A) (hj : j < s.R.length)
    (hn : s.R.length ≤ n) : rk (val (colPivot j s).A) m n = rk (val s.A) m n := by
  rcases colPivot_cases n j s hws hnum with ⟨he, _⟩ | ⟨i, hji, hi, _, _, he⟩
  · rw [he]
  · rw [he]
    exact rk_eq_colsFrom m (rowsFrom_swap n j i (by omega) (by omega) _ _
      (fun c r => val_colSwap s.A s.R.length j i hws.Arect hj hi r c))

/-- One pass of the body of the outer loop of `row_elimination` keeps the rank. -/
theorem rk_rowElimStep (m n i : ℕ) (s : St) (hws : WS n s) (hnum : NumM s.A) (hi : i < s.A.length)
    (hm : s.A.length ≤ m) : rk (val (rowElimStep i s).A) m n = rk (val s.A) m n := by
  obtain ⟨p1, p2⟩ := rowPivot_spec n i s hi
  have ws1 : WS n (rowPivot i s) := (p1 hws).1
  have num1 : NumM (rowPivot i s).A := numM_rowPivot i s hnum
  have hi1 : i < (rowPivot i s).A.length := by rw [p2]; exact hi
  have hpiv := rk_rowPivot m n i s hnum hi hm
  unfold rowElimStep
  simp only
  split
  · exact hpiv
  · rw [gM_eq_num_val num1 i i]
    have inv := rowElim_fold_val n i (val (rowPivot i s).A i i) (rowPivot i s) ws1 num1 hi1
    generalize (List.range (rowPivot i s).A.length).foldl
      (rowElimInner i (Entry.num (val (rowPivot i s).A i i))) (rowPivot i s, []) = r at inv
    have hfold : rk (val r.1.A) m n = rk (val (rowPivot i s).A) m n :=
      rk_eq_rowsFrom n (rowsFrom_elim m (rowPivot i s).A.length i hi1 (by omega)
        (fun k => val (rowPivot i s).A k i / val (rowPivot i s).A i i) _ _ inv.vals)
    have hdel : rk (val (r.1.delRows (sortDesc r.2)).A) m n = rk (val r.1.A) m n :=
      rk_eq_rowsFrom n (rowsFrom_skips m (sortDesc r.2) (pairwise_sortDesc inv.base.nd) _ _
        (fun r' c => val_delRows _ _ r' c)
        (fun r' c hr => val_oob_row (by rw [inv.base.len]; omega) c)
        (fun z hz => Or.inl fun c => (inv.base.zs z (mem_sortDesc.mp hz)).2.2 (fun _ => 0) c))
    rw [hdel, hfold, hpiv]

/-- One pass of the body of the outer loop of `column_elimination` keeps the rank. -/
theorem rk_colElimStep (m n j : ℕ) (s : St) (hws : WS n s) (hnum : NumM s.A) (hj : j < s.R.length)
    (hn : s.R.length ≤ n) : rk (val (colElimStep j s).A) m n = rk (val s.A) m n := by
  obtain ⟨p1, p2⟩ := colPivot_spec n j s hj hws
  have ws1 : WS n (colPivot j s) := (p1 hws).1
  have num1 : NumM (colPivot j s).A := numM_colPivot j s hnum
  have hj1 : j < (colPivot j s).R.length := by rw [p2]; exact hj
  have hpiv := rk_colPivot m n j s hws hnum hj hn
  unfold colElimStep
  simp only
  split
  · exact hpiv
  · rw [gM_eq_num_val num1 j j, width_eq ws1]
    have inv := colElim_fold_val n j (val (colPivot j s).A j j) (colPivot j s) ws1 num1 hj1
    generalize (List.range (colPivot j s).R.length).foldl
      (colElimInner j (Entry.num (val (colPivot j s).A j j))) (colPivot j s, []) = r at inv
    have hfold : rk (val r.1.A) m n = rk (val (colPivot j s).A) m n :=
      rk_eq_colsFrom m (rowsFrom_elim n (colPivot j s).R.length j hj1 (by omega)
        (fun l => val (colPivot j s).A j l / val (colPivot j s).A j j) _ _
        (fun l k => inv.vals k l))
    have hdel : rk (val (r.1.delCols (sortDesc r.2)).A) m n = rk (val r.1.A) m n :=
      rk_eq_colsFrom m (rowsFrom_skips n (sortDesc r.2) (pairwise_sortDesc inv.base.nd) _ _
        (fun c r' => val_delCols _ _ r' c)
        (fun c r' hc => val_oob_col inv.base.ws.Arect (by rw [inv.base.len]; omega) r')
        (fun z hz => Or.inl fun k => (inv.base.zs z (mem_sortDesc.mp hz)).2.2 (fun _ => 0) k))
    rw [hdel, hfold, hpiv]

/-- Invariant of the whole run: shape, numeric entries, and the rank of the input `g`. -/
structure RkInv (m n : ℕ) (g : ℕ → ℕ → ℚ) (s : St) : Prop where
  ws : WS n s
  num : NumM s.A
  rows_le : s.A.length ≤ m
  cols_le : s.R.length ≤ n
  rank : rk (val s.A) m n = rk g m n

theorem rkInv_raise {m n : ℕ} {g : ℕ → ℕ → ℚ} {s : St} (h : RkInv m n g s) (f : Flag) :
    RkInv m n g (s.raise f) :=
  ⟨(rowRel_raise n s f h.ws).1, by rw [raise_A]; exact h.num, by rw [raise_A]; exact h.rows_le,
    by rw [raise_R]; exact h.cols_le, by rw [raise_A]; exact h.rank⟩

theorem rkInv_rowElimStep {m n : ℕ} {g : ℕ → ℕ → ℚ} {s : St} (i : ℕ) (hi : i < s.A.length)
    (h : RkInv m n g s) : RkInv m n g (rowElimStep i s) := by
  obtain ⟨ws', hR, _, hle, _⟩ := rowRel_rowElimStep n i s hi h.ws
  exact ⟨ws', sym_rowElimStep i s h.num, by have := h.rows_le; omega, by rw [hR]; exact h.cols_le,
    (rk_rowElimStep m n i s h.ws h.num hi h.rows_le).trans h.rank⟩

theorem rkInv_colElimStep {m n : ℕ} {g : ℕ → ℕ → ℚ} {s : St} (j : ℕ) (hj : j < s.R.length)
    (h : RkInv m n g s) : RkInv m n g (colElimStep j s) := by
  obtain ⟨ws', _, hA, hle, _⟩ := colRel_colElimStep n j s hj h.ws
  exact ⟨ws', sym_colElimStep j s h.num, by rw [hA]; exact h.rows_le, by have := h.cols_le; omega,
    (rk_colElimStep m n j s h.ws h.num hj h.cols_le).trans h.rank⟩

theorem rkInv_rowElimLoop {m n : ℕ} {g : ℕ → ℕ → ℚ} : ∀ (fuel i : ℕ) (s : St), RkInv m n g s →
    RkInv m n g (rowElimLoop fuel i s) := by
  intro fuel
  induction fuel with
  | zero =>
    intro i s h
    unfold rowElimLoop
    split
    · exact rkInv_raise h _
    · exact h
  | succ fuel ih =>
    intro i s h
    unfold rowElimLoop
    split
    · exact ih _ _ (rkInv_rowElimStep i (by omega) h)
    · exact h

theorem rkInv_colElimLoop {m n : ℕ} {g : ℕ → ℕ → ℚ} : ∀ (fuel j : ℕ) (s : St), RkInv m n g s →
    RkInv m n g (colElimLoop fuel j s) := by
  intro fuel
  induction fuel with
  | zero =>
    intro j s h
    unfold colElimLoop
    split
    · exact rkInv_raise h _
    · exact h
  | succ fuel ih =>
    intro j s h
    unfold colElimLoop
    split
    · rename_i hc
      rw [width_eq h.ws] at hc
      exact ih _ _ (rkInv_colElimStep j (by omega) h)
    · exact h

theorem rkInv_mainLoop {m n : ℕ} {g : ℕ → ℕ → ℚ} : ∀ (fuel nr nro nc nco : ℕ) (s : St),
    RkInv m n g s → RkInv m n g (mainLoop fuel nr nro nc nco s) := by
  intro fuel
  induction fuel with
  | zero =>
    intro nr nro nc nco s h
    unfold mainLoop
    split
    · exact rkInv_raise h _
    · exact h
  | succ fuel ih =>
    intro nr nro nc nco s h
    unfold mainLoop
    split
    · exact ih _ _ _ _ _ (rkInv_colElimLoop _ _ _ (rkInv_rowElimLoop _ _ _ h))
    · exact h

/-! ### de-parallelisation keeps the rank -/

/-- Every flagged position `z < len` has a partner `i < z`, `i < bound`, that is not flagged. -/
def ParList (len : ℕ) (par : ℕ → ℕ → Prop) (bound : ℕ) (zs : List ℕ) : Prop :=
  ∀ z, z ∈ zs → z < len ∧ ∃ i, i ∉ zs ∧ i < bound ∧ i < z ∧ par i z

theorem parList_mono {len : ℕ} {par : ℕ → ℕ → Prop} {b b' : ℕ} {zs : List ℕ} (hb : b ≤ b')
    (h : ParList len par b zs) : ParList len par b' zs :=
  fun z hz => ⟨(h z hz).1, let ⟨i, h1, h2, h3, h4⟩ := (h z hz).2; ⟨i, h1, by omega, h3, h4⟩⟩

theorem parList_snoc {len : ℕ} {par : ℕ → ℕ → Prop} {i j : ℕ} {zs : List ℕ}
    (h : ParList len par (i + 1) zs) (hi : i ∉ zs) (hij : i < j) (hj : j < len) (hp : par i j) :
    ParList len par (i + 1) (zs ++ [j]) ∧ i ∉ zs ++ [j] := by
  have hni : i ∉ zs ++ [j] := by
    intro hm
    rcases List.mem_append.mp hm with hm | hm
    · exact hi hm
    · simp only [List.mem_singleton] at hm; omega
  refine ⟨fun z hz => ?_, hni⟩
  rcases List.mem_append.mp hz with hz | hz
  · obtain ⟨h0, i', h1, h2, h3, h4⟩ := h z hz
    refine ⟨h0, i', ?_, h2, h3, h4⟩
    intro hm
    rcases List.mem_append.mp hm with hm | hm
    · exact h1 hm
    · simp only [List.mem_singleton] at hm; omega
  · simp only [List.mem_singleton] at hz
    subst hz
    exact ⟨hj, i, hni, by omega, hij, hp⟩

/-- Row `z` is a multiple of row `i`. -/
def RowPar (A : EMat) (i z : ℕ) : Prop := ∃ μ : ℚ, ∀ c, val A z c = μ * val A i c
/-- Column `z` is a multiple of column `i`. -/
def ColPar (A : EMat) (i z : ℕ) : Prop := ∃ μ : ℚ, ∀ r, val A r z = μ * val A r i

theorem deparRowsInner_par (n : ℕ) (s : St) (hws : WS n s) (hnes : NESM s.A) (i j : ℕ)
    (hij : i < j) (hj : j < s.A.length) (acc : St × List ℕ)
    (h : ParList s.A.length (RowPar s.A) (i + 1) acc.2 ∧ i ∉ acc.2) :
    ParList s.A.length (RowPar s.A) (i + 1) (deparRowsInner s.A i acc j).2 ∧
      i ∉ (deparRowsInner s.A i acc j).2 := by
  unfold deparRowsInner
  split
  · exact h
  · simp only
    split
    · rename_i hmult
      exact parList_snoc h.1 h.2 hij hj
        ⟨_, fun c => areParallelRow_sound (fun _ => 0) hws.Arect hnes (by omega) hj rfl hmult c⟩
    · exact h

theorem deparRows_loop_par (n : ℕ) (s : St) (hws : WS n s) (hnes : NESM s.A) :
    ParList s.A.length (RowPar s.A) s.A.length
      ((List.range s.A.length).foldl (deparRowsOuter s.A) (s, [])).2 := by
  apply foldl_range_inv (deparRowsOuter s.A)
    (fun i acc => ParList s.A.length (RowPar s.A) i acc.2)
  · intro z hz; simp at hz
  · intro i acc hi h
    unfold deparRowsOuter
    split
    · exact parList_mono (by omega) h
    · rename_i hiz
      have := foldl_mem_inv (deparRowsInner s.A i)
        (fun acc => ParList s.A.length (RowPar s.A) (i + 1) acc.2 ∧ i ∉ acc.2)
        (List.range' (i + 1) (s.A.length - (i + 1))) acc ⟨parList_mono (by omega) h, hiz⟩
        (fun j acc hj hp => by
          simp only [List.mem_range'_1] at hj
          exact deparRowsInner_par n s hws hnes i j (by omega) (by omega) acc hp)
      exact this.1

theorem deparColsInner_par (n : ℕ) (s : St) (hws : WS n s) (hnes : NESM s.A) (i j : ℕ)
    (hij : i < j) (hj : j < s.R.length) (acc : St × List ℕ)
    (h : ParList s.R.length (ColPar s.A) (i + 1) acc.2 ∧ i ∉ acc.2) :
    ParList s.R.length (ColPar s.A) (i + 1) (deparColsInner s.A i acc j).2 ∧
      i ∉ (deparColsInner s.A i acc j).2 := by
  unfold deparColsInner
  split
  · exact h
  · simp only
    split
    · rename_i hmult
      exact parList_snoc h.1 h.2 hij hj
        ⟨_, fun r => areParallelCol_sound (fun _ => 0) hws.Arect hnes (by omega) hj rfl hmult r⟩
    · exact h

theorem deparCols_loop_par (n : ℕ) (s : St) (hws : WS n s) (hnes : NESM s.A) :
    ParList s.R.length (ColPar s.A) s.R.length
      ((List.range (width s.A)).foldl (deparColsOuter s.A) (s, [])).2 := by
  rw [width_eq hws]
  apply foldl_range_inv (deparColsOuter s.A)
    (fun i acc => ParList s.R.length (ColPar s.A) i acc.2)
  · intro z hz; simp at hz
  · intro i acc hi h
    unfold deparColsOuter
    split
    · exact parList_mono (by omega) h
    · rename_i hiz
      have := foldl_mem_inv (deparColsInner s.A i)
        (fun acc => ParList s.R.length (ColPar s.A) (i + 1) acc.2 ∧ i ∉ acc.2)
        (List.range' (i + 1) (width s.A - (i + 1))) acc ⟨parList_mono (by omega) h, hiz⟩
        (fun j acc hj hp => by
          simp only [List.mem_range'_1, width_eq hws] at hj
          exact deparColsInner_par n s hws hnes i j (by omega) (by omega) acc hp)
      exact this.1

theorem rk_deparallelizeRows (m n : ℕ) (s : St) (hws : WS n s) (hnum : NumM s.A)
    (hm : s.A.length ≤ m) : rk (val (deparallelizeRows s).A) m n = rk (val s.A) m n := by
  have hnes := numM_nesm hnum
  have inv := deparRows_loop_inv n s hws hnes
  have par := deparRows_loop_par n s hws hnes
  unfold deparallelizeRows
  simp only
  generalize (List.range s.A.length).foldl (deparRowsOuter s.A) (s, []) = r at inv par
  have hv : ∀ r' c, val (r.1.delRows (sortDesc r.2)).A r' c = val s.A (skips (sortDesc r.2) r') c := by
    intro r' c; rw [val_delRows, inv.hA]
  exact rk_eq_rowsFrom n (rowsFrom_skips m (sortDesc r.2) (pairwise_sortDesc inv.nd) _ _ hv
    (fun r' c hr => val_oob_row (by omega) c)
    (fun z hz => by
      obtain ⟨hzl, i, hi, _, hiz, μ, hμ⟩ := par z (mem_sortDesc.mp hz)
      exact Or.inr ⟨μ, i, fun h => hi (mem_sortDesc.mp h), by omega, hμ⟩))

theorem rk_deparallelizeCols (m n : ℕ) (s : St) (hws : WS n s) (hnum : NumM s.A)
    (hn : s.R.length ≤ n) : rk (val (deparallelizeCols s).A) m n = rk (val s.A) m n := by
  have hnes := numM_nesm hnum
  have inv := deparCols_loop_inv n s hws hnes
  have par := deparCols_loop_par n s hws hnes
  unfold deparallelizeCols
  simp only
  generalize (List.range (width s.A)).foldl (deparColsOuter s.A) (s, []) = r at inv par
  have hv : ∀ c r', val (r.1.delCols (sortDesc r.2)).A r' c = val s.A r' (skips (sortDesc r.2) c) := by
    intro c r'; rw [val_delCols, inv.hA]
  exact rk_eq_colsFrom m (rowsFrom_skips n (sortDesc r.2) (pairwise_sortDesc inv.nd) _ _ hv
    (fun c r' hc => val_oob_col hws.Arect (by omega) r')
    (fun z hz => by
      obtain ⟨hzl, i, hi, _, hiz, μ, hμ⟩ := par z (mem_sortDesc.mp hz)
      exact Or.inr ⟨μ, i, fun h => hi (mem_sortDesc.mp h), by omega, hμ⟩))

/-- **The rank is an invariant of the whole algorithm**: the state at the `return` of
    `gaussian_elimination` on a numeric `m × n` matrix carries a matrix of the same rank. -/
theorem rkInv_gaussSt (M : EMat) (n : ℕ) (hpos : 0 < M.length) (hrect : Rect M n) (hnum : NumM M) :
    RkInv M.length n (val M) (gaussSt M) := by
  have hnes := numM_nesm hnum
  have g0 := good_init M n hpos hrect
  have i0 : RkInv M.length n (val M) { L := identity M.length, A := M, R := identity n, flag := .ok } :=
    ⟨g0.ws, hnum, Nat.le_refl _, g0.cols_le, rfl⟩
  have g1 := good_of_rowRel g0 (rowRel_deparallelizeRows n _ hnes)
  have i1 : RkInv M.length n (val M) (deparallelizeRows
      { L := identity M.length, A := M, R := identity n, flag := .ok }) :=
    ⟨g1.ws, sym_deparallelizeRows _ hnum, g1.rows_le, g1.cols_le,
      (rk_deparallelizeRows M.length n _ g0.ws hnum (Nat.le_refl _)).trans i0.rank⟩
  have hnes1 := nesm_deparallelizeRows n _ g0.ws hnes
  have g2 := good_of_colRel g1 (colRel_deparallelizeCols n _ hnes1)
  have i2 : RkInv M.length n (val M) (deparallelizeCols (deparallelizeRows
      { L := identity M.length, A := M, R := identity n, flag := .ok })) :=
    ⟨g2.ws, sym_deparallelizeCols _ i1.num, g2.rows_le, g2.cols_le,
      (rk_deparallelizeCols M.length n _ g1.ws i1.num g1.cols_le).trans i1.rank⟩
  unfold gaussSt
  simp only
  rw [width_of_rect hrect hpos]
  exact rkInv_mainLoop _ _ _ _ _ _ i2

theorem rank_numMat_eq_rk (A : EMat) (p q : ℕ) : (numMat A p q).rank = rk (val A) p q := rfl

/-- `rank M' = rank Γ` for the matrices over ℚ of the input and of the returned reduced matrix. -/
theorem rank_numMat_eq (M : EMat) (n : ℕ) (hpos : 0 < M.length) (hrect : Rect M n) (hnum : NumM M)
    (L : RMat) (A : EMat) (R : RMat) (h : gaussianElimination M = .ok L A R) :
    (numMat A A.length R.length).rank = (numMat M M.length n).rank := by
  have inv := rkInv_gaussSt M n hpos hrect hnum
  unfold gaussianElimination at h
  simp only at h
  split at h
  · simp only [Outcome.ok.injEq] at h
    obtain ⟨_, hA, hR⟩ := h
    subst hA hR
    rw [rank_numMat_eq_rk, rank_numMat_eq_rk, ← inv.rank]
    exact rk_box _ _ _ _ _ inv.rows_le inv.cols_le (fun r c hr => val_oob_row hr c)
      (fun r c hc => val_oob_col inv.ws.Arect hc r)
  · simp at h
  · simp at h

/-- A cover (two lists of vertices) of the support edges of a numeric matrix has at least `rank`
    vertices. -/
theorem rank_le_list_cover (A : EMat) (hnum : NumM A) (cu cv : List ℕ)
    (hc : ∀ e ∈ suppEdges A, e.1 ∈ cu ∨ e.2 ∈ cv) :
    (numMat A A.length (width A)).rank ≤ cu.length + cv.length := by
  classical
  let Cu : Finset (Fin A.length) := Finset.univ.filter fun i => i.val ∈ cu
  let Cv : Finset (Fin (width A)) := Finset.univ.filter fun j => j.val ∈ cv
  have hcov : Ptn.C01.IsCover (numMat A A.length (width A)) Cu Cv := by
    intro i j hne
    have h1 := (nz_iff_numMat hnum _ _ i j).2 hne
    rcases hc (i.val, j.val) ((mem_suppEdges A _).2 ⟨i.2, j.2, h1⟩) with h | h
    · left
      simp only [Cu, Finset.mem_filter, Finset.mem_univ, true_and]
      exact h
    · right
      simp only [Cv, Finset.mem_filter, Finset.mem_univ, true_and]
      exact h
  have h1 := rank_le_cover _ Cu Cv hcov
  have h2 : Cu.card ≤ cu.toFinset.card := by
    apply Finset.card_le_card_of_injOn (fun i => i.val)
    · intro i hi
      simp only [Cu, Finset.coe_filter, Finset.mem_univ, true_and] at hi
      simpa using hi
    · intro a _ b _ e
      exact Fin.ext e
  have h3 : Cv.card ≤ cv.toFinset.card := by
    apply Finset.card_le_card_of_injOn (fun i => i.val)
    · intro i hi
      simp only [Cv, Finset.coe_filter, Finset.mem_univ, true_and] at hi
      simpa using hi
    · intro a _ b _ e
      exact Fin.ext e
  have h4 := List.toFinset_card_le cu
  have h5 := List.toFinset_card_le cv
  omega

end Ptn.C12
