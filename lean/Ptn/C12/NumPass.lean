import Ptn.C12.NumElim
/-! C12, numeric case (core Lean only): loop invariants of `row_elimination` / `column_elimination`
for passes that delete nothing. -/
namespace Ptn.C12
open Ptn.C13

/-- Invariant of the inner loop of `row_elimination` on a numeric matrix (pivot `p` at `(i, i)`). -/
structure RowNumInv (n i : Nat) (p : Rat) (s1 : St) (j : Nat) (acc : St × List Nat) : Prop where
  base : RowInnerInv n i s1 j acc
  num : NumM acc.1.A
  vals : ∀ k l, val acc.1.A k l =
    if k < j ∧ k ≠ i then val s1.A k l - val s1.A k i / p * val s1.A i l else val s1.A k l

theorem rowNumInv_step (n i : Nat) (p : Rat) (s1 : St) (hi : i < s1.A.length) (j : Nat)
    (acc : St × List Nat) (hj : j < s1.A.length) (h : RowNumInv n i p s1 j acc) :
    RowNumInv n i p s1 (j + 1) (rowElimInner i (Entry.num p) acc j) := by
  refine ⟨rowElimInner_inv n i _ s1 hi j acc hj h.base, numM_rowElimInner i _ acc j h.num, ?_⟩
  intro k l
  rw [rowElimInner_val n i j p acc h.base.ws h.num (by rw [h.base.len]; exact hi)
    (by rw [h.base.len]; exact hj) k l]
  have e1 : ∀ l, val acc.1.A j l = val s1.A j l := by
    intro l; rw [h.vals j l, if_neg (by omega)]
  have e2 : ∀ l, val acc.1.A i l = val s1.A i l := by
    intro l; rw [h.vals i l, if_neg (by omega)]
  rw [e1, e1, e2, h.vals k l]
  by_cases hk : k = j
  · subst hk
    by_cases hki : k = i
    · subst hki; simp
    · have c1 : k = k ∧ k ≠ i := ⟨rfl, hki⟩
      have c2 : k < k + 1 ∧ k ≠ i := ⟨by omega, hki⟩
      rw [if_pos c1, if_pos c2]
  · have c1 : ¬ (k = j ∧ j ≠ i) := fun h => hk h.1
    rw [if_neg c1]
    by_cases hlt : k < j ∧ k ≠ i
    · rw [if_pos hlt, if_pos ⟨by omega, hlt.2⟩]
    · rw [if_neg hlt, if_neg (by omega)]

/-- Result of the inner loop: every row `k ≠ i` became `row k − (A[k][i] / p) · row i`. -/
theorem rowElim_fold_val (n i : Nat) (p : Rat) (s1 : St) (hws : WS n s1) (hnum : NumM s1.A)
    (hi : i < s1.A.length) :
    RowNumInv n i p s1 s1.A.length
      ((List.range s1.A.length).foldl (rowElimInner i (Entry.num p)) (s1, [])) :=
  foldl_range_inv (rowElimInner i (Entry.num p)) (RowNumInv n i p s1) s1.A.length (s1, [])
    ⟨⟨hws, RowRel.refl n _, rfl, List.nodup_nil, fun z hz => by simp at hz⟩, hnum,
      fun k l => by rw [if_neg (by omega)]⟩
    (fun j acc hj hinv => rowNumInv_step n i p s1 hi j acc hj hinv)

theorem sortDesc_nil : sortDesc [] = [] := by simp [sortDesc]

theorem swapIdx_self_left (a b : Nat) : swapIdx a b a = b := by simp [swapIdx]
theorem swapIdx_self_right (a b : Nat) : swapIdx a b b = a := by
  unfold swapIdx; by_cases h : b = a <;> simp [h]
theorem swapIdx_other {a b k : Nat} (h1 : k ≠ a) (h2 : k ≠ b) : swapIdx a b k = k := by
  simp [swapIdx, h1, h2]

/-- What the pivot search of `row_elimination` leaves behind. -/
theorem rowPivot_val (n i : Nat) (s : St) (_hws : WS n s) (hnum : NumM s.A) (hi : i < s.A.length) :
    (∀ c, (∀ r, i ≤ r → val s.A r c = 0) → ∀ r, val (rowPivot i s).A r c = val s.A r c) ∧
    (val (rowPivot i s).A i i = 0 → ∀ r, i ≤ r → val (rowPivot i s).A r i = 0) := by
  rcases rowPivot_cases i s hnum with ⟨he, h⟩ | ⟨j, hij, hj, hz, hnz, he⟩
  · rw [he]
    refine ⟨fun _ _ _ => rfl, fun h0 => ?_⟩
    rcases h with h | h
    · exact absurd h0 h
    · exact h
  · rw [he]
    have hv : ∀ r c, val (s.rowSwap i j).A r c = val s.A (swapIdx i j r) c :=
      fun r c => val_rowSwap s.A i j hi hj r c
    refine ⟨fun c hc r => ?_, fun h0 => ?_⟩
    · rw [hv]
      by_cases h1 : r = i
      · subst h1; rw [swapIdx_self_left, hc j (by omega), hc r (by omega)]
      · by_cases h2 : r = j
        · subst h2; rw [swapIdx_self_right, hc i (by omega), hc r (by omega)]
        · rw [swapIdx_other h1 h2]
    · rw [hv, swapIdx_self_left] at h0
      exact absurd h0 hnz

theorem rat_div_mul_cancel_sub (a p : Rat) (hp : p ≠ 0) : a - a / p * p = 0 := by
  rw [Rat.div_def, Rat.mul_assoc, Rat.inv_mul_cancel _ hp]; grind

/-- **One pass of the outer loop of `row_elimination` that deletes nothing** (numeric matrix):
    (a) a column that vanishes on the rows `≥ i` is left unchanged;
    (b) afterwards column `i` vanishes on the rows `≥ i`, or it is a unit column with its non-zero
        entry on the diagonal. -/
theorem rowElimStep_nodel (n i : Nat) (s : St) (hws : WS n s) (hnum : NumM s.A) (hi : i < s.A.length)
    (hlen : (rowElimStep i s).A.length = s.A.length) :
    (∀ c, (∀ r, i ≤ r → val s.A r c = 0) → ∀ r, val (rowElimStep i s).A r c = val s.A r c) ∧
    ((∀ r, i ≤ r → val (rowElimStep i s).A r i = 0) ∨
     (val (rowElimStep i s).A i i ≠ 0 ∧ ∀ r, r ≠ i → val (rowElimStep i s).A r i = 0)) := by
  obtain ⟨p1, p2⟩ := rowPivot_spec n i s hi
  have ws1 : WS n (rowPivot i s) := (p1 hws).1
  have num1 : NumM (rowPivot i s).A := numM_rowPivot i s hnum
  obtain ⟨P1, P2⟩ := rowPivot_val n i s hws hnum hi
  have hi1 : i < (rowPivot i s).A.length := by rw [p2]; exact hi
  unfold rowElimStep at hlen ⊢
  simp only at hlen ⊢
  split at hlen
  · rename_i hz
    rw [if_pos hz]
    exact ⟨P1, Or.inl (P2 ((isZero_iff_val num1 i i).1 hz))⟩
  · rename_i hz
    rw [if_neg hz]
    have hp : val (rowPivot i s).A i i ≠ 0 :=
      (isZero_false_iff_val num1 i i).1 (by simpa using hz)
    rw [gM_eq_num_val num1 i i] at hlen ⊢
    have inv := rowElim_fold_val n i (val (rowPivot i s).A i i) (rowPivot i s) ws1 num1 hi1
    generalize (List.range (rowPivot i s).A.length).foldl
      (rowElimInner i (Entry.num (val (rowPivot i s).A i i))) (rowPivot i s, []) = r at inv hlen
    obtain ⟨c1, _⟩ := delRows_spec (sortDesc r.2) r.1 (pairwise_sortDesc inv.base.nd)
      (fun z hz' => by rw [inv.base.len]; exact (inv.base.zs z (mem_sortDesc.mp hz')).1)
      inv.base.ws.Lrect inv.base.ws.Arect
    rw [length_sortDesc, hlen, inv.base.len, p2] at c1
    have hnil : r.2 = [] := List.eq_nil_of_length_eq_zero (by omega)
    have hres : r.1.delRows (sortDesc r.2) = r.1 := by
      rw [hnil, sortDesc_nil]; rfl
    rw [hres]
    have hv := inv.vals
    refine ⟨fun c hc r' => ?_, Or.inr ⟨?_, fun r' hr' => ?_⟩⟩
    · rw [hv r' c]
      split
      · rw [P1 c hc i, hc i (Nat.le_refl i), P1 c hc r']; grind
      · exact P1 c hc r'
    · rw [hv i i, if_neg (by omega)]; exact hp
    · rw [hv r' i]
      split
      · exact rat_div_mul_cancel_sub _ _ hp
      · rename_i hc
        exact val_oob_row (by omega) i

/-- Column `c` is a unit column with its non-zero entry on the diagonal. -/
def Pcol (A : EMat) (c : Nat) : Prop := val A c c ≠ 0 ∧ ∀ r, r ≠ c → val A r c = 0
/-- Column `c` vanishes on and below the diagonal. -/
def Zcol (A : EMat) (c : Nat) : Prop := ∀ r, c ≤ r → val A r c = 0
/-- Row `r` is a unit row with its non-zero entry on the diagonal. -/
def Prow (A : EMat) (r : Nat) : Prop := val A r r ≠ 0 ∧ ∀ c, c ≠ r → val A r c = 0
/-- Row `r` vanishes on and to the right of the diagonal. -/
def Zrow (A : EMat) (r : Nat) : Prop := ∀ c, r ≤ c → val A r c = 0

theorem colStruct_congr {A A' : EMat} {c : Nat} (h : ∀ r, val A' r c = val A r c)
    (hs : Pcol A c ∨ Zcol A c) : Pcol A' c ∨ Zcol A' c := by
  rcases hs with hs | hs
  · exact Or.inl ⟨by rw [h]; exact hs.1, fun r hr => by rw [h]; exact hs.2 r hr⟩
  · exact Or.inr fun r hr => by rw [h]; exact hs r hr

theorem colStruct_below {A : EMat} {c i : Nat} (hci : c < i) (hs : Pcol A c ∨ Zcol A c) :
    ∀ r, i ≤ r → val A r c = 0 := by
  intro r hr
  rcases hs with hs | hs
  · exact hs.2 r (by omega)
  · exact hs r (by omega)

/-- **Loop invariant of `row_elimination`** for a run that deletes nothing (numeric matrix): when the
    loop has passed column `i`, every column `c < i` is a unit column with a diagonal pivot or
    vanishes on and below the diagonal. -/
theorem rowElimLoop_nodel (n : Nat) : ∀ (fuel i : Nat) (s : St), WS n s → NumM s.A →
    (rowElimLoop fuel i s).A.length = s.A.length → min s.A.length s.R.length ≤ fuel + i →
    (∀ c, c < i → Pcol s.A c ∨ Zcol s.A c) →
    ∀ c, c < min s.A.length s.R.length → Pcol (rowElimLoop fuel i s).A c ∨ Zcol (rowElimLoop fuel i s).A c := by
  intro fuel
  induction fuel with
  | zero =>
    intro i s hws _ _ hfuel hJ c hc
    unfold rowElimLoop
    rw [width_eq hws, if_neg (by omega)]
    exact hJ c (by omega)
  | succ fuel ih =>
    intro i s hws hnum hlen hfuel hJ c hc
    unfold rowElimLoop at hlen ⊢
    rw [width_eq hws] at hlen ⊢
    by_cases hlt : i < min s.A.length s.R.length
    · rw [if_pos hlt] at hlen ⊢
      have hi : i < s.A.length := by omega
      obtain ⟨ws', hR, _, hle, _⟩ := rowRel_rowElimStep n i s hi hws
      obtain ⟨_, _, _, hle2, _⟩ := rowRel_rowElimLoop n fuel (i + 1) (rowElimStep i s) ws'
      have hlen1 : (rowElimStep i s).A.length = s.A.length := by omega
      have num' : NumM (rowElimStep i s).A := sym_rowElimStep i s hnum
      obtain ⟨ha, hb⟩ := rowElimStep_nodel n i s hws hnum hi hlen1
      have := ih (i + 1) (rowElimStep i s) ws' num' (by omega) (by rw [hlen1, hR]; omega)
        (by
          intro c' hc'
          by_cases h : c' = i
          · subst h
            rcases hb with hb | hb
            · exact Or.inr hb
            · exact Or.inl hb
          · have hlt' : c' < i := by omega
            exact colStruct_congr (ha c' (colStruct_below hlt' (hJ c' hlt'))) (hJ c' hlt'))
        c (by rw [hlen1, hR]; exact hc)
      exact this
    · rw [if_neg hlt]
      exact hJ c (by omega)

/-! ### column side -/

/-- The pivot search of `column_elimination`: nothing happens, or columns `j` and `i > j` are swapped
    where `A[j][j] = 0 ≠ A[j][i]`. -/
theorem colPivot_cases (n j : Nat) (s : St) (hws : WS n s) (hnum : NumM s.A) :
    (colPivot j s = s ∧ (val s.A j j ≠ 0 ∨ ∀ c, j ≤ c → val s.A j c = 0)) ∨
    (∃ i, j < i ∧ i < s.R.length ∧ val s.A j j = 0 ∧ val s.A j i ≠ 0 ∧ colPivot j s = s.colSwap j i) := by
  unfold colPivot
  split
  · rename_i hz
    have hz' := (isZero_iff_val hnum j j).1 hz
    split
    · rename_i i hi
      right
      have hm := List.mem_of_find?_eq_some hi
      have hp := List.find?_some hi
      simp only [List.mem_range'_1, width_eq hws] at hm
      refine ⟨i, by omega, by omega, hz', ?_, rfl⟩
      have : (gM (Entry.num 0) s.A j i).isZero = false := by simpa using hp
      exact (isZero_false_iff_val hnum j i).1 this
    · rename_i hnone
      left
      refine ⟨rfl, Or.inr ?_⟩
      intro c hc
      by_cases hcj : c = j
      · subst hcj; exact hz'
      · by_cases hcl : c < s.R.length
        · have := List.find?_eq_none.1 hnone c (by simp only [List.mem_range'_1, width_eq hws]; omega)
          have hzr : (gM (Entry.num 0) s.A j c).isZero = true := by simpa using this
          exact (isZero_iff_val hnum j c).1 hzr
        · exact val_oob_col hws.Arect (by omega) j
  · rename_i hnz
    left
    refine ⟨rfl, Or.inl ?_⟩
    have : (gM (Entry.num 0) s.A j j).isZero = false := by simpa using hnz
    exact (isZero_false_iff_val hnum j j).1 this

/-- Invariant of the inner loop of `column_elimination` on a numeric matrix (pivot `p` at `(j, j)`). -/
structure ColNumInv (n j : Nat) (p : Rat) (s1 : St) (i : Nat) (acc : St × List Nat) : Prop where
  base : ColInnerInv n j s1 i acc
  num : NumM acc.1.A
  vals : ∀ k l, val acc.1.A k l =
    if l < i ∧ l ≠ j then val s1.A k l - val s1.A j l / p * val s1.A k j else val s1.A k l

theorem colNumInv_step (n j : Nat) (p : Rat) (s1 : St) (hj : j < s1.R.length) (i : Nat)
    (acc : St × List Nat) (hi : i < s1.R.length) (h : ColNumInv n j p s1 i acc) :
    ColNumInv n j p s1 (i + 1) (colElimInner j (Entry.num p) acc i) := by
  refine ⟨colElimInner_inv n j _ s1 hj i acc hi h.base, numM_colElimInner j _ acc i h.num, ?_⟩
  intro k l
  rw [colElimInner_val n j i p acc h.base.ws h.num (by rw [h.base.len]; exact hi) k l]
  have e1 : ∀ k, val acc.1.A k i = val s1.A k i := by
    intro k; rw [h.vals k i, if_neg (by omega)]
  have e2 : ∀ k, val acc.1.A k j = val s1.A k j := by
    intro k; rw [h.vals k j, if_neg (by omega)]
  rw [e1, e1, e2, h.vals k l]
  by_cases hl : l = i
  · subst hl
    by_cases hlj : l = j
    · subst hlj; simp
    · have c1 : l = l ∧ l ≠ j := ⟨rfl, hlj⟩
      have c2 : l < l + 1 ∧ l ≠ j := ⟨by omega, hlj⟩
      rw [if_pos c1, if_pos c2]
  · have c1 : ¬ (l = i ∧ i ≠ j) := fun h => hl h.1
    rw [if_neg c1]
    by_cases hlt : l < i ∧ l ≠ j
    · rw [if_pos hlt, if_pos ⟨by omega, hlt.2⟩]
    · rw [if_neg hlt, if_neg (by omega)]

theorem colElim_fold_val (n j : Nat) (p : Rat) (s1 : St) (hws : WS n s1) (hnum : NumM s1.A)
    (hj : j < s1.R.length) :
    ColNumInv n j p s1 s1.R.length
      ((List.range s1.R.length).foldl (colElimInner j (Entry.num p)) (s1, [])) :=
  foldl_range_inv (colElimInner j (Entry.num p)) (ColNumInv n j p s1) s1.R.length (s1, [])
    ⟨⟨hws, ColRel.refl n _, rfl, List.nodup_nil, fun z hz => by simp at hz⟩, hnum,
      fun k l => by rw [if_neg (by omega)]⟩
    (fun i acc hi hinv => colNumInv_step n j p s1 hj i acc hi hinv)

/-- **One pass of the outer loop of `column_elimination` that deletes nothing** (numeric matrix), in
    terms of the state `s1` after the pivot search: nothing else happens if the pivot is `0`; otherwise
    every column `l ≠ j` becomes `col l − (A[j][l] / pivot) · col j`. -/
theorem colElimStep_val (n j : Nat) (s : St) (hws : WS n s) (hnum : NumM s.A) (hj : j < s.R.length)
    (hlen : (colElimStep j s).R.length = s.R.length) :
    (val (colPivot j s).A j j = 0 → (colElimStep j s).A = (colPivot j s).A) ∧
    (val (colPivot j s).A j j ≠ 0 → ∀ k l, val (colElimStep j s).A k l =
      if l ≠ j then val (colPivot j s).A k l -
        val (colPivot j s).A j l / val (colPivot j s).A j j * val (colPivot j s).A k j
      else val (colPivot j s).A k l) := by
  obtain ⟨p1, p2⟩ := colPivot_spec n j s hj hws
  have ws1 : WS n (colPivot j s) := (p1 hws).1
  have num1 : NumM (colPivot j s).A := numM_colPivot j s hnum
  have hj1 : j < (colPivot j s).R.length := by rw [p2]; exact hj
  unfold colElimStep at hlen ⊢
  simp only at hlen ⊢
  split at hlen
  · rename_i hz
    rw [if_pos hz]
    exact ⟨fun _ => rfl, fun h => absurd ((isZero_iff_val num1 j j).1 hz) h⟩
  · rename_i hz
    rw [if_neg hz]
    have hp : val (colPivot j s).A j j ≠ 0 :=
      (isZero_false_iff_val num1 j j).1 (by simpa using hz)
    refine ⟨fun h => absurd h hp, fun _ => ?_⟩
    rw [gM_eq_num_val num1 j j, width_eq ws1] at hlen ⊢
    have inv := colElim_fold_val n j (val (colPivot j s).A j j) (colPivot j s) ws1 num1 hj1
    generalize (List.range (colPivot j s).R.length).foldl
      (colElimInner j (Entry.num (val (colPivot j s).A j j))) (colPivot j s, []) = r at inv hlen
    obtain ⟨c1, _⟩ := delCols_spec n (sortDesc r.2) r.1 (pairwise_sortDesc inv.base.nd)
      (fun z hz' => by rw [inv.base.len]; exact (inv.base.zs z (mem_sortDesc.mp hz')).1)
      inv.base.ws.Arect inv.base.ws.Rrect
    rw [length_sortDesc, hlen, inv.base.len, p2] at c1
    have hnil : r.2 = [] := List.eq_nil_of_length_eq_zero (by omega)
    have hres : r.1.delCols (sortDesc r.2) = r.1 := by
      rw [hnil, sortDesc_nil]; rfl
    rw [hres]
    intro k l
    rw [inv.vals k l]
    by_cases hl : l ≠ j
    · rw [if_pos hl]
      by_cases hlw : l < (colPivot j s).R.length
      · rw [if_pos ⟨hlw, hl⟩]
      · rw [if_neg (fun h => hlw h.1), val_oob_col ws1.Arect (by omega) k,
          val_oob_col ws1.Arect (by omega) j, Rat.div_def]
        grind
    · rw [if_neg hl, if_neg (fun h => hl h.2)]

/-- Some column `c < w` is zero. -/
def HasZeroCol (A : EMat) (w : Nat) : Prop := ∃ c, c < w ∧ ∀ r, val A r c = 0

theorem swapIdx_lt' {a b k n : Nat} (ha : a < n) (hb : b < n) (hk : k < n) : swapIdx a b k < n := by
  unfold swapIdx; split
  · exact hb
  · split
    · exact ha
    · exact hk

theorem swapIdx_invol (a b k : Nat) : swapIdx a b (swapIdx a b k) = k := by
  unfold swapIdx
  by_cases h1 : k = a
  · subst h1; by_cases h2 : b = k <;> simp [h2]
  · by_cases h2 : k = b
    · subst h2; simp [h1]
    · simp [h1, h2]

/-- A zero column survives one deletion-free pass of the outer loop of `column_elimination`. -/
theorem colElimStep_zeroCol (n j : Nat) (s : St) (hws : WS n s) (hnum : NumM s.A) (hj : j < s.R.length)
    (hlen : (colElimStep j s).R.length = s.R.length) (hz : HasZeroCol s.A s.R.length) :
    HasZeroCol (colElimStep j s).A s.R.length := by
  -- after the pivot search
  have h1 : HasZeroCol (colPivot j s).A s.R.length := by
    rcases colPivot_cases n j s hws hnum with ⟨he, _⟩ | ⟨i, hji, hi, _, _, he⟩
    · rw [he]; exact hz
    · rw [he]
      obtain ⟨c, hc, hzc⟩ := hz
      refine ⟨swapIdx j i c, swapIdx_lt' hj hi hc, fun r => ?_⟩
      show val (colSwapM s.A j i) r (swapIdx j i c) = 0
      rw [val_colSwap s.A s.R.length j i hws.Arect hj hi, swapIdx_invol]
      exact hzc r
  obtain ⟨f0, f1⟩ := colElimStep_val n j s hws hnum hj hlen
  by_cases hp : val (colPivot j s).A j j = 0
  · rw [f0 hp]; exact h1
  · obtain ⟨c, hc, hzc⟩ := h1
    refine ⟨c, hc, fun r => ?_⟩
    have hcj : c ≠ j := fun e => hp (e ▸ hzc j)
    rw [f1 hp r c, if_pos hcj, hzc r, hzc j, Rat.div_def]
    grind

/-- A pass of `column_elimination` on a unit column `j` with non-zero diagonal entry only clears
    the rest of row `j`. -/
theorem colElimStep_unit (n j : Nat) (s : St) (hws : WS n s) (hnum : NumM s.A) (hj : j < s.R.length)
    (hlen : (colElimStep j s).R.length = s.R.length) (hP : Pcol s.A j) :
    (∀ k, k ≠ j → ∀ l, val (colElimStep j s).A k l = val s.A k l) ∧ Prow (colElimStep j s).A j ∧
    val (colElimStep j s).A j j = val s.A j j := by
  have he : colPivot j s = s := by
    rcases colPivot_cases n j s hws hnum with ⟨he, _⟩ | ⟨i, _, _, h0, _, _⟩
    · exact he
    · exact absurd h0 hP.1
  obtain ⟨_, f1⟩ := colElimStep_val n j s hws hnum hj hlen
  rw [he] at f1
  have f := f1 hP.1
  have hjj : val (colElimStep j s).A j j = val s.A j j := by rw [f j j, if_neg (by simp)]
  refine ⟨fun k hk l => ?_, ⟨by rw [hjj]; exact hP.1, fun c hc => ?_⟩, hjj⟩
  · rw [f k l]
    split
    · rw [hP.2 k hk]; grind
    · rfl
  · rw [f j c, if_pos hc]
    exact rat_div_mul_cancel_sub _ _ hP.1

theorem colElimLoop_zeroCol (n : Nat) : ∀ (fuel j : Nat) (s : St), WS n s → NumM s.A →
    (colElimLoop fuel j s).R.length = s.R.length → HasZeroCol s.A s.R.length →
    HasZeroCol (colElimLoop fuel j s).A s.R.length := by
  intro fuel
  induction fuel with
  | zero =>
    intro j s _ _ _ hz
    unfold colElimLoop
    split
    · rw [raise_A]; exact hz
    · exact hz
  | succ fuel ih =>
    intro j s hws hnum hlen hz
    unfold colElimLoop at hlen ⊢
    rw [width_eq hws] at hlen ⊢
    by_cases hlt : j < min s.A.length s.R.length
    · rw [if_pos hlt] at hlen ⊢
      have hj : j < s.R.length := by omega
      obtain ⟨ws', _, _, hle, _⟩ := colRel_colElimStep n j s hj hws
      obtain ⟨_, _, _, hle2, _⟩ := colRel_colElimLoop n fuel (j + 1) (colElimStep j s) ws'
      have hlen1 : (colElimStep j s).R.length = s.R.length := by omega
      have num' : NumM (colElimStep j s).A := sym_colElimStep j s hnum
      have hz' := colElimStep_zeroCol n j s hws hnum hj hlen1 hz
      rw [← hlen1] at hz' ⊢
      exact ih (j + 1) (colElimStep j s) ws' num' (by omega) hz'
    · rw [if_neg hlt]; exact hz

/-- **Loop invariant of `column_elimination`** for a run that deletes nothing and whose result has no
    zero column (numeric matrix whose columns `c < min(m, w)` are unit columns with diagonal pivot or
    vanish on and below the diagonal - what `row_elimination` leaves behind): the rows `r < j` already
    passed are unit rows with diagonal pivot; at the end all rows `r < min(m, w)` are. -/
theorem colElimLoop_nodel (n : Nat) : ∀ (fuel j : Nat) (s : St), WS n s → NumM s.A →
    (colElimLoop fuel j s).R.length = s.R.length → min s.A.length s.R.length ≤ fuel + j →
    (∀ r, r < j → Prow s.A r) →
    (∀ c, c < min s.A.length s.R.length → Pcol s.A c ∨ Zcol s.A c) →
    ¬ HasZeroCol (colElimLoop fuel j s).A s.R.length →
    (∀ r, r < min s.A.length s.R.length → Prow (colElimLoop fuel j s).A r) ∧
    (∀ c, c < min s.A.length s.R.length →
      Pcol (colElimLoop fuel j s).A c ∨ Zcol (colElimLoop fuel j s).A c) := by
  intro fuel
  induction fuel with
  | zero =>
    intro j s hws _ _ hfuel hR hC _
    unfold colElimLoop
    rw [width_eq hws, if_neg (by omega)]
    exact ⟨fun r hr => hR r (by omega), hC⟩
  | succ fuel ih =>
    intro j s hws hnum hlen hfuel hR hC hnz
    have hnz0 : ¬ HasZeroCol s.A s.R.length :=
      fun hz => hnz (colElimLoop_zeroCol n (fuel + 1) j s hws hnum hlen hz)
    unfold colElimLoop at hlen hnz ⊢
    rw [width_eq hws] at hlen hnz ⊢
    by_cases hlt : j < min s.A.length s.R.length
    · rw [if_pos hlt] at hlen hnz ⊢
      have hj : j < s.R.length := by omega
      obtain ⟨ws', _, hAlen, hle, _⟩ := colRel_colElimStep n j s hj hws
      obtain ⟨_, _, _, hle2, _⟩ := colRel_colElimLoop n fuel (j + 1) (colElimStep j s) ws'
      have hlen1 : (colElimStep j s).R.length = s.R.length := by omega
      have num' : NumM (colElimStep j s).A := sym_colElimStep j s hnum
      -- column `j` cannot vanish on and below the diagonal: the rows above are unit rows
      have hP : Pcol s.A j := by
        rcases hC j hlt with h | h
        · exact h
        · exfalso
          apply hnz0
          refine ⟨j, hj, fun r => ?_⟩
          by_cases hrj : r < j
          · exact (hR r hrj).2 j (by omega)
          · exact h r (by omega)
      obtain ⟨u1, u2, u3⟩ := colElimStep_unit n j s hws hnum hj hlen1 hP
      have hR' : ∀ r, r < j + 1 → Prow (colElimStep j s).A r := by
        intro r hr
        by_cases hrj : r = j
        · subst hrj; exact u2
        · have := hR r (by omega)
          exact ⟨by rw [u1 r hrj]; exact this.1, fun c hc => by rw [u1 r hrj]; exact this.2 c hc⟩
      have hC' : ∀ c, c < min (colElimStep j s).A.length (colElimStep j s).R.length →
          Pcol (colElimStep j s).A c ∨ Zcol (colElimStep j s).A c := by
        intro c hc
        rw [hAlen, hlen1] at hc
        by_cases hcj : c = j
        · subst hcj
          exact Or.inl ⟨u2.1, fun r hr => by rw [u1 r hr]; exact hP.2 r hr⟩
        · rcases hC c hc with h | h
          · refine Or.inl ⟨by rw [u1 c hcj]; exact h.1, fun r hr => ?_⟩
            by_cases hrj : r = j
            · subst hrj; exact u2.2 c hcj
            · rw [u1 r hrj]; exact h.2 r hr
          · refine Or.inr fun r hr => ?_
            by_cases hrj : r = j
            · subst hrj; exact u2.2 c hcj
            · rw [u1 r hrj]; exact h r hr
      have := ih (j + 1) (colElimStep j s) ws' num' (by omega) (by rw [hAlen, hlen1]; omega) hR' hC'
        (by rw [hlen1]; exact hnz)
      rw [hAlen, hlen1] at this
      exact this
    · rw [if_neg hlt]
      exact ⟨fun r hr => hR r (by omega), hC⟩

end Ptn.C12
