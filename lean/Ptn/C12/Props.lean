import Ptn.C12.Model
/-! Property theorems for C12. Only property theorems and non-vacuity examples live here. -/
namespace Ptn.C12
end Ptn.C12
