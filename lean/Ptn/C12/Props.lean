import Ptn.C12.Model
import Ptn.C12.Lemmas
import Mathlib.LinearAlgebra.Matrix.Rank
import Ptn.C01.Cut
import Ptn.C01.Fill
/-! Property theorems for C12 (bond dimensions of TTNOs built from Hamiltonians).  Only property
theorems and non-vacuity examples live here.

Covered for every tree and every input: a single-term Hamiltonian gives bond dimension one on every
edge; the uncompressed construction gives the number of terms; no exact factorisation across an edge
can have fewer bond indices than the operator Schmidt rank (so the Schmidt rank is the minimum).
Not covered (decided per input by the harness): that the symbolic-Gaussian-elimination construction
reaches that minimum - it does not always (finding F-C12a). -/
namespace Ptn.C12
open Ptn.C01 Finset

/-- A single-term Hamiltonian: the diagram has exactly one vertex on every edge of the tree, hence
    the TTNO has bond dimension one on every edge - for every tree, every support, every coefficient. -/
theorem single_term_bond_one (t : RTree) (tm : Term) :
    singleBonds t tm = t.edgesBelow.map (·, 1) :=
  bonds_eq 1 t _ (singleAt_over _ _ _ true t) (singleAt_bonds _ _ _ true t)

/-- … and every bond listed is an edge of the tree, each exactly once (keys are the child ends). -/
theorem single_term_bond_keys (t : RTree) (tm : Term) :
    (singleBonds t tm).map Prod.fst = t.edgesBelow := by
  rw [single_term_bond_one]
  simp [Function.comp_def]

/-- The uncompressed construction has one vertex per term on every edge (the worst case the
    compressing methods start from). -/
theorem base_bond_eq_terms (t : RTree) (terms : List Term) (bs : List (Nat × Nat))
    (h : baseBonds t terms = some bs) : bs = t.edgesBelow.map (·, terms.length) := by
  cases terms with
  | nil => simp [baseBonds, baseDiagram] at h
  | cons tm rest =>
    simp only [baseBonds, baseDiagram, Option.map_some, Option.some.injEq] at h
    subst h
    have := fold_bonds t rest (singleTerm t tm) 1 (singleAt_over _ _ _ true t)
      (singleAt_bonds _ _ _ true t)
    have e : (tm :: rest).length = 1 + rest.length := by simp; omega
    rw [e]
    exact bonds_eq _ t _ this.1 this.2

/-- L6.  Cutting an exact TTNO across an edge of bond dimension `r` writes the matricisation
    `H : (operator index on one side) × (operator index on the other side)` of the Hamiltonian as a
    product `L * R` through an `r`-dimensional index.  Hence `r ≥ rank H`, the operator Schmidt rank:
    no exact representation has a smaller bond. -/
theorem bond_ge_schmidt_rank {K : Type*} [Field K] {a b : Type*} [Fintype a] [Fintype b]
    (r : ℕ) (H : Matrix a b K) (L : Matrix a (Fin r) K) (R : Matrix (Fin r) b K) (h : H = L * R) :
    H.rank ≤ r := by
  subst h
  exact (Matrix.rank_mul_le_left L R).trans
    ((Matrix.rank_le_card_width L).trans (Fintype.card_fin r).le)

/-- The bond created at a cut equals the size of the chosen vertex cover: after factorising
    `Γ = L · Γ' · R` and covering the support of `Γ'` by `(Cu, Cv)`, the operator of the cut is a sum of
    exactly `|Cu| + |Cv|` pure tensors (one new vertex each) - the routing of
    `Ptn.C01.cut_preserves`, re-indexed by `Fin (|Cu| + |Cv|)`. -/
theorem bond_eq_cover {K : Type*} [CommSemiring K] {A B C : Type*} [AddCommMonoid A]
    [AddCommMonoid B] [AddCommMonoid C] [Module K A] [Module K B] [Module K C]
    {ι κ ι' κ' : Type*} [Fintype ι] [Fintype κ] [Fintype ι'] [Fintype κ']
    [DecidableEq ι'] [DecidableEq κ']
    (f : A →ₗ[K] B →ₗ[K] C) (U : ι → A) (V : κ → B)
    (Γ : Matrix ι κ K) (L : Matrix ι ι' K) (Γ' : Matrix ι' κ' K) (R : Matrix κ' κ K)
    (h : Γ = L * Γ' * R) (Cu : Finset ι') (Cv : Finset κ') (hc : IsCover Γ' Cu Cv) :
    ∃ (a : Fin (Cu.card + Cv.card) → A) (b : Fin (Cu.card + Cv.card) → B),
      ∑ k, f (a k) (b k) = ∑ u, ∑ v, Γ u v • f (U u) (V v) := by
  have hcard : Fintype.card (↥Cu ⊕ ↥Cv) = Cu.card + Cv.card := by simp
  let e := Fintype.equivFinOfCardEq hcard
  refine ⟨fun k => routeA (fun u' => ∑ u, L u u' • U u) Γ' Cu Cv (e.symm k),
    fun k => routeB (fun v' => ∑ v, R v' v • V v) Γ' Cu Cv (e.symm k), ?_⟩
  rw [← cut_preserves_lem f U V Γ L Γ' R h Cu Cv hc]
  exact Equiv.sum_comp e.symm (fun k => f (routeA (fun u' => ∑ u, L u u' • U u) Γ' Cu Cv k)
    (routeB (fun v' => ∑ v, R v' v • V v) Γ' Cu Cv k))

/-- No cover can be smaller than the rank of the (reduced) coefficient matrix: a cover `(Cu, Cv)` of
    the support of `G` factors `G` through `|Cu| + |Cv|` indices.  (That a *minimum* cover of the reduced
    matrix reaches the rank is the unproved part, see F-C12a.) -/
theorem cover_ge_rank {F : Type*} [Field F] {ι κ : Type*} [Fintype ι] [Fintype κ]
    [DecidableEq ι] [DecidableEq κ] (G : Matrix ι κ F) (Cu : Finset ι) (Cv : Finset κ)
    (hc : IsCover G Cu Cv) : G.rank ≤ Cu.card + Cv.card := by
  let L : Matrix ι (↥Cu ⊕ ↥Cv) F := fun i k =>
    match k with
    | .inl c => if i = c.1 then 1 else 0
    | .inr c => if i ∈ Cu then 0 else G i c.1
  let R : Matrix (↥Cu ⊕ ↥Cv) κ F := fun k j =>
    match k with
    | .inl c => G c.1 j
    | .inr c => if j = c.1 then 1 else 0
  have hG : G = L * R := by
    ext i j
    rw [Matrix.mul_apply, Fintype.sum_sum_type]
    simp only [L, R]
    have h1 : ∑ c : ↥Cu, (if i = c.1 then (1 : F) else 0) * G c.1 j = if i ∈ Cu then G i j else 0 := by
      rw [Finset.sum_coe_sort Cu (fun c => (if i = c then (1 : F) else 0) * G c j)]
      simp [Finset.sum_ite_eq]
    have h2 : ∑ c : ↥Cv, (if i ∈ Cu then (0 : F) else G i c.1) * (if j = c.1 then 1 else 0) =
        if j ∈ Cv then (if i ∈ Cu then 0 else G i j) else 0 := by
      rw [Finset.sum_coe_sort Cv (fun c => (if i ∈ Cu then (0 : F) else G i c) * (if j = c then 1 else 0))]
      simp [Finset.sum_ite_eq]
    rw [h1, h2]
    by_cases hi : i ∈ Cu
    · simp [hi]
    · by_cases hj : j ∈ Cv
      · simp [hi, hj]
      · have : G i j = 0 := by
          by_contra hne
          rcases hc i j hne with h | h
          · exact hi h
          · exact hj h
        simp [hi, hj, this]
  rw [hG]
  calc (L * R).rank ≤ L.rank := Matrix.rank_mul_le_left L R
    _ ≤ Fintype.card (↥Cu ⊕ ↥Cv) := Matrix.rank_le_card_width L
    _ = Cu.card + Cv.card := by simp
/-- The TTNO actually built (`from_state_diagram`) from a single-term Hamiltonian exists and has bond
    dimension one on every edge: bond dimensions of the filled tensors are the vertex counts
    (`Ptn.C01.fill_bonds`). -/
theorem single_term_ttno_bond_one (dimOf : String → Nat) (t : RTree) (tm : Term) :
    ∃ T, fillTTNO dimOf (singleTerm t tm) = some T ∧ T.bondsBelow = t.edgesBelow.map (·, 1) := by
  obtain ⟨T, hT⟩ := fill_defined_aux dimOf (singleTerm t tm) true (singleAt_WF _ _ _ true t)
    (singleAt_populated _ _ _ true t)
  refine ⟨T, hT, ?_⟩
  rw [fill_bonds dimOf _ true T hT]
  exact single_term_bond_one t tm

/-- For any diagram the bond dimensions of the filled TTNO are the numbers of vertices per edge: every
    statement about vertex counts (`base_bond_eq_terms`, `bond_eq_cover`) is a statement about the
    tensors' shapes. -/
theorem ttno_bonds_eq_vertex_counts (dimOf : String → Nat) (d : SD) (T : TTNO)
    (h : fillTTNO dimOf d = some T) : T.bondsBelow = bondDims d :=
  fill_bonds dimOf d true T h

/-! ### Non-vacuity -/

-- a cover as required by `bond_eq_cover` / `cover_ge_rank`: the row of a 1 × 2 matrix
example : IsCover (Matrix.of fun (_ : Fin 1) (_ : Fin 2) => (1 : ℚ)) {0} ∅ := by
  intro i j _; left; simp; exact Subsingleton.elim i 0


example : singleBonds exTree exT1 = [(2, 1), (1, 1), (3, 1)] := by decide +kernel
example : baseBonds exTree [exT1, exT2, exT1] = some [(2, 3), (1, 3), (3, 3)] := by decide +kernel
example : exTree.edgesBelow = [2, 1, 3] := by decide +kernel

-- the bound of `bond_ge_schmidt_rank` is attained: the 2 × 2 identity has rank 2 and factors through 2
example : (1 : Matrix (Fin 2) (Fin 2) ℚ) = (1 : Matrix (Fin 2) (Fin 2) ℚ) * 1 := by simp
example : (1 : Matrix (Fin 2) (Fin 2) ℚ).rank = 2 := by simp

end Ptn.C12
