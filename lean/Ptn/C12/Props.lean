import Ptn.C12.Model
import Ptn.C12.Lemmas
import Mathlib.LinearAlgebra.Matrix.Rank
/-! Property theorems for C12 (bond dimensions of TTNOs built from Hamiltonians).  Only property
theorems and non-vacuity examples live here.

Covered for every tree and every input: a single-term Hamiltonian gives bond dimension one on every
edge; the uncompressed construction gives the number of terms; no exact factorisation across an edge
can have fewer bond indices than the operator Schmidt rank (so the Schmidt rank is the minimum).
Not covered (decided per input by the harness): that the symbolic-Gaussian-elimination construction
reaches that minimum - it does not always (finding F-C12a). -/
namespace Ptn.C12
open Ptn.C01

/-- A single-term Hamiltonian: the diagram has exactly one vertex on every edge of the tree, hence
    the TTNO has bond dimension one on every edge - for every tree, every support, every coefficient. -/
theorem single_term_bond_one (t : RTree) (tm : Term) :
    singleBonds t tm = t.edgesBelow.map (·, 1) :=
  bonds_eq 1 t _ (singleAt_over _ _ _ true t) (singleAt_bonds _ _ _ true t)

/-- … and every bond listed is an edge of the tree, each exactly once (keys are the child ends). -/
theorem single_term_bond_keys (t : RTree) (tm : Term) :
    (singleBonds t tm).map Prod.fst = t.edgesBelow := by
  rw [single_term_bond_one]
  simp [Function.comp_def]

/-- The uncompressed construction has one vertex per term on every edge (the worst case the
    compressing methods start from). -/
theorem base_bond_eq_terms (t : RTree) (terms : List Term) (bs : List (Nat × Nat))
    (h : baseBonds t terms = some bs) : bs = t.edgesBelow.map (·, terms.length) := by
  cases terms with
  | nil => simp [baseBonds, baseDiagram] at h
  | cons tm rest =>
    simp only [baseBonds, baseDiagram, Option.map_some, Option.some.injEq] at h
    subst h
    have := fold_bonds t rest (singleTerm t tm) 1 (singleAt_over _ _ _ true t)
      (singleAt_bonds _ _ _ true t)
    have e : (tm :: rest).length = 1 + rest.length := by simp; omega
    rw [e]
    exact bonds_eq _ t _ this.1 this.2

/-- L6.  Cutting an exact TTNO across an edge of bond dimension `r` writes the matricisation
    `H : (operator index on one side) × (operator index on the other side)` of the Hamiltonian as a
    product `L * R` through an `r`-dimensional index.  Hence `r ≥ rank H`, the operator Schmidt rank:
    no exact representation has a smaller bond. -/
theorem bond_ge_schmidt_rank {K : Type*} [Field K] {a b : Type*} [Fintype a] [Fintype b]
    (r : ℕ) (H : Matrix a b K) (L : Matrix a (Fin r) K) (R : Matrix (Fin r) b K) (h : H = L * R) :
    H.rank ≤ r := by
  subst h
  exact (Matrix.rank_mul_le_left L R).trans
    ((Matrix.rank_le_card_width L).trans (Fintype.card_fin r).le)

/-! ### Non-vacuity -/

example : singleBonds exTree exT1 = [(2, 1), (1, 1), (3, 1)] := by decide +kernel
example : baseBonds exTree [exT1, exT2, exT1] = some [(2, 3), (1, 3), (3, 3)] := by decide +kernel
example : exTree.edgesBelow = [2, 1, 3] := by decide +kernel

-- the bound of `bond_ge_schmidt_rank` is attained: the 2 × 2 identity has rank 2 and factors through 2
example : (1 : Matrix (Fin 2) (Fin 2) ℚ) = (1 : Matrix (Fin 2) (Fin 2) ℚ) * 1 := by simp
example : (1 : Matrix (Fin 2) (Fin 2) ℚ).rank = 2 := by simp

end Ptn.C12
