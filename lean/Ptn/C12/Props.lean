import Ptn.C12.Model
import Ptn.C12.Lemmas
import Ptn.C12.Reduced
import Ptn.C12.Rank
import Ptn.C12.RankBridge
import Ptn.C12.NumMain
import Ptn.C12.NumRank
import Ptn.C12.NumNZ
import Ptn.C12.General
import Ptn.C12.ColsPos
import Mathlib.LinearAlgebra.Matrix.Rank
import Ptn.C01.Cut
import Ptn.C01.Fill
/-! Property theorems for C12 (bond dimensions of TTNOs built from Hamiltonians).  Only property
theorems and non-vacuity examples live here.

Covered for every tree and every input: a single-term Hamiltonian gives bond dimension one on every
edge; the uncompressed construction gives the number of terms; no exact factorisation across an edge
can have fewer bond indices than the operator Schmidt rank (so the Schmidt rank is the minimum).
Not covered (decided per input by the harness): that the symbolic-Gaussian-elimination construction
reaches that minimum - it does not always (finding F-C12a). -/
namespace Ptn.C12
open Ptn.C01 Finset

/-- A single-term Hamiltonian: the diagram has exactly one vertex on every edge of the tree, hence
    the TTNO has bond dimension one on every edge - for every tree, every support, every coefficient. -/
theorem single_term_bond_one (t : RTree) (tm : Term) :
    singleBonds t tm = t.edgesBelow.map (·, 1) :=
  bonds_eq 1 t _ (singleAt_over _ _ _ true t) (singleAt_bonds _ _ _ true t)

/-- … and every bond listed is an edge of the tree, each exactly once (keys are the child ends). -/
theorem single_term_bond_keys (t : RTree) (tm : Term) :
    (singleBonds t tm).map Prod.fst = t.edgesBelow := by
  rw [single_term_bond_one]
  simp [Function.comp_def]

/-- The uncompressed construction has one vertex per term on every edge (the worst case the
    compressing methods start from). -/
theorem base_bond_eq_terms (t : RTree) (terms : List Term) (bs : List (Nat × Nat))
    (h : baseBonds t terms = some bs) : bs = t.edgesBelow.map (·, terms.length) := by
  cases terms with
  | nil => simp [baseBonds, baseDiagram] at h
  | cons tm rest =>
    simp only [baseBonds, baseDiagram, Option.map_some, Option.some.injEq] at h
    subst h
    have := fold_bonds t rest (singleTerm t tm) 1 (singleAt_over _ _ _ true t)
      (singleAt_bonds _ _ _ true t)
    have e : (tm :: rest).length = 1 + rest.length := by simp; omega
    rw [e]
    exact bonds_eq _ t _ this.1 this.2

/-- L6.  Cutting an exact TTNO across an edge of bond dimension `r` writes the matricisation
    `H : (operator index on one side) × (operator index on the other side)` of the Hamiltonian as a
    product `L * R` through an `r`-dimensional index.  Hence `r ≥ rank H`, the operator Schmidt rank:
    no exact representation has a smaller bond. -/
theorem bond_ge_schmidt_rank {K : Type*} [Field K] {a b : Type*} [Fintype a] [Fintype b]
    (r : ℕ) (H : Matrix a b K) (L : Matrix a (Fin r) K) (R : Matrix (Fin r) b K) (h : H = L * R) :
    H.rank ≤ r := by
  subst h
  exact (Matrix.rank_mul_le_left L R).trans
    ((Matrix.rank_le_card_width L).trans (Fintype.card_fin r).le)

/-- The bond created at a cut equals the size of the chosen vertex cover: after factorising
    `Γ = L · Γ' · R` and covering the support of `Γ'` by `(Cu, Cv)`, the operator of the cut is a sum of
    exactly `|Cu| + |Cv|` pure tensors (one new vertex each) - the routing of
    `Ptn.C01.cut_preserves`, re-indexed by `Fin (|Cu| + |Cv|)`. -/
theorem bond_eq_cover {K : Type*} [CommSemiring K] {A B C : Type*} [AddCommMonoid A]
    [AddCommMonoid B] [AddCommMonoid C] [Module K A] [Module K B] [Module K C]
    {ι κ ι' κ' : Type*} [Fintype ι] [Fintype κ] [Fintype ι'] [Fintype κ']
    [DecidableEq ι'] [DecidableEq κ']
    (f : A →ₗ[K] B →ₗ[K] C) (U : ι → A) (V : κ → B)
    (Γ : Matrix ι κ K) (L : Matrix ι ι' K) (Γ' : Matrix ι' κ' K) (R : Matrix κ' κ K)
    (h : Γ = L * Γ' * R) (Cu : Finset ι') (Cv : Finset κ') (hc : IsCover Γ' Cu Cv) :
    ∃ (a : Fin (Cu.card + Cv.card) → A) (b : Fin (Cu.card + Cv.card) → B),
      ∑ k, f (a k) (b k) = ∑ u, ∑ v, Γ u v • f (U u) (V v) := by
  have hcard : Fintype.card (↥Cu ⊕ ↥Cv) = Cu.card + Cv.card := by simp
  let e := Fintype.equivFinOfCardEq hcard
  refine ⟨fun k => routeA (fun u' => ∑ u, L u u' • U u) Γ' Cu Cv (e.symm k),
    fun k => routeB (fun v' => ∑ v, R v' v • V v) Γ' Cu Cv (e.symm k), ?_⟩
  rw [← cut_preserves_lem f U V Γ L Γ' R h Cu Cv hc]
  exact Equiv.sum_comp e.symm (fun k => f (routeA (fun u' => ∑ u, L u u' • U u) Γ' Cu Cv k)
    (routeB (fun v' => ∑ v, R v' v • V v) Γ' Cu Cv k))

/-- No cover can be smaller than the rank of the (reduced) coefficient matrix: a cover `(Cu, Cv)` of
    the support of `G` factors `G` through `|Cu| + |Cv|` indices.  (That a *minimum* cover of the reduced
    matrix reaches the rank is the unproved part, see F-C12a.) -/
theorem cover_ge_rank {F : Type*} [Field F] {ι κ : Type*} [Fintype ι] [Fintype κ]
    [DecidableEq ι] [DecidableEq κ] (G : Matrix ι κ F) (Cu : Finset ι) (Cv : Finset κ)
    (hc : IsCover G Cu Cv) : G.rank ≤ Cu.card + Cv.card :=
  rank_le_cover G Cu Cv hc

/-- The TTNO actually built (`from_state_diagram`) from a single-term Hamiltonian exists and has bond
    dimension one on every edge: bond dimensions of the filled tensors are the vertex counts
    (`Ptn.C01.fill_bonds`). -/
theorem single_term_ttno_bond_one (dimOf : String → Nat) (t : RTree) (tm : Term) :
    ∃ T, fillTTNO dimOf (singleTerm t tm) = some T ∧ T.bondsBelow = t.edgesBelow.map (·, 1) := by
  obtain ⟨T, hT⟩ := fill_defined_aux dimOf (singleTerm t tm) true (singleAt_WF _ _ _ true t)
    (singleAt_populated _ _ _ true t)
  refine ⟨T, hT, ?_⟩
  rw [fill_bonds dimOf _ true T hT]
  exact single_term_bond_one t tm

/-- For any diagram the bond dimensions of the filled TTNO are the numbers of vertices per edge: every
    statement about vertex counts (`base_bond_eq_terms`, `bond_eq_cover`) is a statement about the
    tensors' shapes. -/
theorem ttno_bonds_eq_vertex_counts (dimOf : String → Nat) (d : SD) (T : TTNO)
    (h : fillTTNO dimOf d = some T) : T.bondsBelow = bondDims d :=
  fill_bonds dimOf d true T h

/-! ### Non-vacuity -/

-- a cover as required by `bond_eq_cover` / `cover_ge_rank`: the row of a 1 × 2 matrix
example : IsCover (Matrix.of fun (_ : Fin 1) (_ : Fin 2) => (1 : ℚ)) {0} ∅ := by
  intro i j _; left; simp; exact Subsingleton.elim i 0


example : singleBonds exTree exT1 = [(2, 1), (1, 1), (3, 1)] := by decide +kernel
example : baseBonds exTree [exT1, exT2, exT1] = some [(2, 3), (1, 3), (3, 3)] := by decide +kernel
example : exTree.edgesBelow = [2, 1, 3] := by decide +kernel

-- the bound of `bond_ge_schmidt_rank` is attained: the 2 × 2 identity has rank 2 and factors through 2
example : (1 : Matrix (Fin 2) (Fin 2) ℚ) = (1 : Matrix (Fin 2) (Fin 2) ℚ) * 1 := by simp
example : (1 : Matrix (Fin 2) (Fin 2) ℚ).rank = 2 := by simp

/-! ### numeric (symbol-free) coefficient matrices

For a rational `Γ` symbolic Gaussian elimination is ordinary Gaussian elimination.  Vocabulary
(`Reduced.lean`, `Rank.lean`, `RankBridge.lean`): `nz A i j` is the Python test `A[i][j] != 0`,
`suppEdges A` the edge list handed to `BipartiteGraph`, `FullyReduced A` "at most one non-zero entry
in every row and every column", `NumM A` "no symbolic entry", `numMat A p q` the `p × q` matrix over
ℚ of a numeric `A`.  The model of `gaussian_elimination` is the one of property C13, the model of
`minimum_vertex_cover` the one of property C14. -/

/-- **Cover of a fully reduced matrix.**  If the reduced matrix has at most one non-zero entry per row
    and per column, then its non-zero entries are a matching, the rows carrying them are a cover, every
    cover has at least as many vertices as there are non-zero entries, and the model of
    `minimum_vertex_cover` on `BipartiteGraph(m, n, edges)` returns a cover of exactly that size. -/
theorem cover_of_fully_reduced (A : Ptn.C13.EMat) (n : Nat) (hpos : 0 < A.length) (hn : 0 < n)
    (hrect : Ptn.C13.Rect A n) (h : FullyReduced A) :
    Ptn.C14.IsMatching (fun i j => nz A i j = true) (suppEdges A) ∧
    Ptn.C14.IsCover (fun i j => nz A i j = true) ((suppEdges A).map Prod.fst) [] ∧
    (∀ cu cv, Ptn.C14.IsCover (fun i j => nz A i j = true) cu cv →
      (suppEdges A).length ≤ cu.length + cv.length) ∧
    ∃ g M cu cv, Ptn.C14.mkGraph A.length n (suppEdges A) = some g ∧
      Ptn.C14.minimumVertexCover g = .ok (M, cu, cv) ∧
      (∀ p ∈ suppEdges A, p.1 ∈ cu ∨ p.2 ∈ cv) ∧
      cu.length + cv.length = (suppEdges A).length := by
  have hM := suppEdges_isMatching A h
  have hC := suppEdges_rows_cover A n hpos hrect
  have hw : Ptn.C13.width A = n := Ptn.C13.width_of_rect hrect hpos
  refine ⟨hM, hC, fun cu cv hc => Ptn.C14.weak_duality _ _ cu cv hM hc, ?_⟩
  obtain ⟨g, M, cu, cv, hg, hmvc, hMsub, hMl, hMr, hcov, _, _, _, _, hsz, hmax, hmin⟩ :=
    Ptn.C14.mvc_correct_input A.length n (suppEdges A) hpos hn (fun p hp => by
      have := (mem_suppEdges A p).1 hp
      exact ⟨this.1, hw ▸ this.2.1⟩)
  refine ⟨g, M, cu, cv, hg, hmvc, hcov, ?_⟩
  have h1 : (suppEdges A).length ≤ M.length := hmax (suppEdges A) (fun _ hp => hp) hM.left hM.right
  have h2 := hmin ((suppEdges A).map Prod.fst) [] (fun p hp => Or.inl (List.mem_map.2 ⟨p, hp, rfl⟩))
  simp only [List.length_map, List.length_nil] at h2
  omega

/-- **Rank of a fully reduced matrix** (any field): the rank is the number of non-zero entries, and
    the rows carrying them are a cover of the support with exactly `rank` vertices - a minimum cover
    by `cover_ge_rank`. -/
theorem rank_of_fully_reduced {F : Type*} [Field F] [DecidableEq F] {ι κ : Type*} [Fintype ι]
    [Fintype κ] [DecidableEq ι] [DecidableEq κ] (G : Matrix ι κ F) (h : MFullyReduced G) :
    G.rank = (msupport G).card ∧ IsCover G (msupportRows G) ∅ ∧ (msupportRows G).card = G.rank := by
  have h1 := card_msupport_le_rank G h
  have h2 := cover_ge_rank G (msupportRows G) ∅ (msupportRows_cover G)
  have h3 := msupportRows_card G h
  simp only [card_empty] at h2
  exact ⟨by omega, msupportRows_cover G, by omega⟩

/-- **rank Γ ≤ rank M'** for every numeric rectangular `Γ` (no hypothesis on the reduced matrix): the
    factorisation `Γ = L · M' · R` of `Ptn.C13.sge_exact`, read over ℚ. -/
theorem sge_numeric_rank_le_reduced (M : Ptn.C13.EMat) (n : Nat) (hpos : 0 < M.length)
    (hrect : Ptn.C13.Rect M n) (hnum : NumM M) (L : Ptn.C13.RMat) (A : Ptn.C13.EMat) (R : Ptn.C13.RMat)
    (h : Ptn.C13.gaussianElimination M = .ok L A R) :
    numMat M M.length n = ratMat L M.length A.length * numMat A A.length R.length * ratMat R R.length n ∧
    (numMat M M.length n).rank ≤ (numMat A A.length R.length).rank :=
  ⟨numMat_factor M n hpos hrect hnum L A R h, rank_numMat_le M n hpos hrect hnum L A R h⟩

/-- **Bond of a numeric cut, partial.**  Numeric rectangular `Γ`, reduced by the model of
    `gaussian_elimination` to `M'` (with at least one column).  IF `M'` is fully reduced, then the model
    of `minimum_vertex_cover` on the support graph of `M'` returns a cover whose size is the number of
    non-zero entries of `M'` = `rank M'` ≥ `rank Γ`; it equals `rank Γ` as soon as `rank M' ≤ rank Γ`.
    Missing for the full statement `sge_numeric_bond_eq_rank`: (1) `FullyReduced M'` - false in general
    (`sge_numeric_not_fully_reduced`), expected for `Γ` without zero rows / columns, not proved;
    (2) `rank M' ≤ rank Γ`, i.e. that `L` has a left and `R` a right inverse (they are products of
    elementary operations with columns / rows deleted), not proved. -/
theorem sge_numeric_bond_eq_rank_partial (M : Ptn.C13.EMat) (n : Nat) (hpos : 0 < M.length)
    (hrect : Ptn.C13.Rect M n) (hnum : NumM M) (L : Ptn.C13.RMat) (A : Ptn.C13.EMat) (R : Ptn.C13.RMat)
    (h : Ptn.C13.gaussianElimination M = .ok L A R) (hq : 0 < R.length) (hfr : FullyReduced A) :
    ∃ g Mt cu cv, Ptn.C14.mkGraph A.length R.length (suppEdges A) = some g ∧
      Ptn.C14.minimumVertexCover g = .ok (Mt, cu, cv) ∧
      cu.length + cv.length = (suppEdges A).length ∧
      cu.length + cv.length = (numMat A A.length R.length).rank ∧
      (numMat M M.length n).rank ≤ cu.length + cv.length ∧
      ((numMat A A.length R.length).rank ≤ (numMat M M.length n).rank →
        cu.length + cv.length = (numMat M M.length n).rank) := by
  obtain ⟨⟨_, _, hA, _⟩, ⟨hApos, _, _⟩, _⟩ :=
    Ptn.C13.sge_exact M n hpos hrect (numM_nesm hnum) L A R h
  have hnumA : NumM A := Ptn.C13.sge_no_new_symbols M (fun _ => False) hnum L A R h
  obtain ⟨_, _, _, g, Mt, cu, cv, hg, hmvc, _, hsz⟩ := cover_of_fully_reduced A R.length hApos hq hA hfr
  have hw : Ptn.C13.width A = R.length := Ptn.C13.width_of_rect hA hApos
  have hrk := length_suppEdges_eq_rank A hnumA hfr
  rw [hw] at hrk
  have hle := rank_numMat_le M n hpos hrect hnum L A R h
  exact ⟨g, Mt, cu, cv, hg, hmvc, hsz, by omega, by omega, fun hge => by omega⟩

/-- **The reduced matrix of a numeric `Γ` is fully reduced - partial.**  For every numeric rectangular
    `Γ` (any size): if the matrix `M'` returned by the model of `gaussian_elimination` has no zero row
    and no zero column, then it is square, its non-zero entries are exactly the diagonal ones, and in
    particular it has exactly one non-zero entry in every row and in every column.
    Proof: the fixed-point loop ends after a pass that deleted nothing (`mainLoop_last_pass`); in such a
    pass `row_elimination` leaves every column `c < min(m, n)` as a unit column with diagonal pivot or
    zero on and below the diagonal (`rowElimLoop_nodel`), `column_elimination` then meets a non-zero
    diagonal pivot in every row (a column that is zero on and below the diagonal next to unit rows
    above would be a zero column, and zero columns survive to the end: `colElimLoop_zeroCol`) and only
    clears the rest of the pivot's row (`colElimLoop_nodel`).
    Missing for the full statement `sge_numeric_fully_reduced`: that `M'` has no zero row / column
    whenever `Γ` has none (observed in every sampled case, not proved; it is false that `M'` is fully
    reduced for every `Γ`: `sge_numeric_not_fully_reduced`). -/
theorem sge_numeric_fully_reduced_partial (M : Ptn.C13.EMat) (n : Nat) (hpos : 0 < M.length)
    (hrect : Ptn.C13.Rect M n) (hnum : NumM M) (L : Ptn.C13.RMat) (A : Ptn.C13.EMat) (R : Ptn.C13.RMat)
    (h : Ptn.C13.gaussianElimination M = .ok L A R)
    (hrows : ∀ r, r < A.length → ∃ c, nz A r c = true)
    (hcols : ∀ c, c < R.length → ∃ r, nz A r c = true) :
    A.length = R.length ∧ (∀ i j, nz A i j = true ↔ (i = j ∧ i < A.length)) ∧ FullyReduced A := by
  have hnumA : NumM A := Ptn.C13.sge_no_new_symbols M (fun _ => False) hnum L A R h
  unfold Ptn.C13.gaussianElimination at h
  simp only at h
  split at h
  · rename_i hflag
    simp only [Ptn.C13.Outcome.ok.injEq] at h
    obtain ⟨_, hA, hR⟩ := h
    have hg := gaussSt_passGoal M n hpos hrect hnum hflag
    rw [← hA] at hnumA
    have hd : DiagNZ (Ptn.C13.gaussSt M) := by
      apply hg
      · rintro ⟨c, hc, hz⟩
        obtain ⟨r, hr⟩ := hcols c (hR ▸ hc)
        rw [← hA, nz_iff_val hnumA] at hr
        exact hr (hz r)
      · rintro ⟨r, hr, hz⟩
        obtain ⟨c, hc⟩ := hrows r (hA ▸ hr)
        rw [← hA, nz_iff_val hnumA] at hc
        exact hc (hz c)
    have hnzd := diagNZ_nz hnumA hd
    subst hA hR
    refine ⟨hd.1, hnzd, ?_, ?_⟩
    · intro i j j' h1 h2
      have a := ((hnzd i j).1 h1).1
      have b := ((hnzd i j').1 h2).1
      omega
    · intro i i' j h1 h2
      have a := ((hnzd i j).1 h1).1
      have b := ((hnzd i' j).1 h2).1
      omega
  · simp at h
  · simp at h

/-- **Bond of a numeric cut whose reduced matrix has no zero row / column - partial.**  Then the
    model of `minimum_vertex_cover` on the support graph of `M'` returns a cover with exactly
    `len(M') = len(M'[0]) = rank M'` vertices, and `rank Γ ≤` that number (equality needs
    `rank M' ≤ rank Γ`, not proved - see `sge_numeric_bond_eq_rank_partial`). -/
theorem sge_numeric_bond_no_zero_lines_partial (M : Ptn.C13.EMat) (n : Nat) (hpos : 0 < M.length)
    (hrect : Ptn.C13.Rect M n) (hnum : NumM M) (L : Ptn.C13.RMat) (A : Ptn.C13.EMat) (R : Ptn.C13.RMat)
    (h : Ptn.C13.gaussianElimination M = .ok L A R)
    (hrows : ∀ r, r < A.length → ∃ c, nz A r c = true)
    (hcols : ∀ c, c < R.length → ∃ r, nz A r c = true) :
    ∃ g Mt cu cv, Ptn.C14.mkGraph A.length R.length (suppEdges A) = some g ∧
      Ptn.C14.minimumVertexCover g = .ok (Mt, cu, cv) ∧
      cu.length + cv.length = (numMat A A.length R.length).rank ∧
      (numMat M M.length n).rank ≤ cu.length + cv.length ∧
      ((numMat A A.length R.length).rank ≤ (numMat M M.length n).rank →
        cu.length + cv.length = (numMat M M.length n).rank) := by
  obtain ⟨hsq, _, hfr⟩ := sge_numeric_fully_reduced_partial M n hpos hrect hnum L A R h hrows hcols
  obtain ⟨_, ⟨hApos, _, _⟩, _⟩ := Ptn.C13.sge_exact M n hpos hrect (numM_nesm hnum) L A R h
  obtain ⟨g, Mt, cu, cv, h1, h2, _, h4, h5, h6⟩ :=
    sge_numeric_bond_eq_rank_partial M n hpos hrect hnum L A R h (by omega) hfr
  exact ⟨g, Mt, cu, cv, h1, h2, h4, h5, h6⟩

/-- **rank M' = rank Γ** for every numeric rectangular `Γ` of every size (no hypothesis on the reduced
    matrix): over ℚ the matrix returned by the model of `gaussian_elimination` has the rank of the
    input.  Proof (`NumRank.lean`): the rank of the zero-padded `m × n` box of the current matrix is an
    invariant of the run - `row_swap` permutes rows, the inner loop of `row_elimination` replaces every
    row `k ≠ i` by `row k − (A[k][i]/pivot) · row i` (each matrix has its rows in the row space of the
    other), the rows deleted afterwards are zero, `deparallelize_rows` deletes rows that are multiples of
    a row that stays (the partner `i < j` is never flagged itself); columns alike, through
    `Matrix.rank_transpose`.  Closes gap (2) of `sge_numeric_bond_eq_rank_partial`. -/
theorem sge_numeric_rank_eq_reduced (M : Ptn.C13.EMat) (n : Nat) (hpos : 0 < M.length)
    (hrect : Ptn.C13.Rect M n) (hnum : NumM M) (L : Ptn.C13.RMat) (A : Ptn.C13.EMat) (R : Ptn.C13.RMat)
    (h : Ptn.C13.gaussianElimination M = .ok L A R) :
    (numMat A A.length R.length).rank = (numMat M M.length n).rank :=
  rank_numMat_eq M n hpos hrect hnum L A R h

/-- **Bond of a numeric cut = rank Γ, hypothesis on the output only.**  If the reduced matrix `M'` has
    no zero row and no zero column, the model of `minimum_vertex_cover` on the support graph of `M'`
    returns a cover with exactly `rank Γ` vertices.  (Missing for `sge_numeric_bond_eq_rank`: only that
    `M'` has no zero line when `Γ` has none.) -/
theorem sge_numeric_bond_eq_rank_of_output_partial (M : Ptn.C13.EMat) (n : Nat) (hpos : 0 < M.length)
    (hrect : Ptn.C13.Rect M n) (hnum : NumM M) (L : Ptn.C13.RMat) (A : Ptn.C13.EMat) (R : Ptn.C13.RMat)
    (h : Ptn.C13.gaussianElimination M = .ok L A R)
    (hrows : ∀ r, r < A.length → ∃ c, nz A r c = true)
    (hcols : ∀ c, c < R.length → ∃ r, nz A r c = true) :
    ∃ g Mt cu cv, Ptn.C14.mkGraph A.length R.length (suppEdges A) = some g ∧
      Ptn.C14.minimumVertexCover g = .ok (Mt, cu, cv) ∧
      cu.length + cv.length = (numMat M M.length n).rank := by
  obtain ⟨g, Mt, cu, cv, h1, h2, _, _, h5⟩ :=
    sge_numeric_bond_no_zero_lines_partial M n hpos hrect hnum L A R h hrows hcols
  exact ⟨g, Mt, cu, cv, h1, h2, h5 (sge_numeric_rank_eq_reduced M n hpos hrect hnum L A R h).le⟩

/-- **No zero line in, no zero line out.**  If the numeric rectangular `Γ` has no zero row and no zero
    column, the reduced matrix `M'` returned by the model of `gaussian_elimination` has none either.
    Proof (`NumNZ.lean`): invariant of the run.  Row operations are invertible, so a non-zero column stays
    non-zero; a row that becomes zero in the inner loop of `row_elimination` is flagged (the zero flag
    of `_row_add` is complete on numeric matrices: `rowAdd_flag_complete`) and deleted at the end of
    the same pass; `deparallelize_rows` keeps the partner of every deleted row, which carries a non-zero
    entry in the same columns.  Columns alike.  Closes gap (1) of `sge_numeric_fully_reduced_partial`. -/
theorem sge_numeric_no_zero_lines (M : Ptn.C13.EMat) (n : Nat) (hpos : 0 < M.length)
    (hrect : Ptn.C13.Rect M n) (hnum : NumM M)
    (hrows : ∀ r, r < M.length → ∃ c, nz M r c = true)
    (hcols : ∀ c, c < n → ∃ r, nz M r c = true)
    (L : Ptn.C13.RMat) (A : Ptn.C13.EMat) (R : Ptn.C13.RMat)
    (h : Ptn.C13.gaussianElimination M = .ok L A R) :
    (∀ r, r < A.length → ∃ c, nz A r c = true) ∧ (∀ c, c < R.length → ∃ r, nz A r c = true) := by
  have hnumA : NumM A := Ptn.C13.sge_no_new_symbols M (fun _ => False) hnum L A R h
  obtain ⟨h1, h2⟩ := no_zero_lines_of_ok M n hpos hrect hnum
    (fun r hr => let ⟨c, hc⟩ := hrows r hr; ⟨c, (nz_iff_val hnum r c).1 hc⟩)
    (fun c hc => let ⟨r, hr⟩ := hcols c hc; ⟨r, (nz_iff_val hnum r c).1 hr⟩) L A R h
  exact ⟨fun r hr => let ⟨c, hc⟩ := h1 r hr; ⟨c, (nz_iff_val hnumA r c).2 hc⟩,
    fun c hc => let ⟨r, hr⟩ := h2 c hc; ⟨r, (nz_iff_val hnumA r c).2 hr⟩⟩

/-- **The reduced matrix of a numeric `Γ` without zero row / column is fully reduced**: square,
    non-zero exactly on the diagonal, of size `rank Γ`. -/
theorem sge_numeric_fully_reduced (M : Ptn.C13.EMat) (n : Nat) (hpos : 0 < M.length)
    (hrect : Ptn.C13.Rect M n) (hnum : NumM M)
    (hrows : ∀ r, r < M.length → ∃ c, nz M r c = true)
    (hcols : ∀ c, c < n → ∃ r, nz M r c = true)
    (L : Ptn.C13.RMat) (A : Ptn.C13.EMat) (R : Ptn.C13.RMat)
    (h : Ptn.C13.gaussianElimination M = .ok L A R) :
    A.length = R.length ∧ (∀ i j, nz A i j = true ↔ (i = j ∧ i < A.length)) ∧ FullyReduced A ∧
    A.length = (numMat M M.length n).rank := by
  obtain ⟨h1, h2⟩ := sge_numeric_no_zero_lines M n hpos hrect hnum hrows hcols L A R h
  obtain ⟨hsq, hd, hfr⟩ := sge_numeric_fully_reduced_partial M n hpos hrect hnum L A R h h1 h2
  refine ⟨hsq, hd, hfr, ?_⟩
  have hnumA : NumM A := Ptn.C13.sge_no_new_symbols M (fun _ => False) hnum L A R h
  have hrk := sge_numeric_rank_eq_reduced M n hpos hrect hnum L A R h
  rw [← hrk, ← hsq]
  -- the rank of a square matrix that is non-zero exactly on the diagonal
  have hdiag : numMat A A.length A.length = Matrix.diagonal fun i => numMat A A.length A.length i i := by
    ext i j
    by_cases hij : i = j
    · subst hij; simp
    · rw [Matrix.diagonal_apply_ne _ hij]
      by_contra hne
      have := (hd i j).1 ((nz_iff_numMat hnumA _ _ i j).2 hne)
      exact hij (Fin.ext this.1)
  rw [hdiag, Matrix.rank_diagonal]
  have hall : ∀ i : Fin A.length, numMat A A.length A.length i i ≠ 0 :=
    fun i => (nz_iff_numMat hnumA _ _ i i).1 ((hd i i).2 ⟨rfl, i.2⟩)
  rw [Fintype.card_congr (Equiv.subtypeUnivEquiv hall)]
  simp

/-- **Bond of a numeric cut = rank Γ.**  For every numeric rectangular `Γ` (any size, at least one
    row) without zero row and without zero column: the model of `gaussian_elimination` (property C13)
    returns a triple `(L, M', R)`, and the model of `minimum_vertex_cover` (property C14) on
    `BipartiteGraph(len(M'), len(M'[0]), supp M')` returns a cover whose number of vertices - the bond
    dimension the cut creates, `bond_eq_cover` - is exactly `Matrix.rank Γ` over ℚ, the minimum possible
    (`bond_ge_schmidt_rank`, `cover_ge_rank`). -/
theorem sge_numeric_bond_eq_rank (M : Ptn.C13.EMat) (n : Nat) (hpos : 0 < M.length)
    (hrect : Ptn.C13.Rect M n) (hnum : NumM M)
    (hrows : ∀ r, r < M.length → ∃ c, nz M r c = true)
    (hcols : ∀ c, c < n → ∃ r, nz M r c = true) :
    ∃ L A R, Ptn.C13.gaussianElimination M = .ok L A R ∧
      ∃ g Mt cu cv, Ptn.C14.mkGraph A.length R.length (suppEdges A) = some g ∧
        Ptn.C14.minimumVertexCover g = .ok (Mt, cu, cv) ∧
        cu.length + cv.length = (numMat M M.length n).rank := by
  obtain ⟨L, A, R, h⟩ := Ptn.C13.sge_total M n hpos hrect (numM_nesm hnum) (numM_nzm hnum)
  obtain ⟨h1, h2⟩ := sge_numeric_no_zero_lines M n hpos hrect hnum hrows hcols L A R h
  exact ⟨L, A, R, h, sge_numeric_bond_eq_rank_of_output_partial M n hpos hrect hnum L A R h h1 h2⟩

/-- **… and the keep-the-better rule does not change it.**  `_apply_bipartite_to_gamma_u` also computes
    the minimum cover of the support of the *unreduced* `Γ` and keeps it if the cover of `supp M'` is not
    strictly smaller.  Under the hypotheses of `sge_numeric_bond_eq_rank` the number of vertices of the
    cover it keeps - the bond dimension of the cut - is `Matrix.rank Γ` in both branches (a cover of
    `supp Γ` has at least `rank Γ` vertices). -/
theorem sge_numeric_bond_keep_better (M : Ptn.C13.EMat) (n : Nat) (hpos : 0 < M.length)
    (hrect : Ptn.C13.Rect M n) (hnum : NumM M)
    (hrows : ∀ r, r < M.length → ∃ c, nz M r c = true)
    (hcols : ∀ c, c < n → ∃ r, nz M r c = true) :
    ∃ L A R, Ptn.C13.gaussianElimination M = .ok L A R ∧
      ∃ g Mt cu cv g0 Mt0 cu0 cv0,
        Ptn.C14.mkGraph A.length R.length (suppEdges A) = some g ∧
        Ptn.C14.minimumVertexCover g = .ok (Mt, cu, cv) ∧
        Ptn.C14.mkGraph M.length n (suppEdges M) = some g0 ∧
        Ptn.C14.minimumVertexCover g0 = .ok (Mt0, cu0, cv0) ∧
        (if cu.length + cv.length ≥ cu0.length + cv0.length then cu0.length + cv0.length
          else cu.length + cv.length) = (numMat M M.length n).rank := by
  obtain ⟨L, A, R, h, g, Mt, cu, cv, hg, hmvc, hsz⟩ :=
    sge_numeric_bond_eq_rank M n hpos hrect hnum hrows hcols
  have hn : 0 < n := by
    obtain ⟨c, hc⟩ := hrows 0 hpos
    have := (nz_in_range hrect hc).2
    omega
  have hw : Ptn.C13.width M = n := Ptn.C13.width_of_rect hrect hpos
  obtain ⟨g0, Mt0, cu0, cv0, hg0, hmvc0, _, _, _, hcov0, _⟩ :=
    Ptn.C14.mvc_correct_input M.length n (suppEdges M) hpos hn (fun p hp => by
      have := (mem_suppEdges M p).1 hp
      exact ⟨this.1, hw ▸ this.2.1⟩)
  have hge := rank_le_list_cover M hnum cu0 cv0 hcov0
  rw [hw] at hge
  refine ⟨L, A, R, h, g, Mt, cu, cv, g0, Mt0, cu0, cv0, hg, hmvc, hg0, hmvc0, ?_⟩
  split <;> omega

/-- **The reduced matrix of a numeric `Γ` is not always fully reduced**: `Γ` (3 × 4, rank 2, two zero
    columns) is returned with two non-zero entries in column 0 - the pivot search only looks at the
    diagonal position and below / to the right of it, and the fixed-point loop stops because no row or
    column was deleted.  (Replayed on the library: corpus `numeric-zero-columns-not-reduced.json`.)
    The minimum cover of the returned pattern still has 2 = rank vertices. -/
theorem sge_numeric_not_fully_reduced :
    NumM exNotReduced ∧ Ptn.C13.Rect exNotReduced 4 ∧
    Ptn.C13.gaussianElimination exNotReduced = .ok
      [[1, 0, 0], [0, 1, -1], [0, 0, 1]]
      [[.num (-1), .num 0, .num 0, .num 0], [.num (-1), .num 0, .num 0, .num 0],
       [.num 0, .num 0, .num (-1), .num 0]]
      [[0, 0, 0, 1], [0, 1, 0, 0], [0, 0, 1, 1], [1, 0, 0, 0]] ∧
    ¬ FullyReduced [[.num (-1), .num 0, .num 0, .num 0], [.num (-1), .num 0, .num 0, .num 0],
       [.num 0, .num 0, .num (-1), .num 0]] := by
  refine ⟨?_, ?_, by decide +kernel, ?_⟩
  · intro r hr e he
    simp only [exNotReduced, List.mem_cons, List.not_mem_nil, or_false] at hr
    rcases hr with rfl | rfl | rfl <;>
      (simp only [List.mem_cons, List.not_mem_nil, or_false] at he
       rcases he with rfl | rfl | rfl | rfl <;> trivial)
  · intro r hr
    simp only [exNotReduced, List.mem_cons, List.not_mem_nil, or_false] at hr
    rcases hr with rfl | rfl | rfl <;> rfl
  · intro hfr
    have := hfr.2 0 1 0 (by decide +kernel) (by decide +kernel)
    omega

/-! ### numeric `Γ` with zero rows / columns allowed (builder B69) -/

/-- **Bond of a numeric cut, every `Γ` (zero rows / columns allowed) - partial.**  For every numeric
    rectangular `Γ` and the triple `(L, M', R)` returned by the model of `gaussian_elimination` (with at
    least one column left): the model of `minimum_vertex_cover` on `supp M'` returns a cover that (a) has
    at least `rank Γ` vertices, (b) is a minimum cover (no cover of `supp M'` is smaller, Kőnig through
    `Ptn.C14.mvc_correct`), hence (c) has exactly `rank Γ` vertices as soon as `supp M'` has SOME cover
    with at most `rank Γ` vertices.  No hypothesis on zero lines of `Γ` or of `M'`.
    Missing for the full statement `sge_numeric_bond_eq_rank_general`: that `supp M'` always has a cover
    with `rank Γ` vertices - it needs a description of the returned shape when pivots are shifted off
    the diagonal by zero columns (`sge_numeric_not_fully_reduced`), which is not proved; the shape
    `PivotLines` (next theorem) is sufficient, covers that witness and every sampled output. -/
theorem sge_numeric_bond_general_partial (M : Ptn.C13.EMat) (n : Nat) (hpos : 0 < M.length)
    (hrect : Ptn.C13.Rect M n) (hnum : NumM M) (L : Ptn.C13.RMat) (A : Ptn.C13.EMat) (R : Ptn.C13.RMat)
    (h : Ptn.C13.gaussianElimination M = .ok L A R) (hq : 0 < R.length) :
    ∃ g Mt cu cv, Ptn.C14.mkGraph A.length R.length (suppEdges A) = some g ∧
      Ptn.C14.minimumVertexCover g = .ok (Mt, cu, cv) ∧
      (∀ p ∈ suppEdges A, p.1 ∈ cu ∨ p.2 ∈ cv) ∧
      (numMat M M.length n).rank ≤ cu.length + cv.length ∧
      (∀ cu' cv' : List Nat, (∀ p ∈ suppEdges A, p.1 ∈ cu' ∨ p.2 ∈ cv') →
        cu.length + cv.length ≤ cu'.length + cv'.length) ∧
      (∀ cu' cv' : List Nat, (∀ p ∈ suppEdges A, p.1 ∈ cu' ∨ p.2 ∈ cv') →
        cu'.length + cv'.length ≤ (numMat M M.length n).rank →
        cu.length + cv.length = (numMat M M.length n).rank) := by
  obtain ⟨⟨_, _, hA, _⟩, ⟨hApos, _, _⟩, _⟩ :=
    Ptn.C13.sge_exact M n hpos hrect (numM_nesm hnum) L A R h
  have hnumA : NumM A := Ptn.C13.sge_no_new_symbols M (fun _ => False) hnum L A R h
  have hw : Ptn.C13.width A = R.length := Ptn.C13.width_of_rect hA hApos
  obtain ⟨g, Mt, cu, cv, hg, hmvc, _, _, _, hcov, _, _, _, _, _, _, hmin⟩ :=
    Ptn.C14.mvc_correct_input A.length R.length (suppEdges A) hApos hq (fun p hp => by
      have := (mem_suppEdges A p).1 hp
      exact ⟨this.1, hw ▸ this.2.1⟩)
  have hge := rank_le_list_cover A hnumA cu cv hcov
  rw [hw, sge_numeric_rank_eq_reduced M n hpos hrect hnum L A R h] at hge
  refine ⟨g, Mt, cu, cv, hg, hmvc, hcov, hge, hmin, fun cu' cv' hc hle => ?_⟩
  have := hmin cu' cv' hc
  omega

/-- **Bond of a numeric cut = rank Γ for every `Γ` whose reduced matrix has pivot lines - partial.**
    Zero rows / columns of `Γ` and of `M'` allowed.  If `M'` has the shape `PivotLines` - every non-zero
    column holds an entry that is the only non-zero entry of its row, or the same with rows and columns
    exchanged (implied by `FullyReduced`, by "at most one non-zero per row" = `SingleLines`, the shape of
    the witness of `sge_numeric_not_fully_reduced`; it held for all 81770 outputs sampled through the
    driver for `Γ` with zeroed lines, of which 379 were not fully reduced and 40 not `SingleLines`) - the
    model of `minimum_vertex_cover` on `supp M'` returns a cover with exactly `Matrix.rank Γ` vertices: the
    non-zero columns (resp. rows) are a cover, and they are as many as the rank
    (`length_le_rank_of_row_pivots`: the pivots form a diagonal submatrix).  No hypothesis "no zero line".
    Missing for `sge_numeric_bond_eq_rank_general`: `PivotLines M'` is a hypothesis on the OUTPUT; that
    the model returns this shape for every numeric `Γ` is not proved. -/
theorem sge_numeric_bond_eq_rank_general_partial (M : Ptn.C13.EMat) (n : Nat) (hpos : 0 < M.length)
    (hrect : Ptn.C13.Rect M n) (hnum : NumM M) (L : Ptn.C13.RMat) (A : Ptn.C13.EMat) (R : Ptn.C13.RMat)
    (h : Ptn.C13.gaussianElimination M = .ok L A R) (hq : 0 < R.length) (hs : PivotLines A) :
    ∃ g Mt cu cv, Ptn.C14.mkGraph A.length R.length (suppEdges A) = some g ∧
      Ptn.C14.minimumVertexCover g = .ok (Mt, cu, cv) ∧
      (∀ p ∈ suppEdges A, p.1 ∈ cu ∨ p.2 ∈ cv) ∧
      cu.length + cv.length = (numMat M M.length n).rank := by
  obtain ⟨⟨_, _, hA, _⟩, ⟨hApos, _, _⟩, _⟩ :=
    Ptn.C13.sge_exact M n hpos hrect (numM_nesm hnum) L A R h
  have hnumA : NumM A := Ptn.C13.sge_no_new_symbols M (fun _ => False) hnum L A R h
  have hw : Ptn.C13.width A = R.length := Ptn.C13.width_of_rect hA hApos
  obtain ⟨g, Mt, cu, cv, hg, hmvc, hcov, _, _, heq⟩ :=
    sge_numeric_bond_general_partial M n hpos hrect hnum L A R h hq
  obtain ⟨cu', cv', hc', hle'⟩ := exists_cover_le_rank_of_pivotLines A hnumA R.length hA hw hs
  rw [sge_numeric_rank_eq_reduced M n hpos hrect hnum L A R h] at hle'
  exact ⟨g, Mt, cu, cv, hg, hmvc, hcov, heq cu' cv' hc' hle'⟩

/-- The witness of `sge_numeric_not_fully_reduced` (a `Γ` with two zero columns whose reduced matrix is
    NOT fully reduced) is covered by `sge_numeric_bond_eq_rank_general_partial`: its reduced matrix has
    one non-zero entry per row, so the bond of that cut is `rank Γ`. -/
theorem sge_numeric_not_fully_reduced_bond_eq_rank :
    ∃ L A R, Ptn.C13.gaussianElimination exNotReduced = .ok L A R ∧ ¬ FullyReduced A ∧ SingleLines A ∧
      ∃ g Mt cu cv, Ptn.C14.mkGraph A.length R.length (suppEdges A) = some g ∧
        Ptn.C14.minimumVertexCover g = .ok (Mt, cu, cv) ∧
        cu.length + cv.length = (numMat exNotReduced exNotReduced.length 4).rank := by
  obtain ⟨hnum, hrect, hge, hnfr⟩ := sge_numeric_not_fully_reduced
  have hrectA : Ptn.C13.Rect ([[.num (-1), .num 0, .num 0, .num 0], [.num (-1), .num 0, .num 0, .num 0],
       [.num 0, .num 0, .num (-1), .num 0]] : Ptn.C13.EMat) 4 := by
    intro r hr
    simp only [List.mem_cons, List.not_mem_nil, or_false] at hr
    rcases hr with rfl | rfl | rfl <;> rfl
  have hs : SingleLines ([[.num (-1), .num 0, .num 0, .num 0], [.num (-1), .num 0, .num 0, .num 0],
       [.num 0, .num 0, .num (-1), .num 0]] : Ptn.C13.EMat) := by
    left
    intro i j j' h1 h2
    have b1 := nz_in_range hrectA h1
    have b2 := nz_in_range hrectA h2
    have key : ∀ i < 3, ∀ j < 4, ∀ j' < 4,
        nz [[.num (-1), .num 0, .num 0, .num 0], [.num (-1), .num 0, .num 0, .num 0],
          [.num 0, .num 0, .num (-1), .num 0]] i j = true →
        nz [[.num (-1), .num 0, .num 0, .num 0], [.num (-1), .num 0, .num 0, .num 0],
          [.num 0, .num 0, .num (-1), .num 0]] i j' = true → j = j' := by decide +kernel
    exact key i b1.1 j b1.2 j' b2.2 h1 h2
  obtain ⟨g, Mt, cu, cv, h1, h2, _, h4⟩ :=
    sge_numeric_bond_eq_rank_general_partial exNotReduced 4 (by decide) hrect hnum _ _ _ hge
      (by decide) (singleLines_pivotLines hs)
  exact ⟨_, _, _, hge, hnfr, hs, g, Mt, cu, cv, h1, h2, h4⟩

/-- A second witness: `Γ = exPivot` (3 × 4, two zero columns) is returned with a reduced matrix that is
    neither fully reduced nor of shape `SingleLines` (row 2 and columns 0, 1 carry two entries), but of
    shape `PivotLines` - so by `sge_numeric_bond_eq_rank_general_partial` the bond of the cut is `rank Γ`. -/
theorem sge_numeric_pivot_lines_witness :
    NumM exPivot ∧ Ptn.C13.Rect exPivot 4 ∧
    Ptn.C13.gaussianElimination exPivot = .ok [[1, 0, 0], [0, 1, 0], [0, 0, 1]] exPivotRed
      [[0, 0, 1, 2], [0, 0, 1, 3], [1, 0, 0, 0], [0, 1, 0, 0]] ∧
    ¬ SingleLines exPivotRed ∧ PivotLines exPivotRed ∧
    ∃ g Mt cu cv, Ptn.C14.mkGraph 3 4 (suppEdges exPivotRed) = some g ∧
      Ptn.C14.minimumVertexCover g = .ok (Mt, cu, cv) ∧
      cu.length + cv.length = (numMat exPivot 3 4).rank := by
  have hnum : NumM exPivot := by
    intro r hr e he
    simp only [exPivot, List.mem_cons, List.not_mem_nil, or_false] at hr
    rcases hr with rfl | rfl | rfl <;>
      (simp only [List.mem_cons, List.not_mem_nil, or_false] at he
       rcases he with rfl | rfl | rfl | rfl <;> trivial)
  have hrect : Ptn.C13.Rect exPivot 4 := by
    intro r hr
    simp only [exPivot, List.mem_cons, List.not_mem_nil, or_false] at hr
    rcases hr with rfl | rfl | rfl <;> rfl
  have hrectA : Ptn.C13.Rect exPivotRed 4 := by
    intro r hr
    simp only [exPivotRed, List.mem_cons, List.not_mem_nil, or_false] at hr
    rcases hr with rfl | rfl | rfl <;> rfl
  have hge : Ptn.C13.gaussianElimination exPivot = .ok [[1, 0, 0], [0, 1, 0], [0, 0, 1]] exPivotRed
      [[0, 0, 1, 2], [0, 0, 1, 3], [1, 0, 0, 0], [0, 1, 0, 0]] := by decide +kernel
  have hns : ¬ SingleLines exPivotRed := by
    rintro (h | h)
    · have := h 2 0 1 (by decide +kernel) (by decide +kernel)
      omega
    · have := h 0 2 0 (by decide +kernel) (by decide +kernel)
      omega
  have hp : PivotLines exPivotRed := by
    left
    rintro j ⟨i, hi⟩
    have b := nz_in_range hrectA hi
    have key : ∀ j < 4, ∀ i < 3, nz exPivotRed i j = true →
        ∃ i' < 3, nz exPivotRed i' j = true ∧ ∀ j' < 4, nz exPivotRed i' j' = true → j' = j := by
      decide +kernel
    obtain ⟨i', _, h1, h2⟩ := key j b.2 i b.1 hi
    exact ⟨i', h1, fun j' hj' => h2 j' (nz_in_range hrectA hj').2 hj'⟩
  obtain ⟨g, Mt, cu, cv, h1, h2, _, h4⟩ :=
    sge_numeric_bond_eq_rank_general_partial exPivot 4 (by decide) hrect hnum _ _ _ hge
      (by decide) hp
  exact ⟨hnum, hrect, hge, hns, hp, g, Mt, cu, cv, h1, h2, h4⟩

/-- **Cover to diagram, on the list model** (`bond_eq_cover` for the matrices the models handle).
    Numeric rectangular `Γ` (list matrix `M`), `(L, M', R)` returned by the model of
    `gaussian_elimination`, and a duplicate-free in-range list cover `(cu, cv)` of `supp M'` - what the
    model of `minimum_vertex_cover` returns (`Ptn.C14.mvc_correct_input`): the operator of the cut
    `∑ u v, Γ[u][v] • f (U u) (V v)` is a sum of exactly `len(cu) + len(cv)` pure tensors, one per new
    vertex.  So the bond created at the cut is the number of vertices of the cover the model returns. -/
theorem bond_eq_cover_list {X Y Z : Type*} [AddCommMonoid X] [AddCommMonoid Y] [AddCommMonoid Z]
    [Module ℚ X] [Module ℚ Y] [Module ℚ Z] (f : X →ₗ[ℚ] Y →ₗ[ℚ] Z)
    (M : Ptn.C13.EMat) (n : Nat) (hpos : 0 < M.length)
    (hrect : Ptn.C13.Rect M n) (hnum : NumM M) (L : Ptn.C13.RMat) (A : Ptn.C13.EMat) (R : Ptn.C13.RMat)
    (h : Ptn.C13.gaussianElimination M = .ok L A R)
    (U : Fin M.length → X) (V : Fin n → Y) (cu cv : List Nat)
    (hc : ∀ p ∈ suppEdges A, p.1 ∈ cu ∨ p.2 ∈ cv) (hcu : cu.Nodup) (hcv : cv.Nodup)
    (hcul : ∀ u ∈ cu, u < A.length) (hcvl : ∀ v ∈ cv, v < R.length) :
    ∃ (a : Fin (cu.length + cv.length) → X) (b : Fin (cu.length + cv.length) → Y),
      ∑ k, f (a k) (b k) = ∑ u, ∑ v, numMat M M.length n u v • f (U u) (V v) := by
  obtain ⟨⟨_, _, hA, _⟩, ⟨hApos, _, _⟩, _⟩ :=
    Ptn.C13.sge_exact M n hpos hrect (numM_nesm hnum) L A R h
  have hnumA : NumM A := Ptn.C13.sge_no_new_symbols M (fun _ => False) hnum L A R h
  have hw : Ptn.C13.width A = R.length := Ptn.C13.width_of_rect hA hApos
  have hcov := isCover_of_list_cover A hnumA R.length hw cu cv hc
  have key := bond_eq_cover f U V (numMat M M.length n) (ratMat L M.length A.length)
    (numMat A A.length R.length) (ratMat R R.length n) (numMat_factor M n hpos hrect hnum L A R h) _ _ hcov
  rw [card_filter_mem_list cu hcu hcul, card_filter_mem_list cv hcv hcvl] at key
  exact key

/-- **Numeric cut, end to end** (every `Γ` whose reduced matrix has pivot lines; zero lines allowed):
    the cover returned by the model of `minimum_vertex_cover` has `rank Γ` vertices AND routes the
    operator of the cut through exactly that many pure tensors - the cut creates a bond of dimension
    `Matrix.rank Γ`, the minimum possible (`bond_ge_schmidt_rank`). -/
theorem sge_numeric_cut_bond_eq_rank_partial {X Y Z : Type*} [AddCommMonoid X] [AddCommMonoid Y]
    [AddCommMonoid Z] [Module ℚ X] [Module ℚ Y] [Module ℚ Z] (f : X →ₗ[ℚ] Y →ₗ[ℚ] Z)
    (M : Ptn.C13.EMat) (n : Nat) (hpos : 0 < M.length)
    (hrect : Ptn.C13.Rect M n) (hnum : NumM M) (L : Ptn.C13.RMat) (A : Ptn.C13.EMat) (R : Ptn.C13.RMat)
    (h : Ptn.C13.gaussianElimination M = .ok L A R) (hq : 0 < R.length) (hs : PivotLines A)
    (U : Fin M.length → X) (V : Fin n → Y) :
    ∃ g Mt cu cv, Ptn.C14.mkGraph A.length R.length (suppEdges A) = some g ∧
      Ptn.C14.minimumVertexCover g = .ok (Mt, cu, cv) ∧
      cu.length + cv.length = (numMat M M.length n).rank ∧
      ∃ (a : Fin (cu.length + cv.length) → X) (b : Fin (cu.length + cv.length) → Y),
        ∑ k, f (a k) (b k) = ∑ u, ∑ v, numMat M M.length n u v • f (U u) (V v) := by
  obtain ⟨⟨_, _, hA, _⟩, ⟨hApos, _, _⟩, _⟩ :=
    Ptn.C13.sge_exact M n hpos hrect (numM_nesm hnum) L A R h
  have hw : Ptn.C13.width A = R.length := Ptn.C13.width_of_rect hA hApos
  obtain ⟨g, Mt, cu, cv, hg, hmvc, _, _, _, hcov, hul, hvl, hun, hvn, _, _, hmin⟩ :=
    Ptn.C14.mvc_correct_input A.length R.length (suppEdges A) hApos hq (fun p hp => by
      have := (mem_suppEdges A p).1 hp
      exact ⟨this.1, hw ▸ this.2.1⟩)
  obtain ⟨g', Mt', cu', cv', hg', hmvc', _, hrk⟩ :=
    sge_numeric_bond_eq_rank_general_partial M n hpos hrect hnum L A R h hq hs
  rw [hg] at hg'
  cases hg'
  rw [hmvc] at hmvc'
  cases hmvc'
  exact ⟨g, Mt, cu, cv, hg, hmvc, hrk,
    bond_eq_cover_list f M n hpos hrect hnum L A R h U V cu cv hcov hun hvn hul hvl⟩

/-- **The reduced matrix keeps a column** (builder B71; discharges the OUTPUT hypothesis `0 < R.length`
    of the B69 theorems by a hypothesis on the INPUT).  Every numeric rectangular `Γ` with a non-zero
    entry: the returned `Op_r` has at least one row, i.e. `M'` has at least one column, and
    `0 < rank Γ`.  (From the rank invariant: `rank M' = rank Γ > 0`, and a matrix without columns has
    rank 0.)  Not covered: `Γ = 0` (then `rank Γ = 0`; that the model keeps a column of the zero
    matrix is a statement about the deletion lists, not proved). -/
theorem sge_numeric_keeps_column (M : Ptn.C13.EMat) (n : Nat) (hpos : 0 < M.length)
    (hrect : Ptn.C13.Rect M n) (hnum : NumM M) (L : Ptn.C13.RMat) (A : Ptn.C13.EMat) (R : Ptn.C13.RMat)
    (h : Ptn.C13.gaussianElimination M = .ok L A R) (hne : ∃ i j, nz M i j = true) :
    0 < R.length ∧ 0 < (numMat M M.length n).rank :=
  cols_pos_of_entry M n hpos hrect hnum L A R h hne

/-- `sge_numeric_bond_eq_rank_general_partial` with `0 < R.length` replaced by "`Γ` is not the zero
    matrix" (a hypothesis on the input).  Still missing for `sge_numeric_bond_eq_rank_general`: that
    the model returns a `PivotLines` matrix for every numeric `Γ` (hypothesis `hs` on the output) - the
    invariant of the last row pass + column pass when zero columns shift the pivots off the diagonal. -/
theorem sge_numeric_bond_eq_rank_general_input_partial (M : Ptn.C13.EMat) (n : Nat) (hpos : 0 < M.length)
    (hrect : Ptn.C13.Rect M n) (hnum : NumM M) (L : Ptn.C13.RMat) (A : Ptn.C13.EMat) (R : Ptn.C13.RMat)
    (h : Ptn.C13.gaussianElimination M = .ok L A R) (hne : ∃ i j, nz M i j = true) (hs : PivotLines A) :
    ∃ g Mt cu cv, Ptn.C14.mkGraph A.length R.length (suppEdges A) = some g ∧
      Ptn.C14.minimumVertexCover g = .ok (Mt, cu, cv) ∧
      (∀ p ∈ suppEdges A, p.1 ∈ cu ∨ p.2 ∈ cv) ∧
      cu.length + cv.length = (numMat M M.length n).rank :=
  sge_numeric_bond_eq_rank_general_partial M n hpos hrect hnum L A R h
    (sge_numeric_keeps_column M n hpos hrect hnum L A R h hne).1 hs

/-- `sge_numeric_cut_bond_eq_rank_partial` with `0 < R.length` replaced by "`Γ` is not the zero
    matrix".  Missing: as above, `PivotLines M'` is a hypothesis on the output. -/
theorem sge_numeric_cut_bond_eq_rank_input_partial {X Y Z : Type*} [AddCommMonoid X] [AddCommMonoid Y]
    [AddCommMonoid Z] [Module ℚ X] [Module ℚ Y] [Module ℚ Z] (f : X →ₗ[ℚ] Y →ₗ[ℚ] Z)
    (M : Ptn.C13.EMat) (n : Nat) (hpos : 0 < M.length)
    (hrect : Ptn.C13.Rect M n) (hnum : NumM M) (L : Ptn.C13.RMat) (A : Ptn.C13.EMat) (R : Ptn.C13.RMat)
    (h : Ptn.C13.gaussianElimination M = .ok L A R) (hne : ∃ i j, nz M i j = true) (hs : PivotLines A)
    (U : Fin M.length → X) (V : Fin n → Y) :
    ∃ g Mt cu cv, Ptn.C14.mkGraph A.length R.length (suppEdges A) = some g ∧
      Ptn.C14.minimumVertexCover g = .ok (Mt, cu, cv) ∧
      cu.length + cv.length = (numMat M M.length n).rank ∧
      ∃ (a : Fin (cu.length + cv.length) → X) (b : Fin (cu.length + cv.length) → Y),
        ∑ k, f (a k) (b k) = ∑ u, ∑ v, numMat M M.length n u v • f (U u) (V v) :=
  sge_numeric_cut_bond_eq_rank_partial f M n hpos hrect hnum L A R h
    (sge_numeric_keeps_column M n hpos hrect hnum L A R h hne).1 hs U V

/-! Non-vacuity of the hypotheses above. -/

-- `cover_of_fully_reduced`, `sge_numeric_bond_eq_rank_partial`: a rank-2 numeric matrix whose reduced
-- matrix is the 2 × 2 diagonal; the model of `minimum_vertex_cover` answers 2 vertices
example : Ptn.C13.gaussianElimination exRank2 = .ok [[1, 0], [2, 1], [3, 1]]
    [[.num 1, .num 0], [.num 0, .num 1]] [[1, 2, 0], [0, 0, 1]] := by decide +kernel

example : NumM exRank2 ∧ Ptn.C13.Rect exRank2 3 := by
  refine ⟨?_, ?_⟩
  · intro r hr e he
    simp only [exRank2, List.mem_cons, List.not_mem_nil, or_false] at hr
    rcases hr with rfl | rfl | rfl <;>
      (simp only [List.mem_cons, List.not_mem_nil, or_false] at he
       rcases he with rfl | rfl | rfl <;> trivial)
  · intro r hr
    simp only [exRank2, List.mem_cons, List.not_mem_nil, or_false] at hr
    rcases hr with rfl | rfl | rfl <;> rfl

example : FullyReduced [[.num 1, .num 0], [.num 0, .num 1]] ∧
    Ptn.C13.Rect ([[.num 1, .num 0], [.num 0, .num 1]] : Ptn.C13.EMat) 2 ∧
    suppEdges [[.num 1, .num 0], [.num 0, .num 1]] = [(0, 0), (1, 1)] := by
  have hrect : Ptn.C13.Rect ([[.num 1, .num 0], [.num 0, .num 1]] : Ptn.C13.EMat) 2 := by
    intro r hr
    simp only [List.mem_cons, List.not_mem_nil, or_false] at hr
    rcases hr with rfl | rfl <;> rfl
  refine ⟨⟨?_, ?_⟩, hrect, by decide +kernel⟩
  · intro i j j' h1 h2
    have b1 := nz_in_range hrect h1
    have b2 := nz_in_range hrect h2
    have key : ∀ i < 2, ∀ j < 2, ∀ j' < 2,
        nz [[.num 1, .num 0], [.num 0, .num 1]] i j = true →
        nz [[.num 1, .num 0], [.num 0, .num 1]] i j' = true → j = j' := by decide +kernel
    exact key i b1.1 j b1.2 j' b2.2 h1 h2
  · intro i i' j h1 h2
    have b1 := nz_in_range hrect h1
    have b2 := nz_in_range hrect h2
    have key : ∀ i < 2, ∀ i' < 2, ∀ j < 2,
        nz [[.num 1, .num 0], [.num 0, .num 1]] i j = true →
        nz [[.num 1, .num 0], [.num 0, .num 1]] i' j = true → i = i' := by decide +kernel
    exact key i b1.1 i' b2.1 j b1.2 h1 h2

-- `sge_numeric_fully_reduced_partial`, `sge_numeric_bond_no_zero_lines_partial`: the reduced matrix of
-- `exRank2` (above) has no zero row and no zero column
example : (∀ r, r < 2 → ∃ c, nz [[.num 1, .num 0], [.num 0, .num 1]] r c = true) ∧
    (∀ c, c < 2 → ∃ r, nz [[.num 1, .num 0], [.num 0, .num 1]] r c = true) := by
  refine ⟨fun r hr => ⟨r, ?_⟩, fun c hc => ⟨c, ?_⟩⟩
  · have : ∀ r < 2, nz [[.num 1, .num 0], [.num 0, .num 1]] r r = true := by decide +kernel
    exact this r hr
  · have : ∀ c < 2, nz [[.num 1, .num 0], [.num 0, .num 1]] c c = true := by decide +kernel
    exact this c hc

-- `sge_numeric_no_zero_lines`, `sge_numeric_fully_reduced`, `sge_numeric_bond_eq_rank`: `exRank2`
-- (3 × 3, rank 2) has no zero row and no zero column; its reduced matrix is the 2 × 2 identity (above)
example : (∀ r, r < exRank2.length → ∃ c, nz exRank2 r c = true) ∧
    (∀ c, c < 3 → ∃ r, nz exRank2 r c = true) := by
  refine ⟨fun r hr => ⟨0, ?_⟩, fun c hc => ⟨1, ?_⟩⟩
  · have : ∀ r < 3, nz exRank2 r 0 = true := by decide +kernel
    exact this r hr
  · have : ∀ c < 3, nz exRank2 1 c = true := by decide +kernel
    exact this c hc

-- `rank_of_fully_reduced`: a 2 × 3 partial permutation pattern
example : MFullyReduced (Matrix.of ![![(0 : ℚ), 2, 0], ![0, 0, 5]]) := by
  refine ⟨?_, ?_⟩
  · intro i j j'; fin_cases i <;> fin_cases j <;> fin_cases j' <;> simp
  · intro i i' j; fin_cases i <;> fin_cases i' <;> fin_cases j <;> simp


-- `bond_eq_cover_list`: for the reduced matrix of `exNotReduced` (not fully reduced, a zero column) the
-- columns `[0, 2]` are a duplicate-free in-range cover of the support; `SingleLines` and `0 < R.length`
-- for that matrix: `sge_numeric_not_fully_reduced_bond_eq_rank`
example : (∀ p ∈ suppEdges [[.num (-1), .num 0, .num 0, .num 0], [.num (-1), .num 0, .num 0, .num 0],
       [.num 0, .num 0, .num (-1), .num 0]], p.1 ∈ ([] : List Nat) ∨ p.2 ∈ [0, 2]) ∧
    ([0, 2] : List Nat).Nodup ∧ ∀ v ∈ ([0, 2] : List Nat), v < 4 := by decide +kernel

-- `sge_numeric_keeps_column`, `sge_numeric_bond_eq_rank_general_input_partial`,
-- `sge_numeric_cut_bond_eq_rank_input_partial`: `exPivot` (two zero columns) has a non-zero entry; the
-- other hypotheses for it: `sge_numeric_pivot_lines_witness`
example : ∃ i j, nz exPivot i j = true := ⟨0, 2, by decide +kernel⟩

end Ptn.C12
