import Ptn.C12.NumRank
/-! C12, numeric case: "no zero row and no zero column" is an invariant of the C13 model of
`gaussian_elimination` (a row / column that becomes zero is flagged - the zero flags of `_row_add` /
`_col_add` are complete on numeric matrices - and deleted at the end of the same pass). -/
namespace Ptn.C12
open Ptn.C13

/-- No zero row. -/
def NZR (A : EMat) : Prop := ∀ r, r < A.length → ∃ c, val A r c ≠ 0
/-- No zero column among the first `q`. -/
def NZC (A : EMat) (q : ℕ) : Prop := ∀ c, c < q → ∃ r, val A r c ≠ 0

/-! ### completeness of the zero flags -/

theorem isZero_of_num_eval {e : Entry} (hn : IsNum e) (h : e.eval (fun _ => 0) = 0) :
    e.isZero = true := by
  obtain ⟨q, rfl⟩ := isNum_cases hn
  simp only [Entry.eval] at h
  simp [Entry.isZero, h]

theorem rowAdd_flag_complete (n : ℕ) (st : St) (t s : ℕ) (f : Rat) (_hws : WS n st)
    (hnum : NumM st.A) (ht : t < st.A.length) (_hs : s < st.A.length)
    (hz : ∀ l, val (st.rowAdd t s f).1.A t l = 0) : (st.rowAdd t s f).2 = true := by
  obtain ⟨⟨A', z⟩, hp⟩ := rowAddRaw_num hnum t s f
  have hnum' : NumM A' := rowAddRaw_sym hp hnum
  simp only [St.rowAdd, hp] at hz ⊢
  simp only [rowAddRaw] at hp
  split at hp
  · simp at hp
  · rename_i r hr
    simp only [Option.some.injEq, Prod.mk.injEq] at hp
    obtain ⟨hA', hzr⟩ := hp
    subst hzr
    rw [List.all_eq_true]
    intro e he
    obtain ⟨l, hl, rfl⟩ := List.getElem_of_mem he
    have hrow : A'.getD t [] = r := by
      subst hA'
      simp [List.getD_eq_getElem?_getD, ht]
    have hmem : r[l] ∈ A'.getD t [] := by rw [hrow]; exact List.getElem_mem hl
    have hn : IsNum r[l] := numM_getD hnum' t _ hmem
    apply isZero_of_num_eval hn
    have := hz l
    simp only [val, gE, gM, hrow] at this
    simpa [List.getD_eq_getElem?_getD, hl] using this

theorem colAdd_flag_complete (n : ℕ) (st : St) (t s : ℕ) (f : Rat) (hws : WS n st)
    (hnum : NumM st.A) (ht : t < st.R.length)
    (hz : ∀ k, val (st.colAdd t s f).1.A k t = 0) : (st.colAdd t s f).2 = true := by
  obtain ⟨⟨A', z⟩, hp⟩ := colAddRaw_num hnum t s f
  obtain ⟨_, _, h3, _⟩ := colAddRaw_spec (fun _ => 0) hp hws.Arect ht
  simp only [St.colAdd, hp] at hz ⊢
  simp only [colAddRaw] at hp
  split at hp
  · simp at hp
  · rename_i c hc
    simp only [Option.some.injEq, Prod.mk.injEq] at hp
    obtain ⟨_, hzc⟩ := hp
    subst hzc
    obtain ⟨h1, h2⟩ := addCol_spec f t s (fun _ => 0) st.A c hc
    have hcnum := addCol_sym (S := fun _ => False) f t s st.A c hc hnum
    rw [List.all_eq_true]
    intro e he
    obtain ⟨k, hk, rfl⟩ := List.getElem_of_mem he
    apply isZero_of_num_eval (hcnum _ (List.getElem_mem hk))
    have e1 := h2 k
    have e2 := h3 k t
    have e3 := hz k
    simp only [if_true] at e2
    simp only [val] at e3
    rw [List.getElem?_eq_getElem hk, Option.getD_some] at e1
    rw [e1, ← e2]
    exact e3

/-! ### the inner loops flag every line that becomes zero -/

theorem rowElimInner_snd_subset (i : ℕ) (pivot : Entry) (acc : St × List ℕ) (j : ℕ) :
    ∀ z, z ∈ acc.2 → z ∈ (rowElimInner i pivot acc j).2 := by
  intro z hz
  unfold rowElimInner
  simp only
  repeat' split
  all_goals first | exact hz | exact List.mem_append_left _ hz

theorem colElimInner_snd_subset (j : ℕ) (pivot : Entry) (acc : St × List ℕ) (i : ℕ) :
    ∀ z, z ∈ acc.2 → z ∈ (colElimInner j pivot acc i).2 := by
  intro z hz
  unfold colElimInner
  simp only
  repeat' split
  all_goals first | exact hz | exact List.mem_append_left _ hz

/-- If row `j` is zero after the pass `j` of the inner loop of `row_elimination`, then `j` has been
    flagged, or the row was zero before. -/
theorem rowElimInner_flag (n i j : ℕ) (p : Rat) (acc : St × List ℕ) (hws : WS n acc.1)
    (hnum : NumM acc.1.A) (hi : i < acc.1.A.length) (hj : j < acc.1.A.length)
    (hz : ∀ l, val (rowElimInner i (Entry.num p) acc j).1.A j l = 0) :
    j ∈ (rowElimInner i (Entry.num p) acc j).2 ∨ ∀ l, val acc.1.A j l = 0 := by
  unfold rowElimInner at hz ⊢
  simp only at hz ⊢
  rw [gM_eq_num_val hnum j i] at hz ⊢
  by_cases hc : j ≠ i ∧ (!(Entry.num (val acc.1.A j i)).isZero) = true
  · rw [if_pos hc] at hz ⊢
    simp only [elimFactor] at hz ⊢
    generalize hst : (if decide (p = 0) = true then acc.1.raise Flag.zeroDiv else acc.1) = st' at hz ⊢
    have hA : st'.A = acc.1.A := by subst hst; split <;> simp
    have hL : st'.L = acc.1.L := by subst hst; split <;> simp
    have hR : st'.R = acc.1.R := by subst hst; split <;> simp
    have ws' : WS n st' := (rowRel_of_eq hL hA hR hws).1
    have hflag := rowAdd_flag_complete n st' j i (-val acc.1.A j i / p) ws' (hA ▸ hnum) (hA ▸ hj)
      (hA ▸ hi) hz
    left
    simp [hflag]
  · rw [if_neg hc] at hz ⊢
    exact Or.inr hz

theorem colElimInner_flag (n j i : ℕ) (p : Rat) (acc : St × List ℕ) (hws : WS n acc.1)
    (hnum : NumM acc.1.A) (hi : i < acc.1.R.length)
    (hz : ∀ k, val (colElimInner j (Entry.num p) acc i).1.A k i = 0) :
    i ∈ (colElimInner j (Entry.num p) acc i).2 ∨ ∀ k, val acc.1.A k i = 0 := by
  unfold colElimInner at hz ⊢
  simp only at hz ⊢
  rw [gM_eq_num_val hnum j i] at hz ⊢
  by_cases hc : i ≠ j ∧ (!(Entry.num (val acc.1.A j i)).isZero) = true
  · rw [if_pos hc] at hz ⊢
    simp only [elimFactor] at hz ⊢
    generalize hst : (if decide (p = 0) = true then acc.1.raise Flag.zeroDiv else acc.1) = st' at hz ⊢
    have hA : st'.A = acc.1.A := by subst hst; split <;> simp
    have hL : st'.L = acc.1.L := by subst hst; split <;> simp
    have hR : st'.R = acc.1.R := by subst hst; split <;> simp
    have ws' : WS n st' := (colRel_of_eq hL hA hR hws).1
    have hflag := colAdd_flag_complete n st' i j (-val acc.1.A j i / p) ws' (hA ▸ hnum) (hR ▸ hi) hz
    left
    simp [hflag]
  · rw [if_neg hc] at hz ⊢
    exact Or.inr hz

/-- Loop invariant: every row `k < j`, `k ≠ i`, that is zero has been flagged. -/
structure RowFlagInv (n i : ℕ) (p : Rat) (s1 : St) (j : ℕ) (acc : St × List ℕ) : Prop where
  numInv : RowNumInv n i p s1 j acc
  flagged : ∀ k, k < j → k ≠ i → (∀ l, val acc.1.A k l = 0) → k ∈ acc.2

theorem rowFlagInv_step (n i : ℕ) (p : Rat) (s1 : St) (hi : i < s1.A.length) (hnz : NZR s1.A) (j : ℕ)
    (acc : St × List ℕ) (hj : j < s1.A.length) (h : RowFlagInv n i p s1 j acc) :
    RowFlagInv n i p s1 (j + 1) (rowElimInner i (Entry.num p) acc j) := by
  have hnew := rowNumInv_step n i p s1 hi j acc hj h.numInv
  refine ⟨hnew, fun k hk hki hzero => ?_⟩
  by_cases hkj : k = j
  · subst hkj
    rcases rowElimInner_flag n i k p acc h.numInv.base.ws h.numInv.num
      (by rw [h.numInv.base.len]; exact hi) (by rw [h.numInv.base.len]; exact hj) hzero with hf | hold
    · exact hf
    · exfalso
      obtain ⟨c, hc⟩ := hnz k hj
      apply hc
      have := hold c
      rw [h.numInv.vals k c, if_neg (by omega)] at this
      exact this
  · apply rowElimInner_snd_subset
    apply h.flagged k (by omega) hki
    intro l
    have e1 := hnew.vals k l
    have e2 := h.numInv.vals k l
    rw [if_pos ⟨by omega, hki⟩] at e1 e2
    rw [e2, ← e1]
    exact hzero l

theorem rowElim_fold_flag (n i : ℕ) (p : Rat) (s1 : St) (hws : WS n s1) (hnum : NumM s1.A)
    (hi : i < s1.A.length) (hnz : NZR s1.A) :
    RowFlagInv n i p s1 s1.A.length
      ((List.range s1.A.length).foldl (rowElimInner i (Entry.num p)) (s1, [])) :=
  foldl_range_inv (rowElimInner i (Entry.num p)) (RowFlagInv n i p s1) s1.A.length (s1, [])
    ⟨⟨⟨hws, RowRel.refl n _, rfl, List.nodup_nil, fun z hz => by simp at hz⟩, hnum,
      fun k l => by rw [if_neg (by omega)]⟩, fun k hk => by omega⟩
    (fun j acc hj hinv => rowFlagInv_step n i p s1 hi hnz j acc hj hinv)

/-- Loop invariant: every column `l < i`, `l ≠ j`, that is zero has been flagged. -/
structure ColFlagInv (n j : ℕ) (p : Rat) (s1 : St) (i : ℕ) (acc : St × List ℕ) : Prop where
  numInv : ColNumInv n j p s1 i acc
  flagged : ∀ l, l < i → l ≠ j → (∀ k, val acc.1.A k l = 0) → l ∈ acc.2

theorem colFlagInv_step (n j : ℕ) (p : Rat) (s1 : St) (hj : j < s1.R.length)
    (hnz : NZC s1.A s1.R.length) (i : ℕ)
    (acc : St × List ℕ) (hi : i < s1.R.length) (h : ColFlagInv n j p s1 i acc) :
    ColFlagInv n j p s1 (i + 1) (colElimInner j (Entry.num p) acc i) := by
  have hnew := colNumInv_step n j p s1 hj i acc hi h.numInv
  refine ⟨hnew, fun l hl hlj hzero => ?_⟩
  by_cases hli : l = i
  · subst hli
    rcases colElimInner_flag n j l p acc h.numInv.base.ws h.numInv.num
      (by rw [h.numInv.base.len]; exact hi) hzero with hf | hold
    · exact hf
    · exfalso
      obtain ⟨r, hr⟩ := hnz l hi
      apply hr
      have := hold r
      rw [h.numInv.vals r l, if_neg (by omega)] at this
      exact this
  · apply colElimInner_snd_subset
    apply h.flagged l (by omega) hlj
    intro k
    have e1 := hnew.vals k l
    have e2 := h.numInv.vals k l
    rw [if_pos ⟨by omega, hlj⟩] at e1 e2
    rw [e2, ← e1]
    exact hzero k

theorem colElim_fold_flag (n j : ℕ) (p : Rat) (s1 : St) (hws : WS n s1) (hnum : NumM s1.A)
    (hj : j < s1.R.length) (hnz : NZC s1.A s1.R.length) :
    ColFlagInv n j p s1 s1.R.length
      ((List.range s1.R.length).foldl (colElimInner j (Entry.num p)) (s1, [])) :=
  foldl_range_inv (colElimInner j (Entry.num p)) (ColFlagInv n j p s1) s1.R.length (s1, [])
    ⟨⟨⟨hws, ColRel.refl n _, rfl, List.nodup_nil, fun z hz => by simp at hz⟩, hnum,
      fun k l => by rw [if_neg (by omega)]⟩, fun k hk => by omega⟩
    (fun i acc hi hinv => colFlagInv_step n j p s1 hj hnz i acc hi hinv)

/-! ### "no zero line" through the passes -/

theorem nz_of_rowsFrom {m : ℕ} {v v' : ℕ → ℕ → ℚ} (h : RowsFrom m v' v) {r c : ℕ} (hr : r < m)
    (hne : v r c ≠ 0) : ∃ r', v' r' c ≠ 0 := by
  rcases h r hr with hz | ⟨a, b, k, i, _, _, hc⟩
  · exact absurd (hz c) hne
  · by_contra hall
    push Not at hall
    apply hne
    rw [hc c, hall k, hall i]
    ring

theorem lt_of_val_ne {A : EMat} {r c : ℕ} (h : val A r c ≠ 0) : r < A.length := by
  by_contra hlt
  exact h (val_oob_row (by omega) c)

theorem lt_of_val_ne_col {A : EMat} {w r c : ℕ} (hA : Rect A w) (h : val A r c ≠ 0) : c < w := by
  by_contra hlt
  exact h (val_oob_col hA (by omega) r)

/-- Shape, numeric entries, no zero row, no zero column. -/
structure NZInv (n : ℕ) (s : St) : Prop where
  ws : WS n s
  num : NumM s.A
  nzr : NZR s.A
  nzc : NZC s.A s.R.length

theorem nzInv_raise {n : ℕ} {s : St} (h : NZInv n s) (f : Flag) : NZInv n (s.raise f) :=
  ⟨(rowRel_raise n s f h.ws).1, by rw [raise_A]; exact h.num, by rw [raise_A]; exact h.nzr,
    by rw [raise_A, raise_R]; exact h.nzc⟩

theorem nzInv_rowPivot {n : ℕ} {s : St} (i : ℕ) (hi : i < s.A.length) (h : NZInv n s) :
    NZInv n (rowPivot i s) := by
  rcases rowPivot_cases i s h.num with ⟨he, _⟩ | ⟨j, hij, hj, _, _, he⟩
  · rw [he]; exact h
  · have hv : ∀ r c, val (rowPivot i s).A r c = val s.A (swapIdx i j r) c := by
      rw [he]; exact fun r c => val_rowSwap s.A i j hi hj r c
    have hlen : (rowPivot i s).A.length = s.A.length := by rw [he]; exact length_rowSwap _ _ _
    have hR : (rowPivot i s).R = s.R := by rw [he]; rfl
    refine ⟨((rowPivot_spec n i s hi).1 h.ws).1, numM_rowPivot i s h.num, ?_, ?_⟩
    · intro r hr
      rw [hlen] at hr
      obtain ⟨c, hc⟩ := h.nzr _ (swapIdx_lt' hi hj hr)
      exact ⟨c, by rw [hv]; exact hc⟩
    · intro c hc
      rw [hR] at hc
      obtain ⟨r, hr⟩ := h.nzc c hc
      exact ⟨swapIdx i j r, by rw [hv, swapIdx_invol]; exact hr⟩

theorem nzInv_colPivot {n : ℕ} {s : St} (j : ℕ) (hj : j < s.R.length) (h : NZInv n s) :
    NZInv n (colPivot j s) := by
  rcases colPivot_cases n j s h.ws h.num with ⟨he, _⟩ | ⟨i, hji, hi, _, _, he⟩
  · rw [he]; exact h
  · have hv : ∀ r c, val (colPivot j s).A r c = val s.A r (swapIdx j i c) := by
      rw [he]; exact fun r c => val_colSwap s.A s.R.length j i h.ws.Arect hj hi r c
    have hlen : (colPivot j s).A.length = s.A.length := by rw [he]; exact length_colSwap _ _ _
    have hR : (colPivot j s).R.length = s.R.length := by rw [he]; exact length_rowSwap _ _ _
    refine ⟨((colPivot_spec n j s hj h.ws).1 h.ws).1, numM_colPivot j s h.num, ?_, ?_⟩
    · intro r hr
      rw [hlen] at hr
      obtain ⟨c, hc⟩ := h.nzr r hr
      exact ⟨swapIdx j i c, by rw [hv, swapIdx_invol]; exact hc⟩
    · intro c hc
      rw [hR] at hc
      obtain ⟨r, hr⟩ := h.nzc _ (swapIdx_lt' hj hi hc)
      exact ⟨r, by rw [hv]; exact hr⟩

/-- One pass of the body of the outer loop of `row_elimination` leaves no zero row / column. -/
theorem nzInv_rowElimStep {n : ℕ} {s : St} (i : ℕ) (hi : i < s.A.length) (h : NZInv n s) :
    NZInv n (rowElimStep i s) := by
  obtain ⟨ws', hR, _, _, _⟩ := rowRel_rowElimStep n i s hi h.ws
  suffices hh : NZR (rowElimStep i s).A ∧ NZC (rowElimStep i s).A (rowElimStep i s).R.length from
    ⟨ws', sym_rowElimStep i s h.num, hh.1, hh.2⟩
  rw [hR]
  obtain ⟨p1, p2⟩ := rowPivot_spec n i s hi
  have h1 := nzInv_rowPivot i hi h
  have hR1 : (rowPivot i s).R.length = s.R.length := by rw [((p1 h.ws).2).1]
  have hi1 : i < (rowPivot i s).A.length := by rw [p2]; exact hi
  unfold rowElimStep
  simp only
  split
  · exact ⟨h1.nzr, hR1 ▸ h1.nzc⟩
  · rename_i hz
    have hp : val (rowPivot i s).A i i ≠ 0 :=
      (isZero_false_iff_val h1.num i i).1 (by simpa using hz)
    rw [gM_eq_num_val h1.num i i]
    have inv := rowElim_fold_flag n i (val (rowPivot i s).A i i) (rowPivot i s) h1.ws h1.num hi1 h1.nzr
    generalize (List.range (rowPivot i s).A.length).foldl
      (rowElimInner i (Entry.num (val (rowPivot i s).A i i))) (rowPivot i s, []) = r at inv
    have hlen := inv.numInv.base.len
    have hE := rowsFrom_elim (rowPivot i s).A.length (rowPivot i s).A.length i hi1 (Nat.le_refl _)
      (fun k => val (rowPivot i s).A k i / val (rowPivot i s).A i i) _ _ inv.numInv.vals
    have hS := rowsFrom_skips (rowPivot i s).A.length (sortDesc r.2)
      (pairwise_sortDesc inv.numInv.base.nd) _ _
      (fun r' c => val_delRows (sortDesc r.2) r.1 r' c)
      (fun r' c hr => val_oob_row (by rw [hlen]; omega) c)
      (fun z hz => Or.inl fun c => (inv.numInv.base.zs z (mem_sortDesc.mp hz)).2.2 (fun _ => 0) c)
    obtain ⟨c1, _⟩ := delRows_spec (sortDesc r.2) r.1 (pairwise_sortDesc inv.numInv.base.nd)
      (fun z hz' => by rw [hlen]; exact (inv.numInv.base.zs z (mem_sortDesc.mp hz')).1)
      inv.numInv.base.ws.Lrect inv.numInv.base.ws.Arect
    constructor
    · -- rows
      intro r' hr'
      have hk : skips (sortDesc r.2) r' < (rowPivot i s).A.length := by
        have := skips_le (sortDesc r.2) r'
        omega
      have hnm : skips (sortDesc r.2) r' ∉ r.2 := fun hm =>
        skips_not_mem _ (pairwise_sortDesc inv.numInv.base.nd) r' (mem_sortDesc.mpr hm)
      by_cases hki : skips (sortDesc r.2) r' = i
      · refine ⟨i, ?_⟩
        rw [val_delRows, hki, inv.numInv.vals i i, if_neg (by omega)]
        exact hp
      · by_contra hall
        push Not at hall
        apply hnm
        apply inv.flagged _ hk hki
        intro l
        rw [← val_delRows]
        exact hall l
    · -- columns
      intro c hc
      rw [← hR1] at hc
      obtain ⟨r0, hr0⟩ := h1.nzc c hc
      obtain ⟨r1, hr1⟩ := nz_of_rowsFrom hE.2 (lt_of_val_ne hr0) hr0
      exact nz_of_rowsFrom hS.2 (by have := lt_of_val_ne hr1; omega) hr1

/-- One pass of the body of the outer loop of `column_elimination` leaves no zero row / column. -/
theorem nzInv_colElimStep {n : ℕ} {s : St} (j : ℕ) (hj : j < s.R.length) (h : NZInv n s) :
    NZInv n (colElimStep j s) := by
  obtain ⟨ws', _, _, _, _⟩ := colRel_colElimStep n j s hj h.ws
  suffices hh : NZR (colElimStep j s).A ∧ NZC (colElimStep j s).A (colElimStep j s).R.length from
    ⟨ws', sym_colElimStep j s h.num, hh.1, hh.2⟩
  obtain ⟨p1, p2⟩ := colPivot_spec n j s hj h.ws
  have h1 := nzInv_colPivot j hj h
  have hj1 : j < (colPivot j s).R.length := by rw [p2]; exact hj
  unfold colElimStep
  simp only
  split
  · exact ⟨h1.nzr, h1.nzc⟩
  · rename_i hz
    have hp : val (colPivot j s).A j j ≠ 0 :=
      (isZero_false_iff_val h1.num j j).1 (by simpa using hz)
    rw [gM_eq_num_val h1.num j j, width_eq h1.ws]
    have inv := colElim_fold_flag n j (val (colPivot j s).A j j) (colPivot j s) h1.ws h1.num hj1 h1.nzc
    generalize (List.range (colPivot j s).R.length).foldl
      (colElimInner j (Entry.num (val (colPivot j s).A j j))) (colPivot j s, []) = r at inv
    have hlen := inv.numInv.base.len
    have hE := rowsFrom_elim (colPivot j s).R.length (colPivot j s).R.length j hj1 (Nat.le_refl _)
      (fun l => val (colPivot j s).A j l / val (colPivot j s).A j j)
      (tr (val (colPivot j s).A)) (tr (val r.1.A)) (fun l k => inv.numInv.vals k l)
    have hS := rowsFrom_skips (colPivot j s).R.length (sortDesc r.2)
      (pairwise_sortDesc inv.numInv.base.nd) (tr (val r.1.A))
      (tr (val (r.1.delCols (sortDesc r.2)).A))
      (fun c r' => val_delCols (sortDesc r.2) r.1 r' c)
      (fun c r' hc => val_oob_col inv.numInv.base.ws.Arect (by rw [hlen]; omega) r')
      (fun z hz => Or.inl fun k => (inv.numInv.base.zs z (mem_sortDesc.mp hz)).2.2 (fun _ => 0) k)
    obtain ⟨c1, _⟩ := delCols_spec n (sortDesc r.2) r.1 (pairwise_sortDesc inv.numInv.base.nd)
      (fun z hz' => by rw [hlen]; exact (inv.numInv.base.zs z (mem_sortDesc.mp hz')).1)
      inv.numInv.base.ws.Arect inv.numInv.base.ws.Rrect
    constructor
    · -- rows
      intro r0 hr0
      have hA1 : (r.1.delCols (sortDesc r.2)).A.length = (colPivot j s).A.length := by
        have := (delCols_spec n (sortDesc r.2) r.1 (pairwise_sortDesc inv.numInv.base.nd)
          (fun z hz' => by rw [hlen]; exact (inv.numInv.base.zs z (mem_sortDesc.mp hz')).1)
          inv.numInv.base.ws.Arect inv.numInv.base.ws.Rrect).2.2.2.2.1
        rw [this]
        exact ((inv.numInv.base.rel h1.ws).2.2.1)
      rw [hA1] at hr0
      obtain ⟨c0, hc0⟩ := h1.nzr r0 hr0
      have hc0' : tr (val (colPivot j s).A) c0 r0 ≠ 0 := hc0
      obtain ⟨c2, hc2⟩ := nz_of_rowsFrom hE.2 (lt_of_val_ne_col h1.ws.Arect hc0) hc0'
      have hc2lt : c2 < (colPivot j s).R.length := by
        have := lt_of_val_ne_col inv.numInv.base.ws.Arect (r := r0) (c := c2) hc2
        omega
      obtain ⟨c3, hc3⟩ := nz_of_rowsFrom hS.2 hc2lt hc2
      exact ⟨c3, hc3⟩
    · -- columns
      intro c' hc'
      have hk : skips (sortDesc r.2) c' < (colPivot j s).R.length := by
        have := skips_le (sortDesc r.2) c'
        omega
      have hnm : skips (sortDesc r.2) c' ∉ r.2 := fun hm =>
        skips_not_mem _ (pairwise_sortDesc inv.numInv.base.nd) c' (mem_sortDesc.mpr hm)
      by_cases hkj : skips (sortDesc r.2) c' = j
      · refine ⟨j, ?_⟩
        rw [val_delCols, hkj, inv.numInv.vals j j, if_neg (by omega)]
        exact hp
      · by_contra hall
        push Not at hall
        apply hnm
        apply inv.flagged _ hk hkj
        intro k
        rw [← val_delCols]
        exact hall k

theorem nzInv_rowElimLoop {n : ℕ} : ∀ (fuel i : ℕ) (s : St), NZInv n s →
    NZInv n (rowElimLoop fuel i s) := by
  intro fuel
  induction fuel with
  | zero =>
    intro i s h
    unfold rowElimLoop
    split
    · exact nzInv_raise h _
    · exact h
  | succ fuel ih =>
    intro i s h
    unfold rowElimLoop
    split
    · exact ih _ _ (nzInv_rowElimStep i (by omega) h)
    · exact h

theorem nzInv_colElimLoop {n : ℕ} : ∀ (fuel j : ℕ) (s : St), NZInv n s →
    NZInv n (colElimLoop fuel j s) := by
  intro fuel
  induction fuel with
  | zero =>
    intro j s h
    unfold colElimLoop
    split
    · exact nzInv_raise h _
    · exact h
  | succ fuel ih =>
    intro j s h
    unfold colElimLoop
    split
    · rename_i hc
      rw [width_eq h.ws] at hc
      exact ih _ _ (nzInv_colElimStep j (by omega) h)
    · exact h

theorem nzInv_mainLoop {n : ℕ} : ∀ (fuel nr nro nc nco : ℕ) (s : St),
    NZInv n s → NZInv n (mainLoop fuel nr nro nc nco s) := by
  intro fuel
  induction fuel with
  | zero =>
    intro nr nro nc nco s h
    unfold mainLoop
    split
    · exact nzInv_raise h _
    · exact h
  | succ fuel ih =>
    intro nr nro nc nco s h
    unfold mainLoop
    split
    · exact ih _ _ _ _ _ (nzInv_colElimLoop _ _ _ (nzInv_rowElimLoop _ _ _ h))
    · exact h

/-- `deparallelize_rows` leaves no zero row / column: the remaining rows are rows of the input, and
    a column keeps a non-zero entry in the partner of every deleted row. -/
theorem nzInv_deparallelizeRows {n : ℕ} {s : St} (h : NZInv n s) : NZInv n (deparallelizeRows s) := by
  have hnes := numM_nesm h.num
  obtain ⟨ws', hR, _, _, _⟩ := rowRel_deparallelizeRows n s hnes h.ws
  suffices hh : NZR (deparallelizeRows s).A ∧ NZC (deparallelizeRows s).A (deparallelizeRows s).R.length
    from ⟨ws', sym_deparallelizeRows _ h.num, hh.1, hh.2⟩
  rw [hR]
  have inv := deparRows_loop_inv n s h.ws hnes
  have par := deparRows_loop_par n s h.ws hnes
  unfold deparallelizeRows
  simp only
  generalize (List.range s.A.length).foldl (deparRowsOuter s.A) (s, []) = r at inv par
  have hv : ∀ r' c, val (r.1.delRows (sortDesc r.2)).A r' c = val s.A (skips (sortDesc r.2) r') c := by
    intro r' c; rw [val_delRows, inv.hA]
  have hlenA : r.1.A.length = s.A.length := by rw [inv.hA]
  obtain ⟨c1, _⟩ := delRows_spec (sortDesc r.2) r.1 (pairwise_sortDesc inv.nd)
    (fun z hz => by rw [hlenA]; exact (inv.rng z (mem_sortDesc.mp hz)).2)
    (by rw [hlenA]; exact inv.Lrect) (by rw [inv.hA, inv.hR]; exact h.ws.Arect)
  have hS := rowsFrom_skips s.A.length (sortDesc r.2) (pairwise_sortDesc inv.nd) _ _ hv
    (fun r' c hr => val_oob_row (by omega) c)
    (fun z hz => by
      obtain ⟨hzl, i, hi, _, hiz, μ, hμ⟩ := par z (mem_sortDesc.mp hz)
      exact Or.inr ⟨μ, i, fun h => hi (mem_sortDesc.mp h), by omega, hμ⟩)
  constructor
  · intro r' hr'
    have hk : skips (sortDesc r.2) r' < s.A.length := by
      have := skips_le (sortDesc r.2) r'
      omega
    obtain ⟨c, hc⟩ := h.nzr _ hk
    exact ⟨c, by rw [hv]; exact hc⟩
  · intro c hc
    obtain ⟨r0, hr0⟩ := h.nzc c hc
    exact nz_of_rowsFrom hS.2 (lt_of_val_ne hr0) hr0

theorem nzInv_deparallelizeCols {n : ℕ} {s : St} (h : NZInv n s) : NZInv n (deparallelizeCols s) := by
  have hnes := numM_nesm h.num
  obtain ⟨ws', _, hAl, _, _⟩ := colRel_deparallelizeCols n s hnes h.ws
  suffices hh : NZR (deparallelizeCols s).A ∧ NZC (deparallelizeCols s).A (deparallelizeCols s).R.length
    from ⟨ws', sym_deparallelizeCols _ h.num, hh.1, hh.2⟩
  have hAl' : (deparallelizeCols s).A.length = s.A.length := hAl
  unfold NZR
  rw [hAl']
  have inv := deparCols_loop_inv n s h.ws hnes
  have par := deparCols_loop_par n s h.ws hnes
  unfold deparallelizeCols
  simp only
  generalize (List.range (width s.A)).foldl (deparColsOuter s.A) (s, []) = r at inv par
  have hv : ∀ c r', val (r.1.delCols (sortDesc r.2)).A r' c = val s.A r' (skips (sortDesc r.2) c) := by
    intro c r'; rw [val_delCols, inv.hA]
  obtain ⟨c1, _⟩ := delCols_spec n (sortDesc r.2) r.1 (pairwise_sortDesc inv.nd)
    (fun z hz => by rw [inv.Rlen]; exact (inv.rng z (mem_sortDesc.mp hz)).2)
    (by rw [inv.hA, inv.Rlen]; exact h.ws.Arect) inv.Rrect
  have hS := rowsFrom_skips s.R.length (sortDesc r.2) (pairwise_sortDesc inv.nd)
    (tr (val s.A)) (tr (val (r.1.delCols (sortDesc r.2)).A)) hv
    (fun c r' hc => val_oob_col h.ws.Arect (by omega) r')
    (fun z hz => by
      obtain ⟨hzl, i, hi, _, hiz, μ, hμ⟩ := par z (mem_sortDesc.mp hz)
      exact Or.inr ⟨μ, i, fun h => hi (mem_sortDesc.mp h), by omega, hμ⟩)
  constructor
  · intro r0 hr0
    obtain ⟨c0, hc0⟩ := h.nzr r0 hr0
    have hc0' : tr (val s.A) c0 r0 ≠ 0 := hc0
    obtain ⟨c2, hc2⟩ := nz_of_rowsFrom hS.2 (lt_of_val_ne_col h.ws.Arect hc0) hc0'
    exact ⟨c2, hc2⟩
  · intro c' hc'
    have hk : skips (sortDesc r.2) c' < s.R.length := by
      have := skips_le (sortDesc r.2) c'
      have := inv.Rlen
      omega
    obtain ⟨r0, hr0⟩ := h.nzc _ hk
    exact ⟨r0, by rw [hv]; exact hr0⟩

/-- **No zero line is an invariant of the whole algorithm.** -/
theorem nzInv_gaussSt (M : EMat) (n : ℕ) (hpos : 0 < M.length) (hrect : Rect M n) (hnum : NumM M)
    (hr : NZR M) (hc : NZC M n) : NZInv n (gaussSt M) := by
  have g0 := good_init M n hpos hrect
  have i0 : NZInv n { L := identity M.length, A := M, R := identity n, flag := .ok } :=
    ⟨g0.ws, hnum, hr, by show NZC M (identity n).length; rw [length_identity]; exact hc⟩
  unfold gaussSt
  simp only
  rw [width_of_rect hrect hpos]
  exact nzInv_mainLoop _ _ _ _ _ _ (nzInv_deparallelizeCols (nzInv_deparallelizeRows i0))

/-- The matrix returned for a numeric input without zero row / column has no zero row / column. -/
theorem no_zero_lines_of_ok (M : EMat) (n : ℕ) (hpos : 0 < M.length) (hrect : Rect M n) (hnum : NumM M)
    (hr : NZR M) (hc : NZC M n) (L : RMat) (A : EMat) (R : RMat)
    (h : gaussianElimination M = .ok L A R) : NZR A ∧ NZC A R.length := by
  have inv := nzInv_gaussSt M n hpos hrect hnum hr hc
  unfold gaussianElimination at h
  simp only at h
  split at h
  · simp only [Outcome.ok.injEq] at h
    obtain ⟨_, hA, hR⟩ := h
    subst hA hR
    exact ⟨inv.nzr, inv.nzc⟩
  · simp at h
  · simp at h

theorem numM_nzm {A : EMat} (h : NumM A) : NZM A := by
  intro r hr e he
  have := h r hr e he
  cases e with
  | num q => trivial
  | sym q s => exact absurd this (by simp [Entry.SymIn])

end Ptn.C12
