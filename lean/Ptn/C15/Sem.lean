import Ptn.C15.Model
import Mathlib.LinearAlgebra.Matrix.ConjTranspose
import Mathlib.Data.Complex.Basic
import Mathlib.LinearAlgebra.Matrix.Notation
/-! Helper definitions for C15 over complex matrices (single Mathlib modules): what it means for a
    conversion dictionary to give the derived labels their intended values, and for the flag tables
    to be sound. -/
namespace Ptn.C15
open Matrix

variable {n : Type} [Fintype n] [DecidableEq n]

/-- `den` plays the role of the final `conversion_dictionary`: the derived labels carry the values
    the source stores for them (`operator.T`, `operator.conj()`, `operator.conj().T`, `a @ b`). -/
structure DictSound (den : Label → Matrix n n ℂ) : Prop where
  transp : ∀ l, den (l ++ "_T") = (den l)ᵀ
  conj : ∀ l, den (l ++ "_conj") = (den l).map star
  adj : ∀ l, den (l ++ "_H") = (den l)ᴴ
  mult : ∀ a b, den (a ++ "_mult_" ++ b) = den a * den b

/-- The flags mean what their names say. -/
structure FlagsSound (fl : Flags) (den : Label → Matrix n n ℂ) : Prop where
  symH : ∀ l, fl.symH l = true → (den l)ᵀ = den l
  symJ : ∀ l, fl.symJ l = true → (den l)ᵀ = den l
  real : ∀ l, fl.real l = true → (den l).map star = den l
  herm : ∀ l, fl.herm l = true → (den l)ᴴ = den l
  ident : ∀ l, fl.ident l = true → den l = 1

omit [Fintype n] in
theorem idDictAfterH_sound (fl : Flags) (den : Label → Matrix n n ℂ) (hf : FlagsSound fl den)
    (jk : List Label) (l : Label) (h : idDictAfterH fl jk l = true) : den l = 1 := by
  simp only [idDictAfterH] at h
  split at h
  · simp at h
  · exact hf.ident l h

theorem multLabel_sound (ident : Label → Bool) (den : Label → Matrix n n ℂ) (hd : DictSound den)
    (hi : ∀ l, ident l = true → den l = 1) (a b : Label) :
    den (multLabel ident a b) = den a * den b := by
  simp only [multLabel]
  split
  · rename_i h; rw [hi a h, Matrix.one_mul]
  · split
    · rename_i h; rw [hi b h, Matrix.mul_one]
    · exact hd.mult a b

/-- per-site soundness of the four labelling shortcuts (restated as a property theorem in
    `Props.lean`) -/
theorem label_shortcuts_sound' (fl : Flags) (jk : List Label) (den : Label → Matrix n n ℂ)
    (hd : DictSound den) (hf : FlagsSound fl den) (l : Label) :
    den (if fl.symH l then l else l ++ "_T") = (den l)ᵀ ∧
    den (if fl.real l then l else l ++ "_conj") = (den l).map star ∧
    den (prodLabel fl jk l) = (den l)ᴴ * den l ∧
    den (if fl.symJ (prodLabel fl jk l) then prodLabel fl jk l else prodLabel fl jk l ++ "_T") =
      ((den l)ᴴ * den l)ᵀ := by
  have hp : den (prodLabel fl jk l) = (den l)ᴴ * den l := by
    simp only [prodLabel]
    rw [multLabel_sound _ den hd (idDictAfterH_sound fl den hf jk)]
    congr 1
    split
    · rename_i h; exact (hf.herm l h).symm
    · exact hd.adj l
  refine ⟨?_, ?_, hp, ?_⟩
  · split
    · rename_i h; exact (hf.symH l h).symm
    · exact hd.transp l
  · split
    · rename_i h; exact (hf.real l h).symm
    · exact hd.conj l
  · split
    · rename_i h; rw [← hp]; exact (hf.symJ _ h).symm
    · rw [hd.transp, hp]

end Ptn.C15
