import Ptn.C15.Model
import Ptn.C15.Lemmas
import Ptn.C15.Sem
/-! Property theorems for C15. Only property theorems and non-vacuity examples live here.

  `generateLindbladian` is the literal port of `generate_lindbladian` (tied to `/repo` by the
  correspondence stage).  The theorems characterise its output term list for ALL inputs.  The
  property as stated (GKSL generator) is FALSE of the code: `anticomm_bra_sign_witness` says
  precisely which prefactor the bra-side anticommutator term receives (finding F-C15). -/
namespace Ptn.C15

/-- The construction completes and the generated term list is, in this order: the ket terms of the
    Hamiltonian, its bra terms, the `L ⊗ conj L` terms, and per jump operator the ket-side and the
    bra-side product term — the latter with prefactor `+f/2` (`termsWithBraSign 1`). -/
theorem generate_spec (inp : Input) (hw : WellFormed inp) :
    ∃ h, generateLindbladian inp = some h ∧ h.terms = termsWithBraSign 1 inp := by
  obtain ⟨h, hg⟩ := generate_succeeds inp hw.2
  exact ⟨h, hg, generate_terms inp h hw.1 hg⟩

/-- Without the hypothesis on the doubled identifiers: *if* the construction completes, the term
    list is the closed form. -/
theorem generate_spec_of_some (inp : Input) (h : Ham)
    (hn : ∀ j ∈ inp.jumps, (j.tp.map Prod.fst).Nodup) (hg : generateLindbladian inp = some h) :
    h.terms = termsWithBraSign 1 inp :=
  generate_terms inp h hn hg

/-- `2·|H| + 3·|J|` terms. -/
theorem ham_terms_count (inp : Input) (h : Ham) (hn : ∀ j ∈ inp.jumps, (j.tp.map Prod.fst).Nodup)
    (hg : generateLindbladian inp = some h) :
    h.terms.length = 2 * inp.ham.terms.length + 3 * inp.jumps.length := by
  rw [generate_terms inp h hn hg]
  simp only [termsWithBraSign, List.length_append, List.length_map, List.length_flatMap,
    List.length_cons, List.length_nil]
  have : (inp.jumps.map fun _ => 0 + 1 + 1).sum = 2 * inp.jumps.length := by
    induction inp.jumps with
    | nil => rfl
    | cons a l ih => simp only [List.map_cons, List.sum_cons, ih, List.length_cons]; omega
  omega

/-- Each Hamiltonian term `(f, c, {s ↦ A_s})` yields exactly one ket term — the same prefactor and
    coefficient, the same labels on the ket identifiers — at position `i`, and one bra term — the
    prefactor negated, the labels transposed (kept when flagged symmetric, suffixed `_T`
    otherwise) on the bra identifiers — at position `|H| + i`. -/
theorem ham_part_spec (inp : Input) (h : Ham) (hn : ∀ j ∈ inp.jumps, (j.tp.map Prod.fst).Nodup)
    (hg : generateLindbladian inp = some h) (i : Nat) (t : Term)
    (hi : inp.ham.terms[i]? = some t) :
    h.terms[i]? = some ⟨t.frac, t.coeff, t.tp.map fun (s, l) => (s ++ inp.ketSuffix, l)⟩ ∧
    h.terms[inp.ham.terms.length + i]? = some ⟨-t.frac, t.coeff, t.tp.map fun (s, l) =>
      (s ++ inp.braSuffix, if inp.flags.symH l then l else l ++ "_T")⟩ := by
  rw [generate_terms inp h hn hg]
  have hlt : i < inp.ham.terms.length := by
    rcases Nat.lt_or_ge i inp.ham.terms.length with h | h
    · exact h
    · rw [List.getElem?_eq_none h] at hi; simp at hi
  simp only [termsWithBraSign, List.append_assoc]
  constructor
  · rw [List.getElem?_append_left (by simpa using hlt), List.getElem?_map, hi]
    rfl
  · rw [List.getElem?_append_right (by simp), List.length_map, Nat.add_sub_cancel_left,
      List.getElem?_append_left (by simpa using hlt), List.getElem?_map, hi]
    rfl

/-- Each jump operator `(f, γ, {s ↦ L_s})` yields, at position `2|H| + k`, the term `L ⊗ conj L`
    with prefactor `f` and coefficient symbol `γ*j` (mapped to `i·γ`): the labels on the ket
    identifiers, the conjugated labels (kept when flagged real) on the bra identifiers. -/
theorem jump_part_spec (inp : Input) (h : Ham) (hn : ∀ j ∈ inp.jumps, (j.tp.map Prod.fst).Nodup)
    (hg : generateLindbladian inp = some h) (k : Nat) (j : Term) (hk : inp.jumps[k]? = some j) :
    h.terms[2 * inp.ham.terms.length + k]? = some ⟨j.frac, j.coeff ++ "*j",
      (j.tp.map fun (s, l) => (s ++ inp.ketSuffix, l)) ++
      (j.tp.map fun (s, l) => (s ++ inp.braSuffix,
        if inp.flags.real l then l else l ++ "_conj"))⟩ := by
  rw [generate_terms inp h hn hg]
  have hlt : k < inp.jumps.length := by
    rcases Nat.lt_or_ge k inp.jumps.length with h | h
    · exact h
    · rw [List.getElem?_eq_none h] at hk; simp at hk
  simp only [termsWithBraSign]
  rw [List.getElem?_append_left (by simp; omega), List.getElem?_append_right (by simp; omega)]
  have : 2 * inp.ham.terms.length + k -
      (inp.ham.terms.map (ketTermOf inp.ketSuffix) ++
        inp.ham.terms.map (braTermOf inp.flags.symH inp.braSuffix)).length = k := by
    simp; omega
  rw [this, List.getElem?_map, hk]
  rfl

/-- Ket-side anticommutator: at position `2|H| + |J| + 2k` the term `−(f/2) · γ*j · L†L` on the ket
    identifiers, `L†L` site by site (`A_H_mult_A`, `A_mult_A` for Hermitian `A`, the other factor
    when one is the identity). -/
theorem anticomm_ket_spec (inp : Input) (h : Ham) (hn : ∀ j ∈ inp.jumps, (j.tp.map Prod.fst).Nodup)
    (hg : generateLindbladian inp = some h) (k : Nat) (j : Term) (hk : inp.jumps[k]? = some j) :
    h.terms[2 * inp.ham.terms.length + inp.jumps.length + 2 * k]? =
      some ⟨-(j.frac / 2), j.coeff ++ "*j",
        j.tp.map fun (s, l) => (s ++ inp.ketSuffix, prodLabel inp.flags inp.jumpKeys l)⟩ := by
  rw [generate_terms inp h hn hg]
  simp only [termsWithBraSign]
  rw [List.getElem?_append_right (by simp; omega)]
  have : 2 * inp.ham.terms.length + inp.jumps.length + 2 * k -
      (inp.ham.terms.map (ketTermOf inp.ketSuffix) ++
        inp.ham.terms.map (braTermOf inp.flags.symH inp.braSuffix) ++
        inp.jumps.map (jumpTermOf inp.flags.real inp.ketSuffix inp.braSuffix)).length = 2 * k := by
    simp; omega
  rw [this]
  exact (getElem?_flatMap_pair _ _ inp.jumps k j hk).1

/-- **The exact characterisation of finding F-C15.**  At position `2|H| + |J| + 2k + 1` stands the
    bra-side anticommutator term: the transposed `L†L` labels on the bra identifiers, the same
    coefficient symbol `γ*j`, and the prefactor **`+f/2`** — the negative of the ket-side
    prefactor `−f/2` — whereas the GKSL generator of the property prescribes `−f/2` on both
    sides (see `generated_eq_gksl_iff`). -/
theorem anticomm_bra_sign_witness (inp : Input) (h : Ham)
    (hn : ∀ j ∈ inp.jumps, (j.tp.map Prod.fst).Nodup)
    (hg : generateLindbladian inp = some h) (k : Nat) (j : Term) (hk : inp.jumps[k]? = some j) :
    (∃ t, h.terms[2 * inp.ham.terms.length + inp.jumps.length + 2 * k + 1]? = some t ∧
      t.frac = j.frac / 2 ∧ t.coeff = j.coeff ++ "*j" ∧
      t.tp = (j.tp.map fun (s, l) => (s ++ inp.braSuffix,
        if inp.flags.symJ (prodLabel inp.flags inp.jumpKeys l)
        then prodLabel inp.flags inp.jumpKeys l
        else prodLabel inp.flags inp.jumpKeys l ++ "_T")) ∧
      (gkslTerms inp)[2 * inp.ham.terms.length + inp.jumps.length + 2 * k + 1]? =
        some { t with frac := -(j.frac / 2) } ∧
      t.frac - (-(j.frac / 2)) = j.frac) := by
  rw [generate_terms inp h hn hg]
  refine ⟨braProdTermWith (1 * (j.frac / 2)) inp.flags inp.jumpKeys inp.braSuffix j, ?_, ?_, rfl,
    rfl, ?_, ?_⟩
  · simp only [termsWithBraSign]
    rw [List.getElem?_append_right (by simp; omega)]
    have : 2 * inp.ham.terms.length + inp.jumps.length + 2 * k + 1 -
        (inp.ham.terms.map (ketTermOf inp.ketSuffix) ++
          inp.ham.terms.map (braTermOf inp.flags.symH inp.braSuffix) ++
          inp.jumps.map (jumpTermOf inp.flags.real inp.ketSuffix inp.braSuffix)).length =
        2 * k + 1 := by
      simp; omega
    rw [this]
    exact (getElem?_flatMap_pair _ _ inp.jumps k j hk).2
  · simp [braProdTermWith]
  · simp only [gkslTerms, termsWithBraSign]
    rw [List.getElem?_append_right (by simp; omega)]
    have : 2 * inp.ham.terms.length + inp.jumps.length + 2 * k + 1 -
        (inp.ham.terms.map (ketTermOf inp.ketSuffix) ++
          inp.ham.terms.map (braTermOf inp.flags.symH inp.braSuffix) ++
          inp.jumps.map (jumpTermOf inp.flags.real inp.ketSuffix inp.braSuffix)).length =
        2 * k + 1 := by
      simp; omega
    rw [this, (getElem?_flatMap_pair _ _ inp.jumps k j hk).2]
    simp [braProdTermWith]
  · simp only [braProdTermWith, Rat.one_mul]
    rw [Rat.sub_eq_add_neg, Rat.neg_neg]
    grind

/-- The generated list is the GKSL list if and only if every jump prefactor is zero. -/
theorem generated_eq_gksl_iff (inp : Input) (h : Ham)
    (hn : ∀ j ∈ inp.jumps, (j.tp.map Prod.fst).Nodup) (hg : generateLindbladian inp = some h) :
    h.terms = gkslTerms inp ↔ ∀ j ∈ inp.jumps, j.frac = 0 := by
  rw [generate_terms inp h hn hg]
  simp only [gkslTerms, termsWithBraSign, List.append_cancel_left_eq]
  induction inp.jumps with
  | nil => simp
  | cons j js ih =>
    simp only [List.flatMap_cons, List.cons_append, List.nil_append, List.cons.injEq, true_and,
      List.mem_cons, forall_eq_or_imp, ih]
    apply and_congr_left'
    simp only [braProdTermWith, Term.mk.injEq, and_true]
    constructor
    · intro hf; grind
    · intro hf; rw [hf]; grind

/-- Everything else is as the GKSL generator prescribes: the generated list and the GKSL list
    differ only in the prefactor of the bra-side product terms. -/
theorem residual_spec (inp : Input) (h : Ham) (hn : ∀ j ∈ inp.jumps, (j.tp.map Prod.fst).Nodup)
    (hg : generateLindbladian inp = some h) :
    h.terms.length = (gkslTerms inp).length ∧
    h.terms.map (fun t => (t.coeff, t.tp)) = (gkslTerms inp).map (fun t => (t.coeff, t.tp)) ∧
    h.terms.take (2 * inp.ham.terms.length + inp.jumps.length) =
      (gkslTerms inp).take (2 * inp.ham.terms.length + inp.jumps.length) := by
  rw [generate_terms inp h hn hg]
  simp only [gkslTerms, termsWithBraSign]
  refine ⟨by simp, ?_, ?_⟩
  · simp only [List.map_append, List.map_flatMap]
    rfl
  · rw [List.take_left' (by simp; omega), List.take_left' (by simp; omega)]

/-- `rate = (dense coefficient)²`: with `c² = f·γ` the three scalar prefactors of the symbolic
    construction (`f·iγ`, `−f/2·iγ`, `+f/2·iγ`) are those of `exact_lindbladian`
    (`1j·c²`, `−1j/2·c²`, `+1j/2·c²`) — both constructions carry the same (wrong) sign. -/
theorem symbolic_dense_prefactors_agree (f γ c2 : Rat) (h : c2 = f * γ) :
    symbolicJumpPrefactors f γ = exactJumpPrefactors c2 := by
  subst h
  simp only [symbolicJumpPrefactors, exactJumpPrefactors, Prod.mk.injEq, GRat.mk.injEq, true_and]
  refine ⟨by grind, by grind, by grind⟩

/-! ### Soundness of the labelling shortcuts (per site) -/

section sem
open Matrix
variable {n : Type} [Fintype n] [DecidableEq n]

/-- Whatever shortcut is taken, the label written on the bra side of a Hamiltonian term denotes the
    transpose, the one written on the bra side of a jump term the complex conjugate, the product
    label denotes `L_s† L_s`, and its bra-side version the transpose of that — provided the final
    conversion dictionary gives the derived labels their values and the flags are sound. -/
theorem label_shortcuts_sound (fl : Flags) (jk : List Label) (den : Label → Matrix n n ℂ)
    (hd : DictSound den) (hf : FlagsSound fl den) (l : Label) :
    den (if fl.symH l then l else l ++ "_T") = (den l)ᵀ ∧
    den (if fl.real l then l else l ++ "_conj") = (den l).map star ∧
    den (prodLabel fl jk l) = (den l)ᴴ * den l ∧
    den (if fl.symJ (prodLabel fl jk l) then prodLabel fl jk l else prodLabel fl jk l ++ "_T") =
      ((den l)ᴴ * den l)ᵀ := by
  have hp : den (prodLabel fl jk l) = (den l)ᴴ * den l := by
    simp only [prodLabel]
    rw [multLabel_sound _ den hd (idDictAfterH_sound fl den hf jk)]
    congr 1
    split
    · rename_i h; exact (hf.herm l h).symm
    · exact hd.adj l
  refine ⟨?_, ?_, hp, ?_⟩
  · split
    · rename_i h; exact (hf.symH l h).symm
    · exact hd.transp l
  · split
    · rename_i h; exact (hf.real l h).symm
    · exact hd.conj l
  · split
    · rename_i h; rw [← hp]; exact (hf.symJ _ h).symm
    · rw [hd.transp, hp]

end sem

/-! ### Non-vacuity and the concrete witness -/

example : WellFormed exampleInput := by
  refine ⟨?_, ?_⟩ <;> intro j hj <;> simp [exampleInput] at hj <;> subst hj <;>
    simp [DoubledDistinct] <;> decide

/-- the generated terms of the example … -/
example : (generateLindbladian exampleInput).map (·.terms) = some
    [⟨1/2, "J", [("s0_ket", "X")]⟩, ⟨-1/2, "J", [("s0_bra", "X")]⟩,
     ⟨3/4, "g*j", [("s0_ket", "A"), ("s0_bra", "A_conj")]⟩,
     ⟨-3/8, "g*j", [("s0_ket", "A_H_mult_A")]⟩,
     ⟨3/8, "g*j", [("s0_bra", "A_H_mult_A_T")]⟩] := by decide +kernel

/-- … differ from the GKSL prescription in the last prefactor (`+3/8` instead of `−3/8`). -/
example : (generateLindbladian exampleInput).map (·.terms) ≠ some (gkslTerms exampleInput) ∧
    (gkslTerms exampleInput)[4]? = some ⟨-3/8, "g*j", [("s0_bra", "A_H_mult_A_T")]⟩ := by
  decide +kernel

open Matrix in
/-- the hypotheses of `label_shortcuts_sound` are satisfiable by a dictionary that is not the
    identity: every label denotes the projector `diag(1, 0)` (real, symmetric, Hermitian,
    idempotent, not the identity), flagged accordingly -/
example : DictSound (fun _ : Label => (!![1, 0; 0, 0] : Matrix (Fin 2) (Fin 2) ℂ)) ∧
    FlagsSound ⟨fun _ => true, fun _ => true, fun _ => false, fun _ => true, fun _ => true⟩
      (fun _ : Label => (!![1, 0; 0, 0] : Matrix (Fin 2) (Fin 2) ℂ)) := by
  have hT : (!![1, 0; 0, 0] : Matrix (Fin 2) (Fin 2) ℂ)ᵀ = !![1, 0; 0, 0] := by
    ext i j; fin_cases i <;> fin_cases j <;> rfl
  have hC : (!![1, 0; 0, 0] : Matrix (Fin 2) (Fin 2) ℂ).map star = !![1, 0; 0, 0] := by
    ext i j; fin_cases i <;> fin_cases j <;> simp
  have hH : (!![1, 0; 0, 0] : Matrix (Fin 2) (Fin 2) ℂ)ᴴ = !![1, 0; 0, 0] := by
    ext i j; fin_cases i <;> fin_cases j <;> simp [Matrix.conjTranspose_apply]
  have hM : (!![1, 0; 0, 0] : Matrix (Fin 2) (Fin 2) ℂ) * !![1, 0; 0, 0] = !![1, 0; 0, 0] := by
    ext i j; fin_cases i <;> fin_cases j <;> simp [Matrix.mul_apply, Fin.sum_univ_two]
  exact ⟨⟨fun _ => hT.symm, fun _ => hC.symm, fun _ => hH.symm, fun _ _ => hM.symm⟩,
    ⟨fun _ _ => hT, fun _ _ => hT, fun _ _ => hC, fun _ _ => hH, fun _ h => by simp at h⟩⟩

end Ptn.C15
