import Ptn.C15.Model
import Ptn.C15.Lemmas
import Ptn.C15.Sem
import Ptn.C15.Kron
import Ptn.C15.Denote
import Ptn.C15.Flow
import Ptn.C15.Herm
/-! Property theorems for C15. Only property theorems and non-vacuity examples live here.

  `generateLindbladian` is the literal port of `generate_lindbladian` (tied to `/repo` by the
  correspondence stage).  The theorems characterise its output term list for ALL inputs.  The
  property as stated (GKSL generator) is FALSE of the code: `anticomm_bra_sign_witness` says
  precisely which prefactor the bra-side anticommutator term receives (finding F-C15). -/
namespace Ptn.C15

/-- The construction completes and the generated term list is, in this order: the ket terms of the
    Hamiltonian, its bra terms, the `L ⊗ conj L` terms, and per jump operator the ket-side and the
    bra-side product term — the latter with prefactor `+f/2` (`termsWithBraSign 1`). -/
theorem generate_spec (inp : Input) (hw : WellFormed inp) :
    ∃ h, generateLindbladian inp = some h ∧ h.terms = termsWithBraSign 1 inp := by
  obtain ⟨h, hg⟩ := generate_succeeds inp hw.2
  exact ⟨h, hg, generate_terms inp h hw.1 hg⟩

/-- Without the hypothesis on the doubled identifiers: *if* the construction completes, the term
    list is the closed form. -/
theorem generate_spec_of_some (inp : Input) (h : Ham)
    (hn : ∀ j ∈ inp.jumps, (j.tp.map Prod.fst).Nodup) (hg : generateLindbladian inp = some h) :
    h.terms = termsWithBraSign 1 inp :=
  generate_terms inp h hn hg

/-- `2·|H| + 3·|J|` terms. -/
theorem ham_terms_count (inp : Input) (h : Ham) (hn : ∀ j ∈ inp.jumps, (j.tp.map Prod.fst).Nodup)
    (hg : generateLindbladian inp = some h) :
    h.terms.length = 2 * inp.ham.terms.length + 3 * inp.jumps.length := by
  rw [generate_terms inp h hn hg]
  simp only [termsWithBraSign, List.length_append, List.length_map, List.length_flatMap,
    List.length_cons, List.length_nil]
  have : (inp.jumps.map fun _ => 0 + 1 + 1).sum = 2 * inp.jumps.length := by
    induction inp.jumps with
    | nil => rfl
    | cons a l ih => simp only [List.map_cons, List.sum_cons, ih, List.length_cons]; omega
  omega

/-- Each Hamiltonian term `(f, c, {s ↦ A_s})` yields exactly one ket term — the same prefactor and
    coefficient, the same labels on the ket identifiers — at position `i`, and one bra term — the
    prefactor negated, the labels transposed (kept when flagged symmetric, suffixed `_T`
    otherwise) on the bra identifiers — at position `|H| + i`. -/
theorem ham_part_spec (inp : Input) (h : Ham) (hn : ∀ j ∈ inp.jumps, (j.tp.map Prod.fst).Nodup)
    (hg : generateLindbladian inp = some h) (i : Nat) (t : Term)
    (hi : inp.ham.terms[i]? = some t) :
    h.terms[i]? = some ⟨t.frac, t.coeff, t.tp.map fun (s, l) => (s ++ inp.ketSuffix, l)⟩ ∧
    h.terms[inp.ham.terms.length + i]? = some ⟨-t.frac, t.coeff, t.tp.map fun (s, l) =>
      (s ++ inp.braSuffix, if inp.flags.symH l then l else l ++ "_T")⟩ := by
  rw [generate_terms inp h hn hg]
  have hlt : i < inp.ham.terms.length := by
    rcases Nat.lt_or_ge i inp.ham.terms.length with h | h
    · exact h
    · rw [List.getElem?_eq_none h] at hi; simp at hi
  simp only [termsWithBraSign, List.append_assoc]
  constructor
  · rw [List.getElem?_append_left (by simpa using hlt), List.getElem?_map, hi]
    rfl
  · rw [List.getElem?_append_right (by simp), List.length_map, Nat.add_sub_cancel_left,
      List.getElem?_append_left (by simpa using hlt), List.getElem?_map, hi]
    rfl

/-- Each jump operator `(f, γ, {s ↦ L_s})` yields, at position `2|H| + k`, the term `L ⊗ conj L`
    with prefactor `f` and coefficient symbol `γ*j` (mapped to `i·γ`): the labels on the ket
    identifiers, the conjugated labels (kept when flagged real) on the bra identifiers. -/
theorem jump_part_spec (inp : Input) (h : Ham) (hn : ∀ j ∈ inp.jumps, (j.tp.map Prod.fst).Nodup)
    (hg : generateLindbladian inp = some h) (k : Nat) (j : Term) (hk : inp.jumps[k]? = some j) :
    h.terms[2 * inp.ham.terms.length + k]? = some ⟨j.frac, j.coeff ++ "*j",
      (j.tp.map fun (s, l) => (s ++ inp.ketSuffix, l)) ++
      (j.tp.map fun (s, l) => (s ++ inp.braSuffix,
        if inp.flags.real l then l else l ++ "_conj"))⟩ := by
  rw [generate_terms inp h hn hg]
  have hlt : k < inp.jumps.length := by
    rcases Nat.lt_or_ge k inp.jumps.length with h | h
    · exact h
    · rw [List.getElem?_eq_none h] at hk; simp at hk
  simp only [termsWithBraSign]
  rw [List.getElem?_append_left (by simp; omega), List.getElem?_append_right (by simp; omega)]
  have : 2 * inp.ham.terms.length + k -
      (inp.ham.terms.map (ketTermOf inp.ketSuffix) ++
        inp.ham.terms.map (braTermOf inp.flags.symH inp.braSuffix)).length = k := by
    simp; omega
  rw [this, List.getElem?_map, hk]
  rfl

/-- Ket-side anticommutator: at position `2|H| + |J| + 2k` the term `−(f/2) · γ*j · L†L` on the ket
    identifiers, `L†L` site by site (`A_H_mult_A`, `A_mult_A` for Hermitian `A`, the other factor
    when one is the identity). -/
theorem anticomm_ket_spec (inp : Input) (h : Ham) (hn : ∀ j ∈ inp.jumps, (j.tp.map Prod.fst).Nodup)
    (hg : generateLindbladian inp = some h) (k : Nat) (j : Term) (hk : inp.jumps[k]? = some j) :
    h.terms[2 * inp.ham.terms.length + inp.jumps.length + 2 * k]? =
      some ⟨-(j.frac / 2), j.coeff ++ "*j",
        j.tp.map fun (s, l) => (s ++ inp.ketSuffix, prodLabel inp.flags inp.jumpKeys l)⟩ := by
  rw [generate_terms inp h hn hg]
  simp only [termsWithBraSign]
  rw [List.getElem?_append_right (by simp; omega)]
  have : 2 * inp.ham.terms.length + inp.jumps.length + 2 * k -
      (inp.ham.terms.map (ketTermOf inp.ketSuffix) ++
        inp.ham.terms.map (braTermOf inp.flags.symH inp.braSuffix) ++
        inp.jumps.map (jumpTermOf inp.flags.real inp.ketSuffix inp.braSuffix)).length = 2 * k := by
    simp; omega
  rw [this]
  exact (getElem?_flatMap_pair _ _ inp.jumps k j hk).1

/-- **The exact characterisation of finding F-C15.**  At position `2|H| + |J| + 2k + 1` stands the
    bra-side anticommutator term: the transposed `L†L` labels on the bra identifiers, the same
    coefficient symbol `γ*j`, and the prefactor **`+f/2`** — the negative of the ket-side
    prefactor `−f/2` — whereas the GKSL generator of the property prescribes `−f/2` on both
    sides (see `generated_eq_gksl_iff`). -/
theorem anticomm_bra_sign_witness (inp : Input) (h : Ham)
    (hn : ∀ j ∈ inp.jumps, (j.tp.map Prod.fst).Nodup)
    (hg : generateLindbladian inp = some h) (k : Nat) (j : Term) (hk : inp.jumps[k]? = some j) :
    (∃ t, h.terms[2 * inp.ham.terms.length + inp.jumps.length + 2 * k + 1]? = some t ∧
      t.frac = j.frac / 2 ∧ t.coeff = j.coeff ++ "*j" ∧
      t.tp = (j.tp.map fun (s, l) => (s ++ inp.braSuffix,
        if inp.flags.symJ (prodLabel inp.flags inp.jumpKeys l)
        then prodLabel inp.flags inp.jumpKeys l
        else prodLabel inp.flags inp.jumpKeys l ++ "_T")) ∧
      (gkslTerms inp)[2 * inp.ham.terms.length + inp.jumps.length + 2 * k + 1]? =
        some { t with frac := -(j.frac / 2) } ∧
      t.frac - (-(j.frac / 2)) = j.frac) := by
  rw [generate_terms inp h hn hg]
  refine ⟨braProdTermWith (1 * (j.frac / 2)) inp.flags inp.jumpKeys inp.braSuffix j, ?_, ?_, rfl,
    rfl, ?_, ?_⟩
  · simp only [termsWithBraSign]
    rw [List.getElem?_append_right (by simp; omega)]
    have : 2 * inp.ham.terms.length + inp.jumps.length + 2 * k + 1 -
        (inp.ham.terms.map (ketTermOf inp.ketSuffix) ++
          inp.ham.terms.map (braTermOf inp.flags.symH inp.braSuffix) ++
          inp.jumps.map (jumpTermOf inp.flags.real inp.ketSuffix inp.braSuffix)).length =
        2 * k + 1 := by
      simp; omega
    rw [this]
    exact (getElem?_flatMap_pair _ _ inp.jumps k j hk).2
  · simp [braProdTermWith]
  · simp only [gkslTerms, termsWithBraSign]
    rw [List.getElem?_append_right (by simp; omega)]
    have : 2 * inp.ham.terms.length + inp.jumps.length + 2 * k + 1 -
        (inp.ham.terms.map (ketTermOf inp.ketSuffix) ++
          inp.ham.terms.map (braTermOf inp.flags.symH inp.braSuffix) ++
          inp.jumps.map (jumpTermOf inp.flags.real inp.ketSuffix inp.braSuffix)).length =
        2 * k + 1 := by
      simp; omega
    rw [this, (getElem?_flatMap_pair _ _ inp.jumps k j hk).2]
    simp [braProdTermWith]
  · simp only [braProdTermWith, Rat.one_mul]
    rw [Rat.sub_eq_add_neg, Rat.neg_neg]
    grind

/-- The generated list is the GKSL list if and only if every jump prefactor is zero. -/
theorem generated_eq_gksl_iff (inp : Input) (h : Ham)
    (hn : ∀ j ∈ inp.jumps, (j.tp.map Prod.fst).Nodup) (hg : generateLindbladian inp = some h) :
    h.terms = gkslTerms inp ↔ ∀ j ∈ inp.jumps, j.frac = 0 := by
  rw [generate_terms inp h hn hg]
  simp only [gkslTerms, termsWithBraSign, List.append_cancel_left_eq]
  induction inp.jumps with
  | nil => simp
  | cons j js ih =>
    simp only [List.flatMap_cons, List.cons_append, List.nil_append, List.cons.injEq, true_and,
      List.mem_cons, forall_eq_or_imp, ih]
    apply and_congr_left'
    simp only [braProdTermWith, Term.mk.injEq, and_true]
    constructor
    · intro hf; grind
    · intro hf; rw [hf]; grind

/-- Everything else is as the GKSL generator prescribes: the generated list and the GKSL list
    differ only in the prefactor of the bra-side product terms. -/
theorem residual_spec (inp : Input) (h : Ham) (hn : ∀ j ∈ inp.jumps, (j.tp.map Prod.fst).Nodup)
    (hg : generateLindbladian inp = some h) :
    h.terms.length = (gkslTerms inp).length ∧
    h.terms.map (fun t => (t.coeff, t.tp)) = (gkslTerms inp).map (fun t => (t.coeff, t.tp)) ∧
    h.terms.take (2 * inp.ham.terms.length + inp.jumps.length) =
      (gkslTerms inp).take (2 * inp.ham.terms.length + inp.jumps.length) := by
  rw [generate_terms inp h hn hg]
  simp only [gkslTerms, termsWithBraSign]
  refine ⟨by simp, ?_, ?_⟩
  · simp only [List.map_append, List.map_flatMap]
    rfl
  · rw [List.take_left' (by simp; omega), List.take_left' (by simp; omega)]

/-- `rate = (dense coefficient)²`: with `c² = f·γ` the three scalar prefactors of the symbolic
    construction (`f·iγ`, `−f/2·iγ`, `+f/2·iγ`) are those of `exact_lindbladian`
    (`1j·c²`, `−1j/2·c²`, `+1j/2·c²`) — both constructions carry the same (wrong) sign. -/
theorem symbolic_dense_prefactors_agree (f γ c2 : Rat) (h : c2 = f * γ) :
    symbolicJumpPrefactors f γ = exactJumpPrefactors c2 := by
  subst h
  simp only [symbolicJumpPrefactors, exactJumpPrefactors, Prod.mk.injEq, GRat.mk.injEq, true_and]
  refine ⟨by grind, by grind, by grind⟩

/-! ### Soundness of the labelling shortcuts (per site) -/

section sem
open Matrix
variable {n : Type} [Fintype n] [DecidableEq n]

/-- Whatever shortcut is taken, the label written on the bra side of a Hamiltonian term denotes the
    transpose, the one written on the bra side of a jump term the complex conjugate, the product
    label denotes `L_s† L_s`, and its bra-side version the transpose of that — provided the final
    conversion dictionary gives the derived labels their values and the flags are sound. -/
theorem label_shortcuts_sound (fl : Flags) (jk : List Label) (den : Label → Matrix n n ℂ)
    (hd : DictSound den) (hf : FlagsSound fl den) (l : Label) :
    den (if fl.symH l then l else l ++ "_T") = (den l)ᵀ ∧
    den (if fl.real l then l else l ++ "_conj") = (den l).map star ∧
    den (prodLabel fl jk l) = (den l)ᴴ * den l ∧
    den (if fl.symJ (prodLabel fl jk l) then prodLabel fl jk l else prodLabel fl jk l ++ "_T") =
      ((den l)ᴴ * den l)ᵀ := by
  exact label_shortcuts_sound' fl jk den hd hf l

end sem


/-! ### Denotation on (ket sites) ⊗ (bra sites) -/

section denote
open Matrix Kronecker
variable {ι : Type} [Fintype ι] [DecidableEq ι] {d : ι → Type} [∀ s, Fintype (d s)]
  [∀ s, DecidableEq (d s)]

/-- **The generated Lindbladian as a matrix.**  For any finite family of sites with any
    dimensions: with `H = Σ f·c·(x)_s A_s` the dense Hamiltonian, `L_k = (x)_s L_{k,s}` the dense
    jump operators and `γ_k = f_k · jval(symbol_k)` the rates, the denotation of the generated term
    list on (ket sites) ⊗ (bra sites) is
    `H ⊗ 1 − 1 ⊗ Hᵀ + i Σ_k γ_k (L_k ⊗ conj L_k − ½ L_k†L_k ⊗ 1 + ½ · 1 ⊗ (L_k†L_k)ᵀ)`,
    i.e. the GKSL generator plus exactly `+i Σ_k γ_k · 1 ⊗ (L_k†L_k)ᵀ` (finding F-C15). -/
theorem lindblad_denote_eq (E : Env ι d) (inp : Input) (jval : String → ℂ) (h : Ham)
    (hfit : Fits E inp jval) (hn : ∀ j ∈ inp.jumps, (j.tp.map Prod.fst).Nodup)
    (hg : generateLindbladian inp = some h) :
    let H := hamMat E inp.ham.terms
    let js := jumpMats E jval inp.jumps
    denTerms E h.terms = genMat H js ∧
    genMat H js = H ⊗ₖ (1 : Matrix (∀ s, d s) (∀ s, d s) ℂ) - (1 : Matrix _ _ ℂ) ⊗ₖ Hᵀ +
      (js.map fun j => (Complex.I * j.1) • (j.2 ⊗ₖ j.2.map star
        - (1 / 2 : ℂ) • ((j.2ᴴ * j.2) ⊗ₖ (1 : Matrix (∀ s, d s) (∀ s, d s) ℂ))
        + (1 / 2 : ℂ) • ((1 : Matrix (∀ s, d s) (∀ s, d s) ℂ) ⊗ₖ (j.2ᴴ * j.2)ᵀ))).sum ∧
    denTerms E h.terms = gkslMat H js +
      (js.map fun j => (Complex.I * j.1) •
        ((1 : Matrix (∀ s, d s) (∀ s, d s) ℂ) ⊗ₖ (j.2ᴴ * j.2)ᵀ)).sum := by
  intro H js
  have h1 : denTerms E h.terms = genMat H js := by
    rw [generate_terms inp h hn hg]
    have := denote_termsWithBraSign E inp jval 1 hfit.ks hfit.bs hfit.disjoint hfit.namedH
      hfit.namedJ hfit.dict hfit.flags hfit.coeff
    simpa [genMat] using this
  refine ⟨h1, ?_, ?_⟩
  · simp only [genMat, lindMat, dissip, one_mul]
  · rw [h1, genMat_eq_gksl_add]

/-- The GKSL prescription (term list `gkslTerms`) denotes the GKSL generator. -/
theorem gksl_denote_eq (E : Env ι d) (inp : Input) (jval : String → ℂ) (hfit : Fits E inp jval) :
    denTerms E (gkslTerms inp) =
      gkslMat (hamMat E inp.ham.terms) (jumpMats E jval inp.jumps) := by
  have := denote_termsWithBraSign E inp jval (-1) hfit.ks hfit.bs hfit.disjoint hfit.namedH
    hfit.namedJ hfit.dict hfit.flags hfit.coeff
  simpa [gkslTerms, gkslMat] using this

/-- `rate = (dense coefficient)²`: `exact_lindbladian(H, [(c_k, L_k)])`, as the matrix expression
    of the source, equals the denotation of the symbolically generated Lindbladian. -/
theorem symbolic_eq_dense (E : Env ι d) (inp : Input) (jval : String → ℂ) (h : Ham)
    (hfit : Fits E inp jval) (hn : ∀ j ∈ inp.jumps, (j.tp.map Prod.fst).Nodup)
    (hg : generateLindbladian inp = some h)
    (cs : List (ℂ × Matrix (∀ s, d s) (∀ s, d s) ℂ))
    (hcs : jumpMats E jval inp.jumps = cs.map fun c => (c.1 ^ 2, c.2)) :
    exactMat (hamMat E inp.ham.terms) cs = denTerms E h.terms := by
  rw [(lindblad_denote_eq E inp jval h hfit hn hg).1, hcs, exactMat_eq_genMat]

end denote

/-! ### Trace preservation -/

section trace
open Matrix Kronecker
variable {K : Type} [Fintype K] [DecidableEq K]

/-- The vectorisation convention: `vec(ρ)[(i,j)] = ρ[i,j]` (ket index first), under which
    `(A ⊗ B) vec(ρ) = vec(A ρ Bᵀ)`, `vec(1)·vec(ρ) = tr ρ` and `vec(1)ᵀ (A ⊗ B) = vec(Aᵀ B)ᵀ`. -/
theorem vectorisation_spec (A B ρ : Matrix K K ℂ) :
    (A ⊗ₖ B) *ᵥ vec ρ = vec (A * ρ * Bᵀ) ∧ trVec ⬝ᵥ vec ρ = Matrix.trace ρ ∧
    trVec ᵥ* (A ⊗ₖ B) = vec (Aᵀ * B) :=
  ⟨kronecker_mulVec_vec A B ρ, trVec_dot_vec ρ, trVec_vecMul_kronecker A B⟩

/-- For the CORRECT generator (−½ on the bra side) the trace functional is annihilated:
    `vec(1)ᵀ 𝓛 = 0`, hence `vec(1)·(𝓛 vec ρ) = 0` for every `ρ`, i.e. `d/dt tr ρ = 0` under
    `ρ' = −i𝓛ρ`.  For the generator with the code's sign (+½) the residual is exactly
    `vec(1)ᵀ 𝓛_gen = Σ_k i·γ_k · vec((L_k†L_k)ᵀ)ᵀ`. -/
theorem gksl_trace_preserving (H : Matrix K K ℂ) (js : List (ℂ × Matrix K K ℂ)) :
    trVec ᵥ* gkslMat H js = 0 ∧
    (∀ ρ : Matrix K K ℂ, trVec ⬝ᵥ (gkslMat H js *ᵥ vec ρ) = 0) ∧
    trVec ᵥ* genMat H js = (js.map fun j => (Complex.I * j.1) • vec ((j.2ᴴ * j.2)ᵀ)).sum := by
  have h0 : trVec ᵥ* gkslMat H js = 0 := by
    rw [gkslMat, trVec_lindMat]
    simp
  refine ⟨h0, ?_, ?_⟩
  · intro ρ
    rw [Matrix.dotProduct_mulVec, h0, zero_dotProduct]
  · rw [genMat, trVec_lindMat]
    congr 1
    apply List.map_congr_left
    intro j _
    congr 1
    ring

/-- **The GKSL flow preserves the trace.**  For every Hamiltonian, every list of jump operators with
    rates, and every (complex) time `t`: the trace functional is a fixed row vector of `exp(−i t 𝓛)`, so
    `tr ρ(t) = tr ρ` for every matrix `ρ` — the statement of the property about `exp(−i t 𝓛)` itself, not
    only about the generator (`gksl_trace_preserving`).  The matrix exponential is Mathlib's. -/
theorem gksl_flow_trace_preserving (H : Matrix K K ℂ) (js : List (ℂ × Matrix K K ℂ)) (t : ℂ) :
    trVec ᵥ* NormedSpace.exp ((-Complex.I * t) • gkslMat H js) = trVec ∧
    ∀ ρ : Matrix K K ℂ,
      trVec ⬝ᵥ (NormedSpace.exp ((-Complex.I * t) • gkslMat H js) *ᵥ vec ρ) = trVec ⬝ᵥ vec ρ := by
  have h0 : trVec ᵥ* ((-Complex.I * t) • gkslMat H js) = 0 := by
    rw [Matrix.vecMul_smul, (gksl_trace_preserving H js).1, smul_zero]
  have h1 := vecMul_exp_of_vecMul_eq_zero _ _ h0
  refine ⟨h1, fun ρ => ?_⟩
  rw [Matrix.dotProduct_mulVec, h1]

/-- **The GKSL flow preserves Hermiticity.**  For every Hermitian Hamiltonian, every list of jump operators
    with real rates and every real time `t`, `exp(−i t 𝓛)` maps the vectorisation of a Hermitian matrix to
    the vectorisation of a Hermitian matrix: the evolved `ρ(t)`, read back as a matrix, equals its own
    conjugate transpose.  (`gksl_flow_dag`: the flow commutes with the adjoint because `𝓛` changes sign under
    the ring automorphism `M ↦ conj M[(b,a),(d,c)]`.) -/
theorem gksl_flow_hermiticity_preserving (H : Matrix K K ℂ) (hH : Hᴴ = H)
    (js : List (ℂ × Matrix K K ℂ)) (hjs : ∀ j ∈ js, star j.1 = j.1) (t : ℝ)
    (ρ : Matrix K K ℂ) (hρ : ρᴴ = ρ) :
    (Matrix.of fun a b => (NormedSpace.exp ((-Complex.I * (t : ℂ)) • gkslMat H js) *ᵥ vec ρ) (a, b))ᴴ =
      Matrix.of fun a b => (NormedSpace.exp ((-Complex.I * (t : ℂ)) • gkslMat H js) *ᵥ vec ρ) (a, b) := by
  have h := gksl_flow_dag H hH js hjs t ρ
  rw [hρ] at h
  ext a b
  have := congrFun h (a, b)
  simpa [dag, Matrix.conjTranspose_apply] using this

example : ((0 : Matrix (Fin 2) (Fin 2) ℂ)ᴴ = 0) ∧
    (∀ j ∈ [((1 : ℂ), (!![0, 1; 0, 0] : Matrix (Fin 2) (Fin 2) ℂ))], star j.1 = j.1) ∧
    ((1 : Matrix (Fin 2) (Fin 2) ℂ)ᴴ = 1) := by simp

/-- Concrete witness: one qubit, `H = 0`, one jump operator `σ₋ = [[0,1],[0,0]]` with rate 1 — the
    generated generator does not annihilate the trace functional (entry `(1,1)` is `i`), whereas
    the GKSL generator does. -/
theorem generated_not_trace_preserving_witness :
    trVec ᵥ* genMat (0 : Matrix (Fin 2) (Fin 2) ℂ) [(1, !![0, 1; 0, 0])] ≠ 0 ∧
    trVec ᵥ* gkslMat (0 : Matrix (Fin 2) (Fin 2) ℂ) [(1, !![0, 1; 0, 0])] = 0 := by
  refine ⟨?_, (gksl_trace_preserving _ _).1⟩
  rw [(gksl_trace_preserving _ _).2.2]
  intro h
  have := congrFun h (1, 1)
  simp [vec, Matrix.mul_apply, Fin.sum_univ_two, Matrix.conjTranspose_apply] at this

end trace

/-! ### Non-vacuity and the concrete witness -/

example : WellFormed exampleInput := by
  refine ⟨?_, ?_⟩ <;> intro j hj <;> simp [exampleInput] at hj <;> subst hj <;>
    simp [DoubledDistinct] <;> decide

/-- the generated terms of the example … -/
example : (generateLindbladian exampleInput).map (·.terms) = some
    [⟨1/2, "J", [("s0_ket", "X")]⟩, ⟨-1/2, "J", [("s0_bra", "X")]⟩,
     ⟨3/4, "g*j", [("s0_ket", "A"), ("s0_bra", "A_conj")]⟩,
     ⟨-3/8, "g*j", [("s0_ket", "A_H_mult_A")]⟩,
     ⟨3/8, "g*j", [("s0_bra", "A_H_mult_A_T")]⟩] := by decide +kernel

/-- … differ from the GKSL prescription in the last prefactor (`+3/8` instead of `−3/8`). -/
example : (generateLindbladian exampleInput).map (·.terms) ≠ some (gkslTerms exampleInput) ∧
    (gkslTerms exampleInput)[4]? = some ⟨-3/8, "g*j", [("s0_bra", "A_H_mult_A_T")]⟩ := by
  decide +kernel

open Matrix in
/-- the hypotheses of `label_shortcuts_sound` are satisfiable by a dictionary that is not the
    identity: every label denotes the projector `diag(1, 0)` (real, symmetric, Hermitian,
    idempotent, not the identity), flagged accordingly -/
example : DictSound (fun _ : Label => (!![1, 0; 0, 0] : Matrix (Fin 2) (Fin 2) ℂ)) ∧
    FlagsSound ⟨fun _ => true, fun _ => true, fun _ => false, fun _ => true, fun _ => true⟩
      (fun _ : Label => (!![1, 0; 0, 0] : Matrix (Fin 2) (Fin 2) ℂ)) := by
  have hT : (!![1, 0; 0, 0] : Matrix (Fin 2) (Fin 2) ℂ)ᵀ = !![1, 0; 0, 0] := by
    ext i j; fin_cases i <;> fin_cases j <;> rfl
  have hC : (!![1, 0; 0, 0] : Matrix (Fin 2) (Fin 2) ℂ).map star = !![1, 0; 0, 0] := by
    ext i j; fin_cases i <;> fin_cases j <;> simp
  have hH : (!![1, 0; 0, 0] : Matrix (Fin 2) (Fin 2) ℂ)ᴴ = !![1, 0; 0, 0] := by
    ext i j; fin_cases i <;> fin_cases j <;> simp [Matrix.conjTranspose_apply]
  have hM : (!![1, 0; 0, 0] : Matrix (Fin 2) (Fin 2) ℂ) * !![1, 0; 0, 0] = !![1, 0; 0, 0] := by
    ext i j; fin_cases i <;> fin_cases j <;> simp [Matrix.mul_apply, Fin.sum_univ_two]
  exact ⟨⟨fun _ => hT.symm, fun _ => hC.symm, fun _ => hH.symm, fun _ _ => hM.symm⟩,
    ⟨fun _ _ => hT, fun _ _ => hT, fun _ _ => hC, fun _ _ => hH, fun _ h => by simp at h⟩⟩

open Matrix in
/-- the hypotheses `Fits` of the denotation theorems are satisfiable for `exampleInput`: one site
    `s0` of dimension 2, every label read as the projector `diag(1,0)`, `γ*j ↦ i·1` -/
example : Fits (ι := Fin 1) (d := fun _ => Fin 2)
    { name := fun _ => "s0", ks := "_ket", bs := "_bra",
      den := fun _ _ => !![1, 0; 0, 0], cval := fun _ => Complex.I }
    exampleInput (fun _ => 1) := by
  have hT : (!![1, 0; 0, 0] : Matrix (Fin 2) (Fin 2) ℂ)ᵀ = !![1, 0; 0, 0] := by
    ext i j; fin_cases i <;> fin_cases j <;> rfl
  have hC : (!![1, 0; 0, 0] : Matrix (Fin 2) (Fin 2) ℂ).map star = !![1, 0; 0, 0] := by
    ext i j; fin_cases i <;> fin_cases j <;> simp
  have hH : (!![1, 0; 0, 0] : Matrix (Fin 2) (Fin 2) ℂ)ᴴ = !![1, 0; 0, 0] := by
    ext i j; fin_cases i <;> fin_cases j <;> simp [Matrix.conjTranspose_apply]
  have hM : (!![1, 0; 0, 0] : Matrix (Fin 2) (Fin 2) ℂ) * !![1, 0; 0, 0] = !![1, 0; 0, 0] := by
    ext i j; fin_cases i <;> fin_cases j <;> simp [Matrix.mul_apply, Fin.sum_univ_two]
  refine ⟨rfl, rfl, fun _ _ => by show "s0" ++ "_ket" ≠ "s0" ++ "_bra"; decide, ?_, ?_, ?_, ?_, ?_⟩
  · intro t ht e he
    simp [exampleInput] at ht; subst ht
    simp at he; subst he
    exact ⟨0, rfl⟩
  · intro t ht e he
    simp [exampleInput] at ht; subst ht
    simp at he; subst he
    exact ⟨0, rfl⟩
  · exact fun _ => ⟨fun _ => hT.symm, fun _ => hC.symm, fun _ => hH.symm, fun _ _ => hM.symm⟩
  · exact fun _ => ⟨fun _ _ => hT, fun _ h => by simp [exampleInput] at h,
      fun _ h => by simp [exampleInput] at h, fun _ h => by simp [exampleInput] at h,
      fun _ h => by simp [exampleInput] at h⟩
  · intro j _; simp

end Ptn.C15
