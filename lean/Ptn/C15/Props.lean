import Ptn.C15.Model
/-! Property theorems for C15. Only property theorems and non-vacuity examples live here. -/
namespace Ptn.C15
end Ptn.C15
