import Ptn.C15.Model
import Mathlib.LinearAlgebra.Matrix.Kronecker
import Mathlib.LinearAlgebra.Matrix.ConjTranspose
import Mathlib.Algebra.BigOperators.Ring.Finset
import Mathlib.Data.Complex.Basic
import Mathlib.Tactic.Module
/-! Helper definitions and lemmas for C15 (single Mathlib modules): the n-site Kronecker product,
    the vectorisation convention on the doubled space, and the three matrix expressions
    (GKSL generator, generated Lindbladian, `exact_lindbladian`). -/
namespace Ptn.C15
open Matrix Kronecker

/-! ### the n-site Kronecker product -/
section piKron
variable {ι : Type} [Fintype ι] [DecidableEq ι] {d : ι → Type} [∀ s, Fintype (d s)]
  [∀ s, DecidableEq (d s)]

/-- `(x)_s A_s` on the product index `∀ s, d s` (what `numpy.kron` over the site list computes, up
    to the identification of the flat index with the multi-index). -/
def piKron (A : ∀ s, Matrix (d s) (d s) ℂ) : Matrix (∀ s, d s) (∀ s, d s) ℂ :=
  fun i j => ∏ s, A s (i s) (j s)

omit [DecidableEq ι] [∀ s, Fintype (d s)] in
theorem piKron_one : piKron (fun s => (1 : Matrix (d s) (d s) ℂ)) = 1 := by
  ext i j
  simp only [piKron, Matrix.one_apply]
  by_cases h : i = j
  · subst h; simp
  · rw [if_neg h]
    obtain ⟨s, hs⟩ := Function.ne_iff.mp h
    exact Finset.prod_eq_zero (Finset.mem_univ s) (by simp [hs])

omit [∀ s, DecidableEq (d s)] in
theorem piKron_mul (A B : ∀ s, Matrix (d s) (d s) ℂ) :
    piKron A * piKron B = piKron (fun s => A s * B s) := by
  ext i j
  simp only [piKron, Matrix.mul_apply]
  rw [Fintype.prod_sum]
  apply Finset.sum_congr rfl
  intro k _
  rw [Finset.prod_mul_distrib]

omit [DecidableEq ι] [∀ s, Fintype (d s)] [∀ s, DecidableEq (d s)] in
theorem piKron_transpose (A : ∀ s, Matrix (d s) (d s) ℂ) :
    (piKron A)ᵀ = piKron (fun s => (A s)ᵀ) := by
  ext i j; simp [piKron, Matrix.transpose_apply]

omit [DecidableEq ι] [∀ s, Fintype (d s)] [∀ s, DecidableEq (d s)] in
theorem piKron_conj (A : ∀ s, Matrix (d s) (d s) ℂ) :
    (piKron A).map star = piKron (fun s => (A s).map star) := by
  ext i j; simp [piKron, Matrix.map_apply]

omit [DecidableEq ι] [∀ s, Fintype (d s)] [∀ s, DecidableEq (d s)] in
theorem piKron_conjTranspose (A : ∀ s, Matrix (d s) (d s) ℂ) :
    (piKron A)ᴴ = piKron (fun s => (A s)ᴴ) := by
  ext i j; simp [piKron, Matrix.conjTranspose_apply]

end piKron

/-! ### vectorisation on the doubled space `K × K` -/
section vec
variable {K : Type} [Fintype K] [DecidableEq K]

/-- `vec(ρ)[(i, j)] = ρ[i, j]`: the ket index first (row-major flattening of `ρ`). -/
def vec (M : Matrix K K ℂ) : K × K → ℂ := fun p => M p.1 p.2

/-- the trace functional `vec(1)`: `vec(1) ⬝ vec(ρ) = tr ρ` -/
def trVec : K × K → ℂ := vec (1 : Matrix K K ℂ)

theorem trVec_dot_vec (M : Matrix K K ℂ) : trVec ⬝ᵥ vec M = Matrix.trace M := by
  simp [trVec, vec, dotProduct, Fintype.sum_prod_type, Matrix.one_apply, Matrix.trace]

omit [DecidableEq K] in
theorem kronecker_mulVec_vec (A B ρ : Matrix K K ℂ) : (A ⊗ₖ B) *ᵥ vec ρ = vec (A * ρ * Bᵀ) := by
  funext ⟨i, j⟩
  simp only [mulVec, dotProduct, vec, Fintype.sum_prod_type, kronecker_apply, Matrix.mul_apply,
    Matrix.transpose_apply, Finset.sum_mul]
  rw [Finset.sum_comm]
  apply Finset.sum_congr rfl; intro l _
  apply Finset.sum_congr rfl; intro k _
  ring

/-- `vec(1)ᵀ (A ⊗ B) = vec(Aᵀ B)ᵀ` -/
theorem trVec_vecMul_kronecker (A B : Matrix K K ℂ) : trVec ᵥ* (A ⊗ₖ B) = vec (Aᵀ * B) := by
  funext ⟨k, l⟩
  simp [vecMul, dotProduct, trVec, vec, Fintype.sum_prod_type, Matrix.mul_apply,
    Matrix.one_apply, Matrix.transpose_apply]

/-! ### the matrix expressions -/

/-- dissipator of one jump operator with rate `γ`; the bra-side anticommutator enters with
    `σ · ½` (`σ = -1`: GKSL; `σ = +1`: what the code generates) -/
noncomputable def dissip (σ γ : ℂ) (L : Matrix K K ℂ) : Matrix (K × K) (K × K) ℂ :=
  (Complex.I * γ) • (L ⊗ₖ L.map star - (1 / 2 : ℂ) • ((Lᴴ * L) ⊗ₖ (1 : Matrix K K ℂ))
    + (σ * (1 / 2)) • ((1 : Matrix K K ℂ) ⊗ₖ (Lᴴ * L)ᵀ))

/-- `H ⊗ 1 − 1 ⊗ Hᵀ + Σ_k dissip σ γ_k L_k` -/
noncomputable def lindMat (σ : ℂ) (H : Matrix K K ℂ) (js : List (ℂ × Matrix K K ℂ)) :
    Matrix (K × K) (K × K) ℂ :=
  H ⊗ₖ (1 : Matrix K K ℂ) - (1 : Matrix K K ℂ) ⊗ₖ Hᵀ + (js.map fun j => dissip σ j.1 j.2).sum

/-- the GKSL generator of the property -/
noncomputable def gkslMat (H : Matrix K K ℂ) (js : List (ℂ × Matrix K K ℂ)) := lindMat (-1) H js
/-- the generator with the code's sign -/
noncomputable def genMat (H : Matrix K K ℂ) (js : List (ℂ × Matrix K K ℂ)) := lindMat 1 H js

/-- `exact_lindbladian(H, [(c_k, L_k)])` as written in the source: `_hamiltonian_part` plus, per jump
    operator, `c² · (1j·kron(L, conj L) − 1j/2·kron(L†L, 1) + 1j/2·kron(1, (L†L)ᵀ))`. -/
noncomputable def exactMat (H : Matrix K K ℂ) (cs : List (ℂ × Matrix K K ℂ)) :
    Matrix (K × K) (K × K) ℂ :=
  (H ⊗ₖ (1 : Matrix K K ℂ) + (-1 : ℂ) • ((1 : Matrix K K ℂ) ⊗ₖ Hᵀ)) +
  (cs.map fun c => (c.1 ^ 2) • (Complex.I • (c.2 ⊗ₖ c.2.map star)
    + (-Complex.I / 2) • ((c.2ᴴ * c.2) ⊗ₖ (1 : Matrix K K ℂ))
    + (Complex.I / 2) • ((1 : Matrix K K ℂ) ⊗ₖ (c.2ᴴ * c.2)ᵀ))).sum

theorem dissip_gen_sub_gksl (γ : ℂ) (L : Matrix K K ℂ) :
    dissip 1 γ L = dissip (-1) γ L + (Complex.I * γ) • ((1 : Matrix K K ℂ) ⊗ₖ (Lᴴ * L)ᵀ) := by
  simp only [dissip]
  module

theorem genMat_eq_gksl_add (H : Matrix K K ℂ) (js : List (ℂ × Matrix K K ℂ)) :
    genMat H js = gkslMat H js +
      (js.map fun j => (Complex.I * j.1) • ((1 : Matrix K K ℂ) ⊗ₖ (j.2ᴴ * j.2)ᵀ)).sum := by
  simp only [genMat, gkslMat, lindMat]
  have : (js.map fun j => dissip 1 j.1 j.2).sum = (js.map fun j => dissip (-1) j.1 j.2).sum +
      (js.map fun j => (Complex.I * j.1) • ((1 : Matrix K K ℂ) ⊗ₖ (j.2ᴴ * j.2)ᵀ)).sum := by
    induction js with
    | nil => simp
    | cons j js ih =>
      simp only [List.map_cons, List.sum_cons]
      rw [ih, dissip_gen_sub_gksl]; abel
  rw [this]; abel

theorem trVec_dissip (σ γ : ℂ) (L : Matrix K K ℂ) :
    trVec ᵥ* dissip σ γ L = (Complex.I * γ * ((1 + σ) / 2)) • vec ((Lᴴ * L)ᵀ) := by
  have hLL : Lᵀ * L.map star = (Lᴴ * L)ᵀ := by
    ext i j
    simp [Matrix.mul_apply, Matrix.transpose_apply, Matrix.conjTranspose_apply, mul_comm]
  simp only [dissip, Matrix.vecMul_smul, Matrix.vecMul_add, Matrix.vecMul_sub,
    trVec_vecMul_kronecker, hLL, Matrix.transpose_one, Matrix.one_mul, Matrix.mul_one]
  funext p
  simp only [Pi.smul_apply, Pi.add_apply, Pi.sub_apply, smul_eq_mul]
  ring

theorem trVec_lindMat (σ : ℂ) (H : Matrix K K ℂ) (js : List (ℂ × Matrix K K ℂ)) :
    trVec ᵥ* lindMat σ H js =
      (js.map fun j => (Complex.I * j.1 * ((1 + σ) / 2)) • vec ((j.2ᴴ * j.2)ᵀ)).sum := by
  have hsum : trVec ᵥ* (js.map fun j => dissip σ j.1 j.2).sum =
      (js.map fun j => (Complex.I * j.1 * ((1 + σ) / 2)) • vec ((j.2ᴴ * j.2)ᵀ)).sum := by
    induction js with
    | nil => simp
    | cons j js ih => simp only [List.map_cons, List.sum_cons, Matrix.vecMul_add, ih, trVec_dissip]
  simp only [lindMat, Matrix.vecMul_add, Matrix.vecMul_sub, trVec_vecMul_kronecker, hsum,
    Matrix.transpose_one, Matrix.one_mul, Matrix.mul_one, sub_self, zero_add]

theorem exactMat_eq_genMat (H : Matrix K K ℂ) (cs : List (ℂ × Matrix K K ℂ)) :
    exactMat H cs = genMat H (cs.map fun c => (c.1 ^ 2, c.2)) := by
  simp only [exactMat, genMat, lindMat, List.map_map]
  congr 1
  · rw [neg_one_smul, sub_eq_add_neg]
  · congr 1
    apply List.map_congr_left
    intro c _
    simp only [Function.comp, dissip]
    module

end vec
end Ptn.C15
