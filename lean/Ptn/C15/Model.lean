/-! Model for property C15 (core Lean only; no Mathlib).

  A line-by-line symbolic model of

    pytreenet/operators/lindbladian.py   : generate_lindbladian and its four `_add_*` helpers
    pytreenet/operators/tensorproduct.py : add_suffix, _local_action (transpose / conjugate /
                                           conjugate_transpose), otimes, multiply
    pytreenet/operators/hamiltonian.py   : add_term, deal_with_term_input (tuple form)

  Everything is symbolic: a term is `(Fraction, coefficient symbol, {site ↦ operator label})`.
  The numerical tests of the source (`issymmetric`, `isreal`, `ishermitian`, `allclose(·, eye)`)
  are INPUTS of the model (`Flags`); the precondition that every label used by a term is a key of
  the corresponding dictionary (otherwise Python raises `KeyError`) is assumed, so the flag tables
  are total functions, with `false` (= "take the generic path") for labels nobody declared.  -/
namespace Ptn.C15

abbrev Site := String
abbrev Label := String

/-- A symbolic `TensorProduct`: the dict `site ↦ label` in insertion order (keys distinct). -/
abbrev TP := List (Site × Label)

/-- One term `(Fraction, symbolic coefficient, TensorProduct)`. -/
structure Term where
  frac : Rat
  coeff : String
  tp : TP
  deriving DecidableEq, Repr

/-- The part of a `Hamiltonian` object the construction touches: the term list and the key lists
    of `conversion_dictionary` and `coeffs_mapping` (insertion order). -/
structure Ham where
  terms : List Term
  convKeys : List Label
  coeffKeys : List String
  deriving Repr

/-- The outcome of the numerical classification of the operators. -/
structure Flags where
  /-- `_find_symmetric_operators(hamiltonian.conversion_dictionary)` -/
  symH : Label → Bool
  /-- `_find_real_operators(jump_operator_dict)` -/
  real : Label → Bool
  /-- `_find_identity_operators(jump_operator_dict)` -/
  ident : Label → Bool
  /-- `_find_hermitian_operators(jump_operator_dict)` -/
  herm : Label → Bool
  /-- `_find_symmetric_operators(jop_conv_dict)`: also asked for the derived labels
      (`…_H`, `…_mult_…`) -/
  symJ : Label → Bool

/-! ### `TensorProduct` -/

/-- `TensorProduct.add_suffix` -/
def addSuffix (tp : TP) (suffix : String) : TP := tp.map fun (s, l) => (s ++ suffix, l)

/-- `TensorProduct._local_action` on symbolic operators: an operator that is invariant under the
    action keeps its label, every other one gets the suffix. -/
def localAction (invariant : Label → Bool) (idSuffix : String) (tp : TP) : TP :=
  tp.map fun (s, l) => (s, if invariant l then l else l ++ idSuffix)

/-- `TensorProduct.transpose(sym_dict)` -/
def transposeTP (sym : Label → Bool) (tp : TP) : TP := localAction sym "_T" tp
/-- `TensorProduct.conjugate(real_dict)` -/
def conjugateTP (real : Label → Bool) (tp : TP) : TP := localAction real "_conj" tp
/-- `TensorProduct.conjugate_transpose(herm_dict)` -/
def adjointTP (herm : Label → Bool) (tp : TP) : TP := localAction herm "_H" tp

/-- dict lookup -/
def TP.get? (tp : TP) (s : Site) : Option Label := List.lookup s tp

/-- one pass of the loop of `TensorProduct.otimes` -/
def otimesStep (acc : Option TP) (e : Site × Label) : Option TP :=
  match acc with
  | none => none
  | some tp => if (TP.get? tp e.1).isSome then none else some (tp ++ [e])

/-- `TensorProduct.otimes`: `none` stands for the `ValueError` on a common identifier. -/
def otimes (a b : TP) : Option TP := b.foldl otimesStep (some a)

/-- The label produced at one site by `TensorProduct.multiply`. -/
def multLabel (ident : Label → Bool) (op other : Label) : Label :=
  if ident op then other
  else if ident other then op
  else op ++ "_mult_" ++ other

/-- first loop of `multiply`: the sites of `self` -/
def multStep1 (ident : Label → Bool) (b : TP) (acc : TP × List Label) (e : Site × Label) :
    TP × List Label :=
  match TP.get? b e.1 with
  | some other =>
    let l := multLabel ident e.2 other
    (acc.1 ++ [(e.1, l)], if ident e.2 || ident other then acc.2 else acc.2 ++ [l])
  | none => (acc.1 ++ [e], acc.2)

/-- second loop of `multiply`: the sites only `other` acts on -/
def multStep2 (acc : TP) (e : Site × Label) : TP :=
  if (TP.get? acc e.1).isSome then acc else acc ++ [e]

/-- `TensorProduct.multiply(other, identity_dict, conversion_dict)`: the product and the list of
    labels written into the conversion dictionary. -/
def multiply (ident : Label → Bool) (a b : TP) : TP × List Label :=
  let first := a.foldl (multStep1 ident b) ([], [])
  (b.foldl multStep2 first.1, first.2)

/-! ### `Hamiltonian` -/

/-- `Hamiltonian.add_term` (tuple form) -/
def Ham.addTerm (h : Ham) (t : Term) : Ham := { h with terms := h.terms ++ [t] }

/-- keys of `d.update(other)`: existing keys keep their position, new ones are appended -/
def keysUpdate (keys new : List String) : List String :=
  new.foldl (fun acc k => if acc.contains k then acc else acc ++ [k]) keys

/-! ### the four `_add_*` helpers -/

/-- `_add_hamiltonian_ket_terms` -/
def addHamiltonianKetTerms (lind ham : Ham) (ketSuffix : String) : Ham :=
  let lind := ham.terms.foldl (fun acc term =>
    acc.addTerm ⟨term.frac, term.coeff, addSuffix term.tp ketSuffix⟩) lind
  { lind with convKeys := keysUpdate lind.convKeys ham.convKeys,
              coeffKeys := keysUpdate lind.coeffKeys ham.coeffKeys }

/-- `_add_hamiltonian_bra_terms` -/
def addHamiltonianBraTerms (fl : Flags) (lind ham : Ham) (braSuffix : String) : Ham :=
  let lind := ham.terms.foldl (fun acc term =>
    let newTp := transposeTP fl.symH term.tp
    let newTp := addSuffix newTp braSuffix
    acc.addTerm ⟨-1 * term.frac, term.coeff, newTp⟩) lind
  let transposeKeys := (ham.convKeys.filter fun l => !fl.symH l).map (· ++ "_T")
  { lind with convKeys := keysUpdate lind.convKeys transposeKeys }

/-- One pass of the loop of `_add_jump_operators`; `none` = `ValueError` of `otimes` (ket and bra
    identifiers collide). -/
def jumpStep (fl : Flags) (ketSuffix braSuffix : String) (acc : Option Ham) (jump : Term) :
    Option Ham :=
  match acc with
  | none => none
  | some acc =>
    let frac := jump.frac
    let coeff := jump.coeff ++ "*j"
    let op := jump.tp
    let ketTp := addSuffix op ketSuffix
    let braTp := addSuffix op braSuffix
    let braTp := conjugateTP fl.real braTp
    match otimes ketTp braTp with
    | none => none
    | some fullTp => some (acc.addTerm ⟨frac, coeff, fullTp⟩)

/-- `_add_jump_operators` -/
def addJumpOperators (fl : Flags) (lind : Ham) (jumps : List Term) (jumpKeys : List Label)
    (jumpCoeffKeys : List String) (ketSuffix braSuffix : String) : Option Ham :=
  match jumps.foldl (jumpStep fl ketSuffix braSuffix) (some lind) with
  | none => none
  | some lind =>
    let conjKeys := (jumpKeys.filter fun l => !fl.real l).map (· ++ "_conj")
    let conv := keysUpdate (keysUpdate lind.convKeys conjKeys) jumpKeys
    let iCoeffs := jumpCoeffKeys.map (· ++ "*j")
    some { lind with convKeys := conv, coeffKeys := keysUpdate lind.coeffKeys iCoeffs }

/-- The identity table after the first loop of `_add_jump_operator_products`:
    `id_dict[op+"_H"] = False` for every jump label that is neither identity nor Hermitian. -/
def idDictAfterH (fl : Flags) (jumpKeys : List Label) : Label → Bool :=
  let added := (jumpKeys.filter fun l => !fl.ident l && !fl.herm l).map (· ++ "_H")
  fun l => if added.contains l then false else fl.ident l

/-- One pass of the second loop of `_add_jump_operator_products`; the state is the Lindbladian and
    the key list of `jop_conv_dict`. -/
def prodStep (fl : Flags) (idDict : Label → Bool) (ketSuffix braSuffix : String)
    (acc : Ham × List Label) (jump : Term) : Ham × List Label :=
  let (lind, jopKeys) := acc
  let frac := -1 * jump.frac / 2
  let coeff := jump.coeff ++ "*j"
  let op := jump.tp
  let opAdj := adjointTP fl.herm op
  let (opMult, newLabels) := multiply idDict opAdj op
  let jopKeys := keysUpdate jopKeys newLabels
  let opMultTransp := transposeTP fl.symJ opMult
  let newFrac := -1 * frac
  let ketTp := addSuffix opMult ketSuffix
  let braTp := addSuffix opMultTransp braSuffix
  let lind := lind.addTerm ⟨frac, coeff, ketTp⟩
  let lind := lind.addTerm ⟨newFrac, coeff, braTp⟩
  let transposeKeys := (jopKeys.filter fun l => !fl.symJ l).map (· ++ "_T")
  ({ lind with convKeys := keysUpdate (keysUpdate lind.convKeys jopKeys) transposeKeys }, jopKeys)

/-- `_add_jump_operator_products` -/
def addJumpOperatorProducts (fl : Flags) (lind : Ham) (jumps : List Term) (jumpKeys : List Label)
    (ketSuffix braSuffix : String) : Ham :=
  let hKeys := (jumpKeys.filter fun l => !fl.ident l && !fl.herm l).map (· ++ "_H")
  let idDict := idDictAfterH fl jumpKeys
  let jopKeys0 := keysUpdate jumpKeys hKeys
  (jumps.foldl (prodStep fl idDict ketSuffix braSuffix) (lind, jopKeys0)).1

/-- The input of `generate_lindbladian`. -/
structure Input where
  ham : Ham
  jumps : List Term
  /-- keys of `jump_operator_dict` -/
  jumpKeys : List Label
  /-- keys of `jump_coeff_mapping` -/
  jumpCoeffKeys : List String
  flags : Flags
  ketSuffix : String := "_ket"
  braSuffix : String := "_bra"

/-- `generate_lindbladian`. -/
def generateLindbladian (inp : Input) : Option Ham :=
  let lind : Ham := { terms := [], convKeys := [], coeffKeys := ["1"] }
  let lind := addHamiltonianKetTerms lind inp.ham inp.ketSuffix
  let lind := addHamiltonianBraTerms inp.flags lind inp.ham inp.braSuffix
  match addJumpOperators inp.flags lind inp.jumps inp.jumpKeys inp.jumpCoeffKeys
      inp.ketSuffix inp.braSuffix with
  | none => none
  | some lind =>
    some (addJumpOperatorProducts inp.flags lind inp.jumps inp.jumpKeys inp.ketSuffix inp.braSuffix)

/-! ### closed forms (specification side) -/

/-- the ket-side term of a Hamiltonian term -/
def ketTermOf (ketSuffix : String) (t : Term) : Term :=
  ⟨t.frac, t.coeff, t.tp.map fun (s, l) => (s ++ ketSuffix, l)⟩

/-- the bra-side term of a Hamiltonian term: prefactor negated, labels transposed -/
def braTermOf (sym : Label → Bool) (braSuffix : String) (t : Term) : Term :=
  ⟨-t.frac, t.coeff, t.tp.map fun (s, l) => (s ++ braSuffix, if sym l then l else l ++ "_T")⟩

/-- `L ⊗ conj(L)` with coefficient `γ*j` -/
def jumpTermOf (real : Label → Bool) (ketSuffix braSuffix : String) (j : Term) : Term :=
  ⟨j.frac, j.coeff ++ "*j",
   (j.tp.map fun (s, l) => (s ++ ketSuffix, l)) ++
   (j.tp.map fun (s, l) => (s ++ braSuffix, if real l then l else l ++ "_conj"))⟩

/-- label of `L†L` at one site -/
def prodLabel (fl : Flags) (jumpKeys : List Label) (l : Label) : Label :=
  multLabel (idDictAfterH fl jumpKeys) (if fl.herm l then l else l ++ "_H") l

/-- the ket-side anticommutator term `-(f/2) · γ*j · L†L ⊗ 1` -/
def ketProdTermOf (fl : Flags) (jumpKeys : List Label) (ketSuffix : String) (j : Term) : Term :=
  ⟨-(j.frac / 2), j.coeff ++ "*j", j.tp.map fun (s, l) => (s ++ ketSuffix, prodLabel fl jumpKeys l)⟩

/-- the bra-side anticommutator term as the code generates it: prefactor `pref` -/
def braProdTermWith (pref : Rat) (fl : Flags) (jumpKeys : List Label) (braSuffix : String)
    (j : Term) : Term :=
  ⟨pref, j.coeff ++ "*j", j.tp.map fun (s, l) =>
    (s ++ braSuffix,
     let p := prodLabel fl jumpKeys l
     if fl.symJ p then p else p ++ "_T")⟩

/-- The term list with the bra-side anticommutator prefactor `σ · f/2` (`σ = -1`: the GKSL
    generator of the property; `σ = +1`: see `anticomm_bra_sign_witness`). -/
def termsWithBraSign (σ : Rat) (inp : Input) : List Term :=
  inp.ham.terms.map (ketTermOf inp.ketSuffix) ++
  inp.ham.terms.map (braTermOf inp.flags.symH inp.braSuffix) ++
  inp.jumps.map (jumpTermOf inp.flags.real inp.ketSuffix inp.braSuffix) ++
  inp.jumps.flatMap fun j =>
    [ketProdTermOf inp.flags inp.jumpKeys inp.ketSuffix j,
     braProdTermWith (σ * (j.frac / 2)) inp.flags inp.jumpKeys inp.braSuffix j]

/-- The GKSL prescription of the property, term by term. -/
def gkslTerms (inp : Input) : List Term := termsWithBraSign (-1) inp

/-! ### `exact_lindbladian` (prefactors only) -/

/-- a Gaussian rational `re + im·i` -/
structure GRat where
  re : Rat
  im : Rat
  deriving DecidableEq, Repr

/-- The scalar prefactors of `t1, t2, t3` in `_jump_operator_terms` for a jump operator given
    with dense coefficient `c` (`coefficient = c ** 2`), as multiples of `c²`:
    `1j`, `-1j / 2`, `1j / 2`. -/
def exactJumpPrefactors (c2 : Rat) : GRat × GRat × GRat :=
  (⟨0, c2 * 1⟩, ⟨0, c2 * (-1 / 2)⟩, ⟨0, c2 * (1 / 2)⟩)

/-- The scalar prefactors of the three generated terms of one jump operator after the symbolic
    coefficient `γ*j ↦ i·γ` is substituted: `f·iγ`, `-(f/2)·iγ`, `(f/2)·iγ`. -/
def symbolicJumpPrefactors (f γ : Rat) : GRat × GRat × GRat :=
  (⟨0, f * γ⟩, ⟨0, -1 * f / 2 * γ⟩, ⟨0, -1 * (-1 * f / 2) * γ⟩)

end Ptn.C15
