/-! Model for property C15 (core Lean only; no Mathlib). -/
namespace Ptn.C15
end Ptn.C15
