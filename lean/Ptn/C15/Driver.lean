import Ptn.C15.Model
/-! Line-protocol handler for the C15 model (core Lean only). -/
namespace Ptn.C15
def handle (args : List String) : String := "bad-op"
end Ptn.C15
