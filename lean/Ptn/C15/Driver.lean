import Ptn.C15.Model
/-! Line-protocol handler for the C15 model (core Lean only).

  gen <ket> <bra> H <n> T… HL <n> (<label> <sym01>)… HC <n> <coeffkey>…
      J <n> T… JL <n> (<label> <real01><herm01><ident01><sym01>)… JC <n> <coeffkey>…
      DS <n> <label>…
    where T = `<num> <den> <coeff> <k> (<site> <label>)×k`; `DS` lists the derived labels
    (`…_H`, `…_mult_…`) that are symmetric.
    → `terms=<t>;<t>;… keys=<k>,<k>,… coeffs=<c>,<c>,…` with t = `num/den|coeff|site:label,…`
      (generation order; dict orders as inserted), or `ValueError` (ket/bra identifiers collide)
  gksl …same arguments…  → the term list of the GKSL prescription (`gkslTerms`)
-/
namespace Ptn.C15

abbrev P := StateT (List String) Option

def tok : P String := do
  match (← get) with
  | [] => failure
  | t :: ts => set ts; pure t

def nat : P Nat := do
  match (← tok).toNat? with
  | some n => pure n
  | none => failure

def int : P Int := do
  match (← tok).toInt? with
  | some n => pure n
  | none => failure

def expect (s : String) : P Unit := do
  if (← tok) = s then pure () else failure

def many {α : Type} (p : P α) : Nat → P (List α)
  | 0 => pure []
  | n + 1 => do
    let a ← p
    let rest ← many p n
    pure (a :: rest)

def counted {α : Type} (p : P α) : P (List α) := do
  let n ← nat
  many p n

def term : P Term := do
  let num ← int
  let den ← nat
  if den = 0 then failure
  let coeff ← tok
  let tp ← counted (do let s ← tok; let l ← tok; pure (s, l))
  pure ⟨mkRat num den, coeff, tp⟩

def bit (c : Char) : Option Bool :=
  if c = '1' then some true else if c = '0' then some false else none

def flag1 : P (Label × Bool) := do
  let l ← tok
  let f ← tok
  match f.toList with
  | [c] => match bit c with
    | some b => pure (l, b)
    | none => failure
  | _ => failure

def flag4 : P (Label × Bool × Bool × Bool × Bool) := do
  let l ← tok
  let f ← tok
  match f.toList.mapM bit with
  | some [r, h, i, s] => pure (l, r, h, i, s)
  | _ => failure

def parseInput : P Input := do
  let ket ← tok
  let bra ← tok
  expect "H"
  let hterms ← counted term
  expect "HL"
  let hl ← counted flag1
  expect "HC"
  let hc ← counted tok
  expect "J"
  let jterms ← counted term
  expect "JL"
  let jl ← counted flag4
  expect "JC"
  let jc ← counted tok
  expect "DS"
  let ds ← counted tok
  if !(← get).isEmpty then failure
  let look (tbl : List (Label × Bool)) (l : Label) : Bool := (List.lookup l tbl).getD false
  let fl : Flags :=
    { symH := look hl
      real := look (jl.map fun (l, r, _, _, _) => (l, r))
      herm := look (jl.map fun (l, _, h, _, _) => (l, h))
      ident := look (jl.map fun (l, _, _, i, _) => (l, i))
      symJ := fun l => look (jl.map fun (l, _, _, _, s) => (l, s)) l || ds.contains l }
  pure { ham := { terms := hterms, convKeys := hl.map (·.1), coeffKeys := hc }
         jumps := jterms, jumpKeys := jl.map (·.1), jumpCoeffKeys := jc, flags := fl
         ketSuffix := ket, braSuffix := bra }

def showRat (q : Rat) : String := s!"{q.num}/{q.den}"

def showTerm (t : Term) : String :=
  s!"{showRat t.frac}|{t.coeff}|" ++ ",".intercalate (t.tp.map fun (s, l) => s!"{s}:{l}")

def showTerms (ts : List Term) : String := ";".intercalate (ts.map showTerm)

def handle (args : List String) : String :=
  match args with
  | "gen" :: rest =>
    match (parseInput.run rest) with
    | some (inp, _) =>
      match generateLindbladian inp with
      | some h => s!"terms={showTerms h.terms} keys={",".intercalate h.convKeys} " ++
                  s!"coeffs={",".intercalate h.coeffKeys}"
      | none => "ValueError"
    | none => "bad-op"
  | "gksl" :: rest =>
    match (parseInput.run rest) with
    | some (inp, _) => s!"terms={showTerms (gkslTerms inp)}"
    | none => "bad-op"
  | _ => "bad-op"

end Ptn.C15
