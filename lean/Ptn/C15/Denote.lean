import Ptn.C15.Lemmas
import Ptn.C15.Sem
import Ptn.C15.Kron
/-! The denotation of the symbolic term lists of C15 into matrices on (ket sites) ⊗ (bra sites),
    for an arbitrary finite family of sites with arbitrary dimensions, and the chain of lemmas that
    evaluates the closed form `termsWithBraSign σ` to `lindMat σ`. -/
set_option linter.unusedSectionVars false
namespace Ptn.C15
open Matrix Kronecker

section denote
variable {ι : Type} [Fintype ι] [DecidableEq ι] {d : ι → Type} [∀ s, Fintype (d s)]
  [∀ s, DecidableEq (d s)]

/-- The semantic environment: site names, the suffixes, the final `conversion_dictionary`
    (`den l s` = the matrix of label `l` read at site `s`) and the final `coeffs_mapping`. -/
structure Env (ι : Type) (d : ι → Type) where
  name : ι → Site
  ks : String
  bs : String
  den : Label → ∀ s, Matrix (d s) (d s) ℂ
  cval : String → ℂ

/-- the local factor at site `s`: the operator the tensor product assigns to the identifier
    `key s`, the identity if it assigns none -/
def siteOp (E : Env ι d) (key : ι → Site) (tp : TP) (s : ι) : Matrix (d s) (d s) ℂ :=
  match TP.get? tp (key s) with
  | some l => E.den l s
  | none => 1

/-- a tensor product read on the identifiers `key s` -/
def opOn (E : Env ι d) (key : ι → Site) (tp : TP) : Matrix (∀ s, d s) (∀ s, d s) ℂ :=
  piKron (siteOp E key tp)

/-- a tensor product of the Lindbladian on (ket sites) ⊗ (bra sites) -/
def denTP (E : Env ι d) (tp : TP) :
    Matrix ((∀ s, d s) × (∀ s, d s)) ((∀ s, d s) × (∀ s, d s)) ℂ :=
  opOn E (fun s => E.name s ++ E.ks) tp ⊗ₖ opOn E (fun s => E.name s ++ E.bs) tp

/-- a list of Lindbladian terms: `Σ frac · coeffs_mapping[coeff] · ⟦tp⟧` -/
noncomputable def denTerms (E : Env ι d) (ts : List Term) :
    Matrix ((∀ s, d s) × (∀ s, d s)) ((∀ s, d s) × (∀ s, d s)) ℂ :=
  (ts.map fun t => (((t.frac : ℚ) : ℂ) * E.cval t.coeff) • denTP E t.tp).sum

/-- the dense Hamiltonian on the physical sites -/
noncomputable def hamMat (E : Env ι d) (ts : List Term) : Matrix (∀ s, d s) (∀ s, d s) ℂ :=
  (ts.map fun t => (((t.frac : ℚ) : ℂ) * E.cval t.coeff) • opOn E E.name t.tp).sum

/-- the dense jump operators with their rates `γ_k = frac_k · jval(symbol_k)` -/
noncomputable def jumpMats (E : Env ι d) (jval : String → ℂ) (js : List Term) :
    List (ℂ × Matrix (∀ s, d s) (∀ s, d s) ℂ) :=
  js.map fun j => ((((j.frac : ℚ) : ℂ)) * jval j.coeff, opOn E E.name j.tp)

/-- every identifier of the tensor product is the name of a site -/
def Named (E : Env ι d) (tp : TP) : Prop := ∀ e ∈ tp, ∃ s, e.1 = E.name s

/-- ket and bra identifiers never coincide -/
def Disjoint (E : Env ι d) : Prop := ∀ s t, E.name s ++ E.ks ≠ E.name t ++ E.bs

theorem denTerms_append (E : Env ι d) (a b : List Term) :
    denTerms E (a ++ b) = denTerms E a + denTerms E b := by
  simp [denTerms]

/-! ### lookups through suffixed identifiers -/

theorem lookup_suffix (tp : TP) (a suf : String) (f : Label → Label) :
    TP.get? (tp.map fun e => (e.1 ++ suf, f e.2)) (a ++ suf) = (TP.get? tp a).map f := by
  induction tp with
  | nil => rfl
  | cons e tp ih =>
    obtain ⟨x, l⟩ := e
    simp only [TP.get?, List.map_cons, List.lookup_cons] at ih ⊢
    by_cases h : a = x
    · subst h; simp
    · have h1 : (a == x) = false := by simpa using h
      have h2 : (a ++ suf == x ++ suf) = false := by
        simpa using fun hh => h ((String.append_left_inj suf).mp hh)
      simp only [h1, h2]; exact ih

theorem lookup_other (E : Env ι d) (tp : TP) (hn : Named E tp) (suf : String) (key : Site)
    (hk : ∀ t, key ≠ E.name t ++ suf) (f : Label → Label) :
    TP.get? (tp.map fun e => (e.1 ++ suf, f e.2)) key = none := by
  induction tp with
  | nil => rfl
  | cons e tp ih =>
    obtain ⟨t, ht⟩ := hn e (List.mem_cons_self ..)
    obtain ⟨x, l⟩ := e
    simp only [TP.get?, List.map_cons, List.lookup_cons] at ih ⊢
    have h2 : (key == x ++ suf) = false := by
      simp only at ht; rw [ht]; simpa using hk t
    simp only [h2]
    exact ih (fun e' he' => hn e' (List.mem_cons_of_mem _ he'))

/-! ### the local factors of the five kinds of generated terms -/

theorem siteOp_suffix (E : Env ι d) (tp : TP) (suf : String) (f : Label → Label) (s : ι) :
    siteOp E (fun s => E.name s ++ suf) (tp.map fun e => (e.1 ++ suf, f e.2)) s =
      match TP.get? tp (E.name s) with
      | some l => E.den (f l) s
      | none => 1 := by
  simp only [siteOp, lookup_suffix]
  cases TP.get? tp (E.name s) <;> rfl

theorem opOn_other (E : Env ι d) (tp : TP) (hn : Named E tp) (suf suf' : String)
    (hk : ∀ s t, E.name s ++ suf' ≠ E.name t ++ suf) (f : Label → Label) :
    opOn E (fun s => E.name s ++ suf') (tp.map fun e => (e.1 ++ suf, f e.2)) = 1 := by
  rw [← piKron_one]
  simp only [opOn]
  congr 1
  funext s
  simp only [siteOp, lookup_other E tp hn suf _ (hk s) f]

/-- the factors of a suffixed, relabelled tensor product, when every relabelled label denotes
    `g` of the original one -/
theorem opOn_suffix_map (E : Env ι d) (tp : TP) (suf : String) (f : Label → Label)
    (g : ∀ s, Matrix (d s) (d s) ℂ → Matrix (d s) (d s) ℂ) (hg1 : ∀ s, g s 1 = 1)
    (hf : ∀ l s, E.den (f l) s = g s (E.den l s)) :
    opOn E (fun s => E.name s ++ suf) (tp.map fun e => (e.1 ++ suf, f e.2)) =
      piKron (fun s => g s (siteOp E E.name tp s)) := by
  simp only [opOn]
  congr 1
  funext s
  rw [siteOp_suffix]
  simp only [siteOp]
  cases TP.get? tp (E.name s) with
  | none => exact (hg1 s).symm
  | some l => exact hf l s

theorem siteOp_append_right_none (E : Env ι d) (key : ι → Site) (a b : TP) (s : ι)
    (h : TP.get? b (key s) = none) : siteOp E key (a ++ b) s = siteOp E key a s := by
  simp only [siteOp, TP.get?, List.lookup_append] at h ⊢
  rw [h]; simp

theorem siteOp_append_left_none (E : Env ι d) (key : ι → Site) (a b : TP) (s : ι)
    (h : TP.get? a (key s) = none) : siteOp E key (a ++ b) s = siteOp E key b s := by
  simp only [siteOp, TP.get?, List.lookup_append] at h ⊢
  rw [h]; simp

/-- pattern-matching lambdas of the closed forms, in projection form -/
theorem map_pair_eq (tp : TP) (suf : String) (f : Label → Label) :
    (tp.map fun (x : Site × Label) => match x with | (s, l) => (s ++ suf, f l)) =
      tp.map fun e => (e.1 ++ suf, f e.2) := by
  apply List.map_congr_left; intro ⟨s, l⟩ _; rfl

/-! ### the five kinds of terms -/

variable (E : Env ι d) (fl : Flags)

theorem denTP_ket (hdis : Disjoint E) (tp : TP) (hn : Named E tp) :
    denTP E (tp.map fun (x : Site × Label) => match x with | (s, l) => (s ++ E.ks, l)) =
      opOn E E.name tp ⊗ₖ (1 : Matrix (∀ s, d s) (∀ s, d s) ℂ) := by
  have h0 := map_pair_eq tp E.ks (fun l => l)
  have h1 := opOn_suffix_map E tp E.ks (fun l => l) (fun _ M => M) (fun _ => rfl) (fun _ _ => rfl)
  have h2 := opOn_other E tp hn E.ks E.bs (fun s t h => hdis t s h.symm) (fun l => l)
  beta_reduce at h0 h1 h2
  rw [h0, denTP, h1, h2]
  rfl

theorem denTP_bra (hdis : Disjoint E) (tp : TP) (hn : Named E tp)
    (hd : ∀ s, DictSound (fun l => E.den l s)) (hf : ∀ s, FlagsSound fl (fun l => E.den l s)) :
    denTP E (tp.map fun (x : Site × Label) => match x with
      | (s, l) => (s ++ E.bs, if fl.symH l then l else l ++ "_T")) =
      (1 : Matrix (∀ s, d s) (∀ s, d s) ℂ) ⊗ₖ (opOn E E.name tp)ᵀ := by
  have h0 := map_pair_eq tp E.bs (fun l => if fl.symH l then l else l ++ "_T")
  have h1 := opOn_suffix_map E tp E.bs (fun l => if fl.symH l then l else l ++ "_T")
    (fun _ M => Mᵀ) (fun _ => Matrix.transpose_one)
    (fun l s => (label_shortcuts_sound' fl [] (fun l => E.den l s) (hd s) (hf s) l).1)
  have h2 := opOn_other E tp hn E.bs E.ks (fun s t h => hdis s t h)
    (fun l => if fl.symH l then l else l ++ "_T")
  beta_reduce at h0 h1 h2
  rw [h0, denTP, h1, h2, ← piKron_transpose]
  rfl

/-- `L ⊗ conj L` -/
theorem denTP_jump (hdis : Disjoint E) (tp : TP) (hn : Named E tp)
    (hd : ∀ s, DictSound (fun l => E.den l s)) (hf : ∀ s, FlagsSound fl (fun l => E.den l s)) :
    denTP E ((tp.map fun (x : Site × Label) => match x with | (s, l) => (s ++ E.ks, l)) ++
      (tp.map fun (x : Site × Label) => match x with
        | (s, l) => (s ++ E.bs, if fl.real l then l else l ++ "_conj"))) =
      opOn E E.name tp ⊗ₖ (opOn E E.name tp).map star := by
  have h0 := map_pair_eq tp E.ks (fun l => l)
  have h0' := map_pair_eq tp E.bs (fun l => if fl.real l then l else l ++ "_conj")
  have h1 := opOn_suffix_map E tp E.ks (fun l => l) (fun _ M => M) (fun _ => rfl) (fun _ _ => rfl)
  have h1' := opOn_suffix_map E tp E.bs (fun l => if fl.real l then l else l ++ "_conj")
    (fun _ M => M.map star) (fun _ => by ext i j; simp [Matrix.one_apply, apply_ite])
    (fun l s => (label_shortcuts_sound' fl [] (fun l => E.den l s) (hd s) (hf s) l).2.1)
  beta_reduce at h0 h0' h1 h1'
  rw [h0, h0', denTP]
  congr 1
  · refine Eq.trans ?_ h1
    simp only [opOn]; congr 1; funext s
    exact siteOp_append_right_none E _ _ _ s
      (lookup_other E tp hn E.bs _ (fun t => hdis s t)
        (fun l => if fl.real l then l else l ++ "_conj"))
  · refine Eq.trans ?_ (h1'.trans (piKron_conj _).symm)
    simp only [opOn]; congr 1; funext s
    exact siteOp_append_left_none E _ _ _ s
      (lookup_other E tp hn E.ks _ (fun t h => hdis t s h.symm) (fun l => l))

/-- `L†L ⊗ 1` -/
theorem denTP_ketProd (jk : List Label) (hdis : Disjoint E) (tp : TP) (hn : Named E tp)
    (hd : ∀ s, DictSound (fun l => E.den l s)) (hf : ∀ s, FlagsSound fl (fun l => E.den l s)) :
    denTP E (tp.map fun (x : Site × Label) => match x with
      | (s, l) => (s ++ E.ks, prodLabel fl jk l)) =
      ((opOn E E.name tp)ᴴ * opOn E E.name tp) ⊗ₖ (1 : Matrix (∀ s, d s) (∀ s, d s) ℂ) := by
  have h0 := map_pair_eq tp E.ks (fun l => prodLabel fl jk l)
  have h1 := opOn_suffix_map E tp E.ks (fun l => prodLabel fl jk l) (fun _ M => Mᴴ * M)
    (fun _ => by simp)
    (fun l s => (label_shortcuts_sound' fl jk (fun l => E.den l s) (hd s) (hf s) l).2.2.1)
  have h2 := opOn_other E tp hn E.ks E.bs (fun s t h => hdis t s h.symm)
    (fun l => prodLabel fl jk l)
  beta_reduce at h0 h1 h2
  rw [h0, denTP, h1, h2, ← piKron_mul, ← piKron_conjTranspose]
  rfl

/-- `1 ⊗ (L†L)ᵀ` -/
theorem denTP_braProd (jk : List Label) (hdis : Disjoint E) (tp : TP) (hn : Named E tp)
    (hd : ∀ s, DictSound (fun l => E.den l s)) (hf : ∀ s, FlagsSound fl (fun l => E.den l s)) :
    denTP E (tp.map fun (x : Site × Label) => match x with
      | (s, l) => (s ++ E.bs,
          if fl.symJ (prodLabel fl jk l) then prodLabel fl jk l else prodLabel fl jk l ++ "_T")) =
      (1 : Matrix (∀ s, d s) (∀ s, d s) ℂ) ⊗ₖ ((opOn E E.name tp)ᴴ * opOn E E.name tp)ᵀ := by
  have h0 := map_pair_eq tp E.bs (fun l =>
    if fl.symJ (prodLabel fl jk l) then prodLabel fl jk l else prodLabel fl jk l ++ "_T")
  have h1 := opOn_suffix_map E tp E.bs (fun l =>
    if fl.symJ (prodLabel fl jk l) then prodLabel fl jk l else prodLabel fl jk l ++ "_T")
    (fun _ M => (Mᴴ * M)ᵀ) (fun _ => by simp)
    (fun l s => (label_shortcuts_sound' fl jk (fun l => E.den l s) (hd s) (hf s) l).2.2.2)
  have h2 := opOn_other E tp hn E.bs E.ks (fun s t h => hdis s t h) (fun l =>
    if fl.symJ (prodLabel fl jk l) then prodLabel fl jk l else prodLabel fl jk l ++ "_T")
  beta_reduce at h0 h1 h2
  rw [h0, denTP, h1, h2, ← piKron_transpose, ← piKron_mul, ← piKron_conjTranspose]
  rfl

/-! ### the four blocks of the term list -/

theorem denTerms_cons (t : Term) (ts : List Term) :
    denTerms E (t :: ts) = (((t.frac : ℚ) : ℂ) * E.cval t.coeff) • denTP E t.tp + denTerms E ts := by
  simp [denTerms]

theorem denTerms_ket (hdis : Disjoint E) (ts : List Term) (hn : ∀ t ∈ ts, Named E t.tp) :
    denTerms E (ts.map (ketTermOf E.ks)) =
      hamMat E ts ⊗ₖ (1 : Matrix (∀ s, d s) (∀ s, d s) ℂ) := by
  induction ts with
  | nil => simp [denTerms, hamMat]
  | cons t ts ih =>
    rw [List.map_cons, denTerms_cons, ih (fun t' ht' => hn t' (List.mem_cons_of_mem _ ht'))]
    simp only [ketTermOf, hamMat, List.map_cons, List.sum_cons, add_kronecker, smul_kronecker]
    rw [denTP_ket E hdis t.tp (hn t (List.mem_cons_self ..))]

theorem denTerms_bra (hdis : Disjoint E) (ts : List Term) (hn : ∀ t ∈ ts, Named E t.tp)
    (hd : ∀ s, DictSound (fun l => E.den l s)) (hf : ∀ s, FlagsSound fl (fun l => E.den l s)) :
    denTerms E (ts.map (braTermOf fl.symH E.bs)) =
      -((1 : Matrix (∀ s, d s) (∀ s, d s) ℂ) ⊗ₖ (hamMat E ts)ᵀ) := by
  induction ts with
  | nil => simp [denTerms, hamMat]
  | cons t ts ih =>
    rw [List.map_cons, denTerms_cons, ih (fun t' ht' => hn t' (List.mem_cons_of_mem _ ht'))]
    simp only [braTermOf, hamMat, List.map_cons, List.sum_cons, Matrix.transpose_add,
      Matrix.transpose_smul, kronecker_add, kronecker_smul]
    rw [denTP_bra E fl hdis t.tp (hn t (List.mem_cons_self ..)) hd hf]
    push_cast
    module

theorem denTerms_jumps (jk : List Label) (jval : String → ℂ) (σ : ℚ) (hdis : Disjoint E)
    (js : List Term) (hn : ∀ j ∈ js, Named E j.tp)
    (hd : ∀ s, DictSound (fun l => E.den l s)) (hf : ∀ s, FlagsSound fl (fun l => E.den l s))
    (hc : ∀ j ∈ js, E.cval (j.coeff ++ "*j") = Complex.I * jval j.coeff) :
    denTerms E (js.map (jumpTermOf fl.real E.ks E.bs)) +
      denTerms E (js.flatMap fun j => [ketProdTermOf fl jk E.ks j,
        braProdTermWith (σ * (j.frac / 2)) fl jk E.bs j]) =
      ((jumpMats E jval js).map fun j => dissip (σ : ℂ) j.1 j.2).sum := by
  induction js with
  | nil => simp [denTerms, jumpMats]
  | cons j js ih =>
    have ih' := ih (fun j' hj' => hn j' (List.mem_cons_of_mem _ hj'))
      (fun j' hj' => hc j' (List.mem_cons_of_mem _ hj'))
    have hnj := hn j (List.mem_cons_self ..)
    simp only [List.map_cons, List.flatMap_cons, List.cons_append, List.nil_append, denTerms_cons,
      jumpMats, List.sum_cons] at ih' ⊢
    rw [← ih']
    simp only [jumpTermOf, ketProdTermOf, braProdTermWith, hc j (List.mem_cons_self ..)]
    rw [denTP_jump E fl hdis j.tp hnj hd hf, denTP_ketProd E fl jk hdis j.tp hnj hd hf,
      denTP_braProd E fl jk hdis j.tp hnj hd hf]
    simp only [dissip]
    push_cast
    module

/-- The closed-form term list with bra sign `σ` denotes `lindMat σ`. -/
theorem denote_termsWithBraSign (inp : Input) (jval : String → ℂ) (σ : ℚ)
    (hks : inp.ketSuffix = E.ks) (hbs : inp.braSuffix = E.bs) (hdis : Disjoint E)
    (hnH : ∀ t ∈ inp.ham.terms, Named E t.tp) (hnJ : ∀ j ∈ inp.jumps, Named E j.tp)
    (hd : ∀ s, DictSound (fun l => E.den l s))
    (hf : ∀ s, FlagsSound inp.flags (fun l => E.den l s))
    (hc : ∀ j ∈ inp.jumps, E.cval (j.coeff ++ "*j") = Complex.I * jval j.coeff) :
    denTerms E (termsWithBraSign σ inp) =
      lindMat (σ : ℂ) (hamMat E inp.ham.terms) (jumpMats E jval inp.jumps) := by
  simp only [termsWithBraSign, hks, hbs, denTerms_append, add_assoc]
  rw [denTerms_jumps E inp.flags inp.jumpKeys jval σ hdis inp.jumps hnJ hd hf hc,
    denTerms_ket E hdis _ hnH, denTerms_bra E inp.flags hdis _ hnH hd hf]
  simp only [lindMat]
  abel

/-- Hypotheses of the denotation theorems: the environment `E` (site names, suffixes, final
    conversion dictionary read per site, final coefficient mapping) fits the input — suffixes
    agree, ket and bra identifiers never coincide, every identifier used is a site name, the
    dictionary gives the derived labels their values and the flags are sound at every site
    (the hypotheses of `label_shortcuts_sound`), and `γ*j ↦ i·γ`. -/
structure Fits (E : Env ι d) (inp : Input) (jval : String → ℂ) : Prop where
  ks : inp.ketSuffix = E.ks
  bs : inp.braSuffix = E.bs
  disjoint : Disjoint E
  namedH : ∀ t ∈ inp.ham.terms, Named E t.tp
  namedJ : ∀ j ∈ inp.jumps, Named E j.tp
  dict : ∀ s, DictSound (fun l => E.den l s)
  flags : ∀ s, FlagsSound inp.flags (fun l => E.den l s)
  coeff : ∀ j ∈ inp.jumps, E.cval (j.coeff ++ "*j") = Complex.I * jval j.coeff

end denote
end Ptn.C15
