import Ptn.C15.Kron
import Mathlib.Analysis.Normed.Algebra.MatrixExponential
import Mathlib.Analysis.Complex.Basic
import Mathlib.Topology.Algebra.Module.FiniteDimension
/-! The flow `exp(−i t 𝓛)` of C15 (single Mathlib modules): a functional annihilated by the generator is
preserved by the whole flow.  With `gksl_trace_preserving` (`vec(1)ᵀ 𝓛 = 0`) this is trace preservation
of `exp(−i t 𝓛)` for every `t` and every density matrix. -/
namespace Ptn.C15
open Matrix NormedSpace

set_option linter.unusedSectionVars false
variable {m : Type} [Fintype m] [DecidableEq m]

/-- `A ↦ v ᵥ* A` as a continuous linear map -/
noncomputable def vecMulCLM (v : m → ℂ) : Matrix m m ℂ →L[ℂ] (m → ℂ) :=
  LinearMap.toContinuousLinearMap
    { toFun := fun A => v ᵥ* A
      map_add' := fun A B => Matrix.vecMul_add A B v
      map_smul' := fun c A => by simp [Matrix.vecMul_smul] }

@[simp] theorem vecMulCLM_apply (v : m → ℂ) (A : Matrix m m ℂ) : vecMulCLM v A = v ᵥ* A := rfl

theorem vecMul_pow_of_vecMul_eq_zero (A : Matrix m m ℂ) (v : m → ℂ) (h : v ᵥ* A = 0) :
    ∀ n : ℕ, v ᵥ* A ^ (n + 1) = 0 := by
  intro n
  rw [pow_succ', ← Matrix.vecMul_vecMul, h, Matrix.zero_vecMul]

/-- a row vector annihilated by `A` is fixed by `exp A` -/
theorem vecMul_exp_of_vecMul_eq_zero (A : Matrix m m ℂ) (v : m → ℂ) (h : v ᵥ* A = 0) :
    v ᵥ* exp A = v := by
  open scoped Matrix.Norms.Operator in
  have hs := exp_series_hasSum_exp' (𝕂 := ℂ) A
  have h2 := (vecMulCLM v).hasSum hs
  have h3 : (fun n : ℕ => vecMulCLM v (((n.factorial : ℂ)⁻¹) • A ^ n)) = fun n => if n = 0 then v else 0 := by
    funext n
    cases n with
    | zero => simp
    | succ n => simp [vecMul_pow_of_vecMul_eq_zero A v h n]
  rw [h3] at h2
  have h4 : HasSum (fun n : ℕ => if n = 0 then v else 0) v := hasSum_ite_eq 0 v
  exact (vecMulCLM_apply v (exp A)).symm.trans (h2.unique h4)

end Ptn.C15
