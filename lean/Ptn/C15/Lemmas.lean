import Ptn.C15.Model
/-! Helper lemmas for C15 (core Lean only): every loop of the port has a closed form. -/
namespace Ptn.C15

/-! ### rational prefactors -/

theorem neg_one_mul' (q : Rat) : -1 * q = -q := by
  rw [Rat.neg_mul, Rat.one_mul]

theorem prod_frac (f : Rat) : -1 * f / 2 = -(f / 2) := by
  rw [neg_one_mul', Rat.div_def, Rat.div_def, Rat.neg_mul]

theorem neg_div' (f : Rat) : -f / 2 = -(f / 2) := by
  rw [Rat.div_def, Rat.div_def, Rat.neg_mul]

theorem prod_newfrac (f : Rat) : -1 * (-1 * f / 2) = 1 * (f / 2) := by
  rw [prod_frac, neg_one_mul', Rat.neg_neg, Rat.one_mul]

/-! ### `add_term` loops -/

theorem foldl_addTerm {α : Type} (f : α → Term) (l : List α) (h : Ham) :
    l.foldl (fun acc x => acc.addTerm (f x)) h =
      { h with terms := h.terms ++ l.map f } := by
  induction l generalizing h with
  | nil => simp
  | cons a l ih =>
    simp only [List.foldl_cons]
    rw [ih]
    simp [Ham.addTerm, List.append_assoc]

theorem ket_terms (lind ham : Ham) (ks : String) :
    (addHamiltonianKetTerms lind ham ks).terms = lind.terms ++ ham.terms.map (ketTermOf ks) := by
  simp only [addHamiltonianKetTerms]
  rw [foldl_addTerm (fun term : Term => ⟨term.frac, term.coeff, addSuffix term.tp ks⟩)]
  rfl

theorem bra_terms (fl : Flags) (lind ham : Ham) (bs : String) :
    (addHamiltonianBraTerms fl lind ham bs).terms =
      lind.terms ++ ham.terms.map (braTermOf fl.symH bs) := by
  simp only [addHamiltonianBraTerms]
  rw [foldl_addTerm (fun term : Term =>
    ⟨-1 * term.frac, term.coeff, addSuffix (transposeTP fl.symH term.tp) bs⟩)]
  simp only
  congr 1
  apply List.map_congr_left
  intro t _
  simp [braTermOf, neg_one_mul', addSuffix, transposeTP, localAction, List.map_map,
    Function.comp_def]

/-! ### `otimes` -/

theorem foldl_otimesStep_none (b : TP) : b.foldl otimesStep none = none := by
  induction b with
  | nil => rfl
  | cons e b ih => simpa [otimesStep] using ih

theorem otimes_some (a b c : TP) (h : otimes a b = some c) : c = a ++ b := by
  unfold otimes at h
  induction b generalizing a with
  | nil => simp at h; simp [h]
  | cons e b ih =>
    simp only [List.foldl_cons] at h
    by_cases hk : (TP.get? a e.1).isSome
    · simp [otimesStep, hk, foldl_otimesStep_none] at h
    · simp only [otimesStep, hk] at h
      have := ih (a ++ [e]) h
      simp [this]

/-! ### `_add_jump_operators` -/

theorem foldl_jumpStep_none (fl : Flags) (ks bs : String) (jumps : List Term) :
    jumps.foldl (jumpStep fl ks bs) none = none := by
  induction jumps with
  | nil => rfl
  | cons j js ih => simpa [jumpStep] using ih

theorem jumpStep_some (fl : Flags) (ks bs : String) (acc acc' : Ham) (j : Term)
    (h : jumpStep fl ks bs (some acc) j = some acc') :
    acc' = acc.addTerm (jumpTermOf fl.real ks bs j) := by
  simp only [jumpStep] at h
  split at h
  · simp at h
  · rename_i full hfull
    have := otimes_some _ _ _ hfull
    simp only [Option.some.injEq] at h
    rw [← h, this]
    simp [jumpTermOf, addSuffix, conjugateTP, localAction, List.map_map, Function.comp_def]

theorem foldl_jumpStep_some (fl : Flags) (ks bs : String) (jumps : List Term) (lind lind' : Ham)
    (h : jumps.foldl (jumpStep fl ks bs) (some lind) = some lind') :
    lind' = { lind with terms := lind.terms ++ jumps.map (jumpTermOf fl.real ks bs) } := by
  induction jumps generalizing lind with
  | nil => simp at h; simp [h]
  | cons j js ih =>
    simp only [List.foldl_cons] at h
    cases hs : jumpStep fl ks bs (some lind) j with
    | none => rw [hs, foldl_jumpStep_none] at h; simp at h
    | some acc =>
      rw [hs] at h
      have h1 := jumpStep_some fl ks bs lind acc j hs
      have h2 := ih acc h
      rw [h2, h1]
      simp [Ham.addTerm, List.append_assoc]

theorem jump_terms (fl : Flags) (lind lind' : Ham) (jumps : List Term) (jk : List Label)
    (jc : List String) (ks bs : String)
    (h : addJumpOperators fl lind jumps jk jc ks bs = some lind') :
    lind'.terms = lind.terms ++ jumps.map (jumpTermOf fl.real ks bs) := by
  simp only [addJumpOperators] at h
  split at h
  · simp at h
  · rename_i l hl
    have := foldl_jumpStep_some fl ks bs jumps lind l hl
    simp only [Option.some.injEq] at h
    rw [← h, this]

/-! ### `multiply` -/

theorem lookup_of_mem_nodup : ∀ (tp : TP) (s : Site) (l : Label),
    (tp.map Prod.fst).Nodup → (s, l) ∈ tp → TP.get? tp s = some l
  | [], _, _, _, h => by simp at h
  | (s', l') :: tp, s, l, hn, h => by
    simp only [List.map_cons, List.nodup_cons] at hn
    simp only [TP.get?, List.lookup_cons]
    rcases List.mem_cons.mp h with h | h
    · cases h; simp
    · have hne : s ≠ s' := by
        intro he
        apply hn.1
        rw [← he]
        exact List.mem_map.mpr ⟨(s, l), h, rfl⟩
      have : (s == s') = false := by simpa using hne
      rw [this]
      exact lookup_of_mem_nodup tp s l hn.2 h

theorem lookup_isSome_of_key : ∀ (tp : TP) (s : Site), s ∈ tp.map Prod.fst →
    (TP.get? tp s).isSome = true
  | [], _, h => by simp at h
  | (s', l') :: tp, s, h => by
    simp only [TP.get?, List.lookup_cons]
    by_cases he : s = s'
    · simp [he]
    · have : (s == s') = false := by simpa using he
      rw [this]
      simp only [List.map_cons, List.mem_cons] at h
      rcases h with h | h
      · exact absurd h he
      · exact lookup_isSome_of_key tp s h

/-- first loop of `multiply` when every site of `self` is a site of `other`, the label at that
    site being given by `f` -/
theorem foldl_multStep1 (ident : Label → Bool) (b : TP) (f : Site × Label → Label)
    (xs : TP) (hx : ∀ e ∈ xs, TP.get? b e.1 = some (f e)) (acc : TP × List Label) :
    (xs.foldl (multStep1 ident b) acc).1 =
      acc.1 ++ xs.map (fun e => (e.1, multLabel ident e.2 (f e))) := by
  induction xs generalizing acc with
  | nil => simp
  | cons e xs ih =>
    simp only [List.foldl_cons]
    rw [ih (fun e' he' => hx e' (List.mem_cons_of_mem _ he'))]
    simp [multStep1, hx e (List.mem_cons_self ..), List.append_assoc]

theorem foldl_multStep2_id (b acc : TP) (h : ∀ e ∈ b, e.1 ∈ acc.map Prod.fst) :
    b.foldl multStep2 acc = acc := by
  induction b with
  | nil => rfl
  | cons e b ih =>
    simp only [List.foldl_cons]
    have : multStep2 acc e = acc := by
      simp [multStep2, lookup_isSome_of_key acc e.1 (h e (List.mem_cons_self ..))]
    rw [this]
    exact ih (fun e' he' => h e' (List.mem_cons_of_mem _ he'))

/-- `L† · L` site by site: `multiply (adjoint op) op` keeps the sites of `op` in order and puts the
    product label at each. -/
theorem multiply_adjoint (ident herm : Label → Bool) (op : TP) (hn : (op.map Prod.fst).Nodup) :
    (multiply ident (adjointTP herm op) op).1 =
      op.map fun (s, l) => (s, multLabel ident (if herm l then l else l ++ "_H") l) := by
  simp only [multiply, adjointTP, localAction]
  have h1 := foldl_multStep1 ident op (fun e => (List.lookup e.1 op).getD "")
    (op.map fun (s, l) => (s, if herm l then l else l ++ "_H")) (by
      intro e he
      obtain ⟨⟨s, l⟩, hm, rfl⟩ := List.mem_map.mp he
      have := lookup_of_mem_nodup op s l hn hm
      simp only [TP.get?] at this ⊢
      simp [this]) ([], [])
  rw [h1]
  simp only [List.nil_append, List.map_map]
  have hmap : (op.map ((fun e : Site × Label =>
      (e.1, multLabel ident e.2 ((List.lookup e.1 op).getD ""))) ∘
      fun x : Site × Label => (x.1, if herm x.2 = true then x.2 else x.2 ++ "_H"))) =
      op.map fun x : Site × Label =>
        (x.1, multLabel ident (if herm x.2 = true then x.2 else x.2 ++ "_H") x.2) := by
    apply List.map_congr_left
    intro ⟨s, l⟩ hm
    have := lookup_of_mem_nodup op s l hn hm
    simp only [TP.get?] at this
    simp [this]
  rw [hmap]
  apply foldl_multStep2_id
  intro e he
  simp only [List.map_map]
  exact List.mem_map.mpr ⟨e, he, rfl⟩

/-! ### `_add_jump_operator_products` -/

theorem prodStep_terms (fl : Flags) (jk : List Label) (ks bs : String) (acc : Ham × List Label)
    (j : Term) (hn : (j.tp.map Prod.fst).Nodup) :
    (prodStep fl (idDictAfterH fl jk) ks bs acc j).1.terms =
      acc.1.terms ++ [ketProdTermOf fl jk ks j,
        braProdTermWith (1 * (j.frac / 2)) fl jk bs j] := by
  obtain ⟨lind, keys⟩ := acc
  simp only [prodStep, Ham.addTerm, List.append_assoc, List.cons_append, List.nil_append]
  rw [multiply_adjoint _ _ _ hn]
  simp [ketProdTermOf, braProdTermWith, prodLabel, neg_one_mul', neg_div', Rat.neg_neg, Rat.one_mul,
    addSuffix, transposeTP, localAction, List.map_map, Function.comp_def]

theorem foldl_prodStep_terms (fl : Flags) (jk : List Label) (ks bs : String) (jumps : List Term)
    (hn : ∀ j ∈ jumps, (j.tp.map Prod.fst).Nodup) (acc : Ham × List Label) :
    (jumps.foldl (prodStep fl (idDictAfterH fl jk) ks bs) acc).1.terms =
      acc.1.terms ++ jumps.flatMap fun j =>
        [ketProdTermOf fl jk ks j, braProdTermWith (1 * (j.frac / 2)) fl jk bs j] := by
  induction jumps generalizing acc with
  | nil => simp
  | cons j js ih =>
    simp only [List.foldl_cons, List.flatMap_cons]
    rw [ih (fun j' hj' => hn j' (List.mem_cons_of_mem _ hj')),
      prodStep_terms fl jk ks bs acc j (hn j (List.mem_cons_self ..))]
    simp [List.append_assoc]

theorem product_terms (fl : Flags) (lind : Ham) (jumps : List Term) (jk : List Label)
    (ks bs : String) (hn : ∀ j ∈ jumps, (j.tp.map Prod.fst).Nodup) :
    (addJumpOperatorProducts fl lind jumps jk ks bs).terms =
      lind.terms ++ jumps.flatMap fun j =>
        [ketProdTermOf fl jk ks j, braProdTermWith (1 * (j.frac / 2)) fl jk bs j] := by
  simp only [addJumpOperatorProducts]
  exact foldl_prodStep_terms fl jk ks bs jumps hn _

/-- The whole construction in closed form. -/
theorem generate_terms (inp : Input) (h : Ham)
    (hn : ∀ j ∈ inp.jumps, (j.tp.map Prod.fst).Nodup)
    (hg : generateLindbladian inp = some h) : h.terms = termsWithBraSign 1 inp := by
  simp only [generateLindbladian] at hg
  split at hg
  · simp at hg
  · rename_i l hl
    simp only [Option.some.injEq] at hg
    rw [← hg, product_terms _ _ _ _ _ _ hn, jump_terms _ _ _ _ _ _ _ _ hl, bra_terms, ket_terms]
    simp [termsWithBraSign]

/-! ### success of the construction -/

theorem lookup_none_of_not_key : ∀ (tp : TP) (s : Site), s ∉ tp.map Prod.fst →
    (TP.get? tp s).isSome = false
  | [], _, _ => by simp [TP.get?]
  | (s', l') :: tp, s, h => by
    simp only [List.map_cons, List.mem_cons, not_or] at h
    simp only [TP.get?, List.lookup_cons]
    have : (s == s') = false := by simpa using h.1
    rw [this]
    exact lookup_none_of_not_key tp s h.2

theorem otimes_of_nodup (a b : TP) (h : ((a ++ b).map Prod.fst).Nodup) :
    otimes a b = some (a ++ b) := by
  unfold otimes
  induction b generalizing a with
  | nil => simp
  | cons e b ih =>
    simp only [List.foldl_cons]
    have hk : e.1 ∉ a.map Prod.fst := by
      intro hm
      rw [List.map_append, List.nodup_append] at h
      exact h.2.2 _ hm _ (by simp) rfl
    simp only [otimesStep, lookup_none_of_not_key a e.1 hk]
    have := ih (a ++ [e]) (by simpa [List.append_assoc] using h)
    simpa [List.append_assoc] using this

/-- the identifiers of the doubled space a jump operator acts on are pairwise distinct -/
def DoubledDistinct (ks bs : String) (j : Term) : Prop :=
  ((j.tp.map fun e => e.1 ++ ks) ++ (j.tp.map fun e => e.1 ++ bs)).Nodup

theorem jumpStep_succeeds (fl : Flags) (ks bs : String) (acc : Ham) (j : Term)
    (hd : DoubledDistinct ks bs j) :
    jumpStep fl ks bs (some acc) j = some (acc.addTerm (jumpTermOf fl.real ks bs j)) := by
  have hn : ((addSuffix j.tp ks ++ conjugateTP fl.real (addSuffix j.tp bs)).map Prod.fst).Nodup := by
    simpa [DoubledDistinct, addSuffix, conjugateTP, localAction, List.map_map, Function.comp_def]
      using hd
  simp only [jumpStep, otimes_of_nodup _ _ hn]
  simp [jumpTermOf, addSuffix, conjugateTP, localAction, List.map_map, Function.comp_def]

theorem foldl_jumpStep_succeeds (fl : Flags) (ks bs : String) (jumps : List Term)
    (hd : ∀ j ∈ jumps, DoubledDistinct ks bs j) (lind : Ham) :
    ∃ l, jumps.foldl (jumpStep fl ks bs) (some lind) = some l := by
  induction jumps generalizing lind with
  | nil => exact ⟨lind, rfl⟩
  | cons j js ih =>
    simp only [List.foldl_cons]
    rw [jumpStep_succeeds fl ks bs lind j (hd j (List.mem_cons_self ..))]
    exact ih (fun j' hj' => hd j' (List.mem_cons_of_mem _ hj')) _

theorem generate_succeeds (inp : Input)
    (hd : ∀ j ∈ inp.jumps, DoubledDistinct inp.ketSuffix inp.braSuffix j) :
    ∃ h, generateLindbladian inp = some h := by
  simp only [generateLindbladian, addJumpOperators]
  obtain ⟨l, hl⟩ := foldl_jumpStep_succeeds inp.flags inp.ketSuffix inp.braSuffix inp.jumps hd
    (addHamiltonianBraTerms inp.flags
      (addHamiltonianKetTerms { terms := [], convKeys := [], coeffKeys := ["1"] } inp.ham
        inp.ketSuffix) inp.ham inp.braSuffix)
  rw [hl]
  exact ⟨_, rfl⟩

/-- Hypotheses shared by the theorems: what Python guarantees for dict-valued tensor products
    (distinct sites per jump operator) and for the doubled identifiers (ket and bra identifiers
    never coincide — otherwise `otimes` raises `ValueError`). -/
def WellFormed (inp : Input) : Prop :=
  (∀ j ∈ inp.jumps, (j.tp.map Prod.fst).Nodup) ∧
  (∀ j ∈ inp.jumps, DoubledDistinct inp.ketSuffix inp.braSuffix j)

/-- position of the `k`-th pair inside a `flatMap` of pairs -/
theorem getElem?_flatMap_pair {α β : Type} (f g : α → β) (l : List α) (k : Nat) (a : α)
    (hk : l[k]? = some a) :
    (l.flatMap fun x => [f x, g x])[2 * k]? = some (f a) ∧
    (l.flatMap fun x => [f x, g x])[2 * k + 1]? = some (g a) := by
  induction l generalizing k with
  | nil => simp at hk
  | cons x xs ih =>
    cases k with
    | zero => simp at hk; simp [hk]
    | succ k =>
      simp only [List.getElem?_cons_succ] at hk
      have := ih k hk
      simp only [List.flatMap_cons]
      have e1 : 2 * (k + 1) = (2 * k) + 2 := by omega
      have e3 : 2 * k + 2 + 1 = (2 * k + 1) + 2 := by omega
      rw [e1, e3]
      simpa using this

/-- one qubit, `H = ½·J·X`, one jump operator `¾·g·A` with a generic `A` -/
def exampleInput : Input :=
  { ham := { terms := [⟨1/2, "J", [("s0", "X")]⟩], convKeys := ["X"], coeffKeys := ["1", "J"] }
    jumps := [⟨3/4, "g", [("s0", "A")]⟩]
    jumpKeys := ["A"], jumpCoeffKeys := ["g"]
    flags := { symH := fun l => l == "X", real := fun _ => false, ident := fun _ => false,
               herm := fun _ => false, symJ := fun _ => false } }

end Ptn.C15
