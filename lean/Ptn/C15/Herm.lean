import Ptn.C15.Flow
/-! Hermiticity preservation of the GKSL flow (C15).  `sharp` is the ring automorphism
`M ↦ conj(M[(b,a),(d,c)])` of matrices on the doubled space; it intertwines the vectorised adjoint
`dag (vec ρ) = vec ρᴴ`.  For a Hermitian Hamiltonian and real rates the GKSL generator satisfies
`sharp 𝓛 = −𝓛`, hence `sharp (−i t 𝓛) = −i t 𝓛` for real `t`, hence `exp(−i t 𝓛)` commutes with `dag` and
maps (vectorised) Hermitian matrices to Hermitian matrices. -/
namespace Ptn.C15
open Matrix NormedSpace Kronecker

set_option linter.unusedSectionVars false
variable {K : Type} [Fintype K] [DecidableEq K]

/-- vectorised adjoint -/
def dag (x : K × K → ℂ) : K × K → ℂ := fun p => star (x p.swap)

theorem dag_vec (ρ : Matrix K K ℂ) : dag (vec ρ) = vec ρᴴ := by
  funext p; simp [dag, vec, Matrix.conjTranspose_apply]

/-- `M ↦ conj(M[(b,a),(d,c)])` -/
def sharpFun (M : Matrix (K × K) (K × K) ℂ) : Matrix (K × K) (K × K) ℂ :=
  fun p q => star (M p.swap q.swap)

theorem sharpFun_mul (A B : Matrix (K × K) (K × K) ℂ) : sharpFun (A * B) = sharpFun A * sharpFun B := by
  funext p q
  simp only [sharpFun, Matrix.mul_apply, star_sum, star_mul']
  exact (Equiv.sum_comp (Equiv.prodComm K K) (fun r => star (A p.swap r) * star (B r q.swap))).symm

theorem sharpFun_one : sharpFun (1 : Matrix (K × K) (K × K) ℂ) = 1 := by
  funext p q
  simp only [sharpFun, Matrix.one_apply]
  by_cases h : p = q
  · subst h; simp
  · have : p.swap ≠ q.swap := fun h' => h (Prod.swap_injective h')
    simp [h, this]

/-- `sharp` as a ring homomorphism -/
def sharp : Matrix (K × K) (K × K) ℂ →+* Matrix (K × K) (K × K) ℂ where
  toFun := sharpFun
  map_one' := sharpFun_one
  map_mul' := sharpFun_mul
  map_zero' := by funext p q; simp [sharpFun]
  map_add' := fun A B => by funext p q; simp [sharpFun]

@[simp] theorem sharp_apply (M : Matrix (K × K) (K × K) ℂ) (p q : K × K) :
    sharp M p q = star (M p.swap q.swap) := rfl

theorem sharp_smul (c : ℂ) (M : Matrix (K × K) (K × K) ℂ) : sharp (c • M) = star c • sharp M := by
  funext p q; simp

theorem sharp_neg (M : Matrix (K × K) (K × K) ℂ) : sharp (-M) = -sharp M := map_neg sharp M

theorem sharp_kron (A B : Matrix K K ℂ) : sharp (A ⊗ₖ B) = (B.map star) ⊗ₖ (A.map star) := by
  funext p q
  simp [mul_comm]

theorem dag_mulVec (M : Matrix (K × K) (K × K) ℂ) (x : K × K → ℂ) :
    dag (M *ᵥ x) = sharp M *ᵥ dag x := by
  funext p
  simp only [dag, mulVec, dotProduct, star_sum, star_mul', sharp_apply]
  exact (Equiv.sum_comp (Equiv.prodComm K K) (fun r => star (M p.swap r) * star (x r))).symm

theorem sharp_continuous : Continuous (sharp : Matrix (K × K) (K × K) ℂ → Matrix (K × K) (K × K) ℂ) := by
  apply continuous_matrix
  intro p q
  exact Complex.continuous_conj.comp (continuous_id.matrix_elem p.swap q.swap)

/-- `sharp` commutes with the matrix exponential -/
theorem sharp_exp (M : Matrix (K × K) (K × K) ℂ) : sharp (exp M) = exp (sharp M) := by
  open scoped Matrix.Norms.Operator in
  exact map_exp sharp sharp_continuous M

end Ptn.C15

namespace Ptn.C15
open Matrix NormedSpace Kronecker

set_option linter.unusedSectionVars false
variable {K : Type} [Fintype K] [DecidableEq K]

theorem map_star_one : (1 : Matrix K K ℂ).map star = 1 := by
  funext a b; by_cases h : a = b <;> simp [Matrix.one_apply, h]

theorem map_star_eq_transpose_of_herm {M : Matrix K K ℂ} (h : Mᴴ = M) : M.map star = Mᵀ := by
  have : (Mᴴ)ᵀ = Mᵀ := by rw [h]
  rw [← this]; funext a b; simp [Matrix.conjTranspose_apply]

theorem map_star_transpose_of_herm {M : Matrix K K ℂ} (h : Mᴴ = M) : (Mᵀ).map star = M := by
  conv_rhs => rw [← h]
  funext a b; simp [Matrix.conjTranspose_apply]

/-- the Hamiltonian part changes sign under `sharp` when `H` is Hermitian -/
theorem sharp_hamPart (H : Matrix K K ℂ) (hH : Hᴴ = H) :
    sharp (H ⊗ₖ (1 : Matrix K K ℂ) - (1 : Matrix K K ℂ) ⊗ₖ Hᵀ) =
      -(H ⊗ₖ (1 : Matrix K K ℂ) - (1 : Matrix K K ℂ) ⊗ₖ Hᵀ) := by
  rw [map_sub, sharp_kron, sharp_kron, map_star_one, map_star_eq_transpose_of_herm hH,
    map_star_transpose_of_herm hH]
  abel

/-- a GKSL dissipator with a real rate changes sign under `sharp` -/
theorem sharp_dissip (γ : ℂ) (hγ : star γ = γ) (L : Matrix K K ℂ) :
    sharp (dissip (-1) γ L) = -dissip (-1) γ L := by
  have hM : (Lᴴ * L)ᴴ = Lᴴ * L := by simp [Matrix.conjTranspose_mul]
  have hLL : (L.map star).map star = L := by funext a b; simp
  unfold dissip
  rw [sharp_smul, map_add, map_sub, sharp_smul, sharp_smul, sharp_kron, sharp_kron, sharp_kron,
    map_star_one, hLL, map_star_eq_transpose_of_herm hM, map_star_transpose_of_herm hM]
  have h1 : star (Complex.I * γ) = -(Complex.I * γ) := by
    rw [star_mul', hγ]; simp
  have h2 : star (1 / 2 : ℂ) = 1 / 2 := by simp
  have h3 : star ((-1 : ℂ) * (1 / 2)) = (-1) * (1 / 2) := by simp
  rw [h1, h2, h3]
  module

/-- **`sharp 𝓛 = −𝓛`** for the GKSL generator of a Hermitian Hamiltonian with real rates -/
theorem sharp_gksl (H : Matrix K K ℂ) (hH : Hᴴ = H) (js : List (ℂ × Matrix K K ℂ))
    (hjs : ∀ j ∈ js, star j.1 = j.1) : sharp (gkslMat H js) = -gkslMat H js := by
  unfold gkslMat lindMat
  rw [map_add, sharp_hamPart H hH, neg_add]
  congr 1
  induction js with
  | nil => simp
  | cons j js ih =>
    simp only [List.map_cons, List.sum_cons, map_add, neg_add]
    rw [sharp_dissip j.1 (hjs j (by simp)) j.2, ih (fun k hk => hjs k (by simp [hk]))]

/-- **The GKSL flow commutes with the adjoint**: for a Hermitian Hamiltonian, real rates and real time,
`(exp(−i t 𝓛) vec ρ)† = exp(−i t 𝓛) vec ρ†`. -/
theorem gksl_flow_dag (H : Matrix K K ℂ) (hH : Hᴴ = H) (js : List (ℂ × Matrix K K ℂ))
    (hjs : ∀ j ∈ js, star j.1 = j.1) (t : ℝ) (ρ : Matrix K K ℂ) :
    dag (exp ((-Complex.I * (t : ℂ)) • gkslMat H js) *ᵥ vec ρ) =
      exp ((-Complex.I * (t : ℂ)) • gkslMat H js) *ᵥ vec ρᴴ := by
  rw [dag_mulVec, sharp_exp, sharp_smul, sharp_gksl H hH js hjs, dag_vec]
  congr 2
  have : star (-Complex.I * (t : ℂ)) = Complex.I * (t : ℂ) := by simp
  rw [this]; simp

end Ptn.C15
