import Ptn.C20.Model
/-! Helper lemmas for C20 (core Lean only): row-major `ravel` / `unravel` are mutually inverse. -/
namespace Ptn.C20

theorem size_cons (d : Nat) (ds : List Nat) : size (d :: ds) = d * size ds := by
  simp [size]

theorem ravel_lt_size : ∀ (shape idx : List Nat), ValidIdx shape idx → ravel shape idx < size shape
  | [], [], _ => by simp [ravel, size]
  | [], _ :: _, h => by simp [ValidIdx] at h
  | _ :: _, [], h => by simp [ValidIdx] at h
  | d :: ds, i :: is, h => by
    obtain ⟨hi, hv⟩ := h
    have ih := ravel_lt_size ds is hv
    rw [size_cons]
    show i * size ds + ravel ds is < d * size ds
    have h1 : (i + 1) * size ds ≤ d * size ds := Nat.mul_le_mul_right _ hi
    rw [Nat.add_mul, Nat.one_mul] at h1
    omega

theorem unravel_ravel : ∀ (shape idx : List Nat), ValidIdx shape idx →
    unravel shape (ravel shape idx) = idx
  | [], [], _ => by simp [unravel]
  | [], _ :: _, h => by simp [ValidIdx] at h
  | _ :: _, [], h => by simp [ValidIdx] at h
  | d :: ds, i :: is, h => by
    obtain ⟨_, hv⟩ := h
    have hr := ravel_lt_size ds is hv
    have ih := unravel_ravel ds is hv
    have hs : 0 < size ds := by omega
    show (i * size ds + ravel ds is) / size ds ::
        unravel ds ((i * size ds + ravel ds is) % size ds) = i :: is
    have e1 : (i * size ds + ravel ds is) / size ds = i := by
      rw [Nat.add_comm, Nat.add_mul_div_right _ _ hs, Nat.div_eq_of_lt hr, Nat.zero_add]
    have e2 : (i * size ds + ravel ds is) % size ds = ravel ds is := by
      rw [Nat.add_comm, Nat.add_mul_mod_self_right, Nat.mod_eq_of_lt hr]
    rw [e1, e2, ih]

theorem valid_unravel : ∀ (shape : List Nat) (k : Nat), k < size shape →
    ValidIdx shape (unravel shape k)
  | [], _, _ => by simp [unravel, ValidIdx]
  | d :: ds, k, h => by
    rw [size_cons] at h
    have hs : 0 < size ds := by
      rcases Nat.eq_zero_or_pos (size ds) with h0 | h0
      · rw [h0] at h; omega
      · exact h0
    show k / size ds < d ∧ ValidIdx ds (unravel ds (k % size ds))
    refine ⟨?_, valid_unravel ds _ (Nat.mod_lt _ hs)⟩
    exact Nat.div_lt_of_lt_mul (by rw [Nat.mul_comm]; exact h)

theorem ravel_unravel : ∀ (shape : List Nat) (k : Nat), k < size shape →
    ravel shape (unravel shape k) = k
  | [], k, h => by
    simp [size] at h
    simp [ravel, h]
  | d :: ds, k, h => by
    rw [size_cons] at h
    have hs : 0 < size ds := by
      rcases Nat.eq_zero_or_pos (size ds) with h0 | h0
      · rw [h0] at h; omega
      · exact h0
    show k / size ds * size ds + ravel ds (unravel ds (k % size ds)) = k
    rw [ravel_unravel ds _ (Nat.mod_lt _ hs)]
    exact Nat.div_add_mod' k (size ds)

end Ptn.C20
