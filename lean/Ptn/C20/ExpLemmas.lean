import Ptn.C20.Model
import Mathlib.Analysis.Normed.Algebra.MatrixExponential
import Mathlib.Analysis.Complex.Basic
import Mathlib.LinearAlgebra.Matrix.Rank
/-! Helper lemmas for C20 over complex matrices (single Mathlib modules): the abstract identities
    of the matrix exponential that the property's consequences rest on, and the denotation of the
    model's scalar `rhsCoeff` as a complex number. -/
namespace Ptn.C20
open Matrix NormedSpace

variable {n : Type} [Fintype n] [DecidableEq n]

/-- The complex number denoted by a Gaussian integer. -/
noncomputable def GInt.toComplex (c : GInt) : ℂ := (c.re : ℂ) + (c.im : ℂ) * Complex.I

/-- The exponent `t · c · H` seen by the routine (`time=factor`), which is also `t` times the
    generator `c · H` of the differential equation (`time=span`). -/
noncomputable def exponent (c : GInt) (H : Matrix n n ℂ) (t : ℝ) : Matrix n n ℂ :=
  ((t : ℂ) * c.toComplex) • H

theorem toComplex_neg (c : GInt) : c.neg.toComplex = -c.toComplex := by
  simp [GInt.neg, GInt.toComplex]; ring

omit [Fintype n] [DecidableEq n] in
theorem exponent_neg (c : GInt) (H : Matrix n n ℂ) (t : ℝ) :
    exponent c.neg H t = -exponent c H t := by
  simp [exponent, toComplex_neg]

theorem exp_mul_exp_neg (A : Matrix n n ℂ) : exp A * exp (-A) = 1 := by
  rw [← Matrix.exp_add_of_commute A (-A) (Commute.neg_right (Commute.refl A))]
  simp

theorem exp_neg_mul_exp (A : Matrix n n ℂ) : exp (-A) * exp A = 1 := by
  rw [← Matrix.exp_add_of_commute (-A) A (Commute.neg_left (Commute.refl A))]
  simp

theorem exp_unitary_of_skew (A : Matrix n n ℂ) (h : Aᴴ = -A) : (exp A)ᴴ * exp A = 1 := by
  rw [← Matrix.exp_conjTranspose, h]
  exact exp_neg_mul_exp A

theorem norm_sq_preserved (U : Matrix n n ℂ) (hU : Uᴴ * U = 1) (v : n → ℂ) :
    star (U *ᵥ v) ⬝ᵥ (U *ᵥ v) = star v ⬝ᵥ v := by
  rw [Matrix.star_mulVec, Matrix.dotProduct_mulVec, Matrix.vecMul_vecMul, hU, Matrix.vecMul_one]

omit [Fintype n] [DecidableEq n] in
/-- `±i·t·H` is skew-Hermitian when `H` is Hermitian and the scalar is purely imaginary. -/
theorem exponent_skew (c : GInt) (hc : c.re = 0) (H : Matrix n n ℂ) (hH : Hᴴ = H) (t : ℝ) :
    (exponent c H t)ᴴ = -exponent c H t := by
  unfold exponent
  rw [Matrix.conjTranspose_smul, hH, ← neg_smul]
  congr 1
  simp [GInt.toComplex, hc]

/-- A product through an inner dimension `k` smaller than `n` is never an exponential: the
    exponential is invertible, a product `V * W` with `V : n × k` has rank at most `k`. -/
theorem lowrank_ne_exp {k : Type} [Fintype k] [DecidableEq k]
    (hk : Fintype.card k < Fintype.card n) (V : Matrix n k ℂ) (W : Matrix k n ℂ)
    (E : Matrix n n ℂ) : V * W ≠ exp E := by
  intro h
  have hunit : IsUnit (exp E) := ⟨⟨exp E, exp (-E), exp_mul_exp_neg E, exp_neg_mul_exp E⟩, rfl⟩
  have h1 : (exp E).rank = Fintype.card n := Matrix.rank_of_isUnit _ hunit
  have h2 : (V * W).rank ≤ Fintype.card k :=
    le_trans (Matrix.rank_mul_le_left V W) (Matrix.rank_le_card_width V)
  rw [h, h1] at h2
  omega

end Ptn.C20
