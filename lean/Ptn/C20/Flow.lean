import Ptn.C20.ExpLemmas
import Mathlib.Analysis.SpecialFunctions.Exponential
import Mathlib.Analysis.Calculus.MeanValue
/-! Helper lemma for C20 (single Mathlib modules): the linear ODE `V' = G V` has the unique solution
    `V(t) = exp(t G) V(0)` (matrix form: the columns of `V` are simultaneous solution vectors). -/
namespace Ptn.C20
open Matrix NormedSpace

variable {n : Type} [Fintype n] [DecidableEq n]

theorem flow_exists (G : Matrix n n ℂ) (V0 : Matrix n n ℂ) (t : ℝ) :
    HasDerivAt (fun u : ℝ => exp (u • G) * V0) (G * (exp (t • G) * V0)) t := by
  let _ : NormedRing (Matrix n n ℂ) := Matrix.linftyOpNormedRing
  let _ : NormedAlgebra ℝ (Matrix n n ℂ) := Matrix.linftyOpNormedAlgebra
  have h := (hasDerivAt_exp_smul_const' (𝕂 := ℝ) G t).mul_const V0
  rw [mul_assoc] at h
  exact h

theorem flow_unique (G : Matrix n n ℂ) (V : ℝ → Matrix n n ℂ)
    (hV : ∀ t, HasDerivAt V (G * V t) t) (t : ℝ) : V t = exp (t • G) * V 0 := by
  let _ : NormedRing (Matrix n n ℂ) := Matrix.linftyOpNormedRing
  let _ : NormedAlgebra ℝ (Matrix n n ℂ) := Matrix.linftyOpNormedAlgebra
  have hV' : ∀ t, HasDerivAt V (G * V t) t := hV
  let W : ℝ → Matrix n n ℂ := fun u => exp (u • (-G)) * V u
  have hW : ∀ u, HasDerivAt W 0 u := by
    intro u
    have h1 := hasDerivAt_exp_smul_const (𝕂 := ℝ) (-G) u
    have h2 := h1.mul (hV' u)
    have : exp (u • -G) * -G * V u + exp (u • -G) * (G * V u) = 0 := by
      rw [mul_assoc, ← mul_add, neg_mul, neg_add_cancel, mul_zero]
    exact h2.congr_deriv this
  have hconst : W t = W 0 :=
    is_const_of_deriv_eq_zero (fun u => (hW u).differentiableAt) (fun u => (hW u).deriv) t 0
  have h0 : W 0 = V 0 := by simp [W]
  have hinv : exp (t • G) * exp (t • (-G)) = 1 := by
    rw [smul_neg]; exact exp_mul_exp_neg _
  calc V t = (exp (t • G) * exp (t • (-G))) * V t := by rw [hinv, one_mul]
    _ = exp (t • G) * W t := by simp [W, mul_assoc]
    _ = exp (t • G) * V 0 := by rw [hconst, h0]

omit [Fintype n] [DecidableEq n] in
/-- the model's exponent is the real multiple `t • (c • H)` of the generator of the ODE branch -/
theorem exponent_eq_real_smul (c : GInt) (H : Matrix n n ℂ) (t : ℝ) :
    exponent c H t = t • (c.toComplex • H) := by
  rw [exponent, ← Complex.coe_smul t (c.toComplex • H), smul_smul]

end Ptn.C20
