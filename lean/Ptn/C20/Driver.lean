import Ptn.C20.Model
/-! Line-protocol handler for the C20 model (core Lean only).

  route <MODE> <fwd 0|1> <n> <shape>   MODE = enum *value* (fastest, expm, …, RK45, …);
                                       shape = `2x3x1` or `scalar` for the 0-dimensional shape
      → `solve_ivp method=RK45 coeff=0,-1 time=span y0=complex shape=2x3`
      → `fast_exp_action arg=eigsh routine=eigsh:6 coeff=0,1 time=factor y0=asis shape=8`
      → `mismatch` when prod(shape) ≠ n (the matrix-vector product raises)
  fea <mode-string> <n>                → routine name for a raw `fast_exp_action` mode string
  scipy <MODE>                         → `1`/`0` (`is_scipy`)
  ravel <shape> <idx>                  → flat position (C order) or `invalid`
  unravel <shape> <k>                  → multi-index `i,j,…` (or `scalar`) or `invalid`
-/
namespace Ptn.C20

def parseNats (sep : String) (s : String) : Option (List Nat) :=
  if s = "scalar" then some [] else
  (s.splitOn sep).mapM (fun t => t.toNat?)

def showNats (sep : String) (l : List Nat) : String :=
  if l.isEmpty then "scalar" else sep.intercalate (l.map toString)

def Routine.show : Routine → String
  | .solveIvp m => s!"solve_ivp:{m}"
  | .expmDense => "expm"
  | .eigshTrunc k => s!"eigsh:{k}"
  | .expmMultiply => "expm_multiply"
  | .expmSparse => "expm_sparse"
  | .noAction => "none"
  | .notImplemented => "NotImplementedError"

def Route.show (r : Route) : String :=
  let head := match r.routine, r.feaArg with
    | .solveIvp m, _ => s!"solve_ivp method={m}"
    | rt, some a => s!"fast_exp_action arg={a} routine={rt.show}"
    | rt, none => s!"? routine={rt.show}"
  let tu := match r.timeUse with | .factor => "factor" | .span => "span"
  let y0 := if r.castComplex then "complex" else "asis"
  s!"{head} coeff={r.coeff.re},{r.coeff.im} time={tu} y0={y0} shape={showNats "x" r.outShape}"

def decideValid : (shape idx : List Nat) → Bool
  | [], [] => true
  | d :: ds, i :: is => i < d && decideValid ds is
  | _, _ => false

def handle (args : List String) : String :=
  match args with
  | ["route", m, f, n, sh] =>
    match Mode.ofValue? m, (if f = "1" then some true else if f = "0" then some false else none),
          n.toNat?, parseNats "x" sh with
    | some mode, some fwd, some n, some shape =>
      if size shape ≠ n then "mismatch" else (timeEvolve mode fwd n shape).show
    | _, _, _, _ => "bad-op"
  | ["fea", m, n] =>
    match n.toNat? with
    | some n => (fastExpAction m n).show
    | none => "bad-op"
  | ["scipy", m] =>
    match Mode.ofValue? m with
    | some mode => if mode.isScipy then "1" else "0"
    | none => "bad-op"
  | ["ravel", sh, ix] =>
    match parseNats "x" sh, parseNats "," ix with
    | some shape, some idx => if decideValid shape idx then toString (ravel shape idx) else "invalid"
    | _, _ => "bad-op"
  | ["unravel", sh, k] =>
    match parseNats "x" sh, k.toNat? with
    | some shape, some k => if k < size shape then showNats "," (unravel shape k) else "invalid"
    | _, _ => "bad-op"
  | _ => "bad-op"

end Ptn.C20
