import Ptn.C20.Model
/-! Line-protocol handler for the C20 model (core Lean only). -/
namespace Ptn.C20
def handle (args : List String) : String := "bad-op"
end Ptn.C20
