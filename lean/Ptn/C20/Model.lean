/-! Model for property C20 (core Lean only; no Mathlib). -/
namespace Ptn.C20
end Ptn.C20
