/-! Model for property C20 (core Lean only; no Mathlib).

  A line-by-line model of the *dispatch* of

    pytreenet/time_evolution/time_evolution.py : TimeEvoMode, time_evolve
    pytreenet/util/std_utils.py               : fast_exp_action

  The numerical routines themselves (scipy `expm`, `expm_multiply`, `eigsh`, sparse `expm`,
  `solve_ivp`) are NOT modelled: the model answers *which* routine is called, with which generator
  (`sign · i · H`), how the duration enters, and how the flat result is put back into the shape of
  `psi` (C order).  -/
namespace Ptn.C20

/-! ### `TimeEvoMode` -/

/-- The members of the Python enum `TimeEvoMode`, in declaration order. -/
inductive Mode
  | fastest | expm | eigsh | chebyshev | sparse | rk45 | rk23 | dop853 | bdf
  deriving DecidableEq, Repr

/-- All members (iteration order of the enum). -/
def Mode.all : List Mode :=
  [.fastest, .expm, .eigsh, .chebyshev, .sparse, .rk45, .rk23, .dop853, .bdf]

/-- `mode.value`: the string attached to the enum member. -/
def Mode.value : Mode → String
  | .fastest => "fastest"
  | .expm => "expm"
  | .eigsh => "eigsh"
  | .chebyshev => "chebyshev"
  | .sparse => "sparse"
  | .rk45 => "RK45"
  | .rk23 => "RK23"
  | .dop853 => "DOP853"
  | .bdf => "BDF"

/-- `TimeEvoMode(value)`: look a member up by its value. -/
def Mode.ofValue? (s : String) : Option Mode :=
  Mode.all.find? (fun m => m.value == s)

/-- `TimeEvoMode.fastest_equivalent()`. -/
def Mode.fastestEquivalent : Mode := .chebyshev

/-- The membership test `self in [RK45, RK23, DOP853, BDF]`. -/
def Mode.inScipyList (m : Mode) : Bool :=
  [Mode.rk45, Mode.rk23, Mode.dop853, Mode.bdf].contains m

/-- `TimeEvoMode.is_scipy`: `FASTEST` defers to its equivalent (which is not `FASTEST`, so the
    Python recursion has depth one), every other member is looked up in the list. -/
def Mode.isScipy (m : Mode) : Bool :=
  if m = .fastest then Mode.fastestEquivalent.inScipyList else m.inScipyList

/-! ### `fast_exp_action` -/

/-- Which external routine ends up computing the result. -/
inductive Routine
  /-- `solve_ivp(rhs, (0, t), y0.astype(complex), method=…).y[:,-1]` (last stored point) -/
  | solveIvp (method : String)
  /-- `scipy.linalg.expm(E) @ v` -/
  | expmDense
  /-- `w, v = eigsh(E, k=k)` then `v @ diag(exp w) @ pinv(v) @ vec` -/
  | eigshTrunc (k : Nat)
  /-- `expm_multiply(E, v, traceA=trace(E))` -/
  | expmMultiply
  /-- `csr_matrix`, sparse `expm`, `.dot`, `.toarray()` -/
  | expmSparse
  /-- mode `"none"`: the vector is returned unchanged -/
  | noAction
  /-- `raise NotImplementedError` -/
  | notImplemented
  deriving DecidableEq, Repr

/-- The routines whose *contract* is `exp(E) · v` (resp. the solution of `y' = G y` at `t`, which is
    `exp(tG) · y0`).  `eigsh` with `k` eigenpairs is not among them: it returns a matrix of rank
    at most `k` applied to the vector. -/
def Routine.exactByContract : Routine → Bool
  | .solveIvp _ | .expmDense | .expmMultiply | .expmSparse => true
  | .eigshTrunc _ | .noAction | .notImplemented => false

/-- `fast_exp_action(exponent, vector, mode)` as a function of the mode *string* and of
    `n = exponent.shape[0]`; the `if` cascade of the source in the source's order. -/
def fastExpAction (mode : String) (n : Nat) : Routine :=
  let mode := if mode == "fastest" then "chebyshev" else mode
  if mode == "expm" then .expmDense
  else if mode == "eigsh" then
    if n < 4 then .expmDense
    else .eigshTrunc (min (n - 2) 8)
  else if mode == "chebyshev" then .expmMultiply
  else if mode == "sparse" then .expmSparse
  else if mode == "none" then .noAction
  else .notImplemented

/-! ### `time_evolve` -/

/-- `sign = -2 * forward + 1` in Python integer arithmetic (`True = 1`, `False = 0`). -/
def sign (forward : Bool) : Int := -2 * (if forward then 1 else 0) + 1

/-- A Gaussian integer `re + im·i`: enough to hold the scalar in front of `H`. -/
structure GInt where
  re : Int
  im : Int
  deriving DecidableEq, Repr

def GInt.mul (a b : GInt) : GInt := ⟨a.re * b.re - a.im * b.im, a.re * b.im + a.im * b.re⟩
def GInt.neg (a : GInt) : GInt := ⟨-a.re, -a.im⟩
def GInt.ofInt (z : Int) : GInt := ⟨z, 0⟩
def GInt.I : GInt := ⟨0, 1⟩

/-- The scalar `c` of `rhs_matrix = sign * 1.0j * hamiltonian = c • H`. -/
def rhsCoeff (forward : Bool) : GInt := (GInt.ofInt (sign forward)).mul GInt.I

/-- How the duration enters. -/
inductive TimeUse
  /-- `exponent = rhs_matrix * time_difference`: the routine sees `t · c · H` -/
  | factor
  /-- `t_span = (0, t)`: the routine integrates `y' = c·H·y` from 0 to `t`; the last stored
      point is taken -/
  | span
  deriving DecidableEq, Repr

/-- A symbolic description of one call of `time_evolve`. -/
structure Route where
  /-- the routine that computes the flat result vector -/
  routine : Routine
  /-- the string handed to `fast_exp_action` (`none` in the `solve_ivp` branch) -/
  feaArg : Option String
  /-- the scalar in front of `H` in the generator -/
  coeff : GInt
  timeUse : TimeUse
  /-- the initial value is cast to a complex dtype before it is handed to the routine
      (`solve_ivp` integrates in the dtype of `y0`) -/
  castComplex : Bool
  /-- the result vector is reshaped (C order) to this shape -/
  outShape : List Nat
  deriving DecidableEq, Repr

/-- `time_evolve(psi, hamiltonian, t, forward, mode)` with `n = hamiltonian.shape[0]` and
    `shape = psi.shape`. -/
def timeEvolve (mode : Mode) (forward : Bool) (n : Nat) (shape : List Nat) : Route :=
  let coeff := rhsCoeff forward
  if mode.isScipy then
    { routine := .solveIvp mode.value, feaArg := none, coeff := coeff, timeUse := .span,
      castComplex := true, outShape := shape }
  else
    { routine := fastExpAction mode.value n, feaArg := some mode.value, coeff := coeff,
      timeUse := .factor, castComplex := false, outShape := shape }

/-! ### `flatten` / `reshape` in C (row-major) order -/

/-- number of elements of an array of this shape -/
def size (shape : List Nat) : Nat := shape.foldr (· * ·) 1

/-- `np.ravel_multi_index(idx, shape)`: position of the multi-index in `psi.flatten()`.
    (Last axis fastest.) -/
def ravel : List Nat → List Nat → Nat
  | _ :: ds, i :: is => i * size ds + ravel ds is
  | _, _ => 0

/-- `np.unravel_index(k, shape)`: the multi-index at which `np.reshape(vec, shape)` puts
    `vec[k]`. -/
def unravel : List Nat → Nat → List Nat
  | [], _ => []
  | _ :: ds, k => (k / size ds) :: unravel ds (k % size ds)

/-- `idx` is a valid multi-index of an array of shape `shape`. -/
def ValidIdx : List Nat → List Nat → Prop
  | [], [] => True
  | d :: ds, i :: is => i < d ∧ ValidIdx ds is
  | _, _ => False

/-- A dense tensor as a function of its multi-index. `flatten` and `reshape` of NumPy (C order): -/
def flatten {α : Type} (shape : List Nat) (t : List Nat → α) : Nat → α :=
  fun k => t (unravel shape k)

def reshape {α : Type} (shape : List Nat) (v : Nat → α) : List Nat → α :=
  fun idx => v (ravel shape idx)

/-- The value level of `time_evolve` relative to the routine: `psi.flatten()` goes through a map
    `U` on flat vectors (the action of the selected routine) and comes back in `psi.shape`. -/
def timeEvolveValue {α : Type} (shape : List Nat) (U : (Nat → α) → (Nat → α))
    (psi : List Nat → α) : List Nat → α :=
  reshape shape (U (flatten shape psi))

end Ptn.C20
