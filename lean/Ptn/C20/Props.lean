import Ptn.C20.Model
/-! Property theorems for C20. Only property theorems and non-vacuity examples live here. -/
namespace Ptn.C20
end Ptn.C20
