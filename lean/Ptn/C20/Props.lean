import Ptn.C20.Model
import Ptn.C20.Lemmas
import Ptn.C20.ExpLemmas
import Ptn.C20.Flow
/-! Property theorems for C20. Only property theorems and non-vacuity examples live here.

  The dispatch theorems are about the executable model `Ptn.C20.timeEvolve` / `fastExpAction`
  (tied to `/repo` by the correspondence stage); the analytic consequences are theorems about the
  matrix exponential over `ℂ` instantiated at the exponent `t · c · H` that the model hands to the
  selected routine.  What is NOT proved: that scipy's routines meet their contracts (validated
  numerically by the oracle). -/
namespace Ptn.C20
open Matrix NormedSpace

/-! ### Dispatch -/

/-- The enum values are pairwise distinct: looking a member up by its value returns the member.
    (This is what makes the string dispatch inside `fast_exp_action` well defined.) -/
theorem value_roundtrip (m : Mode) : Mode.ofValue? m.value = some m := by
  cases m <;> decide

/-- The complete routing table: for every mode, direction, dimension and shape exactly this
    routine is called. -/
theorem dispatch_spec (m : Mode) (f : Bool) (n : Nat) (shape : List Nat) :
    (timeEvolve m f n shape).routine =
      match m with
      | .rk45 => .solveIvp "RK45"
      | .rk23 => .solveIvp "RK23"
      | .dop853 => .solveIvp "DOP853"
      | .bdf => .solveIvp "BDF"
      | .fastest => .expmMultiply
      | .chebyshev => .expmMultiply
      | .expm => .expmDense
      | .sparse => .expmSparse
      | .eigsh => if n < 4 then .expmDense else .eigshTrunc (min (n - 2) 8) := by
  cases m <;> simp [timeEvolve, Mode.isScipy, Mode.inScipyList, Mode.fastestEquivalent,
    Mode.value, fastExpAction]

/-- Every mode is routed to a real routine (never to the `"none"` branch and never to
    `NotImplementedError`); the ODE branch is taken exactly by the four solver modes, which pass
    their own value as `method`; every other mode goes through `fast_exp_action` with its own
    value; `FASTEST` is routed like `CHEBYSHEV`. -/
theorem dispatch_total (m : Mode) (f : Bool) (n : Nat) (shape : List Nat) :
    let r := timeEvolve m f n shape
    r.routine ≠ .noAction ∧ r.routine ≠ .notImplemented ∧
    (m.isScipy = true ↔ r.routine = .solveIvp m.value) ∧
    (m.isScipy = true ↔ m ∈ [Mode.rk45, Mode.rk23, Mode.dop853, Mode.bdf]) ∧
    (m.isScipy = true → r.timeUse = .span ∧ r.feaArg = none ∧ r.castComplex = true) ∧
    (m.isScipy = false → r.timeUse = .factor ∧ r.feaArg = some m.value) ∧
    (timeEvolve .fastest f n shape).routine = (timeEvolve .chebyshev f n shape).routine := by
  cases m <;> simp [timeEvolve, Mode.isScipy, Mode.inScipyList, Mode.fastestEquivalent,
    Mode.value, fastExpAction]
  split <;> simp

/-- `FASTEST` takes exactly the `CHEBYSHEV` route: `expm_multiply` with `traceA`, through
    `fast_exp_action`, time as a factor — in `is_scipy` via `fastest_equivalent()`, in
    `fast_exp_action` via `"fastest" ↦ "chebyshev"`; only the string handed over differs. -/
theorem fastest_is_chebyshev_route (f : Bool) (n : Nat) (shape : List Nat) :
    (timeEvolve .fastest f n shape).routine = .expmMultiply ∧
    { timeEvolve .fastest f n shape with feaArg := some "chebyshev" } =
      timeEvolve .chebyshev f n shape := by
  constructor <;> simp [timeEvolve, Mode.isScipy, Mode.inScipyList, Mode.fastestEquivalent,
    Mode.value, fastExpAction]

/-- A mode string outside the six known ones raises `NotImplementedError`; `"none"` returns the
    vector unchanged (unreachable from `TimeEvoMode` by `dispatch_total`). -/
theorem fea_unknown_raises (mode : String) (n : Nat)
    (h : mode ∉ ["fastest", "expm", "eigsh", "chebyshev", "sparse", "none"]) :
    fastExpAction mode n = .notImplemented ∧ fastExpAction "none" n = .noAction := by
  simp only [List.mem_cons, List.not_mem_nil, or_false, not_or] at h
  obtain ⟨h1, h2, h3, h4, h5, h6⟩ := h
  simp [fastExpAction, h1, h2, h3, h4, h5, h6]

/-- Under the contracts of the external routines the selected routine computes `exp(E)·v` for
    every mode and dimension *except* `eigsh` with `n ≥ 4`. -/
theorem exact_routine_spec (m : Mode) (f : Bool) (n : Nat) (shape : List Nat) :
    (timeEvolve m f n shape).routine.exactByContract = true ↔ (m ≠ .eigsh ∨ n < 4) := by
  cases m <;> simp [timeEvolve, Mode.isScipy, Mode.inScipyList, Mode.fastestEquivalent,
    Mode.value, fastExpAction, Routine.exactByContract]
  by_cases h : n < 4
  · simp [h]
  · simp [h]

/-! ### Sign -/

/-- `forward ↦ −1 ↦ −i`, `backward ↦ +1 ↦ +i`; the scalar reaches the routine unchanged in both
    branches; reversing the direction negates it. -/
theorem sign_spec :
    sign true = -1 ∧ sign false = 1 ∧
    rhsCoeff true = ⟨0, -1⟩ ∧ rhsCoeff false = ⟨0, 1⟩ ∧
    (∀ m f n shape, (timeEvolve m f n shape).coeff = rhsCoeff f) ∧
    (∀ f, rhsCoeff (!f) = (rhsCoeff f).neg) := by
  refine ⟨by decide, by decide, by decide, by decide, ?_, by decide⟩
  intro m f n shape
  unfold timeEvolve
  split <;> rfl

/-- The complex number in front of `H` is `−i` forward and `+i` backward. -/
theorem sign_spec_complex :
    (rhsCoeff true).toComplex = -Complex.I ∧ (rhsCoeff false).toComplex = Complex.I := by
  simp [rhsCoeff, sign, GInt.mul, GInt.ofInt, GInt.I, GInt.toComplex]

/-! ### Shape -/

/-- The result has the shape of the input, and C-order `flatten` / `reshape` are mutually inverse:
    the entry of the result at a (valid) multi-index `idx` is the entry of the routine's flat
    output at `ravel shape idx`, the flat input at `k` is `psi` at `unravel shape k`, and with the
    identity in place of the routine `psi` comes back entry by entry. -/
theorem reshape_spec (m : Mode) (f : Bool) (n : Nat) (shape : List Nat) :
    (timeEvolve m f n shape).outShape = shape ∧
    (∀ idx, ValidIdx shape idx → ravel shape idx < size shape ∧
        unravel shape (ravel shape idx) = idx) ∧
    (∀ k, k < size shape → ValidIdx shape (unravel shape k) ∧
        ravel shape (unravel shape k) = k) ∧
    (∀ (α : Type) (psi : List Nat → α) idx, ValidIdx shape idx →
        timeEvolveValue shape id psi idx = psi idx) ∧
    (∀ (α : Type) (v : Nat → α) k, k < size shape →
        flatten shape (reshape shape v) k = v k) := by
  refine ⟨?_, ?_, ?_, ?_, ?_⟩
  · unfold timeEvolve; split <;> rfl
  · exact fun idx h => ⟨ravel_lt_size shape idx h, unravel_ravel shape idx h⟩
  · exact fun k h => ⟨valid_unravel shape k h, ravel_unravel shape k h⟩
  · intro α psi idx h
    simp [timeEvolveValue, reshape, flatten, unravel_ravel shape idx h]
  · intro α v k h
    simp [reshape, flatten, ravel_unravel shape k h]

/-! ### The `eigsh` branch (witness behind finding F-C20) -/

/-- Below dimension 4 the `eigsh` mode falls back to the dense exponential. -/
theorem eigsh_small_exact (f : Bool) (n : Nat) (shape : List Nat) (h : n < 4) :
    (timeEvolve .eigsh f n shape).routine = .expmDense := by
  simp [timeEvolve, Mode.isScipy, Mode.inScipyList, Mode.value, fastExpAction, h]

/-- From dimension 4 on the `eigsh` mode uses `k = min(n − 2, 8)` eigenpairs, and `2 ≤ k < n`:
    the matrix applied to the vector has rank at most `k < n`. -/
theorem eigsh_rank_deficient (f : Bool) (n : Nat) (shape : List Nat) (h : 4 ≤ n) :
    ∃ k, (timeEvolve .eigsh f n shape).routine = .eigshTrunc k ∧ k = min (n - 2) 8 ∧
      2 ≤ k ∧ k ≤ 8 ∧ k < n := by
  refine ⟨min (n - 2) 8, ?_, rfl, by omega, by omega, by omega⟩
  have : ¬ n < 4 := by omega
  simp [timeEvolve, Mode.isScipy, Mode.inScipyList, Mode.value, fastExpAction, this]

/-- Whatever `eigsh` returns: a matrix `V · W` with `V : n × k`, `k < n` (here
    `W = diag(exp w) · pinv(V)`) is never the propagator `exp(E)`, for any exponent `E` — the
    propagator is invertible.  So for `n ≥ 4` the `eigsh` route cannot satisfy the property on
    all vectors. -/
theorem eigsh_not_exact_witness (n k : Nat) (hk : k < n) (V : Matrix (Fin n) (Fin k) ℂ)
    (W : Matrix (Fin k) (Fin n) ℂ) (E : Matrix (Fin n) (Fin n) ℂ) :
    V * W ≠ exp E ∧ ∃ v : Fin n → ℂ, (V * W) *ᵥ v ≠ exp E *ᵥ v := by
  have hne : V * W ≠ exp E := lowrank_ne_exp (by simpa using hk) V W E
  refine ⟨hne, ?_⟩
  by_contra hall
  exact hne (Matrix.ext_iff_mulVec.mpr fun v => Classical.byContradiction fun hv => hall ⟨v, hv⟩)

/-! ### Consequences of the exponential's identities -/

section analytic
variable {ι : Type} [Fintype ι] [DecidableEq ι]

/-- Forward followed by backward evolution (and backward followed by forward) with the exact
    propagators of the model's exponents is the identity. -/
theorem forward_backward_id (H : Matrix ι ι ℂ) (t : ℝ) :
    exp (exponent (rhsCoeff false) H t) * exp (exponent (rhsCoeff true) H t) = 1 ∧
    exp (exponent (rhsCoeff true) H t) * exp (exponent (rhsCoeff false) H t) = 1 ∧
    ∀ v : ι → ℂ, exp (exponent (rhsCoeff false) H t) *ᵥ
        (exp (exponent (rhsCoeff true) H t) *ᵥ v) = v := by
  have hneg : exponent (rhsCoeff false) H t = -exponent (rhsCoeff true) H t := by
    have : rhsCoeff false = (rhsCoeff true).neg := by decide
    rw [this, exponent_neg]
  rw [hneg]
  refine ⟨exp_neg_mul_exp _, exp_mul_exp_neg _, fun v => ?_⟩
  rw [Matrix.mulVec_mulVec, exp_neg_mul_exp, Matrix.one_mulVec]

/-- A Hermitian Hamiltonian gives a unitary propagator in both directions, hence the Euclidean
    norm (its square `ψᴴψ`) of every vector is preserved. -/
theorem hermitian_norm_preserved (H : Matrix ι ι ℂ) (hH : Hᴴ = H) (t : ℝ) (f : Bool) :
    let U := exp (exponent (rhsCoeff f) H t)
    Uᴴ * U = 1 ∧ ∀ v : ι → ℂ, star (U *ᵥ v) ⬝ᵥ (U *ᵥ v) = star v ⬝ᵥ v := by
  have hc : (rhsCoeff f).re = 0 := by cases f <;> decide
  have hU := exp_unitary_of_skew _ (exponent_skew (rhsCoeff f) hc H hH t)
  exact ⟨hU, norm_sq_preserved _ hU⟩

/-- Zero duration: the propagator is the identity, the state comes back unchanged. -/
theorem zero_duration_id (H : Matrix ι ι ℂ) (f : Bool) :
    exp (exponent (rhsCoeff f) H 0) = 1 ∧
    ∀ v : ι → ℂ, exp (exponent (rhsCoeff f) H 0) *ᵥ v = v := by
  have : exponent (rhsCoeff f) H 0 = 0 := by simp [exponent]
  rw [this, NormedSpace.exp_zero]
  exact ⟨rfl, Matrix.one_mulVec⟩

omit [Fintype ι] [DecidableEq ι] in
/-- The exponent of the model is `∓ i t H`. -/
theorem exponent_spec (H : Matrix ι ι ℂ) (t : ℝ) :
    exponent (rhsCoeff true) H t = (-(Complex.I * t)) • H ∧
    exponent (rhsCoeff false) H t = (Complex.I * t) • H := by
  obtain ⟨h1, h2⟩ := sign_spec_complex
  unfold exponent
  rw [h1, h2]
  constructor <;> congr 1 <;> ring

/-- The ODE branch (`time=span`): `solve_ivp` integrates `y' = (c·H) y` from `0`.  In matrix form
    (the columns of `V` are simultaneous solution vectors): `u ↦ exp(u·c·H) V₀` solves the equation
    with `V(0) = V₀`, and every solution equals it — so the exact value at the end `t` of the span is
    `exp(exponent) V₀`, the same propagator the `fast_exp_action` branch (`time=factor`) applies. -/
theorem ode_branch_flow (H : Matrix ι ι ℂ) (f : Bool) :
    (∀ (V0 : Matrix ι ι ℂ) (u : ℝ),
      HasDerivAt (fun u : ℝ => exp (exponent (rhsCoeff f) H u) * V0)
        (((rhsCoeff f).toComplex • H) * (exp (exponent (rhsCoeff f) H u) * V0)) u) ∧
    (∀ V0 : Matrix ι ι ℂ, exp (exponent (rhsCoeff f) H 0) * V0 = V0) ∧
    (∀ V : ℝ → Matrix ι ι ℂ, (∀ u, HasDerivAt V (((rhsCoeff f).toComplex • H) * V u) u) →
      ∀ t, V t = exp (exponent (rhsCoeff f) H t) * V 0) := by
  refine ⟨?_, ?_, ?_⟩
  · intro V0 u
    have := flow_exists ((rhsCoeff f).toComplex • H) V0 u
    simpa only [exponent_eq_real_smul] using this
  · intro V0
    rw [(zero_duration_id H f).1, Matrix.one_mul]
  · intro V hV t
    rw [exponent_eq_real_smul]
    exact flow_unique _ V hV t

end analytic

/-! ### Non-vacuity: concrete instances -/

example : (timeEvolve .rk45 true 6 [2, 3]).routine = .solveIvp "RK45" := by decide
example : (timeEvolve .eigsh false 12 [12]).routine = .eigshTrunc 8 := by decide
example : (timeEvolve .eigsh false 5 [5, 1]).routine = .eigshTrunc 3 := by decide
example : (timeEvolve .eigsh true 3 [3]).routine = .expmDense := by decide
example : (timeEvolve .fastest true 4 [2, 2]).feaArg = some "fastest" := by decide
example : ValidIdx [2, 3, 1] [1, 2, 0] ∧ ravel [2, 3, 1] [1, 2, 0] = 5 ∧
    unravel [2, 3, 1] 5 = [1, 2, 0] := by
  refine ⟨?_, by decide, by decide⟩
  simp [ValidIdx]
example : ("Fastest" : String) ∉ ["fastest", "expm", "eigsh", "chebyshev", "sparse", "none"] := by
  decide
/-- a Hermitian matrix that is not real symmetric: the hypothesis of `hermitian_norm_preserved`
    is satisfiable non-trivially -/
example : (!![0, Complex.I; -Complex.I, 1] : Matrix (Fin 2) (Fin 2) ℂ)ᴴ =
    !![0, Complex.I; -Complex.I, 1] := by
  ext i j; fin_cases i <;> fin_cases j <;> simp [Matrix.conjTranspose_apply]

end Ptn.C20
