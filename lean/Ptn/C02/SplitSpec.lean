import Ptn.C02.ContractSpec
/-! Helper lemmas for C02, part 2: the two nodes built by `split_nodes` in closed form. -/
namespace Ptn.C02
open NodeS

theorem enumFrom_cons (x : Id) (l : List Id) (a : Nat) :
    TTN.enumFrom (x :: l) a = (x, a) :: TTN.enumFrom l (a + 1) := by
  simp only [TTN.enumFrom, List.zipIdx_cons, List.map_cons, Nat.zero_add]
  congr 1
  rw [List.zipIdx_succ]
  simp [List.map_map, Function.comp_def, Nat.add_assoc, Nat.add_comm 1 a]

theorem enumFrom_nil (a : Nat) : TTN.enumFrom [] a = [] := rfl

/-- Legs that already sit right behind the parent leg, in order: nothing moves. -/
theorem o2cs_prefix_block (n0 : NodeS) (K : List Id) (Xp Xc Xr : List Nat)
    (hperm : n0.perm = Xp ++ Xc ++ Xr) (hch : n0.children = [])
    (hXp : Xp.length = n0.nparents) (hnd : n0.perm.Nodup) (hXc : Xc.length = K.length) :
    n0.openLegsToChildren (TTN.enumFrom K Xp.length) = some { n0 with children := K } := by
  have := o2cs_two_blocks n0 K [] Xp Xc [] [] Xr (by simpa using hperm) hch hXp hnd hXc rfl
  simp only [enumFrom_nil, List.append_nil] at this
  rw [this]
  cases n0
  simp at hperm ⊢
  exact hperm.symm

theorem transposeT_of_map (T : Tensor) (perm : List Nat) (R : Tensor) (hlen : perm.length = T.length)
    (hnd : perm.Nodup) (hmap : perm.map (fun i => T[i]?) = R.map some) : transposeT T perm = some R := by
  unfold transposeT
  simp only [hlen, ne_eq, not_true_eq_false, if_false, hnd]
  exact mapM_eq_some_of_map _ _ _ hmap

theorem wfn_of_perm_range (perm shp : List Nat) (par : Option Id) (ch : List Id) (n : Nat)
    (hp : perm.Perm (List.range n)) (hs : shp.length = n)
    (hv : (if par.isSome then 1 else 0) + ch.length ≤ n) : WFN ⟨perm, shp, par, ch⟩ := by
  have hl : perm.length = n := by rw [hp.length_eq, List.length_range]
  refine ⟨?_, ?_, ?_⟩
  · simp only; rw [hl]; exact hp
  · simp only; rw [hs, hl]
  · simp only [nvirt, nparents, nchildren]; rw [hl]; exact hv

theorem nodeOfTensor_nvirt (T : Tensor) : (nodeOfTensor T).nvirt = 0 := by
  simp [nodeOfTensor, nvirt, nparents, nchildren]

/-! ### the in-node -/

/-- in keeps the parent: legs `(bond, parent, children…, open…)` ↦ `(parent, bond, children…, open…)`. -/
theorem in_node_closed_parent (T : Tensor) (inL outL : TTN.LegSpec) (outId p : Id) (r : Nat)
    (hp : inL.parentLeg = some p) (hroot : inL.isRoot = false)
    (hn : T.length = 1 + 1 + inL.childLegs.length + r) (hnd : (outId :: inL.childLegs).Nodup) :
    TTN.buildInNode T inL outL outId =
      some ⟨[1] ++ ([0] ++ List.range' 2 inL.childLegs.length) ++ List.range' (2 + inL.childLegs.length) r,
        shapeOf T, some p, outId :: inL.childLegs⟩ := by
  have hrange : List.range T.length =
      [0] ++ [1] ++ List.range' 2 inL.childLegs.length ++ List.range' (2 + inL.childLegs.length) r := by
    have := range_five 1 1 inL.childLegs.length r 0
    rw [hn]
    simpa using this
  have hstep1 : TTN.setInParentLeg (nodeOfTensor T) inL outId =
      some ⟨[1] ++ [0] ++ List.range' 2 inL.childLegs.length ++ List.range' (2 + inL.childLegs.length) r,
        shapeOf T, some p, []⟩ := by
    unfold TTN.setInParentLeg
    rw [hp]
    have := open_leg_to_parent_spec (nodeOfTensor T) p [] [0]
      (List.range' 2 inL.childLegs.length ++ List.range' (2 + inL.childLegs.length) r) 1 rfl
      (by simp only [nodeOfTensor]; rw [hrange]; simp) (by simp [nodeOfTensor, nchildren])
    rw [nodeOfTensor_nvirt] at this
    simp only [List.length_cons, List.length_nil, Nat.zero_add] at this
    show (nodeOfTensor T).openLegToParent p (some 1) = _
    rw [this]
    simp [nodeOfTensor]
  have hd : dupdate [(outId, 1)] (TTN.enumFrom inL.childLegs 2) = TTN.enumFrom (outId :: inL.childLegs) 1 := by
    rw [enumFrom_cons, dupdate_eq_append _ _ (by simpa [enumFrom_map_fst] using hnd)]
    rfl
  have hdict : TTN.findInChildren inL outL outId = some (TTN.enumFrom (outId :: inL.childLegs) 1) := by
    unfold TTN.findInChildren
    simp [hroot, hp, hd]
  unfold TTN.buildInNode
  simp only [hstep1, hdict, bind, Option.bind]
  have := o2cs_prefix_block
    ⟨[1] ++ [0] ++ List.range' 2 inL.childLegs.length ++ List.range' (2 + inL.childLegs.length) r,
      shapeOf T, some p, []⟩ (outId :: inL.childLegs) [1] ([0] ++ List.range' 2 inL.childLegs.length)
    (List.range' (2 + inL.childLegs.length) r) (by simp) rfl (by simp [nparents])
    (by
      have h1 : ([1] ++ [0] ++ List.range' 2 inL.childLegs.length ++ List.range' (2 + inL.childLegs.length) r).Perm
          (List.range T.length) := by
        rw [hrange]
        simpa using List.Perm.swap 0 1
          (List.range' 2 inL.childLegs.length ++ List.range' (2 + inL.childLegs.length) r)
      exact h1.symm.nodup List.nodup_range)
    (by simp)
  simp only [List.length_cons, List.length_nil, Nat.zero_add] at this
  rw [this]
  simp

/-- in becomes the root: legs `(bond, children…, open…)`, the out-node is the first child. -/
theorem in_node_closed_root (T : Tensor) (inL outL : TTN.LegSpec) (outId : Id) (r : Nat)
    (hp : inL.parentLeg = none) (hroot : inL.isRoot = true) (hop : outL.parentLeg = none)
    (hn : T.length = 1 + inL.childLegs.length + r) (hnd : (outId :: inL.childLegs).Nodup) :
    TTN.buildInNode T inL outL outId =
      some ⟨List.range T.length, shapeOf T, none, outId :: inL.childLegs⟩ := by
  have hrange : List.range T.length =
      [] ++ List.range' 0 (1 + inL.childLegs.length) ++ List.range' (1 + inL.childLegs.length) r := by
    have := range_five 0 (1 + inL.childLegs.length) r 0 0
    rw [hn]
    simpa using this
  have hstep1 : TTN.setInParentLeg (nodeOfTensor T) inL outId = some (nodeOfTensor T) := by
    unfold TTN.setInParentLeg
    simp [hp, hroot]
  have hd : dupdate [(outId, 0)] (TTN.enumFrom inL.childLegs 1) = TTN.enumFrom (outId :: inL.childLegs) 0 := by
    rw [enumFrom_cons, dupdate_eq_append _ _ (by simpa [enumFrom_map_fst] using hnd)]
    rfl
  have hdict : TTN.findInChildren inL outL outId = some (TTN.enumFrom (outId :: inL.childLegs) 0) := by
    unfold TTN.findInChildren
    simp [hroot, hop, hd]
  unfold TTN.buildInNode
  simp only [hstep1, hdict, bind, Option.bind]
  have := o2cs_prefix_block (nodeOfTensor T) (outId :: inL.childLegs) []
    (List.range' 0 (1 + inL.childLegs.length)) (List.range' (1 + inL.childLegs.length) r)
    (by simp only [nodeOfTensor]; exact hrange) rfl (by simp [nodeOfTensor, nparents])
    (by simp only [nodeOfTensor]; exact List.nodup_range) (by simp; omega)
  simp only [List.length_nil] at this
  rw [this]
  simp [nodeOfTensor]

/-- in becomes the child of out: legs `(bond = parent, children…, open…)` stay. -/
theorem in_node_closed_child (T : Tensor) (inL outL : TTN.LegSpec) (outId : Id) (r : Nat)
    (hp : inL.parentLeg = none) (hroot : inL.isRoot = false)
    (hn : T.length = 1 + inL.childLegs.length + r) (hnd : inL.childLegs.Nodup) :
    TTN.buildInNode T inL outL outId =
      some ⟨List.range T.length, shapeOf T, some outId, inL.childLegs⟩ := by
  have hrange : List.range T.length =
      [0] ++ List.range' 1 inL.childLegs.length ++ List.range' (1 + inL.childLegs.length) r := by
    have := range_five 1 inL.childLegs.length r 0 0
    rw [hn]
    simpa using this
  have hstep1 : TTN.setInParentLeg (nodeOfTensor T) inL outId =
      some ⟨List.range T.length, shapeOf T, some outId, []⟩ := by
    unfold TTN.setInParentLeg
    simp only [hp, hroot, Bool.not_false, if_true]
    have := open_leg_to_parent_spec (nodeOfTensor T) outId [] []
      (List.range' 1 inL.childLegs.length ++ List.range' (1 + inL.childLegs.length) r) 0 rfl
      (by simp only [nodeOfTensor]; rw [hrange]; simp) (by simp [nodeOfTensor, nchildren])
    rw [nodeOfTensor_nvirt] at this
    simp only [List.length_nil, Nat.zero_add] at this
    rw [this, hrange]
    simp [nodeOfTensor]
  have hd : dupdate [] (TTN.enumFrom inL.childLegs 1) = TTN.enumFrom inL.childLegs 1 := by
    rw [dupdate_eq_append _ _ (by simpa [enumFrom_map_fst] using hnd)]
    rfl
  have hdict : TTN.findInChildren inL outL outId = some (TTN.enumFrom inL.childLegs 1) := by
    unfold TTN.findInChildren
    simp [hroot, hp, hd]
  unfold TTN.buildInNode
  simp only [hstep1, hdict, bind, Option.bind]
  have := o2cs_prefix_block ⟨List.range T.length, shapeOf T, some outId, []⟩ inL.childLegs [0]
    (List.range' 1 inL.childLegs.length) (List.range' (1 + inL.childLegs.length) r)
    (by simp only; exact hrange) rfl (by simp [nparents]) (by simp only; exact List.nodup_range) (by simp)
  simp only [List.length_cons, List.length_nil, Nat.zero_add] at this
  rw [this]

/-! ### the out-node -/

/-- out becomes the child of in: legs `(children…, open…, bond)` ↦ `(bond = parent, children…, open…)`. -/
theorem out_node_closed_child (T : Tensor) (outL inL : TTN.LegSpec) (inId : Id) (r : Nat)
    (hp : outL.parentLeg = none) (hroot : outL.isRoot = false)
    (hin : inL.isRoot = true ∨ inL.parentLeg.isSome = true)
    (hn : T.length = outL.childLegs.length + r + 1) (hnd : outL.childLegs.Nodup) :
    TTN.buildOutNode T outL inL inId =
      some ⟨[outL.childLegs.length + r] ++ List.range' 0 outL.childLegs.length ++
              List.range' outL.childLegs.length r, shapeOf T, some inId, outL.childLegs⟩ := by
  have hrange : List.range T.length =
      List.range' 0 outL.childLegs.length ++ List.range' outL.childLegs.length r ++ [outL.childLegs.length + r] := by
    have := range_five outL.childLegs.length r 1 0 0
    rw [hn]
    simpa using this
  have hnl : (nodeOfTensor T).nlegs = outL.childLegs.length + r + 1 := by simp [nodeOfTensor, nlegs, hn]
  have hstep1 : TTN.setOutParentLeg (nodeOfTensor T) outL inId =
      some ⟨[outL.childLegs.length + r] ++ List.range' 0 outL.childLegs.length ++
              List.range' outL.childLegs.length r, shapeOf T, some inId, []⟩ := by
    unfold TTN.setOutParentLeg
    have h0 : ¬ (nodeOfTensor T).nlegs = 0 := by omega
    simp only [hp, hroot, Bool.not_false, if_true, h0, if_false]
    have := open_leg_to_parent_spec (nodeOfTensor T) inId []
      (List.range' 0 outL.childLegs.length ++ List.range' outL.childLegs.length r) []
      (outL.childLegs.length + r) rfl
      (by simp only [nodeOfTensor]; rw [hrange]; simp) (by simp [nodeOfTensor, nchildren])
    rw [nodeOfTensor_nvirt] at this
    have e : 0 + (List.range' 0 outL.childLegs.length ++ List.range' outL.childLegs.length r).length =
        (nodeOfTensor T).nlegs - 1 := by simp [hnl]
    rw [e] at this
    rw [this]
    simp [nodeOfTensor]
  have hd : dupdate [] (TTN.enumFrom outL.childLegs 1) = TTN.enumFrom outL.childLegs 1 := by
    rw [dupdate_eq_append _ _ (by simpa [enumFrom_map_fst] using hnd)]
    rfl
  have hdict : ∀ n1, TTN.findOutChildren outL inL n1 inId = some (TTN.enumFrom outL.childLegs 1) := by
    intro n1
    unfold TTN.findOutChildren
    rcases hin with h | h <;> simp [h, hp, hd]
  unfold TTN.buildOutNode
  simp only [hstep1, hdict, bind, Option.bind]
  have := o2cs_prefix_block
    ⟨[outL.childLegs.length + r] ++ List.range' 0 outL.childLegs.length ++ List.range' outL.childLegs.length r,
      shapeOf T, some inId, []⟩ outL.childLegs [outL.childLegs.length + r]
    (List.range' 0 outL.childLegs.length) (List.range' outL.childLegs.length r) rfl rfl (by simp [nparents])
    (by
      have h1 : ([outL.childLegs.length + r] ++ List.range' 0 outL.childLegs.length ++
          List.range' outL.childLegs.length r).Perm (List.range T.length) := by
        rw [hrange, List.append_assoc]
        exact List.perm_append_comm
      exact h1.symm.nodup List.nodup_range)
    (by simp)
  simp only [List.length_cons, List.length_nil, Nat.zero_add] at this
  rw [this]

/-- out keeps the parent: legs `(parent, children…, open…, bond)` ↦ `(parent, bond, children…, open…)`,
    the in-node is the first child. -/
theorem out_node_closed_parent (T : Tensor) (outL inL : TTN.LegSpec) (inId p : Id) (r : Nat)
    (hp : outL.parentLeg = some p) (hroot : outL.isRoot = false)
    (hin1 : inL.isRoot = false) (hin2 : inL.parentLeg = none)
    (hn : T.length = 1 + outL.childLegs.length + r + 1) (hnd : (inId :: outL.childLegs).Nodup) :
    TTN.buildOutNode T outL inL inId =
      some ⟨[0] ++ ([1 + outL.childLegs.length + r] ++ List.range' 1 outL.childLegs.length) ++
              (List.range' (1 + outL.childLegs.length) r ++ []), shapeOf T, some p, inId :: outL.childLegs⟩ := by
  have hrange : List.range T.length =
      [0] ++ List.range' 1 outL.childLegs.length ++ List.range' (1 + outL.childLegs.length) r ++
        [1 + outL.childLegs.length + r] ++ [] := by
    have := range_five 1 outL.childLegs.length r 1 0
    rw [hn]
    simpa using this
  have hstep1 : TTN.setOutParentLeg (nodeOfTensor T) outL inId =
      some ⟨List.range T.length, shapeOf T, some p, []⟩ := by
    unfold TTN.setOutParentLeg
    rw [hp]
    show (nodeOfTensor T).openLegToParent p (some 0) = _
    have := open_leg_to_parent_spec (nodeOfTensor T) p [] []
      (List.range' 1 outL.childLegs.length ++ List.range' (1 + outL.childLegs.length) r ++
        [1 + outL.childLegs.length + r]) 0 rfl
      (by simp only [nodeOfTensor]; rw [hrange]; simp) (by simp [nodeOfTensor, nchildren])
    rw [nodeOfTensor_nvirt] at this
    simp only [List.length_nil, Nat.zero_add] at this
    rw [this, hrange]
    simp [nodeOfTensor]
  have hd : dupdate [(inId, 1 + outL.childLegs.length + r)] (TTN.enumFrom outL.childLegs 1) =
      TTN.enumFrom [inId] (1 + outL.childLegs.length + r) ++ TTN.enumFrom outL.childLegs 1 := by
    rw [dupdate_eq_append _ _ (by simpa [enumFrom_map_fst] using hnd), enumFrom_cons, enumFrom_nil]
  have hdict : TTN.findOutChildren outL inL ⟨List.range T.length, shapeOf T, some p, []⟩ inId =
      some (TTN.enumFrom [inId] (1 + outL.childLegs.length + r) ++ TTN.enumFrom outL.childLegs 1) := by
    unfold TTN.findOutChildren
    have hl : (⟨List.range T.length, shapeOf T, some p, []⟩ : NodeS).nlegs = 1 + outL.childLegs.length + r + 1 := by
      simp [nlegs, hn]
    simp [hin1, hin2, hroot, hp, hl, hd]
  unfold TTN.buildOutNode
  simp only [hstep1, hdict, bind, Option.bind]
  have := o2cs_two_blocks_swapped ⟨List.range T.length, shapeOf T, some p, []⟩ outL.childLegs [inId]
    [0] (List.range' 1 outL.childLegs.length) (List.range' (1 + outL.childLegs.length) r)
    [1 + outL.childLegs.length + r] [] (by simp only; exact hrange) rfl (by simp [nparents])
    (by simp only; exact List.nodup_range) (by simp) (by simp)
  simp only [List.length_cons, List.length_nil, Nat.zero_add, List.length_range'] at this
  rw [this]
  simp

/-- out becomes the root: legs `(children…, open…, bond)` ↦ `(bond, children…, open…)`, the in-node is the
    first child. -/
theorem out_node_closed_root (T : Tensor) (outL inL : TTN.LegSpec) (inId : Id) (r : Nat)
    (hp : outL.parentLeg = none) (hroot : outL.isRoot = true)
    (hin1 : inL.isRoot = false) (hin2 : inL.parentLeg = none)
    (hn : T.length = outL.childLegs.length + r + 1) (hnd : (inId :: outL.childLegs).Nodup) :
    TTN.buildOutNode T outL inL inId =
      some ⟨[] ++ ([outL.childLegs.length + r] ++ List.range' 0 outL.childLegs.length) ++
              (List.range' outL.childLegs.length r ++ []), shapeOf T, none, inId :: outL.childLegs⟩ := by
  have hrange : List.range T.length =
      [] ++ List.range' 0 outL.childLegs.length ++ List.range' outL.childLegs.length r ++
        [outL.childLegs.length + r] ++ [] := by
    have := range_five 0 outL.childLegs.length r 1 0
    rw [hn]
    simpa using this
  have hstep1 : TTN.setOutParentLeg (nodeOfTensor T) outL inId = some (nodeOfTensor T) := by
    unfold TTN.setOutParentLeg
    simp [hp, hroot]
  have hd : dupdate [(inId, outL.childLegs.length + r)] (TTN.enumFrom outL.childLegs 0) =
      TTN.enumFrom [inId] (outL.childLegs.length + r) ++ TTN.enumFrom outL.childLegs 0 := by
    rw [dupdate_eq_append _ _ (by simpa [enumFrom_map_fst] using hnd), enumFrom_cons, enumFrom_nil]
  have hdict : TTN.findOutChildren outL inL (nodeOfTensor T) inId =
      some (TTN.enumFrom [inId] (outL.childLegs.length + r) ++ TTN.enumFrom outL.childLegs 0) := by
    unfold TTN.findOutChildren
    have hl : (nodeOfTensor T).nlegs = outL.childLegs.length + r + 1 := by simp [nodeOfTensor, nlegs, hn]
    simp [hin1, hin2, hroot, hl, hd]
  unfold TTN.buildOutNode
  simp only [hstep1, hdict, bind, Option.bind]
  have := o2cs_two_blocks_swapped (nodeOfTensor T) outL.childLegs [inId]
    [] (List.range' 0 outL.childLegs.length) (List.range' outL.childLegs.length r)
    [outL.childLegs.length + r] [] (by simp only [nodeOfTensor]; exact hrange) rfl (by simp [nodeOfTensor, nparents])
    (by simp only [nodeOfTensor]; exact List.nodup_range) (by simp) (by simp)
  simp only [List.length_nil, Nat.zero_add, List.length_range'] at this
  rw [this]
  simp [nodeOfTensor]

/-! ### the same with well-formedness of the node (no statement about the labels) -/

theorem in_node_parent_facts (T : Tensor) (inL outL : TTN.LegSpec) (outId p : Id) (r : Nat)
    (hp : inL.parentLeg = some p) (hroot : inL.isRoot = false)
    (hn : T.length = 1 + 1 + inL.childLegs.length + r) (hnd : (outId :: inL.childLegs).Nodup) :
    ∃ nn, TTN.buildInNode T inL outL outId = some nn ∧ WFN nn ∧ nn.shp = shapeOf T ∧
      nn.parent = some p ∧ nn.children = outId :: inL.childLegs := by
  have hc := in_node_closed_parent T inL outL outId p r hp hroot hn hnd
  have hperm : ([1] ++ ([0] ++ List.range' 2 inL.childLegs.length) ++ List.range' (2 + inL.childLegs.length) r).Perm
      (List.range T.length) := by
    have := range_five 1 1 inL.childLegs.length r 0
    rw [hn]
    simp only [Nat.add_zero] at this
    rw [this]
    simp only [Nat.reduceAdd]
    perm_blocks
  exact ⟨_, hc, wfn_of_perm_range _ _ _ _ _ hperm (by simp [shapeOf]) (by simp; omega), rfl, rfl, rfl⟩

theorem in_node_root_facts (T : Tensor) (inL outL : TTN.LegSpec) (outId : Id) (r : Nat)
    (hp : inL.parentLeg = none) (hroot : inL.isRoot = true) (hop : outL.parentLeg = none)
    (hn : T.length = 1 + inL.childLegs.length + r) (hnd : (outId :: inL.childLegs).Nodup) :
    ∃ nn, TTN.buildInNode T inL outL outId = some nn ∧ WFN nn ∧ nn.shp = shapeOf T ∧
      nn.parent = none ∧ nn.children = outId :: inL.childLegs := by
  have hc := in_node_closed_root T inL outL outId r hp hroot hop hn hnd
  exact ⟨_, hc, wfn_of_perm_range _ _ _ _ _ (List.Perm.refl _) (by simp [shapeOf]) (by simp; omega), rfl, rfl, rfl⟩

theorem in_node_child_facts (T : Tensor) (inL outL : TTN.LegSpec) (outId : Id) (r : Nat)
    (hp : inL.parentLeg = none) (hroot : inL.isRoot = false)
    (hn : T.length = 1 + inL.childLegs.length + r) (hnd : inL.childLegs.Nodup) :
    ∃ nn, TTN.buildInNode T inL outL outId = some nn ∧ WFN nn ∧ nn.shp = shapeOf T ∧
      nn.parent = some outId ∧ nn.children = inL.childLegs := by
  have hc := in_node_closed_child T inL outL outId r hp hroot hn hnd
  exact ⟨_, hc, wfn_of_perm_range _ _ _ _ _ (List.Perm.refl _) (by simp [shapeOf]) (by simp; omega), rfl, rfl, rfl⟩

theorem out_node_child_facts (T : Tensor) (outL inL : TTN.LegSpec) (inId : Id) (r : Nat)
    (hp : outL.parentLeg = none) (hroot : outL.isRoot = false)
    (hin : inL.isRoot = true ∨ inL.parentLeg.isSome = true)
    (hn : T.length = outL.childLegs.length + r + 1) (hnd : outL.childLegs.Nodup) :
    ∃ nn, TTN.buildOutNode T outL inL inId = some nn ∧ WFN nn ∧ nn.shp = shapeOf T ∧
      nn.parent = some inId ∧ nn.children = outL.childLegs := by
  have hc := out_node_closed_child T outL inL inId r hp hroot hin hn hnd
  have hperm : ([outL.childLegs.length + r] ++ List.range' 0 outL.childLegs.length ++
      List.range' outL.childLegs.length r).Perm (List.range T.length) := by
    have := range_five outL.childLegs.length r 1 0 0
    rw [hn]
    simp only [Nat.add_zero] at this
    rw [this]
    perm_blocks
  exact ⟨_, hc, wfn_of_perm_range _ _ _ _ _ hperm (by simp [shapeOf]) (by simp; omega), rfl, rfl, rfl⟩

theorem out_node_parent_facts (T : Tensor) (outL inL : TTN.LegSpec) (inId p : Id) (r : Nat)
    (hp : outL.parentLeg = some p) (hroot : outL.isRoot = false)
    (hin1 : inL.isRoot = false) (hin2 : inL.parentLeg = none)
    (hn : T.length = 1 + outL.childLegs.length + r + 1) (hnd : (inId :: outL.childLegs).Nodup) :
    ∃ nn, TTN.buildOutNode T outL inL inId = some nn ∧ WFN nn ∧ nn.shp = shapeOf T ∧
      nn.parent = some p ∧ nn.children = inId :: outL.childLegs := by
  have hc := out_node_closed_parent T outL inL inId p r hp hroot hin1 hin2 hn hnd
  have hperm : ([0] ++ ([1 + outL.childLegs.length + r] ++ List.range' 1 outL.childLegs.length) ++
      (List.range' (1 + outL.childLegs.length) r ++ [])).Perm (List.range T.length) := by
    have := range_five 1 outL.childLegs.length r 1 0
    rw [hn]
    simp only [Nat.add_zero] at this
    rw [this]
    perm_blocks
  exact ⟨_, hc, wfn_of_perm_range _ _ _ _ _ hperm (by simp [shapeOf]) (by simp; omega), rfl, rfl, rfl⟩

theorem out_node_root_facts (T : Tensor) (outL inL : TTN.LegSpec) (inId : Id) (r : Nat)
    (hp : outL.parentLeg = none) (hroot : outL.isRoot = true)
    (hin1 : inL.isRoot = false) (hin2 : inL.parentLeg = none)
    (hn : T.length = outL.childLegs.length + r + 1) (hnd : (inId :: outL.childLegs).Nodup) :
    ∃ nn, TTN.buildOutNode T outL inL inId = some nn ∧ WFN nn ∧ nn.shp = shapeOf T ∧
      nn.parent = none ∧ nn.children = inId :: outL.childLegs := by
  have hc := out_node_closed_root T outL inL inId r hp hroot hin1 hin2 hn hnd
  have hperm : ([] ++ ([outL.childLegs.length + r] ++ List.range' 0 outL.childLegs.length) ++
      (List.range' outL.childLegs.length r ++ [])).Perm (List.range T.length) := by
    have := range_five outL.childLegs.length r 1 0 0
    rw [hn]
    simp only [Nat.add_zero] at this
    rw [this]
    perm_blocks
  exact ⟨_, hc, wfn_of_perm_range _ _ _ _ _ hperm (by simp [shapeOf]) (by simp; omega), rfl, rfl, rfl⟩

end Ptn.C02
