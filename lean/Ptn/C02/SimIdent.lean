import Ptn.C02.SimOps
/-! `insert_identity` of the structural model is simulated by `identStep` on the bond between child and parent
(followed by the reordering of the two legs of the identity node into the order (parent, child)). -/
namespace Ptn.C02
open NodeS Ptn.Ein Ptn.C03

set_option linter.unusedSectionVars false
variable {R : Type} [CommSemiring R]

/-- the leg map after `insert_identity(cid, pid, new)` over the bond `p`: the child and the parent keep the labels of
their ends; `identStep` binds `p.1` to the fresh label `nxt` and `nxt + 1` to `p.2`, so the leg of the identity node
towards the child is `nxt` when `p.1` is the child's end and `nxt + 1` otherwise -/
def identG (cid pid new : Id) (nxt : Nat) (p : Nat × Nat) (g : LegMap) : LegMap := fun k x =>
  if k = new then
    (if x = cid then (if p.1 = g cid pid then nxt else nxt + 1) else (if p.1 = g cid pid then nxt + 1 else nxt))
  else if x = new then (if k = cid then g cid pid else g pid cid)
  else g k x

/-- the valued network after `insert_identity` -/
def simIdent (e : Label → Nat) (g : LegMap) (t1 : TTN) (v : VNet R) (cid pid new : Id) (p : Nat × Nat) : VNet R :=
  reLeg (identStep v p new) (simLegs e (identG cid pid new v.next p g) t1)

theorem ident_N {t t' : TTN} {cid pid new : Id} (h : t.WF) (hnew : t.N new = none)
    (hi : t.insertIdentity cid pid new = some t') (k : Id) (hk : k ≠ new) : t'.N k = none ↔ t.N k = none := by
  obtain ⟨w', C, P, hC, hP, hcp, hS, _, hT, hN, _⟩ := insert_identity_full h hnew hi
  have key : ∀ (s : TTN), s.WF → (s.N k = none ↔ dget s.tensors k = none) := by
    intro s hsw
    have := hsw.str.keys k
    simp only [TTN.S, TTN.hasT, dhas_eq_isSome, Option.isSome_map] at this
    cases h1 : s.N k <;> cases h2 : dget s.tensors k <;> simp [h1, h2] at this ⊢
  rw [key t' w', key t h, hT k hk]

theorem ident_sim_core (dim : Nat → Nat) (e : Label → Nat) {g : LegMap} {t t1 : TTN} {v : VNet R}
    {cid pid new : Id} {p : Nat × Nat}
    (h : t.WF) (hl : t.LWF) (hv : v.WF) (hs : RSim dim e g t v) (hnew : t.N new = none)
    (hi : t.insertIdentity cid pid new = some t1)
    (hp : p ∈ v.bonds) (hpab : p = (g cid pid, g pid cid) ∨ p = (g pid cid, g cid pid))
    (hdim : ∀ ax, t.Leg cid pid ax → dim v.next = ax.dim ∧ dim (v.next + 1) = ax.dim) :
    (new ∉ v.ids ∧ dim (v.next + 1) = dim p.1) ∧
    (∀ k ∈ (identStep v p new).ids,
      (simLegs e (identG cid pid new v.next p g) t1 k).Perm ((identStep v p new).legs k)) ∧
    RSim dim e (identG cid pid new v.next p g) t1 (simIdent e g t1 v cid pid new p) := by
  obtain ⟨ax, hax, cnew, conew, cby⟩ := ident_labels h hnew hi
  have hax' : t.Leg pid cid ax := hl.sym _ _ _ hax
  have hpnb : pid ∈ t.nbs cid := mem_nbs.2 ⟨ax, hax⟩
  have hcnb : cid ∈ t.nbs pid := mem_nbs.2 ⟨ax, hax'⟩
  have hcp : cid ≠ pid := nbs_ne h hpnb
  have hnewv : new ∉ v.ids := fun hm => (hs.ids new).1 hm hnew
  have hnode_ne : ∀ x, t.N x ≠ none → x ≠ new := fun x hx e' => hx (e' ▸ hnew)
  have hcn : cid ≠ new := hnode_ne cid (nbs_node hpnb)
  have hpn : pid ≠ new := hnode_ne pid (nbs_node hcnb)
  have hNnew : t1.N new ≠ none := by
    intro hn
    have := legPairs_none hn
    rw [cnew] at this
    simp at this
  have hgne : g cid pid ≠ g pid cid := fun e' => hcp (hs.g_eq hv hpnb hcnb e').1
  obtain ⟨hd1, hd2⟩ := hdim ax hax
  have hdimp : dim (v.next + 1) = dim p.1 := by
    rcases hpab with e' | e'
    · rw [e', hd2]; exact (hs.dimV cid pid ax hax).symm
    · rw [e', hd2]; exact (hs.dimV pid cid ax hax').symm
  -- the two orientations of the subdivided bond
  have hcase : (p = (g cid pid, g pid cid) ∧
        identG cid pid new v.next p g new cid = v.next ∧ identG cid pid new v.next p g new pid = v.next + 1) ∨
      (p = (g pid cid, g cid pid) ∧
        identG cid pid new v.next p g new cid = v.next + 1 ∧ identG cid pid new v.next p g new pid = v.next) := by
    rcases hpab with e' | e'
    · left
      refine ⟨e', ?_, ?_⟩
      · simp [identG, e']
      · simp [identG, e', Ne.symm hcp]
    · right
      refine ⟨e', ?_, ?_⟩
      · simp [identG, e', Ne.symm hgne]
      · simp [identG, e', Ne.symm hcp, Ne.symm hgne]
  have hgc : identG cid pid new v.next p g cid new = g cid pid := by simp [identG, hcn]
  have hgp : identG cid pid new v.next p g pid new = g pid cid := by simp [identG, hpn, Ne.symm hcp]
  have GC : ∀ k x, x ∈ t.nbs k → identG cid pid new v.next p g k (identRho cid pid new k x) = g k x := by
    intro k x hx
    have hkn : k ≠ new := hnode_ne k (nbs_node hx)
    have hxn : x ≠ new := hnode_ne x (nbs_node (nbs_symm h hx))
    by_cases h1 : k = cid ∧ x = pid
    · obtain ⟨rfl, rfl⟩ := h1
      have : identRho k x new k x = new := by simp [identRho]
      rw [this, hgc]
    · by_cases h2 : k = pid ∧ x = cid
      · obtain ⟨rfl, rfl⟩ := h2
        have : identRho x k new k x = new := by simp [identRho]
        rw [this, hgp]
      · have : identRho cid pid new k x = x := by simp [identRho, h1, h2]
        rw [this]
        simp [identG, hkn, hxn]
  have hnbs_new : t1.nbs new = [pid, cid] := by unfold TTN.nbs; rw [cnew]; rfl
  have hnbs_by : ∀ k, k ≠ new → t1.nbs k = (t.nbs k).map (identRho cid pid new k) := by
    intro k hk
    unfold TTN.nbs
    rw [(cby k hk).1, map_fst_map_rho]
  have hlegs_by : ∀ k, k ≠ new → simLegs e (identG cid pid new v.next p g) t1 k = simLegs e g t k := by
    intro k hk
    unfold simLegs
    rw [hnbs_by k hk, (cby k hk).2, List.map_map]
    congr 1
    apply List.map_congr_left
    intro x hx
    exact GC k x hx
  -- edges of the new tree
  have ECL : ∀ k' x', x' ∈ t1.nbs k' →
      (k' = new ∧ (x' = pid ∨ x' = cid)) ∨
      (k' ≠ new ∧ ∃ x, x ∈ t.nbs k' ∧ x' = identRho cid pid new k' x) := by
    intro k' x' hx'
    by_cases hk : k' = new
    · subst hk
      rw [hnbs_new] at hx'
      simp only [List.mem_cons, List.not_mem_nil, or_false] at hx'
      exact Or.inl ⟨rfl, hx'⟩
    · rw [hnbs_by k' hk, List.mem_map] at hx'
      obtain ⟨x, hx, e'⟩ := hx'
      exact Or.inr ⟨hk, x, hx, e'.symm⟩
  have hmem0 : ∀ q, q ∈ (identStep v p new).bonds ↔ (q ∈ v.bonds.erase p ∨ q = (p.1, v.next) ∨ q = (v.next + 1, p.2)) := by
    intro q
    simp [identStep, List.mem_append]
  -- the bonds of the two new edges
  have E1 : (g cid pid, identG cid pid new v.next p g new cid) ∈ (identStep v p new).bonds ∨
      (identG cid pid new v.next p g new cid, g cid pid) ∈ (identStep v p new).bonds := by
    rcases hcase with ⟨e', e1, _⟩ | ⟨e', e1, _⟩
    · left; rw [hmem0, e1, e']; exact Or.inr (Or.inl rfl)
    · right; rw [hmem0, e1, e']; exact Or.inr (Or.inr rfl)
  have E2 : (g pid cid, identG cid pid new v.next p g new pid) ∈ (identStep v p new).bonds ∨
      (identG cid pid new v.next p g new pid, g pid cid) ∈ (identStep v p new).bonds := by
    rcases hcase with ⟨e', _, e2⟩ | ⟨e', _, e2⟩
    · right; rw [hmem0, e2, e']; exact Or.inr (Or.inr rfl)
    · left; rw [hmem0, e2, e']; exact Or.inr (Or.inl rfl)
  have ne_p : ∀ k x, x ∈ t.nbs k → ¬ (k = cid ∧ x = pid) → ¬ (k = pid ∧ x = cid) →
      (g k x, g x k) ≠ p ∧ (g x k, g k x) ≠ p := by
    intro k x hx n1 n2
    constructor
    · intro e'
      rcases hpab with e'' | e''
      · rw [e''] at e'; simp only [Prod.mk.injEq] at e'
        exact n1 (hs.g_eq hv hx hpnb e'.1)
      · rw [e''] at e'; simp only [Prod.mk.injEq] at e'
        exact n2 (hs.g_eq hv hx hcnb e'.1)
    · intro e'
      rcases hpab with e'' | e''
      · rw [e''] at e'; simp only [Prod.mk.injEq] at e'
        exact n2 (hs.g_eq hv hx hcnb e'.2)
      · rw [e''] at e'; simp only [Prod.mk.injEq] at e'
        exact n1 (hs.g_eq hv hx hpnb e'.2)
  have hnew_c : new ∈ t1.nbs cid := by
    rw [hnbs_by cid hcn, List.mem_map]
    exact ⟨pid, hpnb, by simp [identRho]⟩
  have hnew_p : new ∈ t1.nbs pid := by
    rw [hnbs_by pid hpn, List.mem_map]
    exact ⟨cid, hcnb, by simp [identRho]⟩
  refine ⟨⟨hnewv, hdimp⟩, ?_, ?_⟩
  · intro k hk
    have hk' : k = new ∨ k ∈ v.ids := by simpa [identStep] using hk
    rcases hk' with rfl | hk'
    · have hl0 : (identStep v p k).legs k = [v.next, v.next + 1] := by simp [identStep]
      rw [hl0]
      unfold simLegs
      rw [hnbs_new, conew]
      simp only [List.map_cons, List.map_nil, List.append_nil]
      rcases hcase with ⟨_, e1, e2⟩ | ⟨_, e1, e2⟩
      · rw [e1, e2]; exact List.Perm.swap _ _ _
      · rw [e1, e2]
    · have hkn : k ≠ new := fun e' => hnewv (e' ▸ hk')
      have hl0 : (identStep v p new).legs k = v.legs k := by simp [identStep, hkn]
      rw [hl0, hlegs_by k hkn, hs.legs k hk']
  · have hidsv : ∀ k, k ∈ (simIdent e g t1 v cid pid new p).ids ↔ (k = new ∨ k ∈ v.ids) := by
      intro k; simp [simIdent, reLeg, identStep]
    have hbonds : (simIdent e g t1 v cid pid new p).bonds = (identStep v p new).bonds := rfl
    refine ⟨?_, fun k _ => rfl, ?_, ?_, ?_, ?_⟩
    · intro k
      rw [hidsv k]
      by_cases hk : k = new
      · subst hk; simp [hNnew]
      · rw [hs.ids k]
        simp only [hk, false_or, ne_eq]
        rw [not_iff_not]
        exact (ident_N h hnew hi k hk).symm
    · intro k' x' ax' hl'
      by_cases hk : k' = new
      · subst hk
        unfold TTN.Leg at hl'
        rw [cnew] at hl'
        simp only [List.mem_cons, Prod.mk.injEq, List.not_mem_nil, or_false] at hl'
        rcases hl' with ⟨rfl, rfl⟩ | ⟨rfl, rfl⟩
        · rcases hcase with ⟨_, _, e2⟩ | ⟨_, _, e2⟩ <;> rw [e2]
          · exact hd2
          · exact hd1
        · rcases hcase with ⟨_, e1, _⟩ | ⟨_, e1, _⟩ <;> rw [e1]
          · exact hd1
          · exact hd2
      · unfold TTN.Leg at hl'
        rw [(cby k' hk).1, List.mem_map] at hl'
        obtain ⟨⟨x, ax''⟩, hm, he⟩ := hl'
        simp only [Prod.mk.injEq] at he
        obtain ⟨he1, he2⟩ := he
        subst he2
        rw [← he1, GC k' x (mem_nbs.2 ⟨ax'', hm⟩)]
        exact hs.dimV k' x ax'' hm
    · intro k ax' hax''
      by_cases hk : k = new
      · subst hk
        rw [conew] at hax''
        simp at hax''
      · rw [(cby k hk).2] at hax''
        exact hs.dimO k ax' hax''
    · intro k' x' hx'
      rw [hbonds]
      rcases ECL k' x' hx' with ⟨rfl, rfl | rfl⟩ | ⟨hk, x, hx, rfl⟩
      · rw [hgp]; exact E2.symm
      · rw [hgc]; exact E1.symm
      · have hxn : x ≠ new := hnode_ne x (nbs_node (nbs_symm h hx))
        by_cases h1 : k' = cid ∧ x = pid
        · obtain ⟨rfl, rfl⟩ := h1
          have : identRho k' x new k' x = new := by simp [identRho]
          rw [this, hgc]; exact E1
        · by_cases h2 : k' = pid ∧ x = cid
          · obtain ⟨rfl, rfl⟩ := h2
            have : identRho x k' new k' x = new := by simp [identRho]
            rw [this, hgp]; exact E2
          · have e1 : identRho cid pid new k' x = x := by simp [identRho, h1, h2]
            rw [e1]
            have e2 : identG cid pid new v.next p g k' x = g k' x := by simp [identG, hk, hxn]
            have e3 : identG cid pid new v.next p g x k' = g x k' := by simp [identG, hk, hxn]
            rw [e2, e3]
            obtain ⟨q1, q2⟩ := ne_p k' x hx h1 h2
            rcases hs.bondsIn k' x hx with hb | hb
            · exact Or.inl ((hmem0 _).2 (Or.inl ((List.mem_erase_of_ne q1).2 hb)))
            · exact Or.inr ((hmem0 _).2 (Or.inl ((List.mem_erase_of_ne q2).2 hb)))
    · intro p' hp'
      rw [hbonds, hmem0] at hp'
      rcases hp' with hp' | hp' | hp'
      · obtain ⟨hne, hp''⟩ := ((bonds_nodup_of_pairLegs hv.bonds_nodup).mem_erase_iff).1 hp'
        obtain ⟨k, x, hx, rfl⟩ := hs.bondsOut p' hp''
        have hkn : k ≠ new := hnode_ne k (nbs_node hx)
        have hxn : x ≠ new := hnode_ne x (nbs_node (nbs_symm h hx))
        have n1 : ¬ (k = cid ∧ x = pid) := by
          rintro ⟨rfl, rfl⟩
          rcases hpab with e' | e'
          · exact hne e'.symm
          · rw [e'] at hp; exact bonds_no_swap hv.bonds_nodup hp'' hp
        have n2 : ¬ (k = pid ∧ x = cid) := by
          rintro ⟨rfl, rfl⟩
          rcases hpab with e' | e'
          · rw [e'] at hp; exact bonds_no_swap hv.bonds_nodup hp'' hp
          · exact hne e'.symm
        refine ⟨k, x, ?_, ?_⟩
        · rw [hnbs_by k hkn, List.mem_map]
          exact ⟨x, hx, by simp [identRho, n1, n2]⟩
        · simp [identG, hkn, hxn]
      · rcases hcase with ⟨e', e1, _⟩ | ⟨e', _, e2⟩
        · exact ⟨cid, new, hnew_c, by rw [hp', hgc, e1, e']⟩
        · exact ⟨pid, new, hnew_p, by rw [hp', hgp, e2, e']⟩
      · rcases hcase with ⟨e', _, e2⟩ | ⟨e', e1, _⟩
        · exact ⟨new, pid, by rw [hnbs_new]; simp, by rw [hp', hgp, e2, e']⟩
        · exact ⟨new, cid, by rw [hnbs_new]; simp, by rw [hp', hgc, e1, e']⟩

/-- **`insert_identity(child, parent, new)` of the structural model is simulated at the value level**: the bond `p`
between child and parent is in the binding record; `identStep` subdivides it by the identity matrix over a fresh pair
of labels (which must have the dimension of the bond); with the two legs of the identity node in the order
(parent, child) the result is related to the new state, well-formed, and has the same value. -/
theorem insert_identity_simulates (dim : Nat → Nat) (e : Label → Nat) {g : LegMap} {t t1 : TTN} {v : VNet R}
    {cid pid new : Id} (h : t.WF) (hl : t.LWF) (hv : v.WF) (hs : RSim dim e g t v) (hnew : t.N new = none)
    (hi : t.insertIdentity cid pid new = some t1)
    (hdim : ∀ ax, t.Leg cid pid ax → dim v.next = ax.dim ∧ dim (v.next + 1) = ax.dim) :
    ∃ p, p ∈ v.bonds ∧ (p = (g cid pid, g pid cid) ∨ p = (g pid cid, g cid pid)) ∧
      SRun dim v (simIdent e g t1 v cid pid new p) ∧
      RSim dim e (identG cid pid new v.next p g) t1 (simIdent e g t1 v cid pid new p) := by
  obtain ⟨ax, hax, _⟩ := ident_labels h hnew hi
  have hpnb : pid ∈ t.nbs cid := mem_nbs.2 ⟨ax, hax⟩
  have hp : ∃ p, p ∈ v.bonds ∧ (p = (g cid pid, g pid cid) ∨ p = (g pid cid, g cid pid)) := by
    rcases hs.bondsIn cid pid hpnb with hb | hb
    · exact ⟨_, hb, Or.inl rfl⟩
    · exact ⟨_, hb, Or.inr rfl⟩
  obtain ⟨p, hp, hpab⟩ := hp
  obtain ⟨⟨hnewv, hdimp⟩, hperm, hsim⟩ := ident_sim_core dim e h hl hv hs hnew hi hp hpab hdim
  exact ⟨p, hp, hpab, .cons (.base (.ident hp hnewv hdimp)) (.cons (.releg hperm) (.nil _)), hsim⟩

end Ptn.C02
