import Ptn.C02.SimSplit
/-! The remaining edits of the structural model and their value-level images: plain accesses and `replace_tensor` with
a permutation (nothing changes), `insert_identity` (`identStep` on the bond between child and parent),
`change_node_identifier` (`renameStep`). -/
namespace Ptn.C02
open NodeS Ptn.Ein Ptn.C03

set_option linter.unusedSectionVars false
variable {R : Type} [CommSemiring R]

/-! ### steps that change no leg -/

/-- a step of the structural model that keeps the set of nodes, every leg and every open axis keeps the relation -/
theorem RSim.of_same {dim : Nat → Nat} {e : Label → Nat} {g : LegMap} {t t1 : TTN} {v : VNet R}
    (hs : RSim dim e g t v) (hN : ∀ k, t1.N k = none ↔ t.N k = none)
    (hL : ∀ k, t1.legPairs k = t.legPairs k) (hO : ∀ k, t1.openAxes k = t.openAxes k) : RSim dim e g t1 v := by
  have hnbs : ∀ k, t1.nbs k = t.nbs k := fun k => by unfold TTN.nbs; rw [hL k]
  refine ⟨?_, ?_, ?_, ?_, ?_, ?_⟩
  · intro k; rw [hs.ids k, not_iff_not]; exact (hN k).symm
  · intro k hk
    rw [hs.legs k hk]; unfold simLegs; rw [hnbs k, hO k]
  · intro k x ax hl
    unfold TTN.Leg at hl; rw [hL k] at hl
    exact hs.dimV k x ax hl
  · intro k ax hax
    rw [hO k] at hax; exact hs.dimO k ax hax
  · intro k x hx
    rw [hnbs k] at hx; exact hs.bondsIn k x hx
  · intro p hp
    obtain ⟨k, x, hx, e'⟩ := hs.bondsOut p hp
    exact ⟨k, x, by rw [hnbs k]; exact hx, e'⟩

theorem access_N {t t1 : TTN} {id : Id} {T : Tensor} (ha : t.access id = some (t1, T)) (k : Id) :
    t1.N k = none ↔ t.N k = none := by
  obtain ⟨n, Ts, e1, _, _, ht1⟩ := access_eq ha
  have hn : t.N id = some n := e1
  subst ht1
  by_cases hk : k = id
  · subst hk; simp [TTN.N, dget_dset] at hn ⊢; rw [hn]; simp
  · simp [TTN.N, dget_dset, hk]

/-- **a plain access (`ttn.tensors[id]`: lazy transposition) is simulated by doing nothing** -/
theorem access_simulates (dim : Nat → Nat) (e : Label → Nat) {g : LegMap} {t t1 : TTN} {v : VNet R} {id : Id}
    {T : Tensor} (hs : RSim dim e g t v) (ha : t.access id = some (t1, T)) : RSim dim e g t1 v :=
  hs.of_same (access_N ha) (access_labels ha).2.2.1 (access_labels ha).2.2.2

theorem replaceTensor_N {t t' : TTN} {id : Id} {T : Tensor} {p : Option (List Nat)}
    (hs : t.replaceTensor id T p = some t') (k : Id) : t'.N k = none ↔ t.N k = none := by
  unfold TTN.replaceTensor at hs
  cases hn : dget t.nodes id with
  | none => simp [hn, bind, Option.bind] at hs
  | some node =>
    simp only [hn, bind, Option.bind] at hs
    cases hr : node.replaceTensor (shapeOf T) p with
    | none => simp [hr] at hs
    | some node' =>
      simp only [hr, Option.some.injEq] at hs
      subst hs
      by_cases hk : k = id
      · subst hk; simp [TTN.N, dget_dset, hn]
      · simp [TTN.N, dget_dset, hk]

theorem rtp_N {t t' : TTN} {id : Id} {p : Option (List Nat)} (hs : t.replaceTensorPermuted id p = some t') (k : Id) :
    t'.N k = none ↔ t.N k = none := by
  unfold TTN.replaceTensorPermuted at hs
  cases hl : t.logical id with
  | none => simp [hl, bind, Option.bind] at hs
  | some cur =>
    simp only [hl, bind, Option.bind] at hs
    cases p with
    | none => exact replaceTensor_N hs k
    | some q =>
      simp only at hs
      split at hs
      · simp at hs
      · split at hs
        · simp at hs
        · exact replaceTensor_N hs k

/-- **`replace_tensor(id, the same array with permuted axes, permutation)` is simulated by doing nothing**: no logical
axis moves (`replace_tensor_labels`), so the leg lists of the valued network are still in axis order -/
theorem replace_tensor_simulates (dim : Nat → Nat) (e : Label → Nat) {g : LegMap} {t t1 : TTN} {v : VNet R} {id : Id}
    {p : Option (List Nat)} (h : t.WF) (hs : RSim dim e g t v)
    (hp : ∀ q, p = some q → q.Perm (List.range q.length)) (hr : t.replaceTensorPermuted id p = some t1) :
    RSim dim e g t1 v :=
  hs.of_same (rtp_N hr) (fun k => (rtp_labels h hp hr k).2.1) (fun k => (rtp_labels h hp hr k).2.2)

/-! ### `change_node_identifier` -/

def renInv (old new : Id) (y : Id) : Id := if y = new then old else y

/-- the leg map after `change_node_identifier(new, old)` -/
def renG (old new : Id) (g : LegMap) : LegMap := fun k x => g (renInv old new k) (renInv old new x)

/-- the valued network after `change_node_identifier(new, old)` -/
def simRename (e : Label → Nat) (g : LegMap) (t1 : TTN) (v : VNet R) (old new : Id) : VNet R :=
  reLeg (renameStep v old new) (simLegs e (renG old new g) t1)

theorem rename_sim_core (dim : Nat → Nat) (e : Label → Nat) {g : LegMap} {t t1 : TTN} {v : VNet R} {new old : Id}
    (h : t.WF) (hv : v.WF) (hs : RSim dim e g t v) (hnew : new = old ∨ t.N new = none)
    (hr : t.changeNodeIdentifier new old = some t1) :
    (new = old ∨ new ∉ v.ids) ∧
    (∀ k ∈ (renameStep v old new).ids,
      (simLegs e (renG old new g) t1 k).Perm ((renameStep v old new).legs k)) ∧
    RSim dim e (renG old new g) t1 (simRename e g t1 v old new) := by
  obtain ⟨hold, cnew, conew, cgone, cby⟩ := rename_labels h hnew hr
  obtain ⟨X, Ts, L, hX, _, _, hNn, hNo, hbyN, _⟩ := rename_final h hnew hr
  have hnewv : new = old ∨ new ∉ v.ids := by
    rcases hnew with e' | e'
    · exact Or.inl e'
    · exact Or.inr (fun hm => (hs.ids new).1 hm e')
  have holdv : old ∈ v.ids := (hs.ids old).2 hold
  -- an existing node other than `old` is not `new`
  have fresh : ∀ x, t.N x ≠ none → x ≠ old → x ≠ new := by
    intro x hx hxo e'
    rcases hnew with e'' | e''
    · exact hxo (e'.trans e'')
    · rw [e'] at hx; exact hx e''
  have hinv : ∀ x, t.N x ≠ none → renInv old new (renRho old new x) = x := by
    intro x hx
    by_cases hxo : x = old
    · subst hxo; simp [renInv, renRho]
    · have := fresh x hx hxo
      simp [renInv, renRho, hxo, this]
  have GC : ∀ k x, x ∈ t.nbs k → renG old new g (renRho old new k) (renRho old new x) = g k x := by
    intro k x hx
    unfold renG
    rw [hinv k (nbs_node hx), hinv x (nbs_node (nbs_symm h hx))]
  have hbyN' : ∀ k, k ≠ new → k ≠ old → (t1.N k = none ↔ t.N k = none) := by
    intro k g1 g2
    obtain ⟨b1, b2⟩ := hbyN k g1 g2
    constructor
    · intro hn'
      cases hn : t.N k with
      | none => rfl
      | some n =>
        obtain ⟨n', q1, _⟩ := b2 n hn
        rw [q1] at hn'; simp at hn'
    · exact b1
  have ECL : ∀ k' x' ax, t1.Leg k' x' ax → ∃ k x, t.Leg k x ax ∧ k' = renRho old new k ∧ x' = renRho old new x := by
    intro k' x' ax hl
    by_cases hkn : k' = new
    · subst hkn
      unfold TTN.Leg at hl
      rw [cnew] at hl
      have hxo : x' ≠ old := fun e' => leg_ne h hl e'.symm
      exact ⟨old, x', hl, by simp [renRho], by simp [renRho, hxo]⟩
    · by_cases hko : k' = old
      · subst hko
        unfold TTN.Leg at hl
        rw [(cgone (Ne.symm hkn)).1] at hl
        simp at hl
      · unfold TTN.Leg at hl
        rw [(cby k' hkn hko).1, List.mem_map] at hl
        obtain ⟨⟨x, ax'⟩, hm, he⟩ := hl
        simp only [Prod.mk.injEq] at he
        obtain ⟨he1, he2⟩ := he
        subst he2
        exact ⟨k', x, hm, by simp [renRho, hko], he1.symm⟩
  have ECR : ∀ k x ax, t.Leg k x ax → t1.Leg (renRho old new k) (renRho old new x) ax := by
    intro k x ax hl
    by_cases hko : k = old
    · subst hko
      have hxo : x ≠ k := fun e' => leg_ne h hl e'.symm
      have e1 : renRho k new k = new := by simp [renRho]
      have e2 : renRho k new x = x := by simp [renRho, hxo]
      rw [e1, e2]
      unfold TTN.Leg
      rw [cnew]; exact hl
    · have hkn : k ≠ new := fresh k (leg_isNode hl) hko
      have e1 : renRho old new k = k := by simp [renRho, hko]
      rw [e1]
      unfold TTN.Leg
      rw [(cby k hkn hko).1, List.mem_map]
      exact ⟨(x, ax), hl, rfl⟩
  have hlegs : ∀ k, k ∈ v.ids → simLegs e (renG old new g) t1 (renRho old new k) = simLegs e g t k := by
    intro k hk
    have hkN : t.N k ≠ none := (hs.ids k).1 hk
    unfold simLegs
    by_cases hko : k = old
    · subst hko
      have e1 : renRho k new k = new := by simp [renRho]
      rw [e1]
      have : t1.nbs new = t.nbs k := by unfold TTN.nbs; rw [cnew]
      rw [this, conew]
      congr 1
      apply List.map_congr_left
      intro x hx
      have hxo : x ≠ k := fun e' => nbs_ne h hx e'.symm
      have := GC k x hx
      rw [e1] at this
      have e2 : renRho k new x = x := by simp [renRho, hxo]
      rw [e2] at this
      exact this
    · have hkn : k ≠ new := fresh k hkN hko
      have e1 : renRho old new k = k := by simp [renRho, hko]
      rw [e1]
      have : t1.nbs k = (t.nbs k).map (renRho old new) := by
        unfold TTN.nbs; rw [(cby k hkn hko).1, map_fst_map_rho]
      rw [this, (cby k hkn hko).2, List.map_map]
      congr 1
      apply List.map_congr_left
      intro x hx
      have := GC k x hx
      rw [e1] at this
      exact this
  refine ⟨hnewv, ?_, ?_⟩
  · intro k' hk'
    obtain ⟨k, hk, rfl⟩ := List.mem_map.1 (show k' ∈ v.ids.map (renRho old new) from hk')
    rw [hlegs k hk, (renameStep_legs hnewv hk).1, hs.legs k hk]
  · have hbonds : (simRename e g t1 v old new).bonds = v.bonds := rfl
    have hidsv : ∀ k, k ∈ (simRename e g t1 v old new).ids ↔ k ∈ v.ids.map (renRho old new) := fun k => Iff.rfl
    refine ⟨?_, fun k _ => rfl, ?_, ?_, ?_, ?_⟩
    · intro k'
      rw [hidsv k', List.mem_map]
      by_cases hkn : k' = new
      · subst hkn
        simp only [ne_eq, hNn, reduceCtorEq, not_false_eq_true, iff_true]
        exact ⟨old, holdv, by simp [renRho]⟩
      · by_cases hko : k' = old
        · subst hko
          rw [hNo (Ne.symm hkn)]
          simp only [ne_eq, not_true_eq_false, iff_false]
          rintro ⟨k, hk, e'⟩
          by_cases hkk : k = k'
          · subst hkk; simp [renRho] at e'; exact hkn e'.symm
          · simp [renRho, hkk] at e'
        · rw [ne_eq, hbyN' k' hkn hko, ← ne_eq, ← hs.ids k']
          constructor
          · rintro ⟨k, hk, e'⟩
            by_cases hkk : k = old
            · subst hkk; simp [renRho] at e'; exact absurd e'.symm hkn
            · simp [renRho, hkk] at e'
              rw [← e']; exact hk
          · intro hk
            exact ⟨k', hk, by simp [renRho, hko]⟩
    · intro k' x' ax hl
      obtain ⟨k, x, hl', rfl, rfl⟩ := ECL k' x' ax hl
      rw [GC k x (mem_nbs.2 ⟨ax, hl'⟩)]
      exact hs.dimV k x ax hl'
    · intro k ax hax
      by_cases hkn : k = new
      · subst hkn
        rw [conew] at hax
        exact hs.dimO old ax hax
      · by_cases hko : k = old
        · subst hko
          rw [(cgone (Ne.symm hkn)).2] at hax
          simp at hax
        · rw [(cby k hkn hko).2] at hax
          exact hs.dimO k ax hax
    · intro k' x' hx'
      obtain ⟨ax, hl⟩ := mem_nbs.1 hx'
      obtain ⟨k, x, hl', rfl, rfl⟩ := ECL k' x' ax hl
      have hx : x ∈ t.nbs k := mem_nbs.2 ⟨ax, hl'⟩
      rw [GC k x hx, GC x k (nbs_symm h hx), hbonds]
      exact hs.bondsIn k x hx
    · intro p' hp'
      rw [hbonds] at hp'
      obtain ⟨k, x, hx, rfl⟩ := hs.bondsOut p' hp'
      obtain ⟨ax, hl⟩ := mem_nbs.1 hx
      refine ⟨renRho old new k, renRho old new x, mem_nbs.2 ⟨ax, ECR k x ax hl⟩, ?_⟩
      rw [GC k x hx, GC x k (nbs_symm h hx)]

/-- **`change_node_identifier(new, old)` of the structural model is simulated by the renaming of the node** (`new` is
`old` or unused): a pure renaming, the value does not change. -/
theorem change_node_identifier_simulates (dim : Nat → Nat) (e : Label → Nat) {g : LegMap} {t t1 : TTN} {v : VNet R}
    {new old : Id} (h : t.WF) (hv : v.WF) (hs : RSim dim e g t v) (hnew : new = old ∨ t.N new = none)
    (hr : t.changeNodeIdentifier new old = some t1) :
    SRun dim v (simRename e g t1 v old new) ∧ RSim dim e (renG old new g) t1 (simRename e g t1 v old new) := by
  obtain ⟨hnewv, hperm, hsim⟩ := rename_sim_core dim e h hv hs hnew hr
  exact ⟨.cons (.rename hnewv) (.cons (.releg hperm) (.nil _)), hsim⟩

end Ptn.C02
