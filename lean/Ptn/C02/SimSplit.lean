import Ptn.C02.SimContract
/-! `split_nodes` of the structural model is simulated by `splitStep` — GIVEN an exact factorisation of the tensor of
the split node over the fresh bond (`SplitFact`: the contract of QR / untruncated SVD / `split_node_replace`) —
followed by a reordering of the legs of the two new nodes into the documented order. -/
namespace Ptn.C02
open NodeS Ptn.Ein Ptn.C03

set_option linter.unusedSectionVars false
variable {R : Type} [CommSemiring R]

/-- the leg map after `split_nodes`: the fresh bond gets the fresh pair of labels (`nxt` at the out-node, `nxt + 1` at
the in-node), every other leg of the split node goes with its label to the side that takes it, the other nodes keep
theirs (their reference to the split node now reads `outId` / `inId`) -/
def splitG (id outId inId : Id) (nxt : Nat) (g : LegMap) : LegMap := fun k x =>
  if k = outId then (if x = inId then nxt else g id x)
  else if k = inId then (if x = outId then nxt + 1 else g id x)
  else if x = outId ∨ x = inId then g k id else g k x

/-- the legs of the out-node except the new bond, in the order (parent, children, open) -/
def splitOutLegs (e : Label → Nat) (g : LegMap) (t1 : TTN) (id outId inId : Id) : List Nat :=
  ((t1.nbs outId).erase inId).map (g id) ++ (t1.openAxes outId).map (fun ax => e ax.lab)

/-- the legs of the in-node except the new bond, in the order (parent, children, open) -/
def splitInLegs (e : Label → Nat) (g : LegMap) (t1 : TTN) (id outId inId : Id) : List Nat :=
  ((t1.nbs inId).erase outId).map (g id) ++ (t1.openAxes inId).map (fun ax => e ax.lab)

/-- the valued network after `split_nodes`, for a given exact factorisation `F` -/
def simSplit (dim : Nat → Nat) (e : Label → Nat) (g : LegMap) (t1 : TTN) (v : VNet R) (id outId inId : Id)
    (F : SplitFact dim (v.tens id) (splitOutLegs e g t1 id outId inId) (splitInLegs e g t1 id outId inId)
      v.next (v.next + 1)) : VNet R :=
  reLeg (splitStep dim v id outId inId _ _ F) (simLegs e (splitG id outId inId v.next g) t1)

theorem split_sim_core (dim : Nat → Nat) (e : Label → Nat) {g : LegMap} {t t1 : TTN} {v : VNet R}
    {id : Id} {X : NodeS} {outL inL : TTN.LegSpec} {outId inId : Id} {bd : Nat}
    (h : t.WF) (hv : v.WF) (hs : RSim dim e g t v) (adm : SplitAdm t id X outL inL outId inId)
    (hsp : t.splitNodes id outL inL outId inId bd = some t1)
    (hdim : dim v.next = bd ∧ dim (v.next + 1) = bd)
    (F : SplitFact dim (v.tens id) (splitOutLegs e g t1 id outId inId) (splitInLegs e g t1 id outId inId)
      v.next (v.next + 1)) :
    SplitAdmV v id outId inId (splitOutLegs e g t1 id outId inId) (splitInLegs e g t1 id outId inId) ∧
    (∀ k ∈ (splitStep dim v id outId inId _ _ F).ids,
      (simLegs e (splitG id outId inId v.next g) t1 k).Perm ((splitStep dim v id outId inId _ _ F).legs k)) ∧
    RSim dim e (splitG id outId inId v.next g) t1 (simSplit dim e g t1 v id outId inId F) := by
  obtain ⟨a, b, aCh, bCh, L, hcfg, hab, hlogL, hpart, hdisj, ca, cb, hopO, hopI, hopen, cgone, cby⟩ :=
    split_labels h adm hsp
  obtain ⟨a', b', aCh', bCh', na, nb, _, _, hcfg', _, hNa, hNb, _, _, _, _, _, _, _, _, hidgone, hbyN, _, _, _, _⟩ :=
    split_final h adm hsp
  have h1 : t1.WF := split_nodes_wf_aux h adm hsp
  have hXN := adm.node
  have hSX : t.S id = some (X.parent, X.children) := TTN.S_eq hXN
  have hab' : (a = outId ∧ b = inId) ∨ (a = inId ∧ b = outId) := by
    rcases hcfg with ⟨e1, e2, _⟩ | ⟨e1, e2, _⟩
    · exact Or.inl ⟨e1, e2⟩
    · exact Or.inr ⟨e1, e2⟩
  have hoi : outId ≠ inId := by
    rcases hab' with ⟨e1, e2⟩ | ⟨e1, e2⟩
    · rw [← e1, ← e2]; exact hab
    · rw [← e1, ← e2]; exact hab.symm
  have hNo : t1.N outId ≠ none := by
    rcases hcfg' with ⟨e1, e2, _⟩ | ⟨e1, e2, _⟩
    · rw [← e1, hNa]; simp
    · rw [← e2, hNb]; simp
  have hNi : t1.N inId ≠ none := by
    rcases hcfg' with ⟨e1, e2, _⟩ | ⟨e1, e2, _⟩
    · rw [← e2, hNb]; simp
    · rw [← e1, hNa]; simp
  have hgone : id ≠ outId → id ≠ inId → t1.N id = none := by
    intro g1 g2
    rcases hcfg' with ⟨e1, e2, _⟩ | ⟨e1, e2, _⟩
    · exact hidgone (e1 ▸ g1) (e2 ▸ g2)
    · exact hidgone (e1 ▸ g2) (e2 ▸ g1)
  have hbyN' : ∀ k, k ≠ outId → k ≠ inId → k ≠ id → (t1.N k = none ↔ t.N k = none) := by
    intro k g1 g2 g3
    have hh : (t.N k = none → t1.N k = none) ∧ (∀ n, t.N k = some n → ∃ n', t1.N k = some n' ∧ SRel id a' b' aCh' k n n') := by
      rcases hcfg' with ⟨e1, e2, _⟩ | ⟨e1, e2, _⟩
      · exact hbyN k (e1 ▸ g1) (e2 ▸ g2) g3
      · exact hbyN k (e1 ▸ g2) (e2 ▸ g1) g3
    constructor
    · intro hn'
      cases hn : t.N k with
      | none => rfl
      | some n =>
        obtain ⟨n', q1, _⟩ := hh.2 n hn
        rw [q1] at hn'; simp at hn'
    · exact hh.1
  -- an existing node other than `id` is neither `outId` nor `inId`
  have fresh : ∀ x, t.N x ≠ none → x ≠ id → x ≠ outId ∧ x ≠ inId := by
    intro x hx hxid
    constructor
    · intro e'
      rcases adm.outFresh with e'' | e''
      · exact hxid (e'.trans e'')
      · rw [e'] at hx; exact hx e''
    · intro e'
      rcases adm.inFresh with e'' | e''
      · exact hxid (e'.trans e'')
      · rw [e'] at hx; exact hx e''
  have fresh_ab : ∀ x, t.N x ≠ none → x ≠ id → x ≠ a ∧ x ≠ b := by
    intro x hx hxid
    obtain ⟨f1, f2⟩ := fresh x hx hxid
    rcases hab' with ⟨e1, e2⟩ | ⟨e1, e2⟩
    · rw [e1, e2]; exact ⟨f1, f2⟩
    · rw [e1, e2]; exact ⟨f2, f1⟩
  have hpar_notb : ∀ x, X.parent = some x → x ∉ bCh := by
    intro x hp hm
    have hxX : x ∈ X.children := (hpart x).mpr (Or.inr hm)
    obtain ⟨cch, e2⟩ := h.str.down id _ _ x hSX hxX
    exact h.str.no_two_cycle (a := id) (b := x) (by rw [hSX, hp]) e2
  have hnbs_id : ∀ x, x ∈ t.nbs id ↔ (X.parent = some x ∨ x ∈ aCh ∨ x ∈ bCh) := by
    intro x
    rw [nbs_eq h hXN, mem_neighbours, hpart]
  have hidv : id ∈ v.ids := (hs.ids id).2 (by rw [hXN]; simp)
  -- the two new nodes: their neighbours apart from each other
  have hmem_a : ∀ x, x ∈ (t1.nbs a).erase b ↔ ((X.parent = some x ∨ x ∈ aCh) ∧ x ∈ t.nbs id) := by
    intro x
    rw [(nbs_nodup h1 a).mem_erase_iff, mem_nbs]
    constructor
    · rintro ⟨hne, ax, hl⟩
      rcases (ca x ax).1 hl with ⟨e', _⟩ | ⟨hx, hl'⟩
      · exact absurd e' hne
      · exact ⟨hx, mem_nbs.2 ⟨ax, hl'⟩⟩
    · rintro ⟨hx, hm⟩
      obtain ⟨ax, hl'⟩ := mem_nbs.1 hm
      have hxid : x ≠ id := fun e' => nbs_ne h hm e'.symm
      exact ⟨(fresh_ab x (nbs_node (nbs_symm h hm)) hxid).2, ax, (ca x ax).2 (Or.inr ⟨hx, hl'⟩)⟩
  have hmem_b : ∀ x, x ∈ (t1.nbs b).erase a ↔ (x ∈ bCh ∧ x ∈ t.nbs id) := by
    intro x
    rw [(nbs_nodup h1 b).mem_erase_iff, mem_nbs]
    constructor
    · rintro ⟨hne, ax, hl⟩
      rcases (cb x ax).1 hl with ⟨e', _⟩ | ⟨hx, hl'⟩
      · exact absurd e' hne
      · exact ⟨hx, mem_nbs.2 ⟨ax, hl'⟩⟩
    · rintro ⟨hx, hm⟩
      obtain ⟨ax, hl'⟩ := mem_nbs.1 hm
      have hxid : x ≠ id := fun e' => nbs_ne h hm e'.symm
      exact ⟨(fresh_ab x (nbs_node (nbs_symm h hm)) hxid).1, ax, (cb x ax).2 (Or.inr ⟨hx, hl'⟩)⟩
  have hb_in_a : b ∈ t1.nbs a := mem_nbs.2 ⟨_, (ca b _).2 (Or.inl ⟨rfl, rfl⟩)⟩
  have ha_in_b : a ∈ t1.nbs b := mem_nbs.2 ⟨_, (cb a _).2 (Or.inl ⟨rfl, rfl⟩)⟩
  have hin_out : inId ∈ t1.nbs outId := by
    rcases hab' with ⟨e1, e2⟩ | ⟨e1, e2⟩
    · rw [← e1, ← e2]; exact hb_in_a
    · rw [← e1, ← e2]; exact ha_in_b
  have hout_in : outId ∈ t1.nbs inId := nbs_symm h1 hin_out
  have hnbs_perm : ((t1.nbs outId).erase inId ++ (t1.nbs inId).erase outId).Perm (t.nbs id) := by
    have hab_perm : ((t1.nbs a).erase b ++ (t1.nbs b).erase a).Perm (t.nbs id) := by
      rw [List.perm_ext_iff_of_nodup _ (nbs_nodup h id)]
      · intro x
        rw [List.mem_append, hmem_a, hmem_b]
        constructor
        · rintro (⟨_, hm⟩ | ⟨_, hm⟩) <;> exact hm
        · intro hm
          rcases (hnbs_id x).1 hm with hx | hx | hx
          · exact Or.inl ⟨Or.inl hx, hm⟩
          · exact Or.inl ⟨Or.inr hx, hm⟩
          · exact Or.inr ⟨hx, hm⟩
      · rw [List.nodup_append]
        refine ⟨(nbs_nodup h1 a).erase _, (nbs_nodup h1 b).erase _, ?_⟩
        intro x hx y hy hxy
        subst hxy
        obtain ⟨hx1, _⟩ := (hmem_a x).1 hx
        obtain ⟨hy1, _⟩ := (hmem_b x).1 hy
        rcases hx1 with hx1 | hx1
        · exact hpar_notb x hx1 hy1
        · exact hdisj x hx1 hy1
    rcases hab' with ⟨e1, e2⟩ | ⟨e1, e2⟩
    · rw [← e1, ← e2]; exact hab_perm
    · rw [← e1, ← e2]; exact List.perm_append_comm.trans hab_perm
  -- value-level admissibility
  have admV : SplitAdmV v id outId inId (splitOutLegs e g t1 id outId inId) (splitInLegs e g t1 id outId inId) := by
    refine ⟨hidv, hoi, ?_, ?_, ?_⟩
    · rcases adm.outFresh with e' | e'
      · exact Or.inl e'
      · exact Or.inr (fun hm => (hs.ids outId).1 hm e')
    · rcases adm.inFresh with e' | e'
      · exact Or.inl e'
      · exact Or.inr (fun hm => (hs.ids inId).1 hm e')
    · rw [hs.legs id hidv]
      unfold splitOutLegs splitInLegs simLegs
      refine (perm4 _ _ _ _).trans ?_
      rw [← List.map_append, ← List.map_append]
      exact List.Perm.append (hnbs_perm.map _) (hopen.map _)
  -- the leg map on the renamed edges
  have hs_ab : ∀ (c : Prop) [Decidable c], (if c then b else a) = outId ∨ (if c then b else a) = inId := by
    intro c _
    by_cases hc : c
    · simp only [hc, if_true]
      rcases hab' with ⟨_, e2⟩ | ⟨_, e2⟩
      · exact Or.inr e2
      · exact Or.inl e2
    · simp only [hc, if_false]
      rcases hab' with ⟨e1, _⟩ | ⟨e1, _⟩
      · exact Or.inl e1
      · exact Or.inr e1
  have GC : ∀ k x, x ∈ t.nbs k →
      splitG id outId inId v.next g (splitRho id a b bCh x k) (splitRho id a b bCh k x) = g k x := by
    intro k x hx
    have hkx : k ≠ x := nbs_ne h hx
    have hxk := nbs_symm h hx
    by_cases hk : k = id
    · subst hk
      obtain ⟨f1, f2⟩ := fresh x (nbs_node hxk) (Ne.symm hkx)
      have e1 : splitRho k a b bCh k x = x := by simp [splitRho, Ne.symm hkx]
      have e2 : splitRho k a b bCh x k = if x ∈ bCh then b else a := by simp [splitRho]
      rw [e1, e2]
      rcases hs_ab (x ∈ bCh) with e3 | e3
      · rw [e3]; simp [splitG, f2]
      · rw [e3]; simp [splitG, Ne.symm hoi, f1]
    · obtain ⟨f1, f2⟩ := fresh k (nbs_node hx) hk
      have e2 : splitRho id a b bCh x k = k := by simp [splitRho, hk]
      rw [e2]
      by_cases hxid : x = id
      · subst hxid
        have e1 : splitRho x a b bCh k x = if k ∈ bCh then b else a := by simp [splitRho]
        rw [e1]
        rcases hs_ab (k ∈ bCh) with e3 | e3
        · rw [e3]; simp [splitG, f1, f2]
        · rw [e3]; simp [splitG, f1, f2]
      · obtain ⟨f3, f4⟩ := fresh x (nbs_node hxk) hxid
        have e1 : splitRho id a b bCh k x = x := by simp [splitRho, hxid]
        rw [e1]
        simp [splitG, f1, f2, f3, f4]
  -- edges of the new tree: the fresh bond, or an edge of the old tree
  have ECL : ∀ k' x' ax, t1.Leg k' x' ax →
      ((k' = a ∧ x' = b) ∨ (k' = b ∧ x' = a)) ∧ ax = ⟨t.nextLabel, bd⟩ ∨
      ∃ k x, t.Leg k x ax ∧ k' = splitRho id a b bCh x k ∧ x' = splitRho id a b bCh k x := by
    intro k' x' ax hl
    by_cases hka : k' = a
    · subst hka
      rcases (ca x' ax).1 hl with ⟨e1, e2⟩ | ⟨hx, hl'⟩
      · exact Or.inl ⟨Or.inl ⟨rfl, e1⟩, e2⟩
      · right
        have hxid : x' ≠ id := fun e' => leg_ne h hl' e'.symm
        have hxb : x' ∉ bCh := by
          rcases hx with hx | hx
          · exact hpar_notb x' hx
          · exact hdisj x' hx
        exact ⟨id, x', hl', by simp [splitRho, hxb], by simp [splitRho, hxid]⟩
    · by_cases hkb : k' = b
      · subst hkb
        rcases (cb x' ax).1 hl with ⟨e1, e2⟩ | ⟨hx, hl'⟩
        · exact Or.inl ⟨Or.inr ⟨rfl, e1⟩, e2⟩
        · right
          have hxid : x' ≠ id := fun e' => leg_ne h hl' e'.symm
          exact ⟨id, x', hl', by simp [splitRho, hx], by simp [splitRho, hxid]⟩
      · by_cases hkid : k' = id
        · subst hkid
          unfold TTN.Leg at hl
          rw [(cgone (fun e' => hka e') (fun e' => hkb e')).1] at hl
          simp at hl
        · right
          unfold TTN.Leg at hl
          rw [(cby k' hka hkb hkid).1, List.mem_map] at hl
          obtain ⟨⟨x, ax'⟩, hm, he⟩ := hl
          simp only [Prod.mk.injEq] at he
          obtain ⟨he1, he2⟩ := he
          subst he2
          exact ⟨k', x, hm, by simp [splitRho, hkid], he1.symm⟩
  have ECR : ∀ k x ax, t.Leg k x ax → t1.Leg (splitRho id a b bCh x k) (splitRho id a b bCh k x) ax := by
    intro k x ax hl
    have hkx : k ≠ x := leg_ne h hl
    by_cases hk : k = id
    · subst hk
      have e1 : splitRho k a b bCh k x = x := by simp [splitRho, Ne.symm hkx]
      rw [e1]
      have hxn := (hnbs_id x).1 (mem_nbs.2 ⟨ax, hl⟩)
      by_cases hxb : x ∈ bCh
      · have e2 : splitRho k a b bCh x k = b := by simp [splitRho, hxb]
        rw [e2]
        exact (cb x ax).2 (Or.inr ⟨hxb, hl⟩)
      · have e2 : splitRho k a b bCh x k = a := by simp [splitRho, hxb]
        rw [e2]
        refine (ca x ax).2 (Or.inr ⟨?_, hl⟩)
        rcases hxn with hx | hx | hx
        · exact Or.inl hx
        · exact Or.inr hx
        · exact absurd hx hxb
    · obtain ⟨f1, f2⟩ := fresh_ab k (leg_isNode hl) hk
      have e2 : splitRho id a b bCh x k = k := by simp [splitRho, hk]
      rw [e2]
      unfold TTN.Leg
      rw [(cby k f1 f2 hk).1, List.mem_map]
      exact ⟨(x, ax), hl, rfl⟩
  have hnbs_by : ∀ k, k ≠ outId → k ≠ inId → k ≠ id → t1.nbs k = (t.nbs k).map (splitRho id a b bCh k) := by
    intro k g1 g2 g3
    have hk : k ≠ a ∧ k ≠ b := by
      rcases hab' with ⟨e1, e2⟩ | ⟨e1, e2⟩
      · rw [e1, e2]; exact ⟨g1, g2⟩
      · rw [e1, e2]; exact ⟨g2, g1⟩
    unfold TTN.nbs
    rw [(cby k hk.1 hk.2 g3).1, map_fst_map_rho]
  have hopen_by : ∀ k, k ≠ outId → k ≠ inId → k ≠ id → t1.openAxes k = t.openAxes k := by
    intro k g1 g2 g3
    have hk : k ≠ a ∧ k ≠ b := by
      rcases hab' with ⟨e1, e2⟩ | ⟨e1, e2⟩
      · rw [e1, e2]; exact ⟨g1, g2⟩
      · rw [e1, e2]; exact ⟨g2, g1⟩
    exact (cby k hk.1 hk.2 g3).2
  have hlegs_by : ∀ k, k ≠ outId → k ≠ inId → k ≠ id →
      simLegs e (splitG id outId inId v.next g) t1 k = simLegs e g t k := by
    intro k g1 g2 g3
    unfold simLegs
    rw [hnbs_by k g1 g2 g3, hopen_by k g1 g2 g3, List.map_map]
    congr 1
    apply List.map_congr_left
    intro x hx
    have := GC k x hx
    have hk' : splitRho id a b bCh x k = k := by simp [splitRho, g3]
    rw [hk'] at this
    exact this
  -- the legs of the two new nodes
  have hlegs_out : (simLegs e (splitG id outId inId v.next g) t1 outId).Perm
      (splitOutLegs e g t1 id outId inId ++ [v.next]) := by
    unfold simLegs splitOutLegs
    have hp1 : ((t1.nbs outId).map (splitG id outId inId v.next g outId)).Perm
        (v.next :: ((t1.nbs outId).erase inId).map (g id)) := by
      have := (List.perm_cons_erase hin_out).map (splitG id outId inId v.next g outId)
      refine this.trans ?_
      rw [List.map_cons]
      have e1 : splitG id outId inId v.next g outId inId = v.next := by simp [splitG]
      rw [e1]
      refine List.Perm.cons _ (List.Perm.of_eq ?_)
      apply List.map_congr_left
      intro x hx
      have := ((nbs_nodup h1 outId).mem_erase_iff).1 hx
      simp [splitG, this.1]
    refine (List.Perm.append_right _ hp1).trans ?_
    rw [List.cons_append]
    exact (List.perm_append_singleton _ _).symm
  have hlegs_in : (simLegs e (splitG id outId inId v.next g) t1 inId).Perm
      ((v.next + 1) :: splitInLegs e g t1 id outId inId) := by
    unfold simLegs splitInLegs
    have hp1 : ((t1.nbs inId).map (splitG id outId inId v.next g inId)).Perm
        ((v.next + 1) :: ((t1.nbs inId).erase outId).map (g id)) := by
      have := (List.perm_cons_erase hout_in).map (splitG id outId inId v.next g inId)
      refine this.trans ?_
      rw [List.map_cons]
      have e1 : splitG id outId inId v.next g inId outId = v.next + 1 := by simp [splitG, Ne.symm hoi]
      rw [e1]
      refine List.Perm.cons _ (List.Perm.of_eq ?_)
      apply List.map_congr_left
      intro x hx
      have := ((nbs_nodup h1 inId).mem_erase_iff).1 hx
      simp [splitG, Ne.symm hoi, this.1]
    exact List.Perm.append_right _ hp1
  have hrest : ∀ k, k ∈ v.ids.erase id → k ∈ v.ids ∧ k ≠ id ∧ k ≠ outId ∧ k ≠ inId := by
    intro k hk
    exact ⟨((hv.ids_nodup.mem_erase_iff).1 hk).2, ((hv.ids_nodup.mem_erase_iff).1 hk).1,
      rest1_ne hv admV.hout hk, rest1_ne hv admV.hinn hk⟩
  refine ⟨admV, ?_, ?_⟩
  · intro k hk
    have hk' : k = outId ∨ k = inId ∨ k ∈ v.ids.erase id := by simpa [splitStep] using hk
    rcases hk' with rfl | rfl | hk'
    · have : (splitStep dim v id k inId _ _ F).legs k = splitOutLegs e g t1 id k inId ++ [v.next] := by
        simp [splitStep]
      rw [this]; exact hlegs_out
    · have : (splitStep dim v id outId k _ _ F).legs k = (v.next + 1) :: splitInLegs e g t1 id outId k := by
        simp [splitStep, Ne.symm hoi]
      rw [this]; exact hlegs_in
    · obtain ⟨g0, g3, g1, g2⟩ := hrest k hk'
      have : (splitStep dim v id outId inId _ _ F).legs k = v.legs k := by simp [splitStep, g1, g2]
      rw [this, hlegs_by k g1 g2 g3, hs.legs k g0]
  · have hbonds : (simSplit dim e g t1 v id outId inId F).bonds = v.bonds ++ [(v.next, v.next + 1)] := rfl
    have hidsv : ∀ k, k ∈ (simSplit dim e g t1 v id outId inId F).ids ↔
        (k = outId ∨ k = inId ∨ k ∈ v.ids.erase id) := by
      intro k; simp [simSplit, reLeg, splitStep]
    have gab : (splitG id outId inId v.next g outId inId = v.next) ∧
        (splitG id outId inId v.next g inId outId = v.next + 1) := by
      constructor
      · simp [splitG]
      · simp [splitG, Ne.symm hoi]
    refine ⟨?_, fun k _ => rfl, ?_, ?_, ?_, ?_⟩
    · intro k
      rw [hidsv k, hv.ids_nodup.mem_erase_iff]
      by_cases g1 : k = outId
      · subst g1; simp [hNo]
      · by_cases g2 : k = inId
        · subst g2; simp [hNi]
        · by_cases g3 : k = id
          · subst g3
            simp [g1, g2, hgone g1 g2]
          · rw [hs.ids k]
            simp only [g1, g2, g3, false_or, ne_eq, not_false_eq_true, true_and]
            rw [not_iff_not]
            exact (hbyN' k g1 g2 g3).symm
    · intro k' x' ax hl
      rcases ECL k' x' ax hl with ⟨hkx, hax⟩ | ⟨k, x, hl', rfl, rfl⟩
      · rw [hax]
        show dim _ = bd
        rcases hkx with ⟨e1, e2⟩ | ⟨e1, e2⟩ <;> rcases hab' with ⟨f1, f2⟩ | ⟨f1, f2⟩
        · rw [e1, e2, f1, f2, gab.1]; exact hdim.1
        · rw [e1, e2, f1, f2, gab.2]; exact hdim.2
        · rw [e1, e2, f1, f2, gab.2]; exact hdim.2
        · rw [e1, e2, f1, f2, gab.1]; exact hdim.1
      · rw [GC k x (mem_nbs.2 ⟨ax, hl'⟩)]
        exact hs.dimV k x ax hl'
    · intro k ax hax
      by_cases g1 : k = outId
      · subst g1
        exact hs.dimO id ax (hopen.mem_iff.1 (List.mem_append_left _ hax))
      · by_cases g2 : k = inId
        · subst g2
          exact hs.dimO id ax (hopen.mem_iff.1 (List.mem_append_right _ hax))
        · by_cases g3 : k = id
          · subst g3
            rw [openAxes_none (hgone g1 g2)] at hax
            simp at hax
          · rw [hopen_by k g1 g2 g3] at hax
            exact hs.dimO k ax hax
    · intro k' x' hx'
      obtain ⟨ax, hl⟩ := mem_nbs.1 hx'
      rw [hbonds]
      rcases ECL k' x' ax hl with ⟨hkx, _⟩ | ⟨k, x, hl', rfl, rfl⟩
      · have hcase : (k' = outId ∧ x' = inId) ∨ (k' = inId ∧ x' = outId) := by
          rcases hkx with ⟨e1, e2⟩ | ⟨e1, e2⟩ <;> rcases hab' with ⟨f1, f2⟩ | ⟨f1, f2⟩
          · exact Or.inl ⟨e1.trans f1, e2.trans f2⟩
          · exact Or.inr ⟨e1.trans f1, e2.trans f2⟩
          · exact Or.inr ⟨e1.trans f2, e2.trans f1⟩
          · exact Or.inl ⟨e1.trans f2, e2.trans f1⟩
        rcases hcase with ⟨e1, e2⟩ | ⟨e1, e2⟩
        · rw [e1, e2, gab.1, gab.2]
          exact Or.inl (List.mem_append_right _ (by simp))
        · rw [e1, e2, gab.1, gab.2]
          exact Or.inr (List.mem_append_right _ (by simp))
      · have hx : x ∈ t.nbs k := mem_nbs.2 ⟨ax, hl'⟩
        rw [GC k x hx, GC x k (nbs_symm h hx)]
        rcases hs.bondsIn k x hx with hb | hb
        · exact Or.inl (List.mem_append_left _ hb)
        · exact Or.inr (List.mem_append_left _ hb)
    · intro p' hp'
      rw [hbonds, List.mem_append] at hp'
      rcases hp' with hp' | hp'
      · obtain ⟨k, x, hx, rfl⟩ := hs.bondsOut p' hp'
        obtain ⟨ax, hl⟩ := mem_nbs.1 hx
        refine ⟨splitRho id a b bCh x k, splitRho id a b bCh k x, mem_nbs.2 ⟨ax, ECR k x ax hl⟩, ?_⟩
        rw [GC k x hx, GC x k (nbs_symm h hx)]
      · simp only [List.mem_cons, List.not_mem_nil, or_false] at hp'
        subst hp'
        exact ⟨outId, inId, hin_out, by rw [gab.1, gab.2]⟩

/-- **`split_nodes` of the structural model is simulated at the value level**, for every exact factorisation of the
tensor of the split node along the bipartition of its legs that the two leg specifications describe
(`splitOutLegs` / `splitInLegs`: the legs of the out- resp. in-node in the order (parent, children, open)), over the
fresh pair of labels; the dimension of the fresh labels is the new bond dimension.  `splitStep` with that
factorisation followed by putting the new bond where the structural model puts it (a permutation of the legs of the
two new nodes) gives a valued network related to the new state; it is still well-formed and has the same value. -/
theorem split_nodes_simulates (dim : Nat → Nat) (e : Label → Nat) {g : LegMap} {t t1 : TTN} {v : VNet R}
    {id : Id} {X : NodeS} {outL inL : TTN.LegSpec} {outId inId : Id} {bd : Nat}
    (h : t.WF) (hv : v.WF) (hs : RSim dim e g t v) (adm : SplitAdm t id X outL inL outId inId)
    (hsp : t.splitNodes id outL inL outId inId bd = some t1)
    (hdim : dim v.next = bd ∧ dim (v.next + 1) = bd)
    (F : SplitFact dim (v.tens id) (splitOutLegs e g t1 id outId inId) (splitInLegs e g t1 id outId inId)
      v.next (v.next + 1)) :
    SRun dim v (simSplit dim e g t1 v id outId inId F) ∧
    RSim dim e (splitG id outId inId v.next g) t1 (simSplit dim e g t1 v id outId inId F) := by
  obtain ⟨admV, hperm, hsim⟩ := split_sim_core dim e h hv hs adm hsp hdim F
  exact ⟨.cons (.base (.split admV F)) (.cons (.releg hperm) (.nil _)), hsim⟩

end Ptn.C02
