import Ptn.C02.SplitSpec
import Ptn.C02.Labels
/-! The two nodes built by `split_nodes`, with their logical leg order (used by the property theorems
`split_*_spec` and by the label-level description of `split_nodes`).  Core Lean only. -/
namespace Ptn.C02
open NodeS

theorem in_node_parent_logical (inL outL : TTN.LegSpec) (outId p : Id) (b a : Axis)
    (Ic Io : Tensor) (hp : inL.parentLeg = some p) (hroot : inL.isRoot = false)
    (hIc : Ic.length = inL.childLegs.length) (hnd : (outId :: inL.childLegs).Nodup) :
    ∃ nn, TTN.buildInNode (b :: a :: (Ic ++ Io)) inL outL outId = some nn ∧ WFN nn ∧
      nn.shp = shapeOf (b :: a :: (Ic ++ Io)) ∧ nn.parent = some p ∧ nn.children = outId :: inL.childLegs ∧
      transposeT (b :: a :: (Ic ++ Io)) nn.perm = some (a :: b :: (Ic ++ Io)) := by
  have hn : (b :: a :: (Ic ++ Io)).length = 1 + 1 + inL.childLegs.length + Io.length := by
    simp [hIc]; omega
  have hc := in_node_closed_parent (b :: a :: (Ic ++ Io)) inL outL outId p Io.length hp hroot hn hnd
  have hperm : ([1] ++ ([0] ++ List.range' 2 inL.childLegs.length) ++ List.range' (2 + inL.childLegs.length) Io.length).Perm
      (List.range (b :: a :: (Ic ++ Io)).length) := by
    have := range_five 1 1 inL.childLegs.length Io.length 0
    rw [hn]
    simp only [Nat.add_zero] at this
    rw [this]
    simpa using List.Perm.swap 0 1 (List.range' 2 inL.childLegs.length ++ List.range' (2 + inL.childLegs.length) Io.length)
  refine ⟨_, hc, ?_, rfl, rfl, rfl, ?_⟩
  · exact wfn_of_perm_range _ _ _ _ _ hperm (by simp [shapeOf]) (by simp; omega)
  · apply transposeT_of_map _ _ _ (by rw [hperm.length_eq, List.length_range]) (hperm.symm.nodup List.nodup_range)
    have r3 := map_getElem?_range'_gen [b, a] Ic Io
    have r4 := map_getElem?_range'_gen ([b, a] ++ Ic) Io []
    simp only [List.length_cons, List.length_nil, Nat.zero_add, List.append_nil, List.length_append] at r3 r4
    simp only [List.map_append, List.map_cons, List.map_nil]
    rw [← hIc]
    have e : [b, a] ++ Ic ++ Io = b :: a :: (Ic ++ Io) := by simp
    rw [e] at r3 r4
    rw [r3, r4]
    simp

theorem in_node_root_logical (inL outL : TTN.LegSpec) (outId : Id) (b : Axis) (Ic Io : Tensor)
    (hp : inL.parentLeg = none) (hroot : inL.isRoot = true) (hop : outL.parentLeg = none)
    (hIc : Ic.length = inL.childLegs.length) (hnd : (outId :: inL.childLegs).Nodup) :
    ∃ nn, TTN.buildInNode (b :: (Ic ++ Io)) inL outL outId = some nn ∧ WFN nn ∧
      nn.shp = shapeOf (b :: (Ic ++ Io)) ∧ nn.parent = none ∧ nn.children = outId :: inL.childLegs ∧
      transposeT (b :: (Ic ++ Io)) nn.perm = some (b :: (Ic ++ Io)) := by
  have hn : (b :: (Ic ++ Io)).length = 1 + inL.childLegs.length + Io.length := by simp [hIc]; omega
  have hc := in_node_closed_root (b :: (Ic ++ Io)) inL outL outId Io.length hp hroot hop hn hnd
  refine ⟨_, hc, ?_, rfl, rfl, rfl, ?_⟩
  · exact wfn_of_perm_range _ _ _ _ _ (List.Perm.refl _) (by simp [shapeOf]) (by simp [hIc] <;> omega)
  · exact transposeT_of_map _ _ _ (by simp) List.nodup_range (map_getElem?_range _)

theorem in_node_child_logical (inL outL : TTN.LegSpec) (outId : Id) (b : Axis) (Ic Io : Tensor)
    (hp : inL.parentLeg = none) (hroot : inL.isRoot = false)
    (hIc : Ic.length = inL.childLegs.length) (hnd : inL.childLegs.Nodup) :
    ∃ nn, TTN.buildInNode (b :: (Ic ++ Io)) inL outL outId = some nn ∧ WFN nn ∧
      nn.shp = shapeOf (b :: (Ic ++ Io)) ∧ nn.parent = some outId ∧ nn.children = inL.childLegs ∧
      transposeT (b :: (Ic ++ Io)) nn.perm = some (b :: (Ic ++ Io)) := by
  have hn : (b :: (Ic ++ Io)).length = 1 + inL.childLegs.length + Io.length := by simp [hIc]; omega
  have hc := in_node_closed_child (b :: (Ic ++ Io)) inL outL outId Io.length hp hroot hn hnd
  refine ⟨_, hc, ?_, rfl, rfl, rfl, ?_⟩
  · exact wfn_of_perm_range _ _ _ _ _ (List.Perm.refl _) (by simp [shapeOf]) (by simp [hIc] <;> omega)
  · exact transposeT_of_map _ _ _ (by simp) List.nodup_range (map_getElem?_range _)

theorem out_node_child_logical (outL inL : TTN.LegSpec) (inId : Id) (b : Axis) (Oc Oo : Tensor)
    (hp : outL.parentLeg = none) (hroot : outL.isRoot = false)
    (hin : inL.isRoot = true ∨ inL.parentLeg.isSome = true)
    (hOc : Oc.length = outL.childLegs.length) (hnd : outL.childLegs.Nodup) :
    ∃ nn, TTN.buildOutNode (Oc ++ Oo ++ [b]) outL inL inId = some nn ∧ WFN nn ∧
      nn.shp = shapeOf (Oc ++ Oo ++ [b]) ∧ nn.parent = some inId ∧ nn.children = outL.childLegs ∧
      transposeT (Oc ++ Oo ++ [b]) nn.perm = some (b :: (Oc ++ Oo)) := by
  have hn : (Oc ++ Oo ++ [b]).length = outL.childLegs.length + Oo.length + 1 := by simp [hOc] <;> omega
  have hc := out_node_closed_child (Oc ++ Oo ++ [b]) outL inL inId Oo.length hp hroot hin hn hnd
  have hperm : ([outL.childLegs.length + Oo.length] ++ List.range' 0 outL.childLegs.length ++
      List.range' outL.childLegs.length Oo.length).Perm (List.range (Oc ++ Oo ++ [b]).length) := by
    have := range_five outL.childLegs.length Oo.length 1 0 0
    rw [hn]
    simp only [Nat.add_zero] at this
    rw [this]
    perm_blocks
  refine ⟨_, hc, ?_, rfl, rfl, rfl, ?_⟩
  · exact wfn_of_perm_range _ _ _ _ _ hperm (by simp [shapeOf]) (by simp; omega)
  · apply transposeT_of_map _ _ _ (by rw [hperm.length_eq, List.length_range]) (hperm.symm.nodup List.nodup_range)
    obtain ⟨r1, r2, r3, -, -⟩ := five_blocks_read Oc Oo [b] [] []
    simp only [List.append_nil, List.length_cons, List.length_nil] at r1 r2 r3
    simp only [List.map_append, List.map_cons, List.map_nil]
    rw [← hOc, r1, r2]
    have hb : (Oc ++ Oo ++ [b])[Oc.length + Oo.length]? = some b := by simp
    rw [hb]
    simp

theorem out_node_parent_logical (outL inL : TTN.LegSpec) (inId p : Id) (b a : Axis)
    (Oc Oo : Tensor) (hp : outL.parentLeg = some p) (hroot : outL.isRoot = false)
    (hin1 : inL.isRoot = false) (hin2 : inL.parentLeg = none)
    (hOc : Oc.length = outL.childLegs.length) (hnd : (inId :: outL.childLegs).Nodup) :
    ∃ nn, TTN.buildOutNode (a :: (Oc ++ Oo) ++ [b]) outL inL inId = some nn ∧ WFN nn ∧
      nn.shp = shapeOf (a :: (Oc ++ Oo) ++ [b]) ∧ nn.parent = some p ∧ nn.children = inId :: outL.childLegs ∧
      transposeT (a :: (Oc ++ Oo) ++ [b]) nn.perm = some (a :: b :: (Oc ++ Oo)) := by
  have hn : (a :: (Oc ++ Oo) ++ [b]).length = 1 + outL.childLegs.length + Oo.length + 1 := by
    simp [hOc]; omega
  have hc := out_node_closed_parent (a :: (Oc ++ Oo) ++ [b]) outL inL inId p Oo.length hp hroot hin1 hin2 hn hnd
  have hperm : ([0] ++ ([1 + outL.childLegs.length + Oo.length] ++ List.range' 1 outL.childLegs.length) ++
      (List.range' (1 + outL.childLegs.length) Oo.length ++ [])).Perm
      (List.range (a :: (Oc ++ Oo) ++ [b]).length) := by
    have := range_five 1 outL.childLegs.length Oo.length 1 0
    rw [hn]
    simp only [Nat.add_zero] at this
    rw [this]
    perm_blocks
  refine ⟨_, hc, ?_, rfl, rfl, rfl, ?_⟩
  · exact wfn_of_perm_range _ _ _ _ _ hperm (by simp [shapeOf]) (by simp; omega)
  · apply transposeT_of_map _ _ _ (by rw [hperm.length_eq, List.length_range]) (hperm.symm.nodup List.nodup_range)
    obtain ⟨r1, r2, r3, r4, -⟩ := five_blocks_read [a] Oc Oo [b] []
    simp only [List.append_nil, List.length_cons, List.length_nil, Nat.zero_add] at r1 r2 r3 r4
    have e : [a] ++ Oc ++ Oo ++ [b] = a :: (Oc ++ Oo) ++ [b] := by simp
    rw [e] at r1 r2 r3 r4
    simp only [List.map_append, List.map_cons, List.map_nil]
    rw [← hOc, r2, r3]
    have h0 : (a :: (Oc ++ Oo) ++ [b])[0]? = some a := by simp
    have hb : (a :: (Oc ++ Oo) ++ [b])[1 + Oc.length + Oo.length]? = some b := by
      have := r4
      simpa using this
    rw [h0, hb]
    simp

theorem out_node_root_logical (outL inL : TTN.LegSpec) (inId : Id) (b : Axis) (Oc Oo : Tensor)
    (hp : outL.parentLeg = none) (hroot : outL.isRoot = true)
    (hin1 : inL.isRoot = false) (hin2 : inL.parentLeg = none)
    (hOc : Oc.length = outL.childLegs.length) (hnd : (inId :: outL.childLegs).Nodup) :
    ∃ nn, TTN.buildOutNode (Oc ++ Oo ++ [b]) outL inL inId = some nn ∧ WFN nn ∧
      nn.shp = shapeOf (Oc ++ Oo ++ [b]) ∧ nn.parent = none ∧ nn.children = inId :: outL.childLegs ∧
      transposeT (Oc ++ Oo ++ [b]) nn.perm = some (b :: (Oc ++ Oo)) := by
  have hn : (Oc ++ Oo ++ [b]).length = outL.childLegs.length + Oo.length + 1 := by simp [hOc] <;> omega
  have hc := out_node_closed_root (Oc ++ Oo ++ [b]) outL inL inId Oo.length hp hroot hin1 hin2 hn hnd
  have hperm : ([] ++ ([outL.childLegs.length + Oo.length] ++ List.range' 0 outL.childLegs.length) ++
      (List.range' outL.childLegs.length Oo.length ++ [])).Perm (List.range (Oc ++ Oo ++ [b]).length) := by
    have := range_five outL.childLegs.length Oo.length 1 0 0
    rw [hn]
    simp only [Nat.add_zero] at this
    rw [this]
    perm_blocks
  refine ⟨_, hc, ?_, rfl, rfl, rfl, ?_⟩
  · exact wfn_of_perm_range _ _ _ _ _ hperm (by simp [shapeOf]) (by simp; omega)
  · apply transposeT_of_map _ _ _ (by rw [hperm.length_eq, List.length_range]) (hperm.symm.nodup List.nodup_range)
    obtain ⟨r1, r2, r3, -, -⟩ := five_blocks_read Oc Oo [b] [] []
    simp only [List.append_nil, List.length_cons, List.length_nil] at r1 r2 r3
    simp only [List.map_append, List.map_cons, List.map_nil, List.nil_append]
    rw [← hOc, r1, r2]
    have hb : (Oc ++ Oo ++ [b])[Oc.length + Oo.length]? = some b := by simp
    rw [hb]
    simp

/-! ### reading legs by neighbour -/

/-- The axis of a node with logical axes `L` that leads to its neighbour `x`. -/
def legAx (n : NodeS) (L : Tensor) (x : Id) : Option Axis := (n.neighbourIndex x).bind (fun i => L[i]?)

/-- The axes at the given positions (positions out of range are skipped). -/
def pick (L : Tensor) (is : List Nat) : List Axis := is.filterMap (fun i => L[i]?)

theorem pick_of_mapM {L : Tensor} {is : List Nat} {R : Tensor} (h : is.mapM (fun i => L[i]?) = some R) :
    pick L is = R := by
  unfold pick
  induction is generalizing R with
  | nil => simp at h; subst h; rfl
  | cons a is ih =>
    rw [List.mapM_cons] at h
    cases ha : L[a]? with
    | none => simp [ha] at h
    | some x =>
      cases hr : is.mapM (fun i => L[i]?) with
      | none => simp [ha, hr] at h
      | some r =>
        simp [ha, hr] at h
        subst h
        simp [ha, ih hr]

theorem pick_range' (L : Tensor) (a n : Nat) (h : a + n ≤ L.length) :
    pick L (List.range' a n) = (L.drop a).take n := by
  unfold pick
  induction n generalizing a with
  | zero => simp
  | succ n ih =>
    have ha : a < L.length := by omega
    rw [List.range'_succ, List.filterMap_cons, List.getElem?_eq_getElem ha, ih (a + 1) (by omega)]
    simp only
    have : L.drop a = L[a] :: L.drop (a + 1) := by
      rw [List.drop_eq_getElem_cons ha]
    rw [this, List.take_succ_cons]

theorem mem_zip_idxOf {α : Type} (keys : List Id) (vals : List α) (hnd : keys.Nodup) (x : Id) (v : α) :
    (x, v) ∈ keys.zip vals ↔ (x ∈ keys ∧ vals[keys.idxOf x]? = some v) := by
  induction keys generalizing vals with
  | nil => simp
  | cons k keys ih =>
    rw [List.nodup_cons] at hnd
    cases vals with
    | nil => simp
    | cons w vals =>
      simp only [List.zip_cons_cons, List.mem_cons, Prod.mk.injEq]
      by_cases hx : x = k
      · subst hx
        simp only [true_and, true_or, List.idxOf_cons_self, List.getElem?_cons_zero, Option.some.injEq]
        constructor
        · rintro (e | hm)
          · exact e.symm
          · exact absurd (List.of_mem_zip hm).1 hnd.1
        · intro e; exact Or.inl e.symm
      · have hne : (k == x) = false := by simpa using fun e => hx e.symm
        simp only [hx, false_and, false_or, List.idxOf_cons, hne, cond_false, List.getElem?_cons_succ]
        exact ih vals hnd.2

/-- Reading a leg by neighbour: the pair `(x, ax)` is among the virtual legs iff the axis at the
    neighbour index of `x` is `ax`. -/
theorem mem_zip_neighbours {n : NodeS} (hnd : n.neighbours.Nodup) (L : Tensor) (x : Id) (ax : Axis) :
    (x, ax) ∈ n.neighbours.zip L ↔ legAx n L x = some ax := by
  rw [mem_zip_idxOf _ _ hnd]
  unfold legAx neighbourIndex
  unfold NodeS.neighbours at hnd ⊢
  cases hp : n.parent with
  | none =>
    simp only [Option.toList_none, List.nil_append, reduceCtorEq, if_false, nparents, hp,
      Option.isSome_none, Bool.false_eq_true, Nat.add_zero]
    by_cases hm : x ∈ n.children
    · simp [hm]
    · simp [hm]
  | some p =>
    rw [hp] at hnd
    simp only [Option.toList_some, List.singleton_append, List.nodup_cons] at hnd
    simp only [Option.toList_some, List.singleton_append, List.mem_cons, Option.some.injEq, nparents, hp,
      Option.isSome_some, if_true]
    by_cases hx : p = x
    · subst hx
      simp
    · have hne : (p == x) = false := by simpa using hx
      have hx' : ¬ x = p := fun e => hx e.symm
      simp only [hx, if_false, hx', false_or, List.idxOf_cons, hne, cond_false]
      by_cases hm : x ∈ n.children
      · simp [hm]
      · simp [hm]

theorem mapM_append_some {α β : Type} (f : α → Option β) (l1 l2 : List α) (r : List β)
    (h : (l1 ++ l2).mapM f = some r) :
    ∃ r1 r2, l1.mapM f = some r1 ∧ l2.mapM f = some r2 ∧ r = r1 ++ r2 := by
  induction l1 generalizing r with
  | nil => exact ⟨[], r, rfl, by simpa using h, rfl⟩
  | cons a l1 ih =>
    rw [List.cons_append, List.mapM_cons] at h
    cases ha : f a with
    | none => simp [ha] at h
    | some b =>
      cases hr : (l1 ++ l2).mapM f with
      | none => simp [ha, hr] at h
      | some r' =>
        simp [ha, hr] at h
        subst h
        obtain ⟨r1, r2, e1, e2, e3⟩ := ih r' hr
        refine ⟨b :: r1, r2, ?_, e2, by rw [e3]; rfl⟩
        rw [List.mapM_cons, ha, e1]
        rfl

/-- Children taken over by one side of a split: paired with the axes read at their neighbour indices. -/
theorem zip_children_axes {n : NodeS} {L : Tensor} {ch : List Id} {cvals : List Nat} {Ac : Tensor}
    (h1 : ch.mapM (fun c => n.neighbourIndex c) = some cvals)
    (h2 : cvals.mapM (fun i => L[i]?) = some Ac) :
    Ac.length = ch.length ∧ ∀ x ax, (x, ax) ∈ ch.zip Ac ↔ (x ∈ ch ∧ legAx n L x = some ax) := by
  induction ch generalizing cvals Ac with
  | nil =>
    simp at h1; subst h1; simp at h2; subst h2
    simp
  | cons c ch ih =>
    rw [List.mapM_cons] at h1
    cases hc : n.neighbourIndex c with
    | none => simp [hc] at h1
    | some i =>
      cases hr : ch.mapM (fun c => n.neighbourIndex c) with
      | none => simp [hc, hr] at h1
      | some cv =>
        simp [hc, hr] at h1
        subst h1
        rw [List.mapM_cons] at h2
        cases hi : L[i]? with
        | none => simp [hi] at h2
        | some a =>
          cases hr2 : cv.mapM (fun i => L[i]?) with
          | none => simp [hi, hr2] at h2
          | some A =>
            simp [hi, hr2] at h2
            subst h2
            obtain ⟨l, hmem⟩ := ih hr hr2
            refine ⟨by simp [l], ?_⟩
            intro x ax
            simp only [List.zip_cons_cons, List.mem_cons, Prod.mk.injEq, hmem]
            constructor
            · rintro (⟨e1, e2⟩ | ⟨h', h''⟩)
              · subst e1 e2
                exact ⟨Or.inl rfl, by simp [legAx, hc, hi]⟩
              · exact ⟨Or.inr h', h''⟩
            · rintro ⟨e | h', h''⟩
              · subst e
                left
                simp [legAx, hc, hi] at h''
                exact ⟨rfl, h''.symm⟩
              · exact Or.inr ⟨h', h''⟩

/-! ### the two nodes after a split, by neighbour -/

/-- The side of the split that keeps the parent (or the root role): logical legs
    `(parent?, bond, children…, open…)`. -/
theorem keeper_legs {X na : NodeS} {L Pa Ac Ao : Tensor} {b : Id} {aCh : List Id} {bond : Axis}
    (hpar : na.parent = X.parent) (hch : na.children = b :: aCh)
    (hPa : (X.parent = none ∧ Pa = []) ∨ (∃ p a0, X.parent = some p ∧ Pa = [a0] ∧ L[0]? = some a0))
    (hAcl : Ac.length = aCh.length)
    (hAc : ∀ x ax, (x, ax) ∈ aCh.zip Ac ↔ (x ∈ aCh ∧ legAx X L x = some ax))
    (hbp : X.parent ≠ some b) :
    (∀ x ax, (x, ax) ∈ na.neighbours.zip (Pa ++ bond :: (Ac ++ Ao)) ↔
      ((x = b ∧ ax = bond) ∨ ((X.parent = some x ∨ x ∈ aCh) ∧ legAx X L x = some ax))) ∧
    (Pa ++ bond :: (Ac ++ Ao)).drop na.nvirt = Ao := by
  have hzipc : aCh.zip (Ac ++ Ao) = aCh.zip Ac := by
    have : aCh.zip (Ac ++ Ao) = aCh.zip Ac ++ ([] : List Id).zip Ao := by
      rw [← List.zip_append hAcl.symm]; simp
    rw [this]; simp
  constructor
  · intro x ax
    unfold NodeS.neighbours
    rw [hpar, hch]
    rcases hPa with ⟨hp, rfl⟩ | ⟨p, a0, hp, rfl, h0⟩
    · simp only [hp, Option.toList_none, List.nil_append, List.zip_cons_cons, List.mem_cons, Prod.mk.injEq,
        hzipc, hAc, reduceCtorEq, false_or]
    · have hpb : p ≠ b := fun e => hbp (by rw [hp, e])
      simp only [hp, Option.toList_some, List.singleton_append, List.zip_cons_cons, List.mem_cons,
        Prod.mk.injEq, hzipc, hAc, Option.some.injEq]
      constructor
      · rintro (⟨e1, e2⟩ | ⟨e1, e2⟩ | h')
        · subst e1 e2
          right
          refine ⟨Or.inl rfl, ?_⟩
          simp [legAx, neighbourIndex, hp, h0]
        · exact Or.inl ⟨e1, e2⟩
        · exact Or.inr ⟨Or.inr h'.1, h'.2⟩
      · rintro (⟨e1, e2⟩ | ⟨e | e, h'⟩)
        · exact Or.inr (Or.inl ⟨e1, e2⟩)
        · subst e
          left
          simp [legAx, neighbourIndex, hp, h0] at h'
          exact ⟨rfl, h'.symm⟩
        · exact Or.inr (Or.inr ⟨e, h'⟩)
  · have hnv : na.nvirt = Pa.length + 1 + Ac.length := by
      rw [nvirt_def, nparents_congr hpar, hch]
      rcases hPa with ⟨hp, rfl⟩ | ⟨p, a0, hp, rfl, _⟩
      · simp [nparents, hp, hAcl]; omega
      · simp [nparents, hp, hAcl]; omega
    have e : Pa ++ bond :: (Ac ++ Ao) = (Pa ++ bond :: Ac) ++ Ao := by simp
    rw [e]
    exact List.drop_left' (by simp [hnv]; omega)

/-- The other side of the split (child of the keeper): logical legs `(bond, children…, open…)`. -/
theorem other_legs {X nb : NodeS} {L Bc Bo : Tensor} {a : Id} {bCh : List Id} {bond : Axis}
    (hpar : nb.parent = some a) (hch : nb.children = bCh)
    (hBcl : Bc.length = bCh.length)
    (hBc : ∀ x ax, (x, ax) ∈ bCh.zip Bc ↔ (x ∈ bCh ∧ legAx X L x = some ax)) :
    (∀ x ax, (x, ax) ∈ nb.neighbours.zip (bond :: (Bc ++ Bo)) ↔
      ((x = a ∧ ax = bond) ∨ (x ∈ bCh ∧ legAx X L x = some ax))) ∧
    (bond :: (Bc ++ Bo)).drop nb.nvirt = Bo := by
  have hzipc : bCh.zip (Bc ++ Bo) = bCh.zip Bc := by
    have : bCh.zip (Bc ++ Bo) = bCh.zip Bc ++ ([] : List Id).zip Bo := by
      rw [← List.zip_append hBcl.symm]; simp
    rw [this]; simp
  constructor
  · intro x ax
    unfold NodeS.neighbours
    rw [hpar, hch]
    simp only [Option.toList_some, List.singleton_append, List.zip_cons_cons, List.mem_cons, Prod.mk.injEq,
      hzipc, hBc]
  · have hnv : nb.nvirt = 1 + Bc.length := by
      rw [nvirt_def, nparents_some hpar, hch, hBcl]
    have e : bond :: (Bc ++ Bo) = ([bond] ++ Bc) ++ Bo := by simp
    rw [e]
    exact List.drop_left' (by simp [hnv]; omega)

/-! ### the arrays produced by the splitting function, in blocks -/

theorem splitAxes_blocks {L outT inT : Tensor} {outInt inInt : List Nat} {bond : Axis}
    (h : TTN.splitAxes L outInt inInt bond = some (outT, inT)) :
    ∃ Om Im, outInt.mapM (fun i => L[i]?) = some Om ∧ inInt.mapM (fun i => L[i]?) = some Im ∧
      outT = Om ++ [bond] ∧ inT = bond :: Im := by
  unfold TTN.splitAxes at h
  simp only [bind, Option.bind] at h
  split at h
  · simp at h
  · rename_i moved hm
    simp only [Option.some.injEq, Prod.mk.injEq] at h
    obtain ⟨rfl, rfl⟩ := h
    unfold transposeT at hm
    split at hm
    · simp at hm
    · split at hm
      · simp at hm
      · obtain ⟨Om, Im, e1, e2, e3⟩ := mapM_append_some _ _ _ _ hm
        have hl : Om.length = outInt.length := mapM_option_length _ _ _ e1
        refine ⟨Om, Im, e1, e2, ?_, ?_⟩
        · rw [e3, ← hl, List.take_left]
        · rw [e3, ← hl, List.drop_left]

theorem side_blocks {ls : TTN.LegSpec} {node : NodeS} {vals : List Nat} {L M : Tensor}
    (h : ls.findLegValues node = some vals) (hm : vals.mapM (fun i => L[i]?) = some M) :
    ∃ Pa Ac Ao cvals, M = Pa ++ Ac ++ Ao ∧
      ((ls.parentLeg = none ∧ Pa = []) ∨ (∃ p a0, ls.parentLeg = some p ∧ Pa = [a0] ∧ L[0]? = some a0)) ∧
      ls.childLegs.mapM (fun c => node.neighbourIndex c) = some cvals ∧
      cvals.mapM (fun i => L[i]?) = some Ac ∧ ls.openLegs.mapM (fun i => L[i]?) = some Ao := by
  unfold TTN.LegSpec.findLegValues at h
  simp only [bind, Option.bind] at h
  split at h
  · simp at h
  · rename_i cvals hc
    simp only [Option.some.injEq] at h
    subst h
    obtain ⟨M1, Ao, e1, e2, e3⟩ := mapM_append_some _ _ _ _ hm
    obtain ⟨Pa, Ac, f1, f2, f3⟩ := mapM_append_some _ _ _ _ e1
    refine ⟨Pa, Ac, Ao, cvals, by rw [e3, f3], ?_, hc, f2, e2⟩
    cases hp : ls.parentLeg with
    | none =>
      simp [hp] at f1
      exact Or.inl ⟨rfl, f1⟩
    | some p =>
      simp only [hp, Option.isSome_some, if_true, List.mapM_cons, List.mapM_nil] at f1
      cases h0 : L[0]? with
      | none => simp [h0] at f1
      | some a0 =>
        simp [h0] at f1
        exact Or.inr ⟨p, a0, rfl, f1.symm, rfl⟩

/-! ### the open legs named by the two specifications are exactly the open legs of the node -/

theorem nodup_bounded_length_le (l : List Nat) (n : Nat) (hnd : l.Nodup) (hb : ∀ x ∈ l, x < n) :
    l.length ≤ n := by
  induction n generalizing l with
  | zero =>
    cases l with
    | nil => simp
    | cons a l => exact absurd (hb a (by simp)) (by omega)
  | succ n ih =>
    have h1 : (l.erase n).Nodup := hnd.erase n
    have h2 : ∀ x ∈ l.erase n, x < n := by
      intro x hx
      have hx' := (List.Nodup.mem_erase_iff hnd).mp hx
      have := hb x hx'.2
      omega
    have h3 := ih (l.erase n) h1 h2
    have h4 : l.length ≤ (l.erase n).length + 1 := by
      rw [List.length_erase]
      split <;> omega
    omega

/-- Pigeonhole: `n` distinct numbers below `n` are all of them. -/
theorem nodup_bounded_perm_range (l : List Nat) (n : Nat) (hnd : l.Nodup) (hb : ∀ x ∈ l, x < n)
    (hl : l.length = n) : l.Perm (List.range n) := by
  induction n generalizing l with
  | zero =>
    have : l = [] := List.eq_nil_of_length_eq_zero hl
    subst this; exact List.Perm.refl _
  | succ n ih =>
    have hmem : n ∈ l := by
      apply Classical.byContradiction
      intro hnm
      have hb' : ∀ x ∈ l, x < n := by
        intro x hx
        have := hb x hx
        have : x ≠ n := fun e => hnm (e ▸ hx)
        omega
      have := nodup_bounded_length_le l n hnd hb'
      omega
    have h1 : (l.erase n).Nodup := hnd.erase n
    have h2 : ∀ x ∈ l.erase n, x < n := by
      intro x hx
      have hx' := (List.Nodup.mem_erase_iff hnd).mp hx
      have := hb x hx'.2
      omega
    have h3 : (l.erase n).length = n := by
      rw [List.length_erase_of_mem hmem, hl]; rfl
    have h4 := ih (l.erase n) h1 h2 h3
    have h5 : l.Perm (n :: l.erase n) := List.perm_cons_erase hmem
    rw [List.range_succ]
    exact h5.trans ((List.Perm.cons n h4).trans (List.perm_append_singleton n (List.range n)).symm)

theorem mapM_getElem?_bound {L : Tensor} {l : List Nat} {r : Tensor} (h : l.mapM (fun i => L[i]?) = some r) :
    ∀ i ∈ l, i < L.length := by
  induction l generalizing r with
  | nil => simp
  | cons a l ih =>
    rw [List.mapM_cons] at h
    cases ha : L[a]? with
    | none => simp [ha] at h
    | some x =>
      cases hr : l.mapM (fun i => L[i]?) with
      | none => simp [ha, hr] at h
      | some r' =>
        intro i hi
        rcases List.mem_cons.mp hi with rfl | hm
        · exact (List.getElem?_eq_some_iff.mp ha).1
        · exact ih hr i hm

theorem mapM_neighbourIndex_children {X : NodeS} (hpc : ∀ c ∈ X.children, X.parent ≠ some c)
    {ch : List Id} {cv : List Nat} (hsub : ∀ c ∈ ch, c ∈ X.children)
    (h : ch.mapM (fun c => X.neighbourIndex c) = some cv) :
    cv = ch.map (fun c => X.children.idxOf c + X.nparents) := by
  induction ch generalizing cv with
  | nil => simp at h; subst h; rfl
  | cons c ch ih =>
    rw [List.mapM_cons] at h
    have hc : c ∈ X.children := hsub c (by simp)
    have hidx : X.neighbourIndex c = some (X.children.idxOf c + X.nparents) := by
      unfold neighbourIndex
      simp [hpc c hc, hc]
    rw [hidx] at h
    cases hr : ch.mapM (fun c => X.neighbourIndex c) with
    | none => simp [hr] at h
    | some r =>
      simp [hr] at h
      subst h
      rw [ih (fun c' hc' => hsub c' (List.mem_cons_of_mem _ hc')) hr]
      rfl

theorem map_idxOf_self (l : List Id) (hnd : l.Nodup) (off : Nat) :
    l.map (fun c => l.idxOf c + off) = List.range' off l.length := by
  apply List.ext_getElem
  · simp
  · intro i h1 h2
    simp only [List.length_map] at h1
    simp only [List.getElem_map, List.getElem_range', Nat.one_mul]
    have := idxOf_getElem_nodup' l hnd i h1
    omega
where
  idxOf_getElem_nodup' (l : List Id) (hnd : l.Nodup) (i : Nat) (hi : i < l.length) : l.idxOf l[i] = i := by
    induction l generalizing i with
    | nil => simp at hi
    | cons a l ih =>
      rw [List.nodup_cons] at hnd
      cases i with
      | zero => simp
      | succ i =>
        simp only [List.getElem_cons_succ, List.length_cons] at hi ⊢
        have hne : (a == l[i]) = false := by
          have : a ≠ l[i] := fun e => hnd.1 (e ▸ List.getElem_mem _)
          simpa using this
        rw [List.idxOf_cons, hne]
        simp [ih hnd.2 i (by omega)]

/-- The index lists computed by `find_leg_values` for the two specifications: up to order they are the
    virtual-leg indices `0 … nvirt-1` followed by the open legs the specifications name. -/
theorem split_ints_perm {X : NodeS} {outL inL : TTN.LegSpec} {outInt inInt : List Nat}
    (hnd : X.children.Nodup) (hpc : ∀ c ∈ X.children, X.parent ≠ some c)
    (hch : (outL.childLegs ++ inL.childLegs).Perm X.children)
    (hpar : (∃ p, X.parent = some p ∧ ((outL.parentLeg = some p ∧ inL.parentLeg = none) ∨
                                      (outL.parentLeg = none ∧ inL.parentLeg = some p))) ∨
            (X.parent = none ∧ outL.parentLeg = none ∧ inL.parentLeg = none))
    (ho : outL.findLegValues X = some outInt) (hi : inL.findLegValues X = some inInt) :
    ∃ V, (outInt ++ inInt).Perm (V ++ (outL.openLegs ++ inL.openLegs)) ∧ V.Perm (List.range X.nvirt) := by
  unfold TTN.LegSpec.findLegValues at ho hi
  simp only [bind, Option.bind] at ho hi
  split at ho
  · simp at ho
  rename_i cvO hcO
  split at hi
  · simp at hi
  rename_i cvI hcI
  simp only [Option.some.injEq] at ho hi
  have hsubO : ∀ c ∈ outL.childLegs, c ∈ X.children := fun c hc =>
    hch.mem_iff.mp (List.mem_append_left _ hc)
  have hsubI : ∀ c ∈ inL.childLegs, c ∈ X.children := fun c hc =>
    hch.mem_iff.mp (List.mem_append_right _ hc)
  have eO := mapM_neighbourIndex_children hpc hsubO hcO
  have eI := mapM_neighbourIndex_children hpc hsubI hcI
  have hcv : (cvO ++ cvI).Perm (List.range' X.nparents X.children.length) := by
    rw [eO, eI, ← List.map_append, ← map_idxOf_self X.children hnd X.nparents]
    exact hch.map _
  have hpv : ((if outL.parentLeg.isSome then [0] else []) ++ (if inL.parentLeg.isSome then [0] else [])).Perm
      (List.range' 0 X.nparents) := by
    rcases hpar with ⟨p, hp, (⟨h1, h2⟩ | ⟨h1, h2⟩)⟩ | ⟨hp, h1, h2⟩
    · simp [h1, h2, nparents, hp]
    · simp [h1, h2, nparents, hp]
    · simp [h1, h2, nparents, hp]
  refine ⟨((if outL.parentLeg.isSome then [0] else []) ++ (if inL.parentLeg.isSome then [0] else [])) ++
    (cvO ++ cvI), ?_, ?_⟩
  · rw [← ho, ← hi]
    simp only [List.append_assoc]
    refine List.Perm.append_left _ ?_
    have s1 : (cvO ++ (outL.openLegs ++ ((if inL.parentLeg.isSome then [0] else []) ++ (cvI ++ inL.openLegs)))).Perm
        ((if inL.parentLeg.isSome then [0] else []) ++ (cvO ++ (outL.openLegs ++ (cvI ++ inL.openLegs)))) := by
      have := List.perm_append_comm_assoc (cvO ++ outL.openLegs) (if inL.parentLeg.isSome then [0] else [])
        (cvI ++ inL.openLegs)
      simpa [List.append_assoc] using this
    refine s1.trans (List.Perm.append_left _ (List.Perm.append_left _ ?_))
    exact List.perm_append_comm_assoc outL.openLegs cvI inL.openLegs
  · have : List.range X.nvirt = List.range' 0 X.nparents ++ List.range' X.nparents X.children.length := by
      rw [List.range_eq_range', nvirt_def]
      have := List.range'_append_1 (s := 0) (m := X.nparents) (n := X.children.length)
      simpa using this.symm
    rw [this]
    exact hpv.append hcv

theorem range_split_virt (X : NodeS) (hv : X.nvirt ≤ X.nlegs) :
    List.range X.nlegs = List.range X.nvirt ++ List.range' X.nvirt (X.nlegs - X.nvirt) := by
  rw [List.range_eq_range', List.range_eq_range']
  have := List.range'_append_1 (s := 0) (m := X.nvirt) (n := X.nlegs - X.nvirt)
  simp only [Nat.zero_add] at this
  rw [this]
  congr 1
  omega

/-- The two leg specifications of a successful split name every open leg of the node exactly once. -/
theorem split_open_perm {X : NodeS} {L moved : Tensor} {outL inL : TTN.LegSpec} {outInt inInt : List Nat}
    (hnd : X.children.Nodup) (hpc : ∀ c ∈ X.children, X.parent ≠ some c)
    (hLl : L.length = X.nlegs) (hv : X.nvirt ≤ X.nlegs)
    (hch : (outL.childLegs ++ inL.childLegs).Perm X.children)
    (hpar : (∃ p, X.parent = some p ∧ ((outL.parentLeg = some p ∧ inL.parentLeg = none) ∨
                                      (outL.parentLeg = none ∧ inL.parentLeg = some p))) ∨
            (X.parent = none ∧ outL.parentLeg = none ∧ inL.parentLeg = none))
    (ho : outL.findLegValues X = some outInt) (hi : inL.findLegValues X = some inInt)
    (ht : transposeT L (outInt ++ inInt) = some moved) :
    (outL.openLegs ++ inL.openLegs).Perm (List.range' X.nvirt (X.nlegs - X.nvirt)) := by
  obtain ⟨V, hre, hV⟩ := split_ints_perm hnd hpc hch hpar ho hi
  unfold transposeT at ht
  split at ht
  · simp at ht
  rename_i hlen
  split at ht
  · simp at ht
  rename_i hnodup
  have hnodup' : (outInt ++ inInt).Nodup := by simpa using hnodup
  have hlen' : (outInt ++ inInt).length = L.length := by simpa using hlen
  have hbound := mapM_getElem?_bound ht
  have hall : (V ++ (outL.openLegs ++ inL.openLegs)).Perm (List.range X.nlegs) := by
    apply nodup_bounded_perm_range
    · exact hre.nodup_iff.mp hnodup'
    · intro x hx
      have := hbound x (hre.mem_iff.mpr hx)
      omega
    · rw [← hre.length_eq, hlen', hLl]
  rw [range_split_virt X hv] at hall
  have := (List.Perm.append_right (outL.openLegs ++ inL.openLegs) hV).symm.trans hall
  exact (List.perm_append_left_iff _).mp this

theorem splitAxes_transpose {L outT inT : Tensor} {outInt inInt : List Nat} {bond : Axis}
    (h : TTN.splitAxes L outInt inInt bond = some (outT, inT)) :
    ∃ moved, transposeT L (outInt ++ inInt) = some moved := by
  unfold TTN.splitAxes at h
  simp only [bind, Option.bind] at h
  split at h
  · simp at h
  · rename_i moved hm
    exact ⟨moved, hm⟩

end Ptn.C02
