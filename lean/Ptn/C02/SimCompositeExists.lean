import Ptn.C02.SimComposite
/-! Value level, part 3 (continued): the simulated history assumed by `centre_move_preserves_value` EXISTS whenever the
composite edit succeeds on a fresh temporary identifier and the QR routine delivers an exact factorisation. -/
namespace Ptn.C02
open NodeS Ptn.Ein Ptn.C03

set_option linter.unusedSectionVars false
set_option linter.unusedVariables false
variable {R : Type} [CommSemiring R]

/-- the split of `_build_qr_leg_specs` is admissible -/
theorem canonSpecs_adm {t : TTN} {a b rid : Id} {A : NodeS} {q r : TTN.LegSpec} (hA : t.N a = some A)
    (hl : t.N rid = none) (hsp : TTN.canonSpecs A b = some (q, r)) : ∃ X, SplitAdm t a X q r a rid := by
  unfold TTN.canonSpecs at hsp
  by_cases hp : A.parent = some b
  · simp only [hp, if_true, Option.some.injEq, Prod.mk.injEq] at hsp
    obtain ⟨rfl, rfl⟩ := hsp
    have hroot : A.isRoot = false := by simp [NodeS.isRoot, hp]
    exact ⟨A, hA, Or.inl rfl, Or.inr hl, by simp, Or.inl ⟨b, hp, hroot, rfl, Or.inr ⟨rfl, rfl⟩⟩⟩
  · simp only [hp, if_false] at hsp
    by_cases hb : b ∈ A.children
    · simp only [hb, not_true_eq_false, if_false, Option.some.injEq, Prod.mk.injEq] at hsp
      obtain ⟨rfl, rfl⟩ := hsp
      refine ⟨A, hA, Or.inl rfl, Or.inr hl, ?_, ?_⟩
      · simp only
        have : (A.children.erase b ++ [b]).Perm (b :: A.children.erase b) := List.perm_append_comm
        exact this.trans (List.perm_cons_erase hb).symm
      · cases hpp : A.parent with
        | none => exact Or.inr ⟨rfl, rfl, rfl, Or.inl ⟨by simp [NodeS.isRoot, hpp], rfl⟩⟩
        | some p => exact Or.inl ⟨p, rfl, by simp [NodeS.isRoot, hpp], rfl, Or.inl ⟨rfl, rfl⟩⟩
    · simp [hb] at hsp

/-- **The hypothesis of `centre_move_preserves_value` is satisfiable in general**: if the centre move succeeds in the
structural model with an unused temporary identifier, and the splitting routine delivers an exact factorisation of the
tensor of `a` along the bipartition of `_build_qr_leg_specs` (fresh labels of the new bond's dimension), then the
simulated history exists, ends in the state the composite edit returns, and the value is unchanged. -/
theorem centre_move_simrun_exists (dim : Nat → Nat) (e : Label → Nat) {t t' : TTN} {g : LegMap} {v : VNet R}
    {a b rid : Id} {bd : Nat} (h : t.WF) (hl : t.LWF) (hv : v.WF) (hs : RSim dim e g t v)
    (hfresh : t.N rid = none) (hmove : t.centreMove a b rid bd = some t')
    (hF : ∀ node q r t1, t.N a = some node → TTN.canonSpecs node b = some (q, r) →
      t.splitNodes a q r a rid bd = some t1 → dim v.next = bd ∧ dim (v.next + 1) = bd ∧
      Nonempty (SplitFact dim (v.tens a) (splitOutLegs e g t1 a a rid) (splitInLegs e g t1 a a rid)
        v.next (v.next + 1))) :
    ∃ node q r g' v', t.N a = some node ∧ TTN.canonSpecs node b = some (q, r) ∧
      SimRun dim e t g v [.split a q r a rid bd, .contract b rid b] t' g' v' ∧
      v'.WF ∧ RSim dim e g' t' v' ∧ ∀ σ, v'.value dim σ = v.value dim σ := by
  unfold TTN.centreMove at hmove
  cases hA : dget t.nodes a with
  | none => simp [hA, bind, Option.bind] at hmove
  | some A =>
    have hAN : t.N a = some A := hA
    simp only [hA, bind, Option.bind] at hmove
    cases hsp : TTN.canonSpecs A b with
    | none => simp [hsp] at hmove
    | some qr =>
      obtain ⟨q, r⟩ := qr
      simp only [hsp] at hmove
      cases hs1 : t.splitNodes a q r a rid bd with
      | none => simp [hs1] at hmove
      | some t1 =>
        simp only [hs1] at hmove
        have adm1 : (TOp.split a q r a rid bd).Adm t := canonSpecs_adm hAN hfresh hsp
        have step1 : t.step (.split a q r a rid bd) = some t1 := hs1
        have w1 : t1.WF := step_wf h _ adm1 step1
        obtain ⟨d1, d2, hFact⟩ := hF A q r t1 hAN hsp hs1
        obtain ⟨g1, v1, st1⟩ := simstep_complete dim e (op := .split a q r a rid bd) h hv hs trivial adm1 step1
          (by
            intro id outL inL outId inId bd' heq
            cases heq
            exact ⟨d1, d2, hFact⟩)
          (by intro _ _ _ heq; cases heq)
        obtain ⟨_, _, run1, s1⟩ := simstep_sound dim e h hl hv hs adm1 st1
        have l1 := (edit_step_labels h hl (.split a q r a rid bd) adm1 trivial step1).1
        obtain ⟨vw1, _⟩ := srun_value dim hv run1
        have adm2 : (TOp.contract b rid b).Adm t1 := Or.inl rfl
        have step2 : t1.step (.contract b rid b) = some t' := hmove
        obtain ⟨g2, v2, st2⟩ := simstep_complete dim e (op := .contract b rid b) w1 vw1 s1 trivial adm2 step2
          (by intro _ _ _ _ _ _ heq; cases heq) (by intro _ _ _ heq; cases heq)
        have hr : SimRun dim e t g v [.split a q r a rid bd, .contract b rid b] t' g2 v2 :=
          .cons adm1 st1 (.cons adm2 st2 (.nil _ _ _))
        obtain ⟨_, _, _, a4, a5, a6⟩ := centre_move_preserves_value dim e h hl hv hs hAN hsp hr
        exact ⟨A, q, r, g2, v2, hAN, hsp, hr, a4, a5, a6⟩

end Ptn.C02
