import Ptn.C02.Graph
/-! `add_root` and `add_child_to_parent` produce / preserve well-formed networks.  Core Lean only. -/
namespace Ptn.C02
open NodeS

theorem openLegToParent_facts {s s' : NodeS} {pid : Id} {k : Nat}
    (h : s.openLegToParent pid (some k) = some s') :
    s.parent = none ∧ s'.parent = some pid ∧ s'.children = s.children ∧ s'.shp = s.shp := by
  unfold openLegToParent at h
  split at h
  · simp at h
  · rename_i hr
    simp only at h
    split at h
    · simp at h
    · split at h
      · simp at h
      · simp only [Option.some.injEq] at h
        subst h
        simp [isRoot] at hr
        exact ⟨hr, rfl, rfl, rfl⟩

theorem openLegToChild_facts {s s' : NodeS} {cid : Id} {k : Nat}
    (h : s.openLegToChild cid k = some s') :
    s'.parent = s.parent ∧ s'.children = s.children ++ [cid] ∧ s'.shp = s.shp := by
  unfold openLegToChild at h
  split at h
  · simp at h
  · split at h
    · simp at h
    · simp only [Option.some.injEq] at h
      subst h
      exact ⟨rfl, rfl, rfl⟩

/-- `add_root` on the empty network gives a well-formed one-node network. -/
theorem add_root_wf_aux {t t' : TTN} {id : Id} {T : Tensor} (hn : t.nodes = []) (ht : t.tensors = [])
    (h : t.addRoot id T = some t') : t'.WF := by
  unfold TTN.addRoot at h
  split at h
  · simp at h
  · simp only [Option.some.injEq] at h
    subst h
    have hN : ∀ k, TTN.N (⟨dset t.nodes id (NodeS.empty.linkTensor (shapeOf T)), dset t.tensors id T, some id, t.nextLabel⟩ : TTN) k =
        if k = id then some (NodeS.empty.linkTensor (shapeOf T)) else none := by
      intro k; simp [TTN.N, dget_dset, hn, dget_nil]
    have hS : ∀ k, TTN.S (⟨dset t.nodes id (NodeS.empty.linkTensor (shapeOf T)), dset t.tensors id T, some id, t.nextLabel⟩ : TTN) k = if k = id then some (none, []) else none := by
      intro k
      simp only [TTN.S, hN k]
      by_cases hk : k = id <;> simp [hk, structOf, linkTensor, NodeS.empty]
    refine ⟨⟨?_, ?_, ?_, ?_, ?_, ?_, ?_⟩, ?_, ?_⟩
    · intro k
      rw [hS k]
      simp only [TTN.hasT, dhas_dset, ht]
      by_cases hk : k = id <;> simp [hk, dhas]
    · exact ⟨id, [], rfl, by rw [hS]; simp⟩
    · intro k ch hk
      rw [hS] at hk
      by_cases hki : k = id
      · simp [hki]
      · simp [hki] at hk
    · intro k p ch hk
      rw [hS] at hk
      by_cases hki : k = id <;> simp [hki] at hk
    · intro k pp ch c hk hc
      rw [hS] at hk
      by_cases hki : k = id
      · simp [hki] at hk; obtain ⟨_, rfl⟩ := hk; simp at hc
      · simp [hki] at hk
    · intro k pp ch hk
      rw [hS] at hk
      by_cases hki : k = id
      · simp [hki] at hk; obtain ⟨_, rfl⟩ := hk; simp
      · simp [hki] at hk
    · refine ⟨fun _ => 0, ?_⟩
      intro k p ch hk
      rw [hS] at hk
      by_cases hki : k = id <;> simp [hki] at hk
    · intro k n hk
      rw [hN] at hk
      by_cases hki : k = id
      · simp only [hki, if_true, Option.some.injEq] at hk
        subst hk
        exact wfn_linkTensor _ (by simp [NodeS.empty, nvirt, nparents, nchildren])
      · simp [hki] at hk
    · intro k n T' hk hT'
      rw [hN] at hk
      simp only [dget_dset, ht, dget_nil] at hT'
      by_cases hki : k = id
      · simp only [hki, if_true, Option.some.injEq] at hk hT'
        subst hk; subst hT'
        rfl
      · simp [hki] at hk

/-- `add_child_to_parent` keeps the network well-formed. -/
theorem add_child_wf_aux {t t' : TTN} {cid pid : Id} {T : Tensor} {cl pl : Nat} (h : t.WF)
    (hs : t.addChildToParent cid T cl pid pl = some t') : t'.WF := by
  unfold TTN.addChildToParent at hs
  cases hP : dget t.nodes pid with
  | none => simp [hP, bind, Option.bind] at hs
  | some P =>
    simp only [hP, bind, Option.bind] at hs
    split at hs
    · simp at hs
    · by_cases hhas : dhas t.nodes cid = true
      · simp [hhas] at hs
      · simp only [hhas, Bool.false_eq_true, if_false] at hs
        cases hc1 : (NodeS.empty.linkTensor (shapeOf T)).openLegToParent pid (some cl) with
        | none => simp [hc1] at hs
        | some child' =>
          simp only [hc1] at hs
          cases hp1 : P.openLegToChild cid pl with
          | none => simp [hp1] at hs
          | some P' =>
            simp only [hp1, Option.some.injEq] at hs
            subst hs
            obtain ⟨_, c1, c2, c3⟩ := openLegToParent_facts hc1
            obtain ⟨q1, q2, q3⟩ := openLegToChild_facts hp1
            have hPN : t.N pid = some P := hP
            have hcN : t.N cid = none := by
              have := dhas_eq_isSome t.nodes cid
              cases hg : dget t.nodes cid with
              | none => exact hg
              | some _ => rw [hg] at this; simp at this; exact absurd this hhas
            have hcp : cid ≠ pid := by intro e; rw [e, hPN] at hcN; simp at hcN
            have hN : ∀ k, TTN.N (⟨dset (dset (dset t.nodes cid (NodeS.empty.linkTensor (shapeOf T))) cid child') pid P',
                dset t.tensors cid T, t.root, t.nextLabel⟩ : TTN) k =
                if k = pid then some P' else if k = cid then some child' else t.N k := by
              intro k
              simp only [TTN.N, dget_dset]
              by_cases h1 : k = pid
              · simp [h1]
              · by_cases h2 : k = cid <;> simp [h1, h2]
            have hwc : WFN child' := wfn_openLegToParent
              (wfn_linkTensor _ (by simp [NodeS.empty, nvirt, nparents, nchildren])) pid (some cl) hc1
            have hwp : WFN P' := wfn_openLegToChild (h.node pid P hPN) cid pl hp1
            refine ⟨?_, ?_, ?_⟩
            · have hS : TTN.S (⟨dset (dset (dset t.nodes cid (NodeS.empty.linkTensor (shapeOf T))) cid child') pid P',
                  dset t.tensors cid T, t.root, t.nextLabel⟩ : TTN) =
                  fun k => if k = cid then some (some pid, []) else
                    if k = pid then some (P.parent, P.children ++ [cid]) else t.S k := by
                funext k
                simp only [TTN.S, hN k]
                by_cases h1 : k = pid
                · have : ¬ pid = cid := fun e => hcp e.symm
                  simp [h1, this, structOf, q1, q2]
                · by_cases h2 : k = cid
                  · simp [h1, h2, hcp, structOf, c1, c2, linkTensor, NodeS.empty]
                  · simp [h1, h2]
              have hT : TTN.hasT (⟨dset (dset (dset t.nodes cid (NodeS.empty.linkTensor (shapeOf T))) cid child') pid P',
                  dset t.tensors cid T, t.root, t.nextLabel⟩ : TTN) = fun k => k == cid || t.hasT k := by
                funext k; simp [TTN.hasT, dhas_dset]
              rw [hS, hT]
              exact addLeafS_swf h.str cid pid P.parent P.children (TTN.S_eq hPN) (by simp [TTN.S, hcN])
            · intro k n hk
              rw [hN] at hk
              by_cases h1 : k = pid
              · simp only [h1, if_true, Option.some.injEq] at hk; subst hk; exact hwp
              · by_cases h2 : k = cid
                · subst h2
                  simp only [h1, if_false, if_true, Option.some.injEq] at hk; subst hk; exact hwc
                · simp only [h1, h2, if_false] at hk; exact h.node k n hk
            · intro k n T' hk hT'
              rw [hN] at hk
              simp only [dget_dset] at hT'
              by_cases h1 : k = pid
              · have : ¬ pid = cid := fun e => hcp e.symm
                subst h1
                simp only [if_true, Option.some.injEq, this, if_false] at hk hT'
                subst hk
                rw [q3]
                exact h.fit k P T' hPN hT'
              · by_cases h2 : k = cid
                · subst h2
                  simp only [h1, if_false, if_true, Option.some.injEq] at hk hT'
                  subst hk; subst hT'
                  rw [c3]
                  rfl
                · simp only [h1, h2, if_false] at hk hT'
                  exact h.fit k n T' hk hT'

/-- `replace_tensor(node_id, new_tensor, permutation)` keeps the network well-formed when the permutation
    (if given) is a permutation. -/
theorem replace_tensor_wf_aux {t t' : TTN} {id : Id} {newT : Tensor} {p : Option (List Nat)} (h : t.WF)
    (hp : ∀ q, p = some q → q.Perm (List.range q.length))
    (hs : t.replaceTensor id newT p = some t') : t'.WF := by
  unfold TTN.replaceTensor at hs
  cases hn : dget t.nodes id with
  | none => simp [hn, bind, Option.bind] at hs
  | some n =>
    simp only [hn, bind, Option.bind] at hs
    cases hr : n.replaceTensor (shapeOf newT) p with
    | none => simp [hr] at hs
    | some n' =>
      simp only [hr, Option.some.injEq] at hs
      subst hs
      have hnN : t.N id = some n := hn
      have hN : ∀ k, TTN.N (⟨dset t.nodes id n', dset t.tensors id newT, t.root, t.nextLabel⟩ : TTN) k =
          if k = id then some n' else t.N k := by
        intro k; simp [TTN.N, dget_dset]
      have hw : WFN n' := wfn_replaceTensor (h.node id n hnN) (shapeOf newT) p
        (by cases p with
            | none => trivial
            | some q => exact hp q rfl) hr
      have hstruct : n'.parent = n.parent ∧ n'.children = n.children ∧ n'.shp = shapeOf newT := by
        cases p with
        | none =>
          rw [replace_tensor_none] at hr
          split at hr
          · rename_i heq
            simp only [Option.some.injEq] at hr; subst hr
            exact ⟨rfl, rfl, heq⟩
          · simp at hr
        | some q =>
          unfold replaceTensor at hr
          simp only at hr
          split at hr
          · simp at hr
          · split at hr
            · simp only [Option.some.injEq] at hr; subst hr; exact ⟨rfl, rfl, rfl⟩
            · simp at hr
      have hhas : t.hasT id = true := by
        have := h.str.keys id
        rw [TTN.S_eq hnN] at this
        simpa using this.symm
      apply wf_of_same_struct h
      · intro k
        simp only [TTN.S, hN]
        by_cases hk : k = id
        · subst hk; simp [hnN, structOf, hstruct.1, hstruct.2.1]
        · simp [hk]
      · intro k
        simp only [TTN.hasT, dhas_dset]
        by_cases hk : k = id
        · subst hk; simpa [TTN.hasT] using hhas
        · simp [hk]
      · rfl
      · intro k m hk
        rw [hN] at hk
        by_cases hki : k = id
        · simp only [hki, if_true, Option.some.injEq] at hk; subst hk; exact hw
        · simp only [hki, if_false] at hk; exact h.node k m hk
      · intro k m T' hk hT'
        rw [hN] at hk
        simp only [dget_dset] at hT'
        by_cases hki : k = id
        · simp only [hki, if_true, Option.some.injEq] at hk hT'
          subst hk; subst hT'
          exact hstruct.2.2.symm
        · simp only [hki, if_false] at hk hT'
          exact h.fit k m T' hk hT'
where
  replace_tensor_none (n : NodeS) (tsh : List Nat) :
      n.replaceTensor tsh none = if n.shape = tsh then some n.resetPermutation else none := rfl

end Ptn.C02
