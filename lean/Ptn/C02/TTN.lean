import Ptn.C02.Model
/-! Model for property C02, part 2: `TreeTensorNetwork` at the level of *structure, leg labels and
shapes* (`pytreenet/core/ttn.py`, `tree_structure.py`, `leg_specification.py`).  Core Lean only.

A stored array is a list of axes; an axis carries a *label* (which open leg / which bond it is) and
its dimension.  No tensor values: what NumPy computes with the values is outside this model (dense
oracle).  `transpose`, `tensordot`, the splitting functions and `eye` act on the axis lists exactly
as NumPy acts on the axes; a fresh bond gets a fresh label (`nextLabel`, ghost state).

Python dictionaries are association lists in insertion order (`dget`/`dset`/`dpop`).
Every routine is transcribed statement by statement; `none` = the Python code raises.
Identifier strings are numbers here (the harness computes default identifiers such as
`a + "contr" + b`, `"out_of_" + a`, uuids and passes them explicitly).
-/
namespace Ptn.C02

abbrev Label := Nat

structure Axis where
  lab : Label
  dim : Nat
deriving Repr, DecidableEq

abbrev Tensor := List Axis

/-! ### dictionaries -/

def dget {α : Type} (d : List (Id × α)) (k : Id) : Option α :=
  match d.find? (fun e => e.1 == k) with
  | some e => some e.2
  | none => none

def dhas {α : Type} (d : List (Id × α)) (k : Id) : Bool := d.any (fun e => e.1 == k)

/-- `d[k] = v`: replaces in place or appends. -/
def dset {α : Type} (d : List (Id × α)) (k : Id) (v : α) : List (Id × α) :=
  if dhas d k then d.map (fun e => if e.1 == k then (k, v) else e) else d ++ [(k, v)]

/-- `d.pop(k)` / `del d[k]` (KeyError ↦ `none`). -/
def dpop {α : Type} (d : List (Id × α)) (k : Id) : Option (List (Id × α)) :=
  if dhas d k then some (d.filter (fun e => e.1 != k)) else none

/-- `d1.update(d2)`. -/
def dupdate {α : Type} (d1 d2 : List (Id × α)) : List (Id × α) :=
  d2.foldl (fun acc e => dset acc e.1 e.2) d1

/-! ### NumPy on axis lists -/

/-- `tensor.transpose(perm)` (ValueError ↦ `none`). -/
def transposeT (t : Tensor) (perm : List Nat) : Option Tensor :=
  if perm.length ≠ t.length then none
  else if ¬ perm.Nodup then none
  else perm.mapM (fun i => t[i]?)

/-- `np.tensordot(a, b, axes=(i, j))`: remaining axes of `a`, then remaining axes of `b`;
    NumPy checks the two dimensions. -/
def tensordot1 (a b : Tensor) (i j : Nat) : Option Tensor :=
  match a[i]?, b[j]? with
  | some x, some y => if x.dim = y.dim then some (a.eraseIdx i ++ b.eraseIdx j) else none
  | _, _ => none

def shapeOf (t : Tensor) : List Nat := t.map (·.dim)

/-- `Node(tensor=t, identifier=…)`. -/
def nodeOfTensor (t : Tensor) : NodeS := ⟨List.range t.length, shapeOf t, none, []⟩

/-! ### the network -/

structure TTN where
  nodes : List (Id × NodeS)        -- `TreeStructure._nodes`
  tensors : List (Id × Tensor)     -- `TensorDict.data`
  root : Option Id                 -- `_root_id`
  nextLabel : Label                -- ghost: fresh bond labels
deriving Repr

namespace TTN

def empty : TTN := ⟨[], [], none, 1000000⟩

/-- `TensorDict.__getitem__`: transpose by the node's permutation, reset it, store back. -/
def access (t : TTN) (id : Id) : Option (TTN × Tensor) := do
  let node ← dget t.nodes id
  let tensor ← dget t.tensors id
  let transposed ← transposeT tensor node.perm
  some ({ t with nodes := dset t.nodes id node.resetPermutation,
                 tensors := dset t.tensors id transposed }, transposed)

/-- `TensorDict.pop(id)` (`MutableMapping.pop`: `self[key]`, then `del self[key]`). -/
def tensorsPop (t : TTN) (id : Id) : Option TTN := do
  let (t1, _) ← t.access id
  let ts ← dpop t1.tensors id
  some { t1 with tensors := ts }

/-- The logical axes of a node (what `ttn.tensors[id]` would return), without side effect. -/
def logical (t : TTN) (id : Id) : Option Tensor := do
  let node ← dget t.nodes id
  let tensor ← dget t.tensors id
  transposeT tensor node.perm

/-- `ensure_shape_matching(new_tensor, tensor_leg, old_node, old_leg)`. -/
def ensureShapeMatching (newT : Tensor) (tensorLeg : Nat) (old : NodeS) (oldLeg : Nat) : Option Unit :=
  match newT[tensorLeg]?, old.shape[oldLeg]? with
  | some a, some d => if a.dim = d then some () else none
  | _, _ => none

/-- `add_root(node, tensor)`. -/
def addRoot (t : TTN) (id : Id) (tensor : Tensor) : Option TTN :=
  if t.root.isSome then none                                     -- assert self.root_id is None
  else
    let node := (NodeS.empty).linkTensor (shapeOf tensor)
    some { t with root := some id, nodes := dset t.nodes id node, tensors := dset t.tensors id tensor }

/-- `add_child_to_parent(child, tensor, child_leg, parent_id, parent_leg)`. -/
def addChildToParent (t : TTN) (cid : Id) (tensor : Tensor) (childLeg : Nat) (pid : Id)
    (parentLeg : Nat) : Option TTN := do
  let parentNode ← dget t.nodes pid                               -- ensure_existence
  ensureShapeMatching tensor childLeg parentNode parentLeg
  let child := (NodeS.empty).linkTensor (shapeOf tensor)
  if dhas t.nodes cid then none                                   -- _add_node: ensure_uniqueness
  let nodes1 := dset t.nodes cid child
  let child' ← child.openLegToParent pid (some childLeg)
  let nodes2 := dset nodes1 cid child'
  let parentNode' ← parentNode.openLegToChild cid parentLeg
  let nodes3 := dset nodes2 pid parentNode'
  some { t with nodes := nodes3, tensors := dset t.tensors cid tensor }

/-- `determine_parentage(node_id1, node_id2)`. -/
def determineParentage (t : TTN) (id1 id2 : Id) : Option (Id × Id) := do
  let node1 ← dget t.nodes id1
  let node2 ← dget t.nodes id2
  if node2.parent = some id1 then some (id1, id2)
  else if node1.parent = some id2 then some (id2, id1)
  else none

/-- `GraphNode.replace_child(child_id, new_child_id)`. -/
def replaceChild (n : NodeS) (cid new : Id) : Option NodeS :=
  if cid ∉ n.children then none
  else if cid = new then some n
  else some { n with children := n.children.set (n.children.idxOf cid) new }

/-- `GraphNode.replace_neighbour(old, new)`. -/
def replaceNeighbour (n : NodeS) (old new : Id) : Option NodeS :=
  if n.parent = some old then some { n with parent := some new }
  else if old ∈ n.children then replaceChild n old new
  else none

/-- `replace_node_in_neighbours(new_node_id, old_node_id, del_old_node)`. -/
def replaceNodeInNeighbours (t : TTN) (new old : Id) (delOld : Bool := true) : Option TTN :=
  if new = old then some t
  else do
    let oldNode ← dget t.nodes old
    let nodes1 ← oldNode.children.foldlM (fun (ns : List (Id × NodeS)) c =>
      if c ≠ new then do
        let cn ← dget ns c
        some (dset ns c { cn with parent := some new })
      else some ns) t.nodes
    let (nodes2, root2) ←
      match oldNode.parent with
      | none => some (nodes1, some new)
      | some p =>
        if p ≠ new then do
          let pn ← dget nodes1 p
          let pn' ← replaceChild pn old new
          some (dset nodes1 p pn', t.root)
        else some (nodes1, t.root)
    let nodes3 ← if delOld then dpop nodes2 old else some nodes2
    some { t with nodes := nodes3, root := root2 }

/-- `replace_node_in_some_neighbours(new_node_id, old_node_id, neighbour_ids)`. -/
def replaceNodeInSomeNeighbours (t : TTN) (new old : Id) (nbs : List Id) : Option TTN := do
  let nodes' ← nbs.foldlM (fun (ns : List (Id × NodeS)) nb => do
    let n ← dget ns nb
    let n' ← replaceNeighbour n old new
    some (dset ns nb n')) t.nodes
  some { t with nodes := nodes' }

/-- `_data_contraction(parent_id, child_id, new_id)`. -/
def dataContraction (t : TTN) (pid cid new : Id) : Option (TTN × Tensor) := do
  let parentNode ← dget t.nodes pid
  let (t1, parentTensor) ← t.access pid
  let (t2, childTensor) ← t1.access cid
  let idx ← parentNode.neighbourIndex cid
  let newTensor ← tensordot1 parentTensor childTensor idx 0
  let t3 ← t2.tensorsPop pid
  let t4 ← t3.tensorsPop cid
  some ({ t4 with tensors := dset t4.tensors new newTensor }, newTensor)

def enumFrom (l : List Id) (offset : Nat) : List (Id × Nat) :=
  (l.zipIdx).map (fun e => (e.1, e.2 + offset))

/-- `if not parent_node.is_root(): new_node.open_leg_to_parent(parent_node.parent, 0)`. -/
def ccnParentStep (n0 : NodeS) (gp : Option Id) : Option NodeS :=
  match gp with
  | some g => n0.openLegToParent g (some 0)
  | none => some n0

/-- `_create_contracted_node(new_tensor, new_identifier, parent_id, child_id, node_id1)`. -/
def createContractedNode (t : TTN) (newTensor : Tensor) (pid cid id1 : Id) : Option NodeS := do
  let parentNode ← dget t.nodes pid
  let childNode ← dget t.nodes cid
  let newNode0 := nodeOfTensor newTensor
  let newNode1 ← ccnParentStep newNode0 parentNode.parent
  if cid ∉ parentNode.children then none                          -- list.remove raises
  let parentChildren := parentNode.children.erase cid
  let parentChildDict := enumFrom parentChildren parentNode.nparents
  if parentNode.nlegs = 0 then none                               -- (nlegs - 1 would be negative)
  let childChildrenDict := enumFrom childNode.children (parentNode.nlegs - 1)
  let newNode2 ←
    if pid = id1 then newNode1.openLegsToChildren (dupdate parentChildDict childChildrenDict)
    else newNode1.openLegsToChildren (dupdate childChildrenDict parentChildDict)
  if id1 ≠ pid then
    let newNvirt := newNode2.nvirt
    let pOpen := parentNode.nlegs - parentNode.nvirt
    newNode2.exchangeOpenLegRanges newNvirt (newNvirt + pOpen) (newNvirt + pOpen) newNode2.nlegs
  else some newNode2

/-- `contract_nodes(node_id1, node_id2, new_identifier)` (the identifier is explicit). -/
def contractNodes (t : TTN) (id1 id2 new : Id) : Option TTN := do
  let (pid, cid) ← t.determineParentage id1 id2
  let (t1, newTensor) ← t.dataContraction pid cid new
  let newNode ← t1.createContractedNode newTensor pid cid id1
  let t2 ← t1.replaceNodeInNeighbours new pid
  let t3 ← t2.replaceNodeInNeighbours new cid
  some { t3 with nodes := dset t3.nodes new newNode }

/-! ### splitting -/

structure LegSpec where
  parentLeg : Option Id
  childLegs : List Id
  openLegs : List Nat
  isRoot : Bool
deriving Repr, DecidableEq

/-- `LegSpecification.find_leg_values()` relative to `node`. -/
def LegSpec.findLegValues (ls : LegSpec) (node : NodeS) : Option (List Nat) := do
  let cvals ← ls.childLegs.mapM (fun c => node.neighbourIndex c)
  some ((if ls.parentLeg.isSome then [0] else []) ++ cvals ++ ls.openLegs)

/-- `LegSpecification.find_all_neighbour_ids()`. -/
def LegSpec.allNeighbourIds (ls : LegSpec) : List Id :=
  (match ls.parentLeg with
   | some p => [p]
   | none => []) ++ ls.childLegs

/-- The contract of every splitting function (`tensor_qr_decomposition`,
    `contr_truncated_svd_splitting`, `idiots_splitting`) on axes: the legs must partition the axes
    (`assert tensor.ndim == …`, transposition); out = (out legs…, bond), in = (bond, in legs…). -/
def splitAxes (tensor : Tensor) (outInt inInt : List Nat) (bond : Axis) : Option (Tensor × Tensor) := do
  let moved ← transposeT tensor (outInt ++ inInt)
  some (moved.take outInt.length ++ [bond], bond :: moved.drop outInt.length)

/-- `_find_in_children`. -/
def findInChildren (inL outL : LegSpec) (outId : Id) : Option (List (Id × Nat)) :=
  if inL.isRoot then
    if outL.parentLeg.isSome then none                              -- assert
    else some (dupdate [(outId, 0)] (enumFrom inL.childLegs 1))
  else if inL.parentLeg.isSome then
    some (dupdate [(outId, 1)] (enumFrom inL.childLegs 2))
  else some (dupdate [] (enumFrom inL.childLegs 1))

/-- `_find_out_children`. -/
def findOutChildren (outL inL : LegSpec) (outNode : NodeS) (inId : Id) : Option (List (Id × Nat)) :=
  if inL.isRoot ∨ inL.parentLeg.isSome then
    if outL.parentLeg.isSome then none                              -- assert
    else some (dupdate [] (enumFrom outL.childLegs 1))
  else if outL.isRoot then
    if outNode.nlegs = 0 then none else
    some (dupdate [(inId, outNode.nlegs - 1)] (enumFrom outL.childLegs 0))
  else
    if outL.parentLeg.isNone then none                              -- assert
    else if outNode.nlegs = 0 then none
    else some (dupdate [(inId, outNode.nlegs - 1)] (enumFrom outL.childLegs 1))

/-- `_set_in_parent_leg_after_split(in_node, in_legs, out_identifier)`. -/
def setInParentLeg (inNode : NodeS) (inL : LegSpec) (outId : Id) : Option NodeS :=
  match inL.parentLeg with
  | some p => inNode.openLegToParent p (some 1)
  | none => if !inL.isRoot then inNode.openLegToParent outId (some 0) else some inNode

/-- `_set_out_parent_leg_after_split(out_node, out_legs, in_identifier)`. -/
def setOutParentLeg (outNode : NodeS) (outL : LegSpec) (inId : Id) : Option NodeS :=
  match outL.parentLeg with
  | some p => outNode.openLegToParent p (some 0)
  | none =>
    if !outL.isRoot then
      if outNode.nlegs = 0 then none else outNode.openLegToParent inId (some (outNode.nlegs - 1))
    else some outNode

/-- What `split_nodes` does to the freshly created in-node:
    `_set_in_parent_leg_after_split`, then `_set_in_children_legs_after_split`. -/
def buildInNode (inTensor : Tensor) (inL outL : LegSpec) (outId : Id) : Option NodeS := do
  let inNode1 ← setInParentLeg (nodeOfTensor inTensor) inL outId
  let inChildren ← findInChildren inL outL outId
  inNode1.openLegsToChildren inChildren

/-- What `split_nodes` does to the freshly created out-node:
    `_set_out_parent_leg_after_split`, then `_set_out_children_legs_after_split`. -/
def buildOutNode (outTensor : Tensor) (outL inL : LegSpec) (inId : Id) : Option NodeS := do
  let outNode1 ← setOutParentLeg (nodeOfTensor outTensor) outL inId
  let outChildren ← findOutChildren outL inL outNode1 inId
  outNode1.openLegsToChildren outChildren

/-- `_set_root_from_leg_specs`. -/
def setRootFromLegSpecs (t : TTN) (inL outL : LegSpec) (inId outId : Id) : Option TTN :=
  if inL.isRoot then (if outL.isRoot then none else some { t with root := some inId })
  else if outL.isRoot then some { t with root := some outId }
  else some t

/-- `split_nodes(node_id, out_legs, in_legs, splitting_function, out_identifier, in_identifier)`;
    `bondDim` is the dimension of the new bond chosen by the splitting function.
    The two fresh `Node` objects are independent, so the four `_set_*_after_split` calls are grouped
    per node (`buildInNode`, `buildOutNode`); both objects are in `_nodes` before they are edited.
    (The model rejects `out_identifier = in_identifier`, for which the Python code has no meaning.) -/
def splitNodes (t : TTN) (id : Id) (outL inL : LegSpec) (outId inId : Id) (bondDim : Nat) :
    Option TTN := do
  if outId = inId then none
  let (t1, tensor) ← t.access id
  let node1 ← dget t1.nodes id
  let outInt ← outL.findLegValues node1
  let inInt ← inL.findLegValues node1
  let bond : Axis := ⟨t.nextLabel, bondDim⟩
  let (outTensor, inTensor) ← splitAxes tensor outInt inInt bond
  let tensors1 := dset (dset t1.tensors outId outTensor) inId inTensor
  let nodes1 := dset (dset t1.nodes outId (nodeOfTensor outTensor)) inId (nodeOfTensor inTensor)
  let inNode ← buildInNode inTensor inL outL outId
  let outNode ← buildOutNode outTensor outL inL inId
  let nodes3 := dset (dset nodes1 inId inNode) outId outNode
  let t2 : TTN := { t1 with nodes := nodes3, tensors := tensors1, nextLabel := t.nextLabel + 1 }
  let t3 ← t2.replaceNodeInSomeNeighbours outId id outL.allNeighbourIds
  let t4 ← t3.replaceNodeInSomeNeighbours inId id inL.allNeighbourIds
  let t5 ← t4.setRootFromLegSpecs inL outL inId outId
  if id ≠ outId ∧ id ≠ inId then do
    let t6 ← t5.tensorsPop id
    let ns ← dpop t6.nodes id
    some { t6 with nodes := ns }
  else some t5

/-- `legs_before_combination(node1_id, node2_id)`. -/
def legsBeforeCombination (t : TTN) (id1 id2 : Id) : Option (LegSpec × LegSpec) := do
  let node1 ← dget t.nodes id1
  let node2 ← dget t.nodes id2
  if node1.nvirt + node2.nvirt < 2 then none
  let totNvirt := node1.nvirt + node2.nvirt - 2
  let totNlegs := node1.nlegs + node2.nlegs - 2
  let n1open := node1.nlegs - node1.nvirt
  let open1 := List.range' totNvirt n1open
  let open2 := List.range' (totNvirt + n1open) (totNlegs - (totNvirt + n1open))
  let spec1 : LegSpec := ⟨none, node1.children, open1, false⟩
  let spec2 : LegSpec := ⟨none, node2.children, open2, false⟩
  -- temp = [(spec1, node1), (spec2, node2)]; reversed if node2 is the parent of node1
  let rev := decide (id1 ∈ node2.children)
  let (sA, nA, idB) := if rev then (spec2, node2, id1) else (spec1, node1, id2)
  if idB ∉ sA.childLegs then none                                   -- list.remove raises
  let sA' : LegSpec := { sA with parentLeg := nA.parent, childLegs := sA.childLegs.erase idB }
  let (s1, s2) := if rev then (spec1, sA') else (sA', spec2)
  if node1.isRoot then some ({ s1 with isRoot := true }, s2)
  else if node2.isRoot then some (s1, { s2 with isRoot := true })
  else some (s1, s2)

/-! ### the remaining edits -/

/-- `insert_identity(child_id, parent_id, new_identifier)`. -/
def insertIdentity (t : TTN) (cid pid new : Id) : Option TTN := do
  let childNode ← dget t.nodes cid
  let parentNode ← dget t.nodes pid
  if childNode.parent ≠ some pid then none                          -- assert is_child_of
  if cid ∉ parentNode.children then none                            -- assert is_parent_of
  let childNode' ← replaceNeighbour childNode pid new
  let nodes1 := dset t.nodes cid childNode'
  let parentNode1 ← dget nodes1 pid
  let parentNode' ← replaceNeighbour parentNode1 cid new
  let nodes2 := dset nodes1 pid parentNode'
  -- dim = child_node.parent_leg_dim() = _shape[_leg_permutation[0]]
  let a0 ← childNode'.perm[0]?
  let dim ← childNode'.shp[a0]?
  let childTensor ← dget t.tensors cid
  let bondAxis ← childTensor[a0]?
  let identity : Tensor := [⟨bondAxis.lab, dim⟩, ⟨bondAxis.lab, dim⟩]   -- eye(dim): both axes are that bond
  let idNode0 := nodeOfTensor identity
  let idNode1 ← idNode0.openLegToParent pid (some 0)
  let idNode2 ← idNode1.openLegToChild cid 1
  some { t with nodes := dset nodes2 new idNode2, tensors := dset t.tensors new identity }

/-- `TreeStructure.change_node_identifier` + the tensor move of `TreeTensorNetwork.change_node_identifier`. -/
def changeNodeIdentifier (t : TTN) (new old : Id) : Option TTN := do
  -- self.tensors[new] = self._tensors.pop(old)
  let (t1, tensor) ← t.access old
  let ts ← dpop t1.tensors old
  let t2 : TTN := { t1 with tensors := dset ts new tensor }
  if old ≠ new then do
    if !dhas t2.nodes old then none                                 -- ensure_existence
    if dhas t2.nodes new then none                                  -- ensure_uniqueness
    let t3 ← t2.replaceNodeInNeighbours new old false
    let node ← dget t3.nodes old
    let ns ← dpop t3.nodes old
    some { t3 with nodes := dset ns new node }                      -- (set_identifier: the key is the identifier)
  else some t2

/-- `replace_tensor(node_id, new_tensor, permutation)`. -/
def replaceTensor (t : TTN) (id : Id) (newTensor : Tensor) (p : Option (List Nat)) : Option TTN := do
  let node ← dget t.nodes id
  let node' ← node.replaceTensor (shapeOf newTensor) p
  some { t with nodes := dset t.nodes id node', tensors := dset t.tensors id newTensor }

/-- The harness' use of `replace_tensor`: the present logical tensor, stored with its axes permuted
    such that `new.transpose(p)` is the logical order again. -/
def replaceTensorPermuted (t : TTN) (id : Id) (p : Option (List Nat)) : Option TTN := do
  let cur ← t.logical id
  match p with
  | none => t.replaceTensor id cur none
  | some p =>
    if p.length ≠ cur.length then none
    let newT ← (List.range cur.length).mapM (fun j => do
      let i := p.idxOf j
      cur[i]?)
    t.replaceTensor id newT (some p)

end TTN

/-! ### operations as data (driver, `ops_preserve_wf`) -/

inductive TOp where
  | root (id : Id) (tensor : Tensor)
  | child (id : Id) (tensor : Tensor) (childLeg : Nat) (pid : Id) (parentLeg : Nat)
  | access (id : Id)
  | contract (id1 id2 new : Id)
  | split (id : Id) (outL inL : TTN.LegSpec) (outId inId : Id) (bondDim : Nat)
  | ident (cid pid new : Id)
  | rename (new old : Id)
  | rtp (id : Id) (p : Option (List Nat))
deriving Repr

def TTN.step (t : TTN) : TOp → Option TTN
  | .root id tensor => t.addRoot id tensor
  | .child id tensor cl pid pl => t.addChildToParent id tensor cl pid pl
  | .access id => (t.access id).map (·.1)
  | .contract a b n => t.contractNodes a b n
  | .split id o i oid iid bd => t.splitNodes id o i oid iid bd
  | .ident c p n => t.insertIdentity c p n
  | .rename n o => t.changeNodeIdentifier n o
  | .rtp id p => t.replaceTensorPermuted id p

end Ptn.C02
