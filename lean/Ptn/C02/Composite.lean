import Ptn.C02.TTN
/-! Model, part 3: composite edits used by the algorithms (core Lean only).

* `linkUpdate`    ↔ `OneSiteTDVP._update_link` (`_split_updated_site` + `contract_nodes(link, next, new=next)`)
* `centreMove`    ↔ `canonical_form.split_qr_contract_r_to_neighbour` (`_build_qr_leg_specs`,
                     `split_node_qr(q_identifier=node)`, `contract_nodes(neighbour, r, new=neighbour)`)
* `twoSiteUpdate` ↔ `TwoSiteTDVP._update_two_site_nodes` (`legs_before_combination`, `contract_nodes`,
                     `split_node_svd(u_identifier=a, v_identifier=b)`)
* `truncateNode`, `recursiveTruncation` ↔ `pytreenet/core/truncation/recursive_truncation.py`
  (without the canonicalisations before / after, which are sequences of `centreMove`s)

New bond dimensions are parameters (`bd`, `kdim`): the structure does not depend on them. -/
namespace Ptn.C02
namespace TTN

/-- `node.open_legs`. -/
def openIdx (n : NodeS) : List Nat := List.range' n.nvirt (n.nlegs - n.nvirt)

/-- Leg specifications of `OneSiteTDVP._split_updated_site(node_id, next_node_id)`. -/
def tdvpSpecs (node : NodeS) (next : Id) : Option (LegSpec × LegSpec) :=
  if next ∈ node.children then
    some (⟨node.parent, node.children.erase next, openIdx node, node.isRoot⟩, ⟨none, [next], [], false⟩)
  else if node.parent = some next then
    some (⟨none, node.children, openIdx node, false⟩, ⟨node.parent, [], [], false⟩)
  else none

/-- `_build_qr_leg_specs(node, min_neighbour_id)`. -/
def canonSpecs (node : NodeS) (nb : Id) : Option (LegSpec × LegSpec) :=
  if node.parent = some nb then
    some (⟨none, node.children, openIdx node, node.isRoot⟩, ⟨some nb, [], [], false⟩)
  else if nb ∉ node.children then none                              -- list.remove raises
  else some (⟨node.parent, node.children.erase nb, openIdx node, node.isRoot⟩, ⟨none, [nb], [], false⟩)

/-- `OneSiteTDVP._update_link(a, b)`; `link` = `create_link_id(a, b)`; `bd` = dimension of the new bond. -/
def linkUpdate (t : TTN) (a b link : Id) (bd : Nat) : Option TTN := do
  let node ← dget t.nodes a
  let (q, r) ← tdvpSpecs node b
  let t1 ← t.splitNodes a q r a link bd
  let (t2, _) ← t1.access link                     -- the link tensor is read, evolved and stored back
  t2.contractNodes link b b

/-- `split_qr_contract_r_to_neighbour(ttn, a, b)`; `rid` = the uuid of the R tensor. -/
def centreMove (t : TTN) (a b rid : Id) (bd : Nat) : Option TTN := do
  let node ← dget t.nodes a
  let (q, r) ← canonSpecs node b
  let t1 ← t.splitNodes a q r a rid bd
  t1.contractNodes b rid b

/-- `TwoSiteTDVP._update_two_site_nodes(a, b)`; `ts` = `create_two_site_id(a, b)`. -/
def twoSiteUpdate (t : TTN) (a b ts : Id) (bd : Nat) : Option TTN := do
  let (u, v) ← t.legsBeforeCombination a b
  let t1 ← t.contractNodes a b ts
  let (t2, _) ← t1.access ts                       -- psi = tensors[ts]; tensors[ts] = evolved psi
  t2.splitNodes ts u v a b bd

/-- `svd_truncation.contract_and_split_with_parent(a, parent)`; `ts` = the uuid of the contracted node. -/
def contractSplit (t : TTN) (a b ts : Id) (bd : Nat) : Option TTN := do
  let (u, v) ← t.legsBeforeCombination a b
  let t1 ← t.contractNodes a b ts
  t1.splitNodes ts u v a b bd

/-! ### recursive truncation -/

/-- Identifiers of the temporary nodes for the edge to child `c`: `identity_id`, `projector_identifier(…, True)`
    (the conjugated projector, stays next to the node), `projector_identifier(…, False)`. -/
structure TempIds where
  ident : Id → Id
  star : Id → Id
  proj : Id → Id

/-- `insert_projection_operator_and_conjugate(child, node, projector, tree)`; `k` = kept bond dimension. -/
def insertProjectors (t : TTN) (n c : Id) (ids : TempIds) (k : Nat) : Option TTN := do
  let t1 ← t.insertIdentity c n (ids.ident c)
  t1.splitNodes (ids.ident c) ⟨some n, [], [], false⟩ ⟨none, [c], [], false⟩ (ids.star c) (ids.proj c) k

/-- `contract_all_children(node_id, new_identifier)`. -/
def contractAllChildren (t : TTN) (n new : Id) : Option TTN := do
  let node ← dget t.nodes n
  node.children.foldlM (fun (t : TTN) c => t.contractNodes n c new) t

/-- First loop of `truncate_node`: for every original child, read the node tensor (for the projector) and
    insert projector and conjugate. -/
def truncLoop1 (t : TTN) (n : Id) (ids : TempIds) (kdim : Id → Nat) (cs : List Id) : Option TTN :=
  cs.foldlM (fun (t : TTN) c => do
    let (t', _) ← t.access n
    insertProjectors t' n c ids (kdim c)) t

/-- Third loop of `truncate_node`: every (projector) child of the node is contracted with its only child. -/
def truncLoop3 (t : TTN) (ps : List Id) : Option TTN :=
  ps.foldlM (fun (t : TTN) p => do
    let pn ← dget t.nodes p
    if pn.children.length ≠ 1 then none                          -- assert
    let oc ← pn.children[0]?
    t.contractAllChildren p oc) t

/-- `truncate_node` without the recursive calls. -/
def truncateNodeStep (t : TTN) (n : Id) (ids : TempIds) (kdim : Id → Nat) : Option TTN := do
  let node ← dget t.nodes n
  let t1 ← truncLoop1 t n ids kdim node.children
  let t2 ← t1.contractAllChildren n n
  let node2 ← dget t2.nodes n
  truncLoop3 t2 node2.children

/-- `truncate_node(node_id, tree, svd_params)`; `fuel` bounds the recursion depth (the height of the tree). -/
def truncateNode : Nat → TTN → Id → TempIds → (Id → Nat) → Option TTN
  | 0, _, _, _, _ => none
  | fuel + 1, t, n, ids, kdim => do
    let node ← dget t.nodes n
    let t3 ← truncateNodeStep t n ids kdim
    node.children.foldlM (fun (t : TTN) c => truncateNode fuel t c ids kdim) t3

/-- The temporary identifiers used by the driver: beyond every identifier in use (`m`), three per child. -/
def arithIds (m : Nat) : TempIds := ⟨fun c => m + 3 * c, fun c => m + 3 * c + 1, fun c => m + 3 * c + 2⟩

/-- `recursive_truncation` between its two canonicalisations (those are `centreMove`s). -/
def recursiveTruncation (t : TTN) (kdim : Id → Nat) : Option TTN := do
  let r ← t.root
  let m := (t.nodes.map (·.1)).foldl max 0 + 1
  truncateNode (t.nodes.length + 1) t r (arithIds m) kdim

end TTN
end Ptn.C02
