import Ptn.C02.Labels
import Ptn.C02.TTNLemmas
/-! The open axes of the whole network in a canonical order (by node identifier, then by position), and a
criterion for two networks to have the same open axes up to order.  Core Lean only. -/
namespace Ptn.C02
open NodeS

/-- One more than the largest identifier in use. -/
def TTN.bound (t : TTN) : Nat := (t.nodes.map (·.1)).foldl max 0 + 1

/-- The open axes of the nodes with identifier `< M`, by identifier, then by position. -/
def TTN.openUpTo (t : TTN) (M : Nat) : List Axis := (List.range M).flatMap t.openAxes

/-- **The open axes of the network in canonical order**: by node identifier, then by position in the node. -/
def TTN.openList (t : TTN) : List Axis := t.openUpTo t.bound

theorem keys_le_foldl_max (l : List Nat) (a : Nat) : a ≤ l.foldl max a ∧ ∀ x ∈ l, x ≤ l.foldl max a := by
  induction l generalizing a with
  | nil => simp
  | cons y l ih =>
    simp only [List.foldl_cons]
    obtain ⟨h1, h2⟩ := ih (max a y)
    refine ⟨by omega, ?_⟩
    intro x hx
    rcases List.mem_cons.mp hx with rfl | hm
    · omega
    · exact h2 x hm

theorem N_none_above (t : TTN) (k : Nat) (hk : t.bound ≤ k) : t.N k = none := by
  unfold TTN.N
  cases hg : dget t.nodes k with
  | none => rfl
  | some v =>
    exfalso
    have hmem : k ∈ t.nodes.map Prod.fst := (dhas_eq_mem_keys t.nodes k).mp (dhas_of_dget hg)
    have h2 : (k : Nat) ≤ ((t.nodes.map Prod.fst).foldl max 0 : Nat) :=
      (keys_le_foldl_max (t.nodes.map Prod.fst) 0).2 k hmem
    unfold TTN.bound at hk
    have e : (t.nodes.map (·.1)) = t.nodes.map Prod.fst := rfl
    rw [e] at hk
    omega

theorem openAxes_above (t : TTN) (k : Nat) (hk : t.bound ≤ k) : t.openAxes k = [] :=
  openAxes_none (N_none_above t k hk)

theorem openUpTo_ge (t : TTN) (M : Nat) (hM : t.bound ≤ M) : t.openUpTo M = t.openList := by
  unfold TTN.openList TTN.openUpTo
  have e : List.range M = List.range t.bound ++ List.range' t.bound (M - t.bound) := by
    rw [List.range_eq_range', List.range_eq_range']
    have := List.range'_append_1 (s := 0) (m := t.bound) (n := M - t.bound)
    simp only [Nat.zero_add] at this
    rw [this]
    congr 1
    omega
  rw [e, List.flatMap_append]
  have : (List.range' t.bound (M - t.bound)).flatMap t.openAxes = [] := by
    rw [List.flatMap_eq_nil_iff]
    intro x hx
    rw [List.mem_range'_1] at hx
    exact openAxes_above t x hx.1
  rw [this, List.append_nil]

theorem foldl_max_bound (D : List Nat) (a : Nat) : ∀ x ∈ D, x ≤ D.foldl max a :=
  (keys_le_foldl_max D a).2

/-- If two networks have the same open axes at every node outside a finite set `D`, and on `D` the same
    open axes up to order, then their lists of open axes are permutations of each other. -/
theorem openList_perm_of_local {t t' : TTN} (D : List Id) (hD : D.Nodup)
    (hsame : ∀ k, k ∉ D → t'.openAxes k = t.openAxes k)
    (hperm : (D.flatMap t'.openAxes).Perm (D.flatMap t.openAxes)) :
    t'.openList.Perm t.openList := by
  let M := max (max t.bound t'.bound) (D.foldl max 0 + 1)
  have hM1 : t.bound ≤ M := Nat.le_trans (Nat.le_max_left _ _) (Nat.le_max_left _ _)
  have hM2 : t'.bound ≤ M := Nat.le_trans (Nat.le_max_right _ _) (Nat.le_max_left _ _)
  have hMD : ∀ x ∈ D, x < M := by
    intro x hx
    have := foldl_max_bound D 0 x hx
    exact Nat.lt_of_lt_of_le (Nat.lt_succ_of_le this) (Nat.le_max_right _ _)
  rw [← openUpTo_ge t M hM1, ← openUpTo_ge t' M hM2]
  unfold TTN.openUpTo
  let R := (List.range M).filter (fun k => decide (k ∉ D))
  have hRnd : R.Nodup := List.Nodup.sublist List.filter_sublist List.nodup_range
  have hsplit : (List.range M).Perm (D ++ R) := by
    rw [List.perm_ext_iff_of_nodup List.nodup_range]
    · intro a
      simp only [List.mem_range, List.mem_append, R, List.mem_filter, decide_eq_true_eq]
      constructor
      · intro ha
        by_cases hd : a ∈ D
        · exact Or.inl hd
        · exact Or.inr ⟨ha, hd⟩
      · rintro (hd | ⟨ha, _⟩)
        · exact hMD a hd
        · exact ha
    · rw [List.nodup_append]
      refine ⟨hD, hRnd, ?_⟩
      intro a ha b hb e
      subst e
      simp only [R, List.mem_filter, decide_eq_true_eq] at hb
      exact hb.2 ha
  have h1 := List.Perm.flatMap_right t'.openAxes hsplit
  have h2 := List.Perm.flatMap_right t.openAxes hsplit
  rw [List.flatMap_append] at h1 h2
  have hR : R.flatMap t'.openAxes = R.flatMap t.openAxes := by
    have : ∀ (l : List Id), (∀ k ∈ l, k ∉ D) → l.flatMap t'.openAxes = l.flatMap t.openAxes := by
      intro l
      induction l with
      | nil => intro _; rfl
      | cons a l ih =>
        intro hl
        rw [List.flatMap_cons, List.flatMap_cons, hsame a (hl a (by simp)),
          ih (fun k hk => hl k (List.mem_cons_of_mem _ hk))]
    apply this
    intro k hk
    simp only [R, List.mem_filter, decide_eq_true_eq] at hk
    exact hk.2
  rw [hR] at h1
  exact h1.trans ((List.Perm.append_right _ hperm).trans h2.symm)

/-- The same open axes at every node: the same list. -/
theorem openList_perm_of_same {t t' : TTN} (hsame : ∀ k, t'.openAxes k = t.openAxes k) :
    t'.openList.Perm t.openList :=
  openList_perm_of_local [] List.nodup_nil (fun k _ => hsame k) (List.Perm.refl _)

end Ptn.C02
