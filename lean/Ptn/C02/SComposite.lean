import Ptn.C02.SGraph
/-! Pure graph layer: what two-operation composites (split + contract, contract + split) do.
Core Lean only. -/
namespace Ptn.C02

/-- `bot` becomes the first child of `top`; nothing else changes. -/
def promoteS (S : Id → Option Struct) (top bot : Id) : Id → Option Struct :=
  fun k => if k = top then (S top).map (fun s => (s.1, bot :: s.2.erase bot)) else S k

/-- `bot` becomes the last child of `top`; nothing else changes. -/
def demoteS (S : Id → Option Struct) (top bot : Id) : Id → Option Struct :=
  fun k => if k = top then (S top).map (fun s => (s.1, s.2.erase bot ++ [bot])) else S k

theorem map_ite_self (l : List Id) (a : Id) : l.map (fun c => if c = a then a else c) = l := by
  have : (fun c => if c = a then a else c) = (id : Id → Id) := by
    funext c; by_cases hc : c = a <;> simp [hc]
  rw [this]; simp

theorem map_ite_not_mem (l : List Id) (a b : Id) (h : a ∉ l) :
    l.map (fun c => if c = a then b else c) = l := by
  induction l with
  | nil => rfl
  | cons x l ih =>
    have hx : ¬ x = a := fun e => h (by simp [e])
    have hl : a ∉ l := fun hm => h (List.mem_cons_of_mem _ hm)
    simp [hx, ih hl]

theorem erase_map_ite (l : List Id) (a f : Id) (hnd : l.Nodup) (hf : f ∉ l) :
    (l.map (fun c => if c = a then f else c)).erase f = l.erase a := by
  induction l with
  | nil => rfl
  | cons x l ih =>
    rw [List.nodup_cons] at hnd
    have hfx : ¬ x = f := fun e => hf (by simp [e])
    have hfl : f ∉ l := fun hm => hf (List.mem_cons_of_mem _ hm)
    by_cases hx : x = a
    · subst hx
      have : x ∉ l := hnd.1
      simp [map_ite_not_mem l x f this]
    · have hne : ¬ x = f := hfx
      simp only [List.map_cons, hx, if_false]
      rw [List.erase_cons_tail (by simpa using hne), List.erase_cons_tail (by simpa using hx), ih hnd.2 hfl]

namespace SWF
variable {S : Id → Option Struct} {Tk : Id → Bool} {root : Option Id}

theorem fresh_not_child (h : SWF S Tk root) {f k : Id} {pp : Option Id} {ch : List Id}
    (hf : S f = none) (hk : S k = some (pp, ch)) : f ∉ ch := by
  intro hm
  obtain ⟨x, e⟩ := h.down k pp ch f hk hm
  rw [hf] at e; simp at e

theorem fresh_not_parent (h : SWF S Tk root) {f k : Id} {ch : List Id}
    (hf : S f = none) : S k ≠ some (some f, ch) := by
  intro hk
  obtain ⟨pp, pch, e, _⟩ := h.up k f ch hk
  rw [hf] at e; simp at e

theorem child_of_iff (h : SWF S Tk root) {a k : Id} {gp pp : Option Id} {Ach ch : List Id}
    (hA : S a = some (gp, Ach)) (hk : S k = some (pp, ch)) : pp = some a ↔ k ∈ Ach := by
  constructor
  · intro e
    obtain ⟨pp', pch, e1, e2⟩ := h.up k a ch (by rw [hk, e])
    rw [hA] at e1; simp at e1; rw [e1.2]; exact e2
  · intro hm
    obtain ⟨cch, e1⟩ := h.down a gp Ach k hA hm
    rw [hk] at e1; simp at e1; exact e1.1

theorem parent_of_iff (h : SWF S Tk root) {a k : Id} {gp pp : Option Id} {Ach ch : List Id}
    (hA : S a = some (gp, Ach)) (hk : S k = some (pp, ch)) : a ∈ ch ↔ gp = some k := by
  constructor
  · intro hm
    obtain ⟨cch, e1⟩ := h.down k pp ch a hk hm
    rw [hA] at e1; simp at e1; exact e1.1
  · intro e
    obtain ⟨pp', pch, e1, e2⟩ := h.up a k Ach (by rw [hA, e])
    rw [hk] at e1; simp at e1; rw [e1.2]; exact e2

end SWF

/-! ### split the upper node, contract the link into the lower node (target `b` is a child of `a`) -/

theorem link_down_S {S : Id → Option Struct} {Tk : Id → Bool} {root : Option Id} (h : SWF S Tk root)
    {a b link : Id} {gp : Option Id} {Ach Bch : List Id}
    (hA : S a = some (gp, Ach)) (hB : S b = some (some a, Bch)) (hl : S link = none) :
    contractS (splitS S a a link gp (Ach.erase b) [b]) link b b (some a) Bch = promoteS S a b := by
  have hab : a ≠ b := h.parent_ne hB
  have hal : a ≠ link := by intro e; rw [e, hl] at hA; simp at hA
  have hbl : b ≠ link := by intro e; rw [e, hl] at hB; simp at hB
  have hlA : link ∉ Ach := h.fresh_not_child hl hA
  funext k
  unfold contractS promoteS
  have hba : ¬ b = a := fun e => hab e.symm
  have hla : ¬ link = a := fun e => hal e.symm
  by_cases hkb : k = b
  · rw [hkb]; simp [hba, hB]
  · simp only [hkb, if_false]
    by_cases hkl : k = link
    · rw [hkl]; simp [hla, hl, fun e : link = b => hbl e.symm]
    · simp only [hkl, false_or, if_false]
      unfold splitS
      by_cases hka : k = a
      · subst hka
        simp only [if_true, Option.map_some, hA]
        simp only [contractRen]
        congr 1
        have hle : link ∉ Ach.erase b := fun hm => hlA (List.mem_of_mem_erase hm)
        have e1 : (link :: Ach.erase b).map (fun c => if c = link then b else c) = b :: Ach.erase b := by
          simp [map_ite_not_mem _ link b hle]
        refine Prod.ext ?_ e1
        cases gp with
        | none => rfl
        | some g =>
          have : ¬ g = link := by
            intro e
            exact h.fresh_not_parent (k := k) (ch := Ach) hl (by rw [hA, e])
          by_cases hg : g = b <;> simp [this, hg]
      · simp only [hka, hkl, if_false]
        cases hk : S k with
        | none => simp
        | some s =>
          obtain ⟨pp, ch⟩ := s
          simp only [Option.map_some, splitRen, contractRen]
          congr 1
          have hlc : link ∉ ch := h.fresh_not_child hl hk
          have e2 : (ch.map (fun c => if c = a then a else c)).map (fun c => if c = link then b else c) = ch := by
            rw [map_ite_self, map_ite_not_mem _ _ _ hlc]
          refine Prod.ext ?_ e2
          cases pp with
          | none => rfl
          | some p =>
            have hpl : ¬ p = link := by
              intro e; exact h.fresh_not_parent (k := k) (ch := ch) hl (by rw [hk, e])
            by_cases hpa : p = a
            · have hkA : k ∈ Ach := (h.child_of_iff hA hk).mp (by rw [hpa])
              have hkAe : k ∈ Ach.erase b := (List.mem_erase_of_ne hkb).mpr hkA
              simp [hpa, hkAe, hal, hab]
            · by_cases hpb : p = b
              · simp [hpb, hba]
              · simp [hpa, hpl, hpb]

/-! ### split the lower node, contract the link into the upper node (target `b` is the parent of `a`) -/

theorem link_up_S {S : Id → Option Struct} {Tk : Id → Bool} {root : Option Id} (h : SWF S Tk root)
    {a b link : Id} {gpb : Option Id} {Ach Bch : List Id} (K' : List Id)
    (hA : S a = some (some b, Ach)) (hB : S b = some (gpb, Bch)) (hl : S link = none) :
    contractS (splitS S a link a (some b) [] Ach) b link b gpb K' =
      fun k => if k = b then some (gpb, K') else S k := by
  have hba : b ≠ a := h.parent_ne hA
  have hab : ¬ a = b := fun e => hba e.symm
  have hal : ¬ a = link := by intro e; rw [e, hl] at hA; simp at hA
  have hbl : ¬ b = link := by intro e; rw [e, hl] at hB; simp at hB
  have hlb : ¬ link = b := fun e => hbl e.symm
  have hla : ¬ link = a := fun e => hal e.symm
  funext k
  unfold contractS
  by_cases hkb : k = b
  · simp [hkb]
  · simp only [hkb, if_false, false_or]
    by_cases hkl : k = link
    · rw [hkl]; simp [hl]
    · simp only [hkl, if_false]
      unfold splitS
      by_cases hka : k = a
      · rw [hka]
        simp only [hal, if_false, if_true, Option.map_some, contractRen, hA]
        simp [map_ite_self]
      · simp only [hka, hkl, if_false]
        cases hk : S k with
        | none => simp
        | some s =>
          obtain ⟨pp, ch⟩ := s
          simp only [Option.map_some, splitRen, contractRen]
          congr 1
          have hac : a ∉ ch := by
            intro hm
            have := (h.parent_of_iff hA hk).mp hm
            simp at this; exact hkb this.symm
          have e2 : (ch.map (fun c => if c = a then link else c)).map (fun c => if c = b then b else c) = ch := by
            rw [map_ite_self, map_ite_not_mem _ _ _ hac]
          refine Prod.ext ?_ e2
          cases pp with
          | none => rfl
          | some p =>
            have hpl : ¬ p = link := by
              intro e; exact h.fresh_not_parent (k := k) (ch := ch) hl (by rw [hk, e])
            by_cases hpa : p = a
            · simp [hpa, hab, hal]
            · by_cases hpb : p = b
              · simp [hpb, hba]
              · simp [hpa, hpl, hpb]

/-! ### contract an edge into `ts`, split `ts` again with the upper node taking the parent -/

theorem map_map_ite_back (l : List Id) (a f : Id) (hf : f ∉ l) :
    (l.map (fun c => if c = a then f else c)).map (fun c => if c = f then a else c) = l := by
  induction l with
  | nil => rfl
  | cons x l ih =>
    have hx : ¬ x = f := fun e => hf (by simp [e])
    have hl : f ∉ l := fun hm => hf (List.mem_cons_of_mem _ hm)
    by_cases hxa : x = a
    · simp [hxa, ih hl]
    · simp [hxa, hx, ih hl]

theorem two_site_S {S : Id → Option Struct} {Tk : Id → Bool} {root : Option Id} (h : SWF S Tk root)
    {top bot ts : Id} {gp : Option Id} {Tch Bch : List Id} (K' : List Id)
    (hT : S top = some (gp, Tch)) (hB : S bot = some (some top, Bch)) (hts : S ts = none) :
    splitS (contractS S top bot ts gp K') ts top bot gp (Tch.erase bot) Bch = promoteS S top bot := by
  have htb : top ≠ bot := h.parent_ne hB
  have hbt : ¬ bot = top := fun e => htb e.symm
  have htt : ¬ top = ts := by intro e; rw [e, hts] at hT; simp at hT
  have hbs : ¬ bot = ts := by intro e; rw [e, hts] at hB; simp at hB
  have hst : ¬ ts = top := fun e => htt e.symm
  have hsb : ¬ ts = bot := fun e => hbs e.symm
  funext k
  unfold splitS promoteS
  by_cases hkt : k = top
  · rw [hkt]; simp [hT]
  · simp only [hkt, if_false]
    by_cases hkb : k = bot
    · rw [hkb]; simp [hB]
    · simp only [hkb, if_false]
      by_cases hks : k = ts
      · rw [hks]; simp [hts]
      · simp only [hks, if_false]
        unfold contractS
        simp only [hks, hkt, hkb, if_false, false_or]
        cases hk : S k with
        | none => simp
        | some s =>
          obtain ⟨pp, ch⟩ := s
          simp only [Option.map_some, splitRen, contractRen]
          congr 1
          have hsc : ts ∉ ch := h.fresh_not_child hts hk
          refine Prod.ext ?_ (map_map_ite_back ch top ts hsc)
          cases pp with
          | none => rfl
          | some p =>
            have hps : ¬ p = ts := by
              intro e; exact h.fresh_not_parent (k := k) (ch := ch) hts (by rw [hk, e])
            by_cases hpt : p = top
            · have hkT : k ∈ Tch := (h.child_of_iff hT hk).mp (by rw [hpt])
              have : k ∈ Tch.erase bot := (List.mem_erase_of_ne hkb).mpr hkT
              simp [hpt, this]
            · by_cases hpb : p = bot
              · have hnot : k ∉ Tch.erase bot := by
                  intro hm
                  have := (h.child_of_iff hT hk).mpr (List.mem_of_mem_erase hm)
                  simp at this; exact hpt this
                simp [hpb, hnot]
              · simp [hpt, hpb, hps]

/-! ### the three per-child steps of `truncate_node` -/

theorem map_map_ite_chain (l : List Id) (c i s : Id) (hi : i ∉ l) :
    (l.map (fun x => if x = c then i else x)).map (fun x => if x = i then s else x) =
      l.map (fun x => if x = c then s else x) := by
  induction l with
  | nil => rfl
  | cons x l ih =>
    have hx : ¬ x = i := fun e => hi (by simp [e])
    have hl : i ∉ l := fun hm => hi (List.mem_cons_of_mem _ hm)
    by_cases hxc : x = c
    · simp [hxc, ih hl]
    · simp [hxc, hx, ih hl]

/-- `insert_identity(c, n, i)` then `split_node_replace(i, …, s, p, (n,[],[]), (None,[c],[]))`. -/
theorem insert_proj_S {S : Id → Option Struct} {Tk : Id → Bool} {root : Option Id} (h : SWF S Tk root)
    {n c i s p : Id} {gp : Option Id} {L cch : List Id}
    (hN : S n = some (gp, L)) (hC : S c = some (some n, cch))
    (hi : S i = none) (hs : S s = none) (hp : S p = none) (his : i ≠ s) (hip : i ≠ p) (hsp : s ≠ p) :
    splitS (subdivideS S c n i cch gp L) i s p (some n) [] [c] =
      fun k => if k = s then some (some n, [p]) else if k = p then some (some s, [c])
               else if k = c then some (some p, cch)
               else if k = n then some (gp, L.map (fun x => if x = c then s else x)) else S k := by
  have hnc : n ≠ c := h.parent_ne hC
  have hne : ∀ {k st f}, S k = some st → S f = none → ¬ k = f := by
    intro k st f hk hf e; rw [e, hf] at hk; simp at hk
  have hci : ¬ c = i := hne hC hi
  have hcs : ¬ c = s := hne hC hs
  have hcp : ¬ c = p := hne hC hp
  have hni : ¬ n = i := hne hN hi
  have hns : ¬ n = s := hne hN hs
  have hnp : ¬ n = p := hne hN hp
  have hiL : i ∉ L := h.fresh_not_child hi hN
  have hic : i ∉ cch := h.fresh_not_child hi hC
  funext k
  unfold splitS
  by_cases hks : k = s
  · simp [hks]
  · simp only [hks, if_false]
    by_cases hkp : k = p
    · simp [hkp]
    · simp only [hkp, if_false]
      by_cases hki : k = i
      · rw [hki]
        have : ¬ i = c := fun e => hci e.symm
        have h2 : ¬ i = n := fun e => hni e.symm
        simp [this, h2, hi]
      · simp only [hki, if_false]
        unfold subdivideS
        simp only [hki, if_false]
        by_cases hkc : k = c
        · rw [hkc]
          simp only [if_true, Option.map_some, splitRen]
          simp [map_ite_not_mem _ _ _ hic]
        · simp only [hkc, if_false]
          by_cases hkn : k = n
          · rw [hkn]
            simp only [if_true, Option.map_some, splitRen]
            congr 1
            refine Prod.ext ?_ (map_map_ite_chain L c i s hiL)
            cases gp with
            | none => rfl
            | some g =>
              have : ¬ g = i := by
                intro e
                exact h.fresh_not_parent (k := n) (ch := L) hi (by rw [hN, e])
              simp [this]
          · simp only [hkn, if_false]
            cases hk : S k with
            | none => simp
            | some st =>
              obtain ⟨pp, ch⟩ := st
              simp only [Option.map_some, splitRen]
              congr 1
              refine Prod.ext ?_ (map_ite_not_mem _ _ _ (h.fresh_not_child hi hk))
              cases pp with
              | none => rfl
              | some q =>
                have : ¬ q = i := by
                  intro e; exact h.fresh_not_parent (k := k) (ch := ch) hi (by rw [hk, e])
                simp [this]

/-- `contract_nodes(n, s, new_identifier=n)` where `s` (the conjugated projector) has the single child `p`. -/
theorem contract_star_S {S : Id → Option Struct} {Tk : Id → Bool} {root : Option Id} (h : SWF S Tk root)
    {n s p : Id} {gp : Option Id} {L pch : List Id} (K' : List Id)
    (hN : S n = some (gp, L)) (hS : S s = some (some n, [p])) (hP : S p = some (some s, pch)) :
    contractS S n s n gp K' =
      fun k => if k = n then some (gp, K') else if k = s then none
               else if k = p then some (some n, pch) else S k := by
  have hns : n ≠ s := h.parent_ne hS
  have hsp : s ≠ p := h.parent_ne hP
  funext k
  unfold contractS
  by_cases hkn : k = n
  · simp [hkn]
  · simp only [hkn, if_false, false_or]
    by_cases hks : k = s
    · simp [hks]
    · simp only [hks, if_false]
      by_cases hkp : k = p
      · rw [hkp]
        simp [hP, contractRen, map_ite_self]
      · simp only [hkp, if_false]
        cases hk : S k with
        | none => simp
        | some st =>
          obtain ⟨pp, ch⟩ := st
          simp only [Option.map_some, contractRen]
          congr 1
          refine Prod.ext ?_ (map_ite_self ch n)
          cases pp with
          | none => rfl
          | some q =>
            by_cases hq : q = s
            · exfalso
              have := (h.child_of_iff hS hk).mp (by rw [hq])
              simp at this; exact hkp this
            · by_cases hqn : q = n <;> simp [hq, hqn]

/-- `contract_nodes(p, c, new_identifier=c)` where the projector `p` has the single child `c`. -/
theorem contract_proj_S {S : Id → Option Struct} {Tk : Id → Bool} {root : Option Id} (h : SWF S Tk root)
    {n p c : Id} {gp : Option Id} {L cch : List Id} (K' : List Id)
    (hN : S n = some (gp, L)) (hP : S p = some (some n, [c])) (hC : S c = some (some p, cch)) :
    contractS S p c c (some n) K' =
      fun k => if k = c then some (some n, K') else if k = p then none
               else if k = n then some (gp, L.map (fun x => if x = p then c else x)) else S k := by
  have hnp : n ≠ p := h.parent_ne hP
  have hpc : p ≠ c := h.parent_ne hC
  have hnc : ¬ n = c := by
    intro e
    rw [← e] at hC
    rw [hN] at hC; simp at hC
    exact h.no_two_cycle (a := n) (b := p) (by rw [hN, hC.1]) hP
  funext k
  unfold contractS
  by_cases hkc : k = c
  · simp [hkc]
  · simp only [hkc, if_false, or_false]
    by_cases hkp : k = p
    · simp [hkp]
    · simp only [hkp, if_false]
      by_cases hkn : k = n
      · rw [hkn]
        simp only [if_true, hN, Option.map_some, contractRen]
        congr 1
        refine Prod.ext ?_ rfl
        cases gp with
        | none => rfl
        | some g =>
          have g1 : ¬ g = p := by
            intro e
            exact h.no_two_cycle (a := n) (b := p) (by rw [hN, e]) hP
          by_cases g2 : g = c <;> simp [g1, g2]
      · simp only [hkn, if_false]
        cases hk : S k with
        | none => simp
        | some st =>
          obtain ⟨pp, ch⟩ := st
          simp only [Option.map_some, contractRen]
          congr 1
          have hpch : p ∉ ch := by
            intro hm
            have := (h.parent_of_iff hP hk).mp hm
            simp at this; exact hkn this.symm
          refine Prod.ext ?_ (map_ite_not_mem _ _ _ hpch)
          cases pp with
          | none => rfl
          | some q =>
            by_cases hq : q = p
            · exfalso
              have := (h.child_of_iff hP hk).mp (by rw [hq])
              simp at this; exact hkc this
            · by_cases hqc : q = c <;> simp [hq, hqc]

end Ptn.C02
