import Ptn.C02.Composite
import Ptn.C02.SView
import Ptn.C02.SComposite
import Ptn.C02.OpsLabels
/-! The composite edits of `Composite.lean` restore the tree: identifiers, root, parent map and children
sets are unchanged; the lower node of the pair becomes the first (for the canonical-form move towards
the parent: the last) child of the upper node.  Core Lean only. -/
namespace Ptn.C02
open NodeS

theorem root_of_parent_none {t : TTN} (h : t.WF) {a : Id} {A : NodeS} (hA : t.N a = some A)
    (hp : A.parent = none) : t.root = some a :=
  h.str.root_uniq a A.children (by rw [TTN.S_eq hA, hp])

/-- Splitting the upper node `a` towards its child `b` (specifications of `_split_updated_site` /
    `_build_qr_leg_specs`). -/
theorem split_down {P : Prop} {O : Id → List Axis} {t t1 : TTN} {a b link : Id} {A : NodeS} {bd : Nat}
    {opens : List Nat} (hx : t.WFX P O)
    (hA : t.N a = some A) (hb : b ∈ A.children) (hl : t.N link = none) (hop : P → opens = TTN.openIdx A)
    (hs : t.splitNodes a ⟨A.parent, A.children.erase b, opens, A.isRoot⟩ ⟨none, [b], [], false⟩ a link bd
      = some t1) :
    t1.WFX P O ∧ t1.S = splitS t.S a a link A.parent (A.children.erase b) [b] ∧ t1.root = t.root := by
  have h := hx.wf
  have adm : SplitAdm t a A ⟨A.parent, A.children.erase b, opens, A.isRoot⟩ ⟨none, [b], [], false⟩ a link := by
    refine ⟨hA, Or.inl rfl, Or.inr hl, ?_, ?_⟩
    · simp only
      have : (A.children.erase b ++ [b]).Perm (b :: A.children.erase b) := List.perm_append_comm
      exact this.trans (List.perm_cons_erase hb).symm
    · cases hp : A.parent with
      | none => exact Or.inr ⟨rfl, rfl, rfl, Or.inl ⟨by simp [NodeS.isRoot, hp], rfl⟩⟩
      | some p => exact Or.inl ⟨p, rfl, by simp [NodeS.isRoot, hp], rfl, Or.inl ⟨rfl, rfl⟩⟩
  refine ⟨⟨split_nodes_wf_aux h adm hs, fun hp => split_lwf h (hx.lwf hp) adm hs,
    fun hp k => (split_open_same h adm hl (hop hp) rfl hs k).trans (hx.op hp k)⟩, ?_⟩
  obtain ⟨a', b', aCh, bCh, hcfg, hS, hR⟩ := split_S_eq h adm hs
  rcases hcfg with ⟨rfl, rfl, rfl, rfl, _⟩ | ⟨_, _, _, _, hc⟩
  · refine ⟨hS, ?_⟩
    rw [hR]
    by_cases hp : A.parent = none
    · rw [if_pos hp, root_of_parent_none h hA hp]
    · rw [if_neg hp]
  · simp at hc

/-- Splitting the lower node `a` towards its parent `b`. -/
theorem split_up {P : Prop} {O : Id → List Axis} {t t1 : TTN} {a b link : Id} {A : NodeS} {bd : Nat}
    {opens : List Nat} {r : Bool} (hx : t.WFX P O)
    (hA : t.N a = some A) (hp : A.parent = some b) (hl : t.N link = none) (hr : r = false)
    (hop : P → opens = TTN.openIdx A)
    (hs : t.splitNodes a ⟨none, A.children, opens, r⟩ ⟨some b, [], [], false⟩ a link bd = some t1) :
    t1.WFX P O ∧ t1.S = splitS t.S a link a (some b) [] A.children ∧ t1.root = t.root := by
  have h := hx.wf
  subst hr
  have adm : SplitAdm t a A ⟨none, A.children, opens, false⟩ ⟨some b, [], [], false⟩ a link := by
    refine ⟨hA, Or.inl rfl, Or.inr hl, by simp, ?_⟩
    exact Or.inl ⟨b, hp, rfl, rfl, Or.inr ⟨rfl, rfl⟩⟩
  refine ⟨⟨split_nodes_wf_aux h adm hs, fun hq => split_lwf h (hx.lwf hq) adm hs,
    fun hq k => (split_open_same h adm hl (hop hq) rfl hs k).trans (hx.op hq k)⟩, ?_⟩
  obtain ⟨a', b', aCh, bCh, hcfg, hS, hR⟩ := split_S_eq h adm hs
  rcases hcfg with ⟨_, _, _, _, hc⟩ | ⟨rfl, rfl, rfl, rfl, _⟩
  · simp at hc
  · refine ⟨by rw [hS, hp], ?_⟩
    rw [hR, hp]; simp

/-- Contracting the link into the lower node `b` after `split_down` (either argument order). -/
theorem contract_link_down {P : Prop} {O : Id → List Axis} {t t1 t' : TTN} {a b link id1 id2 : Id}
    {A B : NodeS} (h : t.WF) (hx1 : t1.WFX P O) (hOl : P → O link = [])
    (hA : t.N a = some A) (hB : t.N b = some B) (hBp : B.parent = some a) (hl : t.N link = none)
    (hS1 : t1.S = splitS t.S a a link A.parent (A.children.erase b) [b]) (hR1 : t1.root = t.root)
    (hids : (id1 = link ∧ id2 = b) ∨ (id1 = b ∧ id2 = link))
    (hc : t1.contractNodes id1 id2 b = some t') :
    t'.WFX P O ∧ t'.S = promoteS t.S a b ∧ t'.root = t.root := by
  have h1 := hx1.wf
  have hSA := TTN.S_eq hA
  have hSB : t.S b = some (some a, B.children) := by rw [TTN.S_eq hB, hBp]
  have hSl : t.S link = none := by simp [TTN.S, hl]
  have hab : a ≠ b := h.str.parent_ne hSB
  have hal : ¬ a = link := by intro e; rw [e, hl] at hA; simp at hA
  have hbl : ¬ b = link := by intro e; rw [e, hl] at hB; simp at hB
  have hla : ¬ link = a := fun e => hal e.symm
  have hba : ¬ b = a := fun e => hab e.symm
  have hnew : b = id1 ∨ b = id2 ∨ t1.N b = none := by
    rcases hids with ⟨_, e⟩ | ⟨e, _⟩
    · exact Or.inr (Or.inl e.symm)
    · exact Or.inl e.symm
  refine ⟨⟨contract_nodes_wf_aux h1 hnew hc, fun hq => contract_lwf h1 (hx1.lwf hq) hnew hc,
    fun hq k => (contract_open_same h1 hids (fun e => hbl e.symm)
      (by rw [hx1.op hq link]; exact hOl hq) hc k).trans (hx1.op hq k)⟩, ?_⟩
  obtain ⟨pid, cid, gp, Pch, Cch, hP, hC, hpc, hS', hR'⟩ := contract_S_eq h1 hnew hc
  -- the two nodes in the intermediate network
  have hb_notin : b ∉ A.children.erase b := by
    have hnd : A.children.Nodup := h.str.nodup a _ _ hSA
    exact fun hm => (List.Nodup.mem_erase_iff hnd).mp hm |>.1 rfl
  have e_link : t1.S link = some (some a, [b]) := by
    rw [hS1]; simp [splitS, hla]
  have e_b : t1.S b = some (some link, B.children) := by
    rw [hS1]; simp [splitS, hba, hbl, hSB, splitRen, hb_notin, map_ite_self]
  have hpid : pid = link ∧ cid = b := by
    rcases hpc with ⟨e1, e2⟩ | ⟨e1, e2⟩ <;> rcases hids with ⟨f1, f2⟩ | ⟨f1, f2⟩
    · exact ⟨e1.trans f1, e2.trans f2⟩
    · -- pid = b, cid = link: link's parent would be b
      exfalso
      rw [e2.trans f2, e_link, e1.trans f1] at hC
      simp at hC; exact hab hC.1
    · exfalso
      rw [e2.trans f1, e_link, e1.trans f2] at hC
      simp at hC; exact hab hC.1
    · exact ⟨e1.trans f2, e2.trans f1⟩
  obtain ⟨rfl, rfl⟩ := hpid
  rw [e_link] at hP
  rw [e_b] at hC
  simp at hP hC
  obtain ⟨rfl, rfl⟩ := hP
  subst hC
  have hK : (if id1 = pid then [cid].erase cid ++ B.children else B.children ++ [cid].erase cid) = B.children := by
    split <;> simp
  rw [hK, hS1] at hS'
  refine ⟨by rw [hS']; exact link_down_S h.str hSA hSB hSl, ?_⟩
  rw [hR', hR1]; simp

/-- Contracting the link into the upper node `b` after `split_up`: the new child list of `b` depends on the
    argument order of `contract_nodes`. -/
theorem contract_link_up {P : Prop} {O : Id → List Axis} {t t1 t' : TTN} {a b link id1 id2 : Id}
    {A B : NodeS} (h : t.WF) (hx1 : t1.WFX P O) (hOl : P → O link = [])
    (hA : t.N a = some A) (hB : t.N b = some B) (hAp : A.parent = some b) (hl : t.N link = none)
    (hS1 : t1.S = splitS t.S a link a (some b) [] A.children) (hR1 : t1.root = t.root)
    (hids : (id1 = link ∧ id2 = b) ∨ (id1 = b ∧ id2 = link))
    (hc : t1.contractNodes id1 id2 b = some t') :
    t'.WFX P O ∧ t'.root = t.root ∧
      t'.S = (if id1 = link then promoteS t.S b a else demoteS t.S b a) := by
  have h1 := hx1.wf
  have hSA : t.S a = some (some b, A.children) := by rw [TTN.S_eq hA, hAp]
  have hSB := TTN.S_eq hB
  have hSl : t.S link = none := by simp [TTN.S, hl]
  have hba : b ≠ a := h.str.parent_ne hSA
  have hab : ¬ a = b := fun e => hba e.symm
  have hal : ¬ a = link := by intro e; rw [e, hl] at hA; simp at hA
  have hbl : ¬ b = link := by intro e; rw [e, hl] at hB; simp at hB
  have hlb : ¬ link = b := fun e => hbl e.symm
  have hnew : b = id1 ∨ b = id2 ∨ t1.N b = none := by
    rcases hids with ⟨_, e⟩ | ⟨e, _⟩
    · exact Or.inr (Or.inl e.symm)
    · exact Or.inl e.symm
  refine ⟨⟨contract_nodes_wf_aux h1 hnew hc, fun hq => contract_lwf h1 (hx1.lwf hq) hnew hc,
    fun hq k => (contract_open_same h1 hids hlb
      (by rw [hx1.op hq link]; exact hOl hq) hc k).trans (hx1.op hq k)⟩, ?_⟩
  obtain ⟨pid, cid, gp, Pch, Cch, hP, hC, hpc, hS', hR'⟩ := contract_S_eq h1 hnew hc
  have hBpar : ¬ B.parent = some a := fun e =>
    h.str.no_two_cycle (a := b) (b := a) (by rw [hSB, e]) hSA
  have hBparl : ¬ B.parent = some link := fun e =>
    h.str.fresh_not_parent (k := b) (ch := B.children) hSl (by rw [hSB, e])
  have e_link : t1.S link = some (some b, [a]) := by
    rw [hS1]; simp [splitS]
  have e_b : t1.S b = some (B.parent, B.children.map (fun c => if c = a then link else c)) := by
    rw [hS1]
    simp only [splitS, hbl, hba, if_false, hSB, Option.map_some, splitRen]
    congr 1
    refine Prod.ext ?_ rfl
    cases hp : B.parent with
    | none => rfl
    | some p =>
      have : ¬ p = a := fun e => hBpar (by rw [hp, e])
      simp [this]
  have hpid : pid = b ∧ cid = link := by
    rcases hpc with ⟨e1, e2⟩ | ⟨e1, e2⟩ <;> rcases hids with ⟨f1, f2⟩ | ⟨f1, f2⟩
    · -- pid = link, cid = b: b's parent would be link
      exfalso
      rw [e2.trans f2, e_b, e1.trans f1] at hC
      simp at hC; exact hBparl hC.1
    · exact ⟨e1.trans f1, e2.trans f2⟩
    · exact ⟨e1.trans f2, e2.trans f1⟩
    · exfalso
      rw [e2.trans f1, e_b, e1.trans f2] at hC
      simp at hC; exact hBparl hC.1
  obtain ⟨rfl, rfl⟩ := hpid
  rw [e_b] at hP
  rw [e_link] at hC
  simp at hP hC
  obtain ⟨rfl, rfl⟩ := hP
  subst hC
  have hBnd : B.children.Nodup := h.str.nodup pid _ _ hSB
  have hlB : cid ∉ B.children := h.str.fresh_not_child hSl hSB
  have herase : (B.children.map (fun c => if c = a then cid else c)).erase cid = B.children.erase a :=
    erase_map_ite _ _ _ hBnd hlB
  rw [herase, hS1] at hS'
  have hup := fun K' => link_up_S h.str K' hSA hSB hSl
  refine ⟨?_, ?_⟩
  · rw [hR', hR1]
    by_cases hg : B.parent = none
    · rw [if_pos hg, root_of_parent_none h hB hg]
    · rw [if_neg hg]
  · rw [hS', hup]
    by_cases hid : id1 = cid
    · have hne : ¬ id1 = pid := by rw [hid]; exact hlb
      simp only [hid, if_true, hlb, if_false]
      funext k
      unfold promoteS
      by_cases hk : k = pid <;> simp [hk, hSB]
    · have hid' : id1 = pid := by
        rcases hids with ⟨e, _⟩ | ⟨e, _⟩
        · exact absurd e hid
        · exact e
      rw [hid']
      simp only [hbl, if_true, if_false]
      funext k
      unfold demoteS
      by_cases hk : k = pid <;> simp [hk, hSB]

theorem child_node {t : TTN} (h : t.WF) {a b : Id} {A : NodeS} (hA : t.N a = some A) (hb : b ∈ A.children) :
    ∃ B, t.N b = some B ∧ B.parent = some a := by
  obtain ⟨cch, e⟩ := h.str.down a _ _ b (TTN.S_eq hA) hb
  obtain ⟨B, hB, e2⟩ := TTN.N_of_S e
  simp at e2
  exact ⟨B, hB, e2.1.symm⟩

theorem parent_node {t : TTN} (h : t.WF) {a b : Id} {A : NodeS} (hA : t.N a = some A) (hp : A.parent = some b) :
    ∃ B, t.N b = some B ∧ a ∈ B.children := by
  obtain ⟨pp, pch, e, hm⟩ := h.str.up a b A.children (by rw [TTN.S_eq hA, hp])
  obtain ⟨B, hB, e2⟩ := TTN.N_of_S e
  simp at e2
  exact ⟨B, hB, by rw [← e2.2]; exact hm⟩

theorem N_none_of_S {t : TTN} {k : Id} (h : t.S k = none) : t.N k = none := by
  unfold TTN.S at h
  cases hn : t.N k with
  | none => rfl
  | some n => rw [hn] at h; simp at h

/-- **One-site TDVP link update** `_update_link(a, b)`: well-formedness, root, identifiers, parent map and
    children sets are restored; the lower node of the pair becomes the **first child** of the upper one. -/
theorem link_update_full {P : Prop} {O : Id → List Axis} {t t' : TTN} {a b link : Id} {bd : Nat}
    (hx : t.WFX P O) (hl : t.N link = none)
    (hs : t.linkUpdate a b link bd = some t') :
    t'.WFX P O ∧ t'.root = t.root ∧ ∃ A, t.N a = some A ∧
      ((b ∈ A.children ∧ t'.S = promoteS t.S a b) ∨ (A.parent = some b ∧ t'.S = promoteS t.S b a)) := by
  have h := hx.wf
  have hOl : P → O link = [] := fun hq => by rw [← hx.op hq link]; exact openAxes_none hl
  unfold TTN.linkUpdate at hs
  cases hA : dget t.nodes a with
  | none => simp [hA, bind, Option.bind] at hs
  | some A =>
    have hAN : t.N a = some A := hA
    simp only [hA, bind, Option.bind] at hs
    unfold TTN.tdvpSpecs at hs
    by_cases hb : b ∈ A.children
    · simp only [hb, if_true] at hs
      cases hs1 : t.splitNodes a ⟨A.parent, A.children.erase b, TTN.openIdx A, A.isRoot⟩ ⟨none, [b], [], false⟩ a link bd with
      | none => simp [hs1] at hs
      | some t1 =>
        simp only [hs1] at hs
        obtain ⟨w1, S1, R1⟩ := split_down hx hAN hb hl (fun _ => rfl) hs1
        cases hacc : t1.access link with
        | none => simp [hacc] at hs
        | some r =>
          obtain ⟨t2, T⟩ := r
          simp only [hacc] at hs
          have w2 := access_wfx w1 hacc
          obtain ⟨S2, R2⟩ := access_S_eq hacc
          obtain ⟨B, hB, hBp⟩ := child_node h hAN hb
          obtain ⟨w', S', R'⟩ := contract_link_down h w2 hOl hAN hB hBp hl (by rw [S2, S1]) (by rw [R2, R1])
            (Or.inl ⟨rfl, rfl⟩) hs
          exact ⟨w', R', A, hAN, Or.inl ⟨hb, S'⟩⟩
    · simp only [hb, if_false] at hs
      by_cases hp : A.parent = some b
      · simp only [hp, if_true] at hs
        cases hs1 : t.splitNodes a ⟨none, A.children, TTN.openIdx A, false⟩ ⟨some b, [], [], false⟩ a link bd with
        | none => simp [hs1] at hs
        | some t1 =>
          simp only [hs1] at hs
          obtain ⟨w1, S1, R1⟩ := split_up hx hAN hp hl rfl (fun _ => rfl) hs1
          cases hacc : t1.access link with
          | none => simp [hacc] at hs
          | some r =>
            obtain ⟨t2, T⟩ := r
            simp only [hacc] at hs
            have w2 := access_wfx w1 hacc
            obtain ⟨S2, R2⟩ := access_S_eq hacc
            obtain ⟨B, hB, _⟩ := parent_node h hAN hp
            obtain ⟨w', R', S'⟩ := contract_link_up h w2 hOl hAN hB hp hl (by rw [S2, S1]) (by rw [R2, R1])
              (Or.inl ⟨rfl, rfl⟩) hs
            simp only [if_true] at S'
            exact ⟨w', R', A, hAN, Or.inr ⟨hp, S'⟩⟩
      · simp [hp] at hs

/-- **Centre move of `canonical_form` / `move_orthogonalization_center`**
    (`split_qr_contract_r_to_neighbour(a, b)`): as above, except that a move towards the parent makes `a`
    the **last** child of `b` (the argument order of `contract_nodes` is the other one). -/
theorem centre_move_full {P : Prop} {O : Id → List Axis} {t t' : TTN} {a b rid : Id} {bd : Nat}
    (hx : t.WFX P O) (hl : t.N rid = none)
    (hs : t.centreMove a b rid bd = some t') :
    t'.WFX P O ∧ t'.root = t.root ∧ ∃ A, t.N a = some A ∧
      ((b ∈ A.children ∧ t'.S = promoteS t.S a b) ∨ (A.parent = some b ∧ t'.S = demoteS t.S b a)) := by
  have h := hx.wf
  have hOl : P → O rid = [] := fun hq => by rw [← hx.op hq rid]; exact openAxes_none hl
  unfold TTN.centreMove at hs
  cases hA : dget t.nodes a with
  | none => simp [hA, bind, Option.bind] at hs
  | some A =>
    have hAN : t.N a = some A := hA
    simp only [hA, bind, Option.bind] at hs
    unfold TTN.canonSpecs at hs
    by_cases hp : A.parent = some b
    · simp only [hp, if_true] at hs
      have hroot : A.isRoot = false := by simp [NodeS.isRoot, hp]
      rw [hroot] at hs
      cases hs1 : t.splitNodes a ⟨none, A.children, TTN.openIdx A, false⟩ ⟨some b, [], [], false⟩ a rid bd with
      | none => simp [hs1] at hs
      | some t1 =>
        simp only [hs1] at hs
        obtain ⟨w1, S1, R1⟩ := split_up hx hAN hp hl rfl (fun _ => rfl) hs1
        obtain ⟨B, hB, _⟩ := parent_node h hAN hp
        obtain ⟨w', R', S'⟩ := contract_link_up h w1 hOl hAN hB hp hl S1 R1 (Or.inr ⟨rfl, rfl⟩) hs
        have hne : ¬ b = rid := by intro e; rw [e, hl] at hB; simp at hB
        simp only [hne, if_false] at S'
        exact ⟨w', R', A, hAN, Or.inr ⟨hp, S'⟩⟩
    · simp only [hp, if_false] at hs
      by_cases hb : b ∈ A.children
      · simp only [hb, not_true_eq_false, if_false] at hs
        cases hs1 : t.splitNodes a ⟨A.parent, A.children.erase b, TTN.openIdx A, A.isRoot⟩ ⟨none, [b], [], false⟩ a rid bd with
        | none => simp [hs1] at hs
        | some t1 =>
          simp only [hs1] at hs
          obtain ⟨w1, S1, R1⟩ := split_down hx hAN hb hl (fun _ => rfl) hs1
          obtain ⟨B, hB, hBp⟩ := child_node h hAN hb
          obtain ⟨w', S', R'⟩ := contract_link_down h w1 hOl hAN hB hBp hl S1 R1 (Or.inr ⟨rfl, rfl⟩) hs
          exact ⟨w', R', A, hAN, Or.inl ⟨hb, S'⟩⟩
      · simp [hb] at hs

/-! ### `legs_before_combination` in the two orientations -/

/-- The open legs that `legs_before_combination(node1, node2)` assigns to `node1` … -/
def TTN.lbcOpen1 (A B : NodeS) : List Nat := List.range' (A.nvirt + B.nvirt - 2) (A.nlegs - A.nvirt)
/-- … and to `node2`. -/
def TTN.lbcOpen2 (A B : NodeS) : List Nat :=
  List.range' (A.nvirt + B.nvirt - 2 + (A.nlegs - A.nvirt))
    (A.nlegs + B.nlegs - 2 - (A.nvirt + B.nvirt - 2 + (A.nlegs - A.nvirt)))

theorem lbc_down {t : TTN} {a b : Id} {A B : NodeS} {u v : TTN.LegSpec}
    (hA : t.N a = some A) (hB : t.N b = some B) (hb : b ∈ A.children) (ha : a ∉ B.children)
    (hBp : B.parent = some a) (h : t.legsBeforeCombination a b = some (u, v)) :
    u = ⟨A.parent, A.children.erase b, TTN.lbcOpen1 A B, A.isRoot⟩ ∧
      v = ⟨none, B.children, TTN.lbcOpen2 A B, false⟩ := by
  unfold TTN.legsBeforeCombination at h
  have hA' : dget t.nodes a = some A := hA
  have hB' : dget t.nodes b = some B := hB
  have hBr : B.isRoot = false := by simp [NodeS.isRoot, hBp]
  simp only [hA', hB', bind, Option.bind, ha, decide_false, Bool.false_eq_true, if_false, hb,
    not_true_eq_false, hBr] at h
  split at h
  · simp at h
  · by_cases hr : A.isRoot = true
    · simp only [hr, if_true, Option.some.injEq, Prod.mk.injEq] at h
      obtain ⟨rfl, rfl⟩ := h
      exact ⟨by rw [hr]; rfl, rfl⟩
    · have hr' : A.isRoot = false := by simpa using hr
      simp only [hr', Bool.false_eq_true, if_false, Option.some.injEq, Prod.mk.injEq] at h
      obtain ⟨rfl, rfl⟩ := h
      exact ⟨by rw [hr']; rfl, rfl⟩

theorem lbc_up {t : TTN} {a b : Id} {A B : NodeS} {u v : TTN.LegSpec}
    (hA : t.N a = some A) (hB : t.N b = some B) (ha : a ∈ B.children)
    (hAp : A.parent = some b) (h : t.legsBeforeCombination a b = some (u, v)) :
    u = ⟨none, A.children, TTN.lbcOpen1 A B, false⟩ ∧
      v = ⟨B.parent, B.children.erase a, TTN.lbcOpen2 A B, B.isRoot⟩ := by
  unfold TTN.legsBeforeCombination at h
  have hA' : dget t.nodes a = some A := hA
  have hB' : dget t.nodes b = some B := hB
  have hAr : A.isRoot = false := by simp [NodeS.isRoot, hAp]
  simp only [hA', hB', bind, Option.bind, ha, decide_true, if_true, not_true_eq_false, if_false, hAr,
    Bool.false_eq_true] at h
  split at h
  · simp at h
  · by_cases hr : B.isRoot = true
    · simp only [hr, if_true, Option.some.injEq, Prod.mk.injEq] at h
      obtain ⟨rfl, rfl⟩ := h
      exact ⟨rfl, by rw [hr]; rfl⟩
    · have hr' : B.isRoot = false := by simpa using hr
      simp only [hr', Bool.false_eq_true, if_false, Option.some.injEq, Prod.mk.injEq] at h
      obtain ⟨rfl, rfl⟩ := h
      exact ⟨rfl, by rw [hr']; rfl⟩

/-- Reading two consecutive index ranges behind the virtual legs. -/
theorem pick_two_ranges (L : Tensor) (tv : Nat) (A B : List Axis) (hd : L.drop tv = A ++ B)
    (htv : tv ≤ L.length) :
    pick L (List.range' tv A.length) = A ∧ pick L (List.range' (tv + A.length) B.length) = B := by
  have hlen : L.length = tv + A.length + B.length := by
    have := congrArg List.length hd
    simp only [List.length_drop, List.length_append] at this
    omega
  constructor
  · rw [pick_range' L tv A.length (by omega), hd, List.take_left]
  · rw [pick_range' L (tv + A.length) B.length (by omega)]
    have : L.drop (tv + A.length) = B := by
      have e : L.drop (tv + A.length) = (L.drop tv).drop A.length := by simp [List.drop_drop]
      rw [e, hd, List.drop_left]
    rw [this, List.take_length]

theorem two_site_core {P : Prop} {O : Id → List Axis} {t t1 t2 t' : TTN} {top bot ts id1 id2 : Id}
    {Tn Bn : NodeS} {bd : Nat} {o1 o2 : List Nat} (hx : t.WFX P O)
    (hT : t.N top = some Tn) (hB : t.N bot = some Bn) (hBp : Bn.parent = some top) (hts : t.N ts = none)
    (hids : (id1 = top ∧ id2 = bot) ∨ (id1 = bot ∧ id2 = top))
    (hopens : P → (id1 = top → o1 = TTN.lbcOpen1 Tn Bn ∧ o2 = TTN.lbcOpen2 Tn Bn) ∧
                  (id1 = bot → o2 = TTN.lbcOpen1 Bn Tn ∧ o1 = TTN.lbcOpen2 Bn Tn))
    (hc : t.contractNodes id1 id2 ts = some t1)
    (hw2 : ∀ O', t1.WFX P O' → t2.WFX P O') (S2 : t2.S = t1.S) (R2 : t2.root = t1.root)
    (hs : (id1 = top ∧ t2.splitNodes ts ⟨Tn.parent, Tn.children.erase bot, o1, Tn.isRoot⟩
              ⟨none, Bn.children, o2, false⟩ top bot bd = some t') ∨
          (id1 = bot ∧ t2.splitNodes ts ⟨none, Bn.children, o2, false⟩
              ⟨Tn.parent, Tn.children.erase bot, o1, Tn.isRoot⟩ bot top bd = some t')) :
    t'.WFX P O ∧ t'.root = t.root ∧ t'.S = promoteS t.S top bot := by
  have h := hx.wf
  have hST := TTN.S_eq hT
  have hSB : t.S bot = some (some top, Bn.children) := by rw [TTN.S_eq hB, hBp]
  have hSts : t.S ts = none := by simp [TTN.S, hts]
  have htb : top ≠ bot := h.str.parent_ne hSB
  have htt : ¬ top = ts := by intro e; rw [e, hts] at hT; simp at hT
  have hbs : ¬ bot = ts := by intro e; rw [e, hts] at hB; simp at hB
  have hnew : ts = id1 ∨ ts = id2 ∨ t.N ts = none := Or.inr (Or.inr hts)
  have w1 := contract_nodes_wf_aux h hnew hc
  -- the intermediate network at the level of labels
  let O1 : Id → List Axis := fun k => if k = ts then O id1 ++ O id2 else if k = top ∨ k = bot then [] else O k
  have hx1 : t1.WFX P O1 := by
    refine ⟨w1, fun hq => contract_lwf h (hx.lwf hq) hnew hc, ?_⟩
    intro hq k
    obtain ⟨pid', cid', hpc', _, _, _, _, _, cnew, cgone, cby⟩ := contract_labels h hnew hc
    have hset : (pid' = top ∧ cid' = bot) ∨ (pid' = bot ∧ cid' = top) := by
      rcases hpc' with ⟨e1, e2⟩ | ⟨e1, e2⟩ <;> rcases hids with ⟨f1, f2⟩ | ⟨f1, f2⟩
      · exact Or.inl ⟨e1.trans f1, e2.trans f2⟩
      · exact Or.inr ⟨e1.trans f1, e2.trans f2⟩
      · exact Or.inr ⟨e1.trans f2, e2.trans f1⟩
      · exact Or.inl ⟨e1.trans f2, e2.trans f1⟩
    simp only [O1]
    by_cases k1 : k = ts
    · rw [k1, cnew, hx.op hq id1, hx.op hq id2]; simp
    · by_cases k2 : k = top ∨ k = bot
      · simp only [k1, k2, if_false, if_true]
        refine (cgone k k1 ?_).2
        rcases hset with ⟨e1, e2⟩ | ⟨e1, e2⟩
        · rw [e1, e2]; exact k2
        · rw [e1, e2]; exact k2.symm
      · simp only [k1, k2, if_false]
        have hk : k ≠ pid' ∧ k ≠ cid' := by
          rcases hset with ⟨e1, e2⟩ | ⟨e1, e2⟩
          · rw [e1, e2]; exact ⟨fun e => k2 (Or.inl e), fun e => k2 (Or.inr e)⟩
          · rw [e1, e2]; exact ⟨fun e => k2 (Or.inr e), fun e => k2 (Or.inl e)⟩
        rw [(cby k k1 hk.1 hk.2).2]; exact hx.op hq k
  have hx2 := hw2 O1 hx1
  obtain ⟨pid, cid, gp, Pch, Cch, hP, hC, hpc, hS1, hR1⟩ := contract_S_eq h hnew hc
  have hpid : pid = top ∧ cid = bot := by
    rcases hpc with ⟨e1, e2⟩ | ⟨e1, e2⟩ <;> rcases hids with ⟨f1, f2⟩ | ⟨f1, f2⟩
    · exact ⟨e1.trans f1, e2.trans f2⟩
    · exfalso
      rw [e2.trans f2, hST, e1.trans f1] at hC
      simp at hC
      exact h.str.no_two_cycle (a := top) (b := bot) (by rw [hST, hC.1]) hSB
    · exfalso
      rw [e2.trans f1, hST, e1.trans f2] at hC
      simp at hC
      exact h.str.no_two_cycle (a := top) (b := bot) (by rw [hST, hC.1]) hSB
    · exact ⟨e1.trans f2, e2.trans f1⟩
  obtain ⟨rfl, rfl⟩ := hpid
  rw [hST] at hP; rw [hSB] at hC
  simp at hP hC
  obtain ⟨rfl, rfl⟩ := hP
  subst hC
  have w2 := hx2.wf
  -- the two-site node
  have e_ts : t2.S ts = some (Tn.parent,
      if id1 = pid then Tn.children.erase cid ++ Bn.children else Bn.children ++ Tn.children.erase cid) := by
    rw [S2, hS1]; simp [contractS]
  obtain ⟨X, hX, eX⟩ := TTN.N_of_S e_ts
  simp only [Prod.mk.injEq] at eX
  have e_top : t2.N pid = none := N_none_of_S (by rw [S2, hS1]; simp [contractS, htt])
  have e_bot : t2.N cid = none := N_none_of_S (by rw [S2, hS1]; simp [contractS, hbs])
  have hroot2 : t2.root = (if Tn.parent = none then some ts else t.root) := by rw [R2, hR1]
  -- its logical axes
  obtain ⟨L, hlogL, hLl⟩ := logical_some w2 hX
  have hmem : cid ∈ Tn.children := by
    obtain ⟨B', hB', hm⟩ := parent_node h hB hBp
    rw [hT] at hB'; simp at hB'; rw [hB']; exact hm
  have hXnv : X.nvirt = Tn.nvirt + Bn.nvirt - 2 := by
    have e1 : X.nparents = Tn.nparents := nparents_congr eX.1.symm
    have e2 : X.children.length = (Tn.children.length - 1) + Bn.children.length := by
      rw [← eX.2]
      split <;> simp [List.length_erase_of_mem hmem] <;> omega
    have e3 : Bn.nparents = 1 := nparents_some hBp
    have e4 : 0 < Tn.children.length := List.length_pos_of_mem hmem
    simp only [nvirt_def, e1, e2, e3]
    omega
  have hLdrop : P → L.drop X.nvirt = O id1 ++ O id2 := by
    intro hq
    have := hx2.op hq ts
    rw [openAxes_eq hX hlogL] at this
    rw [this]; simp [O1]
  have hOlen : P → ∀ k n, t.N k = some n → (O k).length = n.nlegs - n.nvirt := by
    intro hq k n hn
    obtain ⟨Lk, hLk, hl⟩ := logical_some h hn
    rw [← hx.op hq k, openAxes_eq hn hLk]
    simp [hl, nlegs]
  have hOts : P → O ts = [] := fun hq => by rw [← hx.op hq ts]; exact openAxes_none hts
  have hfinal : ∀ (outL inL : TTN.LegSpec) (outId inId : Id),
      SplitAdm t2 ts X outL inL outId inId →
      t2.splitNodes ts outL inL outId inId bd = some t' →
      ((outId = pid ∧ inId = cid ∧ outL.childLegs = Tn.children.erase cid ∧ inL.childLegs = Bn.children ∧
          ¬ (inL.parentLeg.isSome = true ∨ inL.isRoot = true))
        ∨
       (inId = pid ∧ outId = cid ∧ inL.childLegs = Tn.children.erase cid ∧ outL.childLegs = Bn.children ∧
          ¬ (outL.parentLeg.isSome = true ∨ outL.isRoot = true))) →
      (P → pick L outL.openLegs = O outId ∧ pick L inL.openLegs = O inId) →
      t'.WFX P O ∧ t'.root = t.root ∧ t'.S = promoteS t.S pid cid := by
    intro outL inL outId inId adm hsp hcase hpick
    have hoi : (outId = pid ∧ inId = cid) ∨ (outId = cid ∧ inId = pid) := by
      rcases hcase with ⟨c1, c2, _⟩ | ⟨c1, c2, _⟩
      · exact Or.inl ⟨c1, c2⟩
      · exact Or.inr ⟨c2, c1⟩
    have hopx : P → ∀ k, t'.openAxes k = O k := by
      intro hq k
      obtain ⟨a, b, _, _, L', hcfg, _, hlogL', _, _, _, _, so, si, _, sid, sby⟩ := split_labels w2 adm hsp
      rw [hlogL] at hlogL'; simp at hlogL'; subst hlogL'
      have hab : (a = outId ∧ b = inId) ∨ (a = inId ∧ b = outId) := by
        rcases hcfg with ⟨e1, e2, _⟩ | ⟨e1, e2, _⟩
        · exact Or.inl ⟨e1, e2⟩
        · exact Or.inr ⟨e1, e2⟩
      by_cases k1 : k = outId
      · rw [k1, so]; exact (hpick hq).1
      · by_cases k2 : k = inId
        · rw [k2, si]; exact (hpick hq).2
        · have hkab : k ≠ a ∧ k ≠ b := by
            rcases hab with ⟨e1, e2⟩ | ⟨e1, e2⟩
            · rw [e1, e2]; exact ⟨k1, k2⟩
            · rw [e1, e2]; exact ⟨k2, k1⟩
          by_cases k3 : k = ts
          · have hts_ab : ts ≠ a ∧ ts ≠ b := by rw [← k3]; exact hkab
            rw [k3, (sid hts_ab.1 hts_ab.2).2, hOts hq]
          · rw [(sby k hkab.1 hkab.2 k3).2, hx2.op hq k]
            have hktb : ¬ (k = pid ∨ k = cid) := by
              rcases hoi with ⟨e1, e2⟩ | ⟨e1, e2⟩
              · rw [← e1, ← e2]; exact fun e => e.elim k1 k2
              · rw [← e1, ← e2]; exact fun e => e.elim k2 k1
            simp [O1, k3, hktb]
    refine ⟨⟨split_nodes_wf_aux w2 adm hsp, fun hq => split_lwf w2 (hx2.lwf hq) adm hsp, hopx⟩, ?_⟩
    obtain ⟨a', b', aCh, bCh, hcfg, hS', hR'⟩ := split_S_eq w2 adm hsp
    have hkey : a' = pid ∧ b' = cid ∧ aCh = Tn.children.erase cid ∧ bCh = Bn.children := by
      rcases hcase with ⟨c1, c2, c3, c4, c5⟩ | ⟨c1, c2, c3, c4, c5⟩
      · rcases hcfg with ⟨d1, d2, d3, d4, _⟩ | ⟨_, _, _, _, d5⟩
        · exact ⟨d1.trans c1, d2.trans c2, d3.trans c3, d4.trans c4⟩
        · exact absurd d5 c5
      · rcases hcfg with ⟨_, _, _, _, d5⟩ | ⟨d1, d2, d3, d4, _⟩
        · exact absurd d5 c5
        · exact ⟨d1.trans c1, d2.trans c2, d3.trans c3, d4.trans c4⟩
    obtain ⟨rfl, rfl, rfl, rfl⟩ := hkey
    constructor
    · rw [hR', ← eX.1, hroot2]
      by_cases hg : Tn.parent = none
      · simp only [hg, if_true]
        exact (root_of_parent_none h hT hg).symm
      · simp [hg]
    · rw [hS', ← eX.1, S2, hS1]
      exact two_site_S h.str _ hST hSB hSts
  -- the open legs named by the two specifications, read on `L`
  have hpicks : P → ∀ (A1 A2 : NodeS), t.N id1 = some A1 → t.N id2 = some A2 →
      A1.nvirt + A2.nvirt = Tn.nvirt + Bn.nvirt →
      pick L (TTN.lbcOpen1 A1 A2) = O id1 ∧ pick L (TTN.lbcOpen2 A1 A2) = O id2 := by
    intro hq A1 A2 h1 h2 hsum
    have l1 := hOlen hq id1 A1 h1
    have l2 := hOlen hq id2 A2 h2
    have v1 := (h.node id1 A1 h1).virt
    have v2 := (h.node id2 A2 h2).virt
    have hv2 : 2 ≤ Tn.nvirt + Bn.nvirt := by
      have e3 : Bn.nparents = 1 := nparents_some hBp
      have e4 : 0 < Tn.children.length := List.length_pos_of_mem hmem
      simp only [nvirt_def, e3]; omega
    have hXv := (w2.node ts X hX).virt
    have := pick_two_ranges L X.nvirt (O id1) (O id2) (hLdrop hq) (by rw [hLl]; exact hXv)
    unfold TTN.lbcOpen1 TTN.lbcOpen2
    have e1 : A1.nvirt + A2.nvirt - 2 = X.nvirt := by rw [hXnv, hsum]
    have e2 : A1.nlegs - A1.nvirt = (O id1).length := l1.symm
    have e3 : A1.nlegs + A2.nlegs - 2 - (A1.nvirt + A2.nvirt - 2 + (A1.nlegs - A1.nvirt)) = (O id2).length := by
      rw [l2]
      simp only [nlegs] at v1 v2 ⊢
      omega
    rw [e3, e1, e2]
    exact this
  rcases hs with ⟨hid, hsp⟩ | ⟨hid, hsp⟩
  · -- a = top
    have hXc : X.children = Tn.children.erase cid ++ Bn.children := by rw [← eX.2]; simp [hid]
    have hid2 : id2 = cid := by
      rcases hids with ⟨_, e⟩ | ⟨e, _⟩
      · exact e
      · exact absurd (hid.symm.trans e) htb
    apply hfinal _ _ _ _ ?_ hsp (Or.inl ⟨rfl, rfl, rfl, rfl, by simp⟩)
    · intro hq
      obtain ⟨q1, q2⟩ := (hopens hq).1 hid
      have := hpicks hq Tn Bn (by rw [hid]; exact hT) (by rw [hid2]; exact hB) rfl
      simp only
      rw [q1, q2, ← hid, ← hid2] at *
      exact this
    · refine ⟨hX, Or.inr e_top, Or.inr e_bot, by rw [hXc], ?_⟩
      cases hg : Tn.parent with
      | none =>
        exact Or.inr ⟨by rw [← eX.1, hg], rfl, rfl, Or.inl ⟨by simp [NodeS.isRoot, hg], rfl⟩⟩
      | some p =>
        exact Or.inl ⟨p, by rw [← eX.1, hg], by simp [NodeS.isRoot, hg], rfl, Or.inl ⟨by simp [hg], rfl⟩⟩
  · -- a = bot
    have hne : ¬ id1 = pid := by rw [hid]; exact fun e => htb e.symm
    have hXc : X.children = Bn.children ++ Tn.children.erase cid := by rw [← eX.2]; simp [hne]
    have hid2 : id2 = pid := by
      rcases hids with ⟨e, _⟩ | ⟨_, e⟩
      · exact absurd (e.symm.trans hid) htb
      · exact e
    apply hfinal _ _ _ _ ?_ hsp (Or.inr ⟨rfl, rfl, rfl, rfl, by simp⟩)
    · intro hq
      obtain ⟨q1, q2⟩ := (hopens hq).2 hid
      have := hpicks hq Bn Tn (by rw [hid]; exact hB) (by rw [hid2]; exact hT) (Nat.add_comm _ _)
      simp only
      rw [q1, q2, ← hid, ← hid2] at *
      exact this
    · refine ⟨hX, Or.inr e_bot, Or.inr e_top, by rw [hXc], ?_⟩
      cases hg : Tn.parent with
      | none =>
        exact Or.inr ⟨by rw [← eX.1, hg], rfl, rfl, Or.inr ⟨rfl, by simp [NodeS.isRoot, hg]⟩⟩
      | some p =>
        exact Or.inl ⟨p, by rw [← eX.1, hg], rfl, by simp [NodeS.isRoot, hg], Or.inr ⟨rfl, by simp [hg]⟩⟩

/-- **Two-site TDVP update** `_update_two_site_nodes(a, b)`: well-formedness, root, identifiers, parent map
    and children sets are restored; the lower node of the pair becomes the **first child** of the upper. -/
theorem two_site_full {P : Prop} {O : Id → List Axis} {t t' : TTN} {a b ts : Id} {bd : Nat}
    (hx : t.WFX P O) (hts : t.N ts = none)
    (hs : t.twoSiteUpdate a b ts bd = some t') :
    t'.WFX P O ∧ t'.root = t.root ∧ ∃ A, t.N a = some A ∧
      ((b ∈ A.children ∧ t'.S = promoteS t.S a b) ∨ (A.parent = some b ∧ t'.S = promoteS t.S b a)) := by
  have h := hx.wf
  unfold TTN.twoSiteUpdate at hs
  cases hlbc : t.legsBeforeCombination a b with
  | none => simp [hlbc, bind, Option.bind] at hs
  | some uv =>
    obtain ⟨u, v⟩ := uv
    simp only [hlbc, bind, Option.bind] at hs
    cases hc : t.contractNodes a b ts with
    | none => simp [hc] at hs
    | some t1 =>
      simp only [hc] at hs
      cases hacc : t1.access ts with
      | none => simp [hacc] at hs
      | some r =>
        obtain ⟨t2, T⟩ := r
        simp only [hacc] at hs
        have hnew : ts = a ∨ ts = b ∨ t.N ts = none := Or.inr (Or.inr hts)
        obtain ⟨pid, cid, gp, Pch, Cch, hP, hC, hpc, _, _⟩ := contract_S_eq h hnew hc
        obtain ⟨Pn, hPn, eP⟩ := TTN.N_of_S hP
        obtain ⟨Cn, hCn, eC⟩ := TTN.N_of_S hC
        simp only [Prod.mk.injEq] at eP eC
        have hCp : Cn.parent = some pid := eC.1.symm
        have hmem : cid ∈ Pn.children := by
          obtain ⟨B', hB', hm⟩ := parent_node h hCn hCp
          rw [hPn] at hB'; simp at hB'; rw [hB']; exact hm
        have hpcne : pid ≠ cid := h.str.parent_ne hC
        rcases hpc with ⟨rfl, rfl⟩ | ⟨rfl, rfl⟩
        · -- a is the parent of b
          have hnot : pid ∉ Cn.children := by
            intro hm
            obtain ⟨X, hX, hXp⟩ := child_node h hCn hm
            rw [hPn] at hX; simp at hX; subst hX
            exact h.str.no_two_cycle (a := pid) (b := cid) (by rw [TTN.S_eq hPn, hXp]) hC
          obtain ⟨rfl, rfl⟩ := lbc_down hPn hCn hmem hnot hCp hlbc
          obtain ⟨w', R', S'⟩ := two_site_core hx hPn hCn hCp hts (Or.inl ⟨rfl, rfl⟩)
            (fun _ => ⟨fun _ => ⟨rfl, rfl⟩, fun e => absurd e hpcne⟩) hc
            (fun _ w => access_wfx w hacc) (access_S_eq hacc).1 (access_S_eq hacc).2 (Or.inl ⟨rfl, hs⟩)
          exact ⟨w', R', Pn, hPn, Or.inl ⟨hmem, S'⟩⟩
        · -- b is the parent of a
          obtain ⟨rfl, rfl⟩ := lbc_up hCn hPn hmem hCp hlbc
          obtain ⟨w', R', S'⟩ := two_site_core hx hPn hCn hCp hts (Or.inr ⟨rfl, rfl⟩)
            (fun _ => ⟨fun e => absurd e.symm hpcne, fun _ => ⟨rfl, rfl⟩⟩) hc
            (fun _ w => access_wfx w hacc) (access_S_eq hacc).1 (access_S_eq hacc).2 (Or.inr ⟨rfl, hs⟩)
          exact ⟨w', R', Cn, hCn, Or.inr ⟨hCp, S'⟩⟩

/-- **`contract_and_split_with_parent(a, b)`** of `svd_truncation` (same as the two-site update without the
    intermediate access). -/
theorem contract_split_full {P : Prop} {O : Id → List Axis} {t t' : TTN} {a b ts : Id} {bd : Nat}
    (hx : t.WFX P O) (hts : t.N ts = none)
    (hs : t.contractSplit a b ts bd = some t') :
    t'.WFX P O ∧ t'.root = t.root ∧ ∃ A, t.N a = some A ∧
      ((b ∈ A.children ∧ t'.S = promoteS t.S a b) ∨ (A.parent = some b ∧ t'.S = promoteS t.S b a)) := by
  have h := hx.wf
  unfold TTN.contractSplit at hs
  cases hlbc : t.legsBeforeCombination a b with
  | none => simp [hlbc, bind, Option.bind] at hs
  | some uv =>
    obtain ⟨u, v⟩ := uv
    simp only [hlbc, bind, Option.bind] at hs
    cases hc : t.contractNodes a b ts with
    | none => simp [hc] at hs
    | some t1 =>
      simp only [hc] at hs
      have hnew : ts = a ∨ ts = b ∨ t.N ts = none := Or.inr (Or.inr hts)
      obtain ⟨pid, cid, gp, Pch, Cch, hP, hC, hpc, _, _⟩ := contract_S_eq h hnew hc
      obtain ⟨Pn, hPn, eP⟩ := TTN.N_of_S hP
      obtain ⟨Cn, hCn, eC⟩ := TTN.N_of_S hC
      simp only [Prod.mk.injEq] at eP eC
      have hCp : Cn.parent = some pid := eC.1.symm
      have hmem : cid ∈ Pn.children := by
        obtain ⟨B', hB', hm⟩ := parent_node h hCn hCp
        rw [hPn] at hB'; simp at hB'; rw [hB']; exact hm
      have hpcne : pid ≠ cid := h.str.parent_ne hC
      rcases hpc with ⟨rfl, rfl⟩ | ⟨rfl, rfl⟩
      · have hnot : pid ∉ Cn.children := by
          intro hm
          obtain ⟨X, hX, hXp⟩ := child_node h hCn hm
          rw [hPn] at hX; simp at hX; subst hX
          exact h.str.no_two_cycle (a := pid) (b := cid) (by rw [TTN.S_eq hPn, hXp]) hC
        obtain ⟨rfl, rfl⟩ := lbc_down hPn hCn hmem hnot hCp hlbc
        obtain ⟨w', R', S'⟩ := two_site_core (t2 := t1) hx hPn hCn hCp hts (Or.inl ⟨rfl, rfl⟩)
          (fun _ => ⟨fun _ => ⟨rfl, rfl⟩, fun e => absurd e hpcne⟩) hc
          (fun _ w => w) rfl rfl (Or.inl ⟨rfl, hs⟩)
        exact ⟨w', R', Pn, hPn, Or.inl ⟨hmem, S'⟩⟩
      · obtain ⟨rfl, rfl⟩ := lbc_up hCn hPn hmem hCp hlbc
        obtain ⟨w', R', S'⟩ := two_site_core (t2 := t1) hx hPn hCn hCp hts (Or.inr ⟨rfl, rfl⟩)
          (fun _ => ⟨fun e => absurd e.symm hpcne, fun _ => ⟨rfl, rfl⟩⟩) hc
          (fun _ w => w) rfl rfl (Or.inr ⟨rfl, hs⟩)
        exact ⟨w', R', Cn, hCn, Or.inr ⟨hCp, S'⟩⟩

/-! ### tree equivalence and sequences of such updates -/

/-- Same identifiers, same parent map, same children up to order. -/
def TreeEq (S S' : Id → Option Struct) : Prop :=
  ∀ k, (S k = none ∧ S' k = none) ∨
    ∃ p ch ch', S k = some (p, ch) ∧ S' k = some (p, ch') ∧ ch'.Perm ch

theorem TreeEq.refl (S : Id → Option Struct) : TreeEq S S := by
  intro k
  cases hk : S k with
  | none => exact Or.inl ⟨rfl, rfl⟩
  | some s => exact Or.inr ⟨s.1, s.2, s.2, rfl, rfl, List.Perm.refl _⟩

theorem TreeEq.trans {S S' S'' : Id → Option Struct} (h1 : TreeEq S S') (h2 : TreeEq S' S'') :
    TreeEq S S'' := by
  intro k
  rcases h1 k with ⟨a1, a2⟩ | ⟨p, ch, ch', a1, a2, a3⟩
  · rcases h2 k with ⟨b1, b2⟩ | ⟨q, dh, dh', b1, b2, b3⟩
    · exact Or.inl ⟨a1, b2⟩
    · rw [a2] at b1; simp at b1
  · rcases h2 k with ⟨b1, b2⟩ | ⟨q, dh, dh', b1, b2, b3⟩
    · rw [a2] at b1; simp at b1
    · rw [a2] at b1; simp at b1
      obtain ⟨rfl, rfl⟩ := b1
      exact Or.inr ⟨p, ch, dh', a1, b2, b3.trans a3⟩

theorem treeEq_promote (S : Id → Option Struct) (top bot : Id)
    (hm : ∀ p ch, S top = some (p, ch) → bot ∈ ch) : TreeEq S (promoteS S top bot) := by
  intro k
  unfold promoteS
  by_cases hk : k = top
  · rw [hk]
    cases hs : S top with
    | none => exact Or.inl ⟨rfl, by simp⟩
    | some s =>
      refine Or.inr ⟨s.1, s.2, bot :: s.2.erase bot, rfl, by simp, ?_⟩
      exact (List.perm_cons_erase (hm s.1 s.2 hs)).symm
  · simp only [hk, if_false]
    exact TreeEq.refl S k

theorem treeEq_demote (S : Id → Option Struct) (top bot : Id)
    (hm : ∀ p ch, S top = some (p, ch) → bot ∈ ch) : TreeEq S (demoteS S top bot) := by
  intro k
  unfold demoteS
  by_cases hk : k = top
  · rw [hk]
    cases hs : S top with
    | none => exact Or.inl ⟨rfl, by simp⟩
    | some s =>
      refine Or.inr ⟨s.1, s.2, s.2.erase bot ++ [bot], rfl, by simp, ?_⟩
      exact List.perm_append_comm.trans (List.perm_cons_erase (hm s.1 s.2 hs)).symm
  · simp only [hk, if_false]
    exact TreeEq.refl S k

/-- The events of a TDVP time step (and of a canonicalisation), as operations on the model. -/
inductive TdvpEvent where
  | access (id : Id)                                   -- site update: read / write a tensor
  | link (a b linkId : Id) (bd : Nat)                  -- one-site link update
  | twoSite (a b tsId : Id) (bd : Nat)                 -- two-site update
  | move (a b rId : Id) (bd : Nat)                     -- centre move (canonical form)
  | contractSplit (a b cId : Id) (bd : Nat)            -- contract_and_split_with_parent (svd_truncation)

def TTN.event (t : TTN) : TdvpEvent → Option TTN
  | .access id => (t.access id).map (·.1)
  | .link a b l bd => t.linkUpdate a b l bd
  | .twoSite a b ts bd => t.twoSiteUpdate a b ts bd
  | .move a b r bd => t.centreMove a b r bd
  | .contractSplit a b c bd => t.contractSplit a b c bd

/-- The temporary identifier of an event is unused (as `create_link_id`, `create_two_site_id`, uuid1 give). -/
def TdvpEvent.Fresh (t : TTN) : TdvpEvent → Prop
  | .access _ => True
  | .link _ _ l _ => t.N l = none
  | .twoSite _ _ ts _ => t.N ts = none
  | .move _ _ r _ => t.N r = none
  | .contractSplit _ _ c _ => t.N c = none

inductive TdvpRun : TTN → List TdvpEvent → TTN → Prop
  | nil (t : TTN) : TdvpRun t [] t
  | cons {t t1 t' : TTN} {e : TdvpEvent} {es : List TdvpEvent} :
      e.Fresh t → t.event e = some t1 → TdvpRun t1 es t' → TdvpRun t (e :: es) t'

theorem event_structure {P : Prop} {O : Id → List Axis} {t t' : TTN} (hx : t.WFX P O) (e : TdvpEvent)
    (hf : e.Fresh t) (hs : t.event e = some t') :
    t'.WFX P O ∧ t'.root = t.root ∧ TreeEq t.S t'.S := by
  have h := hx.wf
  have mem_of {top bot : Id} {A B : NodeS} (hB : t.N bot = some B) (hBp : B.parent = some top) :
      ∀ p ch, t.S top = some (p, ch) → bot ∈ ch := by
    intro p ch hs
    obtain ⟨Tn, hT, hm⟩ := parent_node h hB hBp
    rw [TTN.S_eq hT] at hs; simp at hs; rw [← hs.2]; exact hm
  cases e with
  | access id =>
    simp only [TTN.event] at hs
    cases ha : t.access id with
    | none => simp [ha] at hs
    | some r =>
      obtain ⟨t1, T⟩ := r
      simp [ha] at hs; subst hs
      obtain ⟨S1, R1⟩ := access_S_eq ha
      exact ⟨access_wfx hx ha, R1, by rw [S1]; exact TreeEq.refl _⟩
  | link a b l bd =>
    obtain ⟨w, R, A, hA, hcase⟩ := link_update_full hx hf hs
    refine ⟨w, R, ?_⟩
    rcases hcase with ⟨hb, S'⟩ | ⟨hp, S'⟩
    · obtain ⟨B, hB, hBp⟩ := child_node h hA hb
      rw [S']; exact treeEq_promote _ _ _ (mem_of (A := A) hB hBp)
    · rw [S']; exact treeEq_promote _ _ _ (mem_of (A := A) hA hp)
  | twoSite a b ts bd =>
    obtain ⟨w, R, A, hA, hcase⟩ := two_site_full hx hf hs
    refine ⟨w, R, ?_⟩
    rcases hcase with ⟨hb, S'⟩ | ⟨hp, S'⟩
    · obtain ⟨B, hB, hBp⟩ := child_node h hA hb
      rw [S']; exact treeEq_promote _ _ _ (mem_of (A := A) hB hBp)
    · rw [S']; exact treeEq_promote _ _ _ (mem_of (A := A) hA hp)
  | contractSplit a b ts bd =>
    obtain ⟨w, R, A, hA, hcase⟩ := contract_split_full hx hf hs
    refine ⟨w, R, ?_⟩
    rcases hcase with ⟨hb, S'⟩ | ⟨hp, S'⟩
    · obtain ⟨B, hB, hBp⟩ := child_node h hA hb
      rw [S']; exact treeEq_promote _ _ _ (mem_of (A := A) hB hBp)
    · rw [S']; exact treeEq_promote _ _ _ (mem_of (A := A) hA hp)
  | move a b r bd =>
    obtain ⟨w, R, A, hA, hcase⟩ := centre_move_full hx hf hs
    refine ⟨w, R, ?_⟩
    rcases hcase with ⟨hb, S'⟩ | ⟨hp, S'⟩
    · obtain ⟨B, hB, hBp⟩ := child_node h hA hb
      rw [S']; exact treeEq_promote _ _ _ (mem_of (A := A) hB hBp)
    · rw [S']; exact treeEq_demote _ _ _ (mem_of (A := A) hA hp)

theorem tdvp_run_wfx {P : Prop} {O : Id → List Axis} {t t' : TTN} {es : List TdvpEvent} (hx : t.WFX P O)
    (hr : TdvpRun t es t') : t'.WFX P O ∧ t'.root = t.root ∧ TreeEq t.S t'.S := by
  induction hr with
  | nil => exact ⟨hx, rfl, TreeEq.refl _⟩
  | cons hf hs _ ih =>
    obtain ⟨w1, R1, E1⟩ := event_structure hx _ hf hs
    obtain ⟨w2, R2, E2⟩ := ih w1
    exact ⟨w2, R2.trans R1, E1.trans E2⟩

theorem tdvp_run_structure {t t' : TTN} {es : List TdvpEvent} (h : t.WF) (hr : TdvpRun t es t') :
    t'.WF ∧ t'.root = t.root ∧ TreeEq t.S t'.S := by
  obtain ⟨w, R, E⟩ := tdvp_run_wfx (TTN.WFX.ofWF h) hr
  exact ⟨w.wf, R, E⟩

/-- **Any sequence of TDVP events at the level of labels**: the result is well-formed and satisfies the label
    invariant, root and tree are preserved, and **every node has exactly the open axes it had** (labels, order,
    dimensions) – only bonds change. -/
theorem tdvp_run_labels {t t' : TTN} {es : List TdvpEvent} (h : t.WF) (hl : t.LWF) (hr : TdvpRun t es t') :
    t'.WF ∧ t'.LWF ∧ t'.root = t.root ∧ TreeEq t.S t'.S ∧ ∀ k, t'.openAxes k = t.openAxes k := by
  obtain ⟨w, R, E⟩ := tdvp_run_wfx (TTN.WFX.ofLWF h hl) hr
  exact ⟨w.wf, w.lwf trivial, R, E, w.op trivial⟩

/-! ### explicit readings (used by the exported corollaries) -/

theorem promote_explicit {t t' : TTN} {top bot : Id} {Tn : NodeS} (hT : t.N top = some Tn)
    (hS : t'.S = promoteS t.S top bot) :
    (∀ k, k ≠ top → t'.S k = t.S k) ∧ t'.S top = some (Tn.parent, bot :: Tn.children.erase bot) := by
  refine ⟨fun k hk => by rw [hS]; simp [promoteS, hk], ?_⟩
  rw [hS]; simp [promoteS, TTN.S_eq hT]

theorem demote_explicit {t t' : TTN} {top bot : Id} {Tn : NodeS} (hT : t.N top = some Tn)
    (hS : t'.S = demoteS t.S top bot) :
    (∀ k, k ≠ top → t'.S k = t.S k) ∧ t'.S top = some (Tn.parent, Tn.children.erase bot ++ [bot]) := by
  refine ⟨fun k hk => by rw [hS]; simp [demoteS, hk], ?_⟩
  rw [hS]; simp [demoteS, TTN.S_eq hT]

/-- `TreeEq` read on the node dictionaries: same identifiers, same parent of every node, children lists
    equal up to order. -/
theorem treeEq_explicit {t t' : TTN} (h : TreeEq t.S t'.S) :
    (∀ k, t'.N k = none ↔ t.N k = none) ∧
    (∀ k n, t.N k = some n → ∃ n', t'.N k = some n' ∧ n'.parent = n.parent ∧ n'.children.Perm n.children) := by
  constructor
  · intro k
    rcases h k with ⟨a, b⟩ | ⟨p, ch, ch', a, b, _⟩
    · exact ⟨fun _ => N_none_of_S a, fun _ => N_none_of_S b⟩
    · obtain ⟨n, hn, _⟩ := TTN.N_of_S a
      obtain ⟨n', hn', _⟩ := TTN.N_of_S b
      constructor
      · intro e; rw [e] at hn'; simp at hn'
      · intro e; rw [e] at hn; simp at hn
  · intro k n hn
    rcases h k with ⟨a, _⟩ | ⟨p, ch, ch', a, b, c⟩
    · rw [TTN.S_eq hn] at a; simp at a
    · obtain ⟨n', hn', e'⟩ := TTN.N_of_S b
      rw [TTN.S_eq hn] at a
      simp at a e'
      refine ⟨n', hn', ?_, ?_⟩
      · rw [← e'.1, a.1]
      · rw [← e'.2, a.2]; exact c

end Ptn.C02
