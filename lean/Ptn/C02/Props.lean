import Ptn.C02.NodeProps
import Ptn.C02.TTNLemmas
import Ptn.C02.ContractSpec
import Ptn.C02.SplitSpec
import Ptn.C02.ContractWF
import Ptn.C02.SplitWF
import Ptn.C02.OpsWF
import Ptn.C02.TruncWF
import Ptn.C02.BuildLabels
import Ptn.C02.Progress
import Ptn.C02.Value
import Ptn.C02.SimHistory
import Ptn.C02.SimDemo
import Ptn.C02.SimComposite
import Ptn.C02.SimCompositeTdvp
import Ptn.C02.SimCompositeTrunc
import Ptn.C02.SimCompositeDemo
import Ptn.C02.SimCompositeExists
/-! Property theorems for C02.  Only property theorems and non-vacuity examples live here (part 1,
the Node machine, is in `NodeProps.lean`, imported here); helper lemmas are in `Lemmas.lean`,
`NodeSpec.lean`, `TTNLemmas.lean`, `ContractSpec.lean`, ….

Part 2 — `TreeTensorNetwork` at the level of structure, leg labels and shapes (`TTN.lean`). -/
namespace Ptn.C02
open NodeS

/-- **Leg order of `contract_nodes`** (`_create_contracted_node`).  Let the contracted array be
    `T = Tp ++ Tc ++ To ++ Tcc ++ Tco` – what `tensordot(parent, child)` delivers: the parent's parent leg,
    its remaining child legs, its open legs, then the child's child legs and open legs.  For every parent
    `P` (root or not, the contracted child anywhere among its children) and child `C`, the node that is
    built has `P`'s parent, is well-formed, and its logical legs (what `ttn.tensors[new]` shows) are

    * `node_id1 = parent`: `(parent, P-children…, C-children…, P-open…, C-open…)`, children `K1 ++ K2 ++ C.children`;
    * `node_id1 = child` : `(parent, C-children…, P-children…, C-open…, P-open…)`, children `C.children ++ K1 ++ K2`

    which is the documented rule `(parent_parent_leg, node1_children_legs, node2_children_legs,
    node1_open_legs, node2_open_legs)`. -/
theorem create_contracted_node_spec (t : TTN) (pid cid id1 : Id) (P C : NodeS)
    (hP : dget t.nodes pid = some P) (hC : dget t.nodes cid = some C)
    (K1 K2 : List Id) (hPch : P.children = K1 ++ cid :: K2) (hcid : cid ∉ K1)
    (hKnd : (K1 ++ K2 ++ C.children).Nodup)
    (Tp Tc To Tcc Tco : Tensor) (hTp : Tp.length = P.nparents) (hTc : Tc.length = K1.length + K2.length)
    (hTo : To.length + P.nvirt = P.nlegs) (hTcc : Tcc.length = C.children.length) :
    ∃ nn, t.createContractedNode (Tp ++ Tc ++ To ++ Tcc ++ Tco) pid cid id1 = some nn ∧
      nn.parent = P.parent ∧ nn.shp = shapeOf (Tp ++ Tc ++ To ++ Tcc ++ Tco) ∧ WFN nn ∧
      (id1 = pid → nn.children = K1 ++ K2 ++ C.children ∧
        transposeT (Tp ++ Tc ++ To ++ Tcc ++ Tco) nn.perm = some (Tp ++ (Tc ++ Tcc) ++ (To ++ Tco))) ∧
      (id1 ≠ pid → nn.children = C.children ++ (K1 ++ K2) ∧
        transposeT (Tp ++ Tc ++ To ++ Tcc ++ Tco) nn.perm = some (Tp ++ (Tcc ++ Tc) ++ (Tco ++ To))) :=
  create_contracted_node_aux t pid cid id1 P C _ hP hC K1 K2 hPch hcid hKnd Tp Tc To Tcc Tco rfl hTp hTc hTo hTcc

/-- Non-vacuity: a parent `1` (child of `9`, children `[2, 3]`, one open leg) contracted with its child `3`
    (children `[4]`, one open leg), both argument orders. -/
example :
    let t : TTN := ⟨[(1, ⟨[0, 1, 2, 3], [2, 2, 2, 2], some 9, [2, 3]⟩), (3, ⟨[0, 1, 2], [2, 2, 2], some 1, [4]⟩)],
      [], some 9, 0⟩
    let T : Tensor := [⟨10, 2⟩, ⟨11, 2⟩, ⟨12, 2⟩, ⟨13, 2⟩, ⟨14, 2⟩]
    (t.createContractedNode T 1 3 1).map (fun n => (n.children, transposeT T n.perm)) =
      some ([2, 4], some [⟨10, 2⟩, ⟨11, 2⟩, ⟨13, 2⟩, ⟨12, 2⟩, ⟨14, 2⟩]) ∧
    (t.createContractedNode T 1 3 3).map (fun n => (n.children, transposeT T n.perm)) =
      some ([4, 2], some [⟨10, 2⟩, ⟨13, 2⟩, ⟨11, 2⟩, ⟨14, 2⟩, ⟨12, 2⟩]) := by
  decide

/-! ### Leg order of `split_nodes`

The splitting function returns `out = (out legs…, bond)` and `in = (bond, in legs…)` where the legs of
each side come in the order `(parent, children…, open…)` of its `LegSpecification`.  The six theorems
below cover every admissible configuration of "who keeps the parent / who becomes the root":
the in-node may keep the parent, become the root, or become the child of the out-node, and likewise
the out-node.  Each states parent, children (the new neighbour is always the **first** child) and
the logical leg order `(parent, children…, open…)`; open legs stay in the order of the specification. -/

/-- in keeps the parent. -/
theorem split_in_node_keeps_parent_spec (inL outL : TTN.LegSpec) (outId p : Id) (b a : Axis)
    (Ic Io : Tensor) (hp : inL.parentLeg = some p) (hroot : inL.isRoot = false)
    (hIc : Ic.length = inL.childLegs.length) (hnd : (outId :: inL.childLegs).Nodup) :
    ∃ nn, TTN.buildInNode (b :: a :: (Ic ++ Io)) inL outL outId = some nn ∧ WFN nn ∧
      nn.shp = shapeOf (b :: a :: (Ic ++ Io)) ∧ nn.parent = some p ∧ nn.children = outId :: inL.childLegs ∧
      transposeT (b :: a :: (Ic ++ Io)) nn.perm = some (a :: b :: (Ic ++ Io)) :=
  in_node_parent_logical inL outL outId p b a Ic Io hp hroot hIc hnd

/-- in becomes the root (its specification has `is_root`). -/
theorem split_in_node_root_spec (inL outL : TTN.LegSpec) (outId : Id) (b : Axis) (Ic Io : Tensor)
    (hp : inL.parentLeg = none) (hroot : inL.isRoot = true) (hop : outL.parentLeg = none)
    (hIc : Ic.length = inL.childLegs.length) (hnd : (outId :: inL.childLegs).Nodup) :
    ∃ nn, TTN.buildInNode (b :: (Ic ++ Io)) inL outL outId = some nn ∧ WFN nn ∧
      nn.shp = shapeOf (b :: (Ic ++ Io)) ∧ nn.parent = none ∧ nn.children = outId :: inL.childLegs ∧
      transposeT (b :: (Ic ++ Io)) nn.perm = some (b :: (Ic ++ Io)) :=
  in_node_root_logical inL outL outId b Ic Io hp hroot hop hIc hnd

/-- in becomes the child of the out-node. -/
theorem split_in_node_child_spec (inL outL : TTN.LegSpec) (outId : Id) (b : Axis) (Ic Io : Tensor)
    (hp : inL.parentLeg = none) (hroot : inL.isRoot = false)
    (hIc : Ic.length = inL.childLegs.length) (hnd : inL.childLegs.Nodup) :
    ∃ nn, TTN.buildInNode (b :: (Ic ++ Io)) inL outL outId = some nn ∧ WFN nn ∧
      nn.shp = shapeOf (b :: (Ic ++ Io)) ∧ nn.parent = some outId ∧ nn.children = inL.childLegs ∧
      transposeT (b :: (Ic ++ Io)) nn.perm = some (b :: (Ic ++ Io)) :=
  in_node_child_logical inL outL outId b Ic Io hp hroot hIc hnd

/-- out becomes the child of the in-node (in keeps the parent or becomes the root): the new bond, last
    axis of the out array, becomes the parent leg. -/
theorem split_out_node_child_spec (outL inL : TTN.LegSpec) (inId : Id) (b : Axis) (Oc Oo : Tensor)
    (hp : outL.parentLeg = none) (hroot : outL.isRoot = false)
    (hin : inL.isRoot = true ∨ inL.parentLeg.isSome = true)
    (hOc : Oc.length = outL.childLegs.length) (hnd : outL.childLegs.Nodup) :
    ∃ nn, TTN.buildOutNode (Oc ++ Oo ++ [b]) outL inL inId = some nn ∧ WFN nn ∧
      nn.shp = shapeOf (Oc ++ Oo ++ [b]) ∧ nn.parent = some inId ∧ nn.children = outL.childLegs ∧
      transposeT (Oc ++ Oo ++ [b]) nn.perm = some (b :: (Oc ++ Oo)) :=
  out_node_child_logical outL inL inId b Oc Oo hp hroot hin hOc hnd

/-- out keeps the parent: the new bond becomes the **first child** leg. -/
theorem split_out_node_keeps_parent_spec (outL inL : TTN.LegSpec) (inId p : Id) (b a : Axis)
    (Oc Oo : Tensor) (hp : outL.parentLeg = some p) (hroot : outL.isRoot = false)
    (hin1 : inL.isRoot = false) (hin2 : inL.parentLeg = none)
    (hOc : Oc.length = outL.childLegs.length) (hnd : (inId :: outL.childLegs).Nodup) :
    ∃ nn, TTN.buildOutNode (a :: (Oc ++ Oo) ++ [b]) outL inL inId = some nn ∧ WFN nn ∧
      nn.shp = shapeOf (a :: (Oc ++ Oo) ++ [b]) ∧ nn.parent = some p ∧ nn.children = inId :: outL.childLegs ∧
      transposeT (a :: (Oc ++ Oo) ++ [b]) nn.perm = some (a :: b :: (Oc ++ Oo)) :=
  out_node_parent_logical outL inL inId p b a Oc Oo hp hroot hin1 hin2 hOc hnd

/-- out becomes the root: the new bond becomes the first child leg. -/
theorem split_out_node_root_spec (outL inL : TTN.LegSpec) (inId : Id) (b : Axis) (Oc Oo : Tensor)
    (hp : outL.parentLeg = none) (hroot : outL.isRoot = true)
    (hin1 : inL.isRoot = false) (hin2 : inL.parentLeg = none)
    (hOc : Oc.length = outL.childLegs.length) (hnd : (inId :: outL.childLegs).Nodup) :
    ∃ nn, TTN.buildOutNode (Oc ++ Oo ++ [b]) outL inL inId = some nn ∧ WFN nn ∧
      nn.shp = shapeOf (Oc ++ Oo ++ [b]) ∧ nn.parent = none ∧ nn.children = inId :: outL.childLegs ∧
      transposeT (Oc ++ Oo ++ [b]) nn.perm = some (b :: (Oc ++ Oo)) :=
  out_node_root_logical outL inL inId b Oc Oo hp hroot hin1 hin2 hOc hnd

/-! Non-vacuity: the six configurations on concrete arrays (bond label 99). -/
example :
    (TTN.buildInNode [⟨99, 2⟩, ⟨10, 2⟩, ⟨11, 2⟩, ⟨12, 2⟩] ⟨some 7, [5], [3], false⟩ ⟨none, [], [], false⟩ 8).map (fun n => (n.parent, n.children, transposeT [⟨99, 2⟩, ⟨10, 2⟩, ⟨11, 2⟩, ⟨12, 2⟩] n.perm)) =
      some (some 7, [8, 5], some [⟨10, 2⟩, ⟨99, 2⟩, ⟨11, 2⟩, ⟨12, 2⟩]) := by decide
example :
    (TTN.buildInNode [⟨99, 2⟩, ⟨10, 2⟩, ⟨11, 2⟩, ⟨12, 2⟩] ⟨none, [5, 6], [3], true⟩ ⟨none, [], [], false⟩ 8).map (fun n => (n.parent, n.children, transposeT [⟨99, 2⟩, ⟨10, 2⟩, ⟨11, 2⟩, ⟨12, 2⟩] n.perm)) =
      some (none, [8, 5, 6], some [⟨99, 2⟩, ⟨10, 2⟩, ⟨11, 2⟩, ⟨12, 2⟩]) := by decide
example :
    (TTN.buildInNode [⟨99, 2⟩, ⟨10, 2⟩, ⟨11, 2⟩, ⟨12, 2⟩] ⟨none, [5], [3, 4], false⟩ ⟨some 7, [], [], false⟩ 8).map (fun n => (n.parent, n.children, transposeT [⟨99, 2⟩, ⟨10, 2⟩, ⟨11, 2⟩, ⟨12, 2⟩] n.perm)) =
      some (some 8, [5], some [⟨99, 2⟩, ⟨10, 2⟩, ⟨11, 2⟩, ⟨12, 2⟩]) := by decide
example :
    (TTN.buildOutNode [⟨20, 2⟩, ⟨21, 2⟩, ⟨22, 2⟩, ⟨99, 2⟩] ⟨none, [5], [3, 4], false⟩ ⟨some 7, [], [], false⟩ 9).map (fun n => (n.parent, n.children, transposeT [⟨20, 2⟩, ⟨21, 2⟩, ⟨22, 2⟩, ⟨99, 2⟩] n.perm)) =
      some (some 9, [5], some [⟨99, 2⟩, ⟨20, 2⟩, ⟨21, 2⟩, ⟨22, 2⟩]) := by decide
example :
    (TTN.buildOutNode [⟨20, 2⟩, ⟨21, 2⟩, ⟨22, 2⟩, ⟨99, 2⟩] ⟨some 7, [5], [4], false⟩ ⟨none, [], [], false⟩ 9).map (fun n => (n.parent, n.children, transposeT [⟨20, 2⟩, ⟨21, 2⟩, ⟨22, 2⟩, ⟨99, 2⟩] n.perm)) =
      some (some 7, [9, 5], some [⟨20, 2⟩, ⟨99, 2⟩, ⟨21, 2⟩, ⟨22, 2⟩]) := by decide
example :
    (TTN.buildOutNode [⟨20, 2⟩, ⟨21, 2⟩, ⟨22, 2⟩, ⟨99, 2⟩] ⟨none, [5, 6], [4], true⟩ ⟨none, [], [], false⟩ 9).map (fun n => (n.parent, n.children, transposeT [⟨20, 2⟩, ⟨21, 2⟩, ⟨22, 2⟩, ⟨99, 2⟩] n.perm)) =
      some (none, [9, 5, 6], some [⟨99, 2⟩, ⟨20, 2⟩, ⟨21, 2⟩, ⟨22, 2⟩]) := by decide

/-! ### Graph level: operations keep the network well-formed

`TTN.WF` (see `Graph.lean`, `SGraph.lean`): node keys = tensor keys; exactly one parentless node and
`root` names it; parent/child links symmetric; no duplicate children; a rank strictly decreasing
towards the root (every node reaches the root – the graph is a tree); every node satisfies the Node
invariant `WFN`; every recorded `_shape` is the shape of the stored array. -/

/-- A plain access (`ttn.tensors[id]`, `ttn[id]`: lazy transposition + `_reset_permutation`) keeps the
    network well-formed. -/
theorem access_preserves_wf {t t1 : TTN} {id : Id} {T : Tensor} (h : t.WF)
    (ha : t.access id = some (t1, T)) : t1.WF :=
  access_wf h ha

/-- **`contract_nodes` keeps the network well-formed** – every well-formed network, both argument orders,
    every admissible identifier (either operand's identifier or an unused one). -/
theorem contract_nodes_wf {t t' : TTN} {id1 id2 new : Id} (h : t.WF)
    (hnew : new = id1 ∨ new = id2 ∨ t.N new = none)
    (hc : t.contractNodes id1 id2 new = some t') : t'.WF :=
  contract_nodes_wf_aux h hnew hc

/-- … and what the contraction does to the structure: the two nodes are replaced by `new`, which has the
    parent's parent and exactly the other children of both; everybody else keeps its array bookkeeping and
    has its references to the two old identifiers renamed (`contractRen`); the root is transferred when
    the parent was the root; the tensor dictionary loses the two keys and gains `new`. -/
theorem contract_nodes_structure {t t' : TTN} {id1 id2 new : Id} (h : t.WF)
    (hnew : new = id1 ∨ new = id2 ∨ t.N new = none)
    (hc : t.contractNodes id1 id2 new = some t') :
    ∃ pid cid P C nn newT, t.N pid = some P ∧ t.N cid = some C ∧ C.parent = some pid ∧
      ((pid = id1 ∧ cid = id2) ∨ (pid = id2 ∧ cid = id1)) ∧
      t'.N new = some nn ∧ nn.parent = P.parent ∧
      (∀ x, x ∈ nn.children ↔ ((x ∈ P.children ∧ x ≠ cid) ∨ x ∈ C.children)) ∧
      (pid ≠ new → t'.N pid = none) ∧ (cid ≠ new → t'.N cid = none) ∧
      (∀ k, k ≠ new → k ≠ pid → k ≠ cid →
        (t.N k = none → t'.N k = none) ∧
        (∀ n, t.N k = some n → ∃ n', t'.N k = some n' ∧ CRel pid cid new n n')) ∧
      (∀ k, dget t'.tensors k = if k = new then some newT
                                else if k = pid ∨ k = cid then none else dget t.tensors k) ∧
      t'.root = (if P.parent = none then some new else t.root) := by
  obtain ⟨pid, cid, P, C, nn, newT, hP, hC, hCp, hids, _, n1, _, _, _, n5, _, a1, a2, a3, a4, a5, a6, _⟩ :=
    contract_final h hnew hc
  exact ⟨pid, cid, P, C, nn, newT, hP, hC, hCp, hids, a1, n1, n5, a2, a3, a4, a5, a6⟩

/-- **`split_nodes` keeps the network well-formed** – every well-formed network, every splitting function
    (QR, SVD, replacement: only the new bond dimension enters), every admissible pair of leg
    specifications (`SplitAdm`: the child identifiers partition the children, exactly one side takes the
    parent resp. the root flag) and identifiers (the old one on either side, or unused ones). -/
theorem split_nodes_wf {t t' : TTN} {id : Id} {X : NodeS} {outL inL : TTN.LegSpec} {outId inId : Id}
    {bd : Nat} (h : t.WF) (adm : SplitAdm t id X outL inL outId inId)
    (hs : t.splitNodes id outL inL outId inId bd = some t') : t'.WF :=
  split_nodes_wf_aux h adm hs

/-- … and what the split does to the structure.  `a` is the side that takes the place of the old node
    towards its parent (or as root), `b` the other side: `a` has the old parent and children `b :: aCh`,
    `b` has parent `a` and children `bCh`; the old identifier disappears unless reused; every former
    child points to the side that lists it, the former parent points to `a` (`splitRen`); everybody else
    is untouched; the root is transferred to `a` when the old node was the root. -/
theorem split_nodes_structure {t t' : TTN} {id : Id} {X : NodeS} {outL inL : TTN.LegSpec} {outId inId : Id}
    {bd : Nat} (h : t.WF) (adm : SplitAdm t id X outL inL outId inId)
    (hs : t.splitNodes id outL inL outId inId bd = some t') :
    ∃ a b aCh bCh na nb,
      ((a = outId ∧ b = inId ∧ aCh = outL.childLegs ∧ bCh = inL.childLegs) ∨
       (a = inId ∧ b = outId ∧ aCh = inL.childLegs ∧ bCh = outL.childLegs)) ∧
      t'.N a = some na ∧ t'.N b = some nb ∧
      na.parent = X.parent ∧ na.children = b :: aCh ∧ nb.parent = some a ∧ nb.children = bCh ∧
      (id ≠ a → id ≠ b → t'.N id = none) ∧
      (∀ k, k ≠ a → k ≠ b → k ≠ id →
        (t.N k = none → t'.N k = none) ∧
        (∀ n, t.N k = some n → ∃ n', t'.N k = some n' ∧ SRel id a b aCh k n n')) ∧
      t'.root = (if X.parent = none then some a else t.root) := by
  obtain ⟨a, b, aCh, bCh, na, nb, _, _, hcfg, _, hNa, hNb, p1, p2, p3, p4, _, _, _, _, hid, hby, _, hR, _, _⟩ :=
    split_final h adm hs
  exact ⟨a, b, aCh, bCh, na, nb, hcfg, hNa, hNb, p1, p2, p3, p4, hid, hby, hR⟩

/-! ### the remaining edits, and arbitrary histories -/

/-- `add_root` on the empty network yields a well-formed one-node network. -/
theorem add_root_wf {t t' : TTN} {id : Id} {T : Tensor} (hn : t.nodes = []) (ht : t.tensors = [])
    (h : t.addRoot id T = some t') : t'.WF :=
  add_root_wf_aux hn ht h

/-- `add_child_to_parent` keeps the network well-formed (whatever raw leg positions are used). -/
theorem add_child_to_parent_wf {t t' : TTN} {cid pid : Id} {T : Tensor} {cl pl : Nat} (h : t.WF)
    (hs : t.addChildToParent cid T cl pid pl = some t') : t'.WF :=
  add_child_wf_aux h hs

/-- `replace_tensor(node_id, new_tensor, permutation)` keeps the network well-formed when the permutation
    (if any) is a permutation of the axes. -/
theorem replace_tensor_wf {t t' : TTN} {id : Id} {newT : Tensor} {p : Option (List Nat)} (h : t.WF)
    (hp : ∀ q, p = some q → q.Perm (List.range q.length))
    (hs : t.replaceTensor id newT p = some t') : t'.WF :=
  replace_tensor_wf_aux h hp hs

/-- `change_node_identifier(new, old)` keeps the network well-formed when `new` is `old` or unused. -/
theorem change_node_identifier_wf {t t' : TTN} {new old : Id} (h : t.WF)
    (hnew : new = old ∨ t.N new = none) (hs : t.changeNodeIdentifier new old = some t') : t'.WF :=
  rename_wf_aux h hnew hs

/-- `insert_identity(child, parent, new)` keeps the network well-formed when `new` is unused. -/
theorem insert_identity_wf {t t' : TTN} {cid pid new : Id} (h : t.WF) (hnew : t.N new = none)
    (hs : t.insertIdentity cid pid new = some t') : t'.WF :=
  insert_identity_wf_aux h hnew hs

/-- **Every finite history of admissible operations** (contractions, splits of every kind, identity
    insertions, identifier changes, tensor replacements with a permutation, plain accesses, additions of
    children – in any interleaving) **keeps the network well-formed**: one root, symmetric links, a tree,
    identical key sets, Node invariants, recorded shapes = stored shapes. -/
theorem ops_preserve_wf {t t' : TTN} {ops : List TOp} (h : t.WF) (hr : TRun t ops t') : t'.WF :=
  run_wf h hr

/-- … in particular every network built from nothing. -/
theorem built_networks_wf {t' : TTN} {id : Id} {T : Tensor} {ops : List TOp}
    (hr : TRun TTN.empty (.root id T :: ops) t') : t'.WF :=
  built_wf hr

/-- Non-vacuity: a concrete history from the empty network – root `1`, child `2` (raw legs in the
    "wrong" order), access, contraction `(2, 1) ↦ 3`, split of `3` (in-side becomes the root, identifier
    `3` reused for the out-side), renaming, identity insertion, tensor replacement – is a `TRun`; hence
    the final network (and every intermediate one) is well-formed. -/
example : ∃ t', TRun TTN.empty
    [.root 1 [⟨0, 2⟩, ⟨100, 3⟩, ⟨1, 2⟩],
     .child 2 [⟨2, 2⟩, ⟨100, 3⟩] 1 1 1,
     .access 1,
     .contract 2 1 3,
     .split 3 ⟨none, [], [1], false⟩ ⟨none, [], [0, 2], true⟩ 3 4 2,
     .rename 5 4,
     .ident 3 5 6,
     .rtp 5 (some [2, 0, 1])] t' ∧ t'.WF := by
  have hrun : ∃ t', TRun TTN.empty
      [.root 1 [⟨0, 2⟩, ⟨100, 3⟩, ⟨1, 2⟩],
       .child 2 [⟨2, 2⟩, ⟨100, 3⟩] 1 1 1,
       .access 1,
       .contract 2 1 3,
       .split 3 ⟨none, [], [1], false⟩ ⟨none, [], [0, 2], true⟩ 3 4 2,
       .rename 5 4,
       .ident 3 5 6,
       .rtp 5 (some [2, 0, 1])] t' := by
    exact ⟨_,
      .cons ⟨rfl, rfl⟩ rfl
      (.cons trivial rfl
      (.cons trivial rfl
      (.cons (Or.inr (Or.inr rfl)) rfl
      (.cons ⟨_, ⟨rfl, Or.inl rfl, Or.inr rfl, List.Perm.refl _,
          Or.inr ⟨rfl, rfl, rfl, Or.inr ⟨rfl, rfl⟩⟩⟩⟩ rfl
      (.cons (Or.inr rfl) rfl
      (.cons rfl rfl
      (.cons (fun q hq => by cases hq; decide) rfl
      (.nil _))))))))⟩
  obtain ⟨t', hr⟩ := hrun
  exact ⟨t', hr, built_networks_wf hr⟩

/-! ### Part 4 — composite edits (TDVP updates, centre moves, truncation) restore the tree

The algorithms never call a structural edit alone: they split a node and contract the piece into the
neighbour (`_update_link`, `split_qr_contract_r_to_neighbour`), contract two nodes and split them again
(`_update_two_site_nodes`, `contract_and_split_with_parent`), or insert, split and re-contract projectors
(`recursive_truncation`).  `Composite.lean` models these line by line; the readable, per-operation statements
(including the exact child order afterwards and the open legs of every node) are exported as
`Ptn.C06.*_structure` (`Ptn/C06/Structure.lean`) and `Ptn.C10.*_structure` (`Ptn/C10/Tree.lean`). -/

/-- **Every sequence of composite edits** – tensor accesses, one-site link updates, two-site updates, centre
    moves, `contract_and_split_with_parent` – each with an unused temporary identifier and any new bond
    dimension, keeps the network well-formed and preserves the root and the tree (`TreeEq`: same
    identifiers, same parent of every node, children lists equal up to order). -/
theorem composite_edits_preserve_tree {t t' : TTN} {es : List TdvpEvent} (h : t.WF) (hr : TdvpRun t es t') :
    t'.WF ∧ t'.root = t.root ∧ TreeEq t.S t'.S :=
  tdvp_run_structure h hr

/-- **`recursive_truncation`** (between its canonicalisations; any kept bond dimensions) returns a well-formed
    network with the same root and exactly the same structure: identifiers, parents, children lists in the
    same order. -/
theorem recursive_truncation_restores_structure {t t' : TTN} {kdim : Id → Nat} (h : t.WF)
    (hs : t.recursiveTruncation kdim = some t') : t'.WF ∧ t'.root = t.root ∧ t'.S = t.S :=
  recursive_truncation_full h hs

set_option maxRecDepth 8192 in
/-- Non-vacuity: on the network `1 — {2 — {4}, 3}` built from nothing, a run of composite edits
    (`3 → 1` centre move, access, link update `1 → 2`, two-site update `(2, 4)`, contract-and-split `(3, 1)`)
    exists and changes the child order of `1` from `[2, 3]` to `[3, 2]`; `recursive_truncation` succeeds on
    the same network and gives back the structure. -/
example : ∃ t t' t'', TRun TTN.empty
      [.root 1 [⟨0, 2⟩, ⟨100, 3⟩, ⟨101, 2⟩], .child 2 [⟨100, 3⟩, ⟨1, 2⟩, ⟨102, 2⟩] 0 1 1,
       .child 3 [⟨2, 2⟩, ⟨101, 2⟩] 1 1 2, .child 4 [⟨102, 2⟩, ⟨3, 3⟩] 0 2 2] t ∧
    TdvpRun t [.move 3 1 60 2, .access 1, .link 1 2 61 3, .twoSite 2 4 62 1, .contractSplit 3 1 63 2] t' ∧
    t.S 1 = some (none, [2, 3]) ∧ t'.S 1 = some (none, [3, 2]) ∧
    t.recursiveTruncation (fun c => if c = 2 then 2 else 1) = some t'' ∧ t''.S 1 = some (none, [2, 3]) :=
  ⟨_, _, _, .cons ⟨rfl, rfl⟩ rfl (.cons trivial rfl (.cons trivial rfl (.cons trivial rfl (.nil _)))),
    .cons rfl rfl (.cons trivial rfl (.cons rfl rfl (.cons rfl rfl (.cons rfl rfl (.nil _))))),
    rfl, rfl, rfl, rfl⟩

/-! ### Part 5 — the network-level label invariant

Every stored axis carries a label and a dimension (`Axis`).  For a node `k`, `t.Leg k x ax` says that the
leg of `k` towards its neighbour `x` is the axis `ax`; `t.openAxes k` are its open axes in order;
`t.openList` lists the open axes of the whole network by node identifier, then by position.

`TTN.LWF` (**label well-formedness**): `∀ k x ax, t.Leg k x ax → t.Leg x k ax` – the two ends of every bond
are the same axis: *partner labels, equal dimension*.

The theorems below say, operation by operation, where every leg and every open axis goes; that `LWF` is
preserved; and that open axes are never created, lost or duplicated (`openList` changes by a permutation
only).  `insert_identity` adds a partner pair carrying the label of the bond it subdivides, nothing else. -/

/-- A plain access changes no logical tensor, no leg, no open axis. -/
theorem access_preserves_labels {t t1 : TTN} {id : Id} {T : Tensor} (hl : t.LWF)
    (ha : t.access id = some (t1, T)) :
    t1.LWF ∧ t.logical id = some T ∧ (∀ k, t1.openAxes k = t.openAxes k) ∧ t1.openList.Perm t.openList :=
  ⟨access_lwf hl ha, (access_labels ha).1, (access_labels ha).2.2.2, access_openList ha⟩

/-- **`contract_nodes` at the level of labels.**  The label invariant is preserved; the new node has the legs
    of the two contracted nodes except the contracted bond, each with the axis it had (`contract_labels` has
    the leg-by-leg statement); its open axes are those of `node_id1` followed by those of `node_id2`; the two
    old identifiers have no axes any more; every other node keeps its open axes; the open axes of the network
    are the same up to order. -/
theorem contract_nodes_labels {t t' : TTN} {id1 id2 new : Id} (h : t.WF) (hl : t.LWF)
    (hnew : new = id1 ∨ new = id2 ∨ t.N new = none)
    (hc : t.contractNodes id1 id2 new = some t') :
    t'.LWF ∧ t'.openAxes new = t.openAxes id1 ++ t.openAxes id2 ∧
    (∀ k, k ≠ new → (k = id1 ∨ k = id2) → t'.openAxes k = []) ∧
    (∀ k, k ≠ new → k ≠ id1 → k ≠ id2 → t'.openAxes k = t.openAxes k) ∧
    t'.openList.Perm t.openList := by
  obtain ⟨pid, cid, hids, _, _, _, _, _, cnew, cgone, cby⟩ := contract_labels h hnew hc
  refine ⟨contract_lwf h hl hnew hc, cnew, ?_, ?_, contract_openList h hnew hc⟩
  · intro k hk hk2
    refine (cgone k hk ?_).2
    rcases hids with ⟨e1, e2⟩ | ⟨e1, e2⟩
    · rw [e1, e2]; exact hk2
    · rw [e1, e2]; exact hk2.symm
  · intro k hk h1 h2
    refine (cby k hk ?_ ?_).2
    · rcases hids with ⟨e1, _⟩ | ⟨e1, _⟩
      · rw [e1]; exact h1
      · rw [e1]; exact h2
    · rcases hids with ⟨_, e2⟩ | ⟨_, e2⟩
      · rw [e2]; exact h2
      · rw [e2]; exact h1

/-- **`split_nodes` at the level of labels.**  The label invariant is preserved (the new bond carries the
    fresh label at both ends; `split_labels` has the leg-by-leg statement); the open axes of the out- and of the
    in-node are those their specifications select, in that order (`pick L legs` reads the logical axes `L` of
    the split node at the given positions); together they are exactly the open axes of the split node; every
    other node keeps its open axes; the open axes of the network are the same up to order. -/
theorem split_nodes_labels {t t' : TTN} {id : Id} {X : NodeS} {outL inL : TTN.LegSpec} {outId inId : Id}
    {bd : Nat} (h : t.WF) (hl : t.LWF) (adm : SplitAdm t id X outL inL outId inId)
    (hs : t.splitNodes id outL inL outId inId bd = some t') :
    t'.LWF ∧ (∃ L, t.logical id = some L ∧
      t'.openAxes outId = pick L outL.openLegs ∧ t'.openAxes inId = pick L inL.openLegs) ∧
    (t'.openAxes outId ++ t'.openAxes inId).Perm (t.openAxes id) ∧
    (∀ k, k ≠ outId → k ≠ inId → k ≠ id → t'.openAxes k = t.openAxes k) ∧
    t'.openList.Perm t.openList := by
  obtain ⟨a, b, _, _, L, hcfg, _, hlogL, _, _, _, _, so, si, hopen, _, sby⟩ := split_labels h adm hs
  refine ⟨split_lwf h hl adm hs, ⟨L, hlogL, so, si⟩, hopen, ?_, split_openList h adm hs⟩
  intro k h1 h2 h3
  have : k ≠ a ∧ k ≠ b := by
    rcases hcfg with ⟨e1, e2, _⟩ | ⟨e1, e2, _⟩
    · rw [e1, e2]; exact ⟨h1, h2⟩
    · rw [e1, e2]; exact ⟨h2, h1⟩
  exact (sby k this.1 this.2 h3).2

/-- **`insert_identity` at the level of labels**: the identity node has exactly two legs, both carrying the
    axis of the bond it subdivides (a partner pair), and no open axis; nothing else changes. -/
theorem insert_identity_labels {t t' : TTN} {cid pid new : Id} (h : t.WF) (hl : t.LWF) (hnew : t.N new = none)
    (hs : t.insertIdentity cid pid new = some t') :
    t'.LWF ∧ (∃ ax, t.Leg cid pid ax ∧ t'.legPairs new = [(pid, ax), (cid, ax)]) ∧ t'.openAxes new = [] ∧
    (∀ k, k ≠ new → t'.openAxes k = t.openAxes k) ∧ t'.openList.Perm t.openList := by
  obtain ⟨ax, hax, c1, c2, c3⟩ := ident_labels h hnew hs
  exact ⟨ident_lwf h hl hnew hs, ⟨ax, hax, c1⟩, c2, fun k hk => (c3 k hk).2, ident_openList h hnew hs⟩

/-- **`change_node_identifier` at the level of labels**: the renamed node keeps all its legs and open axes. -/
theorem change_node_identifier_labels {t t' : TTN} {new old : Id} (h : t.WF) (hl : t.LWF)
    (hnew : new = old ∨ t.N new = none) (hs : t.changeNodeIdentifier new old = some t') :
    t'.LWF ∧ t'.legPairs new = t.legPairs old ∧ t'.openAxes new = t.openAxes old ∧
    (∀ k, k ≠ new → k ≠ old → t'.openAxes k = t.openAxes k) ∧ t'.openList.Perm t.openList := by
  obtain ⟨_, c1, c2, _, c4⟩ := rename_labels h hnew hs
  exact ⟨rename_lwf h hl hnew hs, c1, c2, fun k h1 h2 => (c4 k h1 h2).2, rename_openList h hnew hs⟩

/-- **`replace_tensor` with a permutation** (the same array, axes stored in another order) changes no logical
    tensor, no leg, no open axis. -/
theorem replace_tensor_labels {t t' : TTN} {id : Id} {p : Option (List Nat)} (h : t.WF) (hl : t.LWF)
    (hp : ∀ q, p = some q → q.Perm (List.range q.length))
    (hs : t.replaceTensorPermuted id p = some t') :
    t'.LWF ∧ (∀ k, t'.logical k = t.logical k) ∧ (∀ k, t'.openAxes k = t.openAxes k) ∧
    t'.openList.Perm t.openList :=
  ⟨rtp_lwf h hl hp hs, fun k => (rtp_labels h hp hs k).1, fun k => (rtp_labels h hp hs k).2.2,
    rtp_openList h hp hs⟩

/-- **`add_child_to_parent` at the level of labels**: when the bond axis of the new tensor is the axis of the
    parent's open leg it is attached to (`ChildLAdm`; the code compares only the dimensions), the label
    invariant is preserved. -/
theorem add_child_to_parent_labels {t t' : TTN} {cid pid : Id} {T : Tensor} {cl pl : Nat} (h : t.WF)
    (hl : t.LWF) (hadm : ChildLAdm t T cl pid pl) (hs : t.addChildToParent cid T cl pid pl = some t') :
    t'.LWF :=
  add_child_lwf h hl hadm hs

/-- **Every admissible, label-admissible history keeps the network well-formed and label-consistent**
    (extension of `ops_preserve_wf`): after any interleaving of contractions, splits, identity insertions,
    identifier changes, tensor replacements, accesses and additions of children with matching bond axes, the
    two ends of every bond carry the same label and dimension. -/
theorem ops_preserve_labels {t t' : TTN} {ops : List TOp} (h : t.WF) (hl : t.LWF) (hr : TRunL t ops t') :
    t'.WF ∧ t'.LWF :=
  runL_labels h hl hr

/-- … in particular every network built from nothing with matching bond labels. -/
theorem built_networks_labels {t' : TTN} {id : Id} {T : Tensor} {ops : List TOp}
    (hr : TRunL TTN.empty (.root id T :: ops) t') : t'.WF ∧ t'.LWF :=
  builtL_labels hr

/-- **The open labels of the network are invariant**: after any history of admissible edits (everything
    except the construction steps) the list of open axes of the network, in canonical order (by node identifier,
    then position), is a permutation of the initial one – open legs move between nodes as the per-operation
    theorems say, but are never created, lost or duplicated; and the network is still well-formed and
    label-consistent. -/
theorem contraction_labels_invariant {t t' : TTN} {ops : List TOp} (h : t.WF) (hl : t.LWF)
    (hr : TRun t ops t') (he : ∀ op ∈ ops, op.isEdit) :
    t'.WF ∧ t'.LWF ∧ t'.openList.Perm t.openList :=
  edits_run_labels h hl hr he

/-- **Composite edits keep every open leg where it is**: after any sequence of accesses, link updates, two-site
    updates, centre moves and contract-and-splits the network is well-formed and label-consistent, root and tree
    are preserved, and every node has exactly the open axes it had (labels, order, dimensions). -/
theorem composite_edits_preserve_labels {t t' : TTN} {es : List TdvpEvent} (h : t.WF) (hl : t.LWF)
    (hr : TdvpRun t es t') :
    t'.WF ∧ t'.LWF ∧ t'.root = t.root ∧ TreeEq t.S t'.S ∧ ∀ k, t'.openAxes k = t.openAxes k :=
  tdvp_run_labels h hl hr

/-- **`recursive_truncation` keeps every open leg where it is.** -/
theorem recursive_truncation_preserves_labels {t t' : TTN} {kdim : Id → Nat} (h : t.WF) (hl : t.LWF)
    (hs : t.recursiveTruncation kdim = some t') :
    t'.WF ∧ t'.LWF ∧ t'.root = t.root ∧ t'.S = t.S ∧ ∀ k, t'.openAxes k = t.openAxes k :=
  recursive_truncation_labels h hl hs

/-- Non-vacuity: the history of Part 3 (root, child with matching bond label `100`, access, contraction, split
    with identifier reuse and root transfer, renaming, identity insertion, tensor replacement) is label-admissible;
    so the final network is well-formed and label-consistent.  Its edits leave the open axes `⟨0,2⟩, ⟨1,2⟩, ⟨2,2⟩`
    of the network in place up to order. -/
example : ∃ t', TRunL TTN.empty
    [.root 1 [⟨0, 2⟩, ⟨100, 3⟩, ⟨1, 2⟩],
     .child 2 [⟨2, 2⟩, ⟨100, 3⟩] 1 1 1,
     .access 1,
     .contract 2 1 3,
     .split 3 ⟨none, [], [1], false⟩ ⟨none, [], [0, 2], true⟩ 3 4 2,
     .rename 5 4,
     .ident 3 5 6,
     .rtp 5 (some [2, 0, 1])] t' ∧ t'.WF ∧ t'.LWF ∧
    t'.openAxes 3 = [⟨0, 2⟩] ∧ t'.openAxes 5 = [⟨2, 2⟩, ⟨1, 2⟩] ∧ t'.openAxes 6 = [] := by
  have hrun : ∃ t', TRunL TTN.empty
      [.root 1 [⟨0, 2⟩, ⟨100, 3⟩, ⟨1, 2⟩],
       .child 2 [⟨2, 2⟩, ⟨100, 3⟩] 1 1 1,
       .access 1,
       .contract 2 1 3,
       .split 3 ⟨none, [], [1], false⟩ ⟨none, [], [0, 2], true⟩ 3 4 2,
       .rename 5 4,
       .ident 3 5 6,
       .rtp 5 (some [2, 0, 1])] t' ∧
      t'.openAxes 3 = [⟨0, 2⟩] ∧ t'.openAxes 5 = [⟨2, 2⟩, ⟨1, 2⟩] ∧ t'.openAxes 6 = [] := by
    exact ⟨_,
      .cons ⟨rfl, rfl⟩ trivial rfl
      (.cons trivial ⟨_, rfl, rfl⟩ rfl
      (.cons trivial trivial rfl
      (.cons (Or.inr (Or.inr rfl)) trivial rfl
      (.cons ⟨_, ⟨rfl, Or.inl rfl, Or.inr rfl, List.Perm.refl _,
          Or.inr ⟨rfl, rfl, rfl, Or.inr ⟨rfl, rfl⟩⟩⟩⟩ trivial rfl
      (.cons (Or.inr rfl) trivial rfl
      (.cons rfl trivial rfl
      (.cons (fun q hq => by cases hq; decide) trivial rfl
      (.nil _)))))))), rfl, rfl, rfl⟩
  obtain ⟨t', hr, o1, o2, o3⟩ := hrun
  exact ⟨t', hr, (built_networks_labels hr).1, (built_networks_labels hr).2, o1, o2, o3⟩

/-! ### Part 6 — progress: admissible calls never raise

The theorems above have the form "if the call returns, then …".  Here the converse for the two central
operations: under a *computable* admissibility test on the state and the arguments (`admissibleB`:
`contractAdmB` – the two nodes exist and are adjacent, the new identifier is one of the two or unused;
`splitAdmB` – the node exists, the new identifiers differ and are the old one or unused, the child identifiers
of the two specifications partition the children, their open legs partition the open legs, exactly one side
takes the parent resp. the root flag) no exception branch of the model is taken.  For `contract_nodes` this
needs the label invariant: it is what makes the two dimensions compared by `tensordot` agree. -/

/-- **`contract_nodes` on two adjacent nodes never raises** (well-formed, label-consistent network; new
    identifier one of the two or unused). -/
theorem contract_nodes_never_errors {t : TTN} (h : t.WF) (hl : t.LWF) {id1 id2 new : Id}
    (hadm : contractAdmB t id1 id2 new = true) : ∃ t', t.contractNodes id1 id2 new = some t' :=
  contract_nodes_progress h hl hadm

/-- **`split_nodes` with leg specifications that partition the legs never raises** (well-formed network,
    `SplitAdm`, distinct new identifiers, every open leg named exactly once; any new bond dimension). -/
theorem split_nodes_never_errors {t : TTN} (h : t.WF) {id : Id} {X : NodeS} {outL inL : TTN.LegSpec}
    {outId inId : Id} (bd : Nat) (adm : SplitAdm t id X outL inL outId inId) (hoi : outId ≠ inId)
    (hopen : (outL.openLegs ++ inL.openLegs).Perm (List.range' X.nvirt (X.nlegs - X.nvirt))) :
    ∃ t', t.splitNodes id outL inL outId inId bd = some t' :=
  split_nodes_progress h bd adm hoi hopen

/-- **Admissible calls never raise**: for accesses, contractions and splits that pass the computable test
    `admissibleB` the model call returns a network, the call is admissible in the sense of `ops_preserve_wf`,
    and the result is again well-formed and label-consistent (so the statement can be iterated). -/
theorem admissible_never_errors {t : TTN} (h : t.WF) (hl : t.LWF) (op : TOp)
    (hadm : admissibleB t op = true) :
    ∃ t', t.step op = some t' ∧ op.Adm t ∧ t'.WF ∧ t'.LWF :=
  admissible_never_errors_aux h hl op hadm

/-- Non-vacuity: on the two-node network `1 — 2` built from nothing the contraction `(2, 1) ↦ 3` passes the
    test, and so does – on the result – the split of `3` with the out-side taking open leg `1`, the in-side (the
    root) open legs `0, 2`; a contraction of non-adjacent / missing nodes and a split that forgets an open leg
    do not. -/
example : ∃ t, TRunL TTN.empty
    [.root 1 [⟨0, 2⟩, ⟨100, 3⟩, ⟨1, 2⟩], .child 2 [⟨2, 2⟩, ⟨100, 3⟩] 1 1 1] t ∧
    admissibleB t (.contract 2 1 3) = true ∧ admissibleB t (.contract 2 5 3) = false ∧
    (∃ t1, t.step (.contract 2 1 3) = some t1 ∧
      admissibleB t1 (.split 3 ⟨none, [], [1], false⟩ ⟨none, [], [0, 2], true⟩ 3 4 2) = true ∧
      admissibleB t1 (.split 3 ⟨none, [], [1], false⟩ ⟨none, [], [0], true⟩ 3 4 2) = false) :=
  ⟨_, .cons ⟨rfl, rfl⟩ trivial rfl (.cons trivial ⟨_, rfl, rfl⟩ rfl (.nil _)), rfl, rfl, _, rfl, rfl, rfl⟩


/-! ### Part 7 — value level (`Value.lean`): non-vacuity of `contract_nodes_value`, `split_nodes_value`,
`replace_tensor_value`, `ops_preserve_value` -/

section ValueDemo
open Ptn.Ein Ptn.C03

/-- the two-node network `1 — 2` of the example above with integer tensors: node 1 has the legs `10, 11, 12`
(`11` the bond), node 2 the legs `20, 21` (`21` the bond); all dimensions 2 -/
def vDemo : VNet Int where
  ids := [1, 2]
  legs := fun k => if k = 1 then [10, 11, 12] else if k = 2 then [20, 21] else []
  tens := fun k σ => if k = 1 then (σ 10 : Int) + 2 * (σ 11 : Int) + 3 * (σ 12 : Int) + 1
    else 5 * (σ 20 : Int) - (σ 21 : Int) + 2
  bonds := [(11, 21)]
  next := 100

def vDim : Nat → Nat := fun _ => 2

theorem vDemo_wf : vDemo.WF := by
  refine ⟨by decide, ?_, ?_, ?_, by decide, ?_, ?_⟩
  · intro n hn
    simp only [vDemo, List.mem_cons, List.not_mem_nil, or_false] at hn
    rcases hn with rfl | rfl <;> simp [vDemo]
  · intro n hn m hm l h1 h2
    simp only [vDemo, List.mem_cons, List.not_mem_nil, or_false] at hn hm
    rcases hn with rfl | rfl <;> rcases hm with rfl | rfl <;> simp [vDemo] at h1 h2 <;> omega
  · intro n hn
    simp only [vDemo, List.mem_cons, List.not_mem_nil, or_false] at hn
    rcases hn with rfl | rfl
    · intro σ τ h
      have h0 := h 10 (by simp [vDemo]); have h1 := h 11 (by simp [vDemo]); have h2 := h 12 (by simp [vDemo])
      simp [vDemo, h0, h1, h2]
    · intro σ τ h
      have h0 := h 20 (by simp [vDemo]); have h1 := h 21 (by simp [vDemo])
      simp [vDemo, h0, h1]
  · intro p hp
    simp only [vDemo, List.mem_cons, List.not_mem_nil, or_false] at hp
    subst hp
    exact ⟨⟨1, by simp [vDemo], by simp [vDemo]⟩, ⟨2, by simp [vDemo], by simp [vDemo]⟩⟩
  · intro n hn l hl
    simp only [vDemo, List.mem_cons, List.not_mem_nil, or_false] at hn
    rcases hn with rfl | rfl <;> simp [vDemo] at hl ⊢ <;> omega

/-- `contract_nodes(2, 1, new_identifier=3)` is admissible on the demo network -/
theorem vDemo_contract : ContractAdm vDemo 2 1 3 (11, 21) 21 11 :=
  ⟨by simp [vDemo], by simp [vDemo], by decide, ⟨by simp [vDemo], Or.inr rfl, by simp [vDemo], by simp [vDemo]⟩,
    Or.inr (Or.inr (by simp [vDemo]))⟩

/-- the contracted network -/
def vDemo1 : VNet Int := contractStep vDim vDemo 2 1 3 (11, 21) 21 11

/-- splitting the contracted node back (out: the open leg of the old node 2, in: the two open legs of node 1) with
the exact factorisation given by the two original tensors over the fresh bond `(100, 101)` -/
def vDemoFact : SplitFact vDim (vDemo1.tens 3) [20] [10, 12] vDemo1.next (vDemo1.next + 1) where
  O := fun ρ => 5 * (ρ 20 : Int) - (ρ 100 : Int) + 2
  I := fun ρ => (ρ 10 : Int) + 2 * (ρ 101 : Int) + 3 * (ρ 12 : Int) + 1
  exact := by
    intro τ
    simp [vDemo1, contractStep, vDemo, vDim, sumPairs, sumR, upd, List.range_succ]
    try ring
  readsO := by
    intro σ τ h
    have h0 := h 20 (by simp); have h1 := h 100 (by simp [vDemo1, contractStep, vDemo])
    simp [h0, h1]
  readsI := by
    intro σ τ h
    have h0 := h 10 (by simp); have h1 := h 101 (by simp [vDemo1, contractStep, vDemo]); have h2 := h 12 (by simp)
    simp [h0, h1, h2]

theorem vDemo_split : SplitAdmV vDemo1 3 3 4 [20] [10, 12] :=
  ⟨by simp [vDemo1, contractStep], by decide, Or.inl rfl, Or.inr (by simp [vDemo1, contractStep, vDemo]),
    by simp [vDemo1, contractStep, vDemo]⟩

/-- the premises of `ops_preserve_value` are satisfiable by a history with a contraction, a split with an exact
factorisation and a tensor replacement with a permutation -/
example : vDemo.WF ∧ ∃ N', VRun vDim vDemo N' :=
  ⟨vDemo_wf, _, VRun.cons (VStep.contract vDemo_contract)
    (VRun.cons (VStep.split vDemo_split vDemoFact)
      (VRun.cons (VStep.perm (id := 4) (legs' := [12, 101, 10]) (by
        simp [splitStep, vDemo1, contractStep, vDemo]
        decide)) (VRun.nil _)))⟩

/-- `insert_identity` on the bond of the demo network: the premises of `insert_identity_value` hold -/
example : (11, 21) ∈ vDemo.bonds ∧ 7 ∉ vDemo.ids ∧ vDim (vDemo.next + 1) = vDim (11, 21).1 :=
  ⟨by simp [vDemo], by simp [vDemo], rfl⟩

end ValueDemo

/-! ### Part 8 — simulation of the structural model by the value-level edits (`Sim.lean`, `SimContract.lean`,
`SimSplit.lean`, `SimOps.lean`, `SimIdent.lean`, `SimHistory.lean`): non-vacuity of `contract_nodes_simulates`,
`split_nodes_simulates`, `insert_identity_simulates`, `change_node_identifier_simulates`, `replace_tensor_simulates`,
`access_simulates`, `simstep_sound`, `simstep_complete`, `structural_history_preserves_value`.
The instance (`SimDemo.lean`): the two-node network `1 — 2` built from nothing (bond of dimension 3, open axes `0, 1`
at node 1 and `2` at node 2) with integer tensors; `g` gives the two ends of the bond the labels 50 and 51. -/

section SimDemoExamples
open Ptn.Ein Ptn.C03 SimDemo

/-- the premises of `contract_nodes_simulates` hold on the demo instance: a well-formed, label-consistent structural
state built from nothing, a well-formed valued network related to it, an admissible contraction that succeeds -/
example : t0.WF ∧ t0.LWF ∧ v0.WF ∧ RSim SimDemo.dim SimDemo.e SimDemo.g t0 v0 ∧
    (3 = 2 ∨ 3 = 1 ∨ t0.N 3 = none) ∧ t0.contractNodes 2 1 3 = some t1 :=
  ⟨t0_wf.1, t0_wf.2, v0_wf, rsim0, Or.inr (Or.inr rfl), rfl⟩

/-- the premises of `split_nodes_simulates` hold after that contraction: `SplitAdm`, the split succeeds, the fresh
labels `100, 101` have the new bond dimension 3, and there is an exact factorisation (`fact2`: the two original
tensors) along `out = [2]`, `in = [0, 1]` -/
example : (∃ X, SplitAdm t1 3 X ⟨none, [], [0], false⟩ ⟨none, [], [1, 2], true⟩ 3 4) ∧
    t1.splitNodes 3 ⟨none, [], [0], false⟩ ⟨none, [], [1, 2], true⟩ 3 4 3 = some t2 ∧
    (SimDemo.dim v1.next = 3 ∧ SimDemo.dim (v1.next + 1) = 3) ∧
    splitOutLegs SimDemo.e g1 t2 3 3 4 = [2] ∧ splitInLegs SimDemo.e g1 t2 3 3 4 = [0, 1] ∧
    Nonempty (SplitFact SimDemo.dim (v1.tens 3) (splitOutLegs SimDemo.e g1 t2 3 3 4)
      (splitInLegs SimDemo.e g1 t2 3 3 4) v1.next (v1.next + 1)) :=
  ⟨adm2, rfl, ⟨rfl, rfl⟩, outLegs2, inLegs2, ⟨fact2⟩⟩

/-- the premises of `insert_identity_simulates` hold on the demo instance: `7` is unused, the insertion between the
child `2` and the parent `1` succeeds, the fresh labels have the dimension of the subdivided bond -/
example : t0.N 7 = none ∧ (∃ t', t0.insertIdentity 2 1 7 = some t') ∧
    (∀ ax, t0.Leg 2 1 ax → SimDemo.dim v0.next = ax.dim ∧ SimDemo.dim (v0.next + 1) = ax.dim) := by
  refine ⟨rfl, ⟨_, rfl⟩, ?_⟩
  intro ax hl
  unfold TTN.Leg at hl
  rw [t0_legPairs] at hl
  simp at hl
  subst hl
  exact ⟨rfl, rfl⟩

/-- the premises of `structural_history_preserves_value` (and of `simstep_sound` at every step) hold for the history
"contract (2, 1) -> 3; split 3 with the exact factorisation `fact2`; rename 4 -> 5; access 5; replace_tensor(5) with a
permutation" — which covers `change_node_identifier_simulates`, `access_simulates`, `replace_tensor_simulates` — so
its conclusion holds: the final valued network is related to the final structural state and has the value of `v0`. -/
example : ∃ t' g' v', SimRun SimDemo.dim SimDemo.e t0 SimDemo.g v0
      [.contract 2 1 3, .split 3 ⟨none, [], [0], false⟩ ⟨none, [], [1, 2], true⟩ 3 4 3, .rename 5 4, .access 5,
       .rtp 5 (some [2, 0, 1])] t' g' v' ∧
    t'.WF ∧ v'.WF ∧ RSim SimDemo.dim SimDemo.e g' t' v' ∧ ∀ σ, v'.value SimDemo.dim σ = v0.value SimDemo.dim σ := by
  obtain ⟨t', g', v', hr⟩ := simrun
  obtain ⟨_, _, w, _, vw, s, _, val⟩ :=
    structural_history_preserves_value SimDemo.dim SimDemo.e t0_wf.1 t0_wf.2 v0_wf rsim0 hr
  exact ⟨t', g', v', hr, w, vw, s, val⟩

end SimDemoExamples

/-! ### Part 9 — the composite edits at the value level (`SimComposite.lean`, `SimCompositeTdvp.lean`,
`SimCompositeTrunc.lean`): non-vacuity of `centre_move_preserves_value`, `contract_split_preserves_value`,
`link_update_value`, `two_site_update_value`, `truncate_node_value`, `tdvp_step_preserves_value_structure`,
`moves_preserve_value`.  The instances (`SimCompositeDemo.lean`) live on the demo network `1 — 2` of part 8. -/

section SimCompositeExamples
open Ptn.Ein Ptn.C03 SimDemo

/-- `centre_move_preserves_value`: the premises hold for the move `2 → 1` (exact rank-3 factorisation `factm` of the
tensor of node 2), so the conclusion holds: the composite edit returns the final state and the value is that of `v0` -/
example : ∃ g' v', SimRun SimDemo.dim SimDemo.e t0 SimDemo.g v0 [.split 2 qS rS 2 7 3, .contract 1 7 1] tm2 g' v' ∧
    t0.centreMove 2 1 7 3 = some tm2 ∧ v'.WF ∧ ∀ σ, v'.value SimDemo.dim σ = v0.value SimDemo.dim σ := by
  obtain ⟨g', v', hr⟩ := simrun_centre_move
  obtain ⟨a1, _, _, a4, _, a6⟩ :=
    centre_move_preserves_value SimDemo.dim SimDemo.e t0_wf.1 t0_wf.2 v0_wf rsim0 t0_N2 canon2 hr
  exact ⟨g', v', hr, a1, a4, a6⟩

/-- `contract_split_preserves_value`: `contract_and_split_with_parent(2, 1)` with the exact factorisation `fact2c` -/
example : ∃ g' v', SimRun SimDemo.dim SimDemo.e t0 SimDemo.g v0 [.contract 2 1 3, .split 3 uS wS 2 1 3] t2c g' v' ∧
    t0.contractSplit 2 1 3 3 = some t2c ∧ v'.WF ∧ ∀ σ, v'.value SimDemo.dim σ = v0.value SimDemo.dim σ := by
  obtain ⟨g', v', hr⟩ := simrun_contract_split
  obtain ⟨a1, _, _, a4, _, a6⟩ :=
    contract_split_preserves_value SimDemo.dim SimDemo.e t0_wf.1 t0_wf.2 v0_wf rsim0 lbc21 hr
  exact ⟨g', v', hr, a1, a4, a6⟩

/-- `link_update_value`: link update `2 → 1`, the link tensor multiplied by 7 (a genuine change: `X7 ≠` the old
tensor); the value after is the value of the intermediate network with the link tensor replaced -/
example : ∃ (t' : TTN) (v' : VNet Int), t0.linkUpdate 2 1 7 3 = some t' ∧ v'.WF ∧
    (∀ σ, vm1.value SimDemo.dim σ = v0.value SimDemo.dim σ) ∧
    (∀ σ, v'.value SimDemo.dim σ = (setTens vm1 7 X7).value SimDemo.dim σ) := by
  obtain ⟨t', g', v', hr2⟩ := simrun_link_2
  obtain ⟨a1, _, _, a4, _, _, _, a8, a9, _⟩ :=
    link_update_value SimDemo.dim SimDemo.e t0_wf.1 t0_wf.2 v0_wf rsim0 t0_N2 tdvp2 simrun_link_1 X7_reads hr2
  exact ⟨t', v', a1, a4, a8, a9⟩

/-- `two_site_update_value`: two-site update of `(2, 1)`, the two-site tensor doubled, split with the exact
factorisation `fact2a` of the doubled tensor -/
example : ∃ v' : VNet Int, t0.twoSiteUpdate 2 1 3 3 = some t2c ∧ v'.WF ∧
    (∀ σ, v1.value SimDemo.dim σ = v0.value SimDemo.dim σ) ∧
    (∀ σ, v'.value SimDemo.dim σ = (setTens v1 3 X2).value SimDemo.dim σ) := by
  obtain ⟨g', v', hr2⟩ := simrun_two_site_2
  obtain ⟨a1, _, _, a4, _, _, _, a8, a9, _⟩ :=
    two_site_update_value SimDemo.dim SimDemo.e t0_wf.1 t0_wf.2 v0_wf rsim0 lbc21 simrun_two_site_1 X2_reads hr2
  exact ⟨v', a1, a4, a8, a9⟩

/-- `truncate_node_value`: identity inserted on the bond `2 — 1`, replaced by the rank-2 projector `Pi2`, split into
the projector pair (`facti`); the value after is the value of the network with `Pi2` on the bond -/
example : ∃ v' : VNet Int, t0.insertProjectors 1 2 tids 3 = some ti2 ∧ v'.WF ∧
    (∀ σ, vi1.value SimDemo.dim σ = v0.value SimDemo.dim σ) ∧
    vi1.tens 7 = (fun ρ => if ρ v0.next = ρ (v0.next + 1) then 1 else 0) ∧
    (∀ σ, v'.value SimDemo.dim σ = (setTens vi1 7 Pi2).value SimDemo.dim σ) := by
  obtain ⟨g', v', hr2⟩ := simrun_trunc_2
  obtain ⟨a1, _, _, a4, _, _, a7, a8, a9, _⟩ :=
    truncate_node_value SimDemo.dim SimDemo.e t0_wf.1 t0_wf.2 v0_wf rsim0 simrun_trunc_1 Pi2_reads hr2
  exact ⟨v', a1, a4, a7, a8, a9⟩

/-- `tdvp_step_preserves_value_structure` / `moves_preserve_value`: the event sequence consisting of one
`contract_and_split_with_parent(2, 1)` is simulated; it is a `TdvpRun`, no replacement is recorded, the value is constant -/
example : ∃ g' v' us, SimTdvpRun SimDemo.dim SimDemo.e t0 SimDemo.g v0 [.contractSplit 2 1 3 3] t2c g' v' us ∧
    TdvpRun t0 [.contractSplit 2 1 3 3] t2c ∧ UpdTrace SimDemo.dim v0 us v' ∧ us = [] := by
  obtain ⟨g', v', hr⟩ := simrun_contract_split
  have hrun : SimTdvpRun SimDemo.dim SimDemo.e t0 SimDemo.g v0 [.contractSplit 2 1 3 3] t2c g' v' [] :=
    .cons (u := none) (show t0.N 3 = none from rfl) (.contractSplit lbc21 hr) (.nil _ _ _)
  obtain ⟨a1, _, _, _, _, a6, _⟩ :=
    tdvp_step_preserves_value_structure SimDemo.dim SimDemo.e t0_wf.1 t0_wf.2 v0_wf rsim0 hrun
  exact ⟨g', v', [], hrun, a1, a6, rfl⟩

/-- an event sequence WITH an update: the two-site update of `(2, 1)` with the two-site tensor doubled records exactly
that replacement -/
example : ∃ g' v', SimTdvpRun SimDemo.dim SimDemo.e t0 SimDemo.g v0 [.twoSite 2 1 3 3] t2c g' v' [(v1, 3, X2)] ∧
    UpdTrace SimDemo.dim v0 [(v1, 3, X2)] v' := by
  obtain ⟨g', v', hr2⟩ := simrun_two_site_2
  have hrun : SimTdvpRun SimDemo.dim SimDemo.e t0 SimDemo.g v0 [.twoSite 2 1 3 3] t2c g' v' [(v1, 3, X2)] :=
    .cons (u := some (v1, 3, X2)) (show t0.N 3 = none from rfl)
      (.twoSite lbc21 simrun_two_site_1 X2_reads hr2) (.nil _ _ _)
  obtain ⟨_, _, _, _, _, a6, _⟩ :=
    tdvp_step_preserves_value_structure SimDemo.dim SimDemo.e t0_wf.1 t0_wf.2 v0_wf rsim0 hrun
  exact ⟨g', v', hrun, a6⟩

/-- `centre_move_simrun_exists`: its premises hold on the demo instance (`7` unused, the move `2 → 1` succeeds, the
factorisation `factm` is exact for the state the split produces) -/
example : t0.N 7 = none ∧ t0.centreMove 2 1 7 3 = some tm2 ∧
    ∀ node q r t1, t0.N 2 = some node → TTN.canonSpecs node 1 = some (q, r) →
      t0.splitNodes 2 q r 2 7 3 = some t1 → SimDemo.dim v0.next = 3 ∧ SimDemo.dim (v0.next + 1) = 3 ∧
      Nonempty (SplitFact SimDemo.dim (v0.tens 2) (splitOutLegs SimDemo.e SimDemo.g t1 2 2 7)
        (splitInLegs SimDemo.e SimDemo.g t1 2 2 7) v0.next (v0.next + 1)) := by
  refine ⟨rfl, rfl, ?_⟩
  intro node q r t1 hn hsp hs1
  rw [t0_N2] at hn; cases hn
  rw [canon2] at hsp; cases hsp
  have : t0.splitNodes 2 qS rS 2 7 3 = some tm1 := rfl
  rw [this] at hs1; cases hs1
  exact ⟨rfl, rfl, ⟨factm⟩⟩

end SimCompositeExamples

end Ptn.C02
