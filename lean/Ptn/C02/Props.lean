import Ptn.C02.Model
/-! Property theorems for C02. Only property theorems and non-vacuity examples live here. -/
namespace Ptn.C02
end Ptn.C02
