import Ptn.C02.NodeProps
import Ptn.C02.TTNLemmas
import Ptn.C02.ContractSpec
import Ptn.C02.SplitSpec
import Ptn.C02.ContractWF
import Ptn.C02.SplitWF
import Ptn.C02.OpsWF
import Ptn.C02.TruncWF
/-! Property theorems for C02.  Only property theorems and non-vacuity examples live here (part 1,
the Node machine, is in `NodeProps.lean`, imported here); helper lemmas are in `Lemmas.lean`,
`NodeSpec.lean`, `TTNLemmas.lean`, `ContractSpec.lean`, ….

Part 2 — `TreeTensorNetwork` at the level of structure, leg labels and shapes (`TTN.lean`). -/
namespace Ptn.C02
open NodeS

/-- **Leg order of `contract_nodes`** (`_create_contracted_node`).  Let the contracted array be
    `T = Tp ++ Tc ++ To ++ Tcc ++ Tco` – what `tensordot(parent, child)` delivers: the parent's parent leg,
    its remaining child legs, its open legs, then the child's child legs and open legs.  For every parent
    `P` (root or not, the contracted child anywhere among its children) and child `C`, the node that is
    built has `P`'s parent, is well-formed, and its logical legs (what `ttn.tensors[new]` shows) are

    * `node_id1 = parent`: `(parent, P-children…, C-children…, P-open…, C-open…)`, children `K1 ++ K2 ++ C.children`;
    * `node_id1 = child` : `(parent, C-children…, P-children…, C-open…, P-open…)`, children `C.children ++ K1 ++ K2`

    which is the documented rule `(parent_parent_leg, node1_children_legs, node2_children_legs,
    node1_open_legs, node2_open_legs)`. -/
theorem create_contracted_node_spec (t : TTN) (pid cid id1 : Id) (P C : NodeS)
    (hP : dget t.nodes pid = some P) (hC : dget t.nodes cid = some C)
    (K1 K2 : List Id) (hPch : P.children = K1 ++ cid :: K2) (hcid : cid ∉ K1)
    (hKnd : (K1 ++ K2 ++ C.children).Nodup)
    (Tp Tc To Tcc Tco : Tensor) (hTp : Tp.length = P.nparents) (hTc : Tc.length = K1.length + K2.length)
    (hTo : To.length + P.nvirt = P.nlegs) (hTcc : Tcc.length = C.children.length) :
    ∃ nn, t.createContractedNode (Tp ++ Tc ++ To ++ Tcc ++ Tco) pid cid id1 = some nn ∧
      nn.parent = P.parent ∧ nn.shp = shapeOf (Tp ++ Tc ++ To ++ Tcc ++ Tco) ∧ WFN nn ∧
      (id1 = pid → nn.children = K1 ++ K2 ++ C.children ∧
        transposeT (Tp ++ Tc ++ To ++ Tcc ++ Tco) nn.perm = some (Tp ++ (Tc ++ Tcc) ++ (To ++ Tco))) ∧
      (id1 ≠ pid → nn.children = C.children ++ (K1 ++ K2) ∧
        transposeT (Tp ++ Tc ++ To ++ Tcc ++ Tco) nn.perm = some (Tp ++ (Tcc ++ Tc) ++ (Tco ++ To))) :=
  create_contracted_node_aux t pid cid id1 P C _ hP hC K1 K2 hPch hcid hKnd Tp Tc To Tcc Tco rfl hTp hTc hTo hTcc

/-- Non-vacuity: a parent `1` (child of `9`, children `[2, 3]`, one open leg) contracted with its child `3`
    (children `[4]`, one open leg), both argument orders. -/
example :
    let t : TTN := ⟨[(1, ⟨[0, 1, 2, 3], [2, 2, 2, 2], some 9, [2, 3]⟩), (3, ⟨[0, 1, 2], [2, 2, 2], some 1, [4]⟩)],
      [], some 9, 0⟩
    let T : Tensor := [⟨10, 2⟩, ⟨11, 2⟩, ⟨12, 2⟩, ⟨13, 2⟩, ⟨14, 2⟩]
    (t.createContractedNode T 1 3 1).map (fun n => (n.children, transposeT T n.perm)) =
      some ([2, 4], some [⟨10, 2⟩, ⟨11, 2⟩, ⟨13, 2⟩, ⟨12, 2⟩, ⟨14, 2⟩]) ∧
    (t.createContractedNode T 1 3 3).map (fun n => (n.children, transposeT T n.perm)) =
      some ([4, 2], some [⟨10, 2⟩, ⟨13, 2⟩, ⟨11, 2⟩, ⟨14, 2⟩, ⟨12, 2⟩]) := by
  decide

/-! ### Leg order of `split_nodes`

The splitting function returns `out = (out legs…, bond)` and `in = (bond, in legs…)` where the legs of
each side come in the order `(parent, children…, open…)` of its `LegSpecification`.  The six theorems
below cover every admissible configuration of "who keeps the parent / who becomes the root":
the in-node may keep the parent, become the root, or become the child of the out-node, and likewise
the out-node.  Each states parent, children (the new neighbour is always the **first** child) and
the logical leg order `(parent, children…, open…)`; open legs stay in the order of the specification. -/

/-- in keeps the parent. -/
theorem split_in_node_keeps_parent_spec (inL outL : TTN.LegSpec) (outId p : Id) (b a : Axis)
    (Ic Io : Tensor) (hp : inL.parentLeg = some p) (hroot : inL.isRoot = false)
    (hIc : Ic.length = inL.childLegs.length) (hnd : (outId :: inL.childLegs).Nodup) :
    ∃ nn, TTN.buildInNode (b :: a :: (Ic ++ Io)) inL outL outId = some nn ∧ WFN nn ∧
      nn.shp = shapeOf (b :: a :: (Ic ++ Io)) ∧ nn.parent = some p ∧ nn.children = outId :: inL.childLegs ∧
      transposeT (b :: a :: (Ic ++ Io)) nn.perm = some (a :: b :: (Ic ++ Io)) := by
  have hn : (b :: a :: (Ic ++ Io)).length = 1 + 1 + inL.childLegs.length + Io.length := by
    simp [hIc]; omega
  have hc := in_node_closed_parent (b :: a :: (Ic ++ Io)) inL outL outId p Io.length hp hroot hn hnd
  have hperm : ([1] ++ ([0] ++ List.range' 2 inL.childLegs.length) ++ List.range' (2 + inL.childLegs.length) Io.length).Perm
      (List.range (b :: a :: (Ic ++ Io)).length) := by
    have := range_five 1 1 inL.childLegs.length Io.length 0
    rw [hn]
    simp only [Nat.add_zero] at this
    rw [this]
    simpa using List.Perm.swap 0 1 (List.range' 2 inL.childLegs.length ++ List.range' (2 + inL.childLegs.length) Io.length)
  refine ⟨_, hc, ?_, rfl, rfl, rfl, ?_⟩
  · exact wfn_of_perm_range _ _ _ _ _ hperm (by simp [shapeOf]) (by simp; omega)
  · apply transposeT_of_map _ _ _ (by rw [hperm.length_eq, List.length_range]) (hperm.symm.nodup List.nodup_range)
    have r3 := map_getElem?_range'_gen [b, a] Ic Io
    have r4 := map_getElem?_range'_gen ([b, a] ++ Ic) Io []
    simp only [List.length_cons, List.length_nil, Nat.zero_add, List.append_nil, List.length_append] at r3 r4
    simp only [List.map_append, List.map_cons, List.map_nil]
    rw [← hIc]
    have e : [b, a] ++ Ic ++ Io = b :: a :: (Ic ++ Io) := by simp
    rw [e] at r3 r4
    rw [r3, r4]
    simp

/-- in becomes the root (its specification has `is_root`). -/
theorem split_in_node_root_spec (inL outL : TTN.LegSpec) (outId : Id) (b : Axis) (Ic Io : Tensor)
    (hp : inL.parentLeg = none) (hroot : inL.isRoot = true) (hop : outL.parentLeg = none)
    (hIc : Ic.length = inL.childLegs.length) (hnd : (outId :: inL.childLegs).Nodup) :
    ∃ nn, TTN.buildInNode (b :: (Ic ++ Io)) inL outL outId = some nn ∧ WFN nn ∧
      nn.shp = shapeOf (b :: (Ic ++ Io)) ∧ nn.parent = none ∧ nn.children = outId :: inL.childLegs ∧
      transposeT (b :: (Ic ++ Io)) nn.perm = some (b :: (Ic ++ Io)) := by
  have hn : (b :: (Ic ++ Io)).length = 1 + inL.childLegs.length + Io.length := by simp [hIc]; omega
  have hc := in_node_closed_root (b :: (Ic ++ Io)) inL outL outId Io.length hp hroot hop hn hnd
  refine ⟨_, hc, ?_, rfl, rfl, rfl, ?_⟩
  · exact wfn_of_perm_range _ _ _ _ _ (List.Perm.refl _) (by simp [shapeOf]) (by simp [hIc] <;> omega)
  · exact transposeT_of_map _ _ _ (by simp) List.nodup_range (map_getElem?_range _)

/-- in becomes the child of the out-node. -/
theorem split_in_node_child_spec (inL outL : TTN.LegSpec) (outId : Id) (b : Axis) (Ic Io : Tensor)
    (hp : inL.parentLeg = none) (hroot : inL.isRoot = false)
    (hIc : Ic.length = inL.childLegs.length) (hnd : inL.childLegs.Nodup) :
    ∃ nn, TTN.buildInNode (b :: (Ic ++ Io)) inL outL outId = some nn ∧ WFN nn ∧
      nn.shp = shapeOf (b :: (Ic ++ Io)) ∧ nn.parent = some outId ∧ nn.children = inL.childLegs ∧
      transposeT (b :: (Ic ++ Io)) nn.perm = some (b :: (Ic ++ Io)) := by
  have hn : (b :: (Ic ++ Io)).length = 1 + inL.childLegs.length + Io.length := by simp [hIc]; omega
  have hc := in_node_closed_child (b :: (Ic ++ Io)) inL outL outId Io.length hp hroot hn hnd
  refine ⟨_, hc, ?_, rfl, rfl, rfl, ?_⟩
  · exact wfn_of_perm_range _ _ _ _ _ (List.Perm.refl _) (by simp [shapeOf]) (by simp [hIc] <;> omega)
  · exact transposeT_of_map _ _ _ (by simp) List.nodup_range (map_getElem?_range _)

/-- out becomes the child of the in-node (in keeps the parent or becomes the root): the new bond, last
    axis of the out array, becomes the parent leg. -/
theorem split_out_node_child_spec (outL inL : TTN.LegSpec) (inId : Id) (b : Axis) (Oc Oo : Tensor)
    (hp : outL.parentLeg = none) (hroot : outL.isRoot = false)
    (hin : inL.isRoot = true ∨ inL.parentLeg.isSome = true)
    (hOc : Oc.length = outL.childLegs.length) (hnd : outL.childLegs.Nodup) :
    ∃ nn, TTN.buildOutNode (Oc ++ Oo ++ [b]) outL inL inId = some nn ∧ WFN nn ∧
      nn.shp = shapeOf (Oc ++ Oo ++ [b]) ∧ nn.parent = some inId ∧ nn.children = outL.childLegs ∧
      transposeT (Oc ++ Oo ++ [b]) nn.perm = some (b :: (Oc ++ Oo)) := by
  have hn : (Oc ++ Oo ++ [b]).length = outL.childLegs.length + Oo.length + 1 := by simp [hOc] <;> omega
  have hc := out_node_closed_child (Oc ++ Oo ++ [b]) outL inL inId Oo.length hp hroot hin hn hnd
  have hperm : ([outL.childLegs.length + Oo.length] ++ List.range' 0 outL.childLegs.length ++
      List.range' outL.childLegs.length Oo.length).Perm (List.range (Oc ++ Oo ++ [b]).length) := by
    have := range_five outL.childLegs.length Oo.length 1 0 0
    rw [hn]
    simp only [Nat.add_zero] at this
    rw [this]
    perm_blocks
  refine ⟨_, hc, ?_, rfl, rfl, rfl, ?_⟩
  · exact wfn_of_perm_range _ _ _ _ _ hperm (by simp [shapeOf]) (by simp; omega)
  · apply transposeT_of_map _ _ _ (by rw [hperm.length_eq, List.length_range]) (hperm.symm.nodup List.nodup_range)
    obtain ⟨r1, r2, r3, -, -⟩ := five_blocks_read Oc Oo [b] [] []
    simp only [List.append_nil, List.length_cons, List.length_nil] at r1 r2 r3
    simp only [List.map_append, List.map_cons, List.map_nil]
    rw [← hOc, r1, r2]
    have hb : (Oc ++ Oo ++ [b])[Oc.length + Oo.length]? = some b := by simp
    rw [hb]
    simp

/-- out keeps the parent: the new bond becomes the **first child** leg. -/
theorem split_out_node_keeps_parent_spec (outL inL : TTN.LegSpec) (inId p : Id) (b a : Axis)
    (Oc Oo : Tensor) (hp : outL.parentLeg = some p) (hroot : outL.isRoot = false)
    (hin1 : inL.isRoot = false) (hin2 : inL.parentLeg = none)
    (hOc : Oc.length = outL.childLegs.length) (hnd : (inId :: outL.childLegs).Nodup) :
    ∃ nn, TTN.buildOutNode (a :: (Oc ++ Oo) ++ [b]) outL inL inId = some nn ∧ WFN nn ∧
      nn.shp = shapeOf (a :: (Oc ++ Oo) ++ [b]) ∧ nn.parent = some p ∧ nn.children = inId :: outL.childLegs ∧
      transposeT (a :: (Oc ++ Oo) ++ [b]) nn.perm = some (a :: b :: (Oc ++ Oo)) := by
  have hn : (a :: (Oc ++ Oo) ++ [b]).length = 1 + outL.childLegs.length + Oo.length + 1 := by
    simp [hOc]; omega
  have hc := out_node_closed_parent (a :: (Oc ++ Oo) ++ [b]) outL inL inId p Oo.length hp hroot hin1 hin2 hn hnd
  have hperm : ([0] ++ ([1 + outL.childLegs.length + Oo.length] ++ List.range' 1 outL.childLegs.length) ++
      (List.range' (1 + outL.childLegs.length) Oo.length ++ [])).Perm
      (List.range (a :: (Oc ++ Oo) ++ [b]).length) := by
    have := range_five 1 outL.childLegs.length Oo.length 1 0
    rw [hn]
    simp only [Nat.add_zero] at this
    rw [this]
    perm_blocks
  refine ⟨_, hc, ?_, rfl, rfl, rfl, ?_⟩
  · exact wfn_of_perm_range _ _ _ _ _ hperm (by simp [shapeOf]) (by simp; omega)
  · apply transposeT_of_map _ _ _ (by rw [hperm.length_eq, List.length_range]) (hperm.symm.nodup List.nodup_range)
    obtain ⟨r1, r2, r3, r4, -⟩ := five_blocks_read [a] Oc Oo [b] []
    simp only [List.append_nil, List.length_cons, List.length_nil, Nat.zero_add] at r1 r2 r3 r4
    have e : [a] ++ Oc ++ Oo ++ [b] = a :: (Oc ++ Oo) ++ [b] := by simp
    rw [e] at r1 r2 r3 r4
    simp only [List.map_append, List.map_cons, List.map_nil]
    rw [← hOc, r2, r3]
    have h0 : (a :: (Oc ++ Oo) ++ [b])[0]? = some a := by simp
    have hb : (a :: (Oc ++ Oo) ++ [b])[1 + Oc.length + Oo.length]? = some b := by
      have := r4
      simpa using this
    rw [h0, hb]
    simp

/-- out becomes the root: the new bond becomes the first child leg. -/
theorem split_out_node_root_spec (outL inL : TTN.LegSpec) (inId : Id) (b : Axis) (Oc Oo : Tensor)
    (hp : outL.parentLeg = none) (hroot : outL.isRoot = true)
    (hin1 : inL.isRoot = false) (hin2 : inL.parentLeg = none)
    (hOc : Oc.length = outL.childLegs.length) (hnd : (inId :: outL.childLegs).Nodup) :
    ∃ nn, TTN.buildOutNode (Oc ++ Oo ++ [b]) outL inL inId = some nn ∧ WFN nn ∧
      nn.shp = shapeOf (Oc ++ Oo ++ [b]) ∧ nn.parent = none ∧ nn.children = inId :: outL.childLegs ∧
      transposeT (Oc ++ Oo ++ [b]) nn.perm = some (b :: (Oc ++ Oo)) := by
  have hn : (Oc ++ Oo ++ [b]).length = outL.childLegs.length + Oo.length + 1 := by simp [hOc] <;> omega
  have hc := out_node_closed_root (Oc ++ Oo ++ [b]) outL inL inId Oo.length hp hroot hin1 hin2 hn hnd
  have hperm : ([] ++ ([outL.childLegs.length + Oo.length] ++ List.range' 0 outL.childLegs.length) ++
      (List.range' outL.childLegs.length Oo.length ++ [])).Perm (List.range (Oc ++ Oo ++ [b]).length) := by
    have := range_five outL.childLegs.length Oo.length 1 0 0
    rw [hn]
    simp only [Nat.add_zero] at this
    rw [this]
    perm_blocks
  refine ⟨_, hc, ?_, rfl, rfl, rfl, ?_⟩
  · exact wfn_of_perm_range _ _ _ _ _ hperm (by simp [shapeOf]) (by simp; omega)
  · apply transposeT_of_map _ _ _ (by rw [hperm.length_eq, List.length_range]) (hperm.symm.nodup List.nodup_range)
    obtain ⟨r1, r2, r3, -, -⟩ := five_blocks_read Oc Oo [b] [] []
    simp only [List.append_nil, List.length_cons, List.length_nil] at r1 r2 r3
    simp only [List.map_append, List.map_cons, List.map_nil, List.nil_append]
    rw [← hOc, r1, r2]
    have hb : (Oc ++ Oo ++ [b])[Oc.length + Oo.length]? = some b := by simp
    rw [hb]
    simp

/-! Non-vacuity: the six configurations on concrete arrays (bond label 99). -/
example :
    (TTN.buildInNode [⟨99, 2⟩, ⟨10, 2⟩, ⟨11, 2⟩, ⟨12, 2⟩] ⟨some 7, [5], [3], false⟩ ⟨none, [], [], false⟩ 8).map (fun n => (n.parent, n.children, transposeT [⟨99, 2⟩, ⟨10, 2⟩, ⟨11, 2⟩, ⟨12, 2⟩] n.perm)) =
      some (some 7, [8, 5], some [⟨10, 2⟩, ⟨99, 2⟩, ⟨11, 2⟩, ⟨12, 2⟩]) := by decide
example :
    (TTN.buildInNode [⟨99, 2⟩, ⟨10, 2⟩, ⟨11, 2⟩, ⟨12, 2⟩] ⟨none, [5, 6], [3], true⟩ ⟨none, [], [], false⟩ 8).map (fun n => (n.parent, n.children, transposeT [⟨99, 2⟩, ⟨10, 2⟩, ⟨11, 2⟩, ⟨12, 2⟩] n.perm)) =
      some (none, [8, 5, 6], some [⟨99, 2⟩, ⟨10, 2⟩, ⟨11, 2⟩, ⟨12, 2⟩]) := by decide
example :
    (TTN.buildInNode [⟨99, 2⟩, ⟨10, 2⟩, ⟨11, 2⟩, ⟨12, 2⟩] ⟨none, [5], [3, 4], false⟩ ⟨some 7, [], [], false⟩ 8).map (fun n => (n.parent, n.children, transposeT [⟨99, 2⟩, ⟨10, 2⟩, ⟨11, 2⟩, ⟨12, 2⟩] n.perm)) =
      some (some 8, [5], some [⟨99, 2⟩, ⟨10, 2⟩, ⟨11, 2⟩, ⟨12, 2⟩]) := by decide
example :
    (TTN.buildOutNode [⟨20, 2⟩, ⟨21, 2⟩, ⟨22, 2⟩, ⟨99, 2⟩] ⟨none, [5], [3, 4], false⟩ ⟨some 7, [], [], false⟩ 9).map (fun n => (n.parent, n.children, transposeT [⟨20, 2⟩, ⟨21, 2⟩, ⟨22, 2⟩, ⟨99, 2⟩] n.perm)) =
      some (some 9, [5], some [⟨99, 2⟩, ⟨20, 2⟩, ⟨21, 2⟩, ⟨22, 2⟩]) := by decide
example :
    (TTN.buildOutNode [⟨20, 2⟩, ⟨21, 2⟩, ⟨22, 2⟩, ⟨99, 2⟩] ⟨some 7, [5], [4], false⟩ ⟨none, [], [], false⟩ 9).map (fun n => (n.parent, n.children, transposeT [⟨20, 2⟩, ⟨21, 2⟩, ⟨22, 2⟩, ⟨99, 2⟩] n.perm)) =
      some (some 7, [9, 5], some [⟨20, 2⟩, ⟨99, 2⟩, ⟨21, 2⟩, ⟨22, 2⟩]) := by decide
example :
    (TTN.buildOutNode [⟨20, 2⟩, ⟨21, 2⟩, ⟨22, 2⟩, ⟨99, 2⟩] ⟨none, [5, 6], [4], true⟩ ⟨none, [], [], false⟩ 9).map (fun n => (n.parent, n.children, transposeT [⟨20, 2⟩, ⟨21, 2⟩, ⟨22, 2⟩, ⟨99, 2⟩] n.perm)) =
      some (none, [9, 5, 6], some [⟨99, 2⟩, ⟨20, 2⟩, ⟨21, 2⟩, ⟨22, 2⟩]) := by decide

/-! ### Graph level: operations keep the network well-formed

`TTN.WF` (see `Graph.lean`, `SGraph.lean`): node keys = tensor keys; exactly one parentless node and
`root` names it; parent/child links symmetric; no duplicate children; a rank strictly decreasing
towards the root (every node reaches the root – the graph is a tree); every node satisfies the Node
invariant `WFN`; every recorded `_shape` is the shape of the stored array. -/

/-- A plain access (`ttn.tensors[id]`, `ttn[id]`: lazy transposition + `_reset_permutation`) keeps the
    network well-formed. -/
theorem access_preserves_wf {t t1 : TTN} {id : Id} {T : Tensor} (h : t.WF)
    (ha : t.access id = some (t1, T)) : t1.WF :=
  access_wf h ha

/-- **`contract_nodes` keeps the network well-formed** – every well-formed network, both argument orders,
    every admissible identifier (either operand's identifier or an unused one). -/
theorem contract_nodes_wf {t t' : TTN} {id1 id2 new : Id} (h : t.WF)
    (hnew : new = id1 ∨ new = id2 ∨ t.N new = none)
    (hc : t.contractNodes id1 id2 new = some t') : t'.WF :=
  contract_nodes_wf_aux h hnew hc

/-- … and what the contraction does to the structure: the two nodes are replaced by `new`, which has the
    parent's parent and exactly the other children of both; everybody else keeps its array bookkeeping and
    has its references to the two old identifiers renamed (`contractRen`); the root is transferred when
    the parent was the root; the tensor dictionary loses the two keys and gains `new`. -/
theorem contract_nodes_structure {t t' : TTN} {id1 id2 new : Id} (h : t.WF)
    (hnew : new = id1 ∨ new = id2 ∨ t.N new = none)
    (hc : t.contractNodes id1 id2 new = some t') :
    ∃ pid cid P C nn newT, t.N pid = some P ∧ t.N cid = some C ∧ C.parent = some pid ∧
      ((pid = id1 ∧ cid = id2) ∨ (pid = id2 ∧ cid = id1)) ∧
      t'.N new = some nn ∧ nn.parent = P.parent ∧
      (∀ x, x ∈ nn.children ↔ ((x ∈ P.children ∧ x ≠ cid) ∨ x ∈ C.children)) ∧
      (pid ≠ new → t'.N pid = none) ∧ (cid ≠ new → t'.N cid = none) ∧
      (∀ k, k ≠ new → k ≠ pid → k ≠ cid →
        (t.N k = none → t'.N k = none) ∧
        (∀ n, t.N k = some n → ∃ n', t'.N k = some n' ∧ CRel pid cid new n n')) ∧
      (∀ k, dget t'.tensors k = if k = new then some newT
                                else if k = pid ∨ k = cid then none else dget t.tensors k) ∧
      t'.root = (if P.parent = none then some new else t.root) := by
  obtain ⟨pid, cid, P, C, nn, newT, hP, hC, hCp, hids, _, n1, _, _, _, n5, _, a1, a2, a3, a4, a5, a6⟩ :=
    contract_final h hnew hc
  exact ⟨pid, cid, P, C, nn, newT, hP, hC, hCp, hids, a1, n1, n5, a2, a3, a4, a5, a6⟩

/-- **`split_nodes` keeps the network well-formed** – every well-formed network, every splitting function
    (QR, SVD, replacement: only the new bond dimension enters), every admissible pair of leg
    specifications (`SplitAdm`: the child identifiers partition the children, exactly one side takes the
    parent resp. the root flag) and identifiers (the old one on either side, or unused ones). -/
theorem split_nodes_wf {t t' : TTN} {id : Id} {X : NodeS} {outL inL : TTN.LegSpec} {outId inId : Id}
    {bd : Nat} (h : t.WF) (adm : SplitAdm t id X outL inL outId inId)
    (hs : t.splitNodes id outL inL outId inId bd = some t') : t'.WF :=
  split_nodes_wf_aux h adm hs

/-- … and what the split does to the structure.  `a` is the side that takes the place of the old node
    towards its parent (or as root), `b` the other side: `a` has the old parent and children `b :: aCh`,
    `b` has parent `a` and children `bCh`; the old identifier disappears unless reused; every former
    child points to the side that lists it, the former parent points to `a` (`splitRen`); everybody else
    is untouched; the root is transferred to `a` when the old node was the root. -/
theorem split_nodes_structure {t t' : TTN} {id : Id} {X : NodeS} {outL inL : TTN.LegSpec} {outId inId : Id}
    {bd : Nat} (h : t.WF) (adm : SplitAdm t id X outL inL outId inId)
    (hs : t.splitNodes id outL inL outId inId bd = some t') :
    ∃ a b aCh bCh na nb,
      ((a = outId ∧ b = inId ∧ aCh = outL.childLegs ∧ bCh = inL.childLegs) ∨
       (a = inId ∧ b = outId ∧ aCh = inL.childLegs ∧ bCh = outL.childLegs)) ∧
      t'.N a = some na ∧ t'.N b = some nb ∧
      na.parent = X.parent ∧ na.children = b :: aCh ∧ nb.parent = some a ∧ nb.children = bCh ∧
      (id ≠ a → id ≠ b → t'.N id = none) ∧
      (∀ k, k ≠ a → k ≠ b → k ≠ id →
        (t.N k = none → t'.N k = none) ∧
        (∀ n, t.N k = some n → ∃ n', t'.N k = some n' ∧ SRel id a b aCh k n n')) ∧
      t'.root = (if X.parent = none then some a else t.root) := by
  obtain ⟨a, b, aCh, bCh, na, nb, _, _, hcfg, _, hNa, hNb, p1, p2, p3, p4, _, _, _, _, hid, hby, _, hR, _⟩ :=
    split_final h adm hs
  exact ⟨a, b, aCh, bCh, na, nb, hcfg, hNa, hNb, p1, p2, p3, p4, hid, hby, hR⟩

/-! ### the remaining edits, and arbitrary histories -/

/-- `add_root` on the empty network yields a well-formed one-node network. -/
theorem add_root_wf {t t' : TTN} {id : Id} {T : Tensor} (hn : t.nodes = []) (ht : t.tensors = [])
    (h : t.addRoot id T = some t') : t'.WF :=
  add_root_wf_aux hn ht h

/-- `add_child_to_parent` keeps the network well-formed (whatever raw leg positions are used). -/
theorem add_child_to_parent_wf {t t' : TTN} {cid pid : Id} {T : Tensor} {cl pl : Nat} (h : t.WF)
    (hs : t.addChildToParent cid T cl pid pl = some t') : t'.WF :=
  add_child_wf_aux h hs

/-- `replace_tensor(node_id, new_tensor, permutation)` keeps the network well-formed when the permutation
    (if any) is a permutation of the axes. -/
theorem replace_tensor_wf {t t' : TTN} {id : Id} {newT : Tensor} {p : Option (List Nat)} (h : t.WF)
    (hp : ∀ q, p = some q → q.Perm (List.range q.length))
    (hs : t.replaceTensor id newT p = some t') : t'.WF :=
  replace_tensor_wf_aux h hp hs

/-- `change_node_identifier(new, old)` keeps the network well-formed when `new` is `old` or unused. -/
theorem change_node_identifier_wf {t t' : TTN} {new old : Id} (h : t.WF)
    (hnew : new = old ∨ t.N new = none) (hs : t.changeNodeIdentifier new old = some t') : t'.WF :=
  rename_wf_aux h hnew hs

/-- `insert_identity(child, parent, new)` keeps the network well-formed when `new` is unused. -/
theorem insert_identity_wf {t t' : TTN} {cid pid new : Id} (h : t.WF) (hnew : t.N new = none)
    (hs : t.insertIdentity cid pid new = some t') : t'.WF :=
  insert_identity_wf_aux h hnew hs

/-- **Every finite history of admissible operations** (contractions, splits of every kind, identity
    insertions, identifier changes, tensor replacements with a permutation, plain accesses, additions of
    children – in any interleaving) **keeps the network well-formed**: one root, symmetric links, a tree,
    identical key sets, Node invariants, recorded shapes = stored shapes. -/
theorem ops_preserve_wf {t t' : TTN} {ops : List TOp} (h : t.WF) (hr : TRun t ops t') : t'.WF :=
  run_wf h hr

/-- … in particular every network built from nothing. -/
theorem built_networks_wf {t' : TTN} {id : Id} {T : Tensor} {ops : List TOp}
    (hr : TRun TTN.empty (.root id T :: ops) t') : t'.WF :=
  built_wf hr

/-- Non-vacuity: a concrete history from the empty network – root `1`, child `2` (raw legs in the
    "wrong" order), access, contraction `(2, 1) ↦ 3`, split of `3` (in-side becomes the root, identifier
    `3` reused for the out-side), renaming, identity insertion, tensor replacement – is a `TRun`; hence
    the final network (and every intermediate one) is well-formed. -/
example : ∃ t', TRun TTN.empty
    [.root 1 [⟨0, 2⟩, ⟨100, 3⟩, ⟨1, 2⟩],
     .child 2 [⟨2, 2⟩, ⟨100, 3⟩] 1 1 1,
     .access 1,
     .contract 2 1 3,
     .split 3 ⟨none, [], [1], false⟩ ⟨none, [], [0, 2], true⟩ 3 4 2,
     .rename 5 4,
     .ident 3 5 6,
     .rtp 5 (some [2, 0, 1])] t' ∧ t'.WF := by
  have hrun : ∃ t', TRun TTN.empty
      [.root 1 [⟨0, 2⟩, ⟨100, 3⟩, ⟨1, 2⟩],
       .child 2 [⟨2, 2⟩, ⟨100, 3⟩] 1 1 1,
       .access 1,
       .contract 2 1 3,
       .split 3 ⟨none, [], [1], false⟩ ⟨none, [], [0, 2], true⟩ 3 4 2,
       .rename 5 4,
       .ident 3 5 6,
       .rtp 5 (some [2, 0, 1])] t' := by
    exact ⟨_,
      .cons ⟨rfl, rfl⟩ rfl
      (.cons trivial rfl
      (.cons trivial rfl
      (.cons (Or.inr (Or.inr rfl)) rfl
      (.cons ⟨_, ⟨rfl, Or.inl rfl, Or.inr rfl, List.Perm.refl _,
          Or.inr ⟨rfl, rfl, rfl, Or.inr ⟨rfl, rfl⟩⟩⟩⟩ rfl
      (.cons (Or.inr rfl) rfl
      (.cons rfl rfl
      (.cons (fun q hq => by cases hq; decide) rfl
      (.nil _))))))))⟩
  obtain ⟨t', hr⟩ := hrun
  exact ⟨t', hr, built_networks_wf hr⟩

/-! ### Part 4 — composite edits (TDVP updates, centre moves, truncation) restore the tree

The algorithms never call a structural edit alone: they split a node and contract the piece into the
neighbour (`_update_link`, `split_qr_contract_r_to_neighbour`), contract two nodes and split them again
(`_update_two_site_nodes`, `contract_and_split_with_parent`), or insert, split and re-contract projectors
(`recursive_truncation`).  `Composite.lean` models these line by line; the readable, per-operation statements
(including the exact child order afterwards) are exported as `Ptn.C06.*_structure_partial`
(`Ptn/C06/Structure.lean`) and `Ptn.C10.*_structure_partial` (`Ptn/C10/Tree.lean`). -/

/-- **Every sequence of composite edits** – tensor accesses, one-site link updates, two-site updates, centre
    moves, `contract_and_split_with_parent` – each with an unused temporary identifier and any new bond
    dimension, keeps the network well-formed and preserves the root and the tree (`TreeEq`: same
    identifiers, same parent of every node, children lists equal up to order). -/
theorem composite_edits_preserve_tree {t t' : TTN} {es : List TdvpEvent} (h : t.WF) (hr : TdvpRun t es t') :
    t'.WF ∧ t'.root = t.root ∧ TreeEq t.S t'.S :=
  tdvp_run_structure h hr

/-- **`recursive_truncation`** (between its canonicalisations; any kept bond dimensions) returns a well-formed
    network with the same root and exactly the same structure: identifiers, parents, children lists in the
    same order. -/
theorem recursive_truncation_restores_structure {t t' : TTN} {kdim : Id → Nat} (h : t.WF)
    (hs : t.recursiveTruncation kdim = some t') : t'.WF ∧ t'.root = t.root ∧ t'.S = t.S :=
  recursive_truncation_full h hs

set_option maxRecDepth 8192 in
/-- Non-vacuity: on the network `1 — {2 — {4}, 3}` built from nothing, a run of composite edits
    (`3 → 1` centre move, access, link update `1 → 2`, two-site update `(2, 4)`, contract-and-split `(3, 1)`)
    exists and changes the child order of `1` from `[2, 3]` to `[3, 2]`; `recursive_truncation` succeeds on
    the same network and gives back the structure. -/
example : ∃ t t' t'', TRun TTN.empty
      [.root 1 [⟨0, 2⟩, ⟨100, 3⟩, ⟨101, 2⟩], .child 2 [⟨100, 3⟩, ⟨1, 2⟩, ⟨102, 2⟩] 0 1 1,
       .child 3 [⟨2, 2⟩, ⟨101, 2⟩] 1 1 2, .child 4 [⟨102, 2⟩, ⟨3, 3⟩] 0 2 2] t ∧
    TdvpRun t [.move 3 1 60 2, .access 1, .link 1 2 61 3, .twoSite 2 4 62 1, .contractSplit 3 1 63 2] t' ∧
    t.S 1 = some (none, [2, 3]) ∧ t'.S 1 = some (none, [3, 2]) ∧
    t.recursiveTruncation (fun c => if c = 2 then 2 else 1) = some t'' ∧ t''.S 1 = some (none, [2, 3]) :=
  ⟨_, _, _, .cons ⟨rfl, rfl⟩ rfl (.cons trivial rfl (.cons trivial rfl (.cons trivial rfl (.nil _)))),
    .cons rfl rfl (.cons trivial rfl (.cons rfl rfl (.cons rfl rfl (.cons rfl rfl (.nil _))))),
    rfl, rfl, rfl, rfl⟩

end Ptn.C02
