import Ptn.C02.TTNLemmas
import Ptn.C02.NodeProps
/-! Helper lemmas for C02, part 2: the node built by `_create_contracted_node` in closed form. -/
namespace Ptn.C02
open NodeS

theorem nodup_range'_two (a n b m : Nat) (h : a + n ≤ b) :
    (List.range' a n ++ List.range' b m).Nodup := by
  rw [List.nodup_append]
  refine ⟨List.nodup_range', List.nodup_range', ?_⟩
  intro x hx y hy
  simp only [List.mem_range'_1] at hx hy
  omega

/-- Child legs from two blocks `Xc` (first) and `Xcc` (second) of a fresh node. -/
theorem o2cs_two_blocks (n0 : NodeS) (K KC : List Id) (Xp Xc Xo Xcc Xco : List Nat)
    (hperm : n0.perm = Xp ++ Xc ++ Xo ++ Xcc ++ Xco) (hch : n0.children = [])
    (hXp : Xp.length = n0.nparents) (hnd : n0.perm.Nodup)
    (hXc : Xc.length = K.length) (hXcc : Xcc.length = KC.length) :
    n0.openLegsToChildren (TTN.enumFrom K Xp.length ++ TTN.enumFrom KC (Xp.length + Xc.length + Xo.length)) =
      some { n0 with perm := Xp ++ (Xc ++ Xcc) ++ (Xo ++ Xco), children := K ++ KC } := by
  have hnv : n0.nvirt = Xp.length := by simp [nvirt_def, hch, hXp]
  have hsnd : (TTN.enumFrom K Xp.length ++ TTN.enumFrom KC (Xp.length + Xc.length + Xo.length)).map Prod.snd =
      List.range' Xp.length Xc.length ++ List.range' (Xp ++ Xc ++ Xo).length Xcc.length := by
    rw [List.map_append, enumFrom_map_snd, enumFrom_map_snd, ← hXc, ← hXcc]
    simp only [List.length_append]
  have hspec := open_legs_to_children_spec n0
    (TTN.enumFrom K Xp.length ++ TTN.enumFrom KC (Xp.length + Xc.length + Xo.length))
    Xp (Xc ++ Xo ++ Xcc ++ Xco) (Xc ++ Xcc)
    (by rw [hperm]; simp) (by rw [hnv]) hnd
    (by
      intro e he
      have : e.2 ∈ (TTN.enumFrom K Xp.length ++ TTN.enumFrom KC (Xp.length + Xc.length + Xo.length)).map Prod.snd :=
        List.mem_map.mpr ⟨e, he, rfl⟩
      rw [hsnd] at this
      rw [hnv]
      rcases List.mem_append.mp this with h | h <;> simp only [List.mem_range'_1, List.length_append] at h <;> omega)
    (by
      have : (fun (e : Id × Nat) => n0.perm[e.2]?) = (fun i => n0.perm[i]?) ∘ Prod.snd := by funext e; rfl
      rw [this, ← List.map_map, hsnd, List.map_append, List.map_append]
      have e1 := map_getElem?_range' Xp Xc (Xo ++ Xcc ++ Xco)
      have e2 := map_getElem?_range' (Xp ++ Xc ++ Xo) Xcc Xco
      have p1 : n0.perm = Xp ++ Xc ++ (Xo ++ Xcc ++ Xco) := by rw [hperm]; simp
      have p2 : n0.perm = (Xp ++ Xc ++ Xo) ++ Xcc ++ Xco := by rw [hperm]
      conv => lhs; arg 1; rw [p1]
      conv => lhs; arg 2; rw [p2]
      rw [e1, e2])
    (by
      rw [hsnd]
      apply nodup_range'_two
      simp)
  rw [hspec]
  have hfil : (Xc ++ Xo ++ Xcc ++ Xco).filter (fun x => !(Xc ++ Xcc).contains x) = Xo ++ Xco := by
    apply filter_segments
    · have : (Xp ++ (Xc ++ Xo ++ Xcc ++ Xco)).Nodup := by
        have := hnd; rw [hperm] at this; simpa using this
      exact (List.nodup_append.mp this).2.1
    · intro x; simp
  rw [hfil, hch]
  have hk : (TTN.enumFrom K Xp.length ++ TTN.enumFrom KC (Xp.length + Xc.length + Xo.length)).map Prod.fst = K ++ KC := by
    rw [List.map_append, enumFrom_map_fst, enumFrom_map_fst]
  rw [hk]
  simp

/-- The same with the second block first in the dictionary (the `node_id1 == child` order). -/
theorem o2cs_two_blocks_swapped (n0 : NodeS) (K KC : List Id) (Xp Xc Xo Xcc Xco : List Nat)
    (hperm : n0.perm = Xp ++ Xc ++ Xo ++ Xcc ++ Xco) (hch : n0.children = [])
    (hXp : Xp.length = n0.nparents) (hnd : n0.perm.Nodup)
    (hXc : Xc.length = K.length) (hXcc : Xcc.length = KC.length) :
    n0.openLegsToChildren (TTN.enumFrom KC (Xp.length + Xc.length + Xo.length) ++ TTN.enumFrom K Xp.length) =
      some { n0 with perm := Xp ++ (Xcc ++ Xc) ++ (Xo ++ Xco), children := KC ++ K } := by
  have hnv : n0.nvirt = Xp.length := by simp [nvirt_def, hch, hXp]
  have hsnd : (TTN.enumFrom KC (Xp.length + Xc.length + Xo.length) ++ TTN.enumFrom K Xp.length).map Prod.snd =
      List.range' (Xp ++ Xc ++ Xo).length Xcc.length ++ List.range' Xp.length Xc.length := by
    rw [List.map_append, enumFrom_map_snd, enumFrom_map_snd, ← hXc, ← hXcc]
    simp only [List.length_append]
  have hspec := open_legs_to_children_spec n0
    (TTN.enumFrom KC (Xp.length + Xc.length + Xo.length) ++ TTN.enumFrom K Xp.length)
    Xp (Xc ++ Xo ++ Xcc ++ Xco) (Xcc ++ Xc)
    (by rw [hperm]; simp) (by rw [hnv]) hnd
    (by
      intro e he
      have : e.2 ∈ (TTN.enumFrom KC (Xp.length + Xc.length + Xo.length) ++ TTN.enumFrom K Xp.length).map Prod.snd :=
        List.mem_map.mpr ⟨e, he, rfl⟩
      rw [hsnd] at this
      rw [hnv]
      rcases List.mem_append.mp this with h | h <;> simp only [List.mem_range'_1, List.length_append] at h <;> omega)
    (by
      have : (fun (e : Id × Nat) => n0.perm[e.2]?) = (fun i => n0.perm[i]?) ∘ Prod.snd := by funext e; rfl
      rw [this, ← List.map_map, hsnd, List.map_append, List.map_append]
      have e1 := map_getElem?_range' Xp Xc (Xo ++ Xcc ++ Xco)
      have e2 := map_getElem?_range' (Xp ++ Xc ++ Xo) Xcc Xco
      have p1 : n0.perm = Xp ++ Xc ++ (Xo ++ Xcc ++ Xco) := by rw [hperm]; simp
      have p2 : n0.perm = (Xp ++ Xc ++ Xo) ++ Xcc ++ Xco := by rw [hperm]
      conv => lhs; arg 1; rw [p2]
      conv => lhs; arg 2; rw [p1]
      rw [e1, e2])
    (by
      rw [hsnd]
      have := nodup_range'_two Xp.length Xc.length (Xp ++ Xc ++ Xo).length Xcc.length (by simp)
      exact (List.perm_append_comm.nodup_iff).mp this)
  rw [hspec]
  have hfil : (Xc ++ Xo ++ Xcc ++ Xco).filter (fun x => !(Xcc ++ Xc).contains x) = Xo ++ Xco := by
    apply filter_segments
    · have : (Xp ++ (Xc ++ Xo ++ Xcc ++ Xco)).Nodup := by
        have := hnd; rw [hperm] at this; simpa using this
      exact (List.nodup_append.mp this).2.1
    · intro x; simp [or_comm]
  rw [hfil, hch]
  have hk : (TTN.enumFrom KC (Xp.length + Xc.length + Xo.length) ++ TTN.enumFrom K Xp.length).map Prod.fst = KC ++ K := by
    rw [List.map_append, enumFrom_map_fst, enumFrom_map_fst]
  rw [hk]
  simp

theorem create_contracted_node_closed (t : TTN) (T : Tensor) (pid cid id1 : Id) (P C : NodeS)
    (hP : dget t.nodes pid = some P) (hC : dget t.nodes cid = some C)
    (K1 K2 : List Id) (hPch : P.children = K1 ++ cid :: K2) (hcid : cid ∉ K1)
    (hKnd : (K1 ++ K2 ++ C.children).Nodup)
    (Xp Xc Xo Xcc Xco : List Nat) (hX : List.range T.length = Xp ++ Xc ++ Xo ++ Xcc ++ Xco)
    (hXp : Xp.length = P.nparents) (hXc : Xc.length = K1.length + K2.length)
    (hXo : Xo.length + P.nvirt = P.nlegs) (hXcc : Xcc.length = C.children.length) :
    t.createContractedNode T pid cid id1 = some
      (if id1 = pid then ⟨Xp ++ (Xc ++ Xcc) ++ (Xo ++ Xco), shapeOf T, P.parent, K1 ++ K2 ++ C.children⟩
       else ⟨Xp ++ (Xcc ++ Xc) ++ (Xco ++ Xo), shapeOf T, P.parent, C.children ++ (K1 ++ K2)⟩) := by
  have hmem : cid ∈ P.children := by rw [hPch]; simp
  have herase : P.children.erase cid = K1 ++ K2 := by
    rw [hPch, List.erase_append_right _ hcid, List.erase_cons_head]
  have hnv : P.nvirt = P.nparents + (K1.length + 1 + K2.length) := by
    simp [nvirt_def, hPch]; omega
  have hnl : P.nlegs - 1 = Xp.length + Xc.length + Xo.length := by omega
  have hnl0 : P.nlegs ≠ 0 := by omega
  -- the node after the optional parent step
  have hnode1 : TTN.ccnParentStep (nodeOfTensor T) P.parent =
      some ⟨Xp ++ Xc ++ Xo ++ Xcc ++ Xco, shapeOf T, P.parent, []⟩ := by
    unfold TTN.ccnParentStep
    cases hpp : P.parent with
    | none => simp [nodeOfTensor, hX]
    | some gp =>
      have h1 : Xp.length = 1 := by rw [hXp]; exact nparents_some hpp
      obtain ⟨v, rfl⟩ : ∃ v, Xp = [v] := by
        match Xp, h1 with
        | [v], _ => exact ⟨v, rfl⟩
      have := open_leg_to_parent_spec (nodeOfTensor T) gp [] [] (Xc ++ Xo ++ Xcc ++ Xco) v rfl
        (by simp [nodeOfTensor, hX]) (by simp [nodeOfTensor, nchildren])
      have hz : (nodeOfTensor T).nvirt + ([] : List Nat).length = 0 := by
        simp [nodeOfTensor, nvirt_def, nparents]
      rw [hz] at this
      simp only [this]
      simp [nodeOfTensor]
  unfold TTN.createContractedNode
  simp only [hP, hC, bind, Option.bind, hnode1, hmem, not_true_eq_false, if_false, herase, hnl0]
  have hdict1 : dupdate (TTN.enumFrom (K1 ++ K2) P.nparents) (TTN.enumFrom C.children (P.nlegs - 1)) =
      TTN.enumFrom (K1 ++ K2) Xp.length ++ TTN.enumFrom C.children (Xp.length + Xc.length + Xo.length) := by
    rw [dupdate_eq_append _ _ (by rw [enumFrom_map_fst, enumFrom_map_fst]; exact hKnd), hnl, hXp]
  have hdict2 : dupdate (TTN.enumFrom C.children (P.nlegs - 1)) (TTN.enumFrom (K1 ++ K2) P.nparents) =
      TTN.enumFrom C.children (Xp.length + Xc.length + Xo.length) ++ TTN.enumFrom (K1 ++ K2) Xp.length := by
    rw [dupdate_eq_append _ _ (by
      rw [enumFrom_map_fst, enumFrom_map_fst]
      exact (List.perm_append_comm.nodup_iff).mp hKnd), hnl, hXp]
  have hnd : (Xp ++ Xc ++ Xo ++ Xcc ++ Xco).Nodup := by rw [← hX]; exact List.nodup_range
  have hnp1 : (⟨Xp ++ Xc ++ Xo ++ Xcc ++ Xco, shapeOf T, P.parent, []⟩ : NodeS).nparents = P.nparents :=
    nparents_congr rfl
  by_cases hid : id1 = pid
  · subst hid
    simp only [if_true, hdict1]
    have := o2cs_two_blocks ⟨Xp ++ Xc ++ Xo ++ Xcc ++ Xco, shapeOf T, P.parent, []⟩ (K1 ++ K2) C.children
      Xp Xc Xo Xcc Xco rfl rfl (by rw [hnp1, hXp]) hnd (by simp [hXc]) hXcc
    rw [this]
    simp
  · have hne : ¬ pid = id1 := fun h => hid h.symm
    simp only [hne, hid, if_false, hdict2]
    have := o2cs_two_blocks_swapped ⟨Xp ++ Xc ++ Xo ++ Xcc ++ Xco, shapeOf T, P.parent, []⟩ (K1 ++ K2) C.children
      Xp Xc Xo Xcc Xco rfl rfl (by rw [hnp1, hXp]) hnd (by simp [hXc]) hXcc
    rw [this]
    simp only [ne_eq]
    -- exchange the two batches of open legs
    have hx := exchange_open_leg_ranges_spec
      ⟨Xp ++ (Xcc ++ Xc) ++ (Xo ++ Xco), shapeOf T, P.parent, C.children ++ (K1 ++ K2)⟩
      (Xp ++ (Xcc ++ Xc)) Xo [] Xco [] (by simp)
    have hnv2 : (⟨Xp ++ (Xcc ++ Xc) ++ (Xo ++ Xco), shapeOf T, P.parent, C.children ++ (K1 ++ K2)⟩ : NodeS).nvirt =
        (Xp ++ (Xcc ++ Xc)).length := by
      have h0 : (⟨Xp ++ (Xcc ++ Xc) ++ (Xo ++ Xco), shapeOf T, P.parent, C.children ++ (K1 ++ K2)⟩ : NodeS).nparents
          = P.nparents := nparents_congr rfl
      simp only [nvirt_def, h0, List.length_append]
      omega
    have hpo : P.nlegs - P.nvirt = Xo.length := by omega
    have hnl2 : (⟨Xp ++ (Xcc ++ Xc) ++ (Xo ++ Xco), shapeOf T, P.parent, C.children ++ (K1 ++ K2)⟩ : NodeS).nlegs =
        (Xp ++ (Xcc ++ Xc)).length + Xo.length + ([] : List Nat).length + Xco.length := by
      simp [nlegs]; omega
    rw [hnv2, hpo, hnl2]
    have e0 : (Xp ++ (Xcc ++ Xc)).length + Xo.length =
        (Xp ++ (Xcc ++ Xc)).length + Xo.length + ([] : List Nat).length := by simp
    rw [if_pos hid]
    have hx' : (⟨Xp ++ (Xcc ++ Xc) ++ (Xo ++ Xco), shapeOf T, P.parent, C.children ++ (K1 ++ K2)⟩ : NodeS).exchangeOpenLegRanges
        (Xp ++ (Xcc ++ Xc)).length ((Xp ++ (Xcc ++ Xc)).length + Xo.length) ((Xp ++ (Xcc ++ Xc)).length + Xo.length)
        ((Xp ++ (Xcc ++ Xc)).length + Xo.length + ([] : List Nat).length + Xco.length) =
        some ⟨Xp ++ (Xcc ++ Xc) ++ Xco ++ [] ++ Xo ++ [], shapeOf T, P.parent, C.children ++ (K1 ++ K2)⟩ := by
      have := hx
      simp only [List.length_nil, Nat.add_zero] at this ⊢
      exact this
    rw [hx']
    simp

theorem create_contracted_node_aux (t : TTN) (pid cid id1 : Id) (P C : NodeS) (T : Tensor)
    (hP : dget t.nodes pid = some P) (hC : dget t.nodes cid = some C)
    (K1 K2 : List Id) (hPch : P.children = K1 ++ cid :: K2) (hcid : cid ∉ K1)
    (hKnd : (K1 ++ K2 ++ C.children).Nodup)
    (Tp Tc To Tcc Tco : Tensor) (hT : T = Tp ++ Tc ++ To ++ Tcc ++ Tco) (hTp : Tp.length = P.nparents) (hTc : Tc.length = K1.length + K2.length)
    (hTo : To.length + P.nvirt = P.nlegs) (hTcc : Tcc.length = C.children.length) :
    ∃ nn, t.createContractedNode T pid cid id1 = some nn ∧
      nn.parent = P.parent ∧ nn.shp = shapeOf T ∧ WFN nn ∧
      (id1 = pid → nn.children = K1 ++ K2 ++ C.children ∧
        transposeT T nn.perm = some (Tp ++ (Tc ++ Tcc) ++ (To ++ Tco))) ∧
      (id1 ≠ pid → nn.children = C.children ++ (K1 ++ K2) ∧
        transposeT T nn.perm = some (Tp ++ (Tcc ++ Tc) ++ (Tco ++ To))) := by
  have hlenT : T.length = Tp.length + Tc.length + To.length + Tcc.length + Tco.length := by
    rw [hT]; simp [Nat.add_assoc]
  let Xp := List.range' 0 Tp.length
  let Xc := List.range' Tp.length Tc.length
  let Xo := List.range' (Tp.length + Tc.length) To.length
  let Xcc := List.range' (Tp.length + Tc.length + To.length) Tcc.length
  let Xco := List.range' (Tp.length + Tc.length + To.length + Tcc.length) Tco.length
  have hX : List.range T.length = Xp ++ Xc ++ Xo ++ Xcc ++ Xco := by
    rw [hlenT]; exact range_five _ _ _ _ _
  have hclosed := create_contracted_node_closed t T pid cid id1 P C hP hC K1 K2 hPch hcid hKnd
    Xp Xc Xo Xcc Xco hX (by simp [Xp, hTp]) (by simp [Xc, hTc]) (by simp [Xo, hTo]) (by simp [Xcc, hTcc])
  obtain ⟨r1, r2, r3, r4, r5⟩ := five_blocks_read Tp Tc To Tcc Tco
  simp only [← hT] at r1 r2 r3 r4 r5
  have hnd : (Xp ++ Xc ++ Xo ++ Xcc ++ Xco).Nodup := by rw [← hX]; exact List.nodup_range
  have hnv : P.nvirt = P.nparents + (K1.length + 1 + K2.length) := by
    simp [nvirt_def, hPch]; omega
  by_cases hid : id1 = pid
  · simp only [hid, if_true] at hclosed
    refine ⟨⟨Xp ++ (Xc ++ Xcc) ++ (Xo ++ Xco), shapeOf T, P.parent, K1 ++ K2 ++ C.children⟩,
      by rw [hid]; exact hclosed, rfl, rfl, ?_, ?_, fun h => absurd hid h⟩
    · -- WFN
      have hperm : (Xp ++ (Xc ++ Xcc) ++ (Xo ++ Xco)).Perm (List.range T.length) := by
        rw [hX]
        simp only [List.append_assoc]
        exact List.Perm.append_left _ (List.Perm.append_left _ (List.perm_append_comm_assoc Xcc Xo Xco))
      refine ⟨?_, ?_, ?_⟩
      · simp only
        rw [hperm.length_eq, List.length_range]; exact hperm
      · simp only [shapeOf, List.length_map]
        rw [hperm.length_eq, List.length_range]
      · have h0 : (⟨Xp ++ (Xc ++ Xcc) ++ (Xo ++ Xco), shapeOf T, P.parent, K1 ++ K2 ++ C.children⟩ : NodeS).nparents
            = P.nparents := nparents_congr rfl
        simp only [nvirt_def, h0]
        simp [Xp, Xc, Xo, Xcc, Xco]
        omega
    · intro _
      refine ⟨rfl, ?_⟩
      have hperm : (Xp ++ (Xc ++ Xcc) ++ (Xo ++ Xco)).Perm (Xp ++ Xc ++ Xo ++ Xcc ++ Xco) := by
        simp only [List.append_assoc]
        exact List.Perm.append_left _ (List.Perm.append_left _ (List.perm_append_comm_assoc Xcc Xo Xco))
      have hl : (Xp ++ (Xc ++ Xcc) ++ (Xo ++ Xco)).length = T.length := by
        rw [hperm.length_eq, ← hX, List.length_range]
      unfold transposeT
      simp only [hl, ne_eq, not_true_eq_false, if_false, hperm.symm.nodup hnd]
      apply mapM_eq_some_of_map
      simp only [List.map_append, Xp, Xc, Xo, Xcc, Xco]
      rw [r1, r2, r3, r4, r5]
  · simp only [hid, if_false] at hclosed
    refine ⟨⟨Xp ++ (Xcc ++ Xc) ++ (Xco ++ Xo), shapeOf T, P.parent, C.children ++ (K1 ++ K2)⟩,
      hclosed, rfl, rfl, ?_, fun h => absurd h hid, ?_⟩
    · have hperm : (Xp ++ (Xcc ++ Xc) ++ (Xco ++ Xo)).Perm (List.range T.length) := by
        rw [hX]
        simp only [List.append_assoc]
        refine List.Perm.append_left _ ?_
        -- Xcc ++ (Xc ++ (Xco ++ Xo)) ~ Xc ++ (Xo ++ (Xcc ++ Xco))
        have a1 : (Xcc ++ (Xc ++ (Xco ++ Xo))).Perm (Xc ++ (Xcc ++ (Xco ++ Xo))) :=
          List.perm_append_comm_assoc Xcc Xc (Xco ++ Xo)
        have a2 : (Xcc ++ (Xco ++ Xo)).Perm (Xo ++ (Xcc ++ Xco)) := by
          have : Xcc ++ (Xco ++ Xo) = (Xcc ++ Xco) ++ Xo := by simp
          rw [this]; exact List.perm_append_comm
        exact a1.trans (List.Perm.append_left _ a2)
      refine ⟨?_, ?_, ?_⟩
      · simp only
        rw [hperm.length_eq, List.length_range]; exact hperm
      · simp only [shapeOf, List.length_map]
        rw [hperm.length_eq, List.length_range]
      · have h0 : (⟨Xp ++ (Xcc ++ Xc) ++ (Xco ++ Xo), shapeOf T, P.parent, C.children ++ (K1 ++ K2)⟩ : NodeS).nparents
            = P.nparents := nparents_congr rfl
        simp only [nvirt_def, h0]
        simp [Xp, Xc, Xo, Xcc, Xco]
        omega
    · intro _
      refine ⟨rfl, ?_⟩
      have hperm : (Xp ++ (Xcc ++ Xc) ++ (Xco ++ Xo)).Perm (Xp ++ Xc ++ Xo ++ Xcc ++ Xco) := by
        simp only [List.append_assoc]
        refine List.Perm.append_left _ ?_
        have a1 : (Xcc ++ (Xc ++ (Xco ++ Xo))).Perm (Xc ++ (Xcc ++ (Xco ++ Xo))) :=
          List.perm_append_comm_assoc Xcc Xc (Xco ++ Xo)
        have a2 : (Xcc ++ (Xco ++ Xo)).Perm (Xo ++ (Xcc ++ Xco)) := by
          have : Xcc ++ (Xco ++ Xo) = (Xcc ++ Xco) ++ Xo := by simp
          rw [this]; exact List.perm_append_comm
        exact a1.trans (List.Perm.append_left _ a2)
      have hl : (Xp ++ (Xcc ++ Xc) ++ (Xco ++ Xo)).length = T.length := by
        rw [hperm.length_eq, ← hX, List.length_range]
      unfold transposeT
      simp only [hl, ne_eq, not_true_eq_false, if_false, hperm.symm.nodup hnd]
      apply mapM_eq_some_of_map
      simp only [List.map_append, Xp, Xc, Xo, Xcc, Xco]
      rw [r1, r2, r3, r4, r5]


end Ptn.C02
