import Ptn.C02.SplitWF
/-! `change_node_identifier` preserves well-formedness.  Core Lean only. -/
namespace Ptn.C02
open NodeS

theorem splitRen_same (old new : Id) (aCh : List Id) (k : Id) (s : Struct) :
    splitRen old new new aCh k s = renameRen old new s := by
  obtain ⟨pp, ch⟩ := s
  simp only [splitRen, renameRen, renId, Prod.mk.injEq]
  refine ⟨?_, rfl⟩
  cases pp with
  | none => rfl
  | some p => by_cases e : p = old <;> simp [e, renId]

/-- Shared by `access` and the identity renaming: the node `id` is reset, its array is stored in logical
    order, nothing else changes. -/
theorem wf_access_like {t t' : TTN} {id : Id} {n : NodeS} {Ts T : Tensor} (h : t.WF)
    (hn : t.N id = some n) (hTs : dget t.tensors id = some Ts) (hT : transposeT Ts n.perm = some T)
    (hN : ∀ k, t'.N k = if k = id then some n.resetPermutation else t.N k)
    (hD : ∀ k, dget t'.tensors k = if k = id then some T else dget t.tensors k)
    (hR : t'.root = t.root) : t'.WF := by
  apply wf_of_same_struct h
  · intro k
    simp only [TTN.S, hN]
    by_cases hk : k = id
    · subst hk; simp [hn, structOf, resetPermutation]
    · simp [hk]
  · intro k
    simp only [TTN.hasT, dhas_eq_isSome, hD k]
    by_cases hk : k = id
    · subst hk; simp [hTs]
    · simp [hk]
  · exact hR
  · intro k n' hk
    rw [hN] at hk
    by_cases hki : k = id
    · simp only [hki, if_true, Option.some.injEq] at hk; subst hk
      exact wfn_resetPermutation (h.node id n hn)
    · simp only [hki, if_false] at hk; exact h.node k n' hk
  · intro k n' T' hk hT'
    rw [hN] at hk
    rw [hD] at hT'
    by_cases hki : k = id
    · simp only [hki, if_true, Option.some.injEq] at hk hT'
      subst hk; subst hT'
      rw [shapeOf_transposeT hT, h.fit id n Ts hn hTs]
      rfl
    · simp only [hki, if_false] at hk hT'
      exact h.fit k n' T' hk hT'

theorem srel_same (x : Id) (aCh : List Id) (k : Id) (n : NodeS) : SRel x x x aCh k n n := by
  refine ⟨rfl, rfl, ?_⟩
  simp only [structOf, splitRen, Prod.mk.injEq]
  constructor
  · cases hp : n.parent with
    | none => rfl
    | some p => by_cases e : p = x <;> simp [e]
  · have : (fun c => if c = x then x else c) = (id : Id → Id) := by
      funext c; by_cases hc : c = x <;> simp [hc]
    rw [this]; simp

/-- Extensional description of `change_node_identifier(new, old)`: the node object and its array (now in
    logical order) move to the key `new`; every other node has its references renamed. -/
theorem rename_final {t t' : TTN} {new old : Id} (h : t.WF) (hnew : new = old ∨ t.N new = none)
    (hs : t.changeNodeIdentifier new old = some t') :
    ∃ X Ts L, t.N old = some X ∧ dget t.tensors old = some Ts ∧ transposeT Ts X.perm = some L ∧
      t'.N new = some X.resetPermutation ∧ (new ≠ old → t'.N old = none) ∧
      (∀ k, k ≠ new → k ≠ old → (t.N k = none → t'.N k = none) ∧
        (∀ n, t.N k = some n → ∃ n', t'.N k = some n' ∧ SRel old new new X.children k n n')) ∧
      (∀ k, dget t'.tensors k = if k = new then some L else if k = old then none else dget t.tensors k) := by
  unfold TTN.changeNodeIdentifier at hs
  cases hacc : t.access old with
  | none => simp [hacc, bind, Option.bind] at hs
  | some r =>
    obtain ⟨t1, L⟩ := r
    simp only [hacc, bind, Option.bind] at hs
    obtain ⟨X, Ts, e1, e2, e3, rfl⟩ := access_eq hacc
    have hXN : t.N old = some X := e1
    cases hpop : dpop (dset t.tensors old L) old with
    | none => simp [hpop] at hs
    | some ts =>
      simp only [hpop] at hs
      obtain ⟨_, hts⟩ := dpop_eq_some _ _ _ hpop
      have hts' : ∀ k, dget ts k = if k = old then none else dget t.tensors k := by
        intro k; rw [hts k, dget_dset]; by_cases hk : k = old <;> simp [hk]
      by_cases hon : old = new
      · -- identity renaming
        simp only [hon, ne_eq, not_true_eq_false, if_false, Option.some.injEq] at hs
        subst hs
        subst hon
        refine ⟨X, Ts, L, hXN, e2, e3, by simp [TTN.N, dget_dset], fun e => absurd rfl e, ?_, ?_⟩
        · intro k hk _
          have hNk : TTN.N (⟨dset t.nodes old X.resetPermutation, dset ts old L, t.root, t.nextLabel⟩ : TTN) k
              = t.N k := by simp [TTN.N, dget_dset, hk]
          rw [hNk]
          exact ⟨fun e => e, fun n hn => ⟨n, hn, srel_same old X.children k n⟩⟩
        · intro k
          simp only [dget_dset, hts' k]
      · simp only [ne_eq, hon, not_false_eq_true, if_true] at hs
        have hne : new ≠ old := fun e => hon e.symm
        have hnewN : t.N new = none := by
          rcases hnew with e | e
          · exact absurd e hne
          · exact e
        split at hs
        · simp at hs
        · split at hs
          · simp at hs
          · cases hr : TTN.replaceNodeInNeighbours
                (⟨dset t.nodes old X.resetPermutation, dset ts new L, t.root, t.nextLabel⟩ : TTN) new old false with
            | none => simp [hr] at hs
            | some t3 =>
              simp only [hr] at hs
              cases hnode : dget t3.nodes old with
              | none => simp [hnode] at hs
              | some node =>
                simp only [hnode] at hs
                cases hpop2 : dpop t3.nodes old with
                | none => simp [hpop2] at hs
                | some ns =>
                  simp only [hpop2, Option.some.injEq] at hs
                  subst hs
                  obtain ⟨O, hO, hN3, hroot3, hten3, _⟩ := rnin_eq hne hr
                  have hN2 : ∀ k, TTN.N (⟨dset t.nodes old X.resetPermutation, dset ts new L, t.root,
                      t.nextLabel⟩ : TTN) k = if k = old then some X.resetPermutation else t.N k := by
                    intro k; simp [TTN.N, dget_dset]
                  rw [hN2] at hO; simp at hO; subst hO
                  have hOp : X.resetPermutation.parent = X.parent := rfl
                  have hOc : X.resetPermutation.children = X.children := rfl
                  obtain ⟨_, hns⟩ := dpop_eq_some _ _ _ hpop2
                  -- structure facts
                  have hstr := h.str
                  have hSX := TTN.S_eq hXN
                  have hold_notin : old ∉ X.children := by
                    intro hm
                    obtain ⟨cch, e⟩ := hstr.down old _ _ old hSX hm
                    exact hstr.parent_ne e rfl
                  have hpar_ne : ¬ X.parent = some old := by
                    intro e
                    exact hstr.parent_ne (k := old) (p := old) (by rw [hSX, e]) rfl
                  have hnode_eq : node = X.resetPermutation := by
                    have : t3.N old = some node := hnode
                    rw [hN3, hN2] at this
                    simp [hOp, hOc, hpar_ne, hold_notin] at this
                    exact this.symm
                  subst hnode_eq
                  -- final dictionaries
                  have hNf : ∀ k, TTN.N (⟨dset ns new X.resetPermutation, t3.tensors, t3.root, t3.nextLabel⟩ : TTN) k =
                      if k = new then some X.resetPermutation else if k = old then none else t3.N k := by
                    intro k
                    simp only [TTN.N, dget_dset, hns k]
                  have hby : ∀ k, k ≠ new → k ≠ old →
                      (t.N k = none → t3.N k = none) ∧
                      (∀ n, t.N k = some n → ∃ n', t3.N k = some n' ∧ SRel old new new X.children k n n') := by
                    intro k hk1 hk2
                    have hN3k : t3.N k = if X.parent = some k then
                          (if k ∈ X.children then (t.N k).map (setParent new) else t.N k).bind
                            (fun pn => TTN.replaceChild pn old new)
                        else if k ∈ X.children then (t.N k).map (setParent new) else t.N k := by
                      rw [hN3]
                      simp [hOp, hOc, hk1, hk2, hN2]
                    rw [hN3k]
                    constructor
                    · intro hnone
                      simp [hnone]
                    · intro n hn
                      obtain ⟨c1, c2, c3, c4⟩ := srel_cases h (a := new) (b := new) (aCh := X.children) (bCh := [])
                        hXN hn hk2 (fun c => by simp) (fun c _ => by simp)
                      by_cases hg : X.parent = some k
                      · have hkc : k ∉ X.children := by
                          intro hm
                          obtain ⟨cch, e⟩ := hstr.down old _ _ k hSX hm
                          exact hstr.no_two_cycle (a := old) (b := k) (by rw [hSX, hg]) e
                        obtain ⟨n', r1, r2⟩ := c3 hg
                        have hpn : ¬ n.parent = some old := by
                          intro e
                          exact hstr.no_two_cycle (a := old) (b := k) (by rw [hSX, hg]) (by rw [TTN.S_eq hn, e])
                        have hmem : old ∈ n.children := by
                          obtain ⟨pp, pch, q1, q2⟩ := hstr.up old k X.children (by rw [hSX, hg])
                          rw [TTN.S_eq hn] at q1; simp at q1; rw [q1.2]; exact q2
                        have hrc : TTN.replaceChild n old new = some n' := by
                          simpa [TTN.replaceNeighbour, hpn, hmem] using r1
                        exact ⟨n', by simp [hg, hkc, hn, hrc], r2⟩
                      · by_cases hm : k ∈ X.children
                        · obtain ⟨n', r1, r2⟩ := c1 hm
                          have hp : n.parent = some old := by
                            obtain ⟨cch, e⟩ := hstr.down old _ _ k hSX hm
                            rw [TTN.S_eq hn] at e; simp at e; exact e.1
                          have : n' = setParent new n := by
                            simp [TTN.replaceNeighbour, hp] at r1
                            rw [← r1]; rfl
                          subst this
                          exact ⟨setParent new n, by simp [hg, hm, hn], r2⟩
                        · exact ⟨n, by simp [hg, hm, hn], c4 hm (by simp) hg⟩
                  refine ⟨X, Ts, L, hXN, e2, e3, by rw [hNf]; simp, fun _ => by rw [hNf]; simp [hon], ?_, ?_⟩
                  · intro k hk1 hk2
                    rw [hNf]
                    simp only [hk1, hk2, if_false]
                    exact hby k hk1 hk2
                  · intro k
                    show dget t3.tensors k = _
                    rw [hten3]
                    simp only [dget_dset, hts' k]

/-- **`change_node_identifier(new, old)` keeps the network well-formed** when `new` is `old` or unused. -/
theorem rename_wf_aux {t t' : TTN} {new old : Id} (h : t.WF) (hnew : new = old ∨ t.N new = none)
    (hs : t.changeNodeIdentifier new old = some t') : t'.WF := by
  unfold TTN.changeNodeIdentifier at hs
  cases hacc : t.access old with
  | none => simp [hacc, bind, Option.bind] at hs
  | some r =>
    obtain ⟨t1, L⟩ := r
    simp only [hacc, bind, Option.bind] at hs
    obtain ⟨X, Ts, e1, e2, e3, rfl⟩ := access_eq hacc
    have hXN : t.N old = some X := e1
    cases hpop : dpop (dset t.tensors old L) old with
    | none => simp [hpop] at hs
    | some ts =>
      simp only [hpop] at hs
      obtain ⟨_, hts⟩ := dpop_eq_some _ _ _ hpop
      have hts' : ∀ k, dget ts k = if k = old then none else dget t.tensors k := by
        intro k; rw [hts k, dget_dset]; by_cases hk : k = old <;> simp [hk]
      by_cases hon : old = new
      · -- identity renaming
        simp only [hon, ne_eq, not_true_eq_false, if_false, Option.some.injEq] at hs
        subst hs
        subst hon
        exact wf_access_like h hXN e2 e3
          (fun k => by simp [TTN.N, dget_dset])
          (fun k => by simp only [dget_dset, hts' k]; by_cases hk : k = old <;> simp [hk])
          rfl
      · simp only [ne_eq, hon, not_false_eq_true, if_true] at hs
        have hne : new ≠ old := fun e => hon e.symm
        have hnewN : t.N new = none := by
          rcases hnew with e | e
          · exact absurd e hne
          · exact e
        split at hs
        · simp at hs
        · split at hs
          · simp at hs
          · cases hr : TTN.replaceNodeInNeighbours
                (⟨dset t.nodes old X.resetPermutation, dset ts new L, t.root, t.nextLabel⟩ : TTN) new old false with
            | none => simp [hr] at hs
            | some t3 =>
              simp only [hr] at hs
              cases hnode : dget t3.nodes old with
              | none => simp [hnode] at hs
              | some node =>
                simp only [hnode] at hs
                cases hpop2 : dpop t3.nodes old with
                | none => simp [hpop2] at hs
                | some ns =>
                  simp only [hpop2, Option.some.injEq] at hs
                  subst hs
                  obtain ⟨O, hO, hN3, hroot3, hten3, _⟩ := rnin_eq hne hr
                  have hN2 : ∀ k, TTN.N (⟨dset t.nodes old X.resetPermutation, dset ts new L, t.root,
                      t.nextLabel⟩ : TTN) k = if k = old then some X.resetPermutation else t.N k := by
                    intro k; simp [TTN.N, dget_dset]
                  rw [hN2] at hO; simp at hO; subst hO
                  have hOp : X.resetPermutation.parent = X.parent := rfl
                  have hOc : X.resetPermutation.children = X.children := rfl
                  obtain ⟨_, hns⟩ := dpop_eq_some _ _ _ hpop2
                  -- structure facts
                  have hstr := h.str
                  have hSX := TTN.S_eq hXN
                  have hold_notin : old ∉ X.children := by
                    intro hm
                    obtain ⟨cch, e⟩ := hstr.down old _ _ old hSX hm
                    exact hstr.parent_ne e rfl
                  have hpar_ne : ¬ X.parent = some old := by
                    intro e
                    exact hstr.parent_ne (k := old) (p := old) (by rw [hSX, e]) rfl
                  have hnode_eq : node = X.resetPermutation := by
                    have : t3.N old = some node := hnode
                    rw [hN3, hN2] at this
                    simp [hOp, hOc, hpar_ne, hold_notin] at this
                    exact this.symm
                  subst hnode_eq
                  -- final dictionaries
                  have hNf : ∀ k, TTN.N (⟨dset ns new X.resetPermutation, t3.tensors, t3.root, t3.nextLabel⟩ : TTN) k =
                      if k = new then some X.resetPermutation else if k = old then none else t3.N k := by
                    intro k
                    simp only [TTN.N, dget_dset, hns k]
                  have hby : ∀ k, k ≠ new → k ≠ old →
                      (t.N k = none → t3.N k = none) ∧
                      (∀ n, t.N k = some n → ∃ n', t3.N k = some n' ∧ SRel old new new X.children k n n') := by
                    intro k hk1 hk2
                    have hN3k : t3.N k = if X.parent = some k then
                          (if k ∈ X.children then (t.N k).map (setParent new) else t.N k).bind
                            (fun pn => TTN.replaceChild pn old new)
                        else if k ∈ X.children then (t.N k).map (setParent new) else t.N k := by
                      rw [hN3]
                      simp [hOp, hOc, hk1, hk2, hN2]
                    rw [hN3k]
                    constructor
                    · intro hnone
                      simp [hnone]
                    · intro n hn
                      obtain ⟨c1, c2, c3, c4⟩ := srel_cases h (a := new) (b := new) (aCh := X.children) (bCh := [])
                        hXN hn hk2 (fun c => by simp) (fun c _ => by simp)
                      by_cases hg : X.parent = some k
                      · have hkc : k ∉ X.children := by
                          intro hm
                          obtain ⟨cch, e⟩ := hstr.down old _ _ k hSX hm
                          exact hstr.no_two_cycle (a := old) (b := k) (by rw [hSX, hg]) e
                        obtain ⟨n', r1, r2⟩ := c3 hg
                        have hpn : ¬ n.parent = some old := by
                          intro e
                          exact hstr.no_two_cycle (a := old) (b := k) (by rw [hSX, hg]) (by rw [TTN.S_eq hn, e])
                        have hmem : old ∈ n.children := by
                          obtain ⟨pp, pch, q1, q2⟩ := hstr.up old k X.children (by rw [hSX, hg])
                          rw [TTN.S_eq hn] at q1; simp at q1; rw [q1.2]; exact q2
                        have hrc : TTN.replaceChild n old new = some n' := by
                          simpa [TTN.replaceNeighbour, hpn, hmem] using r1
                        exact ⟨n', by simp [hg, hkc, hn, hrc], r2⟩
                      · by_cases hm : k ∈ X.children
                        · obtain ⟨n', r1, r2⟩ := c1 hm
                          have hp : n.parent = some old := by
                            obtain ⟨cch, e⟩ := hstr.down old _ _ k hSX hm
                            rw [TTN.S_eq hn] at e; simp at e; exact e.1
                          have : n' = setParent new n := by
                            simp [TTN.replaceNeighbour, hp] at r1
                            rw [← r1]; rfl
                          subst this
                          exact ⟨setParent new n, by simp [hg, hm, hn], r2⟩
                        · exact ⟨n, by simp [hg, hm, hn], c4 hm (by simp) hg⟩
                  have hXw := h.node old X hXN
                  refine ⟨?_, ?_, ?_⟩
                  · have hS : TTN.S (⟨dset ns new X.resetPermutation, t3.tensors, t3.root, t3.nextLabel⟩ : TTN) =
                        renameS t.S old new := by
                      funext k
                      unfold renameS
                      simp only [TTN.S, hNf k]
                      by_cases hk1 : k = new
                      · simp only [hk1, if_true, hXN, Option.map_some]
                        simp only [structOf, renameRen, hOp, hOc]
                        congr 1
                        have e1 : X.parent.map (renId old new) = X.parent := by
                          cases hp : X.parent with
                          | none => rfl
                          | some p =>
                            have : ¬ p = old := fun e => hpar_ne (by rw [hp, e])
                            simp [renId, this]
                        have e2 : X.children.map (renId old new) = X.children := by
                          have hf : renId old new = (fun c => if c = old then new else c) := rfl
                          rw [hf]
                          exact map_ite_of_not_mem X.children old new hold_notin
                        rw [e1, e2]
                      · simp only [hk1, if_false]
                        by_cases hk2 : k = old
                        · simp [hk2]
                        · simp only [hk2, if_false]
                          obtain ⟨b1, b2⟩ := hby k hk1 hk2
                          cases hn : t.N k with
                          | none => simp [b1 hn]
                          | some n =>
                            obtain ⟨n', q1, q2⟩ := b2 n hn
                            simp [q1, q2.2.2, splitRen_same]
                    have hT : TTN.hasT (⟨dset ns new X.resetPermutation, t3.tensors, t3.root, t3.nextLabel⟩ : TTN) =
                        fun k => k == new || (t.hasT k && k != old) := by
                      funext k
                      simp only [TTN.hasT, dhas_eq_isSome, hten3, dget_dset, hts' k]
                      by_cases hk1 : k = new
                      · simp [hk1]
                      · have b1 : (k == new) = false := by simpa using hk1
                        by_cases hk2 : k = old
                        · have : (k != old) = false := by simp [hk2]
                          subst hk2
                          simp [hon, b1]
                        · have b2 : (k != old) = true := by simpa using hk2
                          simp [hk1, hk2, b1, b2]
                    rw [hS, hT]
                    have hroot : TTN.root (⟨dset ns new X.resetPermutation, t3.tensors, t3.root, t3.nextLabel⟩ : TTN) =
                        if X.parent = none then some new else t.root := by
                      show t3.root = _
                      rw [hroot3, hOp]
                    rw [hroot]
                    exact renameS_swf hstr old new X.parent X.children hSX hne (by simp [TTN.S, hnewN])
                  · intro k n' hk
                    rw [hNf] at hk
                    by_cases hk1 : k = new
                    · simp only [hk1, if_true, Option.some.injEq] at hk; subst hk
                      exact wfn_resetPermutation hXw
                    · by_cases hk2 : k = old
                      · subst hk2; simp [hon] at hk
                      · simp only [hk1, hk2, if_false] at hk
                        obtain ⟨b1, b2⟩ := hby k hk1 hk2
                        cases hn : t.N k with
                        | none => rw [b1 hn] at hk; simp at hk
                        | some n =>
                          obtain ⟨n'', q1, q2⟩ := b2 n hn
                          rw [q1] at hk; simp at hk; subst hk
                          exact wfn_of_srel q2 (h.node k n hn)
                  · intro k n' T' hk hT'
                    rw [hNf] at hk
                    have hT'' : dget t3.tensors k = some T' := hT'
                    rw [hten3] at hT''
                    simp only [dget_dset, hts' k] at hT''
                    by_cases hk1 : k = new
                    · simp only [hk1, if_true, Option.some.injEq] at hk hT''
                      subst hk; subst hT''
                      rw [shapeOf_transposeT e3, h.fit old X Ts hXN e2]
                      rfl
                    · by_cases hk2 : k = old
                      · subst hk2; simp [hon] at hk
                      · simp only [hk1, hk2, if_false] at hk hT''
                        obtain ⟨b1, b2⟩ := hby k hk1 hk2
                        cases hn : t.N k with
                        | none => rw [b1 hn] at hk; simp at hk
                        | some n =>
                          obtain ⟨n'', q1, q2⟩ := b2 n hn
                          rw [q1] at hk; simp at hk; subst hk
                          rw [q2.2.1]
                          exact h.fit k n T' hn hT''

end Ptn.C02
