import Ptn.C02.SimHistory
import Ptn.C02.BuildLabels
/-! A concrete instance of the simulation (used by the non-vacuity examples of `Props.lean`, part 8): the two-node
network `1 — 2` of the structural examples (root `1` with open axes `0, 1`, child `2` with open axis `2`, bond of
dimension 3), integer tensors, and the history "contract (2, 1) -> 3; split 3 back (out-node 3 takes the open axis of the
old node 2, in-node 4, the new root, the two others) with the exact factorisation given by the two original tensors;
rename 4 -> 5; access; replace_tensor with a permutation". -/
namespace Ptn.C02
open NodeS Ptn.Ein Ptn.C03

namespace SimDemo

/-- the structural state: what `add_root(1)`, `add_child_to_parent(2, …)` build -/
def t0 : TTN :=
  ⟨[(1, ⟨[1, 0, 2], [2, 3, 2], none, [2]⟩), (2, ⟨[1, 0], [2, 3], some 1, []⟩)],
   [(1, [⟨0, 2⟩, ⟨100, 3⟩, ⟨1, 2⟩]), (2, [⟨2, 2⟩, ⟨100, 3⟩])], some 1, 1000000⟩

theorem t0_built : TRunL TTN.empty
    [.root 1 [⟨0, 2⟩, ⟨100, 3⟩, ⟨1, 2⟩], .child 2 [⟨2, 2⟩, ⟨100, 3⟩] 1 1 1] t0 :=
  .cons ⟨rfl, rfl⟩ trivial rfl (.cons trivial ⟨_, rfl, rfl⟩ rfl (.nil _))

theorem t0_wf : t0.WF ∧ t0.LWF := builtL_labels t0_built

/-- open labels are embedded as they are -/
def e : Label → Nat := fun l => l

/-- the end of the bond at node 1 is label 50, the end at node 2 label 51 -/
def g : LegMap := fun k _ => if k = 1 then 50 else 51

/-- open legs have dimension 2, bond legs (old and fresh) dimension 3 -/
def dim : Nat → Nat := fun l => if l = 0 ∨ l = 1 ∨ l = 2 then 2 else 3

def v0 : VNet Int where
  ids := [1, 2]
  legs := fun k => if k = 1 then [50, 0, 1] else if k = 2 then [51, 2] else []
  tens := fun k σ => if k = 1 then (σ 0 : Int) + 2 * (σ 50 : Int) + 3 * (σ 1 : Int) + 1
    else 5 * (σ 2 : Int) - (σ 51 : Int) + 2
  bonds := [(50, 51)]
  next := 100

theorem v0_wf : v0.WF := by
  refine ⟨by decide, ?_, ?_, ?_, by decide, ?_, ?_⟩
  · intro n hn
    simp only [v0, List.mem_cons, List.not_mem_nil, or_false] at hn
    rcases hn with rfl | rfl <;> simp [v0]
  · intro n hn m hm l h1 h2
    simp only [v0, List.mem_cons, List.not_mem_nil, or_false] at hn hm
    rcases hn with rfl | rfl <;> rcases hm with rfl | rfl <;> simp [v0] at h1 h2 <;> omega
  · intro n hn
    simp only [v0, List.mem_cons, List.not_mem_nil, or_false] at hn
    rcases hn with rfl | rfl
    · intro σ τ h
      have h0 := h 0 (by simp [v0]); have h1 := h 50 (by simp [v0]); have h2 := h 1 (by simp [v0])
      simp [v0, h0, h1, h2]
    · intro σ τ h
      have h0 := h 2 (by simp [v0]); have h1 := h 51 (by simp [v0])
      simp [v0, h0, h1]
  · intro p hp
    simp only [v0, List.mem_cons, List.not_mem_nil, or_false] at hp
    subst hp
    exact ⟨⟨1, by simp [v0], by simp [v0]⟩, ⟨2, by simp [v0], by simp [v0]⟩⟩
  · intro n hn l hl
    simp only [v0, List.mem_cons, List.not_mem_nil, or_false] at hn
    rcases hn with rfl | rfl <;> simp [v0] at hl ⊢ <;> omega

theorem t0_N (k : Id) : t0.N k = none ↔ (k ≠ 1 ∧ k ≠ 2) := by
  by_cases h1 : k = 1
  · subst h1; simp [TTN.N, t0, dget]
  · by_cases h2 : k = 2
    · subst h2; simp [TTN.N, t0, dget]
    · have e1 : (1 == k) = false := beq_eq_false_iff_ne.2 (Ne.symm h1)
      have e2 : (2 == k) = false := beq_eq_false_iff_ne.2 (Ne.symm h2)
      have : t0.N k = none := by
        simp [TTN.N, t0, dget, List.find?, e1, e2]
      simp [this, h1, h2]

theorem t0_legPairs (k : Id) :
    t0.legPairs k = if k = 1 then [(2, ⟨100, 3⟩)] else if k = 2 then [(1, ⟨100, 3⟩)] else [] := by
  by_cases h1 : k = 1
  · subst h1; rfl
  · by_cases h2 : k = 2
    · subst h2; rfl
    · rw [legPairs_none ((t0_N k).2 ⟨h1, h2⟩)]; simp [h1, h2]

theorem t0_openAxes (k : Id) :
    t0.openAxes k = if k = 1 then [⟨0, 2⟩, ⟨1, 2⟩] else if k = 2 then [⟨2, 2⟩] else [] := by
  by_cases h1 : k = 1
  · subst h1; rfl
  · by_cases h2 : k = 2
    · subst h2; rfl
    · rw [openAxes_none ((t0_N k).2 ⟨h1, h2⟩)]; simp [h1, h2]

theorem t0_nbs (k : Id) : t0.nbs k = if k = 1 then [2] else if k = 2 then [1] else [] := by
  unfold TTN.nbs
  rw [t0_legPairs]
  by_cases h1 : k = 1
  · simp [h1]
  · by_cases h2 : k = 2
    · simp [h2]
    · simp [h1, h2]

/-- the demo state and the demo valued network are related -/
theorem rsim0 : RSim dim e g t0 v0 := by
  refine ⟨?_, ?_, ?_, ?_, ?_, ?_⟩
  · intro k
    rw [ne_eq, t0_N]
    simp only [v0, List.mem_cons, List.not_mem_nil, or_false]
    by_cases h1 : k = 1 <;> by_cases h2 : k = 2 <;> simp [h1, h2]
  · intro k hk
    simp only [v0, List.mem_cons, List.not_mem_nil, or_false] at hk
    unfold simLegs
    rw [t0_nbs, t0_openAxes]
    rcases hk with rfl | rfl <;> simp [v0, g, e]
  · intro k x ax hl
    unfold TTN.Leg at hl
    rw [t0_legPairs] at hl
    by_cases h1 : k = 1
    · simp [h1] at hl; obtain ⟨_, rfl⟩ := hl; simp [g, dim, h1]
    · by_cases h2 : k = 2
      · simp [h2] at hl; obtain ⟨_, rfl⟩ := hl; simp [g, dim, h2]
      · simp [h1, h2] at hl
  · intro k ax hax
    rw [t0_openAxes] at hax
    by_cases h1 : k = 1
    · simp [h1] at hax; rcases hax with rfl | rfl <;> simp [e, dim]
    · by_cases h2 : k = 2
      · simp [h2] at hax; subst hax; simp [e, dim]
      · simp [h1, h2] at hax
  · intro k x hx
    rw [t0_nbs] at hx
    by_cases h1 : k = 1
    · simp [h1] at hx; subst hx; subst h1; left; simp [g, v0]
    · by_cases h2 : k = 2
      · simp [h2] at hx; subst hx; subst h2; right; simp [g, v0]
      · simp [h1, h2] at hx
  · intro p hp
    simp only [v0, List.mem_cons, List.not_mem_nil, or_false] at hp
    subst hp
    exact ⟨1, 2, by rw [t0_nbs]; simp, by simp [g]⟩

/-! the history -/

/-- after `contract_nodes(2, 1, new_identifier = 3)` -/
def t1 : TTN :=
  ⟨[(3, ⟨[2, 0, 1], [2, 2, 2], none, []⟩)], [(3, [⟨0, 2⟩, ⟨1, 2⟩, ⟨2, 2⟩])], some 3, 1000000⟩

theorem step1 : t0.step (.contract 2 1 3) = some t1 := rfl

def g1 : LegMap := contrG t0 1 2 3 g
def v1 : VNet Int := simContract dim e g t0 t1 v0 1 2 3 (50, 51)

/-- after `split_nodes(3, out = (open leg 0), in = (open legs 1, 2; root), out_identifier = 3, in_identifier = 4)`
with new bond dimension 3 -/
def t2 : TTN :=
  ⟨[(3, ⟨[1, 0], [2, 3], some 4, []⟩), (4, ⟨[0, 1, 2], [3, 2, 2], none, [3]⟩)],
   [(3, [⟨2, 2⟩, ⟨1000000, 3⟩]), (4, [⟨1000000, 3⟩, ⟨0, 2⟩, ⟨1, 2⟩])], some 4, 1000001⟩

theorem step2 : t1.step (.split 3 ⟨none, [], [0], false⟩ ⟨none, [], [1, 2], true⟩ 3 4 3) = some t2 := rfl

theorem adm2 : (TOp.split 3 ⟨none, [], [0], false⟩ ⟨none, [], [1, 2], true⟩ 3 4 3).Adm t1 :=
  ⟨_, ⟨rfl, Or.inl rfl, Or.inr rfl, List.Perm.refl _, Or.inr ⟨rfl, rfl, rfl, Or.inr ⟨rfl, rfl⟩⟩⟩⟩

theorem outLegs2 : splitOutLegs e g1 t2 3 3 4 = [2] := by decide
theorem inLegs2 : splitInLegs e g1 t2 3 3 4 = [0, 1] := by decide

/-- the exact factorisation of the contracted tensor: the two original tensors over the fresh bond `(100, 101)` -/
def fact2 : SplitFact dim (v1.tens 3) (splitOutLegs e g1 t2 3 3 4) (splitInLegs e g1 t2 3 3 4) v1.next (v1.next + 1) where
  O := fun ρ => 5 * (ρ 2 : Int) - (ρ 100 : Int) + 2
  I := fun ρ => (ρ 0 : Int) + 2 * (ρ 101 : Int) + 3 * (ρ 1 : Int) + 1
  exact := by
    intro τ
    simp [v1, simContract, reLeg, contractStep, v0, dim, sumPairs, sumR, upd, List.range_succ]
    try ring
  readsO := by
    rw [outLegs2]
    intro σ τ h
    have h0 := h 2 (by simp); have h1 := h 100 (by simp [v1, simContract, reLeg, contractStep, v0])
    simp [h0, h1]
  readsI := by
    rw [inLegs2]
    intro σ τ h
    have h0 := h 0 (by simp); have h1 := h 101 (by simp [v1, simContract, reLeg, contractStep, v0])
    have h2 := h 1 (by simp)
    simp [h0, h1, h2]

def g2 : LegMap := splitG 3 3 4 v1.next g1
def v2 : VNet Int := simSplit dim e g1 t2 v1 3 3 4 fact2

/-- the demo history with its value-level images: contraction, split with the exact factorisation, renaming, access,
tensor replacement with a permutation -/
theorem simrun : ∃ t' g' v', SimRun dim e t0 g v0
    [.contract 2 1 3, .split 3 ⟨none, [], [0], false⟩ ⟨none, [], [1, 2], true⟩ 3 4 3, .rename 5 4, .access 5,
     .rtp 5 (some [2, 0, 1])] t' g' v' :=
  ⟨_, _, _,
    .cons (Or.inr (Or.inr rfl))
      (.contract (pid := 1) (cid := 2) (p := (50, 51)) step1 (Or.inr ⟨rfl, rfl⟩) rfl rfl (by simp [v0])
        (Or.inl rfl))
    (.cons adm2 (.split fact2 step2 ⟨rfl, rfl⟩)
    (.cons (Or.inr rfl) (.rename rfl)
    (.cons trivial (.access rfl)
    (.cons (fun q hq => by cases hq; decide) (.rtp rfl)
    (.nil _ _ _)))))⟩

end SimDemo

end Ptn.C02
