import Ptn.C02.CompositeWF
import Ptn.C02.OpsLabels
/-! `truncate_node` / `recursive_truncation` restore the structure exactly (identifiers, root, parent map,
children **lists**).  Core Lean only. -/
namespace Ptn.C02
open NodeS

/-- The temporary identifiers are unused in the network, pairwise different, and different edges get
    different identifiers (true of `identity_id` / `projector_identifier` unless identifiers collide). -/
structure TempOK (S0 : Id → Option Struct) (ids : TTN.TempIds) : Prop where
  fi : ∀ c, S0 (ids.ident c) = none
  fs : ∀ c, S0 (ids.star c) = none
  fp : ∀ c, S0 (ids.proj c) = none
  is_ : ∀ c c', ids.ident c ≠ ids.star c'
  ip : ∀ c c', ids.ident c ≠ ids.proj c'
  sp : ∀ c c', ids.star c ≠ ids.proj c'
  sinj : ∀ c c', ids.star c = ids.star c' → c = c'
  pinj : ∀ c c', ids.proj c = ids.proj c' → c = c'

theorem S_none_of_N {t : TTN} {k : Id} (h : t.N k = none) : t.S k = none := by simp [TTN.S, h]

/-- One iteration of the first loop of `truncate_node`. -/
theorem trunc_step1 {P : Prop} {O : Id → List Axis} {t t' : TTN} {n c : Id} {ids : TTN.TempIds} {k : Nat}
    {gp : Option Id} {L cch : List Id}
    (hx : t.WFX P O) (hN : t.S n = some (gp, L)) (hC : t.S c = some (some n, cch))
    (hi : t.S (ids.ident c) = none) (hs : t.S (ids.star c) = none) (hp : t.S (ids.proj c) = none)
    (his : ids.ident c ≠ ids.star c) (hip : ids.ident c ≠ ids.proj c) (hsp : ids.star c ≠ ids.proj c)
    (hrun : (do let (t0, _) ← t.access n; TTN.insertProjectors t0 n c ids k) = some t') :
    t'.WFX P O ∧ t'.root = t.root ∧
      t'.S = fun x => if x = ids.star c then some (some n, [ids.proj c])
               else if x = ids.proj c then some (some (ids.star c), [c])
               else if x = c then some (some (ids.proj c), cch)
               else if x = n then some (gp, L.map (fun y => if y = c then ids.star c else y)) else t.S x := by
  have h := hx.wf
  simp only [bind, Option.bind] at hrun
  cases hacc : t.access n with
  | none => simp [hacc] at hrun
  | some r =>
    obtain ⟨t0, T⟩ := r
    simp only [hacc] at hrun
    have w0 := access_wf h hacc
    obtain ⟨S0e, R0⟩ := access_S_eq hacc
    unfold TTN.insertProjectors at hrun
    simp only [bind, Option.bind] at hrun
    cases hins : t0.insertIdentity c n (ids.ident c) with
    | none => simp [hins] at hrun
    | some t1 =>
      simp only [hins] at hrun
      have hnew : t0.N (ids.ident c) = none := N_none_of_S (by rw [S0e]; exact hi)
      have w1 := insert_identity_wf_aux w0 hnew hins
      obtain ⟨cch', pp, pch, e1, e2, S1, R1⟩ := ident_S_eq w0 hnew hins
      rw [S0e, hC] at e1; rw [S0e, hN] at e2
      simp at e1 e2
      obtain ⟨rfl, rfl⟩ := e2
      subst e1
      rw [S0e] at S1
      -- the identity node
      have hci : ¬ ids.ident c = c := by intro e; rw [e, hC] at hi; simp at hi
      have hni : ¬ ids.ident c = n := by intro e; rw [e, hN] at hi; simp at hi
      have e_i : t1.S (ids.ident c) = some (some n, [c]) := by rw [S1]; simp [subdivideS]
      obtain ⟨X, hX, eX⟩ := TTN.N_of_S e_i
      simp only [Prod.mk.injEq] at eX
      have e_s : t1.N (ids.star c) = none := N_none_of_S (by
        rw [S1]
        have a1 : ¬ ids.star c = ids.ident c := fun e => his e.symm
        have a2 : ¬ ids.star c = c := by intro e; rw [e, hC] at hs; simp at hs
        have a3 : ¬ ids.star c = n := by intro e; rw [e, hN] at hs; simp at hs
        simp [subdivideS, a1, a2, a3, hs])
      have e_p : t1.N (ids.proj c) = none := N_none_of_S (by
        rw [S1]
        have a1 : ¬ ids.proj c = ids.ident c := fun e => hip e.symm
        have a2 : ¬ ids.proj c = c := by intro e; rw [e, hC] at hp; simp at hp
        have a3 : ¬ ids.proj c = n := by intro e; rw [e, hN] at hp; simp at hp
        simp [subdivideS, a1, a2, a3, hp])
      have adm : SplitAdm t1 (ids.ident c) X ⟨some n, [], [], false⟩ ⟨none, [c], [], false⟩
          (ids.star c) (ids.proj c) := by
        refine ⟨hX, Or.inr e_s, Or.inr e_p, by rw [← eX.2]; simp, ?_⟩
        exact Or.inl ⟨n, eX.1.symm, rfl, rfl, Or.inl ⟨rfl, rfl⟩⟩
      have hop : ∀ k', t'.openAxes k' = t.openAxes k' := by
        intro k'
        obtain ⟨_, _, _, oa⟩ := access_labels hacc
        obtain ⟨_, _, _, i1, i2⟩ := ident_labels w0 hnew hins
        obtain ⟨a, b, _, _, Lx, hcfg, _, _, _, _, _, _, so, si, _, sid, sby⟩ := split_labels w1 adm hrun
        have hab : (a = ids.star c ∧ b = ids.proj c) ∨ (a = ids.proj c ∧ b = ids.star c) := by
          rcases hcfg with ⟨e1, e2, _⟩ | ⟨e1, e2, _⟩
          · exact Or.inl ⟨e1, e2⟩
          · exact Or.inr ⟨e1, e2⟩
        have hts : t.openAxes (ids.star c) = [] := openAxes_none (N_none_of_S hs)
        have htp : t.openAxes (ids.proj c) = [] := openAxes_none (N_none_of_S hp)
        have hti : t.openAxes (ids.ident c) = [] := openAxes_none (N_none_of_S hi)
        by_cases k1 : k' = ids.star c
        · rw [k1, so, hts]; rfl
        · by_cases k2 : k' = ids.proj c
          · rw [k2, si, htp]; rfl
          · by_cases k3 : k' = ids.ident c
            · have : ids.ident c ≠ a ∧ ids.ident c ≠ b := by
                rcases hab with ⟨e1, e2⟩ | ⟨e1, e2⟩
                · rw [e1, e2]; exact ⟨his, hip⟩
                · rw [e1, e2]; exact ⟨hip, his⟩
              rw [k3, (sid this.1 this.2).2, hti]
            · have hk'ab : k' ≠ a ∧ k' ≠ b := by
                rcases hab with ⟨e1, e2⟩ | ⟨e1, e2⟩
                · rw [e1, e2]; exact ⟨k1, k2⟩
                · rw [e1, e2]; exact ⟨k2, k1⟩
              rw [(sby k' hk'ab.1 hk'ab.2 k3).2, (i2 k' k3).2, oa k']
      refine ⟨⟨split_nodes_wf_aux w1 adm hrun,
        fun hP => split_lwf w1 (ident_lwf w0 (access_lwf (hx.lwf hP) hacc) hnew hins) adm hrun,
        fun hP k' => (hop k').trans (hx.op hP k')⟩, ?_⟩
      obtain ⟨a', b', aCh, bCh, hcfg, S2, R2⟩ := split_S_eq w1 adm hrun
      rcases hcfg with ⟨rfl, rfl, rfl, rfl, _⟩ | ⟨_, _, _, _, hc⟩
      · constructor
        · rw [R2, ← eX.1]; simp [R1, R0]
        · rw [S2, ← eX.1, S1]
          exact insert_proj_S h.str hN hC hi hs hp his hip hsp
      · simp at hc

/-- One iteration of `contract_all_children(n)` in `truncate_node`. -/
theorem trunc_step2 {P : Prop} {O : Id → List Axis} {t t' : TTN} {n s p : Id} {gp : Option Id}
    {L pch : List Id} (hx : t.WFX P O)
    (hN : t.S n = some (gp, L)) (hS : t.S s = some (some n, [p])) (hP : t.S p = some (some s, pch))
    (hOs : P → O s = [])
    (hc : t.contractNodes n s n = some t') :
    t'.WFX P O ∧ t'.root = t.root ∧
      t'.S = fun k => if k = n then some (gp, L.erase s ++ [p]) else if k = s then none
               else if k = p then some (some n, pch) else t.S k := by
  have h := hx.wf
  have hnew : n = n ∨ n = s ∨ t.N n = none := Or.inl rfl
  have hns : n ≠ s := h.str.parent_ne hS
  have hopx : P → ∀ k, t'.openAxes k = O k := by
    intro hp k
    obtain ⟨pid, cid, hids, _, _, _, _, _, cnew, cgone, cby⟩ := contract_labels h hnew hc
    have hpc : (pid = n ∧ cid = s) ∨ (pid = s ∧ cid = n) := hids
    have hsO : t.openAxes s = [] := by rw [hx.op hp s]; exact hOs hp
    by_cases k1 : k = n
    · rw [k1, cnew, hsO, List.append_nil]; exact hx.op hp n
    · by_cases k2 : k = s
      · rw [k2, hOs hp]
        refine (cgone s (fun e => hns e.symm) ?_).2
        rcases hpc with ⟨_, e⟩ | ⟨e, _⟩
        · exact Or.inr e.symm
        · exact Or.inl e.symm
      · have : k ≠ pid ∧ k ≠ cid := by
          rcases hpc with ⟨e1, e2⟩ | ⟨e1, e2⟩
          · rw [e1, e2]; exact ⟨k1, k2⟩
          · rw [e1, e2]; exact ⟨k2, k1⟩
        rw [(cby k k1 this.1 this.2).2]; exact hx.op hp k
  refine ⟨⟨contract_nodes_wf_aux h hnew hc, fun hp => contract_lwf h (hx.lwf hp) hnew hc, hopx⟩, ?_⟩
  obtain ⟨pid, cid, gp', Pch, Cch, e1, e2, hpc, S', R'⟩ := contract_S_eq h hnew hc
  have hpid : pid = n ∧ cid = s := by
    rcases hpc with ⟨a, b⟩ | ⟨a, b⟩
    · exact ⟨a, b⟩
    · exfalso
      rw [b, hN, a] at e2
      simp at e2
      exact h.str.no_two_cycle (a := n) (b := s) (by rw [hN, e2.1]) hS
  obtain ⟨rfl, rfl⟩ := hpid
  rw [hN] at e1; rw [hS] at e2
  simp at e1 e2
  obtain ⟨rfl, rfl⟩ := e1
  subst e2
  simp only [if_true] at S'
  constructor
  · rw [R']
    by_cases hg : gp = none
    · rw [if_pos hg]; exact (h.str.root_uniq pid L (by rw [hN, hg])).symm
    · rw [if_neg hg]
  · rw [S']; exact contract_star_S h.str _ hN hS hP

/-- One iteration of the last loop of `truncate_node`: the projector is merged into the original child. -/
theorem trunc_step3 {P : Prop} {O : Id → List Axis} {t t' : TTN} {n p c : Id} {gp : Option Id}
    {L cch : List Id} (hx : t.WFX P O)
    (hN : t.S n = some (gp, L)) (hP : t.S p = some (some n, [c])) (hC : t.S c = some (some p, cch))
    (hOp : P → O p = [])
    (hc : t.contractNodes p c c = some t') :
    t'.WFX P O ∧ t'.root = t.root ∧
      t'.S = fun k => if k = c then some (some n, cch) else if k = p then none
               else if k = n then some (gp, L.map (fun x => if x = p then c else x)) else t.S k := by
  have h := hx.wf
  have hnew : c = p ∨ c = c ∨ t.N c = none := Or.inr (Or.inl rfl)
  have hpc' : p ≠ c := h.str.parent_ne hC
  have hopx : P → ∀ k, t'.openAxes k = O k := by
    intro hp k
    obtain ⟨pid, cid, hids, _, _, _, _, _, cnew, cgone, cby⟩ := contract_labels h hnew hc
    have hpc : (pid = p ∧ cid = c) ∨ (pid = c ∧ cid = p) := hids
    have hpO : t.openAxes p = [] := by rw [hx.op hp p]; exact hOp hp
    by_cases k1 : k = c
    · rw [k1, cnew, hpO, List.nil_append]; exact hx.op hp c
    · by_cases k2 : k = p
      · rw [k2, hOp hp]
        refine (cgone p hpc' ?_).2
        rcases hpc with ⟨e, _⟩ | ⟨_, e⟩
        · exact Or.inl e.symm
        · exact Or.inr e.symm
      · have : k ≠ pid ∧ k ≠ cid := by
          rcases hpc with ⟨e1, e2⟩ | ⟨e1, e2⟩
          · rw [e1, e2]; exact ⟨k2, k1⟩
          · rw [e1, e2]; exact ⟨k1, k2⟩
        rw [(cby k k1 this.1 this.2).2]; exact hx.op hp k
  refine ⟨⟨contract_nodes_wf_aux h hnew hc, fun hp => contract_lwf h (hx.lwf hp) hnew hc, hopx⟩, ?_⟩
  obtain ⟨pid, cid, gp', Pch, Cch, e1, e2, hpc, S', R'⟩ := contract_S_eq h hnew hc
  have hpid : pid = p ∧ cid = c := by
    rcases hpc with ⟨a, b⟩ | ⟨a, b⟩
    · exact ⟨a, b⟩
    · exfalso
      rw [b, hP, a] at e2
      simp at e2
      -- n = c, but c's parent is p and p's parent is n
      rw [e2.1] at hP
      exact h.str.no_two_cycle (a := p) (b := c) hP hC
  obtain ⟨rfl, rfl⟩ := hpid
  rw [hP] at e1; rw [hC] at e2
  simp at e1 e2
  obtain ⟨rfl, rfl⟩ := e1
  subst e2
  have hK : (if pid = pid then [cid].erase cid ++ cch else cch ++ [cid].erase cid) = cch := by simp
  rw [hK] at S'
  constructor
  · rw [R']; simp
  · rw [S']; exact contract_proj_S h.str _ hN hP hC

/-! ### the three loops -/

/-- What is fixed during one `truncate_node(n)`: the original structure, the node, its parent and its
    children. -/
structure TruncCtx (S0 : Id → Option Struct) (ids : TTN.TempIds) (n : Id) (gp : Option Id) (cs : List Id) :
    Prop where
  ok : TempOK S0 ids
  hn : S0 n = some (gp, cs)
  nd : cs.Nodup
  hc : ∀ c ∈ cs, ∃ cch, S0 c = some (some n, cch)
  ne : ∀ c ∈ cs, c ≠ n

namespace TruncCtx
variable {S0 : Id → Option Struct} {ids : TTN.TempIds} {n : Id} {gp : Option Id} {cs : List Id}

theorem node_ne_star (X : TruncCtx S0 ids n gp cs) {k : Id} {st : Struct} (hk : S0 k = some st) (c : Id) :
    k ≠ ids.star c := by intro e; rw [e, X.ok.fs c] at hk; simp at hk
theorem node_ne_proj (X : TruncCtx S0 ids n gp cs) {k : Id} {st : Struct} (hk : S0 k = some st) (c : Id) :
    k ≠ ids.proj c := by intro e; rw [e, X.ok.fp c] at hk; simp at hk
theorem node_ne_ident (X : TruncCtx S0 ids n gp cs) {k : Id} {st : Struct} (hk : S0 k = some st) (c : Id) :
    k ≠ ids.ident c := by intro e; rw [e, X.ok.fi c] at hk; simp at hk
theorem child_ne_star (X : TruncCtx S0 ids n gp cs) {c : Id} (hc : c ∈ cs) (c' : Id) : c ≠ ids.star c' := by
  obtain ⟨cch, h⟩ := X.hc c hc; exact X.node_ne_star h c'
theorem child_ne_proj (X : TruncCtx S0 ids n gp cs) {c : Id} (hc : c ∈ cs) (c' : Id) : c ≠ ids.proj c' := by
  obtain ⟨cch, h⟩ := X.hc c hc; exact X.node_ne_proj h c'
theorem child_ne_ident (X : TruncCtx S0 ids n gp cs) {c : Id} (hc : c ∈ cs) (c' : Id) : c ≠ ids.ident c' := by
  obtain ⟨cch, h⟩ := X.hc c hc; exact X.node_ne_ident h c'

end TruncCtx

/-- After the first loop has treated the children `D` (`cs = D ++ R`). -/
structure Inv1 (S0 S : Id → Option Struct) (ids : TTN.TempIds) (n : Id) (gp : Option Id) (D R : List Id) :
    Prop where
  n_ : S n = some (gp, D.map ids.star ++ R)
  st : ∀ c ∈ D, S (ids.star c) = some (some n, [ids.proj c])
  pr : ∀ c ∈ D, S (ids.proj c) = some (some (ids.star c), [c])
  ch : ∀ c ∈ D, ∀ cch, S0 c = some (some n, cch) → S c = some (some (ids.proj c), cch)
  frame : ∀ k, k ≠ n → k ∉ D → (∀ c ∈ D, k ≠ ids.star c ∧ k ≠ ids.proj c) → S k = S0 k

theorem loop1 {P : Prop} {O : Id → List Axis} {S0 : Id → Option Struct} {ids : TTN.TempIds} {n : Id}
    {gp : Option Id} {cs : List Id}
    (X : TruncCtx S0 ids n gp cs) (kdim : Id → Nat) :
    ∀ (R D : List Id) (t t' : TTN), cs = D ++ R → t.WFX P O → Inv1 S0 t.S ids n gp D R →
      TTN.truncLoop1 t n ids kdim R = some t' →
      t'.WFX P O ∧ t'.root = t.root ∧ Inv1 S0 t'.S ids n gp cs [] := by
  intro R
  induction R with
  | nil =>
    intro D t t' hcs w inv hrun
    simp [TTN.truncLoop1] at hrun
    subst hrun
    have : cs = D := by simpa using hcs
    subst this
    exact ⟨w, rfl, inv⟩
  | cons c R ih =>
    intro D t t' hcs w inv hrun
    unfold TTN.truncLoop1 at hrun
    rw [List.foldlM_cons] at hrun
    cases hstep : (do let (t0, _) ← t.access n; TTN.insertProjectors t0 n c ids (kdim c)) with
    | none => simp only [hstep] at hrun; simp [bind, Option.bind] at hrun
    | some t1 =>
      simp only [hstep] at hrun
      have hrun' : TTN.truncLoop1 t1 n ids kdim R = some t' := by
        simpa [TTN.truncLoop1, bind, Option.bind] using hrun
      have hc_mem : c ∈ cs := by rw [hcs]; simp
      have hnd := X.nd
      rw [hcs] at hnd
      have hcD : c ∉ D := by
        intro hm
        exact (List.nodup_append.mp hnd).2.2 c hm c (by simp) rfl
      have hcR : c ∉ R := by
        have := (List.nodup_append.mp hnd).2.1
        exact (List.nodup_cons.mp this).1
      obtain ⟨cch, hS0c⟩ := X.hc c hc_mem
      have hcn : c ≠ n := X.ne c hc_mem
      -- values of the current structure at the relevant keys
      have hSc : t.S c = some (some n, cch) := by
        rw [inv.frame c hcn hcD (fun c' _ => ⟨X.child_ne_star hc_mem c', X.child_ne_proj hc_mem c'⟩), hS0c]
      have fr : ∀ k, S0 k = none → k ≠ n → k ∉ D → (∀ c' ∈ D, k ≠ ids.star c' ∧ k ≠ ids.proj c') → t.S k = none := by
        intro k hk h1 h2 h3; rw [inv.frame k h1 h2 h3, hk]
      have hDnode : ∀ d ∈ D, ∃ st, S0 d = some st := by
        intro d hd
        obtain ⟨x, hx⟩ := X.hc d (by rw [hcs]; simp [hd])
        exact ⟨_, hx⟩
      have hn_ne_i : ids.ident c ≠ n := (X.node_ne_ident X.hn c).symm
      have hn_ne_s : ids.star c ≠ n := (X.node_ne_star X.hn c).symm
      have hn_ne_p : ids.proj c ≠ n := (X.node_ne_proj X.hn c).symm
      have hiD : ids.ident c ∉ D := fun hm => by
        obtain ⟨st, hst⟩ := hDnode _ hm; exact X.node_ne_ident hst c rfl
      have hsD : ids.star c ∉ D := fun hm => by
        obtain ⟨st, hst⟩ := hDnode _ hm; exact X.node_ne_star hst c rfl
      have hpD : ids.proj c ∉ D := fun hm => by
        obtain ⟨st, hst⟩ := hDnode _ hm; exact X.node_ne_proj hst c rfl
      have hSi : t.S (ids.ident c) = none :=
        fr _ (X.ok.fi c) hn_ne_i hiD (fun c' _ => ⟨X.ok.is_ c c', X.ok.ip c c'⟩)
      have hSs : t.S (ids.star c) = none :=
        fr _ (X.ok.fs c) hn_ne_s hsD (fun c' hc' => ⟨fun e => hcD (X.ok.sinj _ _ e ▸ hc'), X.ok.sp c c'⟩)
      have hSp : t.S (ids.proj c) = none :=
        fr _ (X.ok.fp c) hn_ne_p hpD (fun c' hc' => ⟨fun e => X.ok.sp c' c e.symm, fun e => hcD (X.ok.pinj _ _ e ▸ hc')⟩)
      obtain ⟨w1, R1, S1⟩ := trunc_step1 w inv.n_ hSc hSi hSs hSp (X.ok.is_ c c) (X.ok.ip c c) (X.ok.sp c c) hstep
      have hcDs : c ∉ D.map ids.star := by
        intro hm
        obtain ⟨d, _, e⟩ := List.mem_map.mp hm
        exact X.child_ne_star hc_mem d e.symm
      have hLmap : (D.map ids.star ++ c :: R).map (fun y => if y = c then ids.star c else y) =
          (D ++ [c]).map ids.star ++ R := by
        rw [List.map_append, map_ite_not_mem _ _ _ hcDs]
        simp [map_ite_not_mem _ _ _ hcR]
      have inv1 : Inv1 S0 t1.S ids n gp (D ++ [c]) R := by
        have hsn : ¬ n = ids.star c := fun e => hn_ne_s e.symm
        have hpn : ¬ n = ids.proj c := fun e => hn_ne_p e.symm
        refine ⟨?_, ?_, ?_, ?_, ?_⟩
        · rw [S1]
          have hnc : ¬ n = c := fun e => hcn e.symm
          simp only [hsn, hpn, hnc, if_false, if_true, hLmap]
        · intro d hd
          rw [S1]
          rcases List.mem_append.mp hd with hd | hd
          · have a1 : ¬ ids.star d = ids.star c := fun e => hcD (X.ok.sinj _ _ e ▸ hd)
            have a2 : ¬ ids.star d = ids.proj c := X.ok.sp d c
            have a3 : ¬ ids.star d = c := fun e => X.child_ne_star hc_mem d e.symm
            have a4 : ¬ ids.star d = n := fun e => X.node_ne_star X.hn d e.symm
            simp only [a1, a2, a3, a4, if_false]
            exact inv.st d hd
          · simp at hd; subst hd; simp
        · intro d hd
          rw [S1]
          rcases List.mem_append.mp hd with hd | hd
          · have a1 : ¬ ids.proj d = ids.star c := fun e => X.ok.sp c d e.symm
            have a2 : ¬ ids.proj d = ids.proj c := fun e => hcD (X.ok.pinj _ _ e ▸ hd)
            have a3 : ¬ ids.proj d = c := fun e => X.child_ne_proj hc_mem d e.symm
            have a4 : ¬ ids.proj d = n := fun e => X.node_ne_proj X.hn d e.symm
            simp only [a1, a2, a3, a4, if_false]
            exact inv.pr d hd
          · simp at hd; subst hd
            have : ¬ ids.proj d = ids.star d := fun e => X.ok.sp d d e.symm
            simp [this]
        · intro d hd dch hd0
          rw [S1]
          rcases List.mem_append.mp hd with hd | hd
          · have hdcs : d ∈ cs := by rw [hcs]; simp [hd]
            have a1 : ¬ d = ids.star c := X.child_ne_star hdcs c
            have a2 : ¬ d = ids.proj c := X.child_ne_proj hdcs c
            have a3 : ¬ d = c := fun e => hcD (e ▸ hd)
            have a4 : ¬ d = n := X.ne d hdcs
            simp only [a1, a2, a3, a4, if_false]
            exact inv.ch d hd dch hd0
          · simp at hd; subst hd
            have a1 : ¬ d = ids.star d := X.child_ne_star hc_mem d
            have a2 : ¬ d = ids.proj d := X.child_ne_proj hc_mem d
            rw [hS0c] at hd0; simp at hd0; subst hd0
            simp [a1, a2]
        · intro k h1 h2 h3
          rw [S1]
          have b1 : ¬ k = ids.star c := (h3 c (by simp)).1
          have b2 : ¬ k = ids.proj c := (h3 c (by simp)).2
          have b3 : ¬ k = c := fun e => h2 (by simp [e])
          simp only [b1, b2, b3, h1, if_false]
          exact inv.frame k h1 (fun hm => h2 (by simp [hm])) (fun c' hc' => h3 c' (by simp [hc']))
      obtain ⟨w', R', I'⟩ := ih (D ++ [c]) t1 t' (by rw [hcs]; simp) w1 inv1 hrun'
      exact ⟨w', R'.trans R1, I'⟩

/-- During `contract_all_children(n)`: the conjugated projectors of `E` are already merged into `n`. -/
structure Inv2 (S0 S : Id → Option Struct) (ids : TTN.TempIds) (n : Id) (gp : Option Id) (cs E F : List Id) :
    Prop where
  n_ : S n = some (gp, F.map ids.star ++ E.map ids.proj)
  stF : ∀ c ∈ F, S (ids.star c) = some (some n, [ids.proj c])
  prF : ∀ c ∈ F, S (ids.proj c) = some (some (ids.star c), [c])
  stE : ∀ c ∈ E, S (ids.star c) = none
  prE : ∀ c ∈ E, S (ids.proj c) = some (some n, [c])
  ch : ∀ c ∈ cs, ∀ cch, S0 c = some (some n, cch) → S c = some (some (ids.proj c), cch)
  frame : ∀ k, k ≠ n → k ∉ cs → (∀ c ∈ cs, k ≠ ids.star c ∧ k ≠ ids.proj c) → S k = S0 k

theorem inv2_of_inv1 {S0 S : Id → Option Struct} {ids : TTN.TempIds} {n : Id} {gp : Option Id} {cs : List Id}
    (h : Inv1 S0 S ids n gp cs []) : Inv2 S0 S ids n gp cs [] cs :=
  ⟨by simpa using h.n_, h.st, h.pr, by simp, by simp, h.ch, h.frame⟩

theorem loop2 {P : Prop} {O : Id → List Axis} {S0 : Id → Option Struct} {ids : TTN.TempIds} {n : Id}
    {gp : Option Id} {cs : List Id}
    (X : TruncCtx S0 ids n gp cs) (hO : P → ∀ k, S0 k = none → O k = []) :
    ∀ (F E : List Id) (t t' : TTN), cs = E ++ F → t.WFX P O → Inv2 S0 t.S ids n gp cs E F →
      (F.map ids.star).foldlM (fun (t : TTN) s => t.contractNodes n s n) t = some t' →
      t'.WFX P O ∧ t'.root = t.root ∧ Inv2 S0 t'.S ids n gp cs cs [] := by
  intro F
  induction F with
  | nil =>
    intro E t t' hcs w inv hrun
    simp at hrun; subst hrun
    have : cs = E := by simpa using hcs
    subst this
    exact ⟨w, rfl, inv⟩
  | cons c F ih =>
    intro E t t' hcs w inv hrun
    rw [List.map_cons, List.foldlM_cons] at hrun
    cases hstep : t.contractNodes n (ids.star c) n with
    | none => simp [hstep, bind, Option.bind] at hrun
    | some t1 =>
      simp only [hstep, bind, Option.bind] at hrun
      have hc_mem : c ∈ cs := by rw [hcs]; simp
      have hnd := X.nd
      rw [hcs] at hnd
      have hcE : c ∉ E := fun hm => (List.nodup_append.mp hnd).2.2 c hm c (by simp) rfl
      have hcF : c ∉ F := (List.nodup_cons.mp (List.nodup_append.mp hnd).2.1).1
      obtain ⟨w1, R1, S1⟩ := trunc_step2 w inv.n_ (inv.stF c (by simp)) (inv.prF c (by simp))
        (fun hp => hO hp _ (X.ok.fs c)) hstep
      have hL : ((c :: F).map ids.star ++ E.map ids.proj).erase (ids.star c) ++ [ids.proj c] =
          F.map ids.star ++ (E ++ [c]).map ids.proj := by
        simp
      have hsn : ¬ ids.star c = n := fun e => X.node_ne_star X.hn c e.symm
      have hpn : ¬ ids.proj c = n := fun e => X.node_ne_proj X.hn c e.symm
      have inv1 : Inv2 S0 t1.S ids n gp cs (E ++ [c]) F := by
        refine ⟨?_, ?_, ?_, ?_, ?_, ?_, ?_⟩
        · rw [S1]; simp only [if_true, hL]
        · intro d hd
          rw [S1]
          have a1 : ¬ ids.star d = n := fun e => X.node_ne_star X.hn d e.symm
          have a2 : ¬ ids.star d = ids.star c := fun e => hcF (X.ok.sinj _ _ e ▸ hd)
          have a3 : ¬ ids.star d = ids.proj c := X.ok.sp d c
          simp only [a1, a2, a3, if_false]
          exact inv.stF d (by simp [hd])
        · intro d hd
          rw [S1]
          have a1 : ¬ ids.proj d = n := fun e => X.node_ne_proj X.hn d e.symm
          have a2 : ¬ ids.proj d = ids.star c := fun e => X.ok.sp c d e.symm
          have a3 : ¬ ids.proj d = ids.proj c := fun e => hcF (X.ok.pinj _ _ e ▸ hd)
          simp only [a1, a2, a3, if_false]
          exact inv.prF d (by simp [hd])
        · intro d hd
          rw [S1]
          have a1 : ¬ ids.star d = n := fun e => X.node_ne_star X.hn d e.symm
          rcases List.mem_append.mp hd with hd | hd
          · have a2 : ¬ ids.star d = ids.star c := fun e => hcE (X.ok.sinj _ _ e ▸ hd)
            have a3 : ¬ ids.star d = ids.proj c := X.ok.sp d c
            simp only [a1, a2, a3, if_false]
            exact inv.stE d hd
          · simp at hd; subst hd; simp [a1]
        · intro d hd
          rw [S1]
          have a1 : ¬ ids.proj d = n := fun e => X.node_ne_proj X.hn d e.symm
          have a2 : ¬ ids.proj d = ids.star c := fun e => X.ok.sp c d e.symm
          rcases List.mem_append.mp hd with hd | hd
          · have a3 : ¬ ids.proj d = ids.proj c := fun e => hcE (X.ok.pinj _ _ e ▸ hd)
            simp only [a1, a2, a3, if_false]
            exact inv.prE d hd
          · simp at hd; subst hd; simp [a1, a2]
        · intro d hd dch hd0
          rw [S1]
          have a1 : ¬ d = n := X.ne d hd
          have a2 : ¬ d = ids.star c := X.child_ne_star hd c
          have a3 : ¬ d = ids.proj c := X.child_ne_proj hd c
          simp only [a1, a2, a3, if_false]
          exact inv.ch d hd dch hd0
        · intro k h1 h2 h3
          rw [S1]
          have b1 : ¬ k = ids.star c := (h3 c hc_mem).1
          have b2 : ¬ k = ids.proj c := (h3 c hc_mem).2
          simp only [h1, b1, b2, if_false]
          exact inv.frame k h1 h2 h3
      obtain ⟨w', R', I'⟩ := ih (E ++ [c]) t1 t' (by rw [hcs]; simp) w1 inv1 hrun
      exact ⟨w', R'.trans R1, I'⟩

/-- During the last loop: the projectors of `G` are already merged into the original children. -/
structure Inv3 (S0 S : Id → Option Struct) (ids : TTN.TempIds) (n : Id) (gp : Option Id) (cs G H : List Id) :
    Prop where
  n_ : S n = some (gp, G ++ H.map ids.proj)
  prH : ∀ c ∈ H, S (ids.proj c) = some (some n, [c])
  chH : ∀ c ∈ H, ∀ cch, S0 c = some (some n, cch) → S c = some (some (ids.proj c), cch)
  prG : ∀ c ∈ G, S (ids.proj c) = none
  chG : ∀ c ∈ G, S c = S0 c
  stN : ∀ c ∈ cs, S (ids.star c) = none
  frame : ∀ k, k ≠ n → k ∉ cs → (∀ c ∈ cs, k ≠ ids.star c ∧ k ≠ ids.proj c) → S k = S0 k

theorem inv3_of_inv2 {S0 S : Id → Option Struct} {ids : TTN.TempIds} {n : Id} {gp : Option Id} {cs : List Id}
    (h : Inv2 S0 S ids n gp cs cs []) : Inv3 S0 S ids n gp cs [] cs :=
  ⟨by simpa using h.n_, h.prE, h.ch, by simp, by simp, h.stE, h.frame⟩

theorem final_of_inv3 {S0 S : Id → Option Struct} {ids : TTN.TempIds} {n : Id} {gp : Option Id} {cs : List Id}
    (X : TruncCtx S0 ids n gp cs) (h : Inv3 S0 S ids n gp cs cs []) : S = S0 := by
  funext k
  by_cases h1 : k = n
  · rw [h1, X.hn]; simpa using h.n_
  · by_cases h2 : k ∈ cs
    · exact h.chG k h2
    · by_cases h3 : ∀ c ∈ cs, k ≠ ids.star c ∧ k ≠ ids.proj c
      · exact h.frame k h1 h2 h3
      · have : ∃ c, c ∈ cs ∧ (k = ids.star c ∨ k = ids.proj c) := by
          apply Classical.byContradiction
          intro hcon
          apply h3
          intro c hc
          constructor
          · intro e; exact hcon ⟨c, hc, Or.inl e⟩
          · intro e; exact hcon ⟨c, hc, Or.inr e⟩
        obtain ⟨c, hc, e | e⟩ := this
        · rw [e, h.stN c hc, X.ok.fs c]
        · rw [e, h.prG c hc, X.ok.fp c]

theorem loop3 {P : Prop} {O : Id → List Axis} {S0 : Id → Option Struct} {ids : TTN.TempIds} {n : Id}
    {gp : Option Id} {cs : List Id}
    (X : TruncCtx S0 ids n gp cs) (hO : P → ∀ k, S0 k = none → O k = []) :
    ∀ (H G : List Id) (t t' : TTN), cs = G ++ H → t.WFX P O → Inv3 S0 t.S ids n gp cs G H →
      TTN.truncLoop3 t (H.map ids.proj) = some t' →
      t'.WFX P O ∧ t'.root = t.root ∧ Inv3 S0 t'.S ids n gp cs cs [] := by
  intro H
  induction H with
  | nil =>
    intro G t t' hcs w inv hrun
    simp [TTN.truncLoop3] at hrun; subst hrun
    have : cs = G := by simpa using hcs
    subst this
    exact ⟨w, rfl, inv⟩
  | cons c H ih =>
    intro G t t' hcs w inv hrun
    unfold TTN.truncLoop3 at hrun
    rw [List.map_cons, List.foldlM_cons] at hrun
    have hc_mem : c ∈ cs := by rw [hcs]; simp
    have hnd := X.nd
    rw [hcs] at hnd
    have hcG : c ∉ G := fun hm => (List.nodup_append.mp hnd).2.2 c hm c (by simp) rfl
    have hcH : c ∉ H := (List.nodup_cons.mp (List.nodup_append.mp hnd).2.1).1
    obtain ⟨cch, hS0c⟩ := X.hc c hc_mem
    have hSp := inv.prH c (by simp)
    have hSc := inv.chH c (by simp) cch hS0c
    obtain ⟨pn, hpn, epn⟩ := TTN.N_of_S hSp
    simp only [Prod.mk.injEq] at epn
    have hpn' : dget t.nodes (ids.proj c) = some pn := hpn
    have hch : pn.children = [c] := epn.2.symm
    -- the body of the loop is one contraction
    have hbody : (do
        let pn ← dget t.nodes (ids.proj c)
        if pn.children.length ≠ 1 then none
        let oc ← pn.children[0]?
        t.contractAllChildren (ids.proj c) oc) = t.contractNodes (ids.proj c) c c := by
      simp only [hpn', bind, Option.bind, hch, List.length_cons, List.length_nil, ne_eq,
        not_true_eq_false, if_false]
      simp [TTN.contractAllChildren, hpn', hch, bind, Option.bind]
      cases t.contractNodes (ids.proj c) c c <;> rfl
    rw [hbody] at hrun
    cases hstep : t.contractNodes (ids.proj c) c c with
    | none => simp [hstep, bind, Option.bind] at hrun
    | some t1 =>
      simp only [hstep, bind, Option.bind] at hrun
      have hrun' : TTN.truncLoop3 t1 (H.map ids.proj) = some t' := hrun
      obtain ⟨w1, R1, S1⟩ := trunc_step3 w inv.n_ hSp hSc (fun hp => hO hp _ (X.ok.fp c)) hstep
      have hGnode : ∀ g ∈ G, ∃ st, S0 g = some st := by
        intro g hg
        obtain ⟨x, hx⟩ := X.hc g (by rw [hcs]; simp [hg])
        exact ⟨_, hx⟩
      have hpG : ids.proj c ∉ G := fun hm => by
        obtain ⟨st, hst⟩ := hGnode _ hm; exact X.node_ne_proj hst c rfl
      have hpH : ids.proj c ∉ H.map ids.proj := by
        intro hm
        obtain ⟨d, hd, e⟩ := List.mem_map.mp hm
        exact hcH (X.ok.pinj _ _ e ▸ hd)
      have hL : (G ++ (c :: H).map ids.proj).map (fun x => if x = ids.proj c then c else x) =
          (G ++ [c]) ++ H.map ids.proj := by
        rw [List.map_append, map_ite_not_mem _ _ _ hpG, List.map_cons, List.map_cons]
        simp [map_ite_not_mem _ _ _ hpH]
      have hcn : ¬ c = n := X.ne c hc_mem
      have hpn_ne : ¬ ids.proj c = n := fun e => X.node_ne_proj X.hn c e.symm
      have inv1 : Inv3 S0 t1.S ids n gp cs (G ++ [c]) H := by
        refine ⟨?_, ?_, ?_, ?_, ?_, ?_, ?_⟩
        · rw [S1]
          have a1 : ¬ n = c := fun e => hcn e.symm
          have a2 : ¬ n = ids.proj c := fun e => hpn_ne e.symm
          simp only [a1, a2, if_false, if_true, hL]
        · intro d hd
          rw [S1]
          have a1 : ¬ ids.proj d = c := fun e => X.child_ne_proj hc_mem d e.symm
          have a2 : ¬ ids.proj d = ids.proj c := fun e => hcH (X.ok.pinj _ _ e ▸ hd)
          have a3 : ¬ ids.proj d = n := fun e => X.node_ne_proj X.hn d e.symm
          simp only [a1, a2, a3, if_false]
          exact inv.prH d (by simp [hd])
        · intro d hd dch hd0
          rw [S1]
          have hdcs : d ∈ cs := by rw [hcs]; simp [hd]
          have a1 : ¬ d = c := fun e => hcH (e ▸ hd)
          have a2 : ¬ d = ids.proj c := X.child_ne_proj hdcs c
          have a3 : ¬ d = n := X.ne d hdcs
          simp only [a1, a2, a3, if_false]
          exact inv.chH d (by simp [hd]) dch hd0
        · intro d hd
          rw [S1]
          have a1 : ¬ ids.proj d = c := fun e => X.child_ne_proj hc_mem d e.symm
          have a3 : ¬ ids.proj d = n := fun e => X.node_ne_proj X.hn d e.symm
          rcases List.mem_append.mp hd with hd | hd
          · have a2 : ¬ ids.proj d = ids.proj c := fun e => hcG (X.ok.pinj _ _ e ▸ hd)
            simp only [a1, a2, a3, if_false]
            exact inv.prG d hd
          · simp at hd; subst hd; simp [a1]
        · intro d hd
          rw [S1]
          rcases List.mem_append.mp hd with hd | hd
          · have hdcs : d ∈ cs := by rw [hcs]; simp [hd]
            have a1 : ¬ d = c := fun e => hcG (e ▸ hd)
            have a2 : ¬ d = ids.proj c := X.child_ne_proj hdcs c
            have a3 : ¬ d = n := X.ne d hdcs
            simp only [a1, a2, a3, if_false]
            exact inv.chG d hd
          · simp at hd; subst hd; simp [hS0c]
        · intro d hd
          rw [S1]
          have a1 : ¬ ids.star d = c := fun e => X.child_ne_star hc_mem d e.symm
          have a2 : ¬ ids.star d = ids.proj c := X.ok.sp d c
          have a3 : ¬ ids.star d = n := fun e => X.node_ne_star X.hn d e.symm
          simp only [a1, a2, a3, if_false]
          exact inv.stN d hd
        · intro k h1 h2 h3
          rw [S1]
          have b1 : ¬ k = c := fun e => h2 (e ▸ hc_mem)
          have b2 : ¬ k = ids.proj c := (h3 c hc_mem).2
          simp only [h1, b1, b2, if_false]
          exact inv.frame k h1 h2 h3
      obtain ⟨w', R', I'⟩ := ih (G ++ [c]) t1 t' (by rw [hcs]; simp) w1 inv1 hrun'
      exact ⟨w', R'.trans R1, I'⟩

/-- **One `truncate_node` (without the recursive calls) restores the structure exactly.** -/
theorem truncate_step_full {P : Prop} {O : Id → List Axis} {t t' : TTN} {n : Id} {ids : TTN.TempIds}
    {kdim : Id → Nat} (hx : t.WFX P O) (hO : P → ∀ k, t.S k = none → O k = [])
    (hok : TempOK t.S ids) (hs : t.truncateNodeStep n ids kdim = some t') :
    t'.WFX P O ∧ t'.root = t.root ∧ t'.S = t.S := by
  have h := hx.wf
  unfold TTN.truncateNodeStep at hs
  cases hN : dget t.nodes n with
  | none => simp [hN, bind, Option.bind] at hs
  | some Nn =>
    have hNn : t.N n = some Nn := hN
    simp only [hN, bind, Option.bind] at hs
    have X : TruncCtx t.S ids n Nn.parent Nn.children := by
      refine ⟨hok, TTN.S_eq hNn, h.str.nodup n _ _ (TTN.S_eq hNn), ?_, ?_⟩
      · intro c hc
        obtain ⟨cch, e⟩ := h.str.down n _ _ c (TTN.S_eq hNn) hc
        exact ⟨cch, e⟩
      · intro c hc e
        obtain ⟨cch, e2⟩ := h.str.down n _ _ c (TTN.S_eq hNn) hc
        rw [e] at e2
        exact h.str.parent_ne e2 rfl
    cases h1 : TTN.truncLoop1 t n ids kdim Nn.children with
    | none => simp [h1] at hs
    | some t1 =>
      simp only [h1] at hs
      have inv0 : Inv1 t.S t.S ids n Nn.parent [] Nn.children :=
        ⟨by simpa using TTN.S_eq hNn, by simp, by simp, by simp, fun _ _ _ _ => rfl⟩
      obtain ⟨w1, R1, I1⟩ := loop1 X kdim Nn.children [] t t1 (by simp) hx inv0 h1
      have I2 := inv2_of_inv1 I1
      cases h2 : t1.contractAllChildren n n with
      | none => simp [h2] at hs
      | some t2 =>
        simp only [h2] at hs
        unfold TTN.contractAllChildren at h2
        obtain ⟨N1, hN1, e1⟩ := TTN.N_of_S I2.n_
        simp only [Prod.mk.injEq] at e1
        have hN1' : dget t1.nodes n = some N1 := hN1
        simp only [hN1', bind, Option.bind] at h2
        have hch1 : N1.children = Nn.children.map ids.star := by rw [← e1.2]; simp
        rw [hch1] at h2
        obtain ⟨w2, R2, I2'⟩ := loop2 X hO Nn.children [] t1 t2 (by simp) w1 I2 h2
        have I3 := inv3_of_inv2 I2'
        obtain ⟨N2, hN2, e2⟩ := TTN.N_of_S I3.n_
        simp only [Prod.mk.injEq] at e2
        have hN2' : dget t2.nodes n = some N2 := hN2
        simp only [hN2'] at hs
        have hch2 : N2.children = Nn.children.map ids.proj := by rw [← e2.2]; simp
        rw [hch2] at hs
        obtain ⟨w3, R3, I3'⟩ := loop3 X hO Nn.children [] t2 t' (by simp) w2 I3 hs
        exact ⟨w3, R3.trans (R2.trans R1), final_of_inv3 X I3'⟩

theorem fold_same {P : Prop} {O : Id → List Axis} {f : TTN → Id → Option TTN} {S0 : Id → Option Struct}
    {r0 : Option Id}
    (hf : ∀ t c t', t.WFX P O → t.S = S0 → t.root = r0 → f t c = some t' →
      t'.WFX P O ∧ t'.root = r0 ∧ t'.S = S0) :
    ∀ (cs : List Id) (t t' : TTN), t.WFX P O → t.S = S0 → t.root = r0 → cs.foldlM f t = some t' →
      t'.WFX P O ∧ t'.root = r0 ∧ t'.S = S0 := by
  intro cs
  induction cs with
  | nil => intro t t' w hS hR h; simp at h; subst h; exact ⟨w, hR, hS⟩
  | cons c cs ih =>
    intro t t' w hS hR h
    rw [List.foldlM_cons] at h
    cases h1 : f t c with
    | none => simp [h1, bind, Option.bind] at h
    | some t1 =>
      simp only [h1, bind, Option.bind] at h
      obtain ⟨w1, R1, S1⟩ := hf t c t1 w hS hR h1
      exact ih t1 t' w1 S1 R1 h

/-- **`truncate_node` (with the recursion) restores the structure exactly**: same identifiers, same root,
    same parent of every node and the same child **lists** (order included). -/
theorem truncate_node_full {P : Prop} {O : Id → List Axis} {ids : TTN.TempIds} {kdim : Id → Nat} :
    ∀ (fuel : Nat) (t t' : TTN) (n : Id), t.WFX P O → (P → ∀ k, t.S k = none → O k = []) → TempOK t.S ids →
      TTN.truncateNode fuel t n ids kdim = some t' → t'.WFX P O ∧ t'.root = t.root ∧ t'.S = t.S := by
  intro fuel
  induction fuel with
  | zero => intro t t' n _ _ _ h; simp [TTN.truncateNode] at h
  | succ fuel ih =>
    intro t t' n w hO hok h
    simp only [TTN.truncateNode] at h
    cases hN : dget t.nodes n with
    | none => simp [hN, bind, Option.bind] at h
    | some Nn =>
      simp only [hN, bind, Option.bind] at h
      cases h3 : t.truncateNodeStep n ids kdim with
      | none => simp [h3] at h
      | some t3 =>
        simp only [h3] at h
        obtain ⟨w3, R3, S3⟩ := truncate_step_full w hO hok h3
        have := fold_same (f := fun t c => TTN.truncateNode fuel t c ids kdim) (S0 := t.S) (r0 := t.root)
          (by
            intro t1 c t2 w1 hS1 hR1 hrun
            obtain ⟨a, b, c'⟩ := ih t1 t2 c w1 (by rw [hS1]; exact hO) (by rw [hS1]; exact hok) hrun
            exact ⟨a, b.trans hR1, c'.trans hS1⟩)
          Nn.children t3 t' w3 S3 R3 h
        exact this

/-! ### the identifiers used by the driver are admissible -/

theorem foldl_max_ge (l : List Nat) (a : Nat) : a ≤ l.foldl max a ∧ ∀ x ∈ l, x ≤ l.foldl max a := by
  induction l generalizing a with
  | nil => simp
  | cons y l ih =>
    simp only [List.foldl_cons]
    obtain ⟨h1, h2⟩ := ih (max a y)
    refine ⟨by omega, ?_⟩
    intro x hx
    rcases List.mem_cons.mp hx with rfl | hm
    · omega
    · exact h2 x hm

theorem fresh_above (t : TTN) (k : Nat) (hk : ((t.nodes.map Prod.fst).foldl max 0 : Nat) < k) : t.S k = none := by
  apply S_none_of_N
  unfold TTN.N
  cases hg : dget t.nodes k with
  | none => rfl
  | some v =>
    exfalso
    have hmem : k ∈ t.nodes.map Prod.fst := (dhas_eq_mem_keys t.nodes k).mp (dhas_of_dget hg)
    have h2 : (k : Nat) ≤ ((t.nodes.map Prod.fst).foldl max 0 : Nat) :=
      (foldl_max_ge (t.nodes.map Prod.fst) 0).2 k hmem
    exact absurd hk (Nat.not_lt.mpr h2)

theorem arithIds_ok (t : TTN) : TempOK t.S (TTN.arithIds ((t.nodes.map (·.1)).foldl max 0 + 1)) := by
  have e : (t.nodes.map (·.1)) = t.nodes.map Prod.fst := rfl
  rw [e]
  obtain ⟨m, hm⟩ : ∃ m : Nat, (t.nodes.map Prod.fst).foldl max 0 = m := ⟨_, rfl⟩
  rw [hm]
  have hf : ∀ k : Nat, m < k → t.S k = none := fun k hk => fresh_above t k (by rw [hm]; exact hk)
  refine ⟨?_, ?_, ?_, ?_, ?_, ?_, ?_, ?_⟩
  · intro (c : Nat); show t.S (m + 1 + 3 * c) = none; exact hf _ (by omega)
  · intro (c : Nat); show t.S (m + 1 + 3 * c + 1) = none; exact hf _ (by omega)
  · intro (c : Nat); show t.S (m + 1 + 3 * c + 2) = none; exact hf _ (by omega)
  · intro (c : Nat) (c' : Nat); show m + 1 + 3 * c ≠ m + 1 + 3 * c' + 1; omega
  · intro (c : Nat) (c' : Nat); show m + 1 + 3 * c ≠ m + 1 + 3 * c' + 2; omega
  · intro (c : Nat) (c' : Nat); show m + 1 + 3 * c + 1 ≠ m + 1 + 3 * c' + 2; omega
  · intro (c : Nat) (c' : Nat) h; have e : m + 1 + 3 * c + 1 = m + 1 + 3 * c' + 1 := h; show (c : Nat) = c'; omega
  · intro (c : Nat) (c' : Nat) h; have e : m + 1 + 3 * c + 2 = m + 1 + 3 * c' + 2 := h; show (c : Nat) = c'; omega

/-- **`recursive_truncation`** (between its canonicalisations) restores the structure exactly. -/
theorem recursive_truncation_full {t t' : TTN} {kdim : Id → Nat} (h : t.WF)
    (hs : t.recursiveTruncation kdim = some t') : t'.WF ∧ t'.root = t.root ∧ t'.S = t.S := by
  unfold TTN.recursiveTruncation at hs
  cases hr : t.root with
  | none => simp [hr, bind, Option.bind] at hs
  | some r =>
    simp only [hr, bind, Option.bind] at hs
    have := truncate_node_full (P := False) (O := fun _ => []) _ t t' r ⟨h, False.elim, False.elim⟩
      (fun hp => hp.elim) (arithIds_ok t) hs
    rw [hr] at this
    exact ⟨this.1.wf, this.2⟩

/-- **`recursive_truncation` at the level of labels**: the result is well-formed, satisfies the label
    invariant, has the same root and exactly the same structure, and **every node has exactly the open axes
    it had – same labels, same order, same dimensions**. -/
theorem recursive_truncation_labels {t t' : TTN} {kdim : Id → Nat} (h : t.WF) (hl : t.LWF)
    (hs : t.recursiveTruncation kdim = some t') :
    t'.WF ∧ t'.LWF ∧ t'.root = t.root ∧ t'.S = t.S ∧ ∀ k, t'.openAxes k = t.openAxes k := by
  unfold TTN.recursiveTruncation at hs
  cases hr : t.root with
  | none => simp [hr, bind, Option.bind] at hs
  | some r =>
    simp only [hr, bind, Option.bind] at hs
    have := truncate_node_full (P := True) (O := t.openAxes) _ t t' r ⟨h, fun _ => hl, fun _ _ => rfl⟩
      (fun _ k hk => openAxes_none (N_none_of_S hk)) (arithIds_ok t) hs
    rw [hr] at this
    exact ⟨this.1.wf, this.1.lwf trivial, this.2.1, this.2.2, this.1.op trivial⟩

/-- `t'.S = t.S` read on the node dictionaries. -/
theorem S_eq_explicit {t t' : TTN} (h : t'.S = t.S) :
    (∀ k, t'.N k = none ↔ t.N k = none) ∧
    (∀ k n, t.N k = some n → ∃ n', t'.N k = some n' ∧ n'.parent = n.parent ∧ n'.children = n.children) := by
  constructor
  · intro k
    have hk := congrFun h k
    constructor
    · intro e; exact N_none_of_S (by rw [← hk]; exact S_none_of_N e)
    · intro e; exact N_none_of_S (by rw [hk]; exact S_none_of_N e)
  · intro k n hn
    have hk := congrFun h k
    rw [TTN.S_eq hn] at hk
    obtain ⟨n', hn', e⟩ := TTN.N_of_S hk
    simp at e
    exact ⟨n', hn', e.1.symm, e.2.symm⟩

end Ptn.C02
