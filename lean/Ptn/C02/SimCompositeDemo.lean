import Ptn.C02.SimDemo
import Ptn.C02.SimCompositeTdvp
import Ptn.C02.SimCompositeTrunc
/-! Concrete instances of the composite edits at the value level (used by the non-vacuity examples of `Props.lean`):
on the two-node network `1 — 2` of `SimDemo` (integer tensors): `contract_and_split_with_parent(2, 1)`, the two-site
update of `(2, 1)` with the two-site tensor doubled, the centre move `2 → 1` with an exact rank-3 factorisation of the
tensor of node `2`, and the link update `2 → 1` with the link tensor multiplied by 7. -/
namespace Ptn.C02
open NodeS Ptn.Ein Ptn.C03

namespace SimDemo

/-! ### contract (2, 1) -> 3, split 3 back into (2, 1) -/

def uS : TTN.LegSpec := ⟨none, [], [0], false⟩
def wS : TTN.LegSpec := ⟨none, [], [1, 2], true⟩

theorem lbc21 : t0.legsBeforeCombination 2 1 = some (uS, wS) := rfl

/-- after `split_nodes(3, u, w, out = 2, in = 1)` -/
def t2c : TTN :=
  ⟨[(2, ⟨[1, 0], [2, 3], some 1, []⟩), (1, ⟨[0, 1, 2], [3, 2, 2], none, [2]⟩)],
   [(2, [⟨2, 2⟩, ⟨1000000, 3⟩]), (1, [⟨1000000, 3⟩, ⟨0, 2⟩, ⟨1, 2⟩])], some 1, 1000001⟩

theorem step2c : t1.step (.split 3 uS wS 2 1 3) = some t2c := rfl

theorem adm2c : (TOp.split 3 uS wS 2 1 3).Adm t1 :=
  ⟨_, ⟨rfl, Or.inr rfl, Or.inr rfl, List.Perm.refl _, Or.inr ⟨rfl, rfl, rfl, Or.inr ⟨rfl, rfl⟩⟩⟩⟩

theorem outLegs2c : splitOutLegs e g1 t2c 3 2 1 = [2] := by decide
theorem inLegs2c : splitInLegs e g1 t2c 3 2 1 = [0, 1] := by decide

def fact2c : SplitFact dim (v1.tens 3) (splitOutLegs e g1 t2c 3 2 1) (splitInLegs e g1 t2c 3 2 1) v1.next
    (v1.next + 1) where
  O := fun ρ => 5 * (ρ 2 : Int) - (ρ 100 : Int) + 2
  I := fun ρ => (ρ 0 : Int) + 2 * (ρ 101 : Int) + 3 * (ρ 1 : Int) + 1
  exact := by
    intro τ
    simp [v1, simContract, reLeg, contractStep, v0, dim, sumPairs, sumR, upd, List.range_succ]
    try ring
  readsO := by
    rw [outLegs2c]
    intro σ τ h
    have h0 := h 2 (by simp); have h1 := h 100 (by simp [v1, simContract, reLeg, contractStep, v0])
    simp [h0, h1]
  readsI := by
    rw [inLegs2c]
    intro σ τ h
    have h0 := h 0 (by simp); have h1 := h 101 (by simp [v1, simContract, reLeg, contractStep, v0])
    have h2 := h 1 (by simp)
    simp [h0, h1, h2]

theorem simstep_contract21 : SimStep dim e t0 g v0 (.contract 2 1 3) t1 g1 v1 :=
  .contract (pid := 1) (cid := 2) (p := (50, 51)) step1 (Or.inr ⟨rfl, rfl⟩) rfl rfl (by simp [v0]) (Or.inl rfl)

/-- the simulated history of `contract_and_split_with_parent(2, 1)` -/
theorem simrun_contract_split : ∃ g' v', SimRun dim e t0 g v0 [.contract 2 1 3, .split 3 uS wS 2 1 3] t2c g' v' :=
  ⟨_, _, .cons (Or.inr (Or.inr rfl)) simstep_contract21 (.cons adm2c (.split fact2c step2c ⟨rfl, rfl⟩) (.nil _ _ _))⟩

/-! ### the same with the two-site tensor doubled in between -/

/-- the two-site tensor after the local update: twice the contracted tensor -/
def X2 : Asg Nat → Int := fun ρ => 2 * v1.tens 3 ρ

theorem simrun_two_site_1 : SimRun dim e t0 g v0 [.contract 2 1 3] t1 g1 v1 :=
  .cons (Or.inr (Or.inr rfl)) simstep_contract21 (.nil _ _ _)

theorem v1_wf : v1.WF ∧ RSim dim e g1 t1 v1 ∧ t1.WF ∧ t1.LWF := by
  obtain ⟨_, _, w, l, vw, s, _, _⟩ := structural_history_preserves_value dim e t0_wf.1 t0_wf.2 v0_wf rsim0
    simrun_two_site_1
  exact ⟨vw, s, w, l⟩

theorem X2_reads : DependsOn (· ∈ v1.legs 3) X2 := by
  intro σ τ h
  have := v1_wf.1.reads 3 (by simp [v1, simContract, reLeg, contractStep, v0]) σ τ h
  simp [X2, this]

/-- after the access to node 3 (the permutation is reset) -/
def t1a : TTN :=
  ⟨[(3, ⟨[0, 1, 2], [2, 2, 2], none, []⟩)], [(3, [⟨2, 2⟩, ⟨0, 2⟩, ⟨1, 2⟩])], some 3, 1000000⟩

theorem step1a : t1.step (.access 3) = some t1a := rfl
theorem step2a : t1a.step (.split 3 uS wS 2 1 3) = some t2c := rfl

theorem adm2a : (TOp.split 3 uS wS 2 1 3).Adm t1a :=
  ⟨_, ⟨rfl, Or.inr rfl, Or.inr rfl, List.Perm.refl _, Or.inr ⟨rfl, rfl, rfl, Or.inr ⟨rfl, rfl⟩⟩⟩⟩

def fact2a : SplitFact dim ((setTens v1 3 X2).tens 3) (splitOutLegs e g1 t2c 3 2 1) (splitInLegs e g1 t2c 3 2 1)
    (setTens v1 3 X2).next ((setTens v1 3 X2).next + 1) where
  O := fun ρ => 2 * (5 * (ρ 2 : Int) - (ρ 100 : Int) + 2)
  I := fun ρ => (ρ 0 : Int) + 2 * (ρ 101 : Int) + 3 * (ρ 1 : Int) + 1
  exact := by
    intro τ
    simp [setTens, X2, v1, simContract, reLeg, contractStep, v0, dim, sumPairs, sumR, upd, List.range_succ]
    try ring
  readsO := by
    rw [outLegs2c]
    intro σ τ h
    have h0 := h 2 (by simp)
    have h1 := h 100 (by simp [setTens, v1, simContract, reLeg, contractStep, v0])
    simp [h0, h1]
  readsI := by
    rw [inLegs2c]
    intro σ τ h
    have h0 := h 0 (by simp)
    have h1 := h 101 (by simp [setTens, v1, simContract, reLeg, contractStep, v0])
    have h2 := h 1 (by simp)
    simp [h0, h1, h2]

theorem simrun_two_site_2 : ∃ g' v', SimRun dim e t1 g1 (setTens v1 3 X2) [.access 3, .split 3 uS wS 2 1 3] t2c g' v' :=
  ⟨_, _, .cons trivial (.access step1a) (.cons adm2a (.split fact2a step2a ⟨rfl, rfl⟩) (.nil _ _ _))⟩

/-! ### centre move / link update from node 2 towards its parent 1 -/

def node2 : NodeS := ⟨[1, 0], [2, 3], some 1, []⟩
def qS : TTN.LegSpec := ⟨none, [], [1], false⟩
def rS : TTN.LegSpec := ⟨some 1, [], [], false⟩

theorem t0_N2 : t0.N 2 = some node2 := rfl
theorem canon2 : TTN.canonSpecs node2 1 = some (qS, rS) := rfl
theorem tdvp2 : TTN.tdvpSpecs node2 1 = some (qS, rS) := rfl

/-- after `split_nodes(2, q, r, out = 2, in = 7)` with new bond dimension 3 -/
def tm1 : TTN :=
  ⟨[(1, ⟨[1, 0, 2], [2, 3, 2], none, [7]⟩), (2, ⟨[1, 0], [2, 3], some 7, []⟩), (7, ⟨[1, 0], [3, 3], some 1, [2]⟩)],
   [(1, [⟨0, 2⟩, ⟨100, 3⟩, ⟨1, 2⟩]), (2, [⟨2, 2⟩, ⟨1000000, 3⟩]), (7, [⟨1000000, 3⟩, ⟨100, 3⟩])], some 1, 1000001⟩

theorem stepm1 : t0.step (.split 2 qS rS 2 7 3) = some tm1 := rfl

theorem admm1 : (TOp.split 2 qS rS 2 7 3).Adm t0 :=
  ⟨_, ⟨rfl, Or.inl rfl, Or.inr rfl, List.Perm.refl _, Or.inl ⟨1, rfl, rfl, rfl, Or.inr ⟨rfl, rfl⟩⟩⟩⟩

theorem outLegsm : splitOutLegs e g tm1 2 2 7 = [2] := by decide
theorem inLegsm : splitInLegs e g tm1 2 2 7 = [51] := by decide

/-- an exact factorisation of `5·x₂ − x₅₁ + 2` over a bond of dimension 3 (the third column is zero) -/
def factm : SplitFact dim (v0.tens 2) (splitOutLegs e g tm1 2 2 7) (splitInLegs e g tm1 2 2 7) v0.next
    (v0.next + 1) where
  O := fun ρ => if ρ 100 = 0 then 5 * (ρ 2 : Int) + 2 else if ρ 100 = 1 then -1 else 0
  I := fun ρ => if ρ 101 = 0 then 1 else if ρ 101 = 1 then (ρ 51 : Int) else 0
  exact := by
    intro τ
    simp [v0, dim, sumPairs, sumR, upd, List.range_succ]
    try ring
  readsO := by
    rw [outLegsm]
    intro σ τ h
    have h0 := h 2 (by simp); have h1 := h 100 (by simp [v0])
    simp [h0, h1]
  readsI := by
    rw [inLegsm]
    intro σ τ h
    have h0 := h 51 (by simp); have h1 := h 101 (by simp [v0])
    simp [h0, h1]

def gm1 : LegMap := splitG 2 2 7 v0.next g
def vm1 : VNet Int := simSplit dim e g tm1 v0 2 2 7 factm

theorem simstep_split2 : SimStep dim e t0 g v0 (.split 2 qS rS 2 7 3) tm1 gm1 vm1 :=
  .split factm stepm1 ⟨rfl, rfl⟩

theorem simrun_link_1 : SimRun dim e t0 g v0 [.split 2 qS rS 2 7 3] tm1 gm1 vm1 :=
  .cons admm1 simstep_split2 (.nil _ _ _)

theorem vm1_wf : vm1.WF ∧ RSim dim e gm1 tm1 vm1 ∧ tm1.WF ∧ tm1.LWF := by
  obtain ⟨_, _, w, l, vw, s, _, _⟩ := structural_history_preserves_value dim e t0_wf.1 t0_wf.2 v0_wf rsim0
    simrun_link_1
  exact ⟨vw, s, w, l⟩

/-- after `contract_nodes(1, 7, new = 1)` (= after `contract_nodes(7, 1, new = 1)`) -/
def tm2 : TTN :=
  ⟨[(1, ⟨[2, 0, 1], [2, 2, 3], none, [2]⟩), (2, ⟨[1, 0], [2, 3], some 1, []⟩)],
   [(2, [⟨2, 2⟩, ⟨1000000, 3⟩]), (1, [⟨0, 2⟩, ⟨1, 2⟩, ⟨1000000, 3⟩])], some 1, 1000001⟩

theorem stepm2 : tm1.step (.contract 1 7 1) = some tm2 := rfl

/-- the simulated history of the centre move `2 → 1` -/
theorem simrun_centre_move : ∃ g' v', SimRun dim e t0 g v0 [.split 2 qS rS 2 7 3, .contract 1 7 1] tm2 g' v' := by
  obtain ⟨vw, s, w, l⟩ := vm1_wf
  obtain ⟨g2, v2, hst⟩ := simstep_complete dim e (op := .contract 1 7 1) w vw s trivial (Or.inl rfl) stepm2
    (by intro _ _ _ _ _ _ h; cases h) (by intro _ _ _ h; cases h)
  exact ⟨g2, v2, .cons admm1 simstep_split2 (.cons (Or.inl rfl) hst (.nil _ _ _))⟩

/-- the link tensor after the local update: 7 times the `R` factor -/
def X7 : Asg Nat → Int := fun ρ => 7 * vm1.tens 7 ρ

theorem mem7 : 7 ∈ vm1.ids := (vm1_wf.2.1.ids 7).2 (by decide)

theorem X7_reads : DependsOn (· ∈ vm1.legs 7) X7 := by
  intro σ τ h
  have := vm1_wf.1.reads 7 mem7 σ τ h
  simp [X7, this]

/-- after the access to the link node -/
def tm1a : TTN :=
  ⟨[(1, ⟨[1, 0, 2], [2, 3, 2], none, [7]⟩), (2, ⟨[1, 0], [2, 3], some 7, []⟩), (7, ⟨[0, 1], [3, 3], some 1, [2]⟩)],
   [(1, [⟨0, 2⟩, ⟨100, 3⟩, ⟨1, 2⟩]), (2, [⟨2, 2⟩, ⟨1000000, 3⟩]), (7, [⟨100, 3⟩, ⟨1000000, 3⟩])], some 1, 1000001⟩

theorem stepm1a : tm1.step (.access 7) = some tm1a := rfl
theorem stepm2a : ∃ t', tm1a.step (.contract 7 1 1) = some t' := ⟨_, rfl⟩

/-- the simulated second half of the link update `2 → 1`, from the network with the link tensor replaced -/
theorem simrun_link_2 : ∃ t' g' v', SimRun dim e tm1 gm1 (setTens vm1 7 X7) [.access 7, .contract 7 1 1] t' g' v' := by
  obtain ⟨vw, s, w, l⟩ := vm1_wf
  obtain ⟨t', hstep⟩ := stepm2a
  have s' : RSim dim e gm1 tm1a (setTens vm1 7 X7) :=
    (access_simulates dim e s (step_access_eq stepm1a).choose_spec).setTens 7 X7
  have w' : tm1a.WF := step_wf w (.access 7) trivial stepm1a
  obtain ⟨g2, v2, hst⟩ := simstep_complete dim e (op := .contract 7 1 1) w' (setTens_wf vw X7_reads) s' trivial
    (Or.inr (Or.inl rfl)) hstep (by intro _ _ _ _ _ _ h; cases h) (by intro _ _ _ h; cases h)
  exact ⟨t', g2, v2, .cons trivial (.access stepm1a) (.cons (Or.inr (Or.inl rfl)) hst (.nil _ _ _))⟩

/-! ### projector pair on the bond `2 — 1` (the per-child step of `truncate_node`) -/

def tids : TTN.TempIds := ⟨fun _ => 7, fun _ => 8, fun _ => 9⟩

/-- after `insert_identity(2, 1, 7)` -/
def ti1 : TTN :=
  ⟨[(1, ⟨[1, 0, 2], [2, 3, 2], none, [7]⟩), (2, ⟨[1, 0], [2, 3], some 7, []⟩), (7, ⟨[0, 1], [3, 3], some 1, [2]⟩)],
   [(1, [⟨0, 2⟩, ⟨100, 3⟩, ⟨1, 2⟩]), (2, [⟨2, 2⟩, ⟨100, 3⟩]), (7, [⟨100, 3⟩, ⟨100, 3⟩])], some 1, 1000000⟩

theorem stepi1 : t0.step (.ident 2 1 (tids.ident 2)) = some ti1 := rfl

def gi1 : LegMap := identG 2 1 7 v0.next (50, 51) g
def vi1 : VNet Int := simIdent e g ti1 v0 2 1 7 (50, 51)

theorem simrun_trunc_1 : SimRun dim e t0 g v0 [.ident 2 1 (tids.ident 2)] ti1 gi1 vi1 := by
  refine .cons (show t0.N 7 = none from rfl) (.ident stepi1 (by simp [v0]) (Or.inr (by decide)) ?_) (.nil _ _ _)
  intro ax hl
  unfold TTN.Leg at hl
  rw [t0_legPairs] at hl
  simp at hl
  subst hl
  exact ⟨rfl, rfl⟩

theorem vi1_wf : vi1.WF ∧ RSim dim e gi1 ti1 vi1 ∧ ti1.WF ∧ ti1.LWF := by
  obtain ⟨_, _, w, l, vw, s, _, _⟩ := structural_history_preserves_value dim e t0_wf.1 t0_wf.2 v0_wf rsim0
    simrun_trunc_1
  exact ⟨vw, s, w, l⟩

/-- the matrix put on the bond: the projector on the first two of the three basis vectors -/
def Pi2 : Asg Nat → Int := fun ρ => if ρ 100 = ρ 101 ∧ ρ 100 < 2 then 1 else 0

theorem Pi2_reads : DependsOn (· ∈ vi1.legs (tids.ident 2)) Pi2 := by
  intro σ τ h
  have h0 := h 100 (by decide); have h1 := h 101 (by decide)
  simp [Pi2, h0, h1]

/-- after `split_nodes(7, (parent 1), (child 2), out = 8, in = 9)` -/
def ti2 : TTN :=
  ⟨[(1, ⟨[1, 0, 2], [2, 3, 2], none, [8]⟩), (2, ⟨[1, 0], [2, 3], some 9, []⟩),
    (8, ⟨[0, 1], [3, 3], some 1, [9]⟩), (9, ⟨[0, 1], [3, 3], some 8, [2]⟩)],
   [(1, [⟨0, 2⟩, ⟨100, 3⟩, ⟨1, 2⟩]), (2, [⟨2, 2⟩, ⟨100, 3⟩]), (8, [⟨100, 3⟩, ⟨1000000, 3⟩]),
    (9, [⟨1000000, 3⟩, ⟨100, 3⟩])], some 1, 1000001⟩

theorem stepi2 : ti1.step (.split (tids.ident 2) ⟨some 1, [], [], false⟩ ⟨none, [2], [], false⟩ (tids.star 2)
    (tids.proj 2) 3) = some ti2 := rfl

theorem admi2 : (TOp.split (tids.ident 2) ⟨some 1, [], [], false⟩ ⟨none, [2], [], false⟩ (tids.star 2)
    (tids.proj 2) 3).Adm ti1 :=
  ⟨_, ⟨rfl, Or.inr rfl, Or.inr rfl, List.Perm.refl _, Or.inl ⟨1, rfl, rfl, rfl, Or.inl ⟨rfl, rfl⟩⟩⟩⟩

theorem outLegsi : splitOutLegs e gi1 ti2 7 8 9 = [100] := by decide
theorem inLegsi : splitInLegs e gi1 ti2 7 8 9 = [101] := by decide

theorem pi2_sum (a b : Nat) : (if a = b ∧ a < 2 then (1 : Int) else 0) =
    (if a = 0 ∧ a < 2 then 1 else 0) * (if 0 = b then 1 else 0) +
    (if a = 1 ∧ a < 2 then 1 else 0) * (if 1 = b then 1 else 0) +
    (if a = 2 ∧ a < 2 then 1 else 0) * (if 2 = b then 1 else 0) := by
  rcases a with _ | _ | a
  · rcases b with _ | b <;> simp
  · rcases b with _ | _ | b <;> simp
  · have h1 : ¬ (a + 1 + 1 < 2) := by omega
    simp [h1]

/-- the projector pair: `Π = P·Pc` over the new bond `(102, 103)` of dimension 3 -/
def facti : SplitFact dim ((setTens vi1 (tids.ident 2) Pi2).tens (tids.ident 2)) (splitOutLegs e gi1 ti2 7 8 9)
    (splitInLegs e gi1 ti2 7 8 9) (setTens vi1 (tids.ident 2) Pi2).next
    ((setTens vi1 (tids.ident 2) Pi2).next + 1) where
  O := fun ρ => if ρ 100 = ρ 102 ∧ ρ 100 < 2 then 1 else 0
  I := fun ρ => if ρ 103 = ρ 101 then 1 else 0
  exact := by
    intro τ
    have := pi2_sum (τ 100) (τ 101)
    simp [setTens, tids, Pi2, vi1, simIdent, reLeg, identStep, v0, dim, sumPairs, sumR, upd, List.range_succ]
    simpa [Int.add_assoc] using this
  readsO := by
    rw [outLegsi]
    intro σ τ h
    have h0 := h 100 (by simp)
    have h1 := h 102 (by simp [setTens, vi1, simIdent, reLeg, identStep, v0])
    simp [h0, h1]
  readsI := by
    rw [inLegsi]
    intro σ τ h
    have h0 := h 101 (by simp)
    have h1 := h 103 (by simp [setTens, vi1, simIdent, reLeg, identStep, v0])
    simp [h0, h1]

theorem simrun_trunc_2 : ∃ g' v', SimRun dim e ti1 gi1 (setTens vi1 (tids.ident 2) Pi2)
    [.split (tids.ident 2) ⟨some 1, [], [], false⟩ ⟨none, [2], [], false⟩ (tids.star 2) (tids.proj 2) 3] ti2 g' v' :=
  ⟨_, _, .cons admi2 (.split facti stepi2 ⟨rfl, rfl⟩) (.nil _ _ _)⟩

end SimDemo

end Ptn.C02
