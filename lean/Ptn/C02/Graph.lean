import Ptn.C02.Dict
import Ptn.C02.SGraph
import Ptn.C02.Lemmas
import Ptn.C02.NodeSpec
/-! Graph-level well-formedness of the TTN model and extensional descriptions of the dictionary
steps (`access`, `tensorsPop`, `replaceNodeInNeighbours`, …).  Core Lean only. -/
namespace Ptn.C02
open NodeS

/-- Extensional view of the node dictionary. -/
def TTN.N (t : TTN) (k : Id) : Option NodeS := dget t.nodes k
/-- Extensional view of the tensor dictionary (keys only). -/
def TTN.hasT (t : TTN) (k : Id) : Bool := dhas t.tensors k

/-- The structural part of a node. -/
def structOf (n : NodeS) : Struct := (n.parent, n.children)
/-- Extensional structure of the network. -/
def TTN.S (t : TTN) (k : Id) : Option Struct := (t.N k).map structOf

/-- Well-formedness of a network (the structural clauses of property C02): `SWF` of its structure
    (identical key sets; exactly one root, recorded in `root`; symmetric parent/child links; no duplicate
    children; every node reaches the root), every node satisfies the Node invariant, and the recorded
    shapes are the shapes of the stored arrays. -/
structure TTN.WF (t : TTN) : Prop where
  str : SWF t.S t.hasT t.root
  node : ∀ k n, t.N k = some n → WFN n
  fit : ∀ k n T, t.N k = some n → dget t.tensors k = some T → shapeOf T = n.shp

theorem TTN.S_eq {t : TTN} {k : Id} {n : NodeS} (h : t.N k = some n) :
    t.S k = some (n.parent, n.children) := by
  simp [TTN.S, h, structOf]

theorem TTN.N_of_S {t : TTN} {k : Id} {s : Struct} (h : t.S k = some s) :
    ∃ n, t.N k = some n ∧ s = (n.parent, n.children) := by
  unfold TTN.S at h
  cases hn : t.N k with
  | none => rw [hn] at h; simp at h
  | some n => rw [hn] at h; simp [structOf] at h; exact ⟨n, rfl, h.symm⟩

/-! ### reset is idempotent; shape of a transposed array -/

theorem resetPermutation_idem (n : NodeS) : n.resetPermutation.resetPermutation = n.resetPermutation := by
  have h := (reset_shape n)
  cases n
  simp only [resetPermutation, List.length_range] at h ⊢
  congr 1
where
  reset_shape (n : NodeS) : n.resetPermutation.shape = n.shape := by
    have h := map_getD_range n.shape
    rw [shape_length] at h
    exact h

theorem shapeOf_transposeT {T R : Tensor} {perm : List Nat} (h : transposeT T perm = some R) :
    shapeOf R = perm.map (fun i => (shapeOf T).getD i 0) := by
  unfold transposeT at h
  split at h
  · simp at h
  · split at h
    · simp at h
    · have : ∀ (p : List Nat) (R : Tensor), p.mapM (fun i => T[i]?) = some R →
          shapeOf R = p.map (fun i => (shapeOf T).getD i 0) := by
        intro p
        induction p with
        | nil => intro R h; simp at h; subst h; rfl
        | cons a p ih =>
          intro R h
          rw [List.mapM_cons] at h
          cases ha : T[a]? with
          | none => simp [ha] at h
          | some x =>
            cases hp : p.mapM (fun i => T[i]?) with
            | none => simp [ha, hp] at h
            | some r =>
              simp [ha, hp] at h
              subst h
              have := ih r hp
              simp only [shapeOf] at this ⊢
              simp [this, ha]
      exact this perm R h

/-! ### `access` and `tensorsPop`, extensionally -/

theorem access_eq {t t1 : TTN} {id : Id} {T : Tensor} (h : t.access id = some (t1, T)) :
    ∃ n Ts, dget t.nodes id = some n ∧ dget t.tensors id = some Ts ∧ transposeT Ts n.perm = some T ∧
      t1 = { t with nodes := dset t.nodes id n.resetPermutation, tensors := dset t.tensors id T } := by
  unfold TTN.access at h
  cases h1 : dget t.nodes id with
  | none => simp [h1] at h
  | some n =>
    cases h2 : dget t.tensors id with
    | none => simp [h1, h2] at h
    | some Ts =>
      cases h3 : transposeT Ts n.perm with
      | none => simp [h1, h2, h3] at h
      | some T' =>
        simp [h1, h2, h3] at h
        obtain ⟨rfl, rfl⟩ := h
        exact ⟨n, Ts, rfl, rfl, h3, rfl⟩

theorem tensorsPop_eq {t t' : TTN} {id : Id} (h : t.tensorsPop id = some t') :
    ∃ n Ts T ts, dget t.nodes id = some n ∧ dget t.tensors id = some Ts ∧ transposeT Ts n.perm = some T ∧
      dpop (dset t.tensors id T) id = some ts ∧
      t' = { t with nodes := dset t.nodes id n.resetPermutation, tensors := ts } := by
  unfold TTN.tensorsPop at h
  cases h1 : t.access id with
  | none => simp [h1] at h
  | some r =>
    obtain ⟨t1, T⟩ := r
    obtain ⟨n, Ts, e1, e2, e3, rfl⟩ := access_eq h1
    simp only [h1, bind, Option.bind] at h
    cases h2 : dpop (dset t.tensors id T) id with
    | none => simp [h2] at h
    | some ts =>
      simp [h2] at h
      subst h
      exact ⟨n, Ts, T, ts, e1, e2, e3, h2, rfl⟩

/-! ### operations that keep the structure -/

theorem wf_of_same_struct {t t' : TTN} (h : t.WF) (hS : ∀ k, t'.S k = t.S k)
    (hT : ∀ k, t'.hasT k = t.hasT k) (hr : t'.root = t.root)
    (hnode : ∀ k n, t'.N k = some n → WFN n)
    (hfit : ∀ k n T, t'.N k = some n → dget t'.tensors k = some T → shapeOf T = n.shp) : t'.WF := by
  refine ⟨?_, hnode, hfit⟩
  have e1 : t'.S = t.S := funext hS
  have e2 : t'.hasT = t.hasT := funext hT
  rw [e1, e2, hr]
  exact h.str

/-- A plain access (`ttn.tensors[id]`, `ttn[id]`) keeps the network well-formed. -/
theorem access_wf {t t1 : TTN} {id : Id} {T : Tensor} (h : t.WF) (ha : t.access id = some (t1, T)) :
    t1.WF := by
  obtain ⟨n, Ts, e1, e2, e3, rfl⟩ := access_eq ha
  have hN : ∀ k, TTN.N { t with nodes := dset t.nodes id n.resetPermutation, tensors := dset t.tensors id T } k =
      if k = id then some n.resetPermutation else t.N k := by
    intro k; simp [TTN.N, dget_dset]
  apply wf_of_same_struct h
  · intro k
    simp only [TTN.S, hN]
    by_cases hk : k = id
    · subst hk
      have : t.N k = some n := e1
      simp [this, structOf, resetPermutation]
    · simp [hk]
  · intro k
    simp only [TTN.hasT, dhas_dset]
    by_cases hk : k = id
    · subst hk; simp [dhas_of_dget e2]
    · simp [hk]
  · rfl
  · intro k n' hk
    rw [hN] at hk
    by_cases hki : k = id
    · simp [hki] at hk; rw [← hk]; exact wfn_resetPermutation (h.node id n e1)
    · simp [hki] at hk; exact h.node k n' hk
  · intro k n' T' hk hT'
    rw [hN] at hk
    simp only [dget_dset] at hT'
    by_cases hki : k = id
    · simp [hki] at hk hT'
      rw [← hk, ← hT']
      have hs := shapeOf_transposeT e3
      rw [hs, h.fit id n Ts e1 e2]
      rfl
    · simp [hki] at hk hT'
      exact h.fit k n' T' hk hT'

/-! ### `replace_node_in_neighbours`, extensionally -/

def setParent (new : Id) (n : NodeS) : NodeS := { n with parent := some new }

theorem reparent_fold_eq (new : Id) (cs : List Id) (ns ns' : List (Id × NodeS))
    (h : cs.foldlM (fun (ns : List (Id × NodeS)) c =>
      if c ≠ new then do
        let cn ← dget ns c
        some (dset ns c { cn with parent := some new })
      else some ns) ns = some ns') :
    ∀ k, dget ns' k = if k ∈ cs ∧ k ≠ new then (dget ns k).map (setParent new) else dget ns k := by
  induction cs generalizing ns with
  | nil => simp at h; subst h; simp
  | cons c cs ih =>
    rw [List.foldlM_cons] at h
    by_cases hc : c = new
    · simp only [hc, ne_eq, not_true_eq_false, if_false, bind, Option.bind] at h
      intro k
      rw [ih ns h k]
      by_cases hk : k = new
      · simp [hk]
      · simp [hk, hc]
    · simp only [ne_eq, hc, not_false_eq_true, if_true] at h
      cases hcn : dget ns c with
      | none => simp [hcn, bind, Option.bind] at h
      | some cn =>
        simp only [hcn, bind, Option.bind] at h
        intro k
        rw [ih _ h k]
        simp only [dget_dset]
        by_cases hkc : k = c
        · subst hkc
          simp [hc, hcn, setParent]
        · by_cases hm : k ∈ cs
          · simp [hkc, hm]
          · have : ¬ (k = c ∨ k ∈ cs) := by
              intro h'; rcases h' with h' | h' <;> contradiction
            simp [hkc, hm, this]

/-- Extensional description of one successful `replace_node_in_neighbours(new, old)` with `new ≠ old`. -/
theorem rnin_eq {t t' : TTN} {new old : Id} {delOld : Bool} (hne : new ≠ old)
    (h : t.replaceNodeInNeighbours new old delOld = some t') :
    ∃ O, t.N old = some O ∧
      (∀ k, t'.N k =
        if delOld = true ∧ k = old then none
        else if O.parent = some k ∧ k ≠ new then
          ((if k ∈ O.children ∧ k ≠ new then (t.N k).map (setParent new) else t.N k).bind
            (fun pn => TTN.replaceChild pn old new))
        else if k ∈ O.children ∧ k ≠ new then (t.N k).map (setParent new) else t.N k) ∧
      t'.root = (if O.parent = none then some new else t.root) ∧
      t'.tensors = t.tensors ∧ t'.nextLabel = t.nextLabel := by
  unfold TTN.replaceNodeInNeighbours at h
  simp only [hne, if_false] at h
  cases hO : dget t.nodes old with
  | none => simp [hO, bind, Option.bind] at h
  | some O =>
    simp only [hO, bind, Option.bind] at h
    split at h
    · simp at h
    · rename_i nodes1 hfold
      have hf := reparent_fold_eq new O.children t.nodes nodes1 hfold
      refine ⟨O, hO, ?_⟩
      cases hp : O.parent with
      | none =>
        simp only [hp] at h
        cases hd : delOld with
        | false =>
          simp only [hd, Bool.false_eq_true, if_false, Option.some.injEq] at h
          subst h
          refine ⟨fun k => ?_, by simp, rfl, rfl⟩
          simp [TTN.N, hf k]
        | true =>
          simp only [hd, if_true] at h
          cases hpop : dpop nodes1 old with
          | none => simp [hpop] at h
          | some ns3 =>
            simp only [hpop, Option.some.injEq] at h
            subst h
            refine ⟨fun k => ?_, by simp, rfl, rfl⟩
            obtain ⟨_, hg⟩ := dpop_eq_some _ _ _ hpop
            simp only [TTN.N, hg k, hf k]
            by_cases hk : k = old <;> simp [hk]
      | some p =>
        simp only [hp] at h
        by_cases hpn : p = new
        · simp only [hpn, ne_eq, not_true_eq_false, if_false] at h
          cases hd : delOld with
          | false =>
            simp only [hd, Bool.false_eq_true, if_false, Option.some.injEq] at h
            subst h
            refine ⟨fun k => ?_, by simp, rfl, rfl⟩
            simp only [TTN.N, hf k]
            by_cases hk : k = new
            · simp [hk]
            · have : ¬ new = k := fun e => hk e.symm
              simp [hk, hpn, this]
          | true =>
            simp only [hd, if_true] at h
            cases hpop : dpop nodes1 old with
            | none => simp [hpop] at h
            | some ns3 =>
              simp only [hpop, Option.some.injEq] at h
              subst h
              refine ⟨fun k => ?_, by simp, rfl, rfl⟩
              obtain ⟨_, hg⟩ := dpop_eq_some _ _ _ hpop
              simp only [TTN.N, hg k, hf k]
              by_cases hk : k = old
              · simp [hk]
              · by_cases hk2 : k = new
                · simp [hk, hk2]
                · have : ¬ p = k := fun e => hk2 (e.symm.trans hpn)
                  simp [hk, hk2, this]
        · simp only [ne_eq, hpn, not_false_eq_true, if_true] at h
          cases hpn1 : dget nodes1 p with
          | none => simp [hpn1] at h
          | some pn =>
            simp only [hpn1] at h
            cases hrc : TTN.replaceChild pn old new with
            | none => simp [hrc] at h
            | some pn' =>
              simp only [hrc] at h
              have hpk : ∀ k, dget (dset nodes1 p pn') k =
                  if k = p then (dget nodes1 p).bind (fun pn => TTN.replaceChild pn old new)
                  else dget nodes1 k := by
                intro k
                rw [dget_dset]
                by_cases hk : k = p
                · simp [hk, hpn1, hrc]
                · simp [hk]
              cases hd : delOld with
              | false =>
                simp only [hd, Bool.false_eq_true, if_false, Option.some.injEq] at h
                subst h
                refine ⟨fun k => ?_, by simp, rfl, rfl⟩
                simp only [TTN.N, hpk k, hf]
                by_cases hk : k = p
                · subst hk; simp [hpn]
                · have : ¬ p = k := fun e => hk e.symm
                  simp [hk, this]
              | true =>
                simp only [hd, if_true] at h
                cases hpop : dpop (dset nodes1 p pn') old with
                | none => simp [hpop] at h
                | some ns3 =>
                  simp only [hpop, Option.some.injEq] at h
                  subst h
                  refine ⟨fun k => ?_, by simp, rfl, rfl⟩
                  obtain ⟨_, hg⟩ := dpop_eq_some _ _ _ hpop
                  simp only [TTN.N, hg k, hpk k, hf]
                  by_cases hko : k = old
                  · simp [hko]
                  · by_cases hk : k = p
                    · subst hk; simp [hko, hpn]
                    · have : ¬ p = k := fun e => hk e.symm
                      simp [hko, hk, this]

/-! ### `_data_contraction`, extensionally -/

theorem dataContraction_eq {t t' : TTN} {pid cid new : Id} {newT : Tensor} (hpc : pid ≠ cid)
    (h : t.dataContraction pid cid new = some (t', newT)) :
    ∃ P C TsP TsC LP LC idx,
      t.N pid = some P ∧ t.N cid = some C ∧ dget t.tensors pid = some TsP ∧ dget t.tensors cid = some TsC ∧
      transposeT TsP P.perm = some LP ∧ transposeT TsC C.perm = some LC ∧
      P.neighbourIndex cid = some idx ∧ tensordot1 LP LC idx 0 = some newT ∧
      (∀ k, t'.N k = if k = cid then some C.resetPermutation
                     else if k = pid then some P.resetPermutation else t.N k) ∧
      (∀ k, dget t'.tensors k = if k = new then some newT
                                else if k = pid ∨ k = cid then none else dget t.tensors k) ∧
      t'.root = t.root ∧ t'.nextLabel = t.nextLabel := by
  unfold TTN.dataContraction at h
  cases hP : dget t.nodes pid with
  | none => simp [hP, bind, Option.bind] at h
  | some P =>
    simp only [hP, bind, Option.bind] at h
    cases ha1 : t.access pid with
    | none => simp [ha1] at h
    | some r1 =>
      obtain ⟨t1, LP⟩ := r1
      simp only [ha1] at h
      obtain ⟨n1, TsP, e1, e2, e3, rfl⟩ := access_eq ha1
      rw [hP] at e1; simp at e1; subst e1
      cases ha2 : TTN.access { t with nodes := dset t.nodes pid P.resetPermutation,
                                      tensors := dset t.tensors pid LP } cid with
      | none => simp [ha2] at h
      | some r2 =>
        obtain ⟨t2, LC⟩ := r2
        simp only [ha2] at h
        obtain ⟨C, TsC, f1, f2, f3, rfl⟩ := access_eq ha2
        have hcp : cid ≠ pid := fun e => hpc e.symm
        simp only [dget_dset, hcp, if_false] at f1 f2
        cases hidx : P.neighbourIndex cid with
        | none => simp [hidx] at h
        | some idx =>
          simp only [hidx] at h
          cases htd : tensordot1 LP LC idx 0 with
          | none => simp [htd] at h
          | some nt =>
            simp only [htd] at h
            split at h
            · simp at h
            · rename_i t3 hpop1
              dsimp only at h
              split at h
              · simp at h
              · rename_i t4 hpop2
                simp only [Option.some.injEq, Prod.mk.injEq] at h
                obtain ⟨rfl, rfl⟩ := h
                obtain ⟨n3, Ts3, T3, ts3, g1, g2, g3, g4, rfl⟩ := tensorsPop_eq hpop1
                obtain ⟨n4, Ts4, T4, ts4, k1, k2, k3, k4, rfl⟩ := tensorsPop_eq hpop2
                simp only [dget_dset, hcp, hpc, if_false, if_true] at g1
                simp only [Option.some.injEq] at g1
                subst g1
                simp only [dget_dset, if_true] at k1
                simp only [hcp, if_false, Option.some.injEq] at k1
                subst k1
                refine ⟨P, C, TsP, TsC, LP, LC, idx, hP, f1, e2, f2, e3, f3, hidx, htd, ?_, ?_, rfl, rfl⟩
                · intro k
                  simp only [TTN.N, dget_dset, resetPermutation_idem]
                  by_cases hkc : k = cid
                  · simp [hkc]
                  · by_cases hkp : k = pid
                    · simp [hkp, hpc]
                    · simp [hkc, hkp]
                · intro k
                  obtain ⟨_, q3⟩ := dpop_eq_some _ _ _ g4
                  obtain ⟨_, q4⟩ := dpop_eq_some _ _ _ k4
                  simp only [dget_dset]
                  by_cases hkn : k = new
                  · simp [hkn]
                  · simp only [hkn, if_false]
                    rw [q4 k]
                    by_cases hkc : k = cid
                    · simp [hkc]
                    · simp only [hkc, if_false, dget_dset]
                      rw [q3 k]
                      by_cases hkp : k = pid
                      · simp [hkp]
                      · simp [hkp, hkc, dget_dset]

/-! ### `replace_node_in_some_neighbours`, extensionally -/

theorem rnisn_fold_eq (new old : Id) (nbs : List Id) (hnd : nbs.Nodup) (ns ns' : List (Id × NodeS))
    (h : nbs.foldlM (fun (ns : List (Id × NodeS)) nb => do
      let n ← dget ns nb
      let n' ← TTN.replaceNeighbour n old new
      some (dset ns nb n')) ns = some ns') :
    ∀ k, dget ns' k = if k ∈ nbs then (dget ns k).bind (fun n => TTN.replaceNeighbour n old new)
                      else dget ns k := by
  induction nbs generalizing ns with
  | nil => simp at h; subst h; simp
  | cons nb nbs ih =>
    rw [List.nodup_cons] at hnd
    rw [List.foldlM_cons] at h
    cases hn : dget ns nb with
    | none => simp [hn, bind, Option.bind] at h
    | some n =>
      cases hr : TTN.replaceNeighbour n old new with
      | none => simp [hn, hr, bind, Option.bind] at h
      | some n' =>
        simp only [hn, hr, bind, Option.bind] at h
        intro k
        rw [ih hnd.2 _ h k]
        simp only [dget_dset]
        by_cases hk : k = nb
        · subst hk
          simp [hnd.1, hn, hr]
        · by_cases hm : k ∈ nbs
          · simp [hk, hm]
          · simp [hk, hm]

theorem rnisn_eq {t t' : TTN} {new old : Id} {nbs : List Id} (hnd : nbs.Nodup)
    (h : t.replaceNodeInSomeNeighbours new old nbs = some t') :
    (∀ k, t'.N k = if k ∈ nbs then (t.N k).bind (fun n => TTN.replaceNeighbour n old new) else t.N k) ∧
      t'.tensors = t.tensors ∧ t'.root = t.root ∧ t'.nextLabel = t.nextLabel := by
  unfold TTN.replaceNodeInSomeNeighbours at h
  simp only [bind, Option.bind] at h
  split at h
  · simp at h
  · rename_i ns' hf
    simp only [Option.some.injEq] at h
    subst h
    exact ⟨fun k => rnisn_fold_eq new old nbs hnd _ _ hf k, rfl, rfl, rfl⟩

end Ptn.C02
