import Ptn.C03.Net
import Ptn.C03.Norm
import Ptn.C03.Model
/-! Value level for C02: the structural edits leave the dense tensor of the network unchanged.

Carrier: the valued networks `Ptn.C03.VNet` (`Ptn/C03/Net.lean`): node identifiers, per node its leg labels and its
tensor (a function of the index assignment reading only the node's legs), the binding record (one pair of leg labels
per bond) and the counter for fresh bond labels.  The leg labels of a node are the labels of the logical axes of the
C02 structural model (`Ptn/C02/TTN.lean`, `Labels.lean`: parent leg, child legs, open legs); there both ends of a
bond carry the same label, here the two ends are distinguished (a pair in the binding record) — the correspondence
check evaluates the library's `contract_nodes` against this semantics with the leg order the structural model
predicts (`harness/props/c02.py`, stream `value`).

Edits (each with its value theorem and the preservation of well-formedness):
* `contractStep`  `contract_nodes(n, m, new)`: the two tensors are replaced by their contraction over the bond that
                  joins them (`tensordot`), the bond disappears            — `contract_nodes_value`
* `splitStep`     `split_nodes` GIVEN an exact factorisation `A = Σ O · I` over a fresh bond (`SplitFact`: the
                  contract of QR, untruncated SVD, `split_node_replace`)   — `split_nodes_value`
* `permStep`      `replace_tensor(id, tensor.transpose(...), permutation)`: the labels move with the axes, the
                  tensor as a function of the labelled indices is the same — `replace_tensor_value`
* `identStep`     `insert_identity`: a bond `(x, y)` is subdivided by `δ`  — `insert_identity_value`
* `ops_preserve_value`: induction over arbitrary histories of these edits. -/
namespace Ptn.C02

open Ptn.Ein Ptn.C03

set_option linter.unusedSectionVars false
variable {R : Type} [CommSemiring R]

/-! ### contract_nodes -/

def contractStep (dim : Nat → Nat) (N : VNet R) (n m new : Nat) (p : Nat × Nat) (a b : Nat) : VNet R where
  ids := new :: (N.ids.erase n).erase m
  legs := fun k => if k = new then (N.legs n).erase a ++ (N.legs m).erase b else N.legs k
  tens := fun k => if k = new then (fun τ => sumPairs dim [p] (fun ρ => N.tens n ρ * N.tens m ρ) τ) else N.tens k
  bonds := N.bonds.erase p
  next := N.next

/-- the premises of `contract_nodes(n, m, new)`: two different nodes joined by the bond `p`; the new identifier is
one of the two or unused -/
structure ContractAdm (N : VNet R) (n m new : Nat) (p : Nat × Nat) (a b : Nat) : Prop where
  hn : n ∈ N.ids
  hm : m ∈ N.ids
  hnm : n ≠ m
  joined : N.Joined n m p a b
  hnew : new = n ∨ new = m ∨ new ∉ N.ids

theorem rest_ne_new {N : VNet R} (h : N.WF) {n m new : Nat} (hnew : new = n ∨ new = m ∨ new ∉ N.ids)
    {k : Nat} (hk : k ∈ (N.ids.erase n).erase m) : k ≠ new := by
  obtain ⟨h1, h2, h3⟩ := mem_rest h.ids_nodup hk
  rcases hnew with rfl | rfl | hx
  · exact h2
  · exact h3
  · exact fun e => hx (e ▸ h1)

/-- **`contract_nodes` leaves the dense tensor of the network unchanged.** -/
theorem contract_nodes_value (dim : Nat → Nat) {N : VNet R} (h : N.WF) {n m new : Nat} {p : Nat × Nat} {a b : Nat}
    (adm : ContractAdm N n m new p a b) (σ : Asg Nat) :
    (contractStep dim N n m new p a b).value dim σ = N.value dim σ := by
  obtain ⟨hn, hm, hnm, hj, hnew⟩ := adm
  rw [VNet.value_expose2 dim h hn hm hnm hj.1 σ]
  have hrest : ((N.ids.erase n).erase m).map (contractStep dim N n m new p a b).tens =
      ((N.ids.erase n).erase m).map N.tens := by
    apply List.map_congr_left
    intro k hk
    simp [contractStep, rest_ne_new h hnew hk]
  have hval : (contractStep dim N n m new p a b).value dim σ = netValue dim (N.bonds.erase p)
      ((fun τ => sumPairs dim [(p.1, p.2)] (fun ρ => N.tens n ρ * N.tens m ρ) τ) ::
        ((N.ids.erase n).erase m).map N.tens) σ := by
    unfold VNet.value
    show netValue dim (N.bonds.erase p)
      ((contractStep dim N n m new p a b).tens new ::
        ((N.ids.erase n).erase m).map (contractStep dim N n m new p a b).tens) σ = _
    rw [hrest]
    simp [contractStep]
  rw [hval]
  exact (split_leaf_value dim (N.bonds.erase p) _ (N.tens n) (N.tens m) _ p.1 p.2
    (S := fun l => l ≠ p.1 ∧ l ≠ p.2) (fun τ => rfl) (h.rest_not_bond hn hm hj) (by simp) (by simp) σ).symm

theorem contract_nodes_wf_value (dim : Nat → Nat) {N : VNet R} (h : N.WF) {n m new : Nat} {p : Nat × Nat} {a b : Nat}
    (adm : ContractAdm N n m new p a b) : (contractStep dim N n m new p a b).WF := by
  obtain ⟨hn, hm, hnm, hj, hnew⟩ := adm
  obtain ⟨hp, hab, ha, hb⟩ := hj
  have hpl : (p.1 = a ∧ p.2 = b) ∨ (p.1 = b ∧ p.2 = a) := by
    rcases hab with rfl | rfl <;> simp
  have hrestmem : ∀ k ∈ (N.ids.erase n).erase m, k ∈ N.ids ∧ k ≠ n ∧ k ≠ m ∧ k ≠ new :=
    fun k hk => ⟨(mem_rest h.ids_nodup hk).1, (mem_rest h.ids_nodup hk).2.1, (mem_rest h.ids_nodup hk).2.2,
      rest_ne_new h hnew hk⟩
  have hlegs_new : (contractStep dim N n m new p a b).legs new = (N.legs n).erase a ++ (N.legs m).erase b := by
    simp [contractStep]
  have hlegs_rest : ∀ k, k ≠ new → (contractStep dim N n m new p a b).legs k = N.legs k := by
    intro k hk; simp [contractStep, hk]
  have hmem_new : ∀ l, l ∈ (N.legs n).erase a ++ (N.legs m).erase b ↔
      ((l ∈ N.legs n ∧ l ≠ a) ∨ (l ∈ N.legs m ∧ l ≠ b)) := by
    intro l
    rw [List.mem_append, (h.legs_nodup n hn).mem_erase_iff, (h.legs_nodup m hm).mem_erase_iff]
    tauto
  have hids : ∀ k, k ∈ (contractStep dim N n m new p a b).ids ↔ (k = new ∨ k ∈ (N.ids.erase n).erase m) := by
    intro k; simp [contractStep]
  refine ⟨?_, ?_, ?_, ?_, ?_, ?_, ?_⟩
  · show (new :: (N.ids.erase n).erase m).Nodup
    rw [List.nodup_cons]
    exact ⟨fun hmem => (hrestmem new hmem).2.2.2 rfl, (h.ids_nodup.erase n).erase m⟩
  · intro k hk
    rcases (hids k).1 hk with rfl | hk
    · rw [hlegs_new, List.nodup_append]
      refine ⟨(h.legs_nodup n hn).erase a, (h.legs_nodup m hm).erase b, ?_⟩
      intro x hx y hy hxy
      subst hxy
      exact hnm (h.owner n hn m hm x (List.mem_of_mem_erase hx) (List.mem_of_mem_erase hy))
    · obtain ⟨h1, _, _, h4⟩ := hrestmem k hk
      rw [hlegs_rest k h4]; exact h.legs_nodup k h1
  · intro k1 hk1 k2 hk2 l hl1 hl2
    rcases (hids k1).1 hk1 with e1 | hr1 <;> rcases (hids k2).1 hk2 with e2 | hr2
    · rw [e1, e2]
    · obtain ⟨g1, g2, g3, g4⟩ := hrestmem k2 hr2
      rw [e1, hlegs_new, hmem_new] at hl1
      rw [hlegs_rest k2 g4] at hl2
      rcases hl1 with ⟨x, _⟩ | ⟨x, _⟩
      · exact absurd (h.owner k2 g1 n hn l hl2 x) g2
      · exact absurd (h.owner k2 g1 m hm l hl2 x) g3
    · obtain ⟨g1, g2, g3, g4⟩ := hrestmem k1 hr1
      rw [e2, hlegs_new, hmem_new] at hl2
      rw [hlegs_rest k1 g4] at hl1
      rcases hl2 with ⟨x, _⟩ | ⟨x, _⟩
      · exact absurd (h.owner k1 g1 n hn l hl1 x) g2
      · exact absurd (h.owner k1 g1 m hm l hl1 x) g3
    · obtain ⟨g1, _, _, g4⟩ := hrestmem k1 hr1
      obtain ⟨f1, _, _, f4⟩ := hrestmem k2 hr2
      rw [hlegs_rest k1 g4] at hl1
      rw [hlegs_rest k2 f4] at hl2
      exact h.owner k1 g1 k2 f1 l hl1 hl2
  · intro k hk
    rcases (hids k).1 hk with rfl | hk
    · have : (contractStep dim N n m k p a b).tens k =
          sumPairs dim [p] (fun ρ => N.tens n ρ * N.tens m ρ) := by simp [contractStep]
      rw [this, hlegs_new]
      have hprod : DependsOn (fun l => l ∈ N.legs n ∨ l ∈ N.legs m) (fun ρ => N.tens n ρ * N.tens m ρ) :=
        DependsOn.mul ((h.reads n hn).mono (fun l hl => Or.inl hl)) ((h.reads m hm).mono (fun l hl => Or.inr hl))
      refine (sumPairs_dependsOn dim [p] hprod).mono ?_
      intro l ⟨hl, hnot⟩
      have hne : l ≠ p.1 ∧ l ≠ p.2 := by
        simp only [Expr.pairLegs, List.map_cons, List.map_nil, List.mem_append, List.mem_cons,
          List.not_mem_nil, or_false, not_or] at hnot
        exact hnot
      have hla : l ≠ a ∧ l ≠ b := by
        rcases hpl with ⟨e1, e2⟩ | ⟨e1, e2⟩
        · rw [e1, e2] at hne; exact hne
        · rw [e1, e2] at hne; exact ⟨hne.2, hne.1⟩
      rw [hmem_new]
      rcases hl with hl | hl
      · exact Or.inl ⟨hl, hla.1⟩
      · exact Or.inr ⟨hl, hla.2⟩
    · obtain ⟨g1, _, _, g4⟩ := hrestmem k hk
      have : (contractStep dim N n m new p a b).tens k = N.tens k := by simp [contractStep, g4]
      rw [this, hlegs_rest k g4]; exact h.reads k g1
  · exact List.Nodup.of_cons (List.Nodup.of_cons (h.erase_legs hp))
  · intro p' hp'
    have hp'' : p' ∈ N.bonds := List.mem_of_mem_erase hp'
    have hne := h.erase_ne hp
    have hm' := mem_pairLegs_of_mem (show p' ∈ N.bonds.erase p from hp')
    have key : ∀ l, l ≠ p.1 ∧ l ≠ p.2 → (∃ k ∈ N.ids, l ∈ N.legs k) →
        ∃ k ∈ (contractStep dim N n m new p a b).ids, l ∈ (contractStep dim N n m new p a b).legs k := by
      intro l hl ⟨k, hk, hlk⟩
      have hla : l ≠ a ∧ l ≠ b := by
        rcases hpl with ⟨e1, e2⟩ | ⟨e1, e2⟩
        · rw [e1, e2] at hl; exact hl
        · rw [e1, e2] at hl; exact ⟨hl.2, hl.1⟩
      by_cases h1 : k = n
      · subst h1
        exact ⟨new, (hids new).2 (Or.inl rfl), by rw [hlegs_new, hmem_new]; exact Or.inl ⟨hlk, hla.1⟩⟩
      · by_cases h2 : k = m
        · subst h2
          exact ⟨new, (hids new).2 (Or.inl rfl), by rw [hlegs_new, hmem_new]; exact Or.inr ⟨hlk, hla.2⟩⟩
        · have hkr : k ∈ (N.ids.erase n).erase m :=
            ((h.ids_nodup.erase n).mem_erase_iff).2 ⟨h2, (h.ids_nodup.mem_erase_iff).2 ⟨h1, hk⟩⟩
          exact ⟨k, (hids k).2 (Or.inr hkr), by rw [hlegs_rest k (hrestmem k hkr).2.2.2]; exact hlk⟩
    exact ⟨key _ (hne _ hm'.1) (h.bonds_legs p' hp'').1, key _ (hne _ hm'.2) (h.bonds_legs p' hp'').2⟩
  · intro k hk l hl
    show l < N.next
    rcases (hids k).1 hk with rfl | hk
    · rw [hlegs_new, hmem_new] at hl
      rcases hl with ⟨x, _⟩ | ⟨x, _⟩
      · exact h.fresh n hn l x
      · exact h.fresh m hm l x
    · obtain ⟨g1, _, _, g4⟩ := hrestmem k hk
      rw [hlegs_rest k g4] at hl
      exact h.fresh k g1 l hl

/-! ### split_nodes -/

/-- the contract of the splitting function: an exact factorisation over the fresh bond `(q, r)`; the out factor
reads the out legs and `q`, the in factor `r` and the in legs -/
structure SplitFact (dim : Nat → Nat) (A : Asg Nat → R) (outLegs inLegs : List Nat) (q r : Nat) where
  O : Asg Nat → R
  I : Asg Nat → R
  exact : ∀ τ, A τ = sumPairs dim [(q, r)] (fun ρ => O ρ * I ρ) τ
  readsO : DependsOn (· ∈ outLegs ++ [q]) O
  readsI : DependsOn (· ∈ r :: inLegs) I

def splitStep (dim : Nat → Nat) (N : VNet R) (id out inn : Nat) (outLegs inLegs : List Nat)
    (F : SplitFact dim (N.tens id) outLegs inLegs N.next (N.next + 1)) : VNet R where
  ids := out :: inn :: N.ids.erase id
  legs := fun k => if k = out then outLegs ++ [N.next] else if k = inn then (N.next + 1) :: inLegs else N.legs k
  tens := fun k => if k = out then F.O else if k = inn then F.I else N.tens k
  bonds := N.bonds ++ [(N.next, N.next + 1)]
  next := N.next + 2

/-- the premises of `split_nodes`: the two leg specifications partition the legs of the node; the new identifiers
are different, each the old one or unused -/
structure SplitAdmV (N : VNet R) (id out inn : Nat) (outLegs inLegs : List Nat) : Prop where
  hid : id ∈ N.ids
  hoi : out ≠ inn
  hout : out = id ∨ out ∉ N.ids
  hinn : inn = id ∨ inn ∉ N.ids
  hperm : (outLegs ++ inLegs).Perm (N.legs id)

theorem rest1_ne {N : VNet R} (h : N.WF) {id x : Nat} (hx : x = id ∨ x ∉ N.ids) {k : Nat}
    (hk : k ∈ N.ids.erase id) : k ≠ x := by
  have h1 := (h.ids_nodup.mem_erase_iff).1 hk
  rcases hx with rfl | hx
  · exact h1.1
  · exact fun e => hx (e ▸ h1.2)

/-- **`split_nodes` with an exact factorisation leaves the dense tensor of the network unchanged.** -/
theorem split_nodes_value (dim : Nat → Nat) {N : VNet R} (h : N.WF) {id out inn : Nat} {outLegs inLegs : List Nat}
    (adm : SplitAdmV N id out inn outLegs inLegs)
    (F : SplitFact dim (N.tens id) outLegs inLegs N.next (N.next + 1)) (σ : Asg Nat) :
    (splitStep dim N id out inn outLegs inLegs F).value dim σ = N.value dim σ := by
  obtain ⟨hid, hoi, hout, hinn, hperm⟩ := adm
  rw [VNet.value_expose1 dim N hid σ]
  have hrest : (N.ids.erase id).map (splitStep dim N id out inn outLegs inLegs F).tens =
      (N.ids.erase id).map N.tens := by
    apply List.map_congr_left
    intro k hk
    simp [splitStep, rest1_ne h hout hk, rest1_ne h hinn hk]
  have hval : (splitStep dim N id out inn outLegs inLegs F).value dim σ =
      netValue dim (N.bonds ++ [(N.next, N.next + 1)]) (F.O :: F.I :: (N.ids.erase id).map N.tens) σ := by
    unfold VNet.value
    show netValue dim (N.bonds ++ [(N.next, N.next + 1)])
      ((splitStep dim N id out inn outLegs inLegs F).tens out ::
        (splitStep dim N id out inn outLegs inLegs F).tens inn ::
        (N.ids.erase id).map (splitStep dim N id out inn outLegs inLegs F).tens) σ = _
    rw [hrest]
    simp [splitStep, Ne.symm hoi]
  rw [hval]
  apply split_leaf_value dim N.bonds (N.tens id) F.O F.I _ N.next (N.next + 1) (S := fun l => l < N.next) F.exact
  · intro f hf
    obtain ⟨k, hk, rfl⟩ := List.mem_map.1 hf
    have hk' := ((h.ids_nodup.mem_erase_iff).1 hk).2
    exact (h.reads k hk').mono (fun l hl => h.fresh k hk' l hl)
  · exact Nat.lt_irrefl _
  · show ¬ (N.next + 1 < N.next); omega

theorem split_nodes_wf_value (dim : Nat → Nat) {N : VNet R} (h : N.WF) {id out inn : Nat} {outLegs inLegs : List Nat}
    (adm : SplitAdmV N id out inn outLegs inLegs)
    (F : SplitFact dim (N.tens id) outLegs inLegs N.next (N.next + 1)) :
    (splitStep dim N id out inn outLegs inLegs F).WF := by
  obtain ⟨hid, hoi, hout, hinn, hperm⟩ := adm
  have hnd : (outLegs ++ inLegs).Nodup := hperm.nodup_iff.2 (h.legs_nodup id hid)
  have hmemid : ∀ l, l ∈ N.legs id ↔ (l ∈ outLegs ∨ l ∈ inLegs) := by
    intro l; rw [← hperm.mem_iff, List.mem_append]
  have hlt_o : ∀ l ∈ outLegs, l < N.next := fun l hl => h.fresh id hid l ((hmemid l).2 (Or.inl hl))
  have hlt_i : ∀ l ∈ inLegs, l < N.next := fun l hl => h.fresh id hid l ((hmemid l).2 (Or.inr hl))
  have hrestmem : ∀ k ∈ N.ids.erase id, k ∈ N.ids ∧ k ≠ id ∧ k ≠ out ∧ k ≠ inn :=
    fun k hk => ⟨((h.ids_nodup.mem_erase_iff).1 hk).2, ((h.ids_nodup.mem_erase_iff).1 hk).1,
      rest1_ne h hout hk, rest1_ne h hinn hk⟩
  have hlo : (splitStep dim N id out inn outLegs inLegs F).legs out = outLegs ++ [N.next] := by
    simp [splitStep]
  have hli : (splitStep dim N id out inn outLegs inLegs F).legs inn = (N.next + 1) :: inLegs := by
    simp [splitStep, Ne.symm hoi]
  have hlr : ∀ k, k ≠ out → k ≠ inn → (splitStep dim N id out inn outLegs inLegs F).legs k = N.legs k := by
    intro k h1 h2; simp [splitStep, h1, h2]
  have hids : ∀ k, k ∈ (splitStep dim N id out inn outLegs inLegs F).ids ↔
      (k = out ∨ k = inn ∨ k ∈ N.ids.erase id) := by
    intro k; simp [splitStep]
  -- where an old / a new label can sit
  have hold : ∀ k, k ∈ (splitStep dim N id out inn outLegs inLegs F).ids → ∀ l,
      l ∈ (splitStep dim N id out inn outLegs inLegs F).legs k → l < N.next →
      (k = out ∧ l ∈ outLegs) ∨ (k = inn ∧ l ∈ inLegs) ∨ (k ∈ N.ids.erase id ∧ l ∈ N.legs k) := by
    intro k hk l hl hlt
    rcases (hids k).1 hk with e | e | hr
    · rw [e, hlo, List.mem_append] at hl
      rcases hl with hl | hl
      · exact Or.inl ⟨e, hl⟩
      · simp at hl; omega
    · rw [e, hli] at hl
      rcases List.mem_cons.1 hl with hl | hl
      · omega
      · exact Or.inr (Or.inl ⟨e, hl⟩)
    · obtain ⟨_, _, g3, g4⟩ := hrestmem k hr
      rw [hlr k g3 g4] at hl
      exact Or.inr (Or.inr ⟨hr, hl⟩)
  have hnew : ∀ k, k ∈ (splitStep dim N id out inn outLegs inLegs F).ids → ∀ l,
      l ∈ (splitStep dim N id out inn outLegs inLegs F).legs k → N.next ≤ l →
      (k = out ∧ l = N.next) ∨ (k = inn ∧ l = N.next + 1) := by
    intro k hk l hl hge
    rcases (hids k).1 hk with e | e | hr
    · rw [e, hlo, List.mem_append] at hl
      rcases hl with hl | hl
      · have := hlt_o l hl; omega
      · simp at hl; exact Or.inl ⟨e, hl⟩
    · rw [e, hli] at hl
      rcases List.mem_cons.1 hl with hl | hl
      · exact Or.inr ⟨e, hl⟩
      · have := hlt_i l hl; omega
    · obtain ⟨g1, _, g3, g4⟩ := hrestmem k hr
      rw [hlr k g3 g4] at hl
      have := h.fresh k g1 l hl; omega
  refine ⟨?_, ?_, ?_, ?_, ?_, ?_, ?_⟩
  · show (out :: inn :: N.ids.erase id).Nodup
    rw [List.nodup_cons, List.nodup_cons]
    refine ⟨?_, fun hmem => (hrestmem inn hmem).2.2.2 rfl, h.ids_nodup.erase id⟩
    intro hmem
    rcases List.mem_cons.1 hmem with e | hmem
    · exact hoi e
    · exact (hrestmem out hmem).2.2.1 rfl
  · intro k hk
    rcases (hids k).1 hk with e | e | hr
    · rw [e, hlo, List.nodup_append]
      refine ⟨(List.nodup_append.1 hnd).1, by simp, ?_⟩
      intro x hx y hy hxy
      simp at hy
      have := hlt_o x hx; omega
    · rw [e, hli, List.nodup_cons]
      exact ⟨fun hmem => by have := hlt_i _ hmem; omega, (List.nodup_append.1 hnd).2.1⟩
    · obtain ⟨g1, _, g3, g4⟩ := hrestmem k hr
      rw [hlr k g3 g4]; exact h.legs_nodup k g1
  · intro k1 hk1 k2 hk2 l hl1 hl2
    by_cases hlt : l < N.next
    · have hdis : ∀ x ∈ outLegs, x ∉ inLegs := fun x hx hy => (List.nodup_append.1 hnd).2.2 x hx x hy rfl
      rcases hold k1 hk1 l hl1 hlt with ⟨e1, m1⟩ | ⟨e1, m1⟩ | ⟨r1, m1⟩ <;>
        rcases hold k2 hk2 l hl2 hlt with ⟨e2, m2⟩ | ⟨e2, m2⟩ | ⟨r2, m2⟩
      · rw [e1, e2]
      · exact absurd m2 (hdis l m1)
      · obtain ⟨g1, g2, _, _⟩ := hrestmem k2 r2
        exact absurd (h.owner k2 g1 id hid l m2 ((hmemid l).2 (Or.inl m1))) g2
      · exact absurd m1 (hdis l m2)
      · rw [e1, e2]
      · obtain ⟨g1, g2, _, _⟩ := hrestmem k2 r2
        exact absurd (h.owner k2 g1 id hid l m2 ((hmemid l).2 (Or.inr m1))) g2
      · obtain ⟨g1, g2, _, _⟩ := hrestmem k1 r1
        exact absurd (h.owner k1 g1 id hid l m1 ((hmemid l).2 (Or.inl m2))) g2
      · obtain ⟨g1, g2, _, _⟩ := hrestmem k1 r1
        exact absurd (h.owner k1 g1 id hid l m1 ((hmemid l).2 (Or.inr m2))) g2
      · exact h.owner k1 (hrestmem k1 r1).1 k2 (hrestmem k2 r2).1 l m1 m2
    · rcases hnew k1 hk1 l hl1 (by omega) with ⟨e1, m1⟩ | ⟨e1, m1⟩ <;>
        rcases hnew k2 hk2 l hl2 (by omega) with ⟨e2, m2⟩ | ⟨e2, m2⟩
      · rw [e1, e2]
      · omega
      · omega
      · rw [e1, e2]
  · intro k hk
    rcases (hids k).1 hk with e | e | hr
    · have : (splitStep dim N id out inn outLegs inLegs F).tens out = F.O := by simp [splitStep]
      rw [e, this, hlo]; exact F.readsO
    · have : (splitStep dim N id out inn outLegs inLegs F).tens inn = F.I := by simp [splitStep, Ne.symm hoi]
      rw [e, this, hli]; exact F.readsI
    · obtain ⟨g1, _, g3, g4⟩ := hrestmem k hr
      have : (splitStep dim N id out inn outLegs inLegs F).tens k = N.tens k := by simp [splitStep, g3, g4]
      rw [this, hlr k g3 g4]; exact h.reads k g1
  · show (Expr.pairLegs (N.bonds ++ [(N.next, N.next + 1)])).Nodup
    rw [(Expr.pairLegs_append _ _).nodup_iff, List.nodup_append]
    refine ⟨h.bonds_nodup, by simp [Expr.pairLegs], ?_⟩
    intro x hx y hy hxy
    subst hxy
    have := h.bond_lt x hx
    simp [Expr.pairLegs] at hy
    omega
  · intro p' hp'
    have key : ∀ l, (∃ k ∈ N.ids, l ∈ N.legs k) →
        ∃ k ∈ (splitStep dim N id out inn outLegs inLegs F).ids,
          l ∈ (splitStep dim N id out inn outLegs inLegs F).legs k := by
      intro l ⟨k, hk, hlk⟩
      by_cases h1 : k = id
      · subst h1
        rcases (hmemid l).1 hlk with ho | hi
        · exact ⟨out, (hids out).2 (Or.inl rfl), by rw [hlo]; exact List.mem_append_left _ ho⟩
        · exact ⟨inn, (hids inn).2 (Or.inr (Or.inl rfl)), by rw [hli]; exact List.mem_cons_of_mem _ hi⟩
      · have hkr : k ∈ N.ids.erase id := (h.ids_nodup.mem_erase_iff).2 ⟨h1, hk⟩
        obtain ⟨_, _, g3, g4⟩ := hrestmem k hkr
        exact ⟨k, (hids k).2 (Or.inr (Or.inr hkr)), by rw [hlr k g3 g4]; exact hlk⟩
    rcases List.mem_append.1 hp' with hp' | hp'
    · exact ⟨key _ (h.bonds_legs p' hp').1, key _ (h.bonds_legs p' hp').2⟩
    · simp only [List.mem_cons, List.not_mem_nil, or_false] at hp'
      subst hp'
      exact ⟨⟨out, (hids out).2 (Or.inl rfl), by rw [hlo]; simp⟩,
        ⟨inn, (hids inn).2 (Or.inr (Or.inl rfl)), by rw [hli]; simp⟩⟩
  · intro k hk l hl
    show l < N.next + 2
    by_cases hlt : l < N.next
    · omega
    · rcases hnew k hk l hl (by omega) with ⟨_, e⟩ | ⟨_, e⟩ <;> omega

/-! ### replace_tensor with a permutation -/

/-- `replace_tensor(id, tensor.transpose(…), permutation)`: the labels move with the axes — the order of the legs of
the node changes, the tensor as a function of the labelled indices does not -/
def permStep (N : VNet R) (id : Nat) (legs' : List Nat) : VNet R :=
  { N with legs := fun k => if k = id then legs' else N.legs k }

theorem replace_tensor_value (dim : Nat → Nat) (N : VNet R) (id : Nat) (legs' : List Nat) (σ : Asg Nat) :
    (permStep N id legs').value dim σ = N.value dim σ := rfl

theorem replace_tensor_wf_value {N : VNet R} (h : N.WF) {id : Nat} {legs' : List Nat}
    (hperm : legs'.Perm (N.legs id)) : (permStep N id legs').WF := by
  have hm : ∀ k l, l ∈ (permStep N id legs').legs k ↔ l ∈ N.legs k := by
    intro k l
    by_cases hk : k = id
    · subst hk; simp [permStep, hperm.mem_iff]
    · simp [permStep, hk]
  refine ⟨h.ids_nodup, ?_, ?_, ?_, h.bonds_nodup, ?_, ?_⟩
  · intro k hk
    by_cases hkid : k = id
    · subst hkid
      have : (permStep N k legs').legs k = legs' := by simp [permStep]
      rw [this]; exact hperm.nodup_iff.2 (h.legs_nodup k hk)
    · have : (permStep N id legs').legs k = N.legs k := by simp [permStep, hkid]
      rw [this]; exact h.legs_nodup k hk
  · intro k1 hk1 k2 hk2 l h1 h2
    exact h.owner k1 hk1 k2 hk2 l ((hm k1 l).1 h1) ((hm k2 l).1 h2)
  · intro k hk
    exact (h.reads k hk).mono (fun l hl => (hm k l).2 hl)
  · intro p hp
    obtain ⟨⟨k1, hk1, hl1⟩, ⟨k2, hk2, hl2⟩⟩ := h.bonds_legs p hp
    exact ⟨⟨k1, hk1, (hm k1 _).2 hl1⟩, ⟨k2, hk2, (hm k2 _).2 hl2⟩⟩
  · intro k hk l hl
    exact h.fresh k hk l ((hm k l).1 hl)

/-! ### insert_identity -/

/-- subdividing a bond by the identity matrix does not change the value -/
theorem insert_identity_net (dim : Nat → Nat) (bs : List (Nat × Nat)) (rest : List (Asg Nat → R))
    (x y i1 i2 : Nat) {S : Nat → Prop} (hrest : ∀ f ∈ rest, DependsOn S f) (h1 : ¬ S i1) (h2 : ¬ S i2)
    (h12 : i1 ≠ i2) (h1y : i1 ≠ y) (hd : dim i2 = dim x) (σ : Asg Nat) :
    netValue dim ((bs ++ [(x, i1)]) ++ [(i2, y)])
      ((fun ρ => if ρ i1 = ρ i2 then (1 : R) else 0) :: rest) σ = netValue dim (bs ++ [(x, y)]) rest σ := by
  unfold netValue
  rw [sumPairs_append, sumPairs_append, sumPairs_append]
  apply sumPairs_congr
  intro τ
  have hP := prodL_dependsOn rest hrest
  simp only [sumPairs]
  rw [hd, ← delta_sum (dim x) (fun u v => prodL (rest.map (fun f => f (upd (upd τ x u) y v))))]
  unfold sumR
  congr 1
  apply List.map_congr_left
  intro u _
  congr 1
  apply List.map_congr_left
  intro v _
  have e1 : upd (upd (upd (upd τ x u) i1 u) i2 v) y v i1 = u := by simp [upd, h12, h1y]
  have e2 : upd (upd (upd (upd τ x u) i1 u) i2 v) y v i2 = v := by
    by_cases h : i2 = y <;> simp [upd, h]
  simp only [List.map_cons, prodL, e1, e2]
  congr 1
  apply hP
  intro l hl
  have g1 : l ≠ i1 := fun e => h1 (e ▸ hl)
  have g2 : l ≠ i2 := fun e => h2 (e ▸ hl)
  simp [upd, g1, g2]

def identStep (N : VNet R) (p : Nat × Nat) (new : Nat) : VNet R where
  ids := new :: N.ids
  legs := fun k => if k = new then [N.next, N.next + 1] else N.legs k
  tens := fun k => if k = new then (fun ρ => if ρ N.next = ρ (N.next + 1) then 1 else 0) else N.tens k
  bonds := (N.bonds.erase p ++ [(p.1, N.next)]) ++ [(N.next + 1, p.2)]
  next := N.next + 2

/-- **`insert_identity` leaves the dense tensor of the network unchanged** (the identity has the dimension of the
subdivided bond). -/
theorem insert_identity_value (dim : Nat → Nat) {N : VNet R} (h : N.WF) {p : Nat × Nat} {new : Nat}
    (hp : p ∈ N.bonds) (hnew : new ∉ N.ids) (hdim : dim (N.next + 1) = dim p.1) (σ : Asg Nat) :
    (identStep N p new).value dim σ = N.value dim σ := by
  have hpm := mem_pairLegs_of_mem hp
  have hlt := h.bond_lt
  have hold : N.value dim σ = netValue dim (N.bonds.erase p ++ [(p.1, p.2)]) (N.ids.map N.tens) σ := by
    unfold VNet.value
    exact netValue_perm_bonds dim ((List.perm_cons_erase hp).trans (List.perm_append_comm (l₁ := [p])))
      h.bonds_nodup _ σ
  have hmap : N.ids.map (identStep N p new).tens = N.ids.map N.tens := by
    apply List.map_congr_left
    intro k hk
    have : k ≠ new := fun e => hnew (e ▸ hk)
    simp [identStep, this]
  rw [hold]
  unfold VNet.value
  show netValue dim ((N.bonds.erase p ++ [(p.1, N.next)]) ++ [(N.next + 1, p.2)])
    ((identStep N p new).tens new :: N.ids.map (identStep N p new).tens) σ = _
  rw [hmap]
  have : (identStep N p new).tens new = fun ρ => if ρ N.next = ρ (N.next + 1) then (1 : R) else 0 := by
    simp [identStep]
  rw [this]
  apply insert_identity_net dim (N.bonds.erase p) _ p.1 p.2 N.next (N.next + 1) (S := fun l => l < N.next)
  · intro f hf
    obtain ⟨k, hk, rfl⟩ := List.mem_map.1 hf
    exact (h.reads k hk).mono (fun l hl => h.fresh k hk l hl)
  · exact Nat.lt_irrefl _
  · show ¬ (N.next + 1 < N.next); omega
  · omega
  · have := hlt _ hpm.2; omega
  · exact hdim

theorem insert_identity_wf_value {N : VNet R} (h : N.WF) {p : Nat × Nat} {new : Nat}
    (hp : p ∈ N.bonds) (hnew : new ∉ N.ids) : (identStep N p new).WF := by
  have hpm := mem_pairLegs_of_mem hp
  have hlt := h.bond_lt
  have hln : (identStep N p new).legs new = [N.next, N.next + 1] := by simp [identStep]
  have hlo : ∀ k ∈ N.ids, (identStep N p new).legs k = N.legs k := by
    intro k hk
    have : k ≠ new := fun e => hnew (e ▸ hk)
    simp [identStep, this]
  have hids : ∀ k, k ∈ (identStep N p new).ids ↔ (k = new ∨ k ∈ N.ids) := by
    intro k; simp [identStep]
  refine ⟨?_, ?_, ?_, ?_, ?_, ?_, ?_⟩
  · show (new :: N.ids).Nodup
    exact List.nodup_cons.2 ⟨hnew, h.ids_nodup⟩
  · intro k hk
    rcases (hids k).1 hk with e | hk
    · rw [e, hln]; simp
    · rw [hlo k hk]; exact h.legs_nodup k hk
  · intro k1 hk1 k2 hk2 l h1 h2
    rcases (hids k1).1 hk1 with e1 | g1 <;> rcases (hids k2).1 hk2 with e2 | g2
    · rw [e1, e2]
    · rw [e1, hln] at h1
      rw [hlo k2 g2] at h2
      have := h.fresh k2 g2 l h2
      simp at h1; omega
    · rw [e2, hln] at h2
      rw [hlo k1 g1] at h1
      have := h.fresh k1 g1 l h1
      simp at h2; omega
    · rw [hlo k1 g1] at h1
      rw [hlo k2 g2] at h2
      exact h.owner k1 g1 k2 g2 l h1 h2
  · intro k hk
    rcases (hids k).1 hk with e | hk
    · have : (identStep N p new).tens new = fun ρ => if ρ N.next = ρ (N.next + 1) then (1 : R) else 0 := by
        simp [identStep]
      rw [e, this, hln]
      intro σ τ hst
      show (if σ N.next = σ (N.next + 1) then (1 : R) else 0) = if τ N.next = τ (N.next + 1) then 1 else 0
      rw [hst N.next (by simp), hst (N.next + 1) (by simp)]
    · have hne : k ≠ new := fun e => hnew (e ▸ hk)
      have : (identStep N p new).tens k = N.tens k := by simp [identStep, hne]
      rw [this, hlo k hk]; exact h.reads k hk
  · show (Expr.pairLegs ((N.bonds.erase p ++ [(p.1, N.next)]) ++ [(N.next + 1, p.2)])).Nodup
    have hperm : (Expr.pairLegs ((N.bonds.erase p ++ [(p.1, N.next)]) ++ [(N.next + 1, p.2)])).Perm
        ((p.1 :: p.2 :: Expr.pairLegs (N.bonds.erase p)) ++ [N.next, N.next + 1]) := by
      refine (Expr.pairLegs_append _ _).trans ?_
      refine (List.Perm.append_right _ (Expr.pairLegs_append _ _)).trans ?_
      simp only [Expr.pairLegs, List.map_cons, List.map_nil, List.cons_append, List.nil_append,
        List.append_assoc]
      -- (E1 ++ E2) ++ [p.1, next] ++ [next+1, p.2]  ~  p.1 :: p.2 :: (E1 ++ E2) ++ [next, next+1]
      have : ∀ (E : List Nat) (a b c d : Nat),
          (E ++ ([a, c] ++ [d, b])).Perm (a :: b :: (E ++ [c, d])) := by
        intro E a b c d
        have h1 : (E ++ ([a, c] ++ [d, b])).Perm (([a, c] ++ [d, b]) ++ E) := List.perm_append_comm
        refine h1.trans ?_
        have h2 : (a :: b :: (E ++ [c, d])).Perm (a :: b :: ([c, d] ++ E)) :=
          (List.perm_append_comm).cons _ |>.cons _
        refine List.Perm.trans ?_ h2.symm
        simp only [List.cons_append, List.nil_append]
        refine List.Perm.cons _ ?_
        -- c :: d :: b :: E ~ b :: c :: d :: E
        exact ((List.perm_middle (l₁ := [c, d]) (a := b) (l₂ := E))).trans (List.Perm.refl _)
      have := this (List.map Prod.fst (N.bonds.erase p) ++ List.map Prod.snd (N.bonds.erase p)) p.1 p.2 N.next (N.next + 1)
      simpa [List.append_assoc] using this
    rw [hperm.nodup_iff, List.nodup_append]
    refine ⟨h.erase_legs hp, by simp, ?_⟩
    intro x hx y hy hxy
    subst hxy
    have hx' : x ∈ Expr.pairLegs N.bonds := by
      rw [(pairLegs_perm (List.perm_cons_erase hp)).mem_iff, (pairLegs_cons_perm p _).mem_iff]
      exact hx
    have := hlt x hx'
    simp at hy
    omega
  · intro p' hp'
    have key : ∀ l, (∃ k ∈ N.ids, l ∈ N.legs k) →
        ∃ k ∈ (identStep N p new).ids, l ∈ (identStep N p new).legs k := by
      intro l ⟨k, hk, hlk⟩
      exact ⟨k, (hids k).2 (Or.inr hk), by rw [hlo k hk]; exact hlk⟩
    have hnew1 : ∃ k ∈ (identStep N p new).ids, N.next ∈ (identStep N p new).legs k :=
      ⟨new, (hids new).2 (Or.inl rfl), by rw [hln]; simp⟩
    have hnew2 : ∃ k ∈ (identStep N p new).ids, N.next + 1 ∈ (identStep N p new).legs k :=
      ⟨new, (hids new).2 (Or.inl rfl), by rw [hln]; simp⟩
    have hp'2 : p' ∈ N.bonds.erase p ∨ p' = (p.1, N.next) ∨ p' = (N.next + 1, p.2) := by
      have : p' ∈ (N.bonds.erase p ++ [(p.1, N.next)]) ++ [(N.next + 1, p.2)] := hp'
      simp only [List.mem_append, List.mem_cons, List.not_mem_nil, or_false] at this
      tauto
    rcases hp'2 with hp' | rfl | rfl
    · have hp'' := List.mem_of_mem_erase hp'
      exact ⟨key _ (h.bonds_legs p' hp'').1, key _ (h.bonds_legs p' hp'').2⟩
    · exact ⟨key _ (h.bonds_legs p hp).1, hnew1⟩
    · exact ⟨hnew2, key _ (h.bonds_legs p hp).2⟩
  · intro k hk l hl
    show l < N.next + 2
    rcases (hids k).1 hk with e | hk
    · rw [e, hln] at hl; simp at hl; omega
    · rw [hlo k hk] at hl
      have := h.fresh k hk l hl; omega

/-! ### histories -/

/-- one admissible structural edit at the value level -/
inductive VStep (dim : Nat → Nat) : VNet R → VNet R → Prop
  | contract {N : VNet R} {n m new : Nat} {p : Nat × Nat} {a b : Nat} (adm : ContractAdm N n m new p a b) :
      VStep dim N (contractStep dim N n m new p a b)
  | split {N : VNet R} {id out inn : Nat} {outLegs inLegs : List Nat} (adm : SplitAdmV N id out inn outLegs inLegs)
      (F : SplitFact dim (N.tens id) outLegs inLegs N.next (N.next + 1)) :
      VStep dim N (splitStep dim N id out inn outLegs inLegs F)
  | perm {N : VNet R} {id : Nat} {legs' : List Nat} (hperm : legs'.Perm (N.legs id)) :
      VStep dim N (permStep N id legs')
  | ident {N : VNet R} {p : Nat × Nat} {new : Nat} (hp : p ∈ N.bonds) (hnew : new ∉ N.ids)
      (hdim : dim (N.next + 1) = dim p.1) : VStep dim N (identStep N p new)

inductive VRun (dim : Nat → Nat) : VNet R → VNet R → Prop
  | nil (N : VNet R) : VRun dim N N
  | cons {N N₁ N₂ : VNet R} : VStep dim N N₁ → VRun dim N₁ N₂ → VRun dim N N₂

theorem vstep_value (dim : Nat → Nat) {N N' : VNet R} (h : N.WF) (hs : VStep dim N N') :
    N'.WF ∧ ∀ σ, N'.value dim σ = N.value dim σ := by
  cases hs with
  | contract adm => exact ⟨contract_nodes_wf_value dim h adm, contract_nodes_value dim h adm⟩
  | split adm F => exact ⟨split_nodes_wf_value dim h adm F, split_nodes_value dim h adm F⟩
  | perm hperm => exact ⟨replace_tensor_wf_value h hperm, replace_tensor_value dim _ _ _⟩
  | ident hp hnew hdim => exact ⟨insert_identity_wf_value h hp hnew, insert_identity_value dim h hp hnew hdim⟩

/-- **Every admissible history of structural edits leaves the dense tensor of the network unchanged** (and keeps
the valued network well-formed): contractions, splits with exact factorisations, tensor replacements with a
permutation, identity insertions, in any order and number. -/
theorem ops_preserve_value (dim : Nat → Nat) {N N' : VNet R} (h : N.WF) (hr : VRun dim N N') :
    N'.WF ∧ ∀ σ, N'.value dim σ = N.value dim σ := by
  induction hr with
  | nil N => exact ⟨h, fun _ => rfl⟩
  | cons hs _ ih =>
    obtain ⟨h1, v1⟩ := vstep_value dim h hs
    obtain ⟨h2, v2⟩ := ih h1
    exact ⟨h2, fun σ => (v2 σ).trans (v1 σ)⟩

end Ptn.C02
