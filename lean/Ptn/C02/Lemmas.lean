import Ptn.C02.Model
/-! Helper lemmas for C02, part 1 (the Node machine).  Core Lean only. -/
namespace Ptn.C02

/-! ### Python list primitives on segmented lists -/

theorem insertIdx_append_len (A B : List Nat) (v : Nat) :
    (A ++ B).insertIdx A.length v = A ++ v :: B := by
  induction A with
  | nil => simp
  | cons a A ih => simp [List.insertIdx_succ_cons, ih]

theorem pyInsert_append_len (A B : List Nat) (v : Nat) :
    pyInsert (A ++ B) A.length v = A ++ v :: B := by
  unfold pyInsert
  have : min A.length (A ++ B).length = A.length := by simp
  rw [this, insertIdx_append_len]

theorem pyInsert_zero (l : List Nat) (v : Nat) : pyInsert l 0 v = v :: l := by
  simp [pyInsert]

theorem eraseIdx_append_len (A B : List Nat) (v : Nat) :
    (A ++ v :: B).eraseIdx A.length = A ++ B := by
  induction A with
  | nil => simp
  | cons a A ih => simp [ih]

theorem getElem?_append_len (A B : List Nat) (v : Nat) :
    (A ++ v :: B)[A.length]? = some v := by
  induction A with
  | nil => simp
  | cons a A ih => simp

theorem pyPop_append_len (A B : List Nat) (v : Nat) :
    pyPop (A ++ v :: B) A.length = some (v, A ++ B) := by
  simp [pyPop, eraseIdx_append_len]

theorem pyPop_eq_some {l : List Nat} {i v : Nat} {r : List Nat} (h : pyPop l i = some (v, r)) :
    ∃ A B, l = A ++ v :: B ∧ A.length = i ∧ r = A ++ B := by
  unfold pyPop at h
  split at h
  · rename_i w hw
    simp only [Option.some.injEq, Prod.mk.injEq] at h
    obtain ⟨rfl, rfl⟩ := h
    have hi : i < l.length := (List.getElem?_eq_some_iff.mp hw).1
    have hv : l[i] = w := (List.getElem?_eq_some_iff.mp hw).2
    refine ⟨l.take i, l.drop (i + 1), ?_, ?_, ?_⟩
    · rw [← hv, List.getElem_cons_drop hi, List.take_append_drop]
    · simp; omega
    · exact List.eraseIdx_eq_take_drop_succ l i
  · simp at h

theorem pyPop_eq_none {l : List Nat} {i : Nat} : pyPop l i = none ↔ l.length ≤ i := by
  unfold pyPop
  split
  · rename_i w hw
    have hi : i < l.length := (List.getElem?_eq_some_iff.mp hw).1
    simp; omega
  · rename_i hw
    simp at hw
    simp [hw]

/-- `n` pops at index `|A|` take the slice `V` out of `A ++ V ++ B`. -/
theorem popMany_append (A V B : List Nat) :
    popMany (A ++ V ++ B) A.length V.length = some (V, A ++ B) := by
  induction V generalizing B with
  | nil => simp [popMany]
  | cons v V ih =>
    have h1 : A ++ v :: V ++ B = A ++ v :: (V ++ B) := by simp
    have h2 : pyPop (A ++ v :: (V ++ B)) A.length = some (v, A ++ (V ++ B)) := pyPop_append_len _ _ _
    have h3 : A ++ (V ++ B) = A ++ V ++ B := by simp
    simp only [List.length_cons, popMany, h1, h2, h3, ih]

theorem popMany_eq_some {l : List Nat} {i n : Nat} {vs r : List Nat}
    (h : popMany l i n = some (vs, r)) :
    vs.length = n ∧ (n = 0 ∨ ∃ A B, l = A ++ vs ++ B ∧ A.length = i ∧ r = A ++ B) ∧
      (n = 0 → r = l) := by
  induction n generalizing l vs r with
  | zero =>
    simp [popMany] at h
    obtain ⟨rfl, rfl⟩ := h
    simp
  | succ n ih =>
    simp only [popMany] at h
    split at h
    · simp at h
    · rename_i v l' hp
      split at h
      · simp at h
      · rename_i vs' l'' hm
        simp only [Option.some.injEq, Prod.mk.injEq] at h
        obtain ⟨rfl, rfl⟩ := h
        obtain ⟨A, B, rfl, hA, rfl⟩ := pyPop_eq_some hp
        obtain ⟨hlen, hdec, hzero⟩ := ih hm
        refine ⟨by simp [hlen], Or.inr ?_, by simp⟩
        rcases hdec with hn | ⟨A', B', hl, hA', hr⟩
        · subst hn
          have := hzero rfl
          subst this
          have : vs' = [] := by simpa using hlen
          subst this
          exact ⟨A, B, by simp, hA, rfl⟩
        · -- A ++ B = A' ++ vs' ++ B' with |A| = |A'| = i
          have hAA : A = A' := by
            have := congrArg (List.take i) hl
            rw [List.take_left' hA, List.append_assoc, List.take_left' hA'] at this
            exact this
          subst hAA
          have hB : B = vs' ++ B' := by
            have := hl
            rw [List.append_assoc] at this
            exact List.append_cancel_left this
          subst hB
          exact ⟨A, B', by simp, hA, hr⟩

theorem mapM_option_length {α β : Type} (f : α → Option β) :
    ∀ (l : List α) (r : List β), l.mapM f = some r → r.length = l.length := by
  intro l
  induction l with
  | nil => intro r h; simp at h; subst h; rfl
  | cons a l ih =>
    intro r h
    rw [List.mapM_cons] at h
    cases hfa : f a with
    | none => simp [hfa] at h
    | some b =>
      cases hl : l.mapM f with
      | none => simp [hfa, hl] at h
      | some r' =>
        simp [hfa, hl] at h
        subst h
        simp [ih r' hl]

/-! ### Well-formedness of a node and validity of arguments -/

/-- The Node-level invariant of property C02: the stored permutation is a permutation of the axes,
    the stored shape has one entry per axis, and there is a leg for every neighbour. -/
structure WFN (s : NodeS) : Prop where
  perm : s.perm.Perm (List.range s.perm.length)
  shp : s.shp.length = s.perm.length
  virt : s.nvirt ≤ s.perm.length

/-- Side conditions under which a *successful* call must preserve `WFN`: a tensor is linked only
    if it has a leg per neighbour; the `permutation` argument of `replace_tensor` is a permutation;
    `open_legs_to_children` is not asked to turn one leg into two children. -/
def NodeOp.Valid (s : NodeS) : NodeOp → Prop
  | .link sh => s.nvirt ≤ sh.length
  | .replaceTensor _ (some p) => p.Perm (List.range p.length)
  | .o2cs d => (d.map Prod.snd).Nodup
  | _ => True

/-- Runs of the Node machine with valid arguments. -/
inductive NodeRun : NodeS → List NodeOp → NodeS → Prop
  | nil (s : NodeS) : NodeRun s [] s
  | cons {s s1 s' : NodeS} {op : NodeOp} {ops : List NodeOp} :
      op.Valid s → s.step op = some s1 → NodeRun s1 ops s' → NodeRun s (op :: ops) s'

theorem perm_range_of_perm {l l' : List Nat} (h : l'.Perm l) (hl : l.Perm (List.range l.length)) :
    l'.Perm (List.range l'.length) := by
  rw [h.length_eq]
  exact h.trans hl

theorem perm_middle_append (A B : List Nat) (v : Nat) : (A ++ v :: B).Perm (v :: (A ++ B)) :=
  List.perm_middle

theorem pyInsert_perm (l : List Nat) (i v : Nat) : (pyInsert l i v).Perm (v :: l) := by
  unfold pyInsert
  exact List.perm_insertIdx v l (Nat.min_le_right _ _)

theorem pyInsert_length (l : List Nat) (i v : Nat) : (pyInsert l i v).length = l.length + 1 :=
  (pyInsert_perm l i v).length_eq

/-! ### `WFN` is preserved, method by method -/

namespace NodeS

theorem nvirt_le_of_wfn {s : NodeS} (h : WFN s) : s.nvirt ≤ s.nlegs := h.virt

theorem nparents_none {s : NodeS} (h : s.parent = none) : s.nparents = 0 := by simp [nparents, h]
theorem nparents_some {s : NodeS} {p : Id} (h : s.parent = some p) : s.nparents = 1 := by
  simp [nparents, h]
theorem nparents_le (s : NodeS) : s.nparents ≤ 1 := by unfold nparents; split <;> omega
theorem nparents_congr {s s' : NodeS} (h : s'.parent = s.parent) : s'.nparents = s.nparents := by
  simp [nparents, h]
theorem nvirt_congr {s s' : NodeS} (hp : s'.parent = s.parent) (hc : s'.children = s.children) :
    s'.nvirt = s.nvirt := by
  simp [nvirt, nchildren, nparents_congr hp, hc]
theorem nvirt_def (s : NodeS) : s.nvirt = s.nparents + s.children.length := rfl

theorem shape_length (s : NodeS) : s.shape.length = s.perm.length := by simp [shape]

theorem wfn_linkTensor {s : NodeS} (sh : List Nat) (hv : s.nvirt ≤ sh.length) :
    WFN (s.linkTensor sh) := by
  refine ⟨?_, ?_, ?_⟩
  · simp [linkTensor]
  · simp [linkTensor]
  · have : (s.linkTensor sh).nvirt = s.nvirt := nvirt_congr rfl rfl
    rw [this]; simpa [linkTensor] using hv

theorem wfn_resetPermutation {s : NodeS} (h : WFN s) : WFN s.resetPermutation := by
  refine ⟨?_, ?_, ?_⟩
  · simp [resetPermutation]
  · simp [resetPermutation, shape]
  · have h1 : s.resetPermutation.nvirt = s.nvirt := nvirt_congr rfl rfl
    have h2 := h.virt
    rw [h1]; simpa [resetPermutation] using h2

theorem permuteIterator_length {it p sh : List Nat} (h : permuteIterator it p = some sh) :
    sh.length = p.length ∧ it.length = p.length := by
  unfold permuteIterator at h
  split at h
  · simp at h
  · rename_i hl
    exact ⟨mapM_option_length _ _ _ h, by simpa using hl⟩

theorem wfn_replaceTensor {s s' : NodeS} (h : WFN s) (sh : List Nat) (p : Option (List Nat))
    (hv : NodeOp.Valid s (.replaceTensor sh p)) (hs : s.replaceTensor sh p = some s') : WFN s' := by
  unfold replaceTensor at hs
  cases p with
  | none =>
    simp only at hs
    split at hs
    · simp only [Option.some.injEq] at hs; subst hs; exact wfn_resetPermutation h
    · simp at hs
  | some p =>
    simp only at hs
    split at hs
    · simp at hs
    · rename_i sh' hpi
      split at hs
      · rename_i heq
        simp only [Option.some.injEq] at hs
        subst hs
        obtain ⟨h1, h2⟩ := permuteIterator_length hpi
        have h3 : p.length = s.perm.length := by rw [← h1, heq, shape_length]
        refine ⟨hv, by simpa using h2, ?_⟩
        have h4 := h.virt
        have h5 : ({ s with perm := p, shp := sh } : NodeS).nvirt = s.nvirt := nvirt_congr rfl rfl
        rw [h5]; simpa [h3] using h4
      · simp at hs

theorem wfn_of_perm {s s' : NodeS} (h : WFN s) (hp : s'.perm.Perm s.perm) (hs : s'.shp = s.shp)
    (hv : s'.nvirt ≤ s'.perm.length) : WFN s' :=
  ⟨perm_range_of_perm hp h.perm, by rw [hs, h.shp, hp.length_eq], hv⟩

theorem openLegChecks_true {s : NodeS} {k : Nat} (h : s.openLegChecks k = true) :
    s.nlegs ≠ s.nvirt ∧ s.nvirt ≤ k := by
  unfold openLegChecks at h
  split at h
  · simp at h
  · split at h
    · simp at h
    · constructor <;> omega

theorem wfn_openLegToParent {s s' : NodeS} (h : WFN s) (pid : Id) (k : Option Nat)
    (hs : s.openLegToParent pid k = some s') : WFN s' := by
  unfold openLegToParent at hs
  split at hs
  · simp at hs
  · rename_i hroot
    cases k with
    | none => simp only [Option.some.injEq] at hs; subst hs; exact h
    | some k =>
      simp only at hs
      split at hs
      · simp at hs
      · rename_i hc
        simp only [Bool.not_eq_true, Bool.not_eq_false'] at hc
        obtain ⟨hne, _⟩ := openLegChecks_true hc
        split at hs
        · simp at hs
        · rename_i v rest hp
          simp only [Option.some.injEq] at hs
          subst hs
          obtain ⟨A, B, hl, _, rfl⟩ := pyPop_eq_some hp
          have hperm : (pyInsert (A ++ B) 0 v).Perm s.perm := by
            rw [hl]; exact (pyInsert_perm _ _ _).trans (perm_middle_append A B v).symm
          refine wfn_of_perm h hperm rfl ?_
          have hr : s.parent = none := by
            simp [isRoot] at hroot; exact hroot
          have hv := h.virt
          rw [hperm.length_eq]
          have h0 := nparents_none hr
          have h1 : ({ s with perm := pyInsert (A ++ B) 0 v, parent := some pid } : NodeS).nparents = 1 :=
            nparents_some rfl
          simp only [nlegs, nvirt_def] at hne hv ⊢
          rw [h1]
          simp only [h0] at hne hv
          omega

theorem wfn_openLegToChild {s s' : NodeS} (h : WFN s) (cid : Id) (k : Nat)
    (hs : s.openLegToChild cid k = some s') : WFN s' := by
  unfold openLegToChild at hs
  split at hs
  · simp at hs
  · rename_i hc
    simp only [Bool.not_eq_true, Bool.not_eq_false'] at hc
    obtain ⟨hne, _⟩ := openLegChecks_true hc
    split at hs
    · simp at hs
    · rename_i v rest hp
      simp only [Option.some.injEq] at hs
      subst hs
      obtain ⟨A, B, hl, _, rfl⟩ := pyPop_eq_some hp
      have hperm : (pyInsert (A ++ B) (s.nparents + s.nchildren) v).Perm s.perm := by
        rw [hl]; exact (pyInsert_perm _ _ _).trans (perm_middle_append A B v).symm
      refine wfn_of_perm h hperm rfl ?_
      have hv := h.virt
      rw [hperm.length_eq]
      have h1 : ({ s with perm := pyInsert (A ++ B) (s.nparents + s.nchildren) v,
                          children := s.children ++ [cid] } : NodeS).nparents = s.nparents :=
        nparents_congr rfl
      simp only [nlegs, nvirt_def] at hne hv ⊢
      rw [h1]
      simp
      omega

/-! #### `open_legs_to_children` -/

theorem o2csStep_some {nn : Nat} {st st' : NodeS} {e : Id × Nat × Nat}
    (h : o2csStep nn st e = some st') :
    nn ≤ e.2.1 ∧ st'.perm.Perm st.perm ∧ st'.shp = st.shp ∧ st'.parent = st.parent ∧
      st'.children = st.children ++ [e.1] := by
  obtain ⟨cid, k, v⟩ := e
  simp only [o2csStep] at h
  split at h
  · simp at h
  · rename_i hk
    split at h
    · simp at h
    · rename_i hmem
      simp only [Option.some.injEq] at h
      subst h
      have hv : v ∈ st.perm := by simpa using hmem
      refine ⟨by simpa using hk, ?_, rfl, rfl, rfl⟩
      exact (pyInsert_perm _ _ _).trans (List.perm_cons_erase hv).symm

theorem o2cs_fold {nn : Nat} (vals : List (Id × Nat × Nat)) {st st' : NodeS}
    (h : vals.foldlM (o2csStep nn) st = some st') :
    (∀ e ∈ vals, nn ≤ e.2.1) ∧ st'.perm.Perm st.perm ∧ st'.shp = st.shp ∧ st'.parent = st.parent ∧
      st'.children = st.children ++ vals.map (·.1) := by
  induction vals generalizing st with
  | nil => simp at h; subst h; simp
  | cons e vals ih =>
    rw [List.foldlM_cons] at h
    cases hstep : o2csStep nn st e with
    | none => simp [hstep] at h
    | some st1 =>
      simp [hstep] at h
      obtain ⟨h1, h2, h3, h4, h5⟩ := o2csStep_some hstep
      obtain ⟨g1, g2, g3, g4, g5⟩ := ih h
      refine ⟨?_, g2.trans h2, g3.trans h3, g4.trans h4, ?_⟩
      · intro e' he'
        rcases List.mem_cons.mp he' with rfl | hm
        · exact h1
        · exact g1 e' hm
      · rw [g5, h5]; simp

theorem o2cs_read {perm : List Nat} (d : List (Id × Nat)) {vals : List (Id × Nat × Nat)}
    (h : d.mapM (fun (e : Id × Nat) => (perm[e.2]?).map (fun v => (e.1, e.2, v))) = some vals) :
    vals.map (fun t => (t.1, t.2.1)) = d ∧ ∀ t ∈ vals, perm[t.2.1]? = some t.2.2 := by
  induction d generalizing vals with
  | nil => simp at h; subst h; simp
  | cons e d ih =>
    rw [List.mapM_cons] at h
    cases hv : perm[e.2]? with
    | none => simp [hv] at h
    | some v =>
      cases hd : d.mapM (fun (e : Id × Nat) => (perm[e.2]?).map (fun v => (e.1, e.2, v))) with
      | none => simp [hv, hd] at h
      | some vals' =>
        simp [hv, hd] at h
        subst h
        obtain ⟨i1, i2⟩ := ih hd
        refine ⟨by simp [i1], ?_⟩
        intro t ht
        rcases List.mem_cons.mp ht with rfl | hm
        · simpa using hv
        · exact i2 t hm

theorem wfn_openLegsToChildren {s s' : NodeS} (h : WFN s) (d : List (Id × Nat))
    (hv : (d.map Prod.snd).Nodup) (hs : s.openLegsToChildren d = some s') : WFN s' := by
  unfold openLegsToChildren at hs
  split at hs
  · simp at hs
  · rename_i vals hread
    obtain ⟨r1, r2⟩ := o2cs_read d hread
    obtain ⟨f1, f2, f3, f4, f5⟩ := o2cs_fold vals hs
    refine wfn_of_perm h f2 f3 ?_
    rw [f2.length_eq]
    have hlen : vals.length = d.length := by rw [← r1]; simp
    have hnv : s'.nvirt = s.nvirt + d.length := by
      simp only [nvirt_def, nparents_congr f4, f5, List.length_append, List.length_map, hlen]
      omega
    rw [hnv]
    -- pigeonhole: the distinct legs all lie in [nvirt, nlegs)
    have hsub : d.map Prod.snd ⊆ List.range' s.nvirt (s.perm.length - s.nvirt) := by
      intro k hk
      have hk' : k ∈ vals.map (fun t => t.2.1) := by
        have : d.map Prod.snd = vals.map (fun t => t.2.1) := by rw [← r1]; simp
        rw [← this]; exact hk
      obtain ⟨t, ht, rfl⟩ := List.mem_map.mp hk'
      have h1 := f1 t ht
      have h2 := r2 t ht
      have h3 : t.2.1 < s.perm.length := (List.getElem?_eq_some_iff.mp h2).1
      simp only [List.mem_range'_1]
      omega
    have := hv.length_le_of_subset hsub
    have hvirt := h.virt
    simp at this
    omega

/-! #### legs back to open legs -/

theorem wfn_parentLegToOpenLeg {s s' : NodeS} (h : WFN s) (hs : s.parentLegToOpenLeg = some s') :
    WFN s' := by
  unfold parentLegToOpenLeg at hs
  split at hs
  · split at hs
    · simp at hs
    · rename_i v rest hp
      simp only [Option.some.injEq] at hs
      subst hs
      obtain ⟨A, B, hl, _, rfl⟩ := pyPop_eq_some hp
      have hperm : (A ++ B ++ [v]).Perm s.perm := by
        rw [hl]
        exact List.perm_append_comm.trans (perm_middle_append A B v).symm
      refine wfn_of_perm h hperm rfl ?_
      rw [hperm.length_eq]
      have hv := h.virt
      have h0 : ({ s with perm := A ++ B ++ [v], parent := none } : NodeS).nparents = 0 := nparents_none rfl
      simp only [nvirt_def] at hv ⊢
      rw [h0]
      show 0 + s.children.length ≤ _
      omega
  · simp only [Option.some.injEq] at hs
    subst hs
    refine wfn_of_perm h (List.Perm.refl _) rfl ?_
    have hv := h.virt
    have h0 : ({ s with parent := none } : NodeS).nparents = 0 := nparents_none rfl
    simp only [nvirt_def] at hv ⊢
    rw [h0]
    show 0 + s.children.length ≤ s.perm.length
    omega

theorem childLegToOpenLeg_some {s s' : NodeS} {cid : Id} (hs : s.childLegToOpenLeg cid = some s') :
    cid ∈ s.children ∧ s'.perm.Perm s.perm ∧ s'.shp = s.shp ∧ s'.parent = s.parent ∧
      s'.children = s.children.erase cid := by
  unfold childLegToOpenLeg at hs
  split at hs
  · simp at hs
  · rename_i hmem
    split at hs
    · simp at hs
    · rename_i index _
      split at hs
      · simp at hs
      · rename_i v rest hp
        simp only [Option.some.injEq] at hs
        subst hs
        obtain ⟨A, B, hl, _, rfl⟩ := pyPop_eq_some hp
        refine ⟨by simpa using hmem, ?_, rfl, rfl, rfl⟩
        show (A ++ B ++ [v]).Perm s.perm
        rw [hl]
        exact List.perm_append_comm.trans (perm_middle_append A B v).symm

theorem wfn_childLegToOpenLeg {s s' : NodeS} (h : WFN s) (cid : Id)
    (hs : s.childLegToOpenLeg cid = some s') : WFN s' := by
  obtain ⟨h1, h2, h3, h4, h5⟩ := childLegToOpenLeg_some hs
  refine wfn_of_perm h h2 h3 ?_
  rw [h2.length_eq]
  have hv := h.virt
  simp only [nvirt_def, nparents_congr h4, h5] at hv ⊢
  rw [List.length_erase_of_mem h1]
  omega

theorem wfn_childrenLegsToOpenLegs {s s' : NodeS} (h : WFN s) (cs : List Id)
    (hs : s.childrenLegsToOpenLegs cs = some s') : WFN s' := by
  unfold childrenLegsToOpenLegs at hs
  induction cs generalizing s with
  | nil => simp at hs; subst hs; exact h
  | cons c cs ih =>
    rw [List.foldlM_cons] at hs
    cases h1 : s.childLegToOpenLeg c with
    | none => simp [h1] at hs
    | some s1 =>
      simp [h1] at hs
      exact ih (wfn_childLegToOpenLeg h c h1) hs

/-! #### `exchange_open_leg_ranges` -/

theorem popMany_perm {l : List Nat} {i n : Nat} {vs r : List Nat}
    (h : popMany l i n = some (vs, r)) : (vs ++ r).Perm l := by
  obtain ⟨hlen, hdec, hzero⟩ := popMany_eq_some h
  rcases hdec with hn | ⟨A, B, rfl, _, rfl⟩
  · subst hn
    have : vs = [] := by simpa using hlen
    subst this
    rw [hzero rfl]
    exact List.Perm.refl _
  · have : (vs ++ (A ++ B)) = (vs ++ A) ++ B := by simp
    rw [this]
    exact List.Perm.append_right B List.perm_append_comm

theorem sliceInsert_perm (l : List Nat) (p : Nat) (vs : List Nat) :
    (sliceInsert l p vs).Perm (vs ++ l) := by
  unfold sliceInsert
  have h1 : (l.take p ++ vs ++ l.drop p).Perm (vs ++ l.take p ++ l.drop p) :=
    List.Perm.append_right _ List.perm_append_comm
  have h2 : vs ++ l.take p ++ l.drop p = vs ++ l := by
    rw [List.append_assoc, List.take_append_drop]
  rw [h2] at h1
  exact h1

theorem exchangeCore_some {s s' : NodeS} {s1 e1 s2 e2 : Nat}
    (hs : s.exchangeCore s1 e1 s2 e2 = some s') :
    s'.perm.Perm s.perm ∧ s'.shp = s.shp ∧ s'.parent = s.parent ∧ s'.children = s.children := by
  unfold exchangeCore at hs
  split at hs
  · simp at hs
  · split at hs
    · simp at hs
    · rename_i values2 l1 hp2
      split at hs
      · simp at hs
      · rename_i values1 l2 hp1
        simp only [Option.some.injEq] at hs
        subst hs
        refine ⟨?_, rfl, rfl, rfl⟩
        have q2 := popMany_perm hp2
        have q1 := popMany_perm hp1
        refine (sliceInsert_perm _ _ _).trans ?_
        refine (List.Perm.append_left _ (sliceInsert_perm _ _ _)).trans ?_
        have h3 : (values1 ++ (values2 ++ l2)).Perm (values2 ++ (values1 ++ l2)) := by
          rw [← List.append_assoc, ← List.append_assoc]
          exact List.Perm.append_right _ List.perm_append_comm
        exact h3.trans ((List.Perm.append_left _ q1).trans q2)

theorem exchangeOpenLegRanges_some {s s' : NodeS} {a0 a1 b0 b1 : Nat}
    (hs : s.exchangeOpenLegRanges a0 a1 b0 b1 = some s') :
    s'.perm.Perm s.perm ∧ s'.shp = s.shp ∧ s'.parent = s.parent ∧ s'.children = s.children := by
  unfold exchangeOpenLegRanges at hs
  split at hs <;> exact exchangeCore_some hs

theorem wfn_exchangeOpenLegRanges {s s' : NodeS} (h : WFN s) (a0 a1 b0 b1 : Nat)
    (hs : s.exchangeOpenLegRanges a0 a1 b0 b1 = some s') : WFN s' := by
  obtain ⟨h1, h2, h3, h4⟩ := exchangeOpenLegRanges_some hs
  refine wfn_of_perm h h1 h2 ?_
  rw [h1.length_eq, nvirt_congr h3 h4]
  exact h.virt

/-! #### `swap_two_child_legs` -/

theorem set_perm_cons (t : List Nat) (j a : Nat) (h : j < t.length) :
    (t[j] :: t.set j a).Perm (a :: t) := by
  induction t generalizing j with
  | nil => simp at h
  | cons b t ih =>
    cases j with
    | zero => simpa using List.Perm.swap a b t
    | succ j =>
      have hj : j < t.length := by simpa using h
      have := ih j hj
      simp only [List.getElem_cons_succ, List.set_cons_succ]
      exact (List.Perm.swap b t[j] _).trans ((this.cons b).trans (List.Perm.swap a b t))

theorem set_set_perm (l : List Nat) (i j : Nat) (hi : i < l.length) (hj : j < l.length) :
    ((l.set i l[j]).set j l[i]).Perm l := by
  induction l generalizing i j with
  | nil => simp at hi
  | cons b l ih =>
    cases i with
    | zero =>
      cases j with
      | zero => simp
      | succ j =>
        have hj' : j < l.length := by simpa using hj
        simpa using set_perm_cons l j b hj'
    | succ i =>
      have hi' : i < l.length := by simpa using hi
      cases j with
      | zero =>
        have := set_perm_cons l i b hi'
        simpa using this
      | succ j =>
        have hj' : j < l.length := by simpa using hj
        simpa using (ih i j hi' hj').cons b

theorem wfn_swapTwoChildLegs {s s' : NodeS} (h : WFN s) (c1 c2 : Id)
    (hs : s.swapTwoChildLegs c1 c2 = some s') : WFN s' := by
  unfold swapTwoChildLegs at hs
  split at hs
  · simp at hs
  · split at hs
    · simp at hs
    · split at hs
      · simp only [Option.some.injEq] at hs; subst hs; exact h
      · simp only at hs
        split at hs
        · rename_i v1 v2 h1 h2
          simp only [Option.some.injEq] at hs
          subst hs
          obtain ⟨hj1, e1⟩ := List.getElem?_eq_some_iff.mp h1
          obtain ⟨hj2, e2⟩ := List.getElem?_eq_some_iff.mp h2
          have hperm := set_set_perm s.perm _ _ hj1 hj2
          rw [e1, e2] at hperm
          refine wfn_of_perm h hperm rfl ?_
          rw [hperm.length_eq]
          have hv := h.virt
          simp only [nvirt_def] at hv ⊢
          have h0 : ({ s with children := (s.children.set (s.children.idxOf c1) c2).set (s.children.idxOf c2) c1,
                              perm := (s.perm.set (s.children.idxOf c1 + s.nparents) v2).set
                                (s.children.idxOf c2 + s.nparents) v1 } : NodeS).nparents = s.nparents :=
            nparents_congr rfl
          rw [h0]
          simpa using hv
        · simp at hs

/-- Every method of the Node machine keeps the invariant (for valid arguments, on success). -/
theorem wfn_step {s s' : NodeS} (h : WFN s) (op : NodeOp) (hv : op.Valid s)
    (hs : s.step op = some s') : WFN s' := by
  cases op with
  | link sh => simp only [step, Option.some.injEq] at hs; subst hs; exact wfn_linkTensor sh hv
  | reset => simp only [step, Option.some.injEq] at hs; subst hs; exact wfn_resetPermutation h
  | replaceTensor sh p => exact wfn_replaceTensor h sh p hv hs
  | o2p pid k => exact wfn_openLegToParent h pid k hs
  | o2c cid k => exact wfn_openLegToChild h cid k hs
  | o2cs d => exact wfn_openLegsToChildren h d hv hs
  | p2o => exact wfn_parentLegToOpenLeg h hs
  | c2o cid => exact wfn_childLegToOpenLeg h cid hs
  | cs2o cs => exact wfn_childrenLegsToOpenLegs h cs hs
  | xch a0 a1 b0 b1 => exact wfn_exchangeOpenLegRanges h a0 a1 b0 b1 hs
  | swap c1 c2 => exact wfn_swapTwoChildLegs h c1 c2 hs

end NodeS

end Ptn.C02
