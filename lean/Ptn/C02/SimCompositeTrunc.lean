import Ptn.C02.SimComposite
import Ptn.C10.Value
/-! Value level, part 3 (continued): the per-child step of `truncate_node` — `insert_projection_operator_and_conjugate`
(`TTN.insertProjectors`: `insert_identity` on the bond, then the identity node is split into the projector pair).  At the
value level the split is NOT a factorisation of the identity: the identity is REPLACED by `Π = P·Pc` (the local update),
and the pair is an exact factorisation of `Π` — `Π` is the matrix `Ptn.C10.projMat` of `Ptn.C10.projector_matrix_value`. -/
namespace Ptn.C02
open NodeS Ptn.Ein Ptn.C03

set_option linter.unusedSectionVars false
set_option linter.unusedVariables false
variable {R : Type} [CommSemiring R]

theorem insertProjectors_of_steps {t t1 t' : TTN} {n c : Id} {ids : TTN.TempIds} {k : Nat}
    (h1 : t.step (.ident c n (ids.ident c)) = some t1)
    (h2 : t1.step (.split (ids.ident c) ⟨some n, [], [], false⟩ ⟨none, [c], [], false⟩ (ids.star c) (ids.proj c) k)
      = some t') :
    t.insertProjectors n c ids k = some t' := by
  simp only [TTN.step] at h1 h2
  unfold TTN.insertProjectors
  simp [h1, h2, bind, Option.bind]

/-- the tensor a split factorises is the matrix product of the two factors over the new bond (`Ptn.C10.projMat`) -/
theorem splitFact_projMat {dim : Nat → Nat} {A : Asg Nat → R} {o i : List Nat} {q r : Nat}
    (F : SplitFact dim A o i q r) : A = Ptn.C10.projMat dim F.O F.I q r := funext F.exact

/-- the value-level image of an identity insertion carries the identity matrix on its two fresh legs -/
theorem simrun_ident_tens {dim : Nat → Nat} {e : Label → Nat} {t t1 : TTN} {g g1 : LegMap} {v v1 : VNet R}
    {c n i : Id} (hr : SimRun dim e t g v [.ident c n i] t1 g1 v1) :
    v1.tens i = (fun ρ => if ρ v.next = ρ (v.next + 1) then 1 else 0) ∧ v1.next = v.next + 2 := by
  cases hr with
  | cons _ hst hr1 =>
    cases hr1
    cases hst with
    | ident _ _ _ _ => simp [simIdent, reLeg, identStep]

/-- **`insert_projection_operator_and_conjugate(c, n, projector)` at the value level** (the per-child step of
`truncate_node`).  The history: `insert_identity(c, n)` giving the intermediate network `v1`, which has the value of the
network before and carries the IDENTITY matrix at the new node `i` on the two fresh legs `(v.next, v.next + 1)`; the
identity is replaced by any two-leg tensor `Π` on the same legs; `split_nodes(i)` into the conjugated projector (next to
`n`) and the projector (next to `c`) with an exact factorisation of `Π` over the new bond of the kept dimension `k` — so
`Π = projMat P Pc` (`splitFact_projMat`), the matrix of `Ptn.C10.projector_matrix_value`.  Then: the history is the
composite edit `insertProjectors`; **the value after it is the value of the network with `Π` on the bond in place of the
identity**; if `Π` is the identity on the bond (nothing discarded) the value is unchanged. -/
theorem truncate_node_value (dim : Nat → Nat) (e : Label → Nat) {t t1 t' : TTN} {g g1 g' : LegMap}
    {v v1 v' : VNet R} {n c : Id} {ids : TTN.TempIds} {k : Nat} {Pi : Asg Nat → R}
    (h : t.WF) (hl : t.LWF) (hv : v.WF) (hs : RSim dim e g t v)
    (hr1 : SimRun dim e t g v [.ident c n (ids.ident c)] t1 g1 v1)
    (hPi : DependsOn (· ∈ v1.legs (ids.ident c)) Pi)
    (hr2 : SimRun dim e t1 g1 (setTens v1 (ids.ident c) Pi)
      [.split (ids.ident c) ⟨some n, [], [], false⟩ ⟨none, [c], [], false⟩ (ids.star c) (ids.proj c) k] t' g' v') :
    t.insertProjectors n c ids k = some t' ∧ t'.WF ∧ t'.LWF ∧ v'.WF ∧ RSim dim e g' t' v' ∧
    v1.WF ∧ (∀ σ, v1.value dim σ = v.value dim σ) ∧
    v1.tens (ids.ident c) = (fun ρ => if ρ v.next = ρ (v.next + 1) then 1 else 0) ∧
    (∀ σ, v'.value dim σ = (setTens v1 (ids.ident c) Pi).value dim σ) ∧
    (Pi = v1.tens (ids.ident c) → ∀ σ, v'.value dim σ = v.value dim σ) := by
  obtain ⟨run1, _, w1, l1, vw1, s1, _, val1⟩ := structural_history_preserves_value dim e h hl hv hs hr1
  obtain ⟨run2, _, w2, l2, vw2, s2, _, val2⟩ :=
    structural_history_preserves_value dim e w1 l1 (setTens_wf vw1 hPi) (s1.setTens _ Pi) hr2
  refine ⟨insertProjectors_of_steps (trun_one run1) (trun_one run2), w2, l2, vw2, s2, vw1, val1,
    (simrun_ident_tens hr1).1, val2, ?_⟩
  intro hX σ
  rw [val2 σ, hX, setTens_self, val1 σ]

/-- the factorisation used by the split of `truncate_node_value` exhibits `Π` as `projMat P Pc` over the new bond -/
theorem truncate_node_projMat {dim : Nat → Nat} {e : Label → Nat} {t1 t' : TTN} {g1 g' : LegMap} {v1 v' : VNet R}
    {i s p : Id} {k : Nat} {oL iL : TTN.LegSpec} {Pi : Asg Nat → R}
    (hr2 : SimRun dim e t1 g1 (setTens v1 i Pi) [.split i oL iL s p k] t' g' v') :
    ∃ P Pc : Asg Nat → R, Pi = Ptn.C10.projMat dim P Pc v1.next (v1.next + 1) ∧ dim v1.next = k ∧
      dim (v1.next + 1) = k := by
  cases hr2 with
  | cons _ hst hr1 =>
    cases hr1
    cases hst with
    | split F _ hd =>
      refine ⟨F.O, F.I, ?_, hd.1, hd.2⟩
      have := splitFact_projMat F
      simpa [setTens] using this

end Ptn.C02
