import Ptn.C02.SimHistory
import Ptn.C02.CompositeWF
/-! Value level, part 3: the COMPOSITE edits of `Composite.lean` (`centreMove`, `contractSplit`, `linkUpdate`,
`twoSiteUpdate`) as simulated histories of their basic steps.

* `setTens` — the one value-level step that is NOT value preserving: the tensor of one node is replaced (the local
  update of a TDVP step: the link tensor / two-site tensor / site tensor is evolved and stored back).  The abstraction
  relation `RSim` does not mention tensors, so it is kept (`RSim.setTens`); well-formedness is kept when the new tensor
  reads only the legs of its node (`setTens_wf`).
* `*_of_steps` — a run of the basic steps of a composite edit IS the composite edit (the model function returns the same
  state).
* `centre_move_preserves_value`, `contract_split_preserves_value` — no local update: the value is unchanged.
* `link_update_value`, `two_site_update_value` — the value after the edit is the value of the intermediate network (which
  has the value of the network before) with the tensor of the temporary node replaced. -/
namespace Ptn.C02
open NodeS Ptn.Ein Ptn.C03

set_option linter.unusedSectionVars false
set_option linter.unusedVariables false
variable {R : Type} [CommSemiring R]

/-- the tensor of node `k` replaced by `X` (legs, bonds, identifiers unchanged) -/
def setTens (N : VNet R) (k : Nat) (X : Asg Nat → R) : VNet R :=
  { N with tens := fun j => if j = k then X else N.tens j }

theorem setTens_self (N : VNet R) (k : Nat) : setTens N k (N.tens k) = N := by
  unfold setTens
  have : (fun j => if j = k then N.tens k else N.tens j) = N.tens := by
    funext j; by_cases hj : j = k <;> simp [hj]
  rw [this]

theorem setTens_wf {N : VNet R} (h : N.WF) {k : Nat} {X : Asg Nat → R} (hX : DependsOn (· ∈ N.legs k) X) :
    (setTens N k X).WF := by
  refine ⟨h.ids_nodup, h.legs_nodup, h.owner, ?_, h.bonds_nodup, h.bonds_legs, h.fresh⟩
  intro n hn
  show DependsOn (· ∈ N.legs n) (if n = k then X else N.tens n)
  by_cases hnk : n = k
  · subst hnk; simpa using hX
  · simpa [hnk] using h.reads n hn

theorem RSim.setTens {dim : Nat → Nat} {e : Label → Nat} {g : LegMap} {t : TTN} {v : VNet R}
    (hs : RSim dim e g t v) (k : Nat) (X : Asg Nat → R) : RSim dim e g t (setTens v k X) :=
  ⟨hs.ids, hs.legs, hs.dimV, hs.dimO, hs.bondsIn, hs.bondsOut⟩

/-! ### runs of the basic steps are the composite edits -/

theorem trun_two {t t' : TTN} {o1 o2 : TOp} (hr : TRun t [o1, o2] t') :
    ∃ t1, t.step o1 = some t1 ∧ t1.step o2 = some t' := by
  cases hr with
  | cons _ h1 hr1 =>
    cases hr1 with
    | cons _ h2 hr2 =>
      cases hr2
      exact ⟨_, h1, h2⟩

theorem trun_one {t t' : TTN} {o1 : TOp} (hr : TRun t [o1] t') : t.step o1 = some t' := by
  cases hr with
  | cons _ h1 hr1 =>
    cases hr1
    exact h1

theorem centreMove_of_steps {t t1 t' : TTN} {a b rid : Id} {bd : Nat} {node : NodeS} {q r : TTN.LegSpec}
    (hn : t.N a = some node) (hsp : TTN.canonSpecs node b = some (q, r))
    (h1 : t.step (.split a q r a rid bd) = some t1) (h2 : t1.step (.contract b rid b) = some t') :
    t.centreMove a b rid bd = some t' := by
  have hn' : dget t.nodes a = some node := hn
  simp only [TTN.step] at h1 h2
  unfold TTN.centreMove
  simp [hn', hsp, h1, h2, bind, Option.bind]

theorem contractSplit_of_steps {t t1 t' : TTN} {a b ts : Id} {bd : Nat} {u w : TTN.LegSpec}
    (hsp : t.legsBeforeCombination a b = some (u, w))
    (h1 : t.step (.contract a b ts) = some t1) (h2 : t1.step (.split ts u w a b bd) = some t') :
    t.contractSplit a b ts bd = some t' := by
  simp only [TTN.step] at h1 h2
  unfold TTN.contractSplit
  simp [hsp, h1, h2, bind, Option.bind]

theorem linkUpdate_of_steps {t t1 t2 t' : TTN} {a b link : Id} {bd : Nat} {node : NodeS} {q r : TTN.LegSpec}
    (hn : t.N a = some node) (hsp : TTN.tdvpSpecs node b = some (q, r))
    (h1 : t.step (.split a q r a link bd) = some t1) (h2 : t1.step (.access link) = some t2)
    (h3 : t2.step (.contract link b b) = some t') :
    t.linkUpdate a b link bd = some t' := by
  have hn' : dget t.nodes a = some node := hn
  obtain ⟨T, ha⟩ := step_access_eq h2
  simp only [TTN.step] at h1 h3
  unfold TTN.linkUpdate
  simp [hn', hsp, h1, ha, h3, bind, Option.bind]

theorem twoSiteUpdate_of_steps {t t1 t2 t' : TTN} {a b ts : Id} {bd : Nat} {u w : TTN.LegSpec}
    (hsp : t.legsBeforeCombination a b = some (u, w))
    (h1 : t.step (.contract a b ts) = some t1) (h2 : t1.step (.access ts) = some t2)
    (h3 : t2.step (.split ts u w a b bd) = some t') :
    t.twoSiteUpdate a b ts bd = some t' := by
  obtain ⟨T, ha⟩ := step_access_eq h2
  simp only [TTN.step] at h1 h3
  unfold TTN.twoSiteUpdate
  simp [hsp, h1, ha, h3, bind, Option.bind]

/-- a successful access is an access to a node of the network -/
theorem access_node_mem {dim : Nat → Nat} {e : Label → Nat} {g : LegMap} {t t1 : TTN} {v : VNet R} {id : Id}
    (hs : RSim dim e g t v) (h : t.step (.access id) = some t1) : id ∈ v.ids := by
  obtain ⟨T, ha⟩ := step_access_eq h
  obtain ⟨n, Ts, e1, _⟩ := access_eq ha
  have hn : t.N id = some n := e1
  exact (hs.ids id).2 (by rw [hn]; simp)

/-! ### the composite edits without a local update -/

/-- **Centre move** `split_qr_contract_r_to_neighbour(a, b)` at the value level.  Hypothesis: the simulated history of
its two basic steps — `split_nodes(a)` along the leg specifications of `_build_qr_leg_specs` WITH AN EXACT FACTORISATION
(the contract of the QR routine: the `SplitFact` carried by `SimStep.split`), then `contract_nodes(b, r, new = b)`.
Then: the history is the composite edit of the structural model (`centreMove` returns `t'`), all invariants hold after
it, the valued network stays related to the structural state, and **the value of the network is unchanged**. -/
theorem centre_move_preserves_value (dim : Nat → Nat) (e : Label → Nat) {t t' : TTN} {g g' : LegMap}
    {v v' : VNet R} {a b rid : Id} {bd : Nat} {node : NodeS} {q r : TTN.LegSpec}
    (h : t.WF) (hl : t.LWF) (hv : v.WF) (hs : RSim dim e g t v)
    (hn : t.N a = some node) (hsp : TTN.canonSpecs node b = some (q, r))
    (hr : SimRun dim e t g v [.split a q r a rid bd, .contract b rid b] t' g' v') :
    t.centreMove a b rid bd = some t' ∧ t'.WF ∧ t'.LWF ∧ v'.WF ∧ RSim dim e g' t' v' ∧
    ∀ σ, v'.value dim σ = v.value dim σ := by
  obtain ⟨run, _, w, l, vw, s, _, val⟩ := structural_history_preserves_value dim e h hl hv hs hr
  obtain ⟨t1, h1, h2⟩ := trun_two run
  exact ⟨centreMove_of_steps hn hsp h1 h2, w, l, vw, s, val⟩

/-- **`contract_and_split_with_parent(a, b)`** at the value level: `contract_nodes(a, b, new = ts)` then
`split_nodes(ts)` along `legs_before_combination(a, b)` with an exact factorisation (for the truncated SVD: exact on the
kept part — the truncation itself is the replacement treated in `two_site_update_value`).  The value is unchanged. -/
theorem contract_split_preserves_value (dim : Nat → Nat) (e : Label → Nat) {t t' : TTN} {g g' : LegMap}
    {v v' : VNet R} {a b ts : Id} {bd : Nat} {u w : TTN.LegSpec}
    (h : t.WF) (hl : t.LWF) (hv : v.WF) (hs : RSim dim e g t v)
    (hsp : t.legsBeforeCombination a b = some (u, w))
    (hr : SimRun dim e t g v [.contract a b ts, .split ts u w a b bd] t' g' v') :
    t.contractSplit a b ts bd = some t' ∧ t'.WF ∧ t'.LWF ∧ v'.WF ∧ RSim dim e g' t' v' ∧
    ∀ σ, v'.value dim σ = v.value dim σ := by
  obtain ⟨run, _, w', l, vw, s, _, val⟩ := structural_history_preserves_value dim e h hl hv hs hr
  obtain ⟨t1, h1, h2⟩ := trun_two run
  exact ⟨contractSplit_of_steps hsp h1 h2, w', l, vw, s, val⟩

/-! ### the composite edits with a local update -/

/-- **One-site TDVP link update** `_update_link(a, b)` at the value level.  The history: `split_nodes(a)` along the
specifications of `_split_updated_site` with an exact factorisation (QR), giving the intermediate network `v1` whose node
`link` carries the link tensor `X = v1.tens link`; the link tensor is read, evolved to ANY tensor `X'` on the same legs
and stored back; `contract_nodes(link, b, new = b)`.  Then: the history is the composite edit; the intermediate network
has the value of the network before; and **the value after the edit is the value of the intermediate network with `X`
replaced by `X'`** — the two networks differ in that leaf only.  In particular (`X' = X`) without evolution the value is
unchanged. -/
theorem link_update_value (dim : Nat → Nat) (e : Label → Nat) {t t1 t' : TTN} {g g1 g' : LegMap}
    {v v1 v' : VNet R} {a b link : Id} {bd : Nat} {node : NodeS} {q r : TTN.LegSpec} {X' : Asg Nat → R}
    (h : t.WF) (hl : t.LWF) (hv : v.WF) (hs : RSim dim e g t v)
    (hn : t.N a = some node) (hsp : TTN.tdvpSpecs node b = some (q, r))
    (hr1 : SimRun dim e t g v [.split a q r a link bd] t1 g1 v1)
    (hX' : DependsOn (· ∈ v1.legs link) X')
    (hr2 : SimRun dim e t1 g1 (setTens v1 link X') [.access link, .contract link b b] t' g' v') :
    t.linkUpdate a b link bd = some t' ∧ t'.WF ∧ t'.LWF ∧ v'.WF ∧ RSim dim e g' t' v' ∧
    link ∈ v1.ids ∧ v1.WF ∧ (∀ σ, v1.value dim σ = v.value dim σ) ∧
    (∀ σ, v'.value dim σ = (setTens v1 link X').value dim σ) ∧
    (X' = v1.tens link → ∀ σ, v'.value dim σ = v.value dim σ) := by
  obtain ⟨run1, _, w1, l1, vw1, s1, _, val1⟩ := structural_history_preserves_value dim e h hl hv hs hr1
  obtain ⟨run2, _, w2, l2, vw2, s2, _, val2⟩ :=
    structural_history_preserves_value dim e w1 l1 (setTens_wf vw1 hX') (s1.setTens link X') hr2
  have h1 := trun_one run1
  obtain ⟨t2, h2, h3⟩ := trun_two run2
  refine ⟨linkUpdate_of_steps hn hsp h1 h2 h3, w2, l2, vw2, s2, access_node_mem s1 h2, vw1, val1, val2, ?_⟩
  intro hX σ
  rw [val2 σ, hX, setTens_self, val1 σ]

/-- **Two-site TDVP update** `_update_two_site_nodes(a, b)` at the value level.  The history: `contract_nodes(a, b,
new = ts)`, giving the intermediate network `v1` whose node `ts` carries the two-site tensor `X = v1.tens ts`; the tensor
is read, evolved (and truncated) to ANY tensor `X'` on the same legs and stored back; `split_nodes(ts)` along
`legs_before_combination(a, b)` with an exact factorisation OF `X'` (SVD of the stored tensor).  Then: the history is the
composite edit; the intermediate network has the value of the network before; **the value after the edit is the value of
the intermediate network with `X` replaced by `X'`**. -/
theorem two_site_update_value (dim : Nat → Nat) (e : Label → Nat) {t t1 t' : TTN} {g g1 g' : LegMap}
    {v v1 v' : VNet R} {a b ts : Id} {bd : Nat} {u w : TTN.LegSpec} {X' : Asg Nat → R}
    (h : t.WF) (hl : t.LWF) (hv : v.WF) (hs : RSim dim e g t v)
    (hsp : t.legsBeforeCombination a b = some (u, w))
    (hr1 : SimRun dim e t g v [.contract a b ts] t1 g1 v1)
    (hX' : DependsOn (· ∈ v1.legs ts) X')
    (hr2 : SimRun dim e t1 g1 (setTens v1 ts X') [.access ts, .split ts u w a b bd] t' g' v') :
    t.twoSiteUpdate a b ts bd = some t' ∧ t'.WF ∧ t'.LWF ∧ v'.WF ∧ RSim dim e g' t' v' ∧
    ts ∈ v1.ids ∧ v1.WF ∧ (∀ σ, v1.value dim σ = v.value dim σ) ∧
    (∀ σ, v'.value dim σ = (setTens v1 ts X').value dim σ) ∧
    (X' = v1.tens ts → ∀ σ, v'.value dim σ = v.value dim σ) := by
  obtain ⟨run1, _, w1, l1, vw1, s1, _, val1⟩ := structural_history_preserves_value dim e h hl hv hs hr1
  obtain ⟨run2, _, w2, l2, vw2, s2, _, val2⟩ :=
    structural_history_preserves_value dim e w1 l1 (setTens_wf vw1 hX') (s1.setTens ts X') hr2
  have h1 := trun_one run1
  obtain ⟨t2, h2, h3⟩ := trun_two run2
  refine ⟨twoSiteUpdate_of_steps hsp h1 h2 h3, w2, l2, vw2, s2, access_node_mem s1 h2, vw1, val1, val2, ?_⟩
  intro hX σ
  rw [val2 σ, hX, setTens_self, val1 σ]

/-- the replacement changes the value only through the replaced leaf: the value of the network is the bound sum of
the product of the leaves, with the leaf of `k` exposed -/
theorem setTens_value_expose (dim : Nat → Nat) {N : VNet R} (h : N.WF) {k : Nat} (hk : k ∈ N.ids) (X : Asg Nat → R)
    (σ : Asg Nat) :
    (setTens N k X).value dim σ = netValue dim N.bonds (X :: (N.ids.erase k).map N.tens) σ := by
  rw [VNet.value_expose1 dim (setTens N k X) hk σ]
  have hrest : ((setTens N k X).ids.erase k).map (setTens N k X).tens = (N.ids.erase k).map N.tens := by
    apply List.map_congr_left
    intro j hj
    have : j ≠ k := ((h.ids_nodup.mem_erase_iff).1 hj).1
    simp [setTens, this]
  rw [hrest]
  simp [setTens]

end Ptn.C02
