import Ptn.C02.Value
import Ptn.C02.MoreLabels
import Ptn.C02.OpsLabels
/-! Simulation of the STRUCTURAL model of the library operations (`TTN.lean`: `TTN.step`, invariants `WF`, `LWF`)
by the VALUE-level edits of `Value.lean` (`contractStep`, `splitStep`, `permStep`, `identStep`).

* `RSim dim e g t v` — the abstraction relation between a state `t` of the structural model and a valued network
  `v : VNet R`:  same node identifiers; the legs of node `k` in `v` are, IN AXIS ORDER, the labels of the logical axes
  of `k` in `t` — first one label `g k x` per neighbour `x` (parent, then children: the order of the virtual legs), then
  `e ax.lab` for every open axis `ax` of `k` (`t.openAxes k`, in order); dimensions agree; the binding record of `v`
  is exactly the set of edges of the tree: for every leg of `k` towards `x` the pair `(g k x, g x k)` (in one of the two
  orientations) is bound, and nothing else is.  `g` ("which label does the end at `k` of the bond `k – x` carry") is
  ghost data: in the structural model both ends of a bond carry the SAME label (`LWF`), in `VNet` the two ends are
  distinguished; `e` embeds the labels of the open axes and is fixed along a history.
* `reLeg`, `renameStep`, `SStep`, `SRun` — the value-level steps of `Value.lean` (`VStep`) extended by a reordering of
  the leg lists (all nodes at once) and the renaming of a node; `srun_value`: they preserve `VNet.WF` and the value.
* generic facts: a label identifies its end (`RSim.g_eq`), links are symmetric (`nbs_symm`), … -/
namespace Ptn.C02
open NodeS Ptn.Ein Ptn.C03

set_option linter.unusedSectionVars false
variable {R : Type} [CommSemiring R]

/-- ghost data of the abstraction: `g k x` is the `VNet` label of the leg of node `k` towards its neighbour `x` -/
abbrev LegMap := Id → Id → Nat

/-- the neighbours of `k` in the order of its virtual legs (parent, then children) -/
def TTN.nbs (t : TTN) (k : Id) : List Id := (t.legPairs k).map Prod.fst

theorem mem_nbs {t : TTN} {k x : Id} : x ∈ t.nbs k ↔ ∃ ax, t.Leg k x ax := by
  unfold TTN.nbs TTN.Leg
  rw [List.mem_map]
  constructor
  · rintro ⟨⟨x', ax⟩, hm, rfl⟩
    exact ⟨ax, hm⟩
  · rintro ⟨ax, hm⟩
    exact ⟨(x, ax), hm, rfl⟩

theorem nbs_eq {t : TTN} (h : t.WF) {k : Id} {n : NodeS} (hn : t.N k = some n) : t.nbs k = n.neighbours := by
  obtain ⟨L, hL, hLl⟩ := logical_some h hn
  unfold TTN.nbs
  rw [legPairs_eq hn hL]
  apply List.map_fst_zip
  rw [neighbours_length, hLl]
  exact (h.node k n hn).virt

theorem nbs_none {t : TTN} {k : Id} (hn : t.N k = none) : t.nbs k = [] := by
  unfold TTN.nbs; rw [legPairs_none hn]; rfl

theorem nbs_node {t : TTN} {k x : Id} (hx : x ∈ t.nbs k) : t.N k ≠ none := by
  obtain ⟨ax, hl⟩ := mem_nbs.1 hx
  exact leg_isNode hl

theorem nbs_nodup {t : TTN} (h : t.WF) (k : Id) : (t.nbs k).Nodup := by
  cases hn : t.N k with
  | none => rw [nbs_none hn]; exact List.nodup_nil
  | some n => rw [nbs_eq h hn]; exact neighbours_nodup h hn

/-- links are symmetric -/
theorem nbs_symm {t : TTN} (h : t.WF) {k x : Id} (hx : x ∈ t.nbs k) : k ∈ t.nbs x := by
  cases hn : t.N k with
  | none => exact absurd hn (nbs_node hx)
  | some n =>
    rw [nbs_eq h hn] at hx
    obtain ⟨m, hm, hk⟩ := neighbours_symm h hn hx
    rw [nbs_eq h hm]; exact hk

theorem nbs_ne {t : TTN} (h : t.WF) {k x : Id} (hx : x ∈ t.nbs k) : k ≠ x := by
  obtain ⟨ax, hl⟩ := mem_nbs.1 hx
  exact leg_ne h hl

/-- the legs of node `k` in axis order: one label per neighbour, then the embedded labels of the open axes -/
def simLegs (e : Label → Nat) (g : LegMap) (t : TTN) (k : Id) : List Nat :=
  (t.nbs k).map (g k) ++ (t.openAxes k).map (fun ax => e ax.lab)

/-- **The abstraction relation** between a state of the structural model and a valued network. -/
structure RSim (dim : Nat → Nat) (e : Label → Nat) (g : LegMap) (t : TTN) (v : VNet R) : Prop where
  /-- same node identifiers -/
  ids : ∀ k, k ∈ v.ids ↔ t.N k ≠ none
  /-- the legs of a node are its axis labels in axis order -/
  legs : ∀ k, k ∈ v.ids → v.legs k = simLegs e g t k
  /-- dimensions of the virtual legs -/
  dimV : ∀ k x ax, t.Leg k x ax → dim (g k x) = ax.dim
  /-- dimensions of the open legs -/
  dimO : ∀ k ax, ax ∈ t.openAxes k → dim (e ax.lab) = ax.dim
  /-- both ends of every edge of the tree are bound to each other … -/
  bondsIn : ∀ k x, x ∈ t.nbs k → (g k x, g x k) ∈ v.bonds ∨ (g x k, g k x) ∈ v.bonds
  /-- … and nothing else is bound -/
  bondsOut : ∀ p ∈ v.bonds, ∃ k x, x ∈ t.nbs k ∧ p = (g k x, g x k)

/-- the abstraction relation with the ghost leg map hidden -/
def R_sim (dim : Nat → Nat) (e : Label → Nat) (t : TTN) (v : VNet R) : Prop := ∃ g, RSim dim e g t v

namespace RSim
variable {dim : Nat → Nat} {e : Label → Nat} {g : LegMap} {t : TTN} {v : VNet R}

theorem id_of_nbs (hs : RSim dim e g t v) {k x : Id} (hx : x ∈ t.nbs k) : k ∈ v.ids :=
  (hs.ids k).2 (nbs_node hx)

theorem g_mem (hs : RSim dim e g t v) {k x : Id} (hx : x ∈ t.nbs k) : g k x ∈ v.legs k := by
  rw [hs.legs k (hs.id_of_nbs hx)]
  exact List.mem_append_left _ (List.mem_map_of_mem hx)

theorem open_mem (hs : RSim dim e g t v) {k : Id} (hk : k ∈ v.ids) {ax : Axis} (hax : ax ∈ t.openAxes k) :
    e ax.lab ∈ v.legs k := by
  rw [hs.legs k hk]
  exact List.mem_append_right _ (List.mem_map_of_mem (f := fun ax => e ax.lab) hax)

/-- a label identifies its end: node and neighbour -/
theorem g_eq (hs : RSim dim e g t v) (hv : v.WF) {k k' x y : Id} (hx : x ∈ t.nbs k) (hy : y ∈ t.nbs k')
    (he : g k x = g k' y) : k = k' ∧ x = y := by
  have hk := hs.id_of_nbs hx
  have hk' := hs.id_of_nbs hy
  have h1 := hs.g_mem hx
  have h2 := hs.g_mem hy
  have hkk : k = k' := hv.owner k hk k' hk' _ h1 (he ▸ h2)
  subst hkk
  refine ⟨rfl, ?_⟩
  have hnd := hv.legs_nodup k hk
  rw [hs.legs k hk] at hnd
  exact List.inj_on_of_nodup_map (List.nodup_append.1 hnd).1 hx hy he

theorem g_ne_open (hs : RSim dim e g t v) (hv : v.WF) {k k' x : Id} (hx : x ∈ t.nbs k) (hk' : k' ∈ v.ids)
    {ax : Axis} (hax : ax ∈ t.openAxes k') : g k x ≠ e ax.lab := by
  intro he
  have hk := hs.id_of_nbs hx
  have h1 := hs.g_mem hx
  have h2 := hs.open_mem hk' hax
  have hkk : k = k' := hv.owner k hk k' hk' _ h1 (he ▸ h2)
  subst hkk
  have hnd := hv.legs_nodup k hk
  rw [hs.legs k hk] at hnd
  exact (List.nodup_append.1 hnd).2.2 _ (List.mem_map_of_mem hx) _
    (List.mem_map_of_mem (f := fun ax => e ax.lab) hax) he

end RSim

/-- no bond is recorded in both orientations -/
theorem bonds_no_swap {bs : List (Nat × Nat)} (hnd : (Expr.pairLegs bs).Nodup) {a b : Nat} (h1 : (a, b) ∈ bs)
    (h2 : (b, a) ∈ bs) : False := by
  unfold Expr.pairLegs at hnd
  exact (List.nodup_append.1 hnd).2.2 a (List.mem_map.2 ⟨(a, b), h1, rfl⟩) a (List.mem_map.2 ⟨(b, a), h2, rfl⟩) rfl

theorem bonds_nodup_of_pairLegs {bs : List (Nat × Nat)} (hnd : (Expr.pairLegs bs).Nodup) : bs.Nodup := by
  unfold Expr.pairLegs at hnd
  exact List.Nodup.of_map _ (List.nodup_append.1 hnd).1

/-! ### value-level steps: `VStep` + reordering of the leg lists + renaming of a node -/

/-- all leg lists replaced (used with permutations of the old ones: `replace_tensor` with a permutation on every
node; the tensors, as functions of the labelled indices, do not change) -/
def reLeg (N : VNet R) (L : Nat → List Nat) : VNet R := { N with legs := L }

theorem reLeg_value (dim : Nat → Nat) (N : VNet R) (L : Nat → List Nat) (σ : Asg Nat) :
    (reLeg N L).value dim σ = N.value dim σ := rfl

theorem reLeg_wf {N : VNet R} (h : N.WF) {L : Nat → List Nat} (hperm : ∀ k ∈ N.ids, (L k).Perm (N.legs k)) :
    (reLeg N L).WF := by
  have hm : ∀ k ∈ N.ids, ∀ l, l ∈ L k ↔ l ∈ N.legs k := fun k hk l => (hperm k hk).mem_iff
  refine ⟨h.ids_nodup, ?_, ?_, ?_, h.bonds_nodup, ?_, ?_⟩
  · intro k hk
    exact (hperm k hk).nodup_iff.2 (h.legs_nodup k hk)
  · intro k1 hk1 k2 hk2 l h1 h2
    exact h.owner k1 hk1 k2 hk2 l ((hm k1 hk1 l).1 h1) ((hm k2 hk2 l).1 h2)
  · intro k hk
    exact (h.reads k hk).mono (fun l hl => (hm k hk l).2 hl)
  · intro p hp
    obtain ⟨⟨k1, hk1, hl1⟩, ⟨k2, hk2, hl2⟩⟩ := h.bonds_legs p hp
    exact ⟨⟨k1, hk1, (hm k1 hk1 _).2 hl1⟩, ⟨k2, hk2, (hm k2 hk2 _).2 hl2⟩⟩
  · intro k hk l hl
    exact h.fresh k hk l ((hm k hk l).1 hl)

/-- `change_node_identifier(new, old)`: a pure renaming -/
def renameStep (N : VNet R) (old new : Nat) : VNet R where
  ids := N.ids.map (renRho old new)
  legs := fun k => if k = new then N.legs old else N.legs k
  tens := fun k => if k = new then N.tens old else N.tens k
  bonds := N.bonds
  next := N.next

theorem renRho_inv {N : VNet R} {old new : Nat} (hnew : new = old ∨ new ∉ N.ids) {k : Nat} (hk : k ∈ N.ids) :
    (renRho old new k = new → k = old) ∧ (k ≠ old → renRho old new k = k ∧ k ≠ new) := by
  by_cases hko : k = old
  · exact ⟨fun _ => hko, fun h => absurd hko h⟩
  · have e1 : renRho old new k = k := by simp [renRho, hko]
    have : k ≠ new := by
      rcases hnew with e | e
      · rw [e]; exact hko
      · exact fun e' => e (e' ▸ hk)
    exact ⟨fun e' => absurd (e1.symm.trans e') this, fun _ => ⟨e1, this⟩⟩

theorem renameStep_legs {N : VNet R} {old new : Nat} (hnew : new = old ∨ new ∉ N.ids) {k : Nat} (hk : k ∈ N.ids) :
    (renameStep N old new).legs (renRho old new k) = N.legs k ∧
    (renameStep N old new).tens (renRho old new k) = N.tens k := by
  by_cases hko : k = old
  · subst hko
    simp [renameStep, renRho]
  · obtain ⟨e1, e2⟩ := (renRho_inv hnew hk).2 hko
    rw [e1]
    simp [renameStep, e2]

theorem renameStep_value (dim : Nat → Nat) {N : VNet R} {old new : Nat} (hnew : new = old ∨ new ∉ N.ids)
    (σ : Asg Nat) : (renameStep N old new).value dim σ = N.value dim σ := by
  unfold VNet.value
  have : (renameStep N old new).ids.map (renameStep N old new).tens = N.ids.map N.tens := by
    show (N.ids.map (renRho old new)).map (renameStep N old new).tens = _
    rw [List.map_map]
    apply List.map_congr_left
    intro k hk
    exact (renameStep_legs hnew hk).2
  rw [this]
  rfl

theorem renameStep_wf {N : VNet R} (h : N.WF) {old new : Nat} (hnew : new = old ∨ new ∉ N.ids) :
    (renameStep N old new).WF := by
  have hinj : ∀ x ∈ N.ids, ∀ y ∈ N.ids, renRho old new x = renRho old new y → x = y := by
    intro x hx y hy he
    by_cases hxo : x = old
    · by_cases hyo : y = old
      · rw [hxo, hyo]
      · obtain ⟨e1, e2⟩ := (renRho_inv hnew hy).2 hyo
        rw [e1] at he
        rw [hxo] at he
        simp only [renRho, if_true] at he
        exact absurd he.symm e2
    · obtain ⟨e1, e2⟩ := (renRho_inv hnew hx).2 hxo
      rw [e1] at he
      by_cases hyo : y = old
      · rw [hyo] at he
        simp only [renRho, if_true] at he
        exact absurd he e2
      · rw [((renRho_inv hnew hy).2 hyo).1] at he
        exact he
  have hids : ∀ k', k' ∈ (renameStep N old new).ids → ∃ k ∈ N.ids, k' = renRho old new k := by
    intro k' hk'
    obtain ⟨k, hk, e⟩ := List.mem_map.1 hk'
    exact ⟨k, hk, e.symm⟩
  refine ⟨?_, ?_, ?_, ?_, h.bonds_nodup, ?_, ?_⟩
  · exact List.Nodup.map_on hinj h.ids_nodup
  · intro k' hk'
    obtain ⟨k, hk, rfl⟩ := hids k' hk'
    rw [(renameStep_legs hnew hk).1]; exact h.legs_nodup k hk
  · intro k1' hk1' k2' hk2' l h1 h2
    obtain ⟨k1, hk1, rfl⟩ := hids k1' hk1'
    obtain ⟨k2, hk2, rfl⟩ := hids k2' hk2'
    rw [(renameStep_legs hnew hk1).1] at h1
    rw [(renameStep_legs hnew hk2).1] at h2
    rw [h.owner k1 hk1 k2 hk2 l h1 h2]
  · intro k' hk'
    obtain ⟨k, hk, rfl⟩ := hids k' hk'
    rw [(renameStep_legs hnew hk).1, (renameStep_legs hnew hk).2]; exact h.reads k hk
  · intro p hp
    obtain ⟨⟨k1, hk1, hl1⟩, ⟨k2, hk2, hl2⟩⟩ := h.bonds_legs p hp
    exact ⟨⟨renRho old new k1, List.mem_map_of_mem hk1, by rw [(renameStep_legs hnew hk1).1]; exact hl1⟩,
      ⟨renRho old new k2, List.mem_map_of_mem hk2, by rw [(renameStep_legs hnew hk2).1]; exact hl2⟩⟩
  · intro k' hk' l hl
    obtain ⟨k, hk, rfl⟩ := hids k' hk'
    rw [(renameStep_legs hnew hk).1] at hl
    exact h.fresh k hk l hl

/-- one value-level step: a step of `Value.lean`, a reordering of the leg lists, or the renaming of a node -/
inductive SStep (dim : Nat → Nat) : VNet R → VNet R → Prop
  | base {N N' : VNet R} : VStep dim N N' → SStep dim N N'
  | releg {N : VNet R} {L : Nat → List Nat} : (∀ k ∈ N.ids, (L k).Perm (N.legs k)) → SStep dim N (reLeg N L)
  | rename {N : VNet R} {old new : Nat} : (new = old ∨ new ∉ N.ids) → SStep dim N (renameStep N old new)

inductive SRun (dim : Nat → Nat) : VNet R → VNet R → Prop
  | nil (N : VNet R) : SRun dim N N
  | cons {N N₁ N₂ : VNet R} : SStep dim N N₁ → SRun dim N₁ N₂ → SRun dim N N₂

theorem SRun.trans {dim : Nat → Nat} {N N₁ N₂ : VNet R} (h1 : SRun dim N N₁) (h2 : SRun dim N₁ N₂) :
    SRun dim N N₂ := by
  induction h1 with
  | nil => exact h2
  | cons hs _ ih => exact .cons hs (ih h2)

theorem SRun.one {dim : Nat → Nat} {N N₁ : VNet R} (h : SStep dim N N₁) : SRun dim N N₁ := .cons h (.nil _)

theorem sstep_value (dim : Nat → Nat) {N N' : VNet R} (h : N.WF) (hs : SStep dim N N') :
    N'.WF ∧ ∀ σ, N'.value dim σ = N.value dim σ := by
  cases hs with
  | base hb => exact vstep_value dim h hb
  | releg hperm => exact ⟨reLeg_wf h hperm, fun σ => reLeg_value dim _ _ σ⟩
  | rename hnew => exact ⟨renameStep_wf h hnew, fun σ => renameStep_value dim hnew σ⟩

/-- every history of value-level steps (including reorderings of legs and renamings) keeps the valued network
well-formed and its value unchanged -/
theorem srun_value (dim : Nat → Nat) {N N' : VNet R} (h : N.WF) (hr : SRun dim N N') :
    N'.WF ∧ ∀ σ, N'.value dim σ = N.value dim σ := by
  induction hr with
  | nil N => exact ⟨h, fun _ => rfl⟩
  | cons hs _ ih =>
    obtain ⟨h1, v1⟩ := sstep_value dim h hs
    obtain ⟨h2, v2⟩ := ih h1
    exact ⟨h2, fun σ => (v2 σ).trans (v1 σ)⟩

end Ptn.C02
