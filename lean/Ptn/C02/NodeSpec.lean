import Ptn.C02.Lemmas
/-! Helper lemmas for the `_spec` theorems of the Node machine (segment form).  Core Lean only. -/
namespace Ptn.C02

theorem map_getD_range (sh : List Nat) : (List.range sh.length).map (fun i => sh.getD i 0) = sh := by
  apply List.ext_getElem
  · simp
  · intro i h1 h2
    simp at h1
    simp [h1]

theorem mapM_getElem?_eq {it p sh : List Nat} (h : p.mapM (fun i => it[i]?) = some sh) :
    sh = p.map (fun i => it.getD i 0) := by
  induction p generalizing sh with
  | nil => simp at h; subst h; rfl
  | cons a p ih =>
    rw [List.mapM_cons] at h
    cases ha : it[a]? with
    | none => simp [ha] at h
    | some b =>
      cases hp : p.mapM (fun i => it[i]?) with
      | none => simp [ha, hp] at h
      | some r =>
        simp [ha, hp] at h
        subst h
        simp [ih hp, ha]

theorem sliceInsert_append_len (X Y V : List Nat) : sliceInsert (X ++ Y) X.length V = X ++ V ++ Y := by
  simp [sliceInsert]

theorem set_append_len (A B : List Nat) (x y : Nat) : (A ++ x :: B).set A.length y = A ++ y :: B := by
  rw [List.set_append_right _ _ (Nat.le_refl _)]
  simp

theorem idxOf_append_not_mem (K1 K2 : List Id) (c : Id) (h : c ∉ K1) :
    (K1 ++ c :: K2).idxOf c = K1.length := by
  rw [List.idxOf_append]
  simp [h]

theorem nodup_of_getElem_inj (l : List Nat)
    (h : ∀ (i j : Nat) (hi : i < l.length) (hj : j < l.length), l[i] = l[j] → i = j) : l.Nodup := by
  rw [List.nodup_iff_pairwise_ne, List.pairwise_iff_getElem]
  intro i j hi hj hij heq
  have := h i j hi hj heq
  omega

/-- Distinct positions of a duplicate-free list hold distinct values. -/
theorem values_nodup (perm legs vs : List Nat) (hnd : perm.Nodup) (hl : legs.Nodup)
    (hread : legs.map (fun k => perm[k]?) = vs.map some) : vs.Nodup := by
  have hlen : vs.length = legs.length := by simpa using (congrArg List.length hread).symm
  have hget : ∀ (i : Nat) (h1 : i < legs.length) (h2 : i < vs.length), perm[legs[i]]? = some vs[i] := by
    intro i h1 h2
    have := congrArg (fun l => l[i]?) hread
    simpa [h1, h2] using this
  apply nodup_of_getElem_inj
  intro i j hi hj hij
  have hi' : i < legs.length := by omega
  have hj' : j < legs.length := by omega
  have e1 := hget i hi' hi
  have e2 := hget j hj' hj
  have hb : legs[i] < perm.length := (List.getElem?_eq_some_iff.mp e1).1
  have h1 : perm[legs[i]]? = perm[legs[j]]? := by rw [e1, e2, hij]
  have hk := (List.getElem?_inj hb hnd).mp h1
  have h2 : legs[i]? = legs[j]? := by simp [hi', hj', hk]
  exact (List.getElem?_inj hi' hl).mp h2

/-- Values read at positions `≥ |PC|` of `PC ++ O` lie in `O`. -/
theorem values_mem_open (PC O legs vs : List Nat) (hk : ∀ k ∈ legs, PC.length ≤ k)
    (hread : legs.map (fun k => (PC ++ O)[k]?) = vs.map some) : ∀ x ∈ vs, x ∈ O := by
  have hlen : vs.length = legs.length := by simpa using (congrArg List.length hread).symm
  intro x hx
  obtain ⟨i, hi, rfl⟩ := List.getElem_of_mem hx
  have hi' : i < legs.length := by omega
  have e1 : (PC ++ O)[legs[i]]? = some vs[i] := by
    have := congrArg (fun l => l[i]?) hread
    simpa [hi, hi'] using this
  have hge : PC.length ≤ legs[i] := hk _ (List.getElem_mem hi')
  rw [List.getElem?_append_right hge] at e1
  exact List.mem_of_getElem? e1

namespace NodeS

theorem openLegChecks_of {s : NodeS} {k : Nat} (h1 : s.nvirt < s.perm.length) (h2 : s.nvirt ≤ k) :
    s.openLegChecks k = true := by
  unfold openLegChecks nlegs
  have : ¬ s.perm.length = s.nvirt := by omega
  have h3 : ¬ k < s.nvirt := by omega
  simp [this, h3]

/-! ### `open_legs_to_children`: the fold in closed form -/

theorem o2cs_fold_spec (nn : Nat) (vals : List (Id × Nat × Nat)) (st : NodeS) (A B : List Nat)
    (hst : st.perm = A ++ B) (hA : A.length = st.nvirt) (hnd : (A ++ B).Nodup)
    (hk : ∀ e ∈ vals, nn ≤ e.2.1) (hv : ∀ e ∈ vals, e.2.2 ∈ B)
    (hvd : (vals.map (·.2.2)).Nodup) :
    vals.foldlM (o2csStep nn) st =
      some { st with perm := A ++ vals.map (·.2.2) ++ B.filter (fun x => !(vals.map (·.2.2)).contains x),
                     children := st.children ++ vals.map (·.1) } := by
  induction vals generalizing st A B with
  | nil =>
    cases st
    simp at hst ⊢
    rw [List.filter_eq_self.mpr (by simp)]
    exact hst
  | cons e vals ih =>
    obtain ⟨c, k, v⟩ := e
    rw [List.foldlM_cons]
    have hk0 : nn ≤ k := hk (c, k, v) (List.mem_cons_self ..)
    have hvB : v ∈ B := hv (c, k, v) (List.mem_cons_self ..)
    have hndAB := List.nodup_append.mp hnd
    have hvA : v ∉ A := fun hva => hndAB.2.2 v hva v hvB rfl
    have hmem : v ∈ st.perm := by rw [hst]; simp [hvB]
    have hstep : o2csStep nn st (c, k, v) =
        some { st with perm := (A ++ [v]) ++ B.erase v, children := st.children ++ [c] } := by
      simp only [o2csStep]
      have h1 : ¬ k < nn := by omega
      simp only [h1, if_false, hmem, not_true_eq_false]
      rw [hst, List.erase_append_right _ hvA, ← hA, pyInsert_append_len]
      simp
    rw [hstep]
    simp only [bind, Option.bind]
    have hvd' : v ∉ vals.map (·.2.2) ∧ (vals.map (·.2.2)).Nodup := by
      have : (v :: vals.map (·.2.2)).Nodup := by simpa using hvd
      exact List.nodup_cons.mp this
    have hBe : B.erase v = B.filter (fun x => x != v) := hndAB.2.1.erase_eq_filter v
    have hnd1 : ((A ++ [v]) ++ B.erase v).Nodup := by
      have hp : ((A ++ [v]) ++ B.erase v).Perm (A ++ B) := by
        have h1 : B.Perm (v :: B.erase v) := List.perm_cons_erase hvB
        have h2 : ((A ++ [v]) ++ B.erase v) = A ++ (v :: B.erase v) := by simp
        rw [h2]
        exact List.Perm.append_left A h1.symm
      exact hp.symm.nodup hnd
    have := ih { st with perm := (A ++ [v]) ++ B.erase v, children := st.children ++ [c] }
      (A ++ [v]) (B.erase v) rfl
      (by
        have : ({ st with perm := (A ++ [v]) ++ B.erase v, children := st.children ++ [c] } : NodeS).nvirt
            = st.nvirt + 1 := by
          simp only [nvirt_def]
          have h0 : ({ st with perm := (A ++ [v]) ++ B.erase v, children := st.children ++ [c] } : NodeS).nparents
              = st.nparents := nparents_congr rfl
          rw [h0]; simp; omega
        rw [this]; simp [hA])
      hnd1
      (fun e he => hk e (List.mem_cons_of_mem _ he))
      (fun e he => by
        have h1 : e.2.2 ∈ B := hv e (List.mem_cons_of_mem _ he)
        have h2 : e.2.2 ≠ v := by
          intro heq
          apply hvd'.1
          rw [← heq]
          exact List.mem_map.mpr ⟨e, he, rfl⟩
        exact (List.mem_erase_of_ne h2).mpr h1)
      hvd'.2
    rw [this]
    simp only [Option.some.injEq]
    congr 1
    · rw [hBe, List.filter_filter]
      simp only [List.map_cons, List.append_assoc, List.cons_append,
        List.nil_append]
      congr 3
      apply List.filter_congr
      intro x _
      simp only [List.contains_cons, Bool.not_or]
      cases hx : (x == v) <;> simp [hx, bne]
    · simp

theorem o2cs_read_spec (perm : List Nat) (d : List (Id × Nat)) (vs : List Nat)
    (h : d.map (fun e => perm[e.2]?) = vs.map some) :
    d.mapM (fun (e : Id × Nat) => (perm[e.2]?).map (fun v => (e.1, e.2, v))) =
      some ((d.zip vs).map (fun t => (t.1.1, t.1.2, t.2))) := by
  induction d generalizing vs with
  | nil => simp
  | cons e d ih =>
    cases vs with
    | nil => simp at h
    | cons v vs =>
      simp only [List.map_cons, List.cons.injEq] at h
      rw [List.mapM_cons, h.1, ih vs h.2]
      simp

end NodeS

end Ptn.C02
