/-! Model for property C02 (core Lean only; no Mathlib). -/
namespace Ptn.C02
end Ptn.C02
