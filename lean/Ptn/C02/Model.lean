/-! Model for property C02, part 1: the leg-permutation machine of `pytreenet/core/node.py`
(`Node` on top of `GraphNode`).  Core Lean only.

State of a node (`NodeS`):
* `perm`     ↔ `Node._leg_permutation` (values = axes of the stored array, positions = logical legs
               in the convention (parent, children…, open…))
* `shp`      ↔ `Node._shape` (shape of the stored array)
* `parent`   ↔ `GraphNode.parent`
* `children` ↔ `GraphNode.children`

Every method that can raise returns `Option NodeS` (`none` = an exception; the harness discards the
half-modified Python object in that case, so no post-state is modelled for a raise).

Python list primitives are transcribed literally: `pop(i)` (IndexError when out of range),
`insert(i, v)` (index clamped to the length), `remove(v)` (first occurrence), slice insertion
`l[p:p] = vs` (index clamped), `index(v)`.
-/
namespace Ptn.C02

abbrev Id := Nat

structure NodeS where
  perm : List Nat
  shp : List Nat
  parent : Option Id
  children : List Id
deriving Repr, DecidableEq

/-- `list.insert(i, v)`: the index is clamped to the length. -/
def pyInsert (l : List Nat) (i : Nat) (v : Nat) : List Nat :=
  l.insertIdx (min i l.length) v

/-- `l[p:p] = vs`: slice insertion; `take`/`drop` clamp like Python does. -/
def sliceInsert (l : List Nat) (p : Nat) (vs : List Nat) : List Nat :=
  l.take p ++ vs ++ l.drop p

/-- `v = l.pop(i)`: `(v, rest)`; IndexError ↦ `none`. -/
def pyPop (l : List Nat) (i : Nat) : Option (Nat × List Nat) :=
  match l[i]? with
  | some v => some (v, l.eraseIdx i)
  | none => none

/-- `[l.pop(i) for _ in range(n)]`: `n` pops at the same index. -/
def popMany (l : List Nat) (i : Nat) : Nat → Option (List Nat × List Nat)
  | 0 => some ([], l)
  | n + 1 =>
    match pyPop l i with
    | none => none
    | some (v, l') =>
      match popMany l' i n with
      | none => none
      | some (vs, l'') => some (v :: vs, l'')

namespace NodeS

def nlegs (s : NodeS) : Nat := s.perm.length
/-- `nparents() = int(not is_root())`. -/
def nparents (s : NodeS) : Nat := if s.parent.isSome then 1 else 0
def nchildren (s : NodeS) : Nat := s.children.length
/-- `nvirt_legs() = nneighbours()`. -/
def nvirt (s : NodeS) : Nat := s.nparents + s.nchildren
def isRoot (s : NodeS) : Bool := s.parent.isNone

/-- `Node.shape = permute_iterator(_shape, _leg_permutation)`. -/
def shape (s : NodeS) : List Nat := s.perm.map (fun i => s.shp.getD i 0)

/-- A node as created by `Node(identifier=…)` and linked later; `empty` has no tensor yet. -/
def empty : NodeS := ⟨[], [], none, []⟩

/-- `link_tensor`. -/
def linkTensor (s : NodeS) (tshape : List Nat) : NodeS :=
  { s with perm := List.range tshape.length, shp := tshape }

/-- `_reset_permutation`. -/
def resetPermutation (s : NodeS) : NodeS :=
  { s with shp := s.shape, perm := List.range s.perm.length }

/-- `permute_iterator(it, permutation)` with its length assertion and IndexError. -/
def permuteIterator (it : List Nat) (p : List Nat) : Option (List Nat) :=
  if it.length ≠ p.length then none
  else p.mapM (fun i => it[i]?)

/-- `replace_tensor(tensor, permutation)` (only the shape of the tensor matters here). -/
def replaceTensor (s : NodeS) (tshape : List Nat) (permutation : Option (List Nat)) : Option NodeS :=
  match permutation with
  | none => if s.shape = tshape then some s.resetPermutation else none
  | some p =>
    match permuteIterator tshape p with
    | none => none
    | some sh => if sh = s.shape then some { s with perm := p, shp := tshape } else none

/-- `_open_leg_checks`: `true` = passes. (`nopen_legs() == 0` ⇔ `nlegs == nvirt` over the integers.) -/
def openLegChecks (s : NodeS) (openLeg : Nat) : Bool :=
  if s.nlegs = s.nvirt then false
  else if openLeg < s.nvirt then false
  else true

/-- `open_leg_to_parent(parent_id, open_leg)`; `open_leg = None` is the early return. -/
def openLegToParent (s : NodeS) (pid : Id) (openLeg : Option Nat) : Option NodeS :=
  if !s.isRoot then none
  else match openLeg with
  | none => some s
  | some k =>
    if !s.openLegChecks k then none
    else match pyPop s.perm k with
    | none => none
    | some (v, rest) => some { s with perm := pyInsert rest 0 v, parent := some pid }

/-- `open_leg_to_child(child_id, open_leg)`. -/
def openLegToChild (s : NodeS) (cid : Id) (k : Nat) : Option NodeS :=
  if !s.openLegChecks k then none
  else match pyPop s.perm k with
  | none => none
  | some (v, rest) =>
    let newPosition := s.nparents + s.nchildren
    some { s with perm := pyInsert rest newPosition v, children := s.children ++ [cid] }

/-- Loop body of `open_legs_to_children` for one `(child_id, value)` of `actual_value`;
    `k = child_dict[child_id]`, `nn = original_nneighbours`. -/
def o2csStep (nn : Nat) (st : NodeS) (e : Id × Nat × Nat) : Option NodeS :=
  let (cid, k, v) := e
  let newPosition := st.nvirt
  if k < nn then none
  else if v ∉ st.perm then none                       -- `remove` raises ValueError
  else some { st with perm := pyInsert (st.perm.erase v) newPosition v,
                      children := st.children ++ [cid] }

/-- `open_legs_to_children(child_dict)`: all values are read first, then the legs are moved one by
    one (dict order = list order; Python dict keys are distinct). -/
def openLegsToChildren (s : NodeS) (d : List (Id × Nat)) : Option NodeS :=
  match d.mapM (fun (e : Id × Nat) => (s.perm[e.2]?).map (fun v => (e.1, e.2, v))) with
  | none => none
  | some vals => vals.foldlM (o2csStep s.nvirt) s

/-- `parent_leg_to_open_leg`. -/
def parentLegToOpenLeg (s : NodeS) : Option NodeS :=
  if !s.isRoot then
    match pyPop s.perm 0 with
    | none => none
    | some (v, rest) => some { s with perm := rest ++ [v], parent := none }
  else some { s with parent := none }

/-- `neighbour_index(node_id)` (NoConnectionException ↦ `none`). -/
def neighbourIndex (s : NodeS) (nid : Id) : Option Nat :=
  if s.parent = some nid then some 0
  else if nid ∈ s.children then some (s.children.idxOf nid + s.nparents)
  else none

/-- `child_leg_to_open_leg(child_id)`. -/
def childLegToOpenLeg (s : NodeS) (cid : Id) : Option NodeS :=
  if cid ∉ s.children then none
  else match s.neighbourIndex cid with
  | none => none
  | some index =>
    match pyPop s.perm index with
    | none => none
    | some (v, rest) => some { s with perm := rest ++ [v], children := s.children.erase cid }

/-- `children_legs_to_open_legs(children_id_list)`. -/
def childrenLegsToOpenLegs (s : NodeS) (cs : List Id) : Option NodeS :=
  cs.foldlM childLegToOpenLeg s

/-- Body of `exchange_open_leg_ranges` once `open_1 = range(s1, e1)` is the one that starts first. -/
def exchangeCore (s : NodeS) (s1 e1 s2 e2 : Nat) : Option NodeS :=
  if ¬ e1 ≤ s2 then none                                  -- assert open_1.stop <= open_2.start
  else match popMany s.perm s2 (e2 - s2) with
  | none => none
  | some (values2, l1) =>
    match popMany l1 s1 (e1 - s1) with
    | none => none
    | some (values1, l2) =>
      let l3 := sliceInsert l2 s1 values2
      let difference := s2 - e1
      let newPosition := s1 + (e2 - s2) + difference
      some { s with perm := sliceInsert l3 newPosition values1 }

/-- `exchange_open_leg_ranges(range(a0, a1), range(b0, b1))`. -/
def exchangeOpenLegRanges (s : NodeS) (a0 a1 b0 b1 : Nat) : Option NodeS :=
  if b0 < a0 then s.exchangeCore b0 b1 a0 a1 else s.exchangeCore a0 a1 b0 b1

/-- `swap_two_child_legs(child_id1, child_id2)`. -/
def swapTwoChildLegs (s : NodeS) (c1 c2 : Id) : Option NodeS :=
  if c1 ∉ s.children then none
  else if c2 ∉ s.children then none
  else if c1 = c2 then some s
  else
    let i1 := s.children.idxOf c1
    let i2 := s.children.idxOf c2
    let j1 := i1 + s.nparents
    let j2 := i2 + s.nparents
    match s.perm[j1]?, s.perm[j2]? with
    | some v1, some v2 =>
      some { s with children := (s.children.set i1 c2).set i2 c1,
                    perm := (s.perm.set j1 v2).set j2 v1 }
    | _, _ => none

end NodeS

/-- The methods as one operation type (used by the driver and by `node_ops_preserve_perm`). -/
inductive NodeOp where
  | link (tshape : List Nat)
  | reset
  | replaceTensor (tshape : List Nat) (p : Option (List Nat))
  | o2p (pid : Id) (k : Option Nat)
  | o2c (cid : Id) (k : Nat)
  | o2cs (d : List (Id × Nat))
  | p2o
  | c2o (cid : Id)
  | cs2o (cs : List Id)
  | xch (a0 a1 b0 b1 : Nat)
  | swap (c1 c2 : Id)
deriving Repr, DecidableEq

def NodeS.step (s : NodeS) : NodeOp → Option NodeS
  | .link sh => some (s.linkTensor sh)
  | .reset => some s.resetPermutation
  | .replaceTensor sh p => s.replaceTensor sh p
  | .o2p pid k => s.openLegToParent pid k
  | .o2c cid k => s.openLegToChild cid k
  | .o2cs d => s.openLegsToChildren d
  | .p2o => s.parentLegToOpenLeg
  | .c2o cid => s.childLegToOpenLeg cid
  | .cs2o cs => s.childrenLegsToOpenLegs cs
  | .xch a0 a1 b0 b1 => s.exchangeOpenLegRanges a0 a1 b0 b1
  | .swap c1 c2 => s.swapTwoChildLegs c1 c2

end Ptn.C02
