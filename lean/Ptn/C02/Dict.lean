import Ptn.C02.TTN
/-! Dictionary lemmas (association lists seen through `dget`).  Core Lean only. -/
namespace Ptn.C02

variable {α : Type}

theorem dget_nil (k : Id) : dget ([] : List (Id × α)) k = none := rfl

theorem dget_cons (e : Id × α) (d : List (Id × α)) (k : Id) :
    dget (e :: d) k = if e.1 = k then some e.2 else dget d k := by
  unfold dget
  by_cases h : e.1 = k
  · simp [List.find?_cons, h]
  · have : (e.1 == k) = false := by simpa using h
    simp [List.find?_cons, this, h]

theorem dhas_cons (e : Id × α) (d : List (Id × α)) (k : Id) :
    dhas (e :: d) k = (e.1 == k || dhas d k) := by
  simp [dhas]

theorem dhas_eq_isSome (d : List (Id × α)) (k : Id) : dhas d k = (dget d k).isSome := by
  induction d with
  | nil => rfl
  | cons e d ih =>
    rw [dhas_cons, dget_cons, ih]
    by_cases h : e.1 = k <;> simp [h]

theorem dget_append (d1 d2 : List (Id × α)) (k : Id) :
    dget (d1 ++ d2) k = match dget d1 k with
      | some v => some v
      | none => dget d2 k := by
  induction d1 with
  | nil => simp [dget_nil]
  | cons e d1 ih =>
    rw [List.cons_append, dget_cons, dget_cons]
    by_cases h : e.1 = k <;> simp [h, ih]

theorem dget_map_replace (d : List (Id × α)) (k k' : Id) (v : α) :
    dget (d.map (fun e => if e.1 == k then (k, v) else e)) k' =
      if k' = k then (if dhas d k then some v else none) else dget d k' := by
  induction d with
  | nil => simp [dget_nil, dhas]
  | cons e d ih =>
    rw [List.map_cons, dget_cons, ih, dhas_cons, dget_cons]
    by_cases h1 : e.1 = k
    · subst h1
      by_cases h2 : k' = e.1
      · subst h2; simp
      · have : ¬ e.1 = k' := fun h => h2 h.symm
        simp [h2, this]
    · have hb : (e.1 == k) = false := by simpa using h1
      simp only [hb, Bool.false_eq_true, if_false, Bool.false_or]
      by_cases h2 : k' = k
      · subst h2
        have : ¬ e.1 = k' := h1
        simp [this]
      · simp [h2]

theorem dget_dset (d : List (Id × α)) (k k' : Id) (v : α) :
    dget (dset d k v) k' = if k' = k then some v else dget d k' := by
  unfold dset
  by_cases h : dhas d k
  · simp only [h, if_true]
    rw [dget_map_replace]
    simp [h]
  · simp only [h, Bool.false_eq_true, if_false]
    rw [dget_append]
    have hn : dget d k = none := by
      have := dhas_eq_isSome d k
      cases hg : dget d k with
      | none => rfl
      | some _ => rw [hg] at this; simp at this; exact absurd this h
    by_cases h2 : k' = k
    · subst h2
      simp [hn, dget_cons]
    · have : ¬ k = k' := fun h => h2 h.symm
      cases hg : dget d k' <;> simp [h2, dget_cons, dget_nil, this]

theorem dget_dset_self (d : List (Id × α)) (k : Id) (v : α) : dget (dset d k v) k = some v := by
  simp [dget_dset]

theorem dget_dset_ne (d : List (Id × α)) (k k' : Id) (v : α) (h : k' ≠ k) :
    dget (dset d k v) k' = dget d k' := by
  simp [dget_dset, h]

theorem dget_filter_ne (d : List (Id × α)) (k k' : Id) :
    dget (d.filter (fun e => e.1 != k)) k' = if k' = k then none else dget d k' := by
  induction d with
  | nil => simp [dget_nil]
  | cons e d ih =>
    by_cases h1 : e.1 = k
    · have : (e.1 != k) = false := by simp [h1]
      rw [List.filter_cons_of_neg (by simp [this]), ih, dget_cons]
      by_cases h2 : k' = k
      · simp [h2]
      · have : ¬ e.1 = k' := by rw [h1]; exact fun h => h2 h.symm
        simp [h2, this]
    · have : (e.1 != k) = true := by simp [h1]
      rw [List.filter_cons_of_pos (by simp [this]), dget_cons, ih, dget_cons]
      by_cases h2 : k' = k
      · subst h2
        simp [h1]
      · simp [h2]

theorem dpop_eq_some (d d' : List (Id × α)) (k : Id) (h : dpop d k = some d') :
    dhas d k = true ∧ ∀ k', dget d' k' = if k' = k then none else dget d k' := by
  unfold dpop at h
  by_cases hh : dhas d k
  · simp only [hh, if_true, Option.some.injEq] at h
    subst h
    exact ⟨hh, fun k' => dget_filter_ne d k k'⟩
  · simp [hh] at h

theorem dpop_of_has (d : List (Id × α)) (k : Id) (h : dhas d k = true) :
    ∃ d', dpop d k = some d' ∧ ∀ k', dget d' k' = if k' = k then none else dget d k' := by
  refine ⟨d.filter (fun e => e.1 != k), by simp [dpop, h], fun k' => dget_filter_ne d k k'⟩

theorem dhas_of_dget {d : List (Id × α)} {k : Id} {v : α} (h : dget d k = some v) : dhas d k = true := by
  rw [dhas_eq_isSome, h]; rfl

theorem dhas_dset (d : List (Id × α)) (k k' : Id) (v : α) :
    dhas (dset d k v) k' = (k' == k || dhas d k') := by
  rw [dhas_eq_isSome, dget_dset, dhas_eq_isSome]
  by_cases h : k' = k <;> simp [h]

theorem dhas_of_dpop (d d' : List (Id × α)) (k k' : Id) (h : dpop d k = some d') :
    dhas d' k' = (dhas d k' && k' != k) := by
  obtain ⟨_, hg⟩ := dpop_eq_some d d' k h
  rw [dhas_eq_isSome, hg k', dhas_eq_isSome]
  by_cases h' : k' = k <;> simp [h']

end Ptn.C02
