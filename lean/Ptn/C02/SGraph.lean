import Ptn.C02.Model
/-! Pure graph layer for C02: the *structure* of a network is a partial map
`Id → (parent, children)`; `SWF` are the structural clauses of well-formedness.
Contracting an edge and splitting a node are described on this layer and shown to preserve `SWF`.
Core Lean only. -/
namespace Ptn.C02

abbrev Struct := Option Id × List Id

/-- Structural well-formedness: identical key sets (`Tk` = keys of the tensor dictionary), exactly one
    root and `root` names it, symmetric links, no duplicate children, and a rank that strictly
    decreases towards the root (so every node reaches the root: the graph is a tree). -/
structure SWF (S : Id → Option Struct) (Tk : Id → Bool) (root : Option Id) : Prop where
  keys : ∀ k, (S k).isSome = Tk k
  root_ok : ∃ r ch, root = some r ∧ S r = some (none, ch)
  root_uniq : ∀ k ch, S k = some (none, ch) → root = some k
  up : ∀ k p ch, S k = some (some p, ch) → ∃ pp pch, S p = some (pp, pch) ∧ k ∈ pch
  down : ∀ k pp ch c, S k = some (pp, ch) → c ∈ ch → ∃ cch, S c = some (some k, cch)
  nodup : ∀ k pp ch, S k = some (pp, ch) → ch.Nodup
  depth : ∃ dp : Id → Nat, ∀ k p ch, S k = some (some p, ch) → dp p < dp k

namespace SWF
variable {S : Id → Option Struct} {Tk : Id → Bool} {root : Option Id}

theorem parent_ne (h : SWF S Tk root) {k p : Id} {ch : List Id} (hk : S k = some (some p, ch)) : p ≠ k := by
  obtain ⟨dp, hd⟩ := h.depth
  intro e
  have := hd k p ch hk
  rw [e] at this
  omega

theorem no_two_cycle (h : SWF S Tk root) {a b : Id} {ca cb : List Id} (ha : S a = some (some b, ca))
    (hb : S b = some (some a, cb)) : False := by
  obtain ⟨dp, hd⟩ := h.depth
  have h1 := hd a b ca ha
  have h2 := hd b a cb hb
  omega

end SWF

/-! ### contracting the edge `pid – cid` into `new` -/

/-- Renaming of the references held by an untouched node. -/
def contractRen (pid cid new : Id) (s : Struct) : Struct :=
  ((match s.1 with
    | some p => if p = pid ∨ p = cid then some new else some p
    | none => none),
   s.2.map (fun c => if c = pid then new else c))

/-- The structure after `contract_nodes`: `pid` and `cid` disappear, `new` holds `(gp, K')`, every other
    node has its references to `pid` / `cid` replaced by `new`. -/
def contractS (S : Id → Option Struct) (pid cid new : Id) (gp : Option Id) (K' : List Id) :
    Id → Option Struct :=
  fun k => if k = new then some (gp, K')
           else if k = pid ∨ k = cid then none
           else (S k).map (contractRen pid cid new)

theorem map_ite_nodup (l : List Id) (a b : Id) (hl : l.Nodup) (hb : b ∈ l → a ∉ l ∨ a = b) :
    (l.map (fun c => if c = a then b else c)).Nodup := by
  induction l with
  | nil => simp
  | cons x l ih =>
    rw [List.nodup_cons] at hl
    rw [List.map_cons, List.nodup_cons]
    refine ⟨?_, ih hl.2 (fun hbl => ?_)⟩
    · intro hmem
      obtain ⟨y, hy, hxy⟩ := List.mem_map.mp hmem
      by_cases hya : y = a
      · by_cases hxa : x = a
        · subst hya; subst hxa; exact hl.1 hy
        · simp only [hya, if_true, hxa, if_false] at hxy
          -- b = x, so b ∈ x :: l, a = y ∈ l
          have hbmem : b ∈ x :: l := by rw [hxy]; simp
          rcases hb hbmem with h1 | h1
          · exact h1 (by rw [← hya]; simp [hy])
          · exact hxa (by rw [← hxy, h1])
      · simp only [hya, if_false] at hxy
        by_cases hxa : x = a
        · simp only [hxa, if_true] at hxy
          -- y = b ∈ l, a = x
          have hbmem : b ∈ x :: l := by rw [← hxy]; simp [hy]
          rcases hb hbmem with h1 | h1
          · exact h1 (by rw [← hxa]; simp)
          · rw [hxy, ← h1, ← hxa] at hy; exact hl.1 hy
        · simp only [hxa, if_false] at hxy
          rw [hxy] at hy; exact hl.1 hy
    · rcases hb (List.mem_cons_of_mem _ hbl) with h1 | h1
      · exact Or.inl (fun h => h1 (List.mem_cons_of_mem _ h))
      · exact Or.inr h1

/-- **Contracting an edge preserves structural well-formedness.** -/
theorem contractS_swf {S : Id → Option Struct} {Tk : Id → Bool} {root : Option Id}
    (h : SWF S Tk root) (pid cid new : Id) (gp : Option Id) (Pch Cch K' : List Id)
    (hP : S pid = some (gp, Pch)) (hC : S cid = some (some pid, Cch))
    (hnew : new = pid ∨ new = cid ∨ S new = none)
    (hK : ∀ x, x ∈ K' ↔ ((x ∈ Pch ∧ x ≠ cid) ∨ x ∈ Cch)) (hKnd : K'.Nodup) :
    SWF (contractS S pid cid new gp K')
      (fun k => k == new || (Tk k && k != pid && k != cid))
      (if gp = none then some new else root) := by
  have hpc : pid ≠ cid := h.parent_ne hC
  -- facts about `new`
  have hnew_some : ∀ k s, S k = some s → k ≠ pid → k ≠ cid → k ≠ new := by
    intro k s hk h1 h2 e
    subst e
    rcases hnew with e | e | e
    · exact h1 e
    · exact h2 e
    · rw [hk] at e; simp at e
  have hS' : ∀ k, k ≠ new → k ≠ pid → k ≠ cid →
      contractS S pid cid new gp K' k = (S k).map (contractRen pid cid new) := by
    intro k h1 h2 h3
    simp [contractS, h1, h2, h3]
  have hS'new : contractS S pid cid new gp K' new = some (gp, K') := by simp [contractS]
  have hS'none : ∀ k, k ≠ new → (k = pid ∨ k = cid) → contractS S pid cid new gp K' k = none := by
    intro k h1 h2
    simp [contractS, h1, h2]
  -- every node of the new structure, classified
  have hcases : ∀ k s', contractS S pid cid new gp K' k = some s' →
      (k = new ∧ s' = (gp, K')) ∨
      (k ≠ new ∧ k ≠ pid ∧ k ≠ cid ∧ ∃ s, S k = some s ∧ s' = contractRen pid cid new s) := by
    intro k s' hk
    by_cases h1 : k = new
    · left; subst h1; rw [hS'new] at hk; simp at hk; exact ⟨rfl, hk.symm⟩
    · right
      by_cases h2 : k = pid ∨ k = cid
      · rw [hS'none k h1 h2] at hk; simp at hk
      · have h2' : k ≠ pid ∧ k ≠ cid := by
          constructor <;> intro e <;> exact h2 (by simp [e])
        rw [hS' k h1 h2'.1 h2'.2] at hk
        cases hs : S k with
        | none => rw [hs] at hk; simp at hk
        | some s => rw [hs] at hk; simp at hk; exact ⟨h1, h2'.1, h2'.2, s, rfl, hk.symm⟩
  have hcid_in : cid ∈ Pch := by
    obtain ⟨pp, pch, e1, e2⟩ := h.up cid pid Cch hC
    rw [hP] at e1; simp at e1; rw [e1.2]; exact e2
  refine ⟨?_, ?_, ?_, ?_, ?_, ?_, ?_⟩
  · -- keys
    intro k
    by_cases h1 : k = new
    · subst h1; simp [hS'new]
    · have b1 : (k == new) = false := by simpa using h1
      by_cases h2 : k = pid ∨ k = cid
      · rw [hS'none k h1 h2]
        rcases h2 with e | e
        · have : (k != pid) = false := by simp [e]
          simp [b1, this]
        · have : (k != cid) = false := by simp [e]
          simp [b1, this]
      · have h2' : k ≠ pid ∧ k ≠ cid := by
          constructor <;> intro e <;> exact h2 (by simp [e])
        have b2 : (k != pid) = true := by simpa using h2'.1
        have b3 : (k != cid) = true := by simpa using h2'.2
        rw [hS' k h1 h2'.1 h2'.2]
        simp [b1, b2, b3, ← h.keys k]
  · -- root_ok
    by_cases hgp : gp = none
    · rw [if_pos hgp]
      exact ⟨new, K', rfl, by rw [hS'new, hgp]⟩
    · rw [if_neg hgp]
      obtain ⟨r, rch, hr, hSr⟩ := h.root_ok
      have hrp : r ≠ pid := by intro e; rw [e, hP] at hSr; simp at hSr; exact hgp hSr.1
      have hrc : r ≠ cid := by intro e; rw [e, hC] at hSr; simp at hSr
      have hrn : r ≠ new := hnew_some r _ hSr hrp hrc
      refine ⟨r, rch.map (fun c => if c = pid then new else c), hr, ?_⟩
      rw [hS' r hrn hrp hrc, hSr]
      simp [contractRen]
  · -- root_uniq
    intro k ch hk
    rcases hcases k _ hk with ⟨rfl, e⟩ | ⟨h1, h2, h3, s, hs, e⟩
    · simp at e; simp [e.1]
    · obtain ⟨pp, ch0⟩ := s
      simp only [contractRen, Prod.mk.injEq] at e
      have hpp : pp = none := by
        cases pp with
        | none => rfl
        | some p => simp at e; split at e <;> simp at e
      subst hpp
      have hroot := h.root_uniq k ch0 hs
      by_cases hgp : gp = none
      · have := h.root_uniq pid Pch (by rw [hP, hgp])
        rw [hroot] at this; simp at this; exact absurd this h2
      · rw [if_neg hgp]; exact hroot
  · -- up
    intro k p' ch' hk
    rcases hcases k _ hk with ⟨rfl, e⟩ | ⟨h1, h2, h3, s, hs, e⟩
    · simp at e
      obtain ⟨e1, e2⟩ := e
      -- the grandparent
      have hPg : S pid = some (some p', Pch) := by rw [hP, ← e1]
      obtain ⟨gpp, gch, hg, hmem⟩ := h.up pid p' Pch hPg
      have hg1 : p' ≠ pid := h.parent_ne hPg
      have hg2 : p' ≠ cid := by
        intro e; rw [e] at hPg; exact h.no_two_cycle hPg hC
      have hg3 : p' ≠ k := hnew_some p' _ hg hg1 hg2
      refine ⟨_, _, by rw [hS' p' hg3 hg1 hg2, hg]; rfl, ?_⟩
      simp only [contractRen]
      exact List.mem_map.mpr ⟨pid, hmem, by simp⟩
    · obtain ⟨pp, ch0⟩ := s
      simp only [contractRen, Prod.mk.injEq] at e
      obtain ⟨e1, e2⟩ := e
      cases pp with
      | none => simp at e1
      | some p0 =>
        simp only at e1
        obtain ⟨pp0, pch0, hp0, hkmem⟩ := h.up k p0 ch0 hs
        by_cases hp : p0 = pid ∨ p0 = cid
        · simp only [hp, if_true, Option.some.injEq] at e1
          rw [e1]
          refine ⟨gp, K', hS'new, (hK k).mpr ?_⟩
          rcases hp with e | e
          · subst e; rw [hP] at hp0; simp at hp0; rw [hp0.2]; exact Or.inl ⟨hkmem, h3⟩
          · subst e; rw [hC] at hp0; simp at hp0; rw [hp0.2]; exact Or.inr hkmem
        · simp only [hp, if_false, Option.some.injEq] at e1
          rw [e1]
          have hp1 : p0 ≠ pid := fun e => hp (Or.inl e)
          have hp2 : p0 ≠ cid := fun e => hp (Or.inr e)
          have hp3 : p0 ≠ new := hnew_some p0 _ hp0 hp1 hp2
          refine ⟨_, _, by rw [hS' p0 hp3 hp1 hp2, hp0]; rfl, ?_⟩
          simp only [contractRen]
          exact List.mem_map.mpr ⟨k, hkmem, by simp [h2]⟩
  · -- down
    intro k pp' ch' c hk hc
    rcases hcases k _ hk with ⟨rfl, e⟩ | ⟨h1, h2, h3, s, hs, e⟩
    · simp at e
      obtain ⟨e1, e2⟩ := e
      subst e2
      rcases (hK c).mp hc with ⟨hcP, hcne⟩ | hcC
      · obtain ⟨cch, hcS⟩ := h.down pid gp Pch c hP hcP
        have c1 : c ≠ pid := fun e => by rw [e] at hcS; exact h.parent_ne hcS rfl
        have c3 : c ≠ k := hnew_some c _ hcS c1 hcne
        refine ⟨cch.map (fun c => if c = pid then k else c), ?_⟩
        rw [hS' c c3 c1 hcne, hcS]
        simp [contractRen]
      · obtain ⟨cch, hcS⟩ := h.down cid (some pid) Cch c hC hcC
        have c2 : c ≠ cid := fun e => by rw [e] at hcS; exact h.parent_ne hcS rfl
        have c1 : c ≠ pid := by
          intro e; rw [e] at hcS; exact h.no_two_cycle hcS hC
        have c3 : c ≠ k := hnew_some c _ hcS c1 c2
        refine ⟨cch.map (fun c => if c = pid then k else c), ?_⟩
        rw [hS' c c3 c1 c2, hcS]
        simp [contractRen]
    · obtain ⟨pp, ch0⟩ := s
      simp only [contractRen, Prod.mk.injEq] at e
      obtain ⟨e1, e2⟩ := e
      subst e2
      obtain ⟨c0, hc0, hcc⟩ := List.mem_map.mp hc
      obtain ⟨cch0, hc0S⟩ := h.down k pp ch0 c0 hs hc0
      by_cases hcp : c0 = pid
      · simp only [hcp, if_true] at hcc
        subst hcc
        rw [hcp, hP] at hc0S
        simp at hc0S
        exact ⟨K', by rw [hS'new, hc0S.1]⟩
      · simp only [hcp, if_false] at hcc
        subst hcc
        have c2 : c0 ≠ cid := by
          intro e; rw [e, hC] at hc0S; simp at hc0S; exact h2 hc0S.1.symm
        have c3 : c0 ≠ new := hnew_some c0 _ hc0S hcp c2
        refine ⟨cch0.map (fun c => if c = pid then new else c), ?_⟩
        rw [hS' c0 c3 hcp c2, hc0S]
        simp [contractRen, h2, h3]
  · -- nodup
    intro k pp' ch' hk
    rcases hcases k _ hk with ⟨rfl, e⟩ | ⟨h1, h2, h3, s, hs, e⟩
    · simp at e; rw [e.2]; exact hKnd
    · obtain ⟨pp, ch0⟩ := s
      simp only [contractRen, Prod.mk.injEq] at e
      rw [e.2]
      apply map_ite_nodup _ _ _ (h.nodup k pp ch0 hs)
      intro hnewmem
      -- `new` among the children of `k`: then `new` is a node, so `new = pid` or `new = cid`
      obtain ⟨nch, hnS⟩ := h.down k pp ch0 new hs hnewmem
      rcases hnew with e' | e' | e'
      · exact Or.inr e'.symm
      · -- new = cid, a child of k ≠ pid: impossible
        rw [e', hC] at hnS; simp at hnS; exact absurd hnS.1.symm h2
      · rw [hnS] at e'; simp at e'
  · -- depth
    obtain ⟨dp, hd⟩ := h.depth
    refine ⟨fun k => if k = new then dp pid else dp k, ?_⟩
    intro k p' ch' hk
    rcases hcases k _ hk with ⟨rfl, e⟩ | ⟨h1, h2, h3, s, hs, e⟩
    · simp at e
      have hPg : S pid = some (some p', Pch) := by rw [hP, ← e.1]
      obtain ⟨gpp, gch, hg, -⟩ := h.up pid p' Pch hPg
      have hg1 : p' ≠ pid := h.parent_ne hPg
      have hg2 : p' ≠ cid := by
        intro e; rw [e] at hPg; exact h.no_two_cycle hPg hC
      have hg3 : p' ≠ k := hnew_some p' _ hg hg1 hg2
      simp only [hg3, if_false, if_true]
      exact hd pid p' Pch hPg
    · obtain ⟨pp, ch0⟩ := s
      simp only [contractRen, Prod.mk.injEq] at e
      obtain ⟨e1, -⟩ := e
      cases pp with
      | none => simp at e1
      | some p0 =>
        simp only at e1
        have hkd := hd k p0 ch0 hs
        by_cases hp : p0 = pid ∨ p0 = cid
        · simp only [hp, if_true, Option.some.injEq] at e1
          rw [e1]
          simp only [if_true, h1, if_false]
          rcases hp with e | e
          · rw [e] at hkd; exact hkd
          · rw [e] at hkd
            have := hd cid pid Cch hC
            omega
        · simp only [hp, if_false, Option.some.injEq] at e1
          rw [e1]
          obtain ⟨pp0, pch0, hp0, -⟩ := h.up k p0 ch0 hs
          have hp1 : p0 ≠ pid := fun e => hp (Or.inl e)
          have hp2 : p0 ≠ cid := fun e => hp (Or.inr e)
          have hp3 : p0 ≠ new := hnew_some p0 _ hp0 hp1 hp2
          simp only [hp3, if_false, h1]
          exact hkd

/-! ### splitting the node `x` into `a` (takes the place of `x` towards the parent / as root) and `b`
(child of `a`) -/

/-- Renaming of the references held by an untouched node `k`. -/
def splitRen (x a b : Id) (aCh : List Id) (k : Id) (s : Struct) : Struct :=
  ((match s.1 with
    | some p => if p = x then some (if k ∈ aCh then a else b) else some p
    | none => none),
   s.2.map (fun c => if c = x then a else c))

/-- The structure after `split_nodes`: `a` holds `(gp, b :: aCh)`, `b` holds `(a, bCh)`, `x` disappears
    (unless its identifier is reused), the former children of `x` point to the side that took them, the
    former parent of `x` points to `a`. -/
def splitS (S : Id → Option Struct) (x a b : Id) (gp : Option Id) (aCh bCh : List Id) :
    Id → Option Struct :=
  fun k => if k = a then some (gp, b :: aCh)
           else if k = b then some (some a, bCh)
           else if k = x then none
           else (S k).map (splitRen x a b aCh k)

/-- **Splitting a node preserves structural well-formedness** (any partition of the children, either
    new identifier may be the old one). -/
theorem splitS_swf {S : Id → Option Struct} {Tk : Id → Bool} {root : Option Id}
    (h : SWF S Tk root) (x a b : Id) (gp : Option Id) (Xch aCh bCh : List Id)
    (hX : S x = some (gp, Xch)) (hab : a ≠ b)
    (ha : a = x ∨ S a = none) (hb : b = x ∨ S b = none)
    (hpart : ∀ c, c ∈ Xch ↔ (c ∈ aCh ∨ c ∈ bCh)) (hdisj : ∀ c, c ∈ aCh → c ∉ bCh)
    (hnda : aCh.Nodup) (hndb : bCh.Nodup) :
    SWF (splitS S x a b gp aCh bCh)
      (fun k => k == a || k == b || (Tk k && k != x))
      (if gp = none then some a else root) := by
  -- `a`, `b` are not nodes other than `x`
  have hfresh : ∀ k s, S k = some s → k ≠ x → k ≠ a ∧ k ≠ b := by
    intro k s hk hkx
    constructor
    · intro e; subst e
      rcases ha with e | e
      · exact hkx e
      · rw [hk] at e; simp at e
    · intro e; subst e
      rcases hb with e | e
      · exact hkx e
      · rw [hk] at e; simp at e
  have hx_notin : x ∉ Xch := by
    intro hm
    obtain ⟨cch, hc⟩ := h.down x gp Xch x hX hm
    exact h.parent_ne hc rfl
  have hchild : ∀ c, c ∈ Xch → ∃ cch, S c = some (some x, cch) ∧ c ≠ x ∧ c ≠ a ∧ c ≠ b := by
    intro c hc
    obtain ⟨cch, hcS⟩ := h.down x gp Xch c hX hc
    have hcx : c ≠ x := fun e => hx_notin (e ▸ hc)
    exact ⟨cch, hcS, hcx, (hfresh c _ hcS hcx).1, (hfresh c _ hcS hcx).2⟩
  have ha_notin : a ∉ Xch := fun hm => by obtain ⟨_, _, _, e, _⟩ := hchild a hm; exact e rfl
  have hb_notin : b ∉ Xch := fun hm => by obtain ⟨_, _, _, _, e⟩ := hchild b hm; exact e rfl
  have hSa : splitS S x a b gp aCh bCh a = some (gp, b :: aCh) := by simp [splitS]
  have hSb : splitS S x a b gp aCh bCh b = some (some a, bCh) := by
    have : ¬ b = a := fun e => hab e.symm
    simp [splitS, this]
  have hS' : ∀ k, k ≠ a → k ≠ b → k ≠ x →
      splitS S x a b gp aCh bCh k = (S k).map (splitRen x a b aCh k) := by
    intro k h1 h2 h3; simp [splitS, h1, h2, h3]
  have hcases : ∀ k s', splitS S x a b gp aCh bCh k = some s' →
      (k = a ∧ s' = (gp, b :: aCh)) ∨ (k = b ∧ s' = (some a, bCh)) ∨
      (k ≠ a ∧ k ≠ b ∧ k ≠ x ∧ ∃ s, S k = some s ∧ s' = splitRen x a b aCh k s) := by
    intro k s' hk
    by_cases h1 : k = a
    · left; subst h1; rw [hSa] at hk; simp at hk; exact ⟨rfl, hk.symm⟩
    · by_cases h2 : k = b
      · right; left; subst h2; rw [hSb] at hk; simp at hk; exact ⟨rfl, hk.symm⟩
      · right; right
        by_cases h3 : k = x
        · subst h3; simp [splitS, h1, h2] at hk
        · rw [hS' k h1 h2 h3] at hk
          cases hs : S k with
          | none => rw [hs] at hk; simp at hk
          | some s => rw [hs] at hk; simp at hk; exact ⟨h1, h2, h3, s, rfl, hk.symm⟩
  -- the former parent of x
  have hgp : ∀ g, gp = some g → ∃ gpp gch, S g = some (gpp, gch) ∧ x ∈ gch ∧ g ≠ x ∧ g ≠ a ∧ g ≠ b := by
    intro g hg
    have hXg : S x = some (some g, Xch) := by rw [hX, hg]
    obtain ⟨gpp, gch, hgS, hm⟩ := h.up x g Xch hXg
    have hgx : g ≠ x := h.parent_ne hXg
    exact ⟨gpp, gch, hgS, hm, hgx, (hfresh g _ hgS hgx).1, (hfresh g _ hgS hgx).2⟩
  refine ⟨?_, ?_, ?_, ?_, ?_, ?_, ?_⟩
  · -- keys
    intro k
    by_cases h1 : k = a
    · subst h1; simp [hSa]
    · have b1 : (k == a) = false := by simpa using h1
      by_cases h2 : k = b
      · subst h2; simp [hSb]
      · have b2 : (k == b) = false := by simpa using h2
        by_cases h3 : k = x
        · subst h3
          simp [splitS, h1, h2]
        · have b3 : (k != x) = true := by simpa using h3
          rw [hS' k h1 h2 h3]
          simp [b1, b2, b3, ← h.keys k]
  · -- root_ok
    by_cases hg : gp = none
    · rw [if_pos hg]; exact ⟨a, b :: aCh, rfl, by rw [hSa, hg]⟩
    · rw [if_neg hg]
      obtain ⟨r, rch, hr, hSr⟩ := h.root_ok
      have hrx : r ≠ x := by intro e; rw [e, hX] at hSr; simp at hSr; exact hg hSr.1
      obtain ⟨hra, hrb⟩ := hfresh r _ hSr hrx
      refine ⟨r, rch.map (fun c => if c = x then a else c), hr, ?_⟩
      rw [hS' r hra hrb hrx, hSr]
      simp [splitRen]
  · -- root_uniq
    intro k ch hk
    rcases hcases k _ hk with ⟨rfl, e⟩ | ⟨rfl, e⟩ | ⟨h1, h2, h3, s, hs, e⟩
    · simp at e; simp [e.1]
    · simp at e
    · obtain ⟨pp, ch0⟩ := s
      simp only [splitRen, Prod.mk.injEq] at e
      have hpp : pp = none := by
        cases pp with
        | none => rfl
        | some p => simp at e; split at e <;> simp at e
      subst hpp
      have hroot := h.root_uniq k ch0 hs
      by_cases hg : gp = none
      · have := h.root_uniq x Xch (by rw [hX, hg])
        rw [hroot] at this; simp at this; exact absurd this h3
      · rw [if_neg hg]; exact hroot
  · -- up
    intro k p' ch' hk
    rcases hcases k _ hk with ⟨rfl, e⟩ | ⟨rfl, e⟩ | ⟨h1, h2, h3, s, hs, e⟩
    · simp at e
      obtain ⟨gpp, gch, hgS, hm, g1, g2, g3⟩ := hgp p' e.1.symm
      refine ⟨_, _, by rw [hS' p' g2 g3 g1, hgS]; rfl, ?_⟩
      simp only [splitRen]
      exact List.mem_map.mpr ⟨x, hm, by simp⟩
    · simp at e
      rw [e.1]
      exact ⟨gp, k :: aCh, hSa, by simp⟩
    · obtain ⟨pp, ch0⟩ := s
      simp only [splitRen, Prod.mk.injEq] at e
      obtain ⟨e1, e2⟩ := e
      cases pp with
      | none => simp at e1
      | some p0 =>
        simp only at e1
        obtain ⟨pp0, pch0, hp0, hkmem⟩ := h.up k p0 ch0 hs
        by_cases hp : p0 = x
        · simp only [hp, if_true, Option.some.injEq] at e1
          rw [hp, hX] at hp0
          simp at hp0
          have hkX : k ∈ Xch := by rw [hp0.2]; exact hkmem
          by_cases hka : k ∈ aCh
          · simp only [hka, if_true] at e1
            rw [e1]; exact ⟨gp, b :: aCh, hSa, by simp [hka]⟩
          · simp only [hka, if_false] at e1
            rw [e1]
            refine ⟨some a, bCh, hSb, ?_⟩
            rcases (hpart k).mp hkX with h' | h'
            · exact absurd h' hka
            · exact h'
        · simp only [hp, if_false, Option.some.injEq] at e1
          rw [e1]
          obtain ⟨q1, q2⟩ := hfresh p0 _ hp0 hp
          refine ⟨_, _, by rw [hS' p0 q1 q2 hp, hp0]; rfl, ?_⟩
          simp only [splitRen]
          exact List.mem_map.mpr ⟨k, hkmem, by simp [h3]⟩
  · -- down
    intro k pp' ch' c hk hc
    rcases hcases k _ hk with ⟨rfl, e⟩ | ⟨rfl, e⟩ | ⟨h1, h2, h3, s, hs, e⟩
    · simp at e
      rw [e.2] at hc
      rcases List.mem_cons.mp hc with rfl | hca
      · exact ⟨bCh, hSb⟩
      · obtain ⟨cch, hcS, c1, c2, c3⟩ := hchild c ((hpart c).mpr (Or.inl hca))
        refine ⟨cch.map (fun c => if c = x then k else c), ?_⟩
        rw [hS' c c2 c3 c1, hcS]
        simp [splitRen, hca]
    · simp at e
      rw [e.2] at hc
      obtain ⟨cch, hcS, c1, c2, c3⟩ := hchild c ((hpart c).mpr (Or.inr hc))
      have hca : c ∉ aCh := fun h' => hdisj c h' hc
      refine ⟨cch.map (fun c => if c = x then a else c), ?_⟩
      rw [hS' c c2 c3 c1, hcS]
      simp [splitRen, hca]
    · obtain ⟨pp, ch0⟩ := s
      simp only [splitRen, Prod.mk.injEq] at e
      obtain ⟨e1, e2⟩ := e
      rw [e2] at hc
      obtain ⟨c0, hc0, hcc⟩ := List.mem_map.mp hc
      obtain ⟨cch0, hc0S⟩ := h.down k pp ch0 c0 hs hc0
      by_cases hcx : c0 = x
      · simp only [hcx, if_true] at hcc
        rw [← hcc]
        rw [hcx, hX] at hc0S
        simp at hc0S
        exact ⟨b :: aCh, by rw [hSa, hc0S.1]⟩
      · simp only [hcx, if_false] at hcc
        rw [← hcc]
        obtain ⟨q1, q2⟩ := hfresh c0 _ hc0S hcx
        refine ⟨cch0.map (fun c => if c = x then a else c), ?_⟩
        rw [hS' c0 q1 q2 hcx, hc0S]
        simp [splitRen, h3]
  · -- nodup
    intro k pp' ch' hk
    rcases hcases k _ hk with ⟨rfl, e⟩ | ⟨rfl, e⟩ | ⟨h1, h2, h3, s, hs, e⟩
    · simp at e
      rw [e.2, List.nodup_cons]
      exact ⟨fun hm => hb_notin ((hpart b).mpr (Or.inl hm)), hnda⟩
    · simp at e; rw [e.2]; exact hndb
    · obtain ⟨pp, ch0⟩ := s
      simp only [splitRen, Prod.mk.injEq] at e
      rw [e.2]
      apply map_ite_nodup _ _ _ (h.nodup k pp ch0 hs)
      intro ham
      obtain ⟨ach, haS⟩ := h.down k pp ch0 a hs ham
      rcases ha with e' | e'
      · exact Or.inr e'.symm
      · rw [haS] at e'; simp at e'
  · -- depth
    obtain ⟨dp, hd⟩ := h.depth
    refine ⟨fun k => if k = a then 2 * dp x else if k = b then 2 * dp x + 1 else 2 * dp k, ?_⟩
    intro k p' ch' hk
    rcases hcases k _ hk with ⟨rfl, e⟩ | ⟨rfl, e⟩ | ⟨h1, h2, h3, s, hs, e⟩
    · simp at e
      obtain ⟨gpp, gch, hgS, hm, g1, g2, g3⟩ := hgp p' e.1.symm
      have := hd x p' Xch (by rw [hX, ← e.1])
      simp only [g2, g3, if_false, if_true]
      omega
    · simp at e
      rw [e.1]
      have : ¬ k = a := fun e => hab e.symm
      simp [this]
    · obtain ⟨pp, ch0⟩ := s
      simp only [splitRen, Prod.mk.injEq] at e
      obtain ⟨e1, -⟩ := e
      cases pp with
      | none => simp at e1
      | some p0 =>
        simp only at e1
        have hkd := hd k p0 ch0 hs
        by_cases hp : p0 = x
        · simp only [hp, if_true, Option.some.injEq] at e1
          rw [hp] at hkd
          simp only [h1, h2, if_false]
          by_cases hka : k ∈ aCh
          · simp only [hka, if_true] at e1
            rw [e1]; simp; omega
          · simp only [hka, if_false] at e1
            rw [e1]
            have : ¬ b = a := fun e => hab e.symm
            simp [this]; omega
        · simp only [hp, if_false, Option.some.injEq] at e1
          rw [e1]
          obtain ⟨pp0, pch0, hp0, -⟩ := h.up k p0 ch0 hs
          obtain ⟨q1, q2⟩ := hfresh p0 _ hp0 hp
          simp only [q1, q2, h1, h2, if_false]
          omega

/-! ### attaching a new leaf `cid` below `pid` -/

theorem addLeafS_swf {S : Id → Option Struct} {Tk : Id → Bool} {root : Option Id}
    (h : SWF S Tk root) (cid pid : Id) (pp : Option Id) (pch : List Id)
    (hP : S pid = some (pp, pch)) (hc : S cid = none) :
    SWF (fun k => if k = cid then some (some pid, []) else if k = pid then some (pp, pch ++ [cid]) else S k)
      (fun k => k == cid || Tk k) root := by
  have hcp : cid ≠ pid := by intro e; rw [e, hP] at hc; simp at hc
  have hpc : pid ≠ cid := fun e => hcp e.symm
  have hne : ∀ k s, S k = some s → k ≠ cid := by
    intro k s hk e; rw [e, hc] at hk; simp at hk
  have hcid_notin : cid ∉ pch := by
    intro hm
    obtain ⟨cch, e⟩ := h.down pid pp pch cid hP hm
    rw [hc] at e; simp at e
  refine ⟨?_, ?_, ?_, ?_, ?_, ?_, ?_⟩
  · intro k
    by_cases h1 : k = cid
    · simp [h1]
    · have b1 : (k == cid) = false := by simpa using h1
      by_cases h2 : k = pid
      · simp [h1, h2, hpc, ← h.keys pid, hP]
      · simp [h1, h2, b1, h.keys k]
  · obtain ⟨r, rch, hr, hSr⟩ := h.root_ok
    have hrc : r ≠ cid := hne r _ hSr
    by_cases hrp : r = pid
    · rw [hrp, hP] at hSr
      simp at hSr
      exact ⟨r, pch ++ [cid], hr, by rw [hrp]; simp [hpc, hSr.1]⟩
    · exact ⟨r, rch, hr, by simp [hrc, hrp, hSr]⟩
  · intro k ch hk
    by_cases h1 : k = cid
    · simp [h1] at hk
    · by_cases h2 : k = pid
      · simp [h1, h2, hpc] at hk
        exact h.root_uniq k pch (by rw [h2, hP, hk.1])
      · simp [h1, h2] at hk
        exact h.root_uniq k ch hk
  · intro k p ch hk
    by_cases h1 : k = cid
    · simp [h1] at hk
      obtain ⟨rfl, _⟩ := hk
      exact ⟨pp, pch ++ [cid], by simp [hpc], by simp [h1]⟩
    · have key : ∀ ch0, S k = some (some p, ch0) →
          ∃ pp' pch', (if p = cid then some (some pid, []) else if p = pid then some (pp, pch ++ [cid]) else S p) =
            some (pp', pch') ∧ k ∈ pch' := by
        intro ch0 hk0
        obtain ⟨pp0, pch0, hp0, hm⟩ := h.up k p ch0 hk0
        have hp1 : p ≠ cid := hne p _ hp0
        by_cases hp2 : p = pid
        · rw [hp2, hP] at hp0; simp at hp0
          exact ⟨pp, pch ++ [cid], by rw [hp2]; simp [hpc], by rw [hp0.2]; simp [hm]⟩
        · exact ⟨pp0, pch0, by simp [hp1, hp2, hp0], hm⟩
      by_cases h2 : k = pid
      · simp [h1, h2, hpc] at hk
        exact key pch (by rw [h2, hP, hk.1])
      · simp [h1, h2] at hk
        exact key ch hk
  · intro k pp' ch c hk hcm
    have key : ∀ ch0, S k = some (pp', ch0) → c ∈ ch0 →
        ∃ cch, (if c = cid then some (some pid, []) else if c = pid then some (pp, pch ++ [cid]) else S c) =
          some (some k, cch) := by
      intro ch0 hk0 hm
      obtain ⟨cch, hcS⟩ := h.down k pp' ch0 c hk0 hm
      have c1 : c ≠ cid := hne c _ hcS
      by_cases c2 : c = pid
      · rw [c2, hP] at hcS; simp at hcS
        exact ⟨pch ++ [cid], by rw [c2]; simp [hpc, hcS.1]⟩
      · exact ⟨cch, by simp [c1, c2, hcS]⟩
    by_cases h1 : k = cid
    · simp [h1] at hk
      obtain ⟨_, rfl⟩ := hk
      simp at hcm
    · by_cases h2 : k = pid
      · simp [h1, h2, hpc] at hk
        obtain ⟨e1, rfl⟩ := hk
        rcases List.mem_append.mp hcm with hm | hm
        · exact key pch (by rw [h2, hP, e1]) hm
        · simp at hm
          exact ⟨[], by simp [hm, h2]⟩
      · simp [h1, h2] at hk
        exact key ch hk hcm
  · intro k pp' ch hk
    by_cases h1 : k = cid
    · simp [h1] at hk
      obtain ⟨_, rfl⟩ := hk
      simp
    · by_cases h2 : k = pid
      · simp [h1, h2, hpc] at hk
        obtain ⟨_, rfl⟩ := hk
        rw [List.nodup_append]
        refine ⟨h.nodup pid pp pch hP, by simp, ?_⟩
        intro a ha b hb e
        simp at hb
        exact hcid_notin (by rw [← hb, ← e]; exact ha)
      · simp [h1, h2] at hk
        exact h.nodup k pp' ch hk
  · obtain ⟨dp, hd⟩ := h.depth
    refine ⟨fun k => if k = cid then dp pid + 1 else dp k, ?_⟩
    intro k p ch hk
    by_cases h1 : k = cid
    · simp [h1] at hk
      obtain ⟨rfl, _⟩ := hk
      simp [h1, hpc]
    · have key : ∀ ch0, S k = some (some p, ch0) → (if p = cid then dp pid + 1 else dp p) < dp k := by
        intro ch0 hk0
        obtain ⟨pp0, pch0, hp0, _⟩ := h.up k p ch0 hk0
        have hp1 : p ≠ cid := hne p _ hp0
        simp only [hp1, if_false]
        exact hd k p ch0 hk0
      simp only [h1, if_false]
      by_cases h2 : k = pid
      · simp [h1, h2, hpc] at hk
        exact key pch (by rw [h2, hP, hk.1])
      · simp [h1, h2] at hk
        exact key ch hk

/-! ### renaming the node `old` to the unused identifier `new` -/

def renId (old new : Id) (c : Id) : Id := if c = old then new else c

def renameRen (old new : Id) (s : Struct) : Struct :=
  (s.1.map (renId old new), s.2.map (renId old new))

def renameS (S : Id → Option Struct) (old new : Id) : Id → Option Struct :=
  fun k => if k = new then (S old).map (renameRen old new)
           else if k = old then none else (S k).map (renameRen old new)

theorem renameS_swf {S : Id → Option Struct} {Tk : Id → Bool} {root : Option Id}
    (h : SWF S Tk root) (old new : Id) (op : Option Id) (och : List Id)
    (hO : S old = some (op, och)) (hne : new ≠ old) (hnew : S new = none) :
    SWF (renameS S old new) (fun k => k == new || (Tk k && k != old))
      (if op = none then some new else root) := by
  have hon : old ≠ new := fun e => hne e.symm
  have hnode_ne : ∀ k s, S k = some s → k ≠ new := by
    intro k s hk e; rw [e, hnew] at hk; simp at hk
  -- image of an existing node
  have himg : ∀ k0 s, S k0 = some s → renameS S old new (renId old new k0) = some (renameRen old new s) := by
    intro k0 s hk
    by_cases e : k0 = old
    · subst e; simp [renId, renameS, hk]
    · have : k0 ≠ new := hnode_ne k0 s hk
      simp [renId, renameS, e, this, hk]
  -- every node of the new structure is such an image
  have hpre : ∀ k s', renameS S old new k = some s' →
      ∃ k0 s, S k0 = some s ∧ s' = renameRen old new s ∧ k = renId old new k0 := by
    intro k s' hk
    unfold renameS at hk
    by_cases h1 : k = new
    · simp only [h1, if_true] at hk
      rw [hO] at hk; simp at hk
      exact ⟨old, (op, och), hO, hk.symm, by simp [renId, h1]⟩
    · simp only [h1, if_false] at hk
      by_cases h2 : k = old
      · simp [h2] at hk
      · simp only [h2, if_false] at hk
        cases hs : S k with
        | none => rw [hs] at hk; simp at hk
        | some s => rw [hs] at hk; simp at hk; exact ⟨k, s, hs, hk.symm, by simp [renId, h2]⟩
  have hinj : ∀ a b sa sb, S a = some sa → S b = some sb → renId old new a = renId old new b → a = b := by
    intro a b sa sb ha hb e
    unfold renId at e
    by_cases e1 : a = old <;> by_cases e2 : b = old
    · rw [e1, e2]
    · simp [e1, e2] at e; exact absurd e.symm (hnode_ne b sb hb)
    · simp [e1, e2] at e; exact absurd e (hnode_ne a sa ha)
    · simpa [e1, e2] using e
  refine ⟨?_, ?_, ?_, ?_, ?_, ?_, ?_⟩
  · intro k
    unfold renameS
    by_cases h1 : k = new
    · simp [h1, hO]
    · have b1 : (k == new) = false := by simpa using h1
      by_cases h2 : k = old
      · have : (k != old) = false := by simp [h2]
        simp [h1, h2, hon]
      · have b2 : (k != old) = true := by simpa using h2
        simp [h1, h2, b1, b2, ← h.keys k]
  · obtain ⟨r, rch, hr, hSr⟩ := h.root_ok
    have := himg r _ hSr
    by_cases hop : op = none
    · rw [if_pos hop]
      have hro : root = some old := h.root_uniq old och (by rw [hO, hop])
      rw [hr] at hro; simp at hro; subst hro
      exact ⟨new, rch.map (renId r new), rfl, by simpa [renId, renameRen] using this⟩
    · rw [if_neg hop]
      have hro : r ≠ old := by intro e; rw [e, hO] at hSr; simp at hSr; exact hop hSr.1
      exact ⟨r, rch.map (renId old new), hr, by simpa [renId, renameRen, hro] using this⟩
  · intro k ch hk
    obtain ⟨k0, s, hs, e1, e2⟩ := hpre k _ hk
    obtain ⟨pp, ch0⟩ := s
    simp only [renameRen, Prod.mk.injEq] at e1
    have hpp : pp = none := by
      cases pp with
      | none => rfl
      | some p => simp at e1
    subst hpp
    have hroot := h.root_uniq k0 ch0 hs
    by_cases hop : op = none
    · rw [if_pos hop]
      have hro : root = some old := h.root_uniq old och (by rw [hO, hop])
      rw [hroot] at hro; simp at hro
      rw [e2, hro]; simp [renId]
    · rw [if_neg hop]
      have : k0 ≠ old := by intro e; rw [e, hO] at hs; simp at hs; exact hop hs.1
      rw [e2, hroot]; simp [renId, this]
  · intro k p' ch' hk
    obtain ⟨k0, s, hs, e1, e2⟩ := hpre k _ hk
    obtain ⟨pp, ch0⟩ := s
    simp only [renameRen, Prod.mk.injEq] at e1
    cases pp with
    | none => simp at e1
    | some p0 =>
      simp at e1
      obtain ⟨pp0, pch0, hp0, hm⟩ := h.up k0 p0 ch0 hs
      have := himg p0 _ hp0
      rw [e1.1] 
      refine ⟨_, _, this, ?_⟩
      simp only [renameRen]
      rw [e2]
      exact List.mem_map.mpr ⟨k0, hm, rfl⟩
  · intro k pp' ch' c hk hc
    obtain ⟨k0, s, hs, e1, e2⟩ := hpre k _ hk
    obtain ⟨pp, ch0⟩ := s
    simp only [renameRen, Prod.mk.injEq] at e1
    rw [e1.2] at hc
    obtain ⟨c0, hc0, hcc⟩ := List.mem_map.mp hc
    obtain ⟨cch, hcS⟩ := h.down k0 pp ch0 c0 hs hc0
    have := himg c0 _ hcS
    rw [← hcc, e2]
    exact ⟨cch.map (renId old new), by simpa [renameRen] using this⟩
  · intro k pp' ch' hk
    obtain ⟨k0, s, hs, e1, e2⟩ := hpre k _ hk
    obtain ⟨pp, ch0⟩ := s
    simp only [renameRen, Prod.mk.injEq] at e1
    rw [e1.2]
    apply map_ite_nodup _ _ _ (h.nodup k0 pp ch0 hs)
    intro hm
    obtain ⟨cch, hcS⟩ := h.down k0 pp ch0 new hs hm
    rw [hnew] at hcS; simp at hcS
  · obtain ⟨dp, hd⟩ := h.depth
    refine ⟨fun k => if k = new then dp old else dp k, ?_⟩
    have hdp : ∀ k0 s, S k0 = some s → (if renId old new k0 = new then dp old else dp (renId old new k0)) = dp k0 := by
      intro k0 s hk
      by_cases e : k0 = old
      · simp [renId, e]
      · have : k0 ≠ new := hnode_ne k0 s hk
        simp [renId, e, this]
    intro k p' ch' hk
    obtain ⟨k0, s, hs, e1, e2⟩ := hpre k _ hk
    obtain ⟨pp, ch0⟩ := s
    simp only [renameRen, Prod.mk.injEq] at e1
    cases pp with
    | none => simp at e1
    | some p0 =>
      simp at e1
      obtain ⟨pp0, pch0, hp0, _⟩ := h.up k0 p0 ch0 hs
      rw [e1.1, e2]
      show (if renId old new p0 = new then dp old else dp (renId old new p0)) <
        (if renId old new k0 = new then dp old else dp (renId old new k0))
      rw [hdp k0 _ hs, hdp p0 _ hp0]
      exact hd k0 p0 ch0 hs

/-! ### subdividing the edge `p – c` by the new node `new` -/

def subdivideS (S : Id → Option Struct) (c p new : Id) (cch : List Id) (pp : Option Id) (pch : List Id) :
    Id → Option Struct :=
  fun k => if k = new then some (some p, [c])
           else if k = c then some (some new, cch)
           else if k = p then some (pp, pch.map (fun x => if x = c then new else x))
           else S k

theorem subdivideS_swf {S : Id → Option Struct} {Tk : Id → Bool} {root : Option Id}
    (h : SWF S Tk root) (c p new : Id) (cch : List Id) (pp : Option Id) (pch : List Id)
    (hC : S c = some (some p, cch)) (hP : S p = some (pp, pch)) (hnew : S new = none) :
    SWF (subdivideS S c p new cch pp pch) (fun k => k == new || Tk k) root := by
  have hpc : p ≠ c := h.parent_ne hC
  have hcp : c ≠ p := fun e => hpc e.symm
  have hne : ∀ k s, S k = some s → k ≠ new := by
    intro k s hk e; rw [e, hnew] at hk; simp at hk
  have hcn : c ≠ new := hne c _ hC
  have hpn : p ≠ new := hne p _ hP
  have hc_in : c ∈ pch := by
    obtain ⟨pp', pch', e1, e2⟩ := h.up c p cch hC
    rw [hP] at e1; simp at e1; rw [e1.2]; exact e2
  have hnew_notin : ∀ k pp' ch, S k = some (pp', ch) → new ∉ ch := by
    intro k pp' ch hk hm
    obtain ⟨x, e⟩ := h.down k pp' ch new hk hm
    rw [hnew] at e; simp at e
  have hSn : subdivideS S c p new cch pp pch new = some (some p, [c]) := by simp [subdivideS]
  have hSc : subdivideS S c p new cch pp pch c = some (some new, cch) := by simp [subdivideS, hcn]
  have hSp : subdivideS S c p new cch pp pch p =
      some (pp, pch.map (fun x => if x = c then new else x)) := by simp [subdivideS, hpn, hpc]
  have hSo : ∀ k, k ≠ new → k ≠ c → k ≠ p → subdivideS S c p new cch pp pch k = S k := by
    intro k h1 h2 h3; simp [subdivideS, h1, h2, h3]
  have hcases : ∀ k s', subdivideS S c p new cch pp pch k = some s' →
      (k = new ∧ s' = (some p, [c])) ∨ (k = c ∧ s' = (some new, cch)) ∨
      (k = p ∧ s' = (pp, pch.map (fun x => if x = c then new else x))) ∨
      (k ≠ new ∧ k ≠ c ∧ k ≠ p ∧ S k = some s') := by
    intro k s' hk
    by_cases h1 : k = new
    · left; subst h1; rw [hSn] at hk; simp at hk; exact ⟨rfl, hk.symm⟩
    · by_cases h2 : k = c
      · right; left; subst h2; rw [hSc] at hk; simp at hk; exact ⟨rfl, hk.symm⟩
      · by_cases h3 : k = p
        · right; right; left; subst h3; rw [hSp] at hk; simp at hk; exact ⟨rfl, hk.symm⟩
        · right; right; right; rw [hSo k h1 h2 h3] at hk; exact ⟨h1, h2, h3, hk⟩
  -- an existing node k ∉ {c, p} seen in the new structure
  have hsame : ∀ k s, S k = some s → k ≠ c → k ≠ p → subdivideS S c p new cch pp pch k = some s := by
    intro k s hk h2 h3; rw [hSo k (hne k s hk) h2 h3, hk]
  refine ⟨?_, ?_, ?_, ?_, ?_, ?_, ?_⟩
  · intro k
    by_cases h1 : k = new
    · subst h1; simp [hSn]
    · have b1 : (k == new) = false := by simpa using h1
      by_cases h2 : k = c
      · subst h2; simp [hSc, b1, ← h.keys k, hC]
      · by_cases h3 : k = p
        · subst h3; simp [hSp, b1, ← h.keys k, hP]
        · rw [hSo k h1 h2 h3]; simp [b1, h.keys k]
  · obtain ⟨r, rch, hr, hSr⟩ := h.root_ok
    have hrc : r ≠ c := by intro e; rw [e, hC] at hSr; simp at hSr
    by_cases hrp : r = p
    · rw [hrp, hP] at hSr; simp at hSr
      exact ⟨r, _, hr, by rw [hrp, hSp, hSr.1]⟩
    · exact ⟨r, rch, hr, hsame r _ hSr hrc hrp⟩
  · intro k ch hk
    rcases hcases k _ hk with ⟨_, e⟩ | ⟨_, e⟩ | ⟨e1, e⟩ | ⟨_, _, _, e⟩
    · simp at e
    · simp at e
    · simp at e
      exact h.root_uniq k pch (by rw [e1, hP, ← e.1])
    · exact h.root_uniq k ch e
  · intro k q ch hk
    rcases hcases k _ hk with ⟨e1, e⟩ | ⟨e1, e⟩ | ⟨e1, e⟩ | ⟨n1, n2, n3, e⟩
    · simp at e
      rw [e1, e.1]
      exact ⟨pp, _, hSp, List.mem_map.mpr ⟨c, hc_in, by simp⟩⟩
    · simp at e
      rw [e1, e.1]
      exact ⟨some p, [c], hSn, by simp⟩
    · simp at e
      have hPq : S p = some (some q, pch) := by rw [hP, ← e.1]
      obtain ⟨gpp, gch, hg, hm⟩ := h.up p q pch hPq
      have g1 : q ≠ p := h.parent_ne hPq
      have g2 : q ≠ c := by intro e'; rw [e'] at hPq; exact h.no_two_cycle hPq hC
      rw [e1]
      exact ⟨gpp, gch, hsame q _ hg g2 g1, hm⟩
    · obtain ⟨qpp, qch, hq, hm⟩ := h.up k q ch e
      by_cases q1 : q = c
      · rw [q1, hC] at hq; simp at hq
        rw [q1]; exact ⟨some new, cch, hSc, by rw [hq.2]; exact hm⟩
      · by_cases q2 : q = p
        · rw [q2, hP] at hq; simp at hq
          rw [q2]
          refine ⟨pp, _, hSp, List.mem_map.mpr ⟨k, by rw [hq.2]; exact hm, by simp [n2]⟩⟩
        · exact ⟨qpp, qch, hsame q _ hq q1 q2, hm⟩
  · intro k pp' ch x hk hx
    rcases hcases k _ hk with ⟨e1, e⟩ | ⟨e1, e⟩ | ⟨e1, e⟩ | ⟨n1, n2, n3, e⟩
    · simp at e
      rw [e.2] at hx; simp at hx
      rw [hx, e1]; exact ⟨cch, hSc⟩
    · simp at e
      rw [e.2] at hx
      obtain ⟨xch, hxS⟩ := h.down c (some p) cch x hC hx
      have x1 : x ≠ c := fun e' => by rw [e'] at hxS; exact h.parent_ne hxS rfl
      have x2 : x ≠ p := by intro e'; rw [e'] at hxS; exact h.no_two_cycle hxS hC
      rw [e1]; exact ⟨xch, hsame x _ hxS x1 x2⟩
    · simp at e
      rw [e.2] at hx
      obtain ⟨x0, hx0, hxx⟩ := List.mem_map.mp hx
      by_cases hx0c : x0 = c
      · simp [hx0c] at hxx
        rw [← hxx, e1]; exact ⟨[c], hSn⟩
      · simp [hx0c] at hxx
        rw [← hxx]
        obtain ⟨xch, hxS⟩ := h.down p pp pch x0 hP hx0
        have x2 : x0 ≠ p := fun e' => by rw [e'] at hxS; exact h.parent_ne hxS rfl
        rw [e1]; exact ⟨xch, hsame x0 _ hxS hx0c x2⟩
    · obtain ⟨xch, hxS⟩ := h.down k pp' ch x e hx
      by_cases x1 : x = c
      · rw [x1, hC] at hxS; simp at hxS; exact absurd hxS.1.symm n3
      · by_cases x2 : x = p
        · rw [x2, hP] at hxS; simp at hxS
          rw [x2]; exact ⟨_, by rw [hSp, hxS.1]⟩
        · exact ⟨xch, hsame x _ hxS x1 x2⟩
  · intro k pp' ch hk
    rcases hcases k _ hk with ⟨e1, e⟩ | ⟨e1, e⟩ | ⟨e1, e⟩ | ⟨n1, n2, n3, e⟩
    · simp at e; rw [e.2]; simp
    · simp at e; rw [e.2]; exact h.nodup c _ _ hC
    · simp at e; rw [e.2]
      apply map_ite_nodup _ _ _ (h.nodup p _ _ hP)
      intro hm
      exact absurd hm (hnew_notin p pp pch hP)
    · exact h.nodup k pp' ch e
  · obtain ⟨dp, hd⟩ := h.depth
    refine ⟨fun k => if k = new then 2 * dp p + 1 else 2 * dp k, ?_⟩
    intro k q ch hk
    have hdpc := hd c p cch hC
    rcases hcases k _ hk with ⟨e1, e⟩ | ⟨e1, e⟩ | ⟨e1, e⟩ | ⟨n1, n2, n3, e⟩
    · simp at e
      rw [e1, e.1]; simp [hpn]
    · simp at e
      rw [e1, e.1]; simp [hcn]; omega
    · simp at e
      have hPq : S p = some (some q, pch) := by rw [hP, ← e.1]
      obtain ⟨gpp, gch, hg, _⟩ := h.up p q pch hPq
      have := hd p q pch hPq
      rw [e1]
      simp [hpn, hne q _ hg]; omega
    · obtain ⟨qpp, qch, hq, _⟩ := h.up k q ch e
      have := hd k q ch e
      simp [n1, hne q _ hq]; omega

end Ptn.C02
