import Ptn.C02.OpsLabels
/-! Building a network (`add_root`, `add_child_to_parent`) at the level of labels: a network built with
matching bond labels satisfies the label invariant `LWF`; hence every admissible history does.
Core Lean only. -/
namespace Ptn.C02
open NodeS

/-- After `add_root` there is a single node, without virtual legs. -/
theorem add_root_lwf {t t' : TTN} {id : Id} {T : Tensor} (hn : t.nodes = [])
    (hs : t.addRoot id T = some t') : t'.LWF := by
  unfold TTN.addRoot at hs
  split at hs
  · simp at hs
  · simp only [Option.some.injEq] at hs
    subst hs
    constructor
    intro k x ax hk
    exfalso
    obtain ⟨n, L, hN, _, hm⟩ := leg_node hk
    have hx := (List.of_mem_zip hm).1
    have hN' : n = NodeS.empty.linkTensor (shapeOf T) := by
      simp only [TTN.N, dget_dset, hn, dget_nil] at hN
      by_cases hki : k = id
      · simp [hki] at hN; exact hN.symm
      · simp [hki] at hN
    subst hN'
    simp [NodeS.neighbours, linkTensor, NodeS.empty] at hx

/-- Label admissibility of `add_child_to_parent(child, tensor, child_leg, parent, parent_leg)`: the axis
    of the new tensor that becomes the bond is the axis (label and dimension) of the parent's open leg it is
    attached to.  (The code itself only compares the dimensions.) -/
def ChildLAdm (t : TTN) (T : Tensor) (cl : Nat) (pid : Id) (pl : Nat) : Prop :=
  ∃ ax, T[cl]? = some ax ∧ (t.logical pid).bind (fun L => L[pl]?) = some ax

/-- **Where the legs go in `add_child_to_parent`**: the child gets one leg, to the parent, with the bond axis
    of its tensor; the parent gets one more leg, to the child, with the axis of the open leg that was used;
    all other legs are unchanged. -/
theorem add_child_labels {t t' : TTN} {cid pid : Id} {T : Tensor} {cl pl : Nat} (h : t.WF)
    (hs : t.addChildToParent cid T cl pid pl = some t') :
    t.N cid = none ∧ t.N pid ≠ none ∧
    ∃ ac ap, T[cl]? = some ac ∧ (t.logical pid).bind (fun L => L[pl]?) = some ap ∧
      t'.legPairs cid = [(pid, ac)] ∧ t'.legPairs pid = t.legPairs pid ++ [(cid, ap)] ∧
      (∀ k, k ≠ cid → k ≠ pid → t'.legPairs k = t.legPairs k ∧ t'.openAxes k = t.openAxes k) := by
  have w' := add_child_wf_aux h hs
  unfold TTN.addChildToParent at hs
  cases hP : dget t.nodes pid with
  | none => simp [hP, bind, Option.bind] at hs
  | some P =>
    simp only [hP, bind, Option.bind] at hs
    split at hs
    · simp at hs
    · by_cases hhas : dhas t.nodes cid = true
      · simp [hhas] at hs
      · simp only [hhas, Bool.false_eq_true, if_false] at hs
        cases hc1 : (NodeS.empty.linkTensor (shapeOf T)).openLegToParent pid (some cl) with
        | none => simp [hc1] at hs
        | some child' =>
          simp only [hc1] at hs
          cases hp1 : P.openLegToChild cid pl with
          | none => simp [hp1] at hs
          | some P' =>
            simp only [hp1, Option.some.injEq] at hs
            have hPN : t.N pid = some P := hP
            have hcN : t.N cid = none := by
              have := dhas_eq_isSome t.nodes cid
              cases hg : dget t.nodes cid with
              | none => exact hg
              | some _ => rw [hg] at this; simp at this; exact absurd this hhas
            have hcp : cid ≠ pid := by intro e; rw [e, hPN] at hcN; simp at hcN
            have hpc : ¬ pid = cid := fun e => hcp e.symm
            have hN : ∀ k, t'.N k = if k = pid then some P' else if k = cid then some child' else t.N k := by
              intro k
              subst hs
              simp only [TTN.N, dget_dset]
              by_cases h1 : k = pid
              · simp [h1]
              · by_cases h2 : k = cid <;> simp [h1, h2]
            have hT : ∀ k, dget t'.tensors k = if k = cid then some T else dget t.tensors k := by
              intro k; subst hs; simp [dget_dset]
            obtain ⟨_, c1, c2, _⟩ := openLegToParent_facts hc1
            obtain ⟨q1, q2, _⟩ := openLegToChild_facts hp1
            have hNc : t'.N cid = some child' := by rw [hN]; simp [hcp]
            have hNp : t'.N pid = some P' := by rw [hN]; simp
            -- the child: its first stored position is `cl`
            have hperm0 : child'.perm[0]? = some cl := by
              unfold openLegToParent at hc1
              split at hc1
              · simp at hc1
              · simp only at hc1
                split at hc1
                · simp at hc1
                · split at hc1
                  · simp at hc1
                  · rename_i v rest hpop
                    simp only [Option.some.injEq] at hc1
                    subst hc1
                    obtain ⟨A, B, e1, e2, _⟩ := pyPop_eq_some hpop
                    have hv : v = cl := by
                      have : (NodeS.empty.linkTensor (shapeOf T)).perm[cl]? = some v := by
                        rw [e1, ← e2]; simp
                      simp only [linkTensor] at this
                      have hlt := (List.getElem?_eq_some_iff.mp this).1
                      rw [List.getElem?_eq_getElem hlt, List.getElem_range] at this
                      exact (Option.some.inj this).symm
                    simp [pyInsert_zero, hv]
            obtain ⟨Lc, hLc, _⟩ := logical_some w' hNc
            have hTc' : dget t'.tensors cid = some T := by rw [hT]; simp
            have hLc' : transposeT T child'.perm = some Lc := by
              rw [logical_eq hNc hTc'] at hLc; exact hLc
            have hLc0 : Lc[0]? = T[cl]? := by
              rw [transposeT_getElem? hLc' 0, hperm0]; rfl
            -- the parent
            obtain ⟨Lp, hLp, hLpl⟩ := logical_some h hPN
            obtain ⟨TP, hTP, _⟩ := tensor_of_node h hPN
            have hLp' : transposeT TP P.perm = some Lp := by rw [logical_eq hPN hTP] at hLp; exact hLp
            obtain ⟨Lp2, hLp2, _⟩ := logical_some w' hNp
            have hTp' : dget t'.tensors pid = some TP := by rw [hT]; simp [hpc]; exact hTP
            have hLp2' : transposeT TP P'.perm = some Lp2 := by
              rw [logical_eq hNp hTp'] at hLp2; exact hLp2
            -- decomposition of the permutation
            have hdec : ∃ A1 A2 B v, P.perm = A1 ++ A2 ++ v :: B ∧ A1.length = P.nvirt ∧
                (A1 ++ A2).length = pl ∧ P'.perm = A1 ++ v :: (A2 ++ B) := by
              unfold openLegToChild at hp1
              split at hp1
              · simp at hp1
              · rename_i hchk
                have hchk' : P.openLegChecks pl = true := by simpa using hchk
                obtain ⟨_, hge⟩ := openLegChecks_true hchk'
                split at hp1
                · simp at hp1
                · rename_i v rest hpop
                  simp only [Option.some.injEq] at hp1
                  obtain ⟨A, B, e1, e2, e3⟩ := pyPop_eq_some hpop
                  refine ⟨A.take P.nvirt, A.drop P.nvirt, B, v, by rw [List.take_append_drop]; exact e1,
                    by rw [List.length_take]; omega, by rw [List.take_append_drop]; exact e2, ?_⟩
                  rw [← hp1]
                  simp only
                  rw [e3]
                  have hA : A = A.take P.nvirt ++ A.drop P.nvirt := (List.take_append_drop _ _).symm
                  have hl : (A.take P.nvirt).length = P.nvirt := by rw [List.length_take]; omega
                  have : pyInsert (A ++ B) (P.nparents + P.nchildren) v =
                      A.take P.nvirt ++ v :: (A.drop P.nvirt ++ B) := by
                    have := pyInsert_append_len (A.take P.nvirt) (A.drop P.nvirt ++ B) v
                    rw [hl] at this
                    rw [← List.append_assoc, List.take_append_drop] at this
                    exact this
                  exact this
            obtain ⟨A1, A2, B, v, e1, l1, l2, e2⟩ := hdec
            -- the two logical tensors in blocks
            have blocks : ∀ {perm : List Nat} {R : Tensor}, transposeT TP perm = some R →
                perm.mapM (fun i => TP[i]?) = some R := by
              intro perm R hR
              unfold transposeT at hR
              split at hR
              · simp at hR
              · split at hR
                · simp at hR
                · exact hR
            have m1 := blocks hLp'
            have m2 := blocks hLp2'
            rw [e1] at m1
            rw [e2] at m2
            obtain ⟨R12, R3, f1, f2, f3⟩ := mapM_append_some _ _ _ _ m1
            obtain ⟨R1, R2, g1, g2, g3⟩ := mapM_append_some _ _ _ _ f1
            obtain ⟨S1, S23, k1, k2, k3⟩ := mapM_append_some _ _ _ _ m2
            rw [g1] at k1; simp at k1; subst k1
            -- R3 = lv :: RB, S23 = lv :: (R2 ++ RB)
            rw [List.mapM_cons] at f2 k2
            cases hv : TP[v]? with
            | none => simp [hv] at f2
            | some lv =>
              cases hB : B.mapM (fun i => TP[i]?) with
              | none => simp [hv, hB] at f2
              | some RB =>
                simp [hv, hB] at f2
                cases hq : (A2 ++ B).mapM (fun i => TP[i]?) with
                | none => simp [hv, hq] at k2
                | some r =>
                obtain ⟨T2, TB, j1, j2, j3⟩ := mapM_append_some _ _ _ _ hq
                rw [g2] at j1; rw [hB] at j2
                simp at j1 j2
                subst j1 j2
                simp [hv, hq] at k2
                subst j3
                have hR1l : R1.length = P.nvirt := by rw [mapM_option_length _ _ _ g1, l1]
                have hR2l : R2.length = A2.length := mapM_option_length _ _ _ g2
                have hLpeq : Lp = R1 ++ R2 ++ lv :: RB := by rw [f3, g3, ← f2]
                have hLp2eq : Lp2 = R1 ++ lv :: (R2 ++ RB) := by rw [k3, ← k2]
                have hLppl : Lp[pl]? = some lv := by
                  rw [hLpeq]
                  have : pl = (R1 ++ R2).length := by
                    rw [List.length_append, hR1l, hR2l, ← l2, List.length_append, l1]
                  rw [this]; simp
                have hnbl : P.neighbours.length = R1.length := by rw [neighbours_length, hR1l]
                have hnb' : P'.neighbours = P.neighbours ++ [cid] := by
                  unfold NodeS.neighbours; rw [q1, q2, List.append_assoc]
                have hzip : P.neighbours.zip Lp = P.neighbours.zip R1 := by
                  rw [hLpeq]
                  have : P.neighbours.zip (R1 ++ R2 ++ lv :: RB) =
                      P.neighbours.zip R1 ++ ([] : List Id).zip (R2 ++ lv :: RB) := by
                    rw [← List.zip_append hnbl]; simp
                  rw [this]; simp
                have hzip2 : P'.neighbours.zip Lp2 = P.neighbours.zip R1 ++ [(cid, lv)] := by
                  rw [hnb', hLp2eq, List.zip_append hnbl]
                  cases R2 ++ RB <;> simp
                cases hTc : T[cl]? with
                | none =>
                  exfalso
                  obtain ⟨Lc', hx1, hx2⟩ := logical_some w' hNc
                  rw [hLc] at hx1; simp at hx1; subst hx1
                  have : 1 ≤ child'.nvirt := by simp [nvirt_def, nparents_some c1]
                  have hv' := (w'.node cid child' hNc).virt
                  have : 0 < Lc.length := by omega
                  rw [hTc] at hLc0
                  rw [List.getElem?_eq_getElem this] at hLc0
                  simp at hLc0
                | some ac =>
                  refine ⟨hcN, by rw [hPN]; simp, ac, lv, rfl, by rw [hLp]; exact hLppl, ?_, ?_, ?_⟩
                  · rw [legPairs_eq hNc hLc]
                    unfold NodeS.neighbours
                    rw [c1, c2]
                    rw [hTc] at hLc0
                    cases Lc with
                    | nil => simp at hLc0
                    | cons x Lc' =>
                      simp only [List.getElem?_cons_zero, Option.some.injEq] at hLc0
                      subst hLc0
                      simp [linkTensor, NodeS.empty]
                  · rw [legPairs_eq hNp hLp2, legPairs_eq hPN hLp, hzip, hzip2]
                  · intro k hk1 hk2
                    exact (labels_of_same (by rw [hN]; simp [hk1, hk2]) (by rw [hT]; simp [hk1])).2

/-- **`add_child_to_parent` with a matching bond axis preserves the label invariant.** -/
theorem add_child_lwf {t t' : TTN} {cid pid : Id} {T : Tensor} {cl pl : Nat} (h : t.WF) (hl : t.LWF)
    (hadm : ChildLAdm t T cl pid pl)
    (hs : t.addChildToParent cid T cl pid pl = some t') : t'.LWF := by
  obtain ⟨hcN, hpN, ac, ap, e1, e2, c1, c2, c3⟩ := add_child_labels h hs
  obtain ⟨ax, a1, a2⟩ := hadm
  rw [e1] at a1; rw [e2] at a2
  simp at a1 a2
  subst a1 a2
  have hcp : cid ≠ pid := fun e => hpN (e ▸ hcN)
  have no_c : ∀ k x a, t.Leg k x a → k ≠ cid ∧ x ≠ cid := by
    intro k x a hk
    refine ⟨fun e => leg_isNode hk (e ▸ hcN), fun e => ?_⟩
    have := hl.sym _ _ _ hk
    exact leg_isNode this (e ▸ hcN)
  constructor
  intro k x a hk
  unfold TTN.Leg at hk ⊢
  by_cases k1 : k = cid
  · rw [k1, c1] at hk
    simp at hk
    obtain ⟨rfl, rfl⟩ := hk
    rw [k1, c2]; simp
  · by_cases k2 : k = pid
    · rw [k2, c2] at hk
      rcases List.mem_append.mp hk with hk | hk
      · obtain ⟨_, hxc⟩ := no_c _ _ _ hk
        have hs' := hl.sym _ _ _ hk
        have hxp : x ≠ pid := fun e => leg_ne h hk e.symm
        rw [(c3 x hxc hxp).1, k2]
        exact hs'
      · simp at hk
        obtain ⟨rfl, rfl⟩ := hk
        rw [c1, k2]; simp
    · rw [(c3 k k1 k2).1] at hk
      obtain ⟨_, hxc⟩ := no_c _ _ _ hk
      have hs' : t.Leg x k a := hl.sym _ _ _ hk
      by_cases hxp : x = pid
      · rw [hxp, c2]
        rw [hxp] at hs'
        exact List.mem_append_left _ hs'
      · rw [(c3 x hxc hxp).1]
        exact hs'

/-! ### label-admissible histories -/

/-- Label admissibility of an operation: only `add_child_to_parent` has a condition (`ChildLAdm`). -/
def TOp.LAdm (t : TTN) : TOp → Prop
  | .child _ T cl pid pl => ChildLAdm t T cl pid pl
  | _ => True

/-- Runs in which every operation is admissible, label-admissible, and succeeds. -/
inductive TRunL : TTN → List TOp → TTN → Prop
  | nil (t : TTN) : TRunL t [] t
  | cons {t t1 t' : TTN} {op : TOp} {ops : List TOp} :
      op.Adm t → op.LAdm t → t.step op = some t1 → TRunL t1 ops t' → TRunL t (op :: ops) t'

theorem TRunL.toTRun {t t' : TTN} {ops : List TOp} (hr : TRunL t ops t') : TRun t ops t' := by
  induction hr with
  | nil => exact .nil _
  | cons a _ s _ ih => exact .cons a s ih

theorem step_lwf {t t' : TTN} (h : t.WF) (hl : t.LWF) (op : TOp) (hadm : op.Adm t) (hladm : op.LAdm t)
    (hs : t.step op = some t') : t'.LWF := by
  cases op with
  | root id T => exact add_root_lwf hadm.1 hs
  | child id T cl pid pl => exact add_child_lwf h hl hladm hs
  | access id => exact (edit_step_labels h hl _ hadm trivial hs).1
  | contract a b n => exact (edit_step_labels h hl _ hadm trivial hs).1
  | split id o i oid iid bd => exact (edit_step_labels h hl _ hadm trivial hs).1
  | ident c p n => exact (edit_step_labels h hl _ hadm trivial hs).1
  | rename n o => exact (edit_step_labels h hl _ hadm trivial hs).1
  | rtp id p => exact (edit_step_labels h hl _ hadm trivial hs).1

theorem runL_labels {t t' : TTN} {ops : List TOp} (h : t.WF) (hl : t.LWF) (hr : TRunL t ops t') :
    t'.WF ∧ t'.LWF := by
  induction hr with
  | nil => exact ⟨h, hl⟩
  | cons hadm hladm hs _ ih => exact ih (step_wf h _ hadm hs) (step_lwf h hl _ hadm hladm hs)

/-- Networks built from nothing with matching bond labels are well-formed and label-consistent. -/
theorem builtL_labels {t' : TTN} {id : Id} {T : Tensor} {ops : List TOp}
    (hr : TRunL TTN.empty (.root id T :: ops) t') : t'.WF ∧ t'.LWF := by
  cases hr with
  | cons hadm _ hs hrest =>
    exact runL_labels (add_root_wf_aux hadm.1 hadm.2 hs) (add_root_lwf hadm.1 hs) hrest

end Ptn.C02
