import Ptn.C02.Graph
/-! Network-level label invariant of the TTN model: definitions and basic facts.

Every stored axis carries a label (`Axis.lab`) and a dimension.  For a node `k` with logical axes `L`
(what `ttn.tensors[k]` shows: parent leg, child legs, open legs)

* `legPairs t k` pairs each neighbour with the axis of `k` that leads to it,
* `openAxes t k` are the open axes of `k`, in order,
* `t.Leg k x ax`: the leg of `k` towards `x` is the axis `ax`.

`LWF` (label well-formedness): the two ends of every bond are the same axis – same label, same
dimension.  `openList` lists the open axes of the whole network by node identifier, then position.
Core Lean only. -/
namespace Ptn.C02
open NodeS

/-- Parent (if any), then the children: the neighbours in the order of the virtual legs. -/
def NodeS.neighbours (n : NodeS) : List Id := n.parent.toList ++ n.children

theorem neighbours_length (n : NodeS) : n.neighbours.length = n.nvirt := by
  unfold NodeS.neighbours nvirt nparents nchildren
  cases n.parent <;> simp <;> omega

theorem mem_neighbours (n : NodeS) (x : Id) : x ∈ n.neighbours ↔ (n.parent = some x ∨ x ∈ n.children) := by
  unfold NodeS.neighbours
  cases hp : n.parent with
  | none => simp
  | some p =>
    simp only [Option.toList_some, List.mem_append, List.mem_cons, List.not_mem_nil, or_false,
      Option.some.injEq]
    constructor
    · rintro (e | e)
      · exact Or.inl e.symm
      · exact Or.inr e
    · rintro (e | e)
      · exact Or.inl e.symm
      · exact Or.inr e

/-- The virtual legs of node `k`: (neighbour, axis). -/
def TTN.legPairs (t : TTN) (k : Id) : List (Id × Axis) :=
  match t.N k, t.logical k with
  | some n, some L => n.neighbours.zip L
  | _, _ => []

/-- The open axes of node `k`, in order (`[]` when there is no such node). -/
def TTN.openAxes (t : TTN) (k : Id) : List Axis :=
  match t.N k, t.logical k with
  | some n, some L => L.drop n.nvirt
  | _, _ => []

/-- The leg of `k` towards its neighbour `x` is the axis `ax`. -/
def TTN.Leg (t : TTN) (k x : Id) (ax : Axis) : Prop := (x, ax) ∈ t.legPairs k

/-- **Label well-formedness**: every virtual leg has its partner at the other end of the bond – the same
    axis (label and dimension). -/
structure TTN.LWF (t : TTN) : Prop where
  sym : ∀ k x ax, t.Leg k x ax → t.Leg x k ax

theorem legPairs_eq {t : TTN} {k : Id} {n : NodeS} {L : Tensor} (hn : t.N k = some n)
    (hL : t.logical k = some L) : t.legPairs k = n.neighbours.zip L := by
  simp [TTN.legPairs, hn, hL]

theorem openAxes_eq {t : TTN} {k : Id} {n : NodeS} {L : Tensor} (hn : t.N k = some n)
    (hL : t.logical k = some L) : t.openAxes k = L.drop n.nvirt := by
  simp [TTN.openAxes, hn, hL]

theorem legPairs_none {t : TTN} {k : Id} (hn : t.N k = none) : t.legPairs k = [] := by
  simp [TTN.legPairs, hn]

theorem openAxes_none {t : TTN} {k : Id} (hn : t.N k = none) : t.openAxes k = [] := by
  simp [TTN.openAxes, hn]

theorem logical_eq {t : TTN} {k : Id} {n : NodeS} {T : Tensor} (hn : t.N k = some n)
    (hT : dget t.tensors k = some T) : t.logical k = transposeT T n.perm := by
  unfold TTN.logical
  have : dget t.nodes k = some n := hn
  simp [this, hT, bind, Option.bind]

theorem logical_none_of_N {t : TTN} {k : Id} (hn : t.N k = none) : t.logical k = none := by
  unfold TTN.logical
  have : dget t.nodes k = none := hn
  simp [this, bind, Option.bind]

/-! ### the logical tensor exists in a well-formed network -/

theorem transposeT_some_of_perm (T : Tensor) (perm : List Nat) (hp : perm.Perm (List.range perm.length))
    (hl : perm.length = T.length) : ∃ R, transposeT T perm = some R ∧ R.length = T.length := by
  have hnd : perm.Nodup := hp.symm.nodup List.nodup_range
  have hlt : ∀ i ∈ perm, i < T.length := by
    intro i hi
    have := hp.mem_iff.mp hi
    rw [List.mem_range] at this
    omega
  have : ∀ (p : List Nat), (∀ i ∈ p, i < T.length) → ∃ R, p.mapM (fun i => T[i]?) = some R := by
    intro p
    induction p with
    | nil => intro _; exact ⟨[], rfl⟩
    | cons a p ih =>
      intro h
      obtain ⟨R, hR⟩ := ih (fun i hi => h i (List.mem_cons_of_mem _ hi))
      have ha : a < T.length := h a (by simp)
      refine ⟨T[a] :: R, ?_⟩
      rw [List.mapM_cons, List.getElem?_eq_getElem ha, hR]
      rfl
  obtain ⟨R, hR⟩ := this perm hlt
  refine ⟨R, ?_, ?_⟩
  · unfold transposeT
    simp [hl, hnd, hR]
  · rw [mapM_option_length _ _ _ hR, hl]

theorem tensor_of_node {t : TTN} (h : t.WF) {k : Id} {n : NodeS} (hn : t.N k = some n) :
    ∃ T, dget t.tensors k = some T ∧ T.length = n.perm.length := by
  have hk := h.str.keys k
  rw [TTN.S_eq hn] at hk
  simp only [Option.isSome_some, TTN.hasT, dhas_eq_isSome] at hk
  cases hT : dget t.tensors k with
  | none => rw [hT] at hk; simp at hk
  | some T =>
    refine ⟨T, rfl, ?_⟩
    have hf := h.fit k n T hn hT
    have hw := (h.node k n hn).shp
    rw [← hw, ← hf]
    simp [shapeOf]

/-- In a well-formed network every node has its logical tensor, with one axis per leg. -/
theorem logical_some {t : TTN} (h : t.WF) {k : Id} {n : NodeS} (hn : t.N k = some n) :
    ∃ L, t.logical k = some L ∧ L.length = n.perm.length := by
  obtain ⟨T, hT, hTl⟩ := tensor_of_node h hn
  obtain ⟨R, hR, hRl⟩ := transposeT_some_of_perm T n.perm (h.node k n hn).perm hTl.symm
  exact ⟨R, by rw [logical_eq hn hT]; exact hR, by rw [hRl, hTl]⟩

/-! ### neighbours of a node of a well-formed network -/

theorem neighbours_nodup {t : TTN} (h : t.WF) {k : Id} {n : NodeS} (hn : t.N k = some n) :
    n.neighbours.Nodup := by
  have hS := TTN.S_eq hn
  have hnd := h.str.nodup k _ _ hS
  unfold NodeS.neighbours
  cases hp : n.parent with
  | none => simpa using hnd
  | some p =>
    simp only [Option.toList_some, List.singleton_append, List.nodup_cons]
    refine ⟨fun hm => ?_, hnd⟩
    rw [hp] at hS
    obtain ⟨cch, hc⟩ := h.str.down k _ _ p hS hm
    exact h.str.no_two_cycle hS hc

/-- Links are symmetric: `x` is a neighbour of `k` iff `k` is a neighbour of `x`. -/
theorem neighbours_symm {t : TTN} (h : t.WF) {k x : Id} {n : NodeS} (hn : t.N k = some n)
    (hx : x ∈ n.neighbours) : ∃ m, t.N x = some m ∧ k ∈ m.neighbours := by
  have hS := TTN.S_eq hn
  rcases (mem_neighbours n x).mp hx with hp | hc
  · rw [hp] at hS
    obtain ⟨pp, pch, e1, e2⟩ := h.str.up k x _ hS
    obtain ⟨m, hm, e⟩ := TTN.N_of_S e1
    simp at e
    exact ⟨m, hm, (mem_neighbours m k).mpr (Or.inr (e.2 ▸ e2))⟩
  · obtain ⟨cch, e1⟩ := h.str.down k _ _ x hS hc
    obtain ⟨m, hm, e⟩ := TTN.N_of_S e1
    simp at e
    exact ⟨m, hm, (mem_neighbours m k).mpr (Or.inl e.1.symm)⟩

theorem leg_node {t : TTN} {k x : Id} {ax : Axis} (hl : t.Leg k x ax) :
    ∃ n L, t.N k = some n ∧ t.logical k = some L ∧ (x, ax) ∈ n.neighbours.zip L := by
  unfold TTN.Leg TTN.legPairs at hl
  cases hn : t.N k with
  | none => simp [hn] at hl
  | some n =>
    cases hL : t.logical k with
    | none => simp [hn, hL] at hl
    | some L =>
      simp only [hn, hL] at hl
      exact ⟨n, L, rfl, rfl, hl⟩

theorem leg_neighbour {t : TTN} {k x : Id} {ax : Axis} {n : NodeS} (hn : t.N k = some n)
    (hl : t.Leg k x ax) : x ∈ n.neighbours := by
  obtain ⟨n', L, e1, _, e3⟩ := leg_node hl
  rw [hn] at e1; simp at e1; subst e1
  exact (List.of_mem_zip e3).1

/-- Every neighbour has its leg. -/
theorem leg_exists {t : TTN} (h : t.WF) {k x : Id} {n : NodeS} (hn : t.N k = some n)
    (hx : x ∈ n.neighbours) : ∃ ax, t.Leg k x ax := by
  obtain ⟨L, hL, hLl⟩ := logical_some h hn
  have hv := (h.node k n hn).virt
  obtain ⟨i, hi, rfl⟩ := List.getElem_of_mem hx
  have hi' : i < L.length := by rw [neighbours_length] at hi; omega
  refine ⟨L[i], ?_⟩
  unfold TTN.Leg
  rw [legPairs_eq hn hL]
  have : (n.neighbours.zip L)[i]'(by simp; omega) = (n.neighbours[i], L[i]) := by simp
  rw [← this]
  exact List.getElem_mem _

/-- A node has at most one leg towards a given neighbour. -/
theorem leg_unique {t : TTN} (h : t.WF) {k x : Id} {a1 a2 : Axis} (h1 : t.Leg k x a1) (h2 : t.Leg k x a2) :
    a1 = a2 := by
  obtain ⟨n, L, e1, e2, e3⟩ := leg_node h1
  have hnd := neighbours_nodup h e1
  unfold TTN.Leg at h2
  rw [legPairs_eq e1 e2] at h2
  obtain ⟨i, hi, ei⟩ := List.getElem_of_mem e3
  obtain ⟨j, hj, ej⟩ := List.getElem_of_mem h2
  simp only [List.getElem_zip, Prod.mk.injEq] at ei ej
  simp only [List.length_zip] at hi hj
  have hij : i = j := (List.getElem_inj hnd).mp (ei.1.trans ej.1.symm)
  subst hij
  exact ei.2.symm.trans ej.2

/-! ### nodes that are only re-linked keep their legs -/

/-- A node whose array and permutation are untouched and whose neighbour references are renamed by `ρ`
    keeps its legs (renamed) and its open axes. -/
theorem labels_of_rename {t t' : TTN} {k : Id} {n n' : NodeS} (ρ : Id → Id)
    (hn : t.N k = some n) (hn' : t'.N k = some n') (hperm : n'.perm = n.perm)
    (hnb : n'.neighbours = n.neighbours.map ρ) (hT : dget t'.tensors k = dget t.tensors k) :
    t'.logical k = t.logical k ∧
    t'.legPairs k = (t.legPairs k).map (fun e => (ρ e.1, e.2)) ∧ t'.openAxes k = t.openAxes k := by
  have hlog : t'.logical k = t.logical k := by
    unfold TTN.logical
    have e1 : dget t.nodes k = some n := hn
    have e2 : dget t'.nodes k = some n' := hn'
    simp only [e1, e2, hT, hperm, bind, Option.bind]
  have hnv : n'.nvirt = n.nvirt := by
    rw [← neighbours_length, ← neighbours_length, hnb, List.length_map]
  refine ⟨hlog, ?_, ?_⟩
  · unfold TTN.legPairs
    rw [hlog, hn, hn']
    cases hL : t.logical k with
    | none => simp
    | some L =>
      simp only
      rw [hnb, List.zip_map_left]
      apply List.map_congr_left
      intro e _
      rfl
  · unfold TTN.openAxes
    rw [hlog, hn, hn']
    cases hL : t.logical k with
    | none => rfl
    | some L => simp only [hnv]

theorem map_rho_id (l : List (Id × Axis)) : l.map (fun e => ((id : Id → Id) e.1, e.2)) = l := by
  induction l with
  | nil => rfl
  | cons x l ih => simp

/-- Same node object, same array: same legs. -/
theorem labels_of_same {t t' : TTN} {k : Id} (hN : t'.N k = t.N k)
    (hT : dget t'.tensors k = dget t.tensors k) :
    t'.logical k = t.logical k ∧ t'.legPairs k = t.legPairs k ∧ t'.openAxes k = t.openAxes k := by
  cases hn : t.N k with
  | none =>
    have hn' : t'.N k = none := by rw [hN, hn]
    refine ⟨by rw [logical_none_of_N hn, logical_none_of_N hn'],
      by rw [legPairs_none hn, legPairs_none hn'], by rw [openAxes_none hn, openAxes_none hn']⟩
  | some n =>
    have hn' : t'.N k = some n := by rw [hN, hn]
    obtain ⟨a, b, c⟩ := labels_of_rename (id : Id → Id) hn hn' rfl (by simp) hT
    exact ⟨a, by rw [b, map_rho_id], c⟩

/-! ### an access changes nothing -/

theorem transposeT_range (T : Tensor) : transposeT T (List.range T.length) = some T := by
  apply transposeT_of_range
where
  transposeT_of_range {T : Tensor} : transposeT T (List.range T.length) = some T := by
    unfold transposeT
    simp only [List.length_range, ne_eq, not_true_eq_false, if_false, List.nodup_range]
    have : ∀ (A B : Tensor), (List.range' A.length B.length).mapM (fun i => (A ++ B)[i]?) = some B := by
      intro A B
      induction B generalizing A with
      | nil => rfl
      | cons b B ih =>
        have h1 : List.range' A.length (b :: B).length = A.length :: List.range' (A.length + 1) B.length := by
          simp [List.range'_succ]
        rw [h1, List.mapM_cons]
        have h2 : (A ++ b :: B)[A.length]? = some b := by simp
        rw [h2]
        have h3 := ih (A ++ [b])
        simp only [List.length_append, List.length_cons, List.length_nil, Nat.zero_add,
          List.append_assoc, List.singleton_append] at h3
        rw [h3]
        rfl
    have := this [] T
    simpa [List.range_eq_range'] using this

theorem transposeT_len {T R : Tensor} {perm : List Nat} (h : transposeT T perm = some R) :
    R.length = perm.length ∧ perm.length = T.length := by
  unfold transposeT at h
  split at h
  · simp at h
  · rename_i hl
    split at h
    · simp at h
    · exact ⟨mapM_option_length _ _ _ h, by simpa using hl⟩

/-- `ttn.tensors[id]` (lazy transposition, permutation reset) leaves every logical tensor, every leg and
    every open axis where it is; the tensor returned is the logical tensor. -/
theorem access_labels {t t1 : TTN} {id : Id} {T : Tensor} (ha : t.access id = some (t1, T)) :
    t.logical id = some T ∧ (∀ k, t1.logical k = t.logical k) ∧
    (∀ k, t1.legPairs k = t.legPairs k) ∧ (∀ k, t1.openAxes k = t.openAxes k) := by
  obtain ⟨n, Ts, e1, e2, e3, ht1⟩ := access_eq ha
  have hn : t.N id = some n := e1
  have hlog : t.logical id = some T := by rw [logical_eq hn e2]; exact e3
  have hTl := (transposeT_len e3).1
  have hN1 : ∀ k, t1.N k = if k = id then some n.resetPermutation else t.N k := by
    intro k; subst ht1; simp [TTN.N, dget_dset]
  have hT1 : ∀ k, dget t1.tensors k = if k = id then some T else dget t.tensors k := by
    intro k; subst ht1; simp [dget_dset]
  have hlog1 : ∀ k, t1.logical k = t.logical k := by
    intro k
    by_cases hk : k = id
    · subst hk
      have a1 : t1.N k = some n.resetPermutation := by rw [hN1]; simp
      have a2 : dget t1.tensors k = some T := by rw [hT1]; simp
      rw [hlog, logical_eq a1 a2]
      simp only [resetPermutation]
      rw [← hTl]
      exact transposeT_range T
    · have a1 : t1.N k = t.N k := by rw [hN1]; simp [hk]
      have a2 : dget t1.tensors k = dget t.tensors k := by rw [hT1]; simp [hk]
      exact (labels_of_same a1 a2).1
  have hboth : ∀ k, t1.legPairs k = t.legPairs k ∧ t1.openAxes k = t.openAxes k := by
    intro k
    by_cases hk : k = id
    · subst hk
      have a1 : t1.N k = some n.resetPermutation := by rw [hN1]; simp
      have a2 : t1.logical k = some T := by rw [hlog1, hlog]
      rw [legPairs_eq a1 a2, legPairs_eq hn hlog, openAxes_eq a1 a2, openAxes_eq hn hlog]
      have : n.resetPermutation.nvirt = n.nvirt := nvirt_congr rfl rfl
      rw [this]
      exact ⟨rfl, rfl⟩
    · have a1 : t1.N k = t.N k := by rw [hN1]; simp [hk]
      have a2 : dget t1.tensors k = dget t.tensors k := by rw [hT1]; simp [hk]
      exact (labels_of_same a1 a2).2
  exact ⟨hlog, hlog1, fun k => (hboth k).1, fun k => (hboth k).2⟩

/-! ### small facts about `transposeT` -/

theorem mapM_getElem?_bind {T R : Tensor} {p : List Nat} (h : p.mapM (fun i => T[i]?) = some R) (i : Nat) :
    R[i]? = (p[i]?).bind (fun j => T[j]?) := by
  induction p generalizing R i with
  | nil => simp at h; subst h; simp
  | cons a p ih =>
    rw [List.mapM_cons] at h
    cases ha : T[a]? with
    | none => simp [ha] at h
    | some x =>
      cases hp : p.mapM (fun i => T[i]?) with
      | none => simp [ha, hp] at h
      | some r =>
        simp [ha, hp] at h
        subst h
        cases i with
        | zero => simp [ha]
        | succ i => simpa using ih hp i

theorem transposeT_getElem? {T R : Tensor} {perm : List Nat} (h : transposeT T perm = some R) (i : Nat) :
    R[i]? = (perm[i]?).bind (fun j => T[j]?) := by
  unfold transposeT at h
  split at h
  · simp at h
  · split at h
    · simp at h
    · exact mapM_getElem?_bind h i

/-- Transposing an array whose two axes are the same axis gives the same array. -/
theorem transposeT_pair (x : Axis) (perm : List Nat) (hp : perm.Perm (List.range perm.length))
    (hl : perm.length = 2) : transposeT [x, x] perm = some [x, x] := by
  match perm, hl with
  | [i, j], _ =>
    have hi : i ∈ List.range 2 := hp.mem_iff.mp (by simp)
    have hj : j ∈ List.range 2 := hp.mem_iff.mp (by simp)
    have hnd : [i, j].Nodup := hp.symm.nodup List.nodup_range
    rw [List.mem_range] at hi hj
    unfold transposeT
    simp only [List.length_cons, List.length_nil, ne_eq, not_true_eq_false, if_false, hnd, not_true_eq_false]
    have hi' : i = 0 ∨ i = 1 := by omega
    have hj' : j = 0 ∨ j = 1 := by omega
    rcases hi' with rfl | rfl <;> rcases hj' with rfl | rfl <;> simp

end Ptn.C02
