import Ptn.C02.SplitLabels
import Ptn.C02.IdentWF
import Ptn.C02.RenameWF
/-! `insert_identity`, `change_node_identifier`, `replace_tensor` (with a permutation) at the level of
labels, and preservation of the label invariant `LWF`.  Core Lean only. -/
namespace Ptn.C02
open NodeS

/-! ### `insert_identity` -/

/-- The renaming of references by `insert_identity(cid, pid, new)`, seen from node `k`. -/
def identRho (cid pid new : Id) (k : Id) (y : Id) : Id :=
  if (k = cid ∧ y = pid) ∨ (k = pid ∧ y = cid) then new else y

/-- **Where the legs go in `insert_identity`.**  The identity node has exactly two legs – to the parent and
    to the child – both carrying the axis of the bond they subdivide (a partner pair; no open axis); the
    child and the parent keep their axes, their mutual references now point to the identity; nothing else
    changes. -/
theorem ident_labels {t t' : TTN} {cid pid new : Id} (h : t.WF) (hnew : t.N new = none)
    (hs : t.insertIdentity cid pid new = some t') :
    ∃ ax, t.Leg cid pid ax ∧ t'.legPairs new = [(pid, ax), (cid, ax)] ∧ t'.openAxes new = [] ∧
      (∀ k, k ≠ new →
        t'.legPairs k = (t.legPairs k).map (fun e => (identRho cid pid new k e.1, e.2)) ∧
        t'.openAxes k = t.openAxes k) := by
  obtain ⟨w', C, P, hC, hP, hcp, hS, _, hT, hN, ax, hax, hlog⟩ := insert_identity_full h hnew hs
  have hSC : t.S cid = some (some pid, C.children) := by rw [TTN.S_eq hC, hcp]
  have hSP := TTN.S_eq hP
  have hpc : pid ≠ cid := h.str.parent_ne hSC
  have hcn : cid ≠ new := by intro e; rw [e, hnew] at hC; simp at hC
  have hpn : pid ≠ new := by intro e; rw [e, hnew] at hP; simp at hP
  have hSnew : t'.S new = some (some pid, [cid]) := by rw [hS]; simp [subdivideS]
  obtain ⟨nn, hnn, enn⟩ := TTN.N_of_S hSnew
  simp only [Prod.mk.injEq] at enn
  have hnb : nn.neighbours = [pid, cid] := by
    unfold NodeS.neighbours; rw [← enn.1, ← enn.2]; rfl
  refine ⟨ax, hax, ?_, ?_, ?_⟩
  · rw [legPairs_eq hnn hlog, hnb]; rfl
  · rw [openAxes_eq hnn hlog]
    have : nn.nvirt = 2 := by rw [← neighbours_length, hnb]; rfl
    rw [this]; rfl
  · intro k hk
    cases hn : t.N k with
    | none =>
      have hSk : t'.S k = none := by
        rw [hS]
        have h1 : k ≠ cid := fun e => by rw [e, hC] at hn; simp at hn
        have h2 : k ≠ pid := fun e => by rw [e, hP] at hn; simp at hn
        simp [subdivideS, hk, h1, h2, TTN.S, hn]
      have hn' : t'.N k = none := by
        cases hq : t'.N k with
        | none => rfl
        | some q => rw [TTN.S_eq hq] at hSk; simp at hSk
      rw [legPairs_none hn', legPairs_none hn, openAxes_none hn', openAxes_none hn]
      exact ⟨rfl, rfl⟩
    | some n =>
      obtain ⟨n', hn', hperm, _⟩ := hN k n hk hn
      have hSk' := TTN.S_eq hn'
      have hnbk : n'.neighbours = n.neighbours.map (identRho cid pid new k) := by
        rw [hS] at hSk'
        by_cases h1 : k = cid
        · subst h1
          rw [hC] at hn; simp at hn; subst hn
          simp only [subdivideS, hk, if_false, if_true, Option.some.injEq, Prod.mk.injEq] at hSk'
          unfold NodeS.neighbours
          rw [← hSk'.1, ← hSk'.2, hcp]
          have hpC : pid ∉ C.children := by
            intro hm
            obtain ⟨cch, e1⟩ := h.str.down k _ _ pid hSC hm
            exact h.str.no_two_cycle hSC e1
          rw [List.map_append]
          have e0 : [pid].map (identRho k pid new k) = [new] := by simp [identRho]
          show [new] ++ C.children = [pid].map (identRho k pid new k) ++ C.children.map (identRho k pid new k)
          rw [e0]
          congr 1
          symm
          have hid : ∀ y ∈ C.children, identRho k pid new k y = y := by
            intro y hy
            have h1 : y ≠ pid := fun e => hpC (e ▸ hy)
            have h2 : ¬ k = pid := fun e => hpc e.symm
            simp [identRho, h1, h2]
          rw [List.map_congr_left hid]; simp
        · by_cases h2 : k = pid
          · subst h2
            rw [hP] at hn; simp at hn; subst hn
            simp only [subdivideS, hk, h1, if_false, if_true, Option.some.injEq, Prod.mk.injEq] at hSk'
            unfold NodeS.neighbours
            rw [← hSk'.1, ← hSk'.2, List.map_append]
            have hPpar : ¬ P.parent = some cid := by
              intro e
              exact h.str.no_two_cycle (a := k) (b := cid) (by rw [hSP, e]) hSC
            congr 1
            · cases hp : P.parent with
              | none => rfl
              | some g =>
                have : g ≠ cid := fun e => hPpar (by rw [hp, e])
                simp [identRho, this, h1]
            · apply List.map_congr_left
              intro y _
              simp [identRho, h1]
          · simp only [subdivideS, hk, h1, h2, if_false] at hSk'
            rw [TTN.S_eq hn] at hSk'
            simp only [Option.some.injEq, Prod.mk.injEq] at hSk'
            unfold NodeS.neighbours
            rw [← hSk'.1, ← hSk'.2]
            have : identRho cid pid new k = id := by
              funext y; simp [identRho, h1, h2]
            rw [this]; simp
      obtain ⟨_, r2, r3⟩ := labels_of_rename (identRho cid pid new k) hn hn' hperm hnbk (hT k hk)
      exact ⟨r2, r3⟩

/-- **`insert_identity` preserves the label invariant** (it adds one partner pair of the bond's own label). -/
theorem ident_lwf {t t' : TTN} {cid pid new : Id} (h : t.WF) (hl : t.LWF) (hnew : t.N new = none)
    (hs : t.insertIdentity cid pid new = some t') : t'.LWF := by
  obtain ⟨ax, hax, c1, _, c2⟩ := ident_labels h hnew hs
  have hax' : t.Leg pid cid ax := hl.sym _ _ _ hax
  have hcn : cid ≠ new := fun e => by rw [e] at hax; exact leg_isNode hax hnew
  have hpn : pid ≠ new := fun e => by rw [e] at hax'; exact leg_isNode hax' hnew
  constructor
  intro k x' ax' hk
  by_cases hkn : k = new
  · subst hkn
    unfold TTN.Leg at hk
    rw [c1] at hk
    simp only [List.mem_cons, Prod.mk.injEq, List.not_mem_nil, or_false] at hk
    rcases hk with ⟨e1, e2⟩ | ⟨e1, e2⟩
    · subst e1 e2
      unfold TTN.Leg
      rw [(c2 x' hpn).1, List.mem_map]
      exact ⟨(cid, ax'), hax', by simp [identRho]⟩
    · subst e1 e2
      unfold TTN.Leg
      rw [(c2 x' hcn).1, List.mem_map]
      exact ⟨(pid, ax'), hax, by simp [identRho]⟩
  · unfold TTN.Leg at hk
    rw [(c2 k hkn).1, List.mem_map] at hk
    obtain ⟨⟨x, a⟩, hm, he⟩ := hk
    simp only [Prod.mk.injEq] at he
    obtain ⟨he1, he2⟩ := he
    subst he2
    have hsym : t.Leg x k a := hl.sym _ _ _ hm
    by_cases hc1 : k = cid ∧ x = pid
    · obtain ⟨rfl, rfl⟩ := hc1
      have : a = ax := leg_unique h hm hax
      subst this
      have : x' = new := by rw [← he1]; simp [identRho]
      rw [this]
      unfold TTN.Leg; rw [c1]; simp
    · by_cases hc2 : k = pid ∧ x = cid
      · obtain ⟨rfl, rfl⟩ := hc2
        have : a = ax := leg_unique h hm hax'
        subst this
        have : x' = new := by rw [← he1]; simp [identRho]
        rw [this]
        unfold TTN.Leg; rw [c1]; simp
      · have : x' = x := by rw [← he1]; simp [identRho, hc1, hc2]
        rw [this]
        have hxn : x ≠ new := fun e => by rw [e] at hsym; exact leg_isNode hsym hnew
        unfold TTN.Leg
        rw [(c2 x hxn).1, List.mem_map]
        refine ⟨(k, a), hsym, ?_⟩
        have n1 : ¬ (x = cid ∧ k = pid) := fun e => hc2 ⟨e.2, e.1⟩
        have n2 : ¬ (x = pid ∧ k = cid) := fun e => hc1 ⟨e.2, e.1⟩
        simp [identRho, n1, n2]

/-! ### `change_node_identifier` -/

def renRho (old new : Id) (y : Id) : Id := if y = old then new else y

/-- **Where the legs go in `change_node_identifier(new, old)`**: the renamed node keeps all its legs and
    open axes; every other node keeps its axes, its reference to `old` now reads `new`. -/
theorem rename_labels {t t' : TTN} {new old : Id} (h : t.WF) (hnew : new = old ∨ t.N new = none)
    (hs : t.changeNodeIdentifier new old = some t') :
    t.N old ≠ none ∧ t'.legPairs new = t.legPairs old ∧ t'.openAxes new = t.openAxes old ∧
    (new ≠ old → t'.legPairs old = [] ∧ t'.openAxes old = []) ∧
    (∀ k, k ≠ new → k ≠ old →
      t'.legPairs k = (t.legPairs k).map (fun e => (renRho old new e.1, e.2)) ∧
      t'.openAxes k = t.openAxes k) := by
  obtain ⟨X, Ts, L, hX, hTs, hL, hNn, hNo, hby, hT⟩ := rename_final h hnew hs
  have hlogo : t.logical old = some L := by rw [logical_eq hX hTs]; exact hL
  have hTl := (transposeT_len hL).1
  have hlogn : t'.logical new = some L := by
    have hTn : dget t'.tensors new = some L := by rw [hT]; simp
    rw [logical_eq hNn hTn]
    simp only [resetPermutation]
    rw [← hTl]
    exact transposeT_range L
  have hSX := TTN.S_eq hX
  refine ⟨by rw [hX]; simp, ?_, ?_, ?_, ?_⟩
  · rw [legPairs_eq hNn hlogn, legPairs_eq hX hlogo]; rfl
  · rw [openAxes_eq hNn hlogn, openAxes_eq hX hlogo]
    have : X.resetPermutation.nvirt = X.nvirt := nvirt_congr rfl rfl
    rw [this]
  · intro hne
    exact ⟨legPairs_none (hNo hne), openAxes_none (hNo hne)⟩
  · intro k hk1 hk2
    obtain ⟨b1, b2⟩ := hby k hk1 hk2
    cases hn : t.N k with
    | none =>
      have := b1 hn
      rw [legPairs_none this, legPairs_none hn, openAxes_none this, openAxes_none hn]
      exact ⟨rfl, rfl⟩
    | some n =>
      obtain ⟨n', q1, q2⟩ := b2 n hn
      have hT' : dget t'.tensors k = dget t.tensors k := by rw [hT]; simp [hk1, hk2]
      have hpar : n.parent = some old → (k ∈ X.children ↔ k ∉ ([] : List Id)) := by
        intro e
        obtain ⟨pp, pch, e1, e2⟩ := h.str.up k old n.children (by rw [TTN.S_eq hn, e])
        rw [hSX] at e1; simp at e1
        simp [e1.2 ▸ e2]
      have hrho : splitRho old new new ([] : List Id) k = renRho old new := by
        funext y; simp [splitRho, renRho]
      obtain ⟨_, r2, r3⟩ := labels_of_rename (splitRho old new new ([] : List Id) k) hn q1 q2.1
        (srel_neighbours q2 hpar (fun _ => by simp)) hT'
      rw [hrho] at r2
      exact ⟨r2, r3⟩

/-- **`change_node_identifier` preserves the label invariant.** -/
theorem rename_lwf {t t' : TTN} {new old : Id} (h : t.WF) (hl : t.LWF) (hnew : new = old ∨ t.N new = none)
    (hs : t.changeNodeIdentifier new old = some t') : t'.LWF := by
  obtain ⟨hold, c1, _, c3, c2⟩ := rename_labels h hnew hs
  have fresh : ∀ x, t.N x ≠ none → x ≠ old → x ≠ new := by
    intro x hx hxo e
    rcases hnew with e' | e'
    · exact hxo (e.trans e')
    · rw [e] at hx; exact hx e'
  constructor
  intro k x' ax hk
  by_cases hkn : k = new
  · subst hkn
    unfold TTN.Leg at hk
    rw [c1] at hk
    have hsym : t.Leg x' old ax := hl.sym _ _ _ hk
    have hxo : x' ≠ old := fun e => leg_ne h hk e.symm
    unfold TTN.Leg
    rw [(c2 x' (fresh x' (leg_isNode hsym) hxo) hxo).1, List.mem_map]
    exact ⟨(old, ax), hsym, by simp [renRho]⟩
  · by_cases hko : k = old
    · subst hko
      unfold TTN.Leg at hk
      rw [(c3 (fun e => hkn e.symm)).1] at hk
      simp at hk
    · unfold TTN.Leg at hk
      rw [(c2 k hkn hko).1, List.mem_map] at hk
      obtain ⟨⟨x, a⟩, hm, he⟩ := hk
      simp only [Prod.mk.injEq] at he
      obtain ⟨he1, he2⟩ := he
      subst he2
      have hsym : t.Leg x k a := hl.sym _ _ _ hm
      by_cases hxo : x = old
      · subst hxo
        have : x' = new := by rw [← he1]; simp [renRho]
        rw [this]
        unfold TTN.Leg
        rw [c1]
        exact hsym
      · have : x' = x := by rw [← he1]; simp [renRho, hxo]
        rw [this]
        unfold TTN.Leg
        rw [(c2 x (fresh x (leg_isNode hsym) hxo) hxo).1, List.mem_map]
        exact ⟨(k, a), hsym, by simp [renRho, hko]⟩

/-! ### `replace_tensor` with a permutation (same array, axes stored in another order) -/

theorem idxOf_getElem_nodup (l : List Nat) (hnd : l.Nodup) (i : Nat) (hi : i < l.length) :
    l.idxOf l[i] = i := by
  induction l generalizing i with
  | nil => simp at hi
  | cons a l ih =>
    rw [List.nodup_cons] at hnd
    cases i with
    | zero => simp
    | succ i =>
      simp only [List.getElem_cons_succ, List.length_cons] at hi ⊢
      have hne : (a == l[i]) = false := by
        have : a ≠ l[i] := fun e => hnd.1 (e ▸ List.getElem_mem _)
        simpa using this
      rw [List.idxOf_cons, hne]
      simp [ih hnd.2 i (by omega)]

/-- Storing the logical array with its axes permuted by the inverse of `q`, together with the permutation
    `q`, shows the same logical array. -/
theorem transposeT_inverse {cur newT : Tensor} {q : List Nat} (hq : q.Perm (List.range q.length))
    (hl : q.length = cur.length)
    (hnew : (List.range cur.length).mapM (fun j => cur[q.idxOf j]?) = some newT) :
    transposeT newT q = some cur := by
  have hnd : q.Nodup := hq.symm.nodup List.nodup_range
  have hnl : newT.length = cur.length := by rw [mapM_option_length _ _ _ hnew]; simp
  apply transposeT_of_map _ _ _ (by rw [hl, hnl]) hnd
  apply List.ext_getElem
  · simp [hl]
  · intro i h1 h2
    simp only [List.length_map] at h1 h2
    simp only [List.getElem_map]
    have hqi : q[i] < cur.length := by
      have : q[i] ∈ List.range q.length := hq.mem_iff.mp (List.getElem_mem _)
      rw [List.mem_range] at this; omega
    have hb := mapM_getElem?_bind (T := cur) (R := newT) (p := (List.range cur.length).map (fun j => q.idxOf j))
      (by rw [List.mapM_map]; exact hnew) q[i]
    rw [hb]
    simp [hqi, idxOf_getElem_nodup q hnd i h1, h2]

/-- **`replace_tensor(id, same array with permuted axes, permutation)` changes no leg and no open axis.** -/
theorem rtp_labels {t t' : TTN} {id : Id} {p : Option (List Nat)} (h : t.WF)
    (hp : ∀ q, p = some q → q.Perm (List.range q.length))
    (hs : t.replaceTensorPermuted id p = some t') :
    ∀ k, t'.logical k = t.logical k ∧ t'.legPairs k = t.legPairs k ∧ t'.openAxes k = t.openAxes k := by
  unfold TTN.replaceTensorPermuted at hs
  cases hl : t.logical id with
  | none => simp [hl, bind, Option.bind] at hs
  | some cur =>
    simp only [hl, bind, Option.bind] at hs
    -- common ending: the node keeps parent / children, the new pair (array, permutation) shows `cur`
    have fin : ∀ (newT : Tensor) (n n' : NodeS), t.N id = some n → n'.parent = n.parent →
        n'.children = n.children → transposeT newT n'.perm = some cur →
        t' = ⟨dset t.nodes id n', dset t.tensors id newT, t.root, t.nextLabel⟩ →
        ∀ k, t'.logical k = t.logical k ∧ t'.legPairs k = t.legPairs k ∧ t'.openAxes k = t.openAxes k := by
      intro newT n n' hn e1 e2 e3 ht' k
      have hN : ∀ k, t'.N k = if k = id then some n' else t.N k := by
        intro k; subst ht'; simp [TTN.N, dget_dset]
      have hT : ∀ k, dget t'.tensors k = if k = id then some newT else dget t.tensors k := by
        intro k; subst ht'; simp [dget_dset]
      by_cases hk : k = id
      · subst hk
        have a1 : t'.N k = some n' := by rw [hN]; simp
        have a2 : dget t'.tensors k = some newT := by rw [hT]; simp
        have hlog : t'.logical k = some cur := by rw [logical_eq a1 a2]; exact e3
        refine ⟨by rw [hlog, hl], ?_, ?_⟩
        · rw [legPairs_eq a1 hlog, legPairs_eq hn hl]
          unfold NodeS.neighbours; rw [e1, e2]
        · rw [openAxes_eq a1 hlog, openAxes_eq hn hl, nvirt_congr e1 e2]
      · exact labels_of_same (by rw [hN]; simp [hk]) (by rw [hT]; simp [hk])
    have unfoldRT : ∀ (newT : Tensor) (q : Option (List Nat)), t.replaceTensor id newT q = some t' →
        ∃ n n', t.N id = some n ∧ n.replaceTensor (shapeOf newT) q = some n' ∧
          t' = ⟨dset t.nodes id n', dset t.tensors id newT, t.root, t.nextLabel⟩ := by
      intro newT q hrt
      unfold TTN.replaceTensor at hrt
      cases hn : dget t.nodes id with
      | none => simp [hn, bind, Option.bind] at hrt
      | some n =>
        simp only [hn, bind, Option.bind] at hrt
        cases hr : n.replaceTensor (shapeOf newT) q with
        | none => simp [hr] at hrt
        | some n' =>
          simp only [hr, Option.some.injEq] at hrt
          exact ⟨n, n', hn, hr, hrt.symm⟩
    cases p with
    | none =>
      obtain ⟨n, n', hn, hr, ht'⟩ := unfoldRT cur none hs
      have hcl : cur.length = n.perm.length := by
        obtain ⟨T, hT, _⟩ := tensor_of_node h hn
        rw [logical_eq hn hT] at hl
        exact (transposeT_len hl).1
      have hr' : n' = n.resetPermutation := by
        unfold NodeS.replaceTensor at hr
        simp only at hr
        split at hr
        · simp only [Option.some.injEq] at hr; exact hr.symm
        · simp at hr
      subst hr'
      have e3 : transposeT cur n.resetPermutation.perm = some cur := by
        show transposeT cur (List.range n.perm.length) = some cur
        rw [← hcl]; exact transposeT_range cur
      exact fin cur n n.resetPermutation hn rfl rfl e3 ht'
    | some q =>
      simp only at hs
      split at hs
      · simp at hs
      · rename_i hlen
        split at hs
        · simp at hs
        · rename_i newT hnew
          obtain ⟨n, n', hn, hr, ht'⟩ := unfoldRT newT (some q) hs
          have hr' : n'.parent = n.parent ∧ n'.children = n.children ∧ n'.perm = q := by
            unfold NodeS.replaceTensor at hr
            simp only at hr
            split at hr
            · simp at hr
            · split at hr
              · simp only [Option.some.injEq] at hr; subst hr; exact ⟨rfl, rfl, rfl⟩
              · simp at hr
          have hlen' : q.length = cur.length := by
            by_cases e : q.length = cur.length
            · exact e
            · exact absurd e hlen
          exact fin newT n n' hn hr'.1 hr'.2.1 (by
            rw [hr'.2.2]
            exact transposeT_inverse (hp q rfl) hlen' hnew) ht'

/-- … hence it preserves the label invariant. -/
theorem rtp_lwf {t t' : TTN} {id : Id} {p : Option (List Nat)} (h : t.WF) (hl : t.LWF)
    (hp : ∀ q, p = some q → q.Perm (List.range q.length))
    (hs : t.replaceTensorPermuted id p = some t') : t'.LWF := by
  have c := rtp_labels h hp hs
  constructor
  intro k x ax hk
  unfold TTN.Leg at hk ⊢
  rw [(c k).2.1] at hk
  rw [(c x).2.1]
  exact hl.sym _ _ _ hk

/-- An access preserves the label invariant. -/
theorem access_lwf {t t1 : TTN} {id : Id} {T : Tensor} (hl : t.LWF) (ha : t.access id = some (t1, T)) :
    t1.LWF := by
  obtain ⟨_, _, c, _⟩ := access_labels ha
  constructor
  intro k x ax hk
  unfold TTN.Leg at hk ⊢
  rw [c k] at hk
  rw [c x]
  exact hl.sym _ _ _ hk

end Ptn.C02
