import Ptn.C02.SimIdent
/-! Histories: every admissible history of edits of the structural model, together with a choice of exact
factorisations for its splits, is simulated step by step at the value level; the abstracted network value is the same
before and after. -/
namespace Ptn.C02
open NodeS Ptn.Ein Ptn.C03

set_option linter.unusedSectionVars false
variable {R : Type} [CommSemiring R]

/-- **One step of the structural model together with its value-level image.**  The structural part is `t.step op = some
t1`.  The value-level part is determined by it, except for: the exact factorisation `F` of a split (the contract of the
external splitting routine) and the premises that the fresh labels have the dimension of the new bond (`split`,
`ident`); for `contract` / `ident` the bond `p` is the one between the two nodes (it exists and is unique:
`contract_nodes_simulates`, `insert_identity_simulates`). -/
inductive SimStep (dim : Nat → Nat) (e : Label → Nat) :
    TTN → LegMap → VNet R → TOp → TTN → LegMap → VNet R → Prop
  | access {t t1 : TTN} {g : LegMap} {v : VNet R} {id : Id} :
      t.step (.access id) = some t1 → SimStep dim e t g v (.access id) t1 g v
  | rtp {t t1 : TTN} {g : LegMap} {v : VNet R} {id : Id} {q : Option (List Nat)} :
      t.step (.rtp id q) = some t1 → SimStep dim e t g v (.rtp id q) t1 g v
  | contract {t t1 : TTN} {g : LegMap} {v : VNet R} {id1 id2 new pid cid : Id} {p : Nat × Nat} {C : NodeS} :
      t.step (.contract id1 id2 new) = some t1 →
      ((pid = id1 ∧ cid = id2) ∨ (pid = id2 ∧ cid = id1)) → t.N cid = some C → C.parent = some pid →
      p ∈ v.bonds → (p = (g pid cid, g cid pid) ∨ p = (g cid pid, g pid cid)) →
      SimStep dim e t g v (.contract id1 id2 new) t1 (contrG t pid cid new g)
        (simContract dim e g t t1 v pid cid new p)
  | split {t t1 : TTN} {g : LegMap} {v : VNet R} {id : Id} {outL inL : TTN.LegSpec} {outId inId : Id} {bd : Nat}
      (F : SplitFact dim (v.tens id) (splitOutLegs e g t1 id outId inId) (splitInLegs e g t1 id outId inId)
        v.next (v.next + 1)) :
      t.step (.split id outL inL outId inId bd) = some t1 → (dim v.next = bd ∧ dim (v.next + 1) = bd) →
      SimStep dim e t g v (.split id outL inL outId inId bd) t1 (splitG id outId inId v.next g)
        (simSplit dim e g t1 v id outId inId F)
  | ident {t t1 : TTN} {g : LegMap} {v : VNet R} {cid pid new : Id} {p : Nat × Nat} :
      t.step (.ident cid pid new) = some t1 →
      p ∈ v.bonds → (p = (g cid pid, g pid cid) ∨ p = (g pid cid, g cid pid)) →
      (∀ ax, t.Leg cid pid ax → dim v.next = ax.dim ∧ dim (v.next + 1) = ax.dim) →
      SimStep dim e t g v (.ident cid pid new) t1 (identG cid pid new v.next p g) (simIdent e g t1 v cid pid new p)
  | rename {t t1 : TTN} {g : LegMap} {v : VNet R} {new old : Id} :
      t.step (.rename new old) = some t1 →
      SimStep dim e t g v (.rename new old) t1 (renG old new g) (simRename e g t1 v old new)

theorem step_access_eq {t t1 : TTN} {id : Id} (hs : t.step (.access id) = some t1) :
    ∃ T, t.access id = some (t1, T) := by
  simp only [TTN.step] at hs
  cases ha : t.access id with
  | none => simp [ha] at hs
  | some r =>
    obtain ⟨t1', T⟩ := r
    simp [ha] at hs
    subst hs
    exact ⟨T, rfl⟩

/-- **Soundness of one simulated step**: the value-level image is reached by value-level steps (so it is well-formed and
has the same value) and is related to the new state of the structural model. -/
theorem simstep_sound (dim : Nat → Nat) (e : Label → Nat) {t t1 : TTN} {g g1 : LegMap} {v v1 : VNet R} {op : TOp}
    (h : t.WF) (hl : t.LWF) (hv : v.WF) (hs : RSim dim e g t v) (hadm : op.Adm t)
    (hst : SimStep dim e t g v op t1 g1 v1) :
    t.step op = some t1 ∧ op.isEdit ∧ SRun dim v v1 ∧ RSim dim e g1 t1 v1 := by
  cases hst with
  | access hstep =>
    obtain ⟨T, ha⟩ := step_access_eq hstep
    exact ⟨hstep, trivial, .nil _, access_simulates dim e hs ha⟩
  | rtp hstep =>
    exact ⟨hstep, trivial, .nil _, replace_tensor_simulates dim e h hs hadm hstep⟩
  | contract hstep hcfg hC hCp hp hpab =>
    obtain ⟨adm, hperm, hsim⟩ := contract_sim_core dim e h hv hs hadm hstep hcfg hC hCp hp hpab
    exact ⟨hstep, trivial, .cons (.base (.contract adm)) (.cons (.releg hperm) (.nil _)), hsim⟩
  | split F hstep hdim =>
    obtain ⟨X, hX⟩ := hadm
    obtain ⟨hrun, hsim⟩ := split_nodes_simulates dim e h hv hs hX hstep hdim F
    exact ⟨hstep, trivial, hrun, hsim⟩
  | ident hstep hp hpab hdim =>
    obtain ⟨⟨hnewv, hdimp⟩, hperm, hsim⟩ := ident_sim_core dim e h hl hv hs hadm hstep hp hpab hdim
    exact ⟨hstep, trivial, .cons (.base (.ident hp hnewv hdimp)) (.cons (.releg hperm) (.nil _)), hsim⟩
  | rename hstep =>
    obtain ⟨hrun, hsim⟩ := change_node_identifier_simulates dim e h hv hs hadm hstep
    exact ⟨hstep, trivial, hrun, hsim⟩

/-- **Completeness of the simulation**: every admissible edit of the structural model that succeeds has a value-level
image — for a split GIVEN an exact factorisation along the bipartition of the legs it describes, with fresh labels of
the new bond's dimension; for an identity insertion given fresh labels of the bond's dimension; for the other edits
unconditionally. -/
theorem simstep_complete (dim : Nat → Nat) (e : Label → Nat) {t t1 : TTN} {g : LegMap} {v : VNet R} {op : TOp}
    (h : t.WF) (hv : v.WF) (hs : RSim dim e g t v) (he : op.isEdit) (hadm : op.Adm t) (hstep : t.step op = some t1)
    (hsplit : ∀ id outL inL outId inId bd, op = .split id outL inL outId inId bd →
      dim v.next = bd ∧ dim (v.next + 1) = bd ∧
      Nonempty (SplitFact dim (v.tens id) (splitOutLegs e g t1 id outId inId) (splitInLegs e g t1 id outId inId)
        v.next (v.next + 1)))
    (hident : ∀ c p n, op = .ident c p n → ∀ ax, t.Leg c p ax → dim v.next = ax.dim ∧ dim (v.next + 1) = ax.dim) :
    ∃ g1 v1, SimStep dim e t g v op t1 g1 v1 := by
  cases op with
  | root id T => exact absurd he (by simp [TOp.isEdit])
  | child id T cl pid pl => exact absurd he (by simp [TOp.isEdit])
  | access id => exact ⟨_, _, .access hstep⟩
  | rtp id q => exact ⟨_, _, .rtp hstep⟩
  | contract a b n =>
    obtain ⟨pid, cid, p, hcfg, ⟨C, hC, hCp⟩, hp, hpab, _, _⟩ := contract_nodes_simulates dim e h hv hs hadm hstep
    exact ⟨_, _, .contract hstep hcfg hC hCp hp hpab⟩
  | split id o i oid iid bd =>
    obtain ⟨d1, d2, ⟨F⟩⟩ := hsplit id o i oid iid bd rfl
    exact ⟨_, _, .split F hstep ⟨d1, d2⟩⟩
  | ident c p n =>
    obtain ⟨ax, hax, _⟩ := ident_labels h hadm hstep
    have hpnb : p ∈ t.nbs c := mem_nbs.2 ⟨ax, hax⟩
    rcases hs.bondsIn c p hpnb with hb | hb
    · exact ⟨_, _, .ident hstep hb (Or.inl rfl) (hident c p n rfl)⟩
    · exact ⟨_, _, .ident hstep hb (Or.inr rfl) (hident c p n rfl)⟩
  | rename n o => exact ⟨_, _, .rename hstep⟩

/-- a history of simulated steps: every operation is admissible in the state it is applied to (the hypothesis of
`ops_preserve_wf`) and comes with its value-level image -/
inductive SimRun (dim : Nat → Nat) (e : Label → Nat) :
    TTN → LegMap → VNet R → List TOp → TTN → LegMap → VNet R → Prop
  | nil (t : TTN) (g : LegMap) (v : VNet R) : SimRun dim e t g v [] t g v
  | cons {t t1 t' : TTN} {g g1 g' : LegMap} {v v1 v' : VNet R} {op : TOp} {ops : List TOp} :
      op.Adm t → SimStep dim e t g v op t1 g1 v1 → SimRun dim e t1 g1 v1 ops t' g' v' →
      SimRun dim e t g v (op :: ops) t' g' v'

/-- **The structural history preserves the value.**  Let `t` be a well-formed, label-consistent state of the structural
model of the library's operations and `v` a well-formed valued network related to it (`RSim`: same nodes, the legs of
every node are its axis labels in axis order, the binding record is the set of edges of the tree).  For every
admissible history of edits `ops` (contractions, splits, identity insertions, identifier changes, tensor replacements
with a permutation, plain accesses — the hypothesis of `ops_preserve_wf`) and every choice of exact factorisations for
its splits (`SimRun`): the history is a run of the structural model (`TRun`) ending in a well-formed, label-consistent
state `t'`; the value-level images form a run ending in a well-formed valued network `v'` that is related to `t'` — in
particular the legs of every node of `v'`, open legs included, are where the structural model (the documented leg-order
rules: `contract_nodes_labels`, `split_nodes_labels`, …) places them — and the value of the network, as a function of
the assignment of its open legs, is the same before and after. -/
theorem structural_history_preserves_value (dim : Nat → Nat) (e : Label → Nat) {t t' : TTN} {g g' : LegMap}
    {v v' : VNet R} {ops : List TOp} (h : t.WF) (hl : t.LWF) (hv : v.WF) (hs : RSim dim e g t v)
    (hr : SimRun dim e t g v ops t' g' v') :
    TRun t ops t' ∧ (∀ op ∈ ops, op.isEdit) ∧ t'.WF ∧ t'.LWF ∧ v'.WF ∧ RSim dim e g' t' v' ∧ SRun dim v v' ∧
    ∀ σ, v'.value dim σ = v.value dim σ := by
  induction hr with
  | nil t g v => exact ⟨.nil _, by simp, h, hl, hv, hs, .nil _, fun _ => rfl⟩
  | cons hadm hst _ ih =>
    obtain ⟨hstep, hedit, hrun, hsim⟩ := simstep_sound dim e h hl hv hs hadm hst
    have hw1 := step_wf h _ hadm hstep
    have hl1 := (edit_step_labels h hl _ hadm hedit hstep).1
    obtain ⟨hv1, hval1⟩ := srun_value dim hv hrun
    obtain ⟨r2, e2, w2, l2, v2, s2, run2, val2⟩ := ih hw1 hl1 hv1 hsim
    refine ⟨.cons hadm hstep r2, ?_, w2, l2, v2, s2, hrun.trans run2, fun σ => (val2 σ).trans (hval1 σ)⟩
    intro op hop
    rcases List.mem_cons.1 hop with rfl | hop
    · exact hedit
    · exact e2 op hop

/-- the same with the ghost leg maps hidden -/
theorem structural_history_preserves_value_hidden (dim : Nat → Nat) (e : Label → Nat) {t t' : TTN} {g g' : LegMap}
    {v v' : VNet R} {ops : List TOp} (h : t.WF) (hl : t.LWF) (hv : v.WF) (hs : RSim dim e g t v)
    (hr : SimRun dim e t g v ops t' g' v') :
    R_sim dim e t' v' ∧ v'.WF ∧ ∀ σ, v'.value dim σ = v.value dim σ := by
  obtain ⟨_, _, _, _, v2, s2, _, val2⟩ := structural_history_preserves_value dim e h hl hv hs hr
  exact ⟨⟨g', s2⟩, v2, val2⟩

/-- what the relation says about the open legs: behind the virtual legs (one per neighbour) the leg list of node `k`
is the list of the open axes of `k` in the structural model, in order -/
theorem RSim.open_legs {dim : Nat → Nat} {e : Label → Nat} {g : LegMap} {t : TTN} {v : VNet R}
    (hs : RSim dim e g t v) {k : Id} (hk : k ∈ v.ids) :
    (v.legs k).drop (t.nbs k).length = (t.openAxes k).map (fun ax => e ax.lab) ∧
    (v.legs k).take (t.nbs k).length = (t.nbs k).map (g k) := by
  rw [hs.legs k hk]
  unfold simLegs
  constructor
  · rw [List.drop_left' (by simp)]
  · rw [List.take_left' (by simp)]

end Ptn.C02
