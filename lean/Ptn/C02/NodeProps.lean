import Ptn.C02.Model
import Ptn.C02.Lemmas
import Ptn.C02.NodeSpec
/-! Property theorems for C02, part 1 (imported by `Props.lean`).  Only property theorems and non-vacuity examples live here; helper
lemmas are in `Lemmas.lean`, `NodeSpec.lean`, ….

Part 1 — the Node leg-permutation machine (`pytreenet/core/node.py`).
The `_spec` theorems are in *segment form*: the logical legs `perm` are written as
`P ++ C ++ O` (parent leg, child legs, open legs; `|P| = nparents`, `|C| = nchildren`) and every
theorem says which stored axis ends up where – these are the "documented leg-order rules" of the
node methods.  They also state that the call succeeds for these (admissible) arguments. -/
namespace Ptn.C02
open NodeS

/-! ### Invariant -/

/-- Every method of the Node machine, called with valid arguments, keeps
    "the permutation is a permutation of `range n`, the stored shape has `n` entries, `nvirt ≤ nlegs`". -/
theorem node_ops_preserve_perm {s s' : NodeS} (h : WFN s) (op : NodeOp) (hv : op.Valid s)
    (hs : s.step op = some s') : WFN s' :=
  wfn_step h op hv hs

/-- … hence so does every finite sequence of method calls. -/
theorem node_op_sequences_preserve_perm (ops : List NodeOp) {s s' : NodeS} (h : WFN s)
    (hrun : NodeRun s ops s') : WFN s' := by
  induction hrun with
  | nil => exact h
  | cons hv hstep _ ih => exact ih (wfn_step h _ hv hstep)

example : NodeRun (NodeS.empty.linkTensor [2, 3, 4]) [.o2p 7 (some 1), .o2c 8 2, .p2o]
    ⟨[2, 0, 1], [2, 3, 4], none, [8]⟩ :=
  .cons trivial rfl (.cons trivial rfl (.cons trivial rfl (.nil _)))

example : WFN (NodeS.empty.linkTensor [2, 3, 4]) := wfn_linkTensor _ (by decide)

/-! ### `link_tensor`, `_reset_permutation`, `replace_tensor` -/

theorem link_tensor_spec (s : NodeS) (sh : List Nat) :
    (s.linkTensor sh).perm = List.range sh.length ∧ (s.linkTensor sh).shape = sh ∧
      (s.linkTensor sh).parent = s.parent ∧ (s.linkTensor sh).children = s.children := by
  refine ⟨rfl, ?_, rfl, rfl⟩
  simp only [shape, linkTensor]
  exact map_getD_range sh

/-- `_reset_permutation`: the stored array is now in logical order – the visible shape is unchanged. -/
theorem reset_permutation_spec (s : NodeS) :
    s.resetPermutation.perm = List.range s.perm.length ∧ s.resetPermutation.shp = s.shape ∧
      s.resetPermutation.shape = s.shape ∧
      s.resetPermutation.parent = s.parent ∧ s.resetPermutation.children = s.children := by
  refine ⟨rfl, rfl, ?_, rfl, rfl⟩
  have h := map_getD_range s.shape
  rw [shape_length] at h
  exact h

/-- `replace_tensor(tensor, permutation)` succeeds exactly when the permuted shape of the new tensor
    is the node's shape; afterwards the permutation is the given one and the visible shape is unchanged. -/
theorem replace_tensor_spec (s : NodeS) (tsh p : List Nat) (s' : NodeS)
    (hs : s.replaceTensor tsh (some p) = some s') :
    s'.perm = p ∧ s'.shp = tsh ∧ s'.shape = s.shape ∧ tsh.length = p.length ∧
      s'.parent = s.parent ∧ s'.children = s.children := by
  unfold replaceTensor at hs
  simp only at hs
  split at hs
  · simp at hs
  · rename_i sh hpi
    split at hs
    · rename_i heq
      simp only [Option.some.injEq] at hs
      subst hs
      refine ⟨rfl, rfl, ?_, (permuteIterator_length hpi).2, rfl, rfl⟩
      unfold permuteIterator at hpi
      split at hpi
      · simp at hpi
      · rw [← heq, mapM_getElem?_eq hpi]; rfl
    · simp at hs

theorem replace_tensor_none_spec (s : NodeS) (tsh : List Nat) :
    s.replaceTensor tsh none = if s.shape = tsh then some s.resetPermutation else none := rfl

example : (NodeS.mk [2, 0, 1] [5, 6, 7] (some 9) []).replaceTensor [6, 7, 5] (some [1, 2, 0]) =
    some ⟨[1, 2, 0], [6, 7, 5], some 9, []⟩ := by decide

/-! ### open leg → parent / child / children -/

/-- `open_leg_to_parent`: open leg number `|O1|` (stored axis `v`) becomes the parent leg, i.e. logical
    leg 0; all other legs keep their relative order. -/
theorem open_leg_to_parent_spec (s : NodeS) (pid : Id) (C O1 O2 : List Nat) (v : Nat)
    (hroot : s.parent = none) (hperm : s.perm = C ++ (O1 ++ v :: O2))
    (hC : C.length = s.nchildren) :
    s.openLegToParent pid (some (s.nvirt + O1.length)) =
      some { s with perm := [v] ++ C ++ (O1 ++ O2), parent := some pid } := by
  have hnv : s.nvirt = C.length := by simp [nvirt_def, nparents_none hroot, hC, nchildren]
  have hchk : s.openLegChecks (s.nvirt + O1.length) = true :=
    openLegChecks_of (by rw [hperm, hnv]; simp; omega) (by omega)
  have hpop : pyPop s.perm (s.nvirt + O1.length) = some (v, C ++ O1 ++ O2) := by
    rw [hperm, hnv]
    have := pyPop_append_len (C ++ O1) O2 v
    simpa using this
  simp [openLegToParent, isRoot, hroot, hchk, hpop, pyInsert_zero]

/-- `open_leg_to_child`: the moved leg becomes the **last child leg**, the child list grows at the
    end, the relative order of all other legs is unchanged. -/
theorem open_leg_to_child_spec (s : NodeS) (cid : Id) (P C O1 O2 : List Nat) (v : Nat)
    (hperm : s.perm = P ++ C ++ (O1 ++ v :: O2))
    (hP : P.length = s.nparents) (hC : C.length = s.nchildren) :
    s.openLegToChild cid (s.nvirt + O1.length) =
      some { s with perm := P ++ (C ++ [v]) ++ (O1 ++ O2), children := s.children ++ [cid] } := by
  have hnv : s.nvirt = (P ++ C).length := by simp [nvirt, hP, hC]
  have hchk : s.openLegChecks (s.nvirt + O1.length) = true :=
    openLegChecks_of (by rw [hperm, hnv]; simp; omega) (by omega)
  have hpop : pyPop s.perm (s.nvirt + O1.length) = some (v, P ++ C ++ O1 ++ O2) := by
    rw [hperm, hnv]
    have := pyPop_append_len (P ++ C ++ O1) O2 v
    simpa [Nat.add_assoc] using this
  have hins : pyInsert (P ++ (C ++ (O1 ++ O2))) (s.nparents + s.nchildren) v = P ++ (C ++ v :: (O1 ++ O2)) := by
    have := pyInsert_append_len (P ++ C) (O1 ++ O2) v
    rw [← hP, ← hC]
    simpa using this
  simp [openLegToChild, hchk, hpop, hins]

/-- `open_legs_to_children(child_dict)` with its read-all-values-first semantics: the legs named in
    the dict (positions in the **original** leg order) become the last child legs **in dict order**,
    whatever their original positions; the remaining open legs keep their relative order. -/
theorem open_legs_to_children_spec (s : NodeS) (d : List (Id × Nat)) (PC O vs : List Nat)
    (hperm : s.perm = PC ++ O) (hPC : PC.length = s.nvirt) (hnd : s.perm.Nodup)
    (hopen : ∀ e ∈ d, s.nvirt ≤ e.2) (hread : d.map (fun e => s.perm[e.2]?) = vs.map some)
    (hdist : (d.map Prod.snd).Nodup) :
    s.openLegsToChildren d =
      some { s with perm := PC ++ vs ++ O.filter (fun x => !vs.contains x),
                    children := s.children ++ d.map Prod.fst } := by
  have hlen : vs.length = d.length := by
    have := congrArg List.length hread
    simpa using this.symm
  unfold openLegsToChildren
  rw [o2cs_read_spec s.perm d vs hread]
  simp only
  -- facts about the value triples
  have hmap1 : ((d.zip vs).map (fun t => (t.1.1, t.1.2, t.2))).map (·.1) = d.map Prod.fst := by
    rw [List.map_map]
    have : d.map Prod.fst = (d.zip vs).map (fun t => t.1.1) := by
      conv => lhs; rw [← List.map_fst_zip (l₁ := d) (l₂ := vs) (by omega)]
      rw [List.map_map]; rfl
    rw [this]; rfl
  have hmap3 : ((d.zip vs).map (fun t => (t.1.1, t.1.2, t.2))).map (·.2.2) = vs := by
    rw [List.map_map]
    conv => rhs; rw [← List.map_snd_zip (l₁ := d) (l₂ := vs) (by omega)]
    rfl
  have hread' : (d.map Prod.snd).map (fun k => s.perm[k]?) = vs.map some := by
    rw [List.map_map]; exact hread
  have hvs_nd : vs.Nodup := values_nodup s.perm (d.map Prod.snd) vs hnd hdist hread'
  have hvs_O : ∀ x ∈ vs, x ∈ O := by
    apply values_mem_open PC O (d.map Prod.snd) vs
    · intro k hk
      obtain ⟨e, he, rfl⟩ := List.mem_map.mp hk
      rw [hPC]; exact hopen e he
    · rw [← hperm]; exact hread'
  have hfold := o2cs_fold_spec s.nvirt ((d.zip vs).map (fun t => (t.1.1, t.1.2, t.2))) s PC O hperm hPC
    (by rw [← hperm]; exact hnd)
    (by
      intro e he
      obtain ⟨t, ht, rfl⟩ := List.mem_map.mp he
      exact hopen t.1 (List.of_mem_zip ht).1)
    (by
      intro e he
      obtain ⟨t, ht, rfl⟩ := List.mem_map.mp he
      exact hvs_O _ (List.of_mem_zip ht).2)
    (by rw [hmap3]; exact hvs_nd)
  rw [hfold, hmap1, hmap3]

example : (NodeS.mk [0, 1, 2, 3, 4] [2, 3, 4, 5, 6] (some 9) []).openLegsToChildren [(7, 4), (8, 2)] =
    some ⟨[0, 4, 2, 1, 3], [2, 3, 4, 5, 6], some 9, [7, 8]⟩ := by decide

/-! ### parent / child legs → open legs -/

/-- `parent_leg_to_open_leg`: the former parent leg becomes the **last** open leg. -/
theorem parent_leg_to_open_leg_spec (s : NodeS) (p : Id) (v : Nat) (rest : List Nat)
    (hpar : s.parent = some p) (hperm : s.perm = v :: rest) :
    s.parentLegToOpenLeg = some { s with perm := rest ++ [v], parent := none } := by
  simp [parentLegToOpenLeg, isRoot, hpar, hperm, pyPop]

theorem parent_leg_to_open_leg_root_spec (s : NodeS) (hroot : s.parent = none) :
    s.parentLegToOpenLeg = some s := by
  cases s
  simp_all [parentLegToOpenLeg, isRoot]

/-- `child_leg_to_open_leg`: the leg of that child becomes the **last** open leg, the child leaves
    the child list, everything else keeps its relative order. -/
theorem child_leg_to_open_leg_spec (s : NodeS) (cid : Id) (K1 K2 : List Id) (P C1 C2 O : List Nat)
    (v : Nat) (hch : s.children = K1 ++ cid :: K2) (hnot : cid ∉ K1) (hpar : s.parent ≠ some cid)
    (hperm : s.perm = P ++ (C1 ++ v :: C2) ++ O) (hP : P.length = s.nparents)
    (hC1 : C1.length = K1.length) :
    s.childLegToOpenLeg cid =
      some { s with perm := P ++ (C1 ++ C2) ++ (O ++ [v]), children := K1 ++ K2 } := by
  have hmem : cid ∈ s.children := by rw [hch]; simp
  have hidx : s.neighbourIndex cid = some (K1.length + s.nparents) := by
    simp [neighbourIndex, hpar, hch, idxOf_append_not_mem K1 K2 cid hnot]
  have hpop : pyPop s.perm (K1.length + s.nparents) = some (v, P ++ C1 ++ (C2 ++ O)) := by
    rw [hperm, ← hP, ← hC1]
    have := pyPop_append_len (P ++ C1) (C2 ++ O) v
    simpa [Nat.add_comm] using this
  have her : s.children.erase cid = K1 ++ K2 := by
    rw [hch, List.erase_append_right _ hnot, List.erase_cons_head]
  simp [childLegToOpenLeg, hmem, hidx, hpop, her]

/-- `children_legs_to_open_legs`: the children are opened one after the other in list order (so the
    new open legs are the last legs, in the order of the list – by `child_leg_to_open_leg_spec`). -/
theorem children_legs_to_open_legs_spec (s : NodeS) (c : Id) (cs : List Id) :
    s.childrenLegsToOpenLegs [] = some s ∧
    s.childrenLegsToOpenLegs (c :: cs) =
      (s.childLegToOpenLeg c).bind (fun s1 => s1.childrenLegsToOpenLegs cs) := by
  constructor
  · simp [childrenLegsToOpenLegs]
  · simp only [childrenLegsToOpenLegs, List.foldlM_cons]
    rfl

example : (NodeS.mk [0, 1, 2, 3, 4] [2, 3, 4, 5, 6] (some 9) [7, 8]).childrenLegsToOpenLegs [8, 7] =
    some ⟨[0, 3, 4, 2, 1], [2, 3, 4, 5, 6], some 9, []⟩ := by decide

/-! ### reordering -/

/-- `exchange_open_leg_ranges`: the two batches `R1`, `R2` trade places, what lies before, between
    and after them stays.  (Lengths may be zero.) -/
theorem exchange_open_leg_ranges_spec (s : NodeS) (A R1 M R2 Z : List Nat)
    (hperm : s.perm = A ++ R1 ++ M ++ R2 ++ Z) :
    s.exchangeOpenLegRanges A.length (A.length + R1.length) (A.length + R1.length + M.length)
        (A.length + R1.length + M.length + R2.length) =
      some { s with perm := A ++ R2 ++ M ++ R1 ++ Z } := by
  have h0 : ¬ (A.length + R1.length + M.length < A.length) := by omega
  have hp2 : popMany s.perm (A.length + R1.length + M.length) R2.length = some (R2, A ++ R1 ++ M ++ Z) := by
    have := popMany_append (A ++ R1 ++ M) R2 Z
    have e : (A ++ R1 ++ M).length = A.length + R1.length + M.length := by
      simp only [List.length_append]
    rw [hperm, ← e]
    exact this
  have hp1 : popMany (A ++ R1 ++ M ++ Z) A.length R1.length = some (R1, A ++ (M ++ Z)) := by
    have := popMany_append A R1 (M ++ Z)
    have e : A ++ R1 ++ M ++ Z = A ++ R1 ++ (M ++ Z) := by simp
    rw [e]
    exact this
  have hs1 : sliceInsert (A ++ (M ++ Z)) A.length R2 = A ++ R2 ++ (M ++ Z) := sliceInsert_append_len _ _ _
  have hs2 : sliceInsert (A ++ R2 ++ (M ++ Z))
      (A.length + R2.length + (A.length + R1.length + M.length - (A.length + R1.length))) R1 =
      A ++ R2 ++ M ++ R1 ++ Z := by
    have := sliceInsert_append_len (A ++ R2 ++ M) Z R1
    have e : A.length + R2.length + (A.length + R1.length + M.length - (A.length + R1.length)) =
        (A ++ R2 ++ M).length := by simp; omega
    rw [e]
    simpa using this
  have e2 : A.length + R1.length + M.length + R2.length - (A.length + R1.length + M.length) = R2.length := by
    omega
  have e1 : A.length + R1.length - A.length = R1.length := by omega
  have hle : A.length + R1.length ≤ A.length + R1.length + M.length := by omega
  simp only [exchangeOpenLegRanges, h0, if_false, exchangeCore, hle, not_true_eq_false, e2, hp2, e1, hp1, hs1,
    hs2]

/-- Same result when the ranges are given in the other order (second batch first), provided the
    call passes the assertion `open_1.stop <= open_2.start` (it does not when both ranges start at
    the same position and the first one given is non-empty). -/
theorem exchange_open_leg_ranges_comm_spec (s : NodeS) (A R1 M R2 Z : List Nat)
    (hperm : s.perm = A ++ R1 ++ M ++ R2 ++ Z) (hpos : 0 < R1.length + M.length) :
    s.exchangeOpenLegRanges (A.length + R1.length + M.length)
        (A.length + R1.length + M.length + R2.length) A.length (A.length + R1.length) =
      some { s with perm := A ++ R2 ++ M ++ R1 ++ Z } := by
  have h0 : A.length < A.length + R1.length + M.length := by omega
  have := exchange_open_leg_ranges_spec s A R1 M R2 Z hperm
  have h1 : ¬ (A.length + R1.length + M.length < A.length) := by omega
  simp only [exchangeOpenLegRanges, h1, if_false] at this
  simp only [exchangeOpenLegRanges, h0, if_true]
  exact this

example : (NodeS.mk [0, 1, 2, 3, 4, 5] [2, 3, 4, 5, 6, 7] none [1]).exchangeOpenLegRanges 1 3 3 6 =
    some ⟨[0, 3, 4, 5, 1, 2], [2, 3, 4, 5, 6, 7], none, [1]⟩ := by decide

/-- `swap_two_child_legs`: the two children and their two legs trade places. -/
theorem swap_two_child_legs_spec (s : NodeS) (c1 c2 : Id) (K1 K2 K3 : List Id)
    (P C1 C2 C3 O : List Nat) (v1 v2 : Nat) (hne : c1 ≠ c2)
    (hch : s.children = K1 ++ c1 :: K2 ++ c2 :: K3)
    (hn1 : c1 ∉ K1) (hn2 : c2 ∉ K1 ∧ c2 ∉ K2)
    (hperm : s.perm = P ++ (C1 ++ v1 :: C2 ++ v2 :: C3) ++ O) (hP : P.length = s.nparents)
    (hC1 : C1.length = K1.length) (hC2 : C2.length = K2.length) :
    s.swapTwoChildLegs c1 c2 =
      some { s with perm := P ++ (C1 ++ v2 :: C2 ++ v1 :: C3) ++ O,
                    children := K1 ++ c2 :: K2 ++ c1 :: K3 } := by
  have hm1 : c1 ∈ s.children := by rw [hch]; simp
  have hm2 : c2 ∈ s.children := by rw [hch]; simp
  have hi1 : s.children.idxOf c1 = K1.length := by
    rw [hch]
    have : K1 ++ c1 :: K2 ++ c2 :: K3 = K1 ++ c1 :: (K2 ++ c2 :: K3) := by simp
    rw [this]; exact idxOf_append_not_mem _ _ _ hn1
  have hi2 : s.children.idxOf c2 = (K1 ++ c1 :: K2).length := by
    rw [hch]
    apply idxOf_append_not_mem
    simp [hn2.1, hn2.2, Ne.symm hne]
  have hg1 : s.perm[K1.length + s.nparents]? = some v1 := by
    rw [hperm, ← hP, ← hC1]
    have := getElem?_append_len (P ++ C1) (C2 ++ v2 :: C3 ++ O) v1
    simpa [Nat.add_comm] using this
  have hg2 : s.perm[(K1 ++ c1 :: K2).length + s.nparents]? = some v2 := by
    rw [hperm, ← hP]
    have := getElem?_append_len (P ++ C1 ++ v1 :: C2) (C3 ++ O) v2
    simp only [List.length_append, List.length_cons, hC1, hC2] at this ⊢
    have e : K1.length + (K2.length + 1) + P.length = P.length + K1.length + (K2.length + 1) := by omega
    rw [e]
    simpa using this
  have hset_ch : (s.children.set K1.length c2).set (K1 ++ c1 :: K2).length c1 = K1 ++ c2 :: K2 ++ c1 :: K3 := by
    rw [hch]
    have a1 : (K1 ++ c1 :: K2 ++ c2 :: K3).set K1.length c2 = K1 ++ c2 :: K2 ++ c2 :: K3 := by
      have := List.set_append_right (s := K1) (t := c1 :: K2 ++ c2 :: K3) K1.length c2 (Nat.le_refl _)
      simp
    rw [a1]
    have a2 := List.set_append_right (s := K1 ++ c2 :: K2) (t := c2 :: K3) (K1 ++ c1 :: K2).length c1
      (by simp)
    simp only [List.length_append, List.length_cons, Nat.sub_self, List.set_cons_zero] at a2
    simp
  have hset_p : (s.perm.set (K1.length + s.nparents) v2).set ((K1 ++ c1 :: K2).length + s.nparents) v1 =
      P ++ (C1 ++ v2 :: C2 ++ v1 :: C3) ++ O := by
    rw [hperm, ← hP]
    have a1 : (P ++ (C1 ++ v1 :: C2 ++ v2 :: C3) ++ O).set (K1.length + P.length) v2 =
        P ++ C1 ++ v2 :: (C2 ++ v2 :: C3 ++ O) := by
      have := set_append_len (P ++ C1) (C2 ++ v2 :: C3 ++ O) v1 v2
      simp only [List.length_append, hC1] at this
      rw [Nat.add_comm K1.length]
      simpa using this
    rw [a1]
    have a2 := set_append_len (P ++ C1 ++ v2 :: C2) (C3 ++ O) v2 v1
    simp only [List.length_append, List.length_cons, hC1, hC2] at a2 ⊢
    have e : K1.length + (K2.length + 1) + P.length = P.length + K1.length + (K2.length + 1) := by omega
    rw [e]
    simpa using a2
  simp only [swapTwoChildLegs, hm1, hm2, hne, not_true_eq_false, if_false, hi1, hi2, hg1, hg2, hset_ch, hset_p]

example : (NodeS.mk [0, 1, 2, 3, 4] [2, 3, 4, 5, 6] (some 9) [5, 6, 7]).swapTwoChildLegs 7 5 =
    some ⟨[0, 3, 2, 1, 4], [2, 3, 4, 5, 6], some 9, [7, 6, 5]⟩ := by decide

end Ptn.C02
