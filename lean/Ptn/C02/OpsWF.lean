import Ptn.C02.SplitWF
import Ptn.C02.RenameWF
import Ptn.C02.IdentWF
/-! Admissible operations and runs of the TTN model.  Core Lean only. -/
namespace Ptn.C02

/-- The harness' use of `replace_tensor` (same values, axes permuted) keeps the network well-formed. -/
theorem rtp_wf_aux {t t' : TTN} {id : Id} {p : Option (List Nat)} (h : t.WF)
    (hp : ∀ q, p = some q → q.Perm (List.range q.length))
    (hs : t.replaceTensorPermuted id p = some t') : t'.WF := by
  unfold TTN.replaceTensorPermuted at hs
  cases hl : t.logical id with
  | none => simp [hl, bind, Option.bind] at hs
  | some cur =>
    simp only [hl, bind, Option.bind] at hs
    cases p with
    | none => exact replace_tensor_wf_aux h hp hs
    | some q =>
      simp only at hs
      split at hs
      · simp at hs
      · split at hs
        · simp at hs
        · exact replace_tensor_wf_aux h hp hs

/-- Admissibility of one operation in the state `t` (what the documentation asks of the caller):
    * `root`: the network is empty;  `child`: nothing beyond what the code checks itself;
    * `access`: nothing;
    * `contract a b new`: the new identifier is `a`, `b`, or unused;
    * `split`: `SplitAdm` (children partitioned, exactly one side takes the parent / the root flag,
      identifiers = the old one or unused);
    * `ident c p new` (insert_identity): `new` unused;
    * `rename new old`: `new = old` or unused;
    * `rtp` (replace_tensor with a permutation): the permutation is a permutation. -/
def TOp.Adm (t : TTN) : TOp → Prop
  | .root _ _ => t.nodes = [] ∧ t.tensors = []
  | .child _ _ _ _ _ => True
  | .access _ => True
  | .contract a b n => n = a ∨ n = b ∨ t.N n = none
  | .split id o i oid iid _ => ∃ X, SplitAdm t id X o i oid iid
  | .ident _ _ n => t.N n = none
  | .rename n o => n = o ∨ t.N n = none
  | .rtp _ p => ∀ q, p = some q → q.Perm (List.range q.length)

/-- Runs: every operation is admissible in the state it is applied to, and succeeds. -/
inductive TRun : TTN → List TOp → TTN → Prop
  | nil (t : TTN) : TRun t [] t
  | cons {t t1 t' : TTN} {op : TOp} {ops : List TOp} :
      op.Adm t → t.step op = some t1 → TRun t1 ops t' → TRun t (op :: ops) t'

theorem step_wf {t t' : TTN} (h : t.WF) (op : TOp) (hadm : op.Adm t) (hs : t.step op = some t') : t'.WF := by
  cases op with
  | root id T => exact add_root_wf_aux hadm.1 hadm.2 hs
  | child id T cl pid pl => exact add_child_wf_aux h hs
  | access id =>
    simp only [TTN.step] at hs
    cases ha : t.access id with
    | none => simp [ha] at hs
    | some r =>
      obtain ⟨t1, T⟩ := r
      simp [ha] at hs
      subst hs
      exact access_wf h ha
  | contract a b n => exact contract_nodes_wf_aux h hadm hs
  | split id o i oid iid bd =>
    obtain ⟨X, hX⟩ := hadm
    exact split_nodes_wf_aux h hX hs
  | ident c p n => exact insert_identity_wf_aux h hadm hs
  | rename n o => exact rename_wf_aux h hadm hs
  | rtp id p => exact rtp_wf_aux h hadm hs

theorem run_wf {t t' : TTN} {ops : List TOp} (h : t.WF) (hr : TRun t ops t') : t'.WF := by
  induction hr with
  | nil => exact h
  | cons hadm hs _ ih => exact ih (step_wf h _ hadm hs)

/-- Networks built from nothing: `add_root` first, then anything admissible. -/
theorem built_wf {t' : TTN} {id : Id} {T : Tensor} {ops : List TOp}
    (hr : TRun TTN.empty (.root id T :: ops) t') : t'.WF := by
  cases hr with
  | cons hadm hs hrest =>
    exact run_wf (add_root_wf_aux hadm.1 hadm.2 hs) hrest

end Ptn.C02
