import Ptn.C02.BuildWF
import Ptn.C02.ContractWF
/-! `insert_identity` preserves well-formedness.  Core Lean only. -/
namespace Ptn.C02
open NodeS

theorem wfn_nodeOfTensor (T : Tensor) : WFN (nodeOfTensor T) := by
  refine ⟨?_, ?_, ?_⟩
  · simp [nodeOfTensor]
  · simp [nodeOfTensor, shapeOf]
  · simp [nodeOfTensor, nvirt, nparents, nchildren]

/-- **`insert_identity(child, parent, new)` keeps the network well-formed** when `new` is unused. -/
theorem insert_identity_full {t t' : TTN} {cid pid new : Id} (h : t.WF) (hnew : t.N new = none)
    (hs : t.insertIdentity cid pid new = some t') :
    t'.WF ∧ ∃ C P, t.N cid = some C ∧ t.N pid = some P ∧ C.parent = some pid ∧
      t'.S = subdivideS t.S cid pid new C.children P.parent P.children ∧ t'.root = t.root ∧
      (∀ k, k ≠ new → dget t'.tensors k = dget t.tensors k) ∧
      (∀ k n, k ≠ new → t.N k = some n → ∃ n', t'.N k = some n' ∧ n'.perm = n.perm ∧ n'.shp = n.shp) ∧
      (∃ ax, t.Leg cid pid ax ∧ t'.logical new = some [ax, ax]) := by
  unfold TTN.insertIdentity at hs
  cases hC : dget t.nodes cid with
  | none => simp [hC, bind, Option.bind] at hs
  | some C =>
    cases hP : dget t.nodes pid with
    | none => simp [hC, hP, bind, Option.bind] at hs
    | some P =>
      simp only [hC, hP, bind, Option.bind] at hs
      by_cases hcp : C.parent = some pid
      · by_cases hmem : cid ∈ P.children
        · simp only [hcp, ne_eq, not_true_eq_false, if_false, hmem] at hs
          have hCN : t.N cid = some C := hC
          have hPN : t.N pid = some P := hP
          have hstr := h.str
          have hSC : t.S cid = some (some pid, C.children) := by rw [TTN.S_eq hCN, hcp]
          have hSP := TTN.S_eq hPN
          have hpc : pid ≠ cid := hstr.parent_ne hSC
          have hPpar : ¬ P.parent = some cid := by
            intro e
            exact hstr.no_two_cycle (a := pid) (b := cid) (by rw [hSP, e]) hSC
          -- the child
          have hC' : TTN.replaceNeighbour C pid new = some { C with parent := some new } := by
            simp [TTN.replaceNeighbour, hcp]
          simp only [hC'] at hs
          have hP1 : dget (dset t.nodes cid { C with parent := some new }) pid = some P := by
            rw [dget_dset]; simp [hpc, hP]
          simp only [hP1] at hs
          cases hP' : TTN.replaceNeighbour P cid new with
          | none => simp [hP'] at hs
          | some P' =>
            simp only [hP'] at hs
            have hrc : TTN.replaceChild P cid new = some P' := by
              simpa [TTN.replaceNeighbour, hPpar, hmem] using hP'
            obtain ⟨_, r1, r2, r3, r4⟩ := replaceChild_eq (hstr.nodup pid _ _ hSP) hrc
            -- the identity node
            cases ha0 : C.perm[0]? with
            | none => simp [ha0] at hs
            | some a0 =>
              simp only [ha0] at hs
              cases hdim : C.shp[a0]? with
              | none => simp [hdim] at hs
              | some dim =>
                simp only [hdim] at hs
                cases hct : dget t.tensors cid with
                | none => simp [hct] at hs
                | some childTensor =>
                  simp only [hct] at hs
                  cases hba : childTensor[a0]? with
                  | none => simp [hba] at hs
                  | some bondAxis =>
                    simp only [hba] at hs
                    cases hi1 : (nodeOfTensor [⟨bondAxis.lab, dim⟩, ⟨bondAxis.lab, dim⟩]).openLegToParent pid (some 0) with
                    | none => simp [hi1] at hs
                    | some idNode1 =>
                      simp only [hi1] at hs
                      cases hi2 : idNode1.openLegToChild cid 1 with
                      | none => simp [hi2] at hs
                      | some idNode2 =>
                        simp only [hi2, Option.some.injEq] at hs
                        subst hs
                        obtain ⟨_, i1, i2, i3⟩ := openLegToParent_facts hi1
                        obtain ⟨j1, j2, j3⟩ := openLegToChild_facts hi2
                        have hwI : WFN idNode2 :=
                          wfn_openLegToChild (wfn_openLegToParent (wfn_nodeOfTensor _) pid (some 0) hi1) cid 1 hi2
                        have hcn : cid ≠ new := by intro e; rw [e, hnew] at hCN; simp at hCN
                        have hpn : pid ≠ new := by intro e; rw [e, hnew] at hPN; simp at hPN
                        have hN : ∀ k, TTN.N (⟨dset (dset (dset t.nodes cid { C with parent := some new }) pid P') new idNode2,
                            dset t.tensors new [⟨bondAxis.lab, dim⟩, ⟨bondAxis.lab, dim⟩], t.root, t.nextLabel⟩ : TTN) k =
                            if k = new then some idNode2 else if k = pid then some P'
                            else if k = cid then some { C with parent := some new } else t.N k := by
                          intro k
                          simp only [TTN.N, dget_dset]
                        have hS : TTN.S (⟨dset (dset (dset t.nodes cid { C with parent := some new }) pid P') new idNode2,
                            dset t.tensors new [⟨bondAxis.lab, dim⟩, ⟨bondAxis.lab, dim⟩], t.root, t.nextLabel⟩ : TTN) =
                            subdivideS t.S cid pid new C.children P.parent P.children := by
                          funext k
                          unfold subdivideS
                          simp only [TTN.S, hN k]
                          by_cases h1 : k = new
                          · simp [h1, structOf, j1, i1, j2, i2, nodeOfTensor]
                          · by_cases h2 : k = cid
                            · have : ¬ cid = pid := fun e => hpc e.symm
                              simp [h1, h2, hcn, this, structOf]
                            · by_cases h3 : k = pid
                              · simp [h1, h2, h3, hpn, hpc, structOf, r3, r4]
                              · simp [h1, h2, h3]
                        refine ⟨⟨?_, ?_, ?_⟩, C, P, hCN, hPN, hcp, hS, rfl, ?_, ?_, ?_⟩
                        rotate_left 3
                        · intro k hk
                          simp [dget_dset, hk]
                        · intro k n hk hn
                          rw [hN]
                          by_cases h3 : k = pid
                          · rw [h3, hPN] at hn
                            have e : P = n := Option.some.inj hn
                            rw [← e]
                            exact ⟨P', by rw [h3]; simp [hpn], r1, r2⟩
                          · by_cases h2 : k = cid
                            · rw [h2, hCN] at hn
                              have e : C = n := Option.some.inj hn
                              rw [← e]
                              exact ⟨{ C with parent := some new }, by
                                have hcp' : ¬ cid = pid := fun e => hpc e.symm
                                rw [h2]; simp [hcn, hcp'], rfl, rfl⟩
                            · exact ⟨n, by simp [hk, h2, h3, hn], rfl, rfl⟩
                        · -- the identity carries the axis of the bond at both of its legs
                          have hfit := h.fit cid C childTensor hCN hct
                          have hdim' : dim = bondAxis.dim := by
                            rw [← hfit] at hdim
                            simp only [shapeOf, List.getElem?_map, hba, Option.map_some, Option.some.injEq] at hdim
                            exact hdim.symm
                          have hax : (⟨bondAxis.lab, dim⟩ : Axis) = bondAxis := by rw [hdim']
                          obtain ⟨Lc, hLc, _⟩ := logical_some h hCN
                          have hLc0 : Lc[0]? = some bondAxis := by
                            rw [logical_eq hCN hct] at hLc
                            rw [transposeT_getElem? hLc 0, ha0]
                            exact hba
                          refine ⟨bondAxis, ?_, ?_⟩
                          · unfold TTN.Leg
                            rw [legPairs_eq hCN hLc]
                            unfold NodeS.neighbours
                            rw [hcp]
                            cases Lc with
                            | nil => simp at hLc0
                            | cons x Lc' =>
                              simp only [List.getElem?_cons_zero, Option.some.injEq] at hLc0
                              subst hLc0
                              simp
                          · have hNn := hN new
                            simp only [if_true] at hNn
                            have hTn : dget (dset t.tensors new
                                [(⟨bondAxis.lab, dim⟩ : Axis), ⟨bondAxis.lab, dim⟩]) new =
                                some [bondAxis, bondAxis] := by
                              rw [dget_dset, hax]; simp
                            rw [logical_eq hNn hTn]
                            apply transposeT_pair _ _ hwI.perm
                            rw [← hwI.shp, j3, i3]
                            rfl
                        · have hT : TTN.hasT (⟨dset (dset (dset t.nodes cid { C with parent := some new }) pid P') new idNode2,
                              dset t.tensors new [⟨bondAxis.lab, dim⟩, ⟨bondAxis.lab, dim⟩], t.root, t.nextLabel⟩ : TTN) =
                              fun k => k == new || t.hasT k := by
                            funext k; simp [TTN.hasT, dhas_dset]
                          rw [hS, hT]
                          exact subdivideS_swf hstr cid pid new C.children P.parent P.children hSC hSP
                            (by simp [TTN.S, hnew])
                        · intro k n hk
                          rw [hN] at hk
                          by_cases h1 : k = new
                          · simp only [h1, if_true, Option.some.injEq] at hk; subst hk; exact hwI
                          · by_cases h3 : k = pid
                            · subst h3
                              simp only [hpn, if_false, if_true, Option.some.injEq] at hk
                              subst hk
                              have hw := h.node k P hPN
                              refine ⟨by rw [r1]; exact hw.perm, by rw [r1, r2]; exact hw.shp, ?_⟩
                              have hv := hw.virt
                              have hnp : P'.nparents = P.nparents := nparents_congr r3
                              simp only [nvirt_def, hnp, r4, List.length_map, r1] at hv ⊢
                              exact hv
                            · by_cases h2 : k = cid
                              · subst h2
                                simp only [hcn, h3, if_false, if_true, Option.some.injEq] at hk
                                subst hk
                                have hw := h.node k C hCN
                                refine ⟨hw.perm, hw.shp, ?_⟩
                                have hv := hw.virt
                                have hnp : ({ C with parent := some new } : NodeS).nparents = C.nparents := by
                                  rw [nparents_some (s := { C with parent := some new }) rfl, nparents_some hcp]
                                simp only [nvirt_def, hnp] at hv ⊢
                                exact hv
                              · simp only [h1, h2, h3, if_false] at hk
                                exact h.node k n hk
                        · intro k n T' hk hT'
                          rw [hN] at hk
                          simp only [dget_dset] at hT'
                          by_cases h1 : k = new
                          · simp only [h1, if_true, Option.some.injEq] at hk hT'
                            subst hk; subst hT'
                            rw [j3, i3]
                            rfl
                          · simp only [h1, if_false] at hT'
                            by_cases h3 : k = pid
                            · subst h3
                              simp only [hpn, if_false, if_true, Option.some.injEq] at hk
                              subst hk
                              rw [r2]
                              exact h.fit k P T' hPN hT'
                            · by_cases h2 : k = cid
                              · subst h2
                                simp only [hcn, h3, if_false, if_true, Option.some.injEq] at hk
                                subst hk
                                exact h.fit k C T' hCN hT'
                              · simp only [h1, h2, h3, if_false] at hk
                                exact h.fit k n T' hk hT'
        · simp [hcp, hmem] at hs
      · simp [hcp] at hs

theorem insert_identity_wf_aux {t t' : TTN} {cid pid new : Id} (h : t.WF) (hnew : t.N new = none)
    (hs : t.insertIdentity cid pid new = some t') : t'.WF :=
  (insert_identity_full h hnew hs).1

end Ptn.C02
