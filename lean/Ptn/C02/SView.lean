import Ptn.C02.OpsWF
/-! What each operation does to the structure `t.S` (pure graph view), as equations.
Used to compose operations (TDVP updates, truncation).  Core Lean only. -/
namespace Ptn.C02
open NodeS

theorem access_S_eq {t t1 : TTN} {id : Id} {T : Tensor} (ha : t.access id = some (t1, T)) :
    t1.S = t.S ∧ t1.root = t.root := by
  obtain ⟨n, Ts, e1, e2, e3, rfl⟩ := access_eq ha
  refine ⟨?_, rfl⟩
  funext k
  simp only [TTN.S, TTN.N, dget_dset]
  by_cases hk : k = id
  · subst hk; simp [e1, structOf, resetPermutation]
  · simp [hk]

/-- `contract_nodes` on the structure. -/
theorem contract_S_eq {t t' : TTN} {id1 id2 new : Id} (h : t.WF)
    (hnew : new = id1 ∨ new = id2 ∨ t.N new = none)
    (hc : t.contractNodes id1 id2 new = some t') :
    ∃ pid cid gp Pch Cch, t.S pid = some (gp, Pch) ∧ t.S cid = some (some pid, Cch) ∧
      ((pid = id1 ∧ cid = id2) ∨ (pid = id2 ∧ cid = id1)) ∧
      t'.S = contractS t.S pid cid new gp
        (if id1 = pid then Pch.erase cid ++ Cch else Cch ++ Pch.erase cid) ∧
      t'.root = (if gp = none then some new else t.root) := by
  obtain ⟨pid, cid, P, C, nn, newT, hP, hC, hCp, hids, hnew', n1, n2, n3, n4, n5, n6, a1, a2, a3, a4, a5, a6, _⟩ :=
    contract_final h hnew hc
  refine ⟨pid, cid, P.parent, P.children, C.children, TTN.S_eq hP, by rw [TTN.S_eq hC, hCp], hids, ?_, a6⟩
  funext k
  unfold contractS
  by_cases hk : k = new
  · subst hk
    simp [TTN.S, a1, structOf, n1, n6]
  · simp only [hk, if_false]
    by_cases hk2 : k = pid ∨ k = cid
    · simp only [hk2, if_true]
      rcases hk2 with e | e
      · subst e; simp [TTN.S, a2 hk]
      · subst e; simp [TTN.S, a3 hk]
    · have hkp : k ≠ pid := fun e => hk2 (Or.inl e)
      have hkc : k ≠ cid := fun e => hk2 (Or.inr e)
      simp only [hk2, if_false]
      obtain ⟨b1, b2⟩ := a4 k hk hkp hkc
      cases hn : t.N k with
      | none => simp [TTN.S, hn, b1 hn]
      | some n =>
        obtain ⟨n', q1, q2⟩ := b2 n hn
        simp [TTN.S, hn, q1, q2.2.2]

/-- `split_nodes` on the structure: `a` = the side that takes the parent / the root flag. -/
theorem split_S_eq {t t' : TTN} {id : Id} {X : NodeS} {outL inL : TTN.LegSpec} {outId inId : Id}
    {bd : Nat} (h : t.WF) (adm : SplitAdm t id X outL inL outId inId)
    (hs : t.splitNodes id outL inL outId inId bd = some t') :
    ∃ a b aCh bCh,
      ((a = outId ∧ b = inId ∧ aCh = outL.childLegs ∧ bCh = inL.childLegs ∧
          (outL.parentLeg.isSome = true ∨ outL.isRoot = true)) ∨
       (a = inId ∧ b = outId ∧ aCh = inL.childLegs ∧ bCh = outL.childLegs ∧
          (inL.parentLeg.isSome = true ∨ inL.isRoot = true))) ∧
      t'.S = splitS t.S id a b X.parent aCh bCh ∧
      t'.root = (if X.parent = none then some a else t.root) := by
  obtain ⟨a, b, aCh, bCh, na, nb, Ta, Tb, hcfg, hab, hNa, hNb, p1, p2, p3, p4, w1, w2, s1, s2, hid, hby, hT, hR,
    hside, _⟩ := split_final h adm hs
  have hoi : outId ≠ inId := by
    rcases hcfg with ⟨e1, e2, _⟩ | ⟨e1, e2, _⟩
    · rw [← e1, ← e2]; exact hab
    · rw [← e1, ← e2]; exact fun e => hab e.symm
  refine ⟨a, b, aCh, bCh, ?_, ?_, hR⟩
  · rcases hcfg with ⟨e1, e2, e3, e4⟩ | ⟨e1, e2, e3, e4⟩
    · rcases hside with ⟨_, q⟩ | ⟨f1, _⟩
      · exact Or.inl ⟨e1, e2, e3, e4, q⟩
      · exact absurd (e1.symm.trans f1) hoi
    · rcases hside with ⟨f1, _⟩ | ⟨_, q⟩
      · exact absurd (f1.symm.trans e1) hoi
      · exact Or.inr ⟨e1, e2, e3, e4, q⟩
  · funext k
    unfold splitS
    by_cases hka : k = a
    · subst hka; simp [TTN.S, hNa, structOf, p1, p2]
    · simp only [hka, if_false]
      by_cases hkb : k = b
      · subst hkb; simp [TTN.S, hNb, structOf, p3, p4]
      · simp only [hkb, if_false]
        by_cases hkid : k = id
        · subst hkid
          simp [TTN.S, hid hka hkb]
        · simp only [hkid, if_false]
          obtain ⟨b1, b2⟩ := hby k hka hkb hkid
          cases hn : t.N k with
          | none => simp [TTN.S, hn, b1 hn]
          | some n =>
            obtain ⟨n', q1, q2⟩ := b2 n hn
            simp [TTN.S, hn, q1, q2.2.2]

/-- `insert_identity` on the structure. -/
theorem ident_S_eq {t t' : TTN} {cid pid new : Id} (h : t.WF) (hnew : t.N new = none)
    (hs : t.insertIdentity cid pid new = some t') :
    ∃ cch pp pch, t.S cid = some (some pid, cch) ∧ t.S pid = some (pp, pch) ∧
      t'.S = subdivideS t.S cid pid new cch pp pch ∧ t'.root = t.root := by
  obtain ⟨_, C, P, hC, hP, hcp, hS, hR, _⟩ := insert_identity_full h hnew hs
  exact ⟨C.children, P.parent, P.children, by rw [TTN.S_eq hC, hcp], TTN.S_eq hP, hS, hR⟩

end Ptn.C02
