import Ptn.C02.MoreLabels
import Ptn.C02.OpenList
import Ptn.C02.OpsWF
import Ptn.C02.Composite
/-! Every admissible edit preserves the label invariant and leaves the open axes of the network the same
up to order; hence so does every history of edits.  Core Lean only. -/
namespace Ptn.C02
open NodeS

/-! ### the open axes of the network, operation by operation -/

theorem access_openList {t t1 : TTN} {id : Id} {T : Tensor} (ha : t.access id = some (t1, T)) :
    t1.openList.Perm t.openList :=
  openList_perm_of_same (access_labels ha).2.2.2

theorem contract_openList {t t' : TTN} {id1 id2 new : Id} (h : t.WF)
    (hnew : new = id1 ∨ new = id2 ∨ t.N new = none)
    (hc : t.contractNodes id1 id2 new = some t') : t'.openList.Perm t.openList := by
  obtain ⟨pid, cid, hids, hpc, hPn, hCn, hnew', _, cnew, cgone, cby⟩ := contract_labels h hnew hc
  have h12 : (t.openAxes id1 ++ t.openAxes id2).Perm (t.openAxes pid ++ t.openAxes cid) := by
    rcases hids with ⟨e1, e2⟩ | ⟨e1, e2⟩
    · rw [e1, e2]
    · rw [e1, e2]; exact List.perm_append_comm
  rcases hnew' with e | e | e
  · -- new = pid
    subst e
    apply openList_perm_of_local [new, cid] (by simp [hpc])
    · intro k hk
      simp only [List.mem_cons, List.not_mem_nil, or_false, not_or] at hk
      exact (cby k hk.1 hk.1 hk.2).2
    · simp only [List.flatMap_cons, List.flatMap_nil, List.append_nil]
      rw [cnew, (cgone cid (fun e => hpc e.symm) (Or.inr rfl)).2, List.append_nil]
      exact h12
  · -- new = cid
    subst e
    apply openList_perm_of_local [pid, new] (by simp [hpc])
    · intro k hk
      simp only [List.mem_cons, List.not_mem_nil, or_false, not_or] at hk
      exact (cby k hk.2 hk.1 hk.2).2
    · simp only [List.flatMap_cons, List.flatMap_nil, List.append_nil]
      rw [cnew, (cgone pid hpc (Or.inl rfl)).2, List.nil_append]
      exact h12
  · -- a fresh identifier
    have hnp : new ≠ pid := fun e' => by rw [e'] at e; exact hPn e
    have hnc : new ≠ cid := fun e' => by rw [e'] at e; exact hCn e
    apply openList_perm_of_local [pid, cid, new] (by
      simp only [List.nodup_cons, List.mem_cons, List.not_mem_nil, or_false, not_or, List.nodup_nil,
        and_true, not_false_eq_true]
      exact ⟨⟨hpc, fun e' => hnp e'.symm⟩, fun e' => hnc e'.symm⟩)
    · intro k hk
      simp only [List.mem_cons, List.not_mem_nil, or_false, not_or] at hk
      exact (cby k hk.2.2 hk.1 hk.2.1).2
    · simp only [List.flatMap_cons, List.flatMap_nil, List.append_nil]
      rw [cnew, (cgone pid (fun e' => hnp e'.symm) (Or.inl rfl)).2,
        (cgone cid (fun e' => hnc e'.symm) (Or.inr rfl)).2, openAxes_none e]
      simpa using h12

theorem split_openList {t t' : TTN} {id : Id} {X : NodeS} {outL inL : TTN.LegSpec} {outId inId : Id}
    {bd : Nat} (h : t.WF) (adm : SplitAdm t id X outL inL outId inId)
    (hs : t.splitNodes id outL inL outId inId bd = some t') : t'.openList.Perm t.openList := by
  obtain ⟨a, b, aCh, bCh, L, hcfg, hab, _, _, _, _, _, _, _, hopen, cid, cby⟩ := split_labels h adm hs
  have hoi : outId ≠ inId := by
    rcases hcfg with ⟨e1, e2, _⟩ | ⟨e1, e2, _⟩
    · rw [← e1, ← e2]; exact hab
    · rw [← e1, ← e2]; exact fun e => hab e.symm
  have hab' : ∀ k, (k ≠ outId ∧ k ≠ inId) ↔ (k ≠ a ∧ k ≠ b) := by
    intro k
    rcases hcfg with ⟨e1, e2, _⟩ | ⟨e1, e2, _⟩
    · rw [e1, e2]
    · rw [e1, e2]; exact And.comm
  have fresh_open : ∀ x, (x = id ∨ t.N x = none) → x ≠ id → t.openAxes x = [] := by
    intro x hx hne
    rcases hx with e | e
    · exact absurd e hne
    · exact openAxes_none e
  by_cases ho : outId = id
  · -- the out side reuses the identifier
    subst ho
    have hin : inId ≠ outId := fun e => hoi e.symm
    apply openList_perm_of_local [outId, inId] (by simp [hoi])
    · intro k hk
      simp only [List.mem_cons, List.not_mem_nil, or_false, not_or] at hk
      have := (hab' k).mp hk
      exact (cby k this.1 this.2 hk.1).2
    · simp only [List.flatMap_cons, List.flatMap_nil, List.append_nil]
      rw [fresh_open inId adm.inFresh hin, List.append_nil]
      exact hopen
  · by_cases hi : inId = id
    · subst hi
      apply openList_perm_of_local [outId, inId] (by simp [hoi])
      · intro k hk
        simp only [List.mem_cons, List.not_mem_nil, or_false, not_or] at hk
        have := (hab' k).mp hk
        exact (cby k this.1 this.2 hk.2).2
      · simp only [List.flatMap_cons, List.flatMap_nil, List.append_nil]
        rw [fresh_open outId adm.outFresh ho, List.nil_append]
        exact hopen
    · -- two fresh identifiers
      have hida : id ≠ a ∧ id ≠ b := (hab' id).mp ⟨fun e => ho e.symm, fun e => hi e.symm⟩
      apply openList_perm_of_local [outId, inId, id] (by
        simp only [List.nodup_cons, List.mem_cons, List.not_mem_nil, or_false, not_or, List.nodup_nil,
          and_true, not_false_eq_true]
        exact ⟨⟨hoi, ho⟩, hi⟩)
      · intro k hk
        simp only [List.mem_cons, List.not_mem_nil, or_false, not_or] at hk
        have := (hab' k).mp ⟨hk.1, hk.2.1⟩
        exact (cby k this.1 this.2 hk.2.2).2
      · simp only [List.flatMap_cons, List.flatMap_nil, List.append_nil]
        rw [(cid hida.1 hida.2).2, fresh_open outId adm.outFresh ho, fresh_open inId adm.inFresh hi]
        simpa using hopen

theorem ident_openList {t t' : TTN} {cid pid new : Id} (h : t.WF) (hnew : t.N new = none)
    (hs : t.insertIdentity cid pid new = some t') : t'.openList.Perm t.openList := by
  obtain ⟨ax, _, _, c1, c2⟩ := ident_labels h hnew hs
  apply openList_perm_of_same
  intro k
  by_cases hk : k = new
  · subst hk; rw [c1, openAxes_none hnew]
  · exact (c2 k hk).2

theorem rename_openList {t t' : TTN} {new old : Id} (h : t.WF) (hnew : new = old ∨ t.N new = none)
    (hs : t.changeNodeIdentifier new old = some t') : t'.openList.Perm t.openList := by
  obtain ⟨_, _, c1, c3, c2⟩ := rename_labels h hnew hs
  by_cases hno : new = old
  · subst hno
    apply openList_perm_of_same
    intro k
    by_cases hk : k = new
    · subst hk; exact c1
    · exact (c2 k hk hk).2
  · have hnN : t.N new = none := by
      rcases hnew with e | e
      · exact absurd e hno
      · exact e
    apply openList_perm_of_local [new, old] (by simp [hno])
    · intro k hk
      simp only [List.mem_cons, List.not_mem_nil, or_false, not_or] at hk
      exact (c2 k hk.1 hk.2).2
    · simp only [List.flatMap_cons, List.flatMap_nil, List.append_nil]
      rw [c1, (c3 hno).2, openAxes_none hnN]
      simp

theorem rtp_openList {t t' : TTN} {id : Id} {p : Option (List Nat)} (h : t.WF)
    (hp : ∀ q, p = some q → q.Perm (List.range q.length))
    (hs : t.replaceTensorPermuted id p = some t') : t'.openList.Perm t.openList :=
  openList_perm_of_same (fun k => (rtp_labels h hp hs k).2.2)

/-! ### edits: the operations applied to a network once it is built -/

/-- The structural edits (everything except the two construction steps `add_root` / `add_child_to_parent`). -/
def TOp.isEdit : TOp → Prop
  | .root _ _ => False
  | .child _ _ _ _ _ => False
  | _ => True

/-- One admissible edit preserves the label invariant and keeps the open axes of the network, up to order. -/
theorem edit_step_labels {t t' : TTN} (h : t.WF) (hl : t.LWF) (op : TOp) (hadm : op.Adm t) (he : op.isEdit)
    (hs : t.step op = some t') : t'.LWF ∧ t'.openList.Perm t.openList := by
  cases op with
  | root id T => exact absurd he (by simp [TOp.isEdit])
  | child id T cl pid pl => exact absurd he (by simp [TOp.isEdit])
  | access id =>
    simp only [TTN.step] at hs
    cases ha : t.access id with
    | none => simp [ha] at hs
    | some r =>
      obtain ⟨t1, T⟩ := r
      simp [ha] at hs
      subst hs
      exact ⟨access_lwf hl ha, access_openList ha⟩
  | contract a b n => exact ⟨contract_lwf h hl hadm hs, contract_openList h hadm hs⟩
  | split id o i oid iid bd =>
    obtain ⟨X, hX⟩ := hadm
    exact ⟨split_lwf h hl hX hs, split_openList h hX hs⟩
  | ident c p n => exact ⟨ident_lwf h hl hadm hs, ident_openList h hadm hs⟩
  | rename n o => exact ⟨rename_lwf h hl hadm hs, rename_openList h hadm hs⟩
  | rtp id p => exact ⟨rtp_lwf h hl hadm hs, rtp_openList h hadm hs⟩

/-- Every history of admissible edits keeps the network well-formed, preserves the label invariant and
    keeps the open axes of the network, up to order. -/
theorem edits_run_labels {t t' : TTN} {ops : List TOp} (h : t.WF) (hl : t.LWF) (hr : TRun t ops t')
    (he : ∀ op ∈ ops, op.isEdit) : t'.WF ∧ t'.LWF ∧ t'.openList.Perm t.openList := by
  induction hr with
  | nil => exact ⟨h, hl, List.Perm.refl _⟩
  | cons hadm hs _ ih =>
    have hw := step_wf h _ hadm hs
    obtain ⟨l1, p1⟩ := edit_step_labels h hl _ hadm (he _ (by simp)) hs
    obtain ⟨w2, l2, p2⟩ := ih hw l1 (fun op hop => he op (List.mem_cons_of_mem _ hop))
    exact ⟨w2, l2, p2.trans p1⟩

/-- Well-formedness together with – when `P` holds – the label invariant and a fixed assignment `O` of open
    axes to the nodes.  (`P := False` gives plain well-formedness, `P := True` the label-level statements;
    one induction serves both.) -/
structure TTN.WFX (P : Prop) (O : Id → List Axis) (t : TTN) : Prop where
  wf : t.WF
  lwf : P → t.LWF
  op : P → ∀ k, t.openAxes k = O k

/-- Plain well-formedness as an instance of `WFX`. -/
theorem TTN.WFX.ofWF {t : TTN} (h : t.WF) : t.WFX False (fun _ => []) := ⟨h, False.elim, False.elim⟩

/-- Well-formedness and label invariant, with the network's own open axes as reference. -/
theorem TTN.WFX.ofLWF {t : TTN} (h : t.WF) (hl : t.LWF) : t.WFX True t.openAxes :=
  ⟨h, fun _ => hl, fun _ _ => rfl⟩

theorem pick_openIdx {A : NodeS} {L : Tensor} (hL : L.length = A.nlegs) (hv : A.nvirt ≤ A.nlegs) :
    pick L (TTN.openIdx A) = L.drop A.nvirt := by
  unfold TTN.openIdx
  rw [pick_range' L A.nvirt (A.nlegs - A.nvirt) (by omega)]
  rw [List.take_of_length_le (by simp [hL])]

/-- A split that keeps the identifier and all open legs on the out side and sends no open leg to the (new)
    in side leaves the open axes of every node unchanged. -/
theorem split_open_same {t t' : TTN} {id : Id} {X : NodeS} {outL inL : TTN.LegSpec} {inId : Id} {bd : Nat}
    (h : t.WF) (adm : SplitAdm t id X outL inL id inId) (hin : t.N inId = none)
    (ho : outL.openLegs = TTN.openIdx X) (hi : inL.openLegs = [])
    (hs : t.splitNodes id outL inL id inId bd = some t') : ∀ k, t'.openAxes k = t.openAxes k := by
  obtain ⟨a, b, _, _, L, hcfg, _, hlogL, _, _, _, _, so, si, _, _, sby⟩ := split_labels h adm hs
  have hXN := adm.node
  have hLl : L.length = X.nlegs := by
    obtain ⟨L', hL', hl⟩ := logical_some h hXN
    rw [hlogL] at hL'; simp at hL'; subst hL'
    exact hl
  intro k
  by_cases k1 : k = id
  · rw [k1, so, ho, pick_openIdx hLl (h.node id X hXN).virt, openAxes_eq hXN hlogL]
  · by_cases k2 : k = inId
    · rw [k2, si, hi, openAxes_none hin]; rfl
    · have : k ≠ a ∧ k ≠ b := by
        rcases hcfg with ⟨e1, e2, _⟩ | ⟨e1, e2, _⟩
        · rw [e1, e2]; exact ⟨k1, k2⟩
        · rw [e1, e2]; exact ⟨k2, k1⟩
      exact (sby k this.1 this.2 k1).2

/-- Contracting a node without open axes into a neighbour (either argument order, the neighbour keeps its
    identifier) leaves the open axes of every node unchanged. -/
theorem contract_open_same {t t' : TTN} {id1 id2 l b : Id} (h : t.WF)
    (hids : (id1 = l ∧ id2 = b) ∨ (id1 = b ∧ id2 = l)) (hlb : l ≠ b) (hl : t.openAxes l = [])
    (hc : t.contractNodes id1 id2 b = some t') : ∀ k, t'.openAxes k = t.openAxes k := by
  have hnew : b = id1 ∨ b = id2 ∨ t.N b = none := by
    rcases hids with ⟨_, e⟩ | ⟨e, _⟩
    · exact Or.inr (Or.inl e.symm)
    · exact Or.inl e.symm
  obtain ⟨pid, cid, hpc, _, _, _, _, _, cnew, cgone, cby⟩ := contract_labels h hnew hc
  have hset : (pid = l ∧ cid = b) ∨ (pid = b ∧ cid = l) := by
    rcases hpc with ⟨e1, e2⟩ | ⟨e1, e2⟩ <;> rcases hids with ⟨f1, f2⟩ | ⟨f1, f2⟩
    · exact Or.inl ⟨e1.trans f1, e2.trans f2⟩
    · exact Or.inr ⟨e1.trans f1, e2.trans f2⟩
    · exact Or.inr ⟨e1.trans f2, e2.trans f1⟩
    · exact Or.inl ⟨e1.trans f2, e2.trans f1⟩
  intro k
  by_cases k1 : k = b
  · rw [k1, cnew]
    rcases hids with ⟨f1, f2⟩ | ⟨f1, f2⟩
    · rw [f1, f2, hl, List.nil_append]
    · rw [f1, f2, hl, List.append_nil]
  · by_cases k2 : k = l
    · rw [k2, hl]
      refine (cgone l hlb ?_).2
      rcases hset with ⟨e, _⟩ | ⟨_, e⟩
      · exact Or.inl e.symm
      · exact Or.inr e.symm
    · have : k ≠ pid ∧ k ≠ cid := by
        rcases hset with ⟨e1, e2⟩ | ⟨e1, e2⟩
        · rw [e1, e2]; exact ⟨k2, k1⟩
        · rw [e1, e2]; exact ⟨k1, k2⟩
      exact (cby k k1 this.1 this.2).2

theorem access_wfx {P : Prop} {O : Id → List Axis} {t t1 : TTN} {id : Id} {T : Tensor} (hx : t.WFX P O)
    (ha : t.access id = some (t1, T)) : t1.WFX P O :=
  ⟨access_wf hx.wf ha, fun hp => access_lwf (hx.lwf hp) ha,
    fun hp k => ((access_labels ha).2.2.2 k).trans (hx.op hp k)⟩

end Ptn.C02
