import Ptn.C02.OpsLabels
/-! Progress: on a well-formed, label-consistent network `contract_nodes` applied to two adjacent nodes with an
admissible identifier never takes an exception branch – the model call returns `some`.  Core Lean only. -/
namespace Ptn.C02
open NodeS

/-! ### accesses -/

theorem access_some_raw {t : TTN} {id : Id} {n : NodeS} {Ts : Tensor} (hn : dget t.nodes id = some n)
    (hT : dget t.tensors id = some Ts) (hp : n.perm.Perm (List.range n.perm.length))
    (hl : n.perm.length = Ts.length) : ∃ t1 T, t.access id = some (t1, T) := by
  obtain ⟨R, hR, _⟩ := transposeT_some_of_perm Ts n.perm hp hl
  unfold TTN.access
  simp only [hn, hT, hR, bind, Option.bind]
  exact ⟨_, _, rfl⟩

theorem access_some {t : TTN} (h : t.WF) {id : Id} {n : NodeS} (hn : t.N id = some n) :
    ∃ t1 T, t.access id = some (t1, T) := by
  obtain ⟨Ts, hT, hTl⟩ := tensor_of_node h hn
  exact access_some_raw hn hT (h.node id n hn).perm hTl.symm

theorem tensorsPop_some_raw {t : TTN} {id : Id} {n : NodeS} {Ts : Tensor} (hn : dget t.nodes id = some n)
    (hT : dget t.tensors id = some Ts) (hp : n.perm.Perm (List.range n.perm.length))
    (hl : n.perm.length = Ts.length) : ∃ t', t.tensorsPop id = some t' := by
  obtain ⟨t1, T, ha⟩ := access_some_raw hn hT hp hl
  obtain ⟨n', Ts', e1, e2, e3, rfl⟩ := access_eq ha
  unfold TTN.tensorsPop
  simp only [ha, bind, Option.bind]
  have : dhas (dset t.tensors id T) id = true := by simp [dhas_dset]
  obtain ⟨d', hd', _⟩ := dpop_of_has _ _ this
  rw [hd']
  exact ⟨_, rfl⟩

/-! ### `replace_node_in_neighbours` -/

theorem reparent_fold_some (new : Id) (cs : List Id) (ns : List (Id × NodeS))
    (hex : ∀ c ∈ cs, c ≠ new → (dget ns c).isSome = true) :
    ∃ ns', cs.foldlM (fun (ns : List (Id × NodeS)) c =>
      if c ≠ new then do
        let cn ← dget ns c
        some (dset ns c { cn with parent := some new })
      else some ns) ns = some ns' := by
  induction cs generalizing ns with
  | nil => exact ⟨ns, rfl⟩
  | cons c cs ih =>
    rw [List.foldlM_cons]
    by_cases hc : c = new
    · simp only [hc, ne_eq, not_true_eq_false, if_false, bind, Option.bind]
      exact ih ns (fun c' hc' hne => hex c' (List.mem_cons_of_mem _ hc') hne)
    · simp only [ne_eq, hc, not_false_eq_true, if_true]
      have h1 := hex c (by simp) hc
      cases hcn : dget ns c with
      | none => rw [hcn] at h1; simp at h1
      | some cn =>
        simp only [bind, Option.bind]
        apply ih
        intro c' hc' hne
        rw [dget_dset]
        by_cases e : c' = c
        · simp [e]
        · simp only [e, if_false]
          exact hex c' (List.mem_cons_of_mem _ hc') hne

/-- Sufficient conditions for `replace_node_in_neighbours(new, old)` to succeed. -/
theorem rnin_some {t : TTN} {new old : Id} {delOld : Bool} {O : NodeS} (hO : t.N old = some O)
    (hch : ∀ c ∈ O.children, c ≠ new → (t.N c).isSome = true)
    (hpar : ∀ p, O.parent = some p → p ≠ new → p ∉ O.children ∧ ∃ pn, t.N p = some pn ∧ old ∈ pn.children) :
    ∃ t', t.replaceNodeInNeighbours new old delOld = some t' := by
  unfold TTN.replaceNodeInNeighbours
  by_cases hne : new = old
  · simp [hne]
  · have hO' : dget t.nodes old = some O := hO
    simp only [hne, if_false, hO', bind, Option.bind]
    obtain ⟨nodes1, hf⟩ := reparent_fold_some new O.children t.nodes hch
    have hfe := reparent_fold_eq new O.children t.nodes nodes1 hf
    simp only [bind, Option.bind] at hf
    simp only [hf]
    have hold1 : dhas nodes1 old = true := by
      rw [dhas_eq_isSome, hfe old]
      split
      · rw [hO']; rfl
      · rw [hO']; rfl
    cases hp : O.parent with
    | none =>
      simp only
      cases delOld with
      | false => exact ⟨_, rfl⟩
      | true =>
        obtain ⟨d', hd', _⟩ := dpop_of_has _ _ hold1
        simp only [if_true, hd']; exact ⟨_, rfl⟩
    | some p =>
      simp only
      by_cases hpn : p = new
      · simp only [hpn, ne_eq, not_true_eq_false, if_false]
        cases delOld with
        | false => exact ⟨_, rfl⟩
        | true =>
        obtain ⟨d', hd', _⟩ := dpop_of_has _ _ hold1
        simp only [if_true, hd']; exact ⟨_, rfl⟩
      · simp only [ne_eq, hpn, not_false_eq_true, if_true]
        obtain ⟨hpc, pn, hpn', hmem⟩ := hpar p hp hpn
        have hp1 : dget nodes1 p = some pn := by
          rw [hfe p]; simp [hpc]; exact hpn'
        simp only [hp1]
        obtain ⟨pn', hrc⟩ := replaceChild_some pn old new hmem
        simp only [hrc]
        have hold2 : dhas (dset nodes1 p pn') old = true := by
          rw [dhas_dset]; simp [hold1]
        cases delOld with
        | false => exact ⟨_, rfl⟩
        | true =>
          obtain ⟨d', hd', _⟩ := dpop_of_has _ _ hold2
          simp only [if_true, hd']; exact ⟨_, rfl⟩

/-! ### `_data_contraction` -/

/-- On a well-formed, label-consistent network `_data_contraction(parent, child, new)` succeeds: both arrays
    exist and can be transposed, the child is a neighbour of the parent, and the two ends of the bond have the
    same dimension (this is where the label invariant is needed). -/
theorem dataContraction_some {t : TTN} (h : t.WF) (hl : t.LWF) {pid cid new : Id} {P C : NodeS}
    (hP : t.N pid = some P) (hC : t.N cid = some C) (hCp : C.parent = some pid) :
    ∃ tD newT, t.dataContraction pid cid new = some (tD, newT) := by
  have hSP := TTN.S_eq hP
  have hSC : t.S cid = some (some pid, C.children) := by rw [TTN.S_eq hC, hCp]
  have hpc : pid ≠ cid := h.str.parent_ne hSC
  have hcp : cid ≠ pid := fun e => hpc e.symm
  have hcidP : cid ∈ P.children := by
    obtain ⟨pp, pch, e1, e2⟩ := h.str.up cid pid C.children hSC
    rw [hSP] at e1; simp at e1; rw [e1.2]; exact e2
  have hgc : ¬ P.parent = some cid := fun e =>
    h.str.no_two_cycle (a := pid) (b := cid) (by rw [hSP, e]) hSC
  -- the two accesses
  obtain ⟨t1, LP, ha1⟩ := access_some h hP
  have w1 := access_wf h ha1
  obtain ⟨nP, TsP, e1, e2, e3, ht1⟩ := access_eq ha1
  have hC1 : t1.N cid = some C := by
    subst ht1; simp only [TTN.N, dget_dset, hcp, if_false]; exact hC
  obtain ⟨t2, LC, ha2⟩ := access_some w1 hC1
  have w2 := access_wf w1 ha2
  obtain ⟨nC, TsC, f1, f2, f3, ht2⟩ := access_eq ha2
  -- the contracted leg
  have hidx : P.neighbourIndex cid = some (P.children.idxOf cid + P.nparents) := by
    unfold neighbourIndex; simp [hgc, hcidP]
  have hlogP : t.logical pid = some LP := (access_labels ha1).1
  have hlogC : t.logical cid = some LC := by
    rw [← (access_labels ha1).2.1 cid]; exact (access_labels ha2).1
  obtain ⟨ax, hax⟩ := leg_exists h hC ((mem_neighbours C pid).mpr (Or.inl hCp))
  have hax' := hl.sym _ _ _ hax
  have hLPi : LP[P.children.idxOf cid + P.nparents]? = some ax := by
    unfold TTN.Leg at hax'
    rw [legPairs_eq hP hlogP, mem_zip_neighbours (neighbours_nodup h hP)] at hax'
    simpa [legAx, hidx] using hax'
  have hLC0 : LC[0]? = some ax := by
    unfold TTN.Leg at hax
    rw [legPairs_eq hC hlogC, mem_zip_neighbours (neighbours_nodup h hC)] at hax
    have : C.neighbourIndex pid = some 0 := by unfold neighbourIndex; simp [hCp]
    simpa [legAx, this] using hax
  have htd : ∃ newT, tensordot1 LP LC (P.children.idxOf cid + P.nparents) 0 = some newT := by
    unfold tensordot1
    rw [hLPi, hLC0]
    simp
  obtain ⟨newT, htd⟩ := htd
  -- the two pops
  have hP2 : t2.N pid = some P.resetPermutation := by
    have a1 : t1.N pid = some P.resetPermutation := by
      have : nP = P := by have := e1; rw [show dget t.nodes pid = some P from hP] at this; exact (Option.some.inj this).symm
      subst ht1; subst this; simp [TTN.N, dget_dset]
    subst ht2; simp only [TTN.N, dget_dset, hpc, if_false]; exact a1
  obtain ⟨TsP2, hT2, hT2l⟩ := tensor_of_node w2 hP2
  obtain ⟨t3, hpop1⟩ := tensorsPop_some_raw hP2 hT2 (w2.node pid _ hP2).perm hT2l.symm
  obtain ⟨n3, Ts3, T3, ts3, g1, g2, g3, g4, ht3⟩ := tensorsPop_eq hpop1
  have hC2 : t2.N cid = some nC.resetPermutation := by subst ht2; simp [TTN.N, dget_dset]
  obtain ⟨TsC2, hTC2, hTC2l⟩ := tensor_of_node w2 hC2
  have hC3 : dget t3.nodes cid = some nC.resetPermutation := by
    subst ht3; simp only [dget_dset, hcp, if_false]; exact hC2
  have hTC3 : dget t3.tensors cid = some TsC2 := by
    subst ht3
    obtain ⟨_, q⟩ := dpop_eq_some _ _ _ g4
    simp only [q cid, hcp, if_false, dget_dset]
    exact hTC2
  obtain ⟨t4, hpop2⟩ := tensorsPop_some_raw hC3 hTC3 (w2.node cid _ hC2).perm hTC2l.symm
  unfold TTN.dataContraction
  have hP' : dget t.nodes pid = some P := hP
  simp only [hP', ha1, ha2, hidx, htd, hpop1, hpop2, bind, Option.bind]
  exact ⟨_, _, rfl⟩

/-! ### `contract_nodes` -/

/-- Admissibility of `contract_nodes(id1, id2, new)` as a computable test on the state: the two nodes exist
    and are adjacent, the new identifier is one of the two or unused. -/
def contractAdmB (t : TTN) (id1 id2 new : Id) : Bool :=
  match dget t.nodes id1, dget t.nodes id2 with
  | some n1, some n2 =>
    (n2.parent == some id1 || n1.parent == some id2) &&
      (new == id1 || new == id2 || (dget t.nodes new).isNone)
  | _, _ => false

theorem contractAdmB_iff (t : TTN) (id1 id2 new : Id) :
    contractAdmB t id1 id2 new = true ↔
      (∃ n1 n2, t.N id1 = some n1 ∧ t.N id2 = some n2 ∧ (n2.parent = some id1 ∨ n1.parent = some id2)) ∧
      (new = id1 ∨ new = id2 ∨ t.N new = none) := by
  unfold contractAdmB TTN.N
  cases h1 : dget t.nodes id1 with
  | none => simp
  | some n1 =>
    cases h2 : dget t.nodes id2 with
    | none => simp
    | some n2 =>
      simp only [Bool.and_eq_true, Bool.or_eq_true, beq_iff_eq, Option.isNone_iff_eq_none,
        Option.some.injEq, exists_and_left, exists_eq_left', or_assoc]

/-- **Progress for `contract_nodes`**: on a well-formed, label-consistent network, contracting two adjacent
    nodes into an admissible identifier returns a network (no exception branch is taken). -/
theorem contract_nodes_progress {t : TTN} (h : t.WF) (hl : t.LWF) {id1 id2 new : Id}
    (hadm : contractAdmB t id1 id2 new = true) : ∃ t', t.contractNodes id1 id2 new = some t' := by
  obtain ⟨⟨n1, n2, hn1, hn2, hadj⟩, hnew⟩ := (contractAdmB_iff t id1 id2 new).mp hadm
  -- parent and child
  obtain ⟨pid, cid, P, C, hP, hC, hCp, hids, hdp⟩ : ∃ pid cid P C, t.N pid = some P ∧ t.N cid = some C ∧
      C.parent = some pid ∧ ((pid = id1 ∧ cid = id2) ∨ (pid = id2 ∧ cid = id1)) ∧
      t.determineParentage id1 id2 = some (pid, cid) := by
    have h1' : dget t.nodes id1 = some n1 := hn1
    have h2' : dget t.nodes id2 = some n2 := hn2
    by_cases hq : n2.parent = some id1
    · exact ⟨id1, id2, n1, n2, hn1, hn2, hq, Or.inl ⟨rfl, rfl⟩, by
        simp [TTN.determineParentage, h1', h2', hq, bind, Option.bind]⟩
    · have hq' : n1.parent = some id2 := by
        rcases hadj with e | e
        · exact absurd e hq
        · exact e
      exact ⟨id2, id1, n2, n1, hn2, hn1, hq', Or.inr ⟨rfl, rfl⟩, by
        simp [TTN.determineParentage, h1', h2', hq, hq', bind, Option.bind]⟩
  have hnew' : new = pid ∨ new = cid ∨ t.N new = none := by
    rcases hids with ⟨e1, e2⟩ | ⟨e1, e2⟩
    · rw [e1, e2]; exact hnew
    · rw [e1, e2]
      rcases hnew with a | a | a
      · exact Or.inr (Or.inl a)
      · exact Or.inl a
      · exact Or.inr (Or.inr a)
  have hSP := TTN.S_eq hP
  have hSC : t.S cid = some (some pid, C.children) := by rw [TTN.S_eq hC, hCp]
  have hpc : pid ≠ cid := h.str.parent_ne hSC
  have hcidP : cid ∈ P.children := by
    obtain ⟨pp, pch, e1, e2⟩ := h.str.up cid pid C.children hSC
    rw [hSP] at e1; simp at e1; rw [e1.2]; exact e2
  have hgc : ¬ P.parent = some cid := fun e =>
    h.str.no_two_cycle (a := pid) (b := cid) (by rw [hSP, e]) hSC
  -- the data
  obtain ⟨tD, newT, hdc⟩ := dataContraction_some (new := new) h hl hP hC hCp
  obtain ⟨P', C', TsP, TsC, LP, LC, idx, hP'', hC'', hTP, hTC, hLP, hLC, hidx, htd, hND, hTD, hrootD, _⟩ :=
    dataContraction_eq hpc hdc
  rw [hP] at hP''; simp at hP''; subst hP''
  rw [hC] at hC''; simp at hC''; subst hC''
  have hPD : tD.N pid = some P.resetPermutation := by rw [hND]; simp [hpc]
  have hCD : tD.N cid = some C.resetPermutation := by rw [hND]; simp
  -- the new node
  obtain ⟨nn, _, hcc, _⟩ := contracted_node_legs (id1 := id1) h hP hC hCp hPD hCD
    (transposeT_length hLP).1 (transposeT_length hLC).1 hidx htd
  -- bystanders of the intermediate network
  have hDk : ∀ k, k ≠ pid → k ≠ cid → tD.N k = t.N k := by
    intro k h1 h2; rw [hND]; simp [h1, h2]
  have hexD : ∀ k, (t.N k).isSome = true → (tD.N k).isSome = true := by
    intro k hk
    rw [hND]
    by_cases h1 : k = cid
    · simp [h1]
    · by_cases h2 : k = pid
      · simp [h2, hpc]
      · simp [h1, h2, hk]
  have hchildP : ∀ c ∈ P.children, (t.N c).isSome = true := by
    intro c hc
    obtain ⟨cch, e⟩ := h.str.down pid _ _ c hSP hc
    obtain ⟨m, hm, _⟩ := TTN.N_of_S e
    rw [hm]; rfl
  have hchildC : ∀ c ∈ C.children, (t.N c).isSome = true ∧ c ≠ pid ∧ c ≠ cid := by
    intro c hc
    obtain ⟨cch, e⟩ := h.str.down cid _ _ c hSC hc
    obtain ⟨m, hm, _⟩ := TTN.N_of_S e
    refine ⟨by rw [hm]; rfl, ?_, ?_⟩
    · intro e'; rw [e', hSP] at e; simp at e; exact hgc e.1
    · intro e'; rw [e'] at e; exact h.str.parent_ne e rfl
  -- first renaming: the parent
  have hr1 : ∃ t2, tD.replaceNodeInNeighbours new pid = some t2 := by
    apply rnin_some hPD
    · intro c hc _
      exact hexD c (hchildP c hc)
    · intro p hp _
      have hp' : P.parent = some p := hp
      have hSP' : t.S pid = some (some p, P.children) := by rw [hSP, hp']
      obtain ⟨pp, pch, e1, e2⟩ := h.str.up pid p _ hSP'
      obtain ⟨pn, hpn, epn⟩ := TTN.N_of_S e1
      simp at epn
      have hpp : p ≠ pid := h.str.parent_ne hSP'
      have hpcid : p ≠ cid := fun e => hgc (by rw [hp', e])
      refine ⟨?_, pn, by rw [hDk p hpp hpcid]; exact hpn, by rw [← epn.2]; exact e2⟩
      intro hm
      obtain ⟨cch, e3⟩ := h.str.down pid _ _ p hSP hm
      exact h.str.no_two_cycle hSP' e3
  obtain ⟨t2, hr1⟩ := hr1
  -- second renaming: the child
  have hr2 : ∃ t3, t2.replaceNodeInNeighbours new cid = some t3 := by
    by_cases e1 : new = pid
    · -- nothing happened in the first call
      subst e1
      rw [rnin_self] at hr1
      simp only [Option.some.injEq] at hr1
      subst hr1
      apply rnin_some hCD
      · intro c hc _
        exact hexD c (hchildC c hc).1
      · intro p hp hne
        have : C.resetPermutation.parent = some new := hCp
        rw [this] at hp
        exact absurd (Option.some.inj hp).symm hne
    · obtain ⟨O, hO, hN2, _, _, _⟩ := rnin_eq e1 hr1
      rw [hPD] at hO; simp at hO; subst hO
      have hOp : P.resetPermutation.parent = P.parent := rfl
      have hOc : P.resetPermutation.children = P.children := rfl
      by_cases e2 : new = cid
      · subst e2; exact ⟨t2, rnin_self t2 new _⟩
      · have hcn : cid ≠ new := fun e => e2 e.symm
        have ht2cid : t2.N cid = some (setParent new C.resetPermutation) := by
          rw [hN2]
          have : ¬ cid = pid := fun e => hpc e.symm
          simp [this, hOp, hOc, hgc, hcidP, hcn, hND, setParent]
        apply rnin_some ht2cid
        · intro c hc _
          have hc' : c ∈ C.children := hc
          obtain ⟨hex, hcp', hcc'⟩ := hchildC c hc'
          rw [hN2]
          have hnotpar : ¬ (P.parent = some c ∧ c ≠ new) ∨ True := Or.inr trivial
          by_cases hg : P.resetPermutation.parent = some c ∧ c ≠ new
          · -- `c` would be the grandparent and a child of the child: impossible
            exfalso
            have hg' : P.parent = some c := hg.1
            obtain ⟨cch, e3⟩ := h.str.down cid _ _ c hSC hc'
            obtain ⟨dp, hd⟩ := h.str.depth
            have d1 := hd pid c P.children (by rw [hSP, hg'])
            have d2 := hd cid pid C.children hSC
            have d3 := hd c cid cch e3
            omega
          · simp only [hcp', false_and, if_false, hg]
            have := hexD c hex
            by_cases hm : c ∈ P.resetPermutation.children ∧ c ≠ new
            · cases hq : tD.N c with
              | none => rw [hq] at this; simp at this
              | some q => simp [hm]
            · simp only [hm, if_false]; exact this
        · intro p hp hne
          have : (setParent new C.resetPermutation).parent = some new := rfl
          rw [this] at hp
          exact absurd (Option.some.inj hp).symm hne
  obtain ⟨t3, hr2⟩ := hr2
  unfold TTN.contractNodes
  simp only [hdp, hdc, hcc, hr1, hr2, bind, Option.bind]
  exact ⟨_, rfl⟩

/-! ### `split_nodes` -/

theorem findLegValues_some {ls : TTN.LegSpec} {node : NodeS}
    (h : ∀ c ∈ ls.childLegs, (node.neighbourIndex c).isSome = true) :
    ∃ vals, ls.findLegValues node = some vals := by
  have : ∃ cv, ls.childLegs.mapM (fun c => node.neighbourIndex c) = some cv := by
    generalize ls.childLegs = l at h
    induction l with
    | nil => exact ⟨[], rfl⟩
    | cons c l ih =>
      obtain ⟨cv, hcv⟩ := ih (fun c' hc' => h c' (List.mem_cons_of_mem _ hc'))
      have hc := h c (by simp)
      cases hi : node.neighbourIndex c with
      | none => rw [hi] at hc; simp at hc
      | some i => exact ⟨i :: cv, by rw [List.mapM_cons, hi, hcv]; rfl⟩
  obtain ⟨cv, hcv⟩ := this
  unfold TTN.LegSpec.findLegValues
  simp only [hcv, bind, Option.bind]
  exact ⟨_, rfl⟩

theorem rnisn_fold_some (new old : Id) (nbs : List Id) (hnd : nbs.Nodup) (ns : List (Id × NodeS))
    (h : ∀ nb ∈ nbs, ∃ n, dget ns nb = some n ∧ (n.parent = some old ∨ old ∈ n.children)) :
    ∃ ns', nbs.foldlM (fun (ns : List (Id × NodeS)) nb => do
      let n ← dget ns nb
      let n' ← TTN.replaceNeighbour n old new
      some (dset ns nb n')) ns = some ns' := by
  induction nbs generalizing ns with
  | nil => exact ⟨ns, rfl⟩
  | cons nb nbs ih =>
    rw [List.nodup_cons] at hnd
    rw [List.foldlM_cons]
    obtain ⟨n, hn, href⟩ := h nb (by simp)
    have hr : ∃ n', TTN.replaceNeighbour n old new = some n' := by
      unfold TTN.replaceNeighbour
      by_cases hp : n.parent = some old
      · simp only [hp, if_true]; exact ⟨_, rfl⟩
      · have hm : old ∈ n.children := by
          rcases href with e | e
          · exact absurd e hp
          · exact e
        obtain ⟨n', hn'⟩ := replaceChild_some n old new hm
        exact ⟨n', by simp [hp, hm, hn']⟩
    obtain ⟨n', hn'⟩ := hr
    simp only [hn, hn', bind, Option.bind]
    apply ih hnd.2
    intro nb' hnb'
    obtain ⟨m, hm, hmr⟩ := h nb' (List.mem_cons_of_mem _ hnb')
    refine ⟨m, ?_, hmr⟩
    rw [dget_dset]
    have : nb' ≠ nb := fun e => hnd.1 (e ▸ hnb')
    simp [this, hm]

theorem rnisn_some {t : TTN} {new old : Id} {nbs : List Id} (hnd : nbs.Nodup)
    (h : ∀ nb ∈ nbs, ∃ n, t.N nb = some n ∧ (n.parent = some old ∨ old ∈ n.children)) :
    ∃ t', t.replaceNodeInSomeNeighbours new old nbs = some t' := by
  obtain ⟨ns', hf⟩ := rnisn_fold_some new old nbs hnd t.nodes h
  unfold TTN.replaceNodeInSomeNeighbours
  simp only [bind, Option.bind] at hf ⊢
  simp only [hf]
  exact ⟨_, rfl⟩

/-- **Progress for `split_nodes`**: on a well-formed network, for admissible leg specifications and identifiers
    (`SplitAdm`), distinct new identifiers, and specifications whose open legs are exactly the open legs of the
    node (each once), the model call returns a network. -/
theorem split_nodes_progress {t : TTN} (h : t.WF) {id : Id} {X : NodeS} {outL inL : TTN.LegSpec}
    {outId inId : Id} (bd : Nat) (adm : SplitAdm t id X outL inL outId inId) (hoi : outId ≠ inId)
    (hopen : (outL.openLegs ++ inL.openLegs).Perm (List.range' X.nvirt (X.nlegs - X.nvirt))) :
    ∃ t', t.splitNodes id outL inL outId inId bd = some t' := by
  have hXN := adm.node
  have hstr := h.str
  have hSX := TTN.S_eq hXN
  have hchperm := adm.children
  have hXnd : X.children.Nodup := hstr.nodup id _ _ hSX
  have hcat_nd : (outL.childLegs ++ inL.childLegs).Nodup := hchperm.symm.nodup hXnd
  have hond : outL.childLegs.Nodup := (List.nodup_append.mp hcat_nd).1
  have hind : inL.childLegs.Nodup := (List.nodup_append.mp hcat_nd).2.1
  have hmemX : ∀ c, c ∈ X.children ↔ (c ∈ outL.childLegs ∨ c ∈ inL.childLegs) := by
    intro c; rw [← hchperm.mem_iff, List.mem_append]
  have hdisj : ∀ c, c ∈ outL.childLegs → c ∉ inL.childLegs := fun c h1 h2 =>
    (List.nodup_append.mp hcat_nd).2.2 c h1 c h2 rfl
  have hXw := h.node id X hXN
  have hnode_ne : ∀ k n, t.N k = some n → k ≠ id → k ≠ outId ∧ k ≠ inId := by
    intro k n hk hkid
    constructor
    · intro e; subst e
      rcases adm.outFresh with e' | e'
      · exact hkid e'
      · rw [hk] at e'; simp at e'
    · intro e; subst e
      rcases adm.inFresh with e' | e'
      · exact hkid e'
      · rw [hk] at e'; simp at e'
  have hchild : ∀ c, c ∈ X.children → ∃ cn, t.N c = some cn ∧ cn.parent = some id ∧ c ≠ id ∧ c ≠ outId ∧ c ≠ inId := by
    intro c hc
    obtain ⟨cch, hcS⟩ := hstr.down id _ _ c hSX hc
    obtain ⟨cn, hcn, ecn⟩ := TTN.N_of_S hcS
    simp at ecn
    have hcid : c ≠ id := fun e => by rw [e] at hcS; exact hstr.parent_ne hcS rfl
    exact ⟨cn, hcn, ecn.1.symm, hcid, (hnode_ne c cn hcn hcid).1, (hnode_ne c cn hcn hcid).2⟩
  have hgp : ∀ p, X.parent = some p → ∃ pn, t.N p = some pn ∧ id ∈ pn.children ∧ p ≠ id ∧ p ≠ outId ∧ p ≠ inId ∧
      p ∉ X.children := by
    intro p hp
    have hSX' : t.S id = some (some p, X.children) := by rw [hSX, hp]
    obtain ⟨pp, pch, hpS, hm⟩ := hstr.up id p _ hSX'
    obtain ⟨pn, hpn, epn⟩ := TTN.N_of_S hpS
    simp at epn
    have hpid : p ≠ id := hstr.parent_ne hSX'
    refine ⟨pn, hpn, by rw [← epn.2]; exact hm, hpid, (hnode_ne p pn hpn hpid).1, (hnode_ne p pn hpn hpid).2, ?_⟩
    intro hm'
    obtain ⟨cch, hcS⟩ := hstr.down id _ _ p hSX hm'
    exact hstr.no_two_cycle hSX' hcS
  have hpcX : ∀ c ∈ X.children, X.parent ≠ some c := by
    intro c hc e
    obtain ⟨_, _, _, _, _, _, q⟩ := hgp c e
    exact q hc
  -- 1. the access
  obtain ⟨t1, L, hacc⟩ := access_some h hXN
  obtain ⟨X', Ts, e1, e2, e3, ht1⟩ := access_eq hacc
  have hXn : dget t.nodes id = some X := hXN
  rw [hXn] at e1; simp at e1; subst e1
  have hLl : L.length = X.nlegs := (transposeT_len e3).1
  -- 2. the leg values
  have hidx : ∀ c ∈ X.children, (X.resetPermutation.neighbourIndex c).isSome = true := by
    intro c hc
    have hc' : c ∈ X.resetPermutation.children := hc
    unfold neighbourIndex
    by_cases hp : X.resetPermutation.parent = some c
    · simp [hp]
    · simp [hp, hc']
  obtain ⟨outInt, hoint⟩ := findLegValues_some (ls := outL) (node := X.resetPermutation)
    (fun c hc => hidx c ((hmemX c).mpr (Or.inl hc)))
  obtain ⟨inInt, hiint⟩ := findLegValues_some (ls := inL) (node := X.resetPermutation)
    (fun c hc => hidx c ((hmemX c).mpr (Or.inr hc)))
  -- 3. the splitting function
  have hpar' : (∃ p, X.parent = some p ∧ ((outL.parentLeg = some p ∧ inL.parentLeg = none) ∨
      (outL.parentLeg = none ∧ inL.parentLeg = some p))) ∨
      (X.parent = none ∧ outL.parentLeg = none ∧ inL.parentLeg = none) := by
    rcases adm.parent with ⟨p, hXp, _, _, hcase⟩ | ⟨hXp, hop, hip, _⟩
    · exact Or.inl ⟨p, hXp, hcase⟩
    · exact Or.inr ⟨hXp, hop, hip⟩
  obtain ⟨V, hre, hV⟩ := split_ints_perm (X := X) hXnd hpcX hchperm hpar' hoint hiint
  have hall : (outInt ++ inInt).Perm (List.range X.nlegs) := by
    rw [range_split_virt X hXw.virt]
    exact hre.trans (hV.append hopen)
  have hlenall : (outInt ++ inInt).length = L.length := by
    rw [hall.length_eq, List.length_range, hLl]
  obtain ⟨moved, hmoved, _⟩ := transposeT_some_of_perm L (outInt ++ inInt) (by
    rw [hlenall, hLl]; exact hall) hlenall
  have hsa : TTN.splitAxes L outInt inInt ⟨t.nextLabel, bd⟩ =
      some (moved.take outInt.length ++ [⟨t.nextLabel, bd⟩], ⟨t.nextLabel, bd⟩ :: moved.drop outInt.length) := by
    simp [TTN.splitAxes, hmoved, bind, Option.bind]
  generalize houtT : moved.take outInt.length ++ [(⟨t.nextLabel, bd⟩ : Axis)] = outT at hsa
  generalize hinT : (⟨t.nextLabel, bd⟩ : Axis) :: moved.drop outInt.length = inT at hsa
  have hlo := findLegValues_length hoint
  have hli := findLegValues_length hiint
  obtain ⟨hlenO, hlenI⟩ := splitAxes_eq hsa
  -- 4. the two new nodes
  have hout_notin : outId ∉ X.children := fun hm => by
    obtain ⟨_, _, _, _, q, _⟩ := hchild outId hm; exact q rfl
  have hin_notin : inId ∉ X.children := fun hm => by
    obtain ⟨_, _, _, _, _, q⟩ := hchild inId hm; exact q rfl
  have hnd_in_out : (inId :: outL.childLegs).Nodup :=
    List.nodup_cons.mpr ⟨fun hm => hin_notin ((hmemX inId).mpr (Or.inl hm)), hond⟩
  have hnd_out_in : (outId :: inL.childLegs).Nodup :=
    List.nodup_cons.mpr ⟨fun hm => hout_notin ((hmemX outId).mpr (Or.inr hm)), hind⟩
  have hnodes : ∃ inNode outNode, TTN.buildInNode inT inL outL outId = some inNode ∧
      TTN.buildOutNode outT outL inL inId = some outNode := by
    rcases adm.parent with ⟨p, hXp, hro, hri, hcase⟩ | ⟨hXp, hop, hip, hcase⟩
    · rcases hcase with ⟨hop, hip⟩ | ⟨hop, hip⟩
      · obtain ⟨on, o1, _⟩ := out_node_parent_facts outT outL inL inId p
          outL.openLegs.length hop hro hri hip (by rw [hlenO, hlo, hop]; simp <;> omega) hnd_in_out
        obtain ⟨inn, i1, _⟩ := in_node_child_facts inT inL outL outId
          inL.openLegs.length hip hri (by rw [hlenI, hli, hip]; simp; omega) hind
        exact ⟨inn, on, i1, o1⟩
      · obtain ⟨inn, i1, _⟩ := in_node_parent_facts inT inL outL outId p
          inL.openLegs.length hip hri (by rw [hlenI, hli, hip]; simp; omega) hnd_out_in
        obtain ⟨on, o1, _⟩ := out_node_child_facts outT outL inL inId
          outL.openLegs.length hop hro (Or.inr (by rw [hip]; rfl))
          (by rw [hlenO, hlo, hop]; simp) hond
        exact ⟨inn, on, i1, o1⟩
    · rcases hcase with ⟨hro, hri⟩ | ⟨hro, hri⟩
      · obtain ⟨on, o1, _⟩ := out_node_root_facts outT outL inL inId
          outL.openLegs.length hop hro hri hip (by rw [hlenO, hlo, hop]; simp) hnd_in_out
        obtain ⟨inn, i1, _⟩ := in_node_child_facts inT inL outL outId
          inL.openLegs.length hip hri (by rw [hlenI, hli, hip]; simp; omega) hind
        exact ⟨inn, on, i1, o1⟩
      · obtain ⟨inn, i1, _⟩ := in_node_root_facts inT inL outL outId
          inL.openLegs.length hip hri hop (by rw [hlenI, hli, hip]; simp; omega) hnd_out_in
        obtain ⟨on, o1, _⟩ := out_node_child_facts outT outL inL inId
          outL.openLegs.length hop hro (Or.inl hri) (by rw [hlenO, hlo, hop]; simp) hond
        exact ⟨inn, on, i1, o1⟩
  obtain ⟨inNode, outNode, hbi, hbo⟩ := hnodes
  -- the network with the two new nodes
  generalize ht2 : (⟨dset (dset (dset (dset t1.nodes outId (nodeOfTensor outT)) inId (nodeOfTensor inT)) inId inNode)
      outId outNode, dset (dset t1.tensors outId outT) inId inT, t1.root, t.nextLabel + 1⟩ : TTN) = t2
  have hN2 : ∀ k, t2.N k = if k = outId then some outNode else if k = inId then some inNode
      else if k = id then some X.resetPermutation else t.N k := by
    intro k
    rw [← ht2, ht1]
    simp only [TTN.N, dget_dset]
    by_cases h1 : k = outId
    · simp [h1]
    · by_cases h2 : k = inId
      · simp [h1, h2]
      · simp [h1, h2]
  have hT2 : ∀ k, dget t2.tensors k = if k = inId then some inT else if k = outId then some outT
      else if k = id then some L else dget t.tensors k := by
    intro k
    rw [← ht2, ht1]
    simp only [dget_dset]
  -- neighbours of the split node in `t2`
  have hnb2 : ∀ k, (X.parent = some k ∨ k ∈ X.children) →
      ∃ n, t2.N k = some n ∧ (n.parent = some id ∨ id ∈ n.children) := by
    intro k hk
    rcases hk with hk | hk
    · obtain ⟨pn, q1, q2, q3, q4, q5, _⟩ := hgp k hk
      exact ⟨pn, by rw [hN2]; simp [q3, q4, q5, q1], Or.inr q2⟩
    · obtain ⟨cn, q1, q2, q3, q4, q5⟩ := hchild k hk
      exact ⟨cn, by rw [hN2]; simp [q3, q4, q5, q1], Or.inl q2⟩
  have hmem_out : ∀ k, k ∈ outL.allNeighbourIds → (X.parent = some k ∨ k ∈ X.children) := by
    intro k hk
    rcases (mem_allNeighbourIds outL k).mp hk with e | e
    · left
      rcases adm.parent with ⟨p, hXp, _, _, hcase⟩ | ⟨_, hop, _, _⟩
      · rcases hcase with ⟨hop, _⟩ | ⟨hop, _⟩
        · rw [hop] at e; rw [hXp]; exact e
        · rw [hop] at e; simp at e
      · rw [hop] at e; simp at e
    · exact Or.inr ((hmemX k).mpr (Or.inl e))
  have hmem_in : ∀ k, k ∈ inL.allNeighbourIds → (X.parent = some k ∨ k ∈ X.children) := by
    intro k hk
    rcases (mem_allNeighbourIds inL k).mp hk with e | e
    · left
      rcases adm.parent with ⟨p, hXp, _, _, hcase⟩ | ⟨_, _, hip, _⟩
      · rcases hcase with ⟨_, hip⟩ | ⟨_, hip⟩
        · rw [hip] at e; simp at e
        · rw [hip] at e; rw [hXp]; exact e
      · rw [hip] at e; simp at e
    · exact Or.inr ((hmemX k).mpr (Or.inr e))
  have hnd_out : outL.allNeighbourIds.Nodup := nodup_allNeighbourIds outL hond (by
    intro q hq hm
    have := hmem_out q ((mem_allNeighbourIds outL q).mpr (Or.inl hq))
    rcases this with e | e
    · obtain ⟨_, _, _, _, _, _, r⟩ := hgp q e
      exact r ((hmemX q).mpr (Or.inl hm))
    · -- q is the parent named by the specification and a child: the parent is X's parent
      rcases adm.parent with ⟨p, hXp, _, _, hcase⟩ | ⟨_, hop, _, _⟩
      · rcases hcase with ⟨hop, _⟩ | ⟨hop, _⟩
        · rw [hop] at hq; simp at hq; subst hq
          obtain ⟨_, _, _, _, _, _, r⟩ := hgp p hXp
          exact r e
        · rw [hop] at hq; simp at hq
      · rw [hop] at hq; simp at hq)
  have hnd_inl : inL.allNeighbourIds.Nodup := nodup_allNeighbourIds inL hind (by
    intro q hq hm
    rcases adm.parent with ⟨p, hXp, _, _, hcase⟩ | ⟨_, _, hip, _⟩
    · rcases hcase with ⟨_, hip⟩ | ⟨_, hip⟩
      · rw [hip] at hq; simp at hq
      · rw [hip] at hq; simp at hq; subst hq
        obtain ⟨_, _, _, _, _, _, r⟩ := hgp p hXp
        exact r ((hmemX p).mpr (Or.inr hm))
    · rw [hip] at hq; simp at hq)
  -- 5. the two renamings
  obtain ⟨t3, hr3⟩ := rnisn_some (new := outId) (old := id) hnd_out
    (fun nb hnb => hnb2 nb (hmem_out nb hnb))
  obtain ⟨hN3, hten3, hroot3, _⟩ := rnisn_eq hnd_out hr3
  have hdisj_nb : ∀ k, k ∈ inL.allNeighbourIds → k ∉ outL.allNeighbourIds := by
    intro k hki hko
    rcases (mem_allNeighbourIds inL k).mp hki with ei | ei <;>
      rcases (mem_allNeighbourIds outL k).mp hko with eo | eo
    · rcases adm.parent with ⟨p, _, _, _, hcase⟩ | ⟨_, hop, _, _⟩
      · rcases hcase with ⟨_, hip⟩ | ⟨hop, _⟩
        · rw [hip] at ei; simp at ei
        · rw [hop] at eo; simp at eo
      · rw [hop] at eo; simp at eo
    · -- k is the in-parent and an out-child
      have hk1 := hmem_in k hki
      rcases adm.parent with ⟨p, hXp, _, _, hcase⟩ | ⟨_, _, hip, _⟩
      · rcases hcase with ⟨_, hip⟩ | ⟨_, hip⟩
        · rw [hip] at ei; simp at ei
        · rw [hip] at ei; simp at ei; subst ei
          obtain ⟨_, _, _, _, _, _, r⟩ := hgp p hXp
          exact r ((hmemX p).mpr (Or.inl eo))
      · rw [hip] at ei; simp at ei
    · rcases adm.parent with ⟨p, hXp, _, _, hcase⟩ | ⟨_, hop, _, _⟩
      · rcases hcase with ⟨hop, _⟩ | ⟨hop, _⟩
        · rw [hop] at eo; simp at eo; subst eo
          obtain ⟨_, _, _, _, _, _, r⟩ := hgp p hXp
          exact r ((hmemX p).mpr (Or.inr ei))
        · rw [hop] at eo; simp at eo
      · rw [hop] at eo; simp at eo
    · exact hdisj k eo ei
  obtain ⟨t4, hr4⟩ := rnisn_some (t := t3) (new := inId) (old := id) hnd_inl (by
    intro nb hnb
    obtain ⟨n, q1, q2⟩ := hnb2 nb (hmem_in nb hnb)
    exact ⟨n, by rw [hN3]; simp [hdisj_nb nb hnb, q1], q2⟩)
  obtain ⟨hN4, hten4, hroot4, _⟩ := rnisn_eq hnd_inl hr4
  -- 6. the root
  have hr5 : ∃ t5, t4.setRootFromLegSpecs inL outL inId outId = some t5 := by
    unfold TTN.setRootFromLegSpecs
    rcases adm.parent with ⟨p, _, hro, hri, _⟩ | ⟨_, _, _, hcase⟩
    · simp [hro, hri]
    · rcases hcase with ⟨hro, hri⟩ | ⟨hro, hri⟩
      · simp [hro, hri]
      · simp [hro, hri]
  obtain ⟨t5, hr5⟩ := hr5
  obtain ⟨hnodes5, hten5, _⟩ := setRoot_eq hr5
  -- 7. dropping the old identifier
  have hfin : ∃ t', (if id ≠ outId ∧ id ≠ inId then do
        let t6 ← t5.tensorsPop id
        let ns ← dpop t6.nodes id
        some { t6 with nodes := ns }
      else some t5) = some t' := by
    by_cases hdrop : id ≠ outId ∧ id ≠ inId
    · rw [if_pos hdrop]
      have hid_out : id ∉ outL.allNeighbourIds := fun hm => by
        rcases hmem_out id hm with e | e
        · obtain ⟨_, _, _, q, _⟩ := hgp id e; exact q rfl
        · obtain ⟨_, _, _, q, _⟩ := hchild id e; exact q rfl
      have hid_in : id ∉ inL.allNeighbourIds := fun hm => by
        rcases hmem_in id hm with e | e
        · obtain ⟨_, _, _, q, _⟩ := hgp id e; exact q rfl
        · obtain ⟨_, _, _, q, _⟩ := hchild id e; exact q rfl
      have hN5 : dget t5.nodes id = some X.resetPermutation := by
        rw [hnodes5]
        have : t4.N id = some X.resetPermutation := by
          rw [hN4, hN3, hN2]; simp [hid_out, hid_in, hdrop.1, hdrop.2]
        exact this
      have hT5 : dget t5.tensors id = some L := by
        rw [hten5, hten4, hten3, hT2]; simp [hdrop.1, hdrop.2]
      have hwr := wfn_resetPermutation hXw
      obtain ⟨t6, hpop⟩ := tensorsPop_some_raw hN5 hT5 hwr.perm (by
        simp only [resetPermutation, List.length_range]; exact hLl.symm ▸ rfl)
      obtain ⟨n6, Ts6, T6, ts6, g1, g2, g3, g4, ht6⟩ := tensorsPop_eq hpop
      have hhas : dhas t6.nodes id = true := by subst ht6; simp [dhas_dset]
      obtain ⟨ns, hns, _⟩ := dpop_of_has _ _ hhas
      simp only [hpop, hns, bind, Option.bind]
      exact ⟨_, rfl⟩
    · rw [if_neg hdrop]; exact ⟨_, rfl⟩
  obtain ⟨t', hfin⟩ := hfin
  refine ⟨t', ?_⟩
  unfold TTN.splitNodes
  have hn1 : dget t1.nodes id = some X.resetPermutation := by subst ht1; simp [dget_dset]
  simp only [hoi, if_false, hacc, hn1, hoint, hiint, hsa, hbi, hbo, bind, Option.bind]
  rw [ht2]
  simp only [hr3, hr4, hr5]
  exact hfin

/-! ### a computable admissibility test -/

/-- Admissibility of `split_nodes(id, out_legs, in_legs, out_identifier, in_identifier)` as a computable test
    on the state: the node exists, the two new identifiers differ and are the old one or unused, the child
    identifiers of the two specifications partition the children, their open legs partition the open legs,
    exactly one side takes the parent (for the root: exactly one side has `is_root`). -/
def splitAdmB (t : TTN) (id : Id) (outL inL : TTN.LegSpec) (outId inId : Id) : Bool :=
  match dget t.nodes id with
  | none => false
  | some X =>
    (outId != inId) && (outId == id || (dget t.nodes outId).isNone) &&
    (inId == id || (dget t.nodes inId).isNone) &&
    (outL.childLegs ++ inL.childLegs).isPerm X.children &&
    (outL.openLegs ++ inL.openLegs).isPerm (List.range' X.nvirt (X.nlegs - X.nvirt)) &&
    (match X.parent with
     | some p => !outL.isRoot && !inL.isRoot &&
         ((outL.parentLeg == some p && inL.parentLeg == none) ||
          (outL.parentLeg == none && inL.parentLeg == some p))
     | none => outL.parentLeg == none && inL.parentLeg == none &&
         ((outL.isRoot && !inL.isRoot) || (!outL.isRoot && inL.isRoot)))

theorem splitAdmB_spec {t : TTN} {id : Id} {outL inL : TTN.LegSpec} {outId inId : Id}
    (h : splitAdmB t id outL inL outId inId = true) :
    ∃ X, SplitAdm t id X outL inL outId inId ∧ outId ≠ inId ∧
      (outL.openLegs ++ inL.openLegs).Perm (List.range' X.nvirt (X.nlegs - X.nvirt)) := by
  unfold splitAdmB at h
  cases hX : dget t.nodes id with
  | none => simp [hX] at h
  | some X =>
    simp only [hX, Bool.and_eq_true, bne_iff_ne, ne_eq, Bool.or_eq_true, beq_iff_eq,
      Option.isNone_iff_eq_none, List.isPerm_iff] at h
    obtain ⟨⟨⟨⟨⟨h1, h2⟩, h3⟩, h4⟩, h5⟩, h6⟩ := h
    refine ⟨X, ⟨hX, h2, h3, h4, ?_⟩, h1, h5⟩
    cases hp : X.parent with
    | none =>
      simp only [hp, Bool.and_eq_true, beq_iff_eq, Bool.or_eq_true, Bool.not_eq_true'] at h6
      obtain ⟨⟨a, b⟩, c⟩ := h6
      refine Or.inr ⟨rfl, a, b, ?_⟩
      rcases c with ⟨c1, c2⟩ | ⟨c1, c2⟩
      · exact Or.inl ⟨c1, c2⟩
      · exact Or.inr ⟨c1, c2⟩
    | some p =>
      simp only [hp, Bool.and_eq_true, beq_iff_eq, Bool.or_eq_true, Bool.not_eq_true'] at h6
      obtain ⟨⟨a, b⟩, c⟩ := h6
      exact Or.inl ⟨p, rfl, a, b, c⟩

/-- The operations covered by the progress theorem, with their computable admissibility test. -/
def admissibleB (t : TTN) : TOp → Bool
  | .access id => (dget t.nodes id).isSome
  | .contract a b n => contractAdmB t a b n
  | .split id o i oid iid _ => splitAdmB t id o i oid iid
  | _ => false

/-- **Admissible calls never raise**: on a well-formed, label-consistent network an access of an existing
    node, `contract_nodes` of two adjacent nodes with an admissible identifier, and `split_nodes` with leg
    specifications that partition the legs (test `admissibleB`, computable from the state and the arguments)
    return a network – no exception branch of the model is taken – and the call is admissible in the sense of
    `ops_preserve_wf` / `ops_preserve_labels`, so the result is again well-formed and label-consistent. -/
theorem admissible_never_errors_aux {t : TTN} (h : t.WF) (hl : t.LWF) (op : TOp)
    (hadm : admissibleB t op = true) :
    ∃ t', t.step op = some t' ∧ op.Adm t ∧ t'.WF ∧ t'.LWF := by
  cases op with
  | root id T => simp [admissibleB] at hadm
  | child id T cl pid pl => simp [admissibleB] at hadm
  | ident c p n => simp [admissibleB] at hadm
  | rename n o => simp [admissibleB] at hadm
  | rtp id p => simp [admissibleB] at hadm
  | access id =>
    simp only [admissibleB] at hadm
    cases hn : dget t.nodes id with
    | none => rw [hn] at hadm; simp at hadm
    | some n =>
      obtain ⟨t1, T, ha⟩ := access_some h (show t.N id = some n from hn)
      refine ⟨t1, by simp [TTN.step, ha], trivial, access_wf h ha, access_lwf hl ha⟩
  | contract a b n =>
    simp only [admissibleB] at hadm
    obtain ⟨t', hs⟩ := contract_nodes_progress h hl hadm
    have hnew := ((contractAdmB_iff t a b n).mp hadm).2
    exact ⟨t', hs, hnew, contract_nodes_wf_aux h hnew hs, contract_lwf h hl hnew hs⟩
  | split id o i oid iid bd =>
    simp only [admissibleB] at hadm
    obtain ⟨X, adm, hoi, hopen⟩ := splitAdmB_spec hadm
    obtain ⟨t', hs⟩ := split_nodes_progress h bd adm hoi hopen
    exact ⟨t', hs, ⟨X, adm⟩, split_nodes_wf_aux h adm hs, split_lwf h hl adm hs⟩

end Ptn.C02
