import Ptn.C02.SplitWF
import Ptn.C02.ContractLabels
/-! `split_nodes` at the level of labels: where every leg and every open axis goes, and preservation of the
label invariant `LWF`.  Core Lean only. -/
namespace Ptn.C02
open NodeS

/-- The renaming of the references to the split node `x` held by the bystander `k`: the children taken by
    the `b` side point to `b`, everybody else (the other children, the former parent) to `a`. -/
def splitRho (x a b : Id) (bCh : List Id) (k : Id) (y : Id) : Id :=
  if y = x then (if k ∈ bCh then b else a) else y

theorem srel_neighbours {x a b k : Id} {aCh bCh : List Id} {n n' : NodeS} (hr : SRel x a b aCh k n n')
    (hpar : n.parent = some x → (k ∈ aCh ↔ k ∉ bCh)) (hch : x ∈ n.children → k ∉ bCh) :
    n'.neighbours = n.neighbours.map (splitRho x a b bCh k) := by
  obtain ⟨_, _, e3⟩ := hr
  simp only [structOf, splitRen, Prod.mk.injEq] at e3
  unfold NodeS.neighbours
  rw [e3.1, e3.2, List.map_append]
  congr 1
  · cases hp : n.parent with
    | none => rfl
    | some p =>
      simp only [Option.toList_some, List.map_cons, List.map_nil, splitRho]
      by_cases hpx : p = x
      · subst hpx
        have := hpar hp
        by_cases hka : k ∈ aCh
        · simp [hka, this.mp hka]
        · have hkb : k ∈ bCh := by
            by_cases hkb : k ∈ bCh
            · exact hkb
            · exact absurd (this.mpr hkb) hka
          simp [hka, hkb]
      · simp [hpx]
  · apply List.map_congr_left
    intro c hcm
    simp only [splitRho]
    by_cases hcx : c = x
    · subst hcx
      simp [hch hcm]
    · simp [hcx]

/-- **Where the legs go in `split_nodes`.**  `a` (the side that keeps the parent or the root role) and `b`
    (its new first child) are joined by the fresh bond `⟨nextLabel, bd⟩`; every other virtual leg of the split
    node goes, with its axis, to the side whose specification lists that neighbour; the open axes of each
    side are those its specification selects, in that order; every other node keeps its axes, only its
    reference to the split node is renamed. -/
theorem split_labels {t t' : TTN} {id : Id} {X : NodeS} {outL inL : TTN.LegSpec} {outId inId : Id}
    {bd : Nat} (h : t.WF) (adm : SplitAdm t id X outL inL outId inId)
    (hs : t.splitNodes id outL inL outId inId bd = some t') :
    ∃ a b aCh bCh L,
      ((a = outId ∧ b = inId ∧ aCh = outL.childLegs ∧ bCh = inL.childLegs) ∨
       (a = inId ∧ b = outId ∧ aCh = inL.childLegs ∧ bCh = outL.childLegs)) ∧
      a ≠ b ∧ t.logical id = some L ∧
      (∀ c, c ∈ X.children ↔ (c ∈ aCh ∨ c ∈ bCh)) ∧ (∀ c, c ∈ aCh → c ∉ bCh) ∧
      (∀ x ax, t'.Leg a x ax ↔
        ((x = b ∧ ax = ⟨t.nextLabel, bd⟩) ∨ ((X.parent = some x ∨ x ∈ aCh) ∧ t.Leg id x ax))) ∧
      (∀ x ax, t'.Leg b x ax ↔ ((x = a ∧ ax = ⟨t.nextLabel, bd⟩) ∨ (x ∈ bCh ∧ t.Leg id x ax))) ∧
      t'.openAxes outId = pick L outL.openLegs ∧ t'.openAxes inId = pick L inL.openLegs ∧
      (t'.openAxes outId ++ t'.openAxes inId).Perm (t.openAxes id) ∧
      (id ≠ a → id ≠ b → t'.legPairs id = [] ∧ t'.openAxes id = []) ∧
      (∀ k, k ≠ a → k ≠ b → k ≠ id →
        t'.legPairs k = (t.legPairs k).map (fun e => (splitRho id a b bCh k e.1, e.2)) ∧
        t'.openAxes k = t.openAxes k) := by
  obtain ⟨a, b, aCh, bCh, na, nb, Ta, Tb, hcfg, hab, hNa, hNb, p1, p2, p3, p4, w1, w2, s1, s2, hid, hby, hT, hR,
    _, L, La, Lb, g1, g2, g3, g4, g5, g6, g7, g8⟩ := split_final h adm hs
  have hXN := adm.node
  have hSX : t.S id = some (X.parent, X.children) := TTN.S_eq hXN
  have hXnd : X.children.Nodup := h.str.nodup id _ _ hSX
  have hcat_nd : (outL.childLegs ++ inL.childLegs).Nodup := adm.children.symm.nodup hXnd
  have hmemX : ∀ c, c ∈ X.children ↔ (c ∈ outL.childLegs ∨ c ∈ inL.childLegs) := by
    intro c; rw [← adm.children.mem_iff, List.mem_append]
  have hpart : ∀ c, c ∈ X.children ↔ (c ∈ aCh ∨ c ∈ bCh) := by
    intro c
    rcases hcfg with ⟨_, _, e3, e4⟩ | ⟨_, _, e3, e4⟩
    · rw [e3, e4]; exact hmemX c
    · rw [e3, e4, hmemX c]; exact Or.comm
  have hdisj : ∀ c, c ∈ aCh → c ∉ bCh := by
    intro c
    have d := (List.nodup_append.mp hcat_nd).2.2
    rcases hcfg with ⟨_, _, e3, e4⟩ | ⟨_, _, e3, e4⟩
    · rw [e3, e4]; exact fun h1 h2 => d c h1 c h2 rfl
    · rw [e3, e4]; exact fun h1 h2 => d c h2 c h1 rfl
  have hloga : t'.logical a = some La := by
    have hTa : dget t'.tensors a = some Ta := by rw [hT]; simp
    rw [logical_eq hNa hTa]; exact g2
  have hlogb : t'.logical b = some Lb := by
    have hTb : dget t'.tensors b = some Tb := by
      have hba : ¬ b = a := fun e => hab e.symm
      rw [hT]; simp [hba]
    rw [logical_eq hNb hTb]; exact g3
  have hnbX := neighbours_nodup h hXN
  have hlegX : ∀ x ax, t.Leg id x ax ↔ legAx X L x = some ax := by
    intro x ax
    unfold TTN.Leg
    rw [legPairs_eq hXN g1]
    exact mem_zip_neighbours hnbX L x ax
  have hopO : t'.openAxes outId = pick L outL.openLegs := by
    rcases hcfg with ⟨e1, e2, _⟩ | ⟨e1, e2, _⟩
    · rw [← e1, openAxes_eq hNa hloga, g6, if_pos e1]
    · rw [← e2, openAxes_eq hNb hlogb, g7, if_pos e2]
  have hopI : t'.openAxes inId = pick L inL.openLegs := by
    rcases hcfg with ⟨e1, e2, _⟩ | ⟨e1, e2, _⟩
    · have hne : ¬ b = outId := by rw [← e1]; exact fun e => hab e.symm
      rw [← e2, openAxes_eq hNb hlogb, g7, if_neg hne]
    · have hne : ¬ a = outId := by rw [← e2]; exact hab
      rw [← e1, openAxes_eq hNa hloga, g6, if_neg hne]
  have hLl : L.length = X.nlegs := by
    obtain ⟨L', hL', hl⟩ := logical_some h hXN
    rw [g1] at hL'; simp at hL'; subst hL'
    exact hl
  have hopen : (t'.openAxes outId ++ t'.openAxes inId).Perm (t.openAxes id) := by
    rw [hopO, hopI, openAxes_eq hXN g1]
    have e1 : pick L outL.openLegs ++ pick L inL.openLegs = pick L (outL.openLegs ++ inL.openLegs) := by
      simp [pick, List.filterMap_append]
    rw [e1]
    have e2 : L.drop X.nvirt = pick L (List.range' X.nvirt (X.nlegs - X.nvirt)) := by
      rw [pick_range' L X.nvirt (X.nlegs - X.nvirt) (by
        have := (h.node id X hXN).virt
        simp only [nlegs] at hLl ⊢
        omega)]
      rw [List.take_of_length_le (by simp [hLl])]
    rw [e2]
    exact g8.filterMap _
  refine ⟨a, b, aCh, bCh, L, hcfg, hab, g1, hpart, hdisj, ?_, ?_, hopO, hopI, hopen, ?_, ?_⟩
  · intro x ax
    unfold TTN.Leg
    rw [legPairs_eq hNa hloga, g4 x ax, ← hlegX]
    rfl
  · intro x ax
    unfold TTN.Leg
    rw [legPairs_eq hNb hlogb, g5 x ax, ← hlegX]
    rfl
  · intro h1 h2
    have := hid h1 h2
    exact ⟨legPairs_none this, openAxes_none this⟩
  · intro k hka hkb hkid
    obtain ⟨b1, b2⟩ := hby k hka hkb hkid
    cases hn : t.N k with
    | none =>
      have := b1 hn
      rw [legPairs_none this, legPairs_none hn, openAxes_none this, openAxes_none hn]
      exact ⟨rfl, rfl⟩
    | some n =>
      obtain ⟨n', q1, q2⟩ := b2 n hn
      have hSk := TTN.S_eq hn
      have hT' : dget t'.tensors k = dget t.tensors k := by
        rw [hT]; simp [hka, hkb, hkid]
      have hpar : n.parent = some id → (k ∈ aCh ↔ k ∉ bCh) := by
        intro e
        obtain ⟨pp, pch, e1, e2⟩ := h.str.up k id n.children (by rw [hSk, e])
        rw [hSX] at e1; simp at e1
        have hkX : k ∈ X.children := e1.2 ▸ e2
        constructor
        · exact hdisj k
        · intro hnb
          rcases (hpart k).mp hkX with h' | h'
          · exact h'
          · exact absurd h' hnb
      have hch : id ∈ n.children → k ∉ bCh := by
        intro hm hkb'
        obtain ⟨cch, e1⟩ := h.str.down k _ _ id hSk hm
        have hkX : k ∈ X.children := (hpart k).mpr (Or.inr hkb')
        obtain ⟨cch', e2⟩ := h.str.down id _ _ k hSX hkX
        exact h.str.no_two_cycle e1 e2
      obtain ⟨_, r2, r3⟩ := labels_of_rename (splitRho id a b bCh k) hn q1 q2.1
        (srel_neighbours q2 hpar hch) hT'
      exact ⟨r2, r3⟩

/-- **`split_nodes` preserves the label invariant.** -/
theorem split_lwf {t t' : TTN} {id : Id} {X : NodeS} {outL inL : TTN.LegSpec} {outId inId : Id}
    {bd : Nat} (h : t.WF) (hl : t.LWF) (adm : SplitAdm t id X outL inL outId inId)
    (hs : t.splitNodes id outL inL outId inId bd = some t') : t'.LWF := by
  obtain ⟨a, b, aCh, bCh, L, hcfg, hab, _, hpart, hdisj, ca, cb, _, _, _, cid, cby⟩ := split_labels h adm hs
  have hXN := adm.node
  have hSX : t.S id = some (X.parent, X.children) := TTN.S_eq hXN
  -- an existing node other than `id` is neither `a` nor `b`
  have fresh : ∀ x, t.N x ≠ none → x ≠ id → x ≠ a ∧ x ≠ b := by
    intro x hx hxid
    have ho : x ≠ outId := by
      intro e
      rcases adm.outFresh with e' | e'
      · exact hxid (e.trans e')
      · rw [e] at hx; exact hx e'
    have hi : x ≠ inId := by
      intro e
      rcases adm.inFresh with e' | e'
      · exact hxid (e.trans e')
      · rw [e] at hx; exact hx e'
    rcases hcfg with ⟨e1, e2, _⟩ | ⟨e1, e2, _⟩
    · rw [e1, e2]; exact ⟨ho, hi⟩
    · rw [e1, e2]; exact ⟨hi, ho⟩
  -- the parent of the split node is not one of its children
  have hpar_notb : ∀ x, X.parent = some x → x ∉ bCh := by
    intro x hp hm
    have hxX : x ∈ X.children := (hpart x).mpr (Or.inr hm)
    obtain ⟨cch, e2⟩ := h.str.down id _ _ x hSX hxX
    exact h.str.no_two_cycle (a := id) (b := x) (by rw [hSX, hp]) e2
  constructor
  intro k x' ax hk
  by_cases hka : k = a
  · subst hka
    rcases (ca x' ax).mp hk with ⟨e1, e2⟩ | ⟨hx, hleg⟩
    · subst e1 e2
      exact (cb k _).mpr (Or.inl ⟨rfl, rfl⟩)
    · have hs := hl.sym _ _ _ hleg
      have hx'id : x' ≠ id := fun e => leg_ne h hleg e.symm
      obtain ⟨f1, f2⟩ := fresh x' (leg_isNode hs) hx'id
      have hx'b : x' ∉ bCh := by
        rcases hx with hx | hx
        · exact hpar_notb x' hx
        · exact hdisj x' hx
      unfold TTN.Leg
      rw [(cby x' f1 f2 hx'id).1, List.mem_map]
      exact ⟨(id, ax), hs, by simp [splitRho, hx'b]⟩
  · by_cases hkb : k = b
    · subst hkb
      rcases (cb x' ax).mp hk with ⟨e1, e2⟩ | ⟨hx, hleg⟩
      · subst e1 e2
        exact (ca k _).mpr (Or.inl ⟨rfl, rfl⟩)
      · have hs := hl.sym _ _ _ hleg
        have hx'id : x' ≠ id := fun e => leg_ne h hleg e.symm
        obtain ⟨f1, f2⟩ := fresh x' (leg_isNode hs) hx'id
        unfold TTN.Leg
        rw [(cby x' f1 f2 hx'id).1, List.mem_map]
        exact ⟨(id, ax), hs, by simp [splitRho, hx]⟩
    · by_cases hkid : k = id
      · subst hkid
        unfold TTN.Leg at hk
        rw [(cid (fun e => hka e) (fun e => hkb e)).1] at hk
        simp at hk
      · unfold TTN.Leg at hk
        rw [(cby k hka hkb hkid).1, List.mem_map] at hk
        obtain ⟨⟨x, ax'⟩, hm, he⟩ := hk
        simp only [Prod.mk.injEq] at he
        obtain ⟨he1, he2⟩ := he
        subst he2
        have hsym : t.Leg x k ax' := hl.sym _ _ _ hm
        by_cases hxid : x = id
        · subst hxid
          -- k is a neighbour of the split node
          have hkn : k ∈ X.neighbours := leg_neighbour hXN hsym
          rcases (mem_neighbours X k).mp hkn with hp | hc
          · have hkb' : k ∉ bCh := hpar_notb k hp
            have : x' = a := by rw [← he1]; simp [splitRho, hkb']
            rw [this]
            exact (ca k ax').mpr (Or.inr ⟨Or.inl hp, hsym⟩)
          · by_cases hkb' : k ∈ bCh
            · have : x' = b := by rw [← he1]; simp [splitRho, hkb']
              rw [this]
              exact (cb k ax').mpr (Or.inr ⟨hkb', hsym⟩)
            · have hka' : k ∈ aCh := by
                rcases (hpart k).mp hc with h' | h'
                · exact h'
                · exact absurd h' hkb'
              have : x' = a := by rw [← he1]; simp [splitRho, hkb']
              rw [this]
              exact (ca k ax').mpr (Or.inr ⟨Or.inr hka', hsym⟩)
        · have : x' = x := by rw [← he1]; simp [splitRho, hxid]
          rw [this]
          obtain ⟨f1, f2⟩ := fresh x (leg_isNode hsym) hxid
          unfold TTN.Leg
          rw [(cby x f1 f2 hxid).1, List.mem_map]
          exact ⟨(k, ax'), hsym, by simp [splitRho, hkid]⟩

end Ptn.C02
