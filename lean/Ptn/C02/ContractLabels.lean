import Ptn.C02.ContractWF
/-! `contract_nodes` at the level of labels: where every leg and every open axis goes, and preservation
of the label invariant `LWF`.  Core Lean only. -/
namespace Ptn.C02
open NodeS

/-- No node is its own neighbour. -/
theorem leg_ne {t : TTN} (h : t.WF) {k x : Id} {ax : Axis} (hl : t.Leg k x ax) : k ≠ x := by
  obtain ⟨n, L, hn, _, hm⟩ := leg_node hl
  have hx := (List.of_mem_zip hm).1
  have hS := TTN.S_eq hn
  intro e
  subst e
  rcases (mem_neighbours n k).mp hx with hp | hc
  · rw [hp] at hS
    exact h.str.parent_ne hS rfl
  · obtain ⟨cch, e1⟩ := h.str.down k _ _ k hS hc
    exact h.str.parent_ne e1 rfl

theorem leg_isNode {t : TTN} {k x : Id} {ax : Axis} (hl : t.Leg k x ax) : t.N k ≠ none := by
  obtain ⟨n, _, hn, _, _⟩ := leg_node hl
  rw [hn]; simp

/-- The renaming of references caused by contracting `pid – cid` into `new`. -/
def contrRho (pid cid new : Id) (x : Id) : Id := if x = pid ∨ x = cid then new else x

theorem crel_neighbours {pid cid new : Id} {n n' : NodeS} (hr : CRel pid cid new n n')
    (hc : cid ∉ n.children) : n'.neighbours = n.neighbours.map (contrRho pid cid new) := by
  obtain ⟨_, _, e3⟩ := hr
  simp only [structOf, contractRen, Prod.mk.injEq] at e3
  unfold NodeS.neighbours
  rw [e3.1, e3.2, List.map_append]
  congr 1
  · cases hp : n.parent with
    | none => rfl
    | some p =>
      simp only [Option.toList_some, List.map_cons, List.map_nil, contrRho]
      by_cases hpp : p = pid ∨ p = cid <;> simp [hpp]
  · apply List.map_congr_left
    intro c hcm
    have : c ≠ cid := fun e => hc (e ▸ hcm)
    simp [contrRho, this]

/-- **Where the legs go in `contract_nodes`.**  The new node has the legs of the parent (without the one
    to the child) and of the child (without the one to the parent), each with the axis it had; its open
    axes are those of `node_id1` followed by those of `node_id2`; every other node keeps its axes, only the
    references to the two contracted nodes are renamed. -/
theorem contract_labels {t t' : TTN} {id1 id2 new : Id} (h : t.WF)
    (hnew : new = id1 ∨ new = id2 ∨ t.N new = none)
    (hc : t.contractNodes id1 id2 new = some t') :
    ∃ pid cid, ((pid = id1 ∧ cid = id2) ∨ (pid = id2 ∧ cid = id1)) ∧ pid ≠ cid ∧
      t.N pid ≠ none ∧ t.N cid ≠ none ∧
      (new = pid ∨ new = cid ∨ t.N new = none) ∧
      (∀ x ax, t'.Leg new x ax ↔ ((t.Leg pid x ax ∧ x ≠ cid) ∨ (t.Leg cid x ax ∧ x ≠ pid))) ∧
      t'.openAxes new = t.openAxes id1 ++ t.openAxes id2 ∧
      (∀ k, k ≠ new → (k = pid ∨ k = cid) → t'.legPairs k = [] ∧ t'.openAxes k = []) ∧
      (∀ k, k ≠ new → k ≠ pid → k ≠ cid →
        t'.legPairs k = (t.legPairs k).map (fun e => (contrRho pid cid new e.1, e.2)) ∧
        t'.openAxes k = t.openAxes k) := by
  obtain ⟨pid, cid, P, C, nn, newT, hP, hC, hCp, hids, hnew', n1, n2, n3, n4, n5, n6, a1, a2, a3, a4, a5, a6,
    LP, LC, Lnew, g1, g2, g3, g4, g5⟩ := contract_final h hnew hc
  have hSC : t.S cid = some (some pid, C.children) := by rw [TTN.S_eq hC, hCp]
  have hpc : pid ≠ cid := h.str.parent_ne hSC
  have hlognew : t'.logical new = some Lnew := by
    have hT : dget t'.tensors new = some newT := by rw [a5]; simp
    rw [logical_eq a1 hT]; exact g3
  refine ⟨pid, cid, hids, hpc, by rw [hP]; simp, by rw [hC]; simp, hnew', ?_, ?_, ?_, ?_⟩
  · intro x ax
    unfold TTN.Leg
    rw [legPairs_eq a1 hlognew, legPairs_eq hP g1, legPairs_eq hC g2]
    exact g4 x ax
  · rw [openAxes_eq a1 hlognew, g5]
    rcases hids with ⟨e1, e2⟩ | ⟨e1, e2⟩
    · rw [if_pos e1.symm, ← e1, ← e2, openAxes_eq hP g1, openAxes_eq hC g2]
    · have : ¬ id1 = pid := by rw [← e2]; exact fun e => hpc e.symm
      rw [if_neg this, ← e1, ← e2, openAxes_eq hP g1, openAxes_eq hC g2]
  · intro k hk hk2
    have : t'.N k = none := by
      rcases hk2 with e | e
      · rw [e]; exact a2 (fun e' => hk (e.trans e'))
      · rw [e]; exact a3 (fun e' => hk (e.trans e'))
    exact ⟨legPairs_none this, openAxes_none this⟩
  · intro k hk hkp hkc
    obtain ⟨b1, b2⟩ := a4 k hk hkp hkc
    cases hn : t.N k with
    | none =>
      have := b1 hn
      rw [legPairs_none this, legPairs_none hn, openAxes_none this, openAxes_none hn]
      exact ⟨rfl, rfl⟩
    | some n =>
      obtain ⟨n', q1, q2⟩ := b2 n hn
      have hcn : cid ∉ n.children := (other_node_facts h hP hC hCp hn hkp hkc).2.2.2.1
      have hT : dget t'.tensors k = dget t.tensors k := by
        rw [a5]; simp [hk, hkp, hkc]
      obtain ⟨_, r2, r3⟩ := labels_of_rename (contrRho pid cid new) hn q1 q2.1 (crel_neighbours q2 hcn) hT
      exact ⟨r2, r3⟩

/-- **`contract_nodes` preserves the label invariant**: afterwards the two ends of every bond still carry
    the same axis (label and dimension). -/
theorem contract_lwf {t t' : TTN} {id1 id2 new : Id} (h : t.WF) (hl : t.LWF)
    (hnew : new = id1 ∨ new = id2 ∨ t.N new = none)
    (hc : t.contractNodes id1 id2 new = some t') : t'.LWF := by
  obtain ⟨pid, cid, _, hpc, hPn, hCn, hnew', c1, _, c3, c2⟩ := contract_labels h hnew hc
  have fresh : ∀ x, t.N x ≠ none → x ≠ pid → x ≠ cid → x ≠ new := by
    intro x hx h1 h2 e
    rcases hnew' with e' | e' | e'
    · exact h1 (e.trans e')
    · exact h2 (e.trans e')
    · rw [e] at hx; exact hx e'
  have to_new : ∀ x ax, t.N x ≠ none → x ≠ pid → x ≠ cid → (t.Leg x pid ax ∨ t.Leg x cid ax) →
      t'.Leg x new ax := by
    intro x ax hx h1 h2 hor
    unfold TTN.Leg
    rw [(c2 x (fresh x hx h1 h2) h1 h2).1, List.mem_map]
    rcases hor with h' | h'
    · exact ⟨(pid, ax), h', by simp [contrRho]⟩
    · exact ⟨(cid, ax), h', by simp [contrRho]⟩
  constructor
  intro k x' ax hk
  by_cases hkn : k = new
  · subst hkn
    rcases (c1 x' ax).mp hk with ⟨h1, hne⟩ | ⟨h1, hne⟩
    · have hs := hl.sym _ _ _ h1
      exact to_new x' ax (leg_isNode hs) (fun e => leg_ne h h1 e.symm) hne (Or.inl hs)
    · have hs := hl.sym _ _ _ h1
      exact to_new x' ax (leg_isNode hs) hne (fun e => leg_ne h h1 e.symm) (Or.inr hs)
  · by_cases hk2 : k = pid ∨ k = cid
    · unfold TTN.Leg at hk
      rw [(c3 k hkn hk2).1] at hk
      simp at hk
    · have hkp : k ≠ pid := fun e => hk2 (Or.inl e)
      have hkc : k ≠ cid := fun e => hk2 (Or.inr e)
      unfold TTN.Leg at hk
      rw [(c2 k hkn hkp hkc).1, List.mem_map] at hk
      obtain ⟨⟨x, ax'⟩, hm, he⟩ := hk
      simp only [Prod.mk.injEq] at he
      obtain ⟨he1, he2⟩ := he
      subst he2
      have hs : t.Leg x k ax' := hl.sym _ _ _ hm
      by_cases hxp : x = pid
      · subst hxp
        have : x' = new := by rw [← he1]; simp [contrRho]
        rw [this]
        exact (c1 k ax').mpr (Or.inl ⟨hs, hkc⟩)
      · by_cases hxc : x = cid
        · subst hxc
          have : x' = new := by rw [← he1]; simp [contrRho]
          rw [this]
          exact (c1 k ax').mpr (Or.inr ⟨hs, hkp⟩)
        · have : x' = x := by rw [← he1]; simp [contrRho, hxp, hxc]
          rw [this]
          unfold TTN.Leg
          rw [(c2 x (fresh x (leg_isNode hs) hxp hxc) hxp hxc).1, List.mem_map]
          exact ⟨(k, ax'), hs, by simp [contrRho, hkp, hkc]⟩

end Ptn.C02
